import Hdc.Lemmas.SafeSim
import Hdc.Lemmas.SafeBase
import Hdc.Gen.SafeRollingSum
import Hdc.Gen.KRollingSum
import Std.Tactic.Do
/-
SafeRollingSum  Memory safety of `ops/stats.py::rolling_sum`, proved FROM THE SOURCE: the translator's instrumentation mode
(harness/py2lean.py) writes Hdc/Gen/SafeRollingSum.lean = the translated program + the flag `bad`, raised in front of every
subscript `a[i]` with `i` outside `-len(a) ≤ i < len(a)`.

* `safe_rolling_sum_fst`  the instrumented program computes what the translated program computes;
* `safe_rolling_sum_ok`   the flag stays down whenever the output buffer is at least as long as the input - for EVERY
                          window size (0, negative, larger than the series): the window size is not a safety condition;
* `safe_rolling_sum_flag` and that hypothesis is exact: flag up  ↔  len(yy) < len(xx).
-/
namespace Hdc.SafeProps
open Hdc Hdc.Gen Hdc.Gen.Kernels Hdc.SafeSim Hdc.SafeLemmas Hdc.GenKernels Std.Do

set_option mvcgen.warning false
set_option linter.unusedSimpArgs false
set_option linter.unusedTactic false
set_option linter.unreachableTactic false

/-- (i) the instrumented program IS the translated `rolling_sum` plus a flag: same result on the same inputs (no hypotheses) -/
theorem safe_rolling_sum_fst (xx : Array Int) (window_size nodata : Int) (yy : Array Int) :
    (Safe.rolling_sum xx window_size nodata yy).1 = Kernels.rolling_sum xx window_size nodata yy := by
  unfold Safe.rolling_sum Kernels.rolling_sum
  safe_sim

/-- (ii) no subscript of `rolling_sum` leaves its array if `len(xx) ≤ len(yy)` (the gufunc layout `(n),(),() -> (n)` gives
    equality).  Nothing is assumed about `window_size`: with `window_size ≤ 0` the window `range(ii - w + 1, ii + 1)` is empty,
    with `window_size > ii + 1` the guard `ii - w + 1 < 0` skips it, otherwise `0 ≤ ii - w + 1 ≤ jj ≤ ii < n`.
    Invariant of both loops: the flag is down and `yy` has kept its length. -/
theorem safe_rolling_sum_ok (xx : Array Int) (window_size nodata : Int) (yy : Array Int)
    (hyy : xx.size ≤ yy.size) :
    (Safe.rolling_sum xx window_size nodata yy).2 = false := by
  generalize hres : Safe.rolling_sum xx window_size nodata yy = res
  apply Id.of_wp_run_eq hres
  mvcgen invariants
  -- state `(bad, yy, n_valid)` in both loops
  · ⇓⟨xs, s⟩ => ⌜s.1 = false ∧ s.2.1.size = yy.size⌝
  · ⇓⟨xs, s⟩ => ⌜s.1 = false ∧ s.2.1.size = yy.size⌝
  safe_vcs []

/-- the contract is exact: the flag is up IF AND ONLY IF the output buffer is shorter than the input (every `yy[ii]`, `ii < n`,
    is touched, whatever the window size).  Invariants: outer loop after `p` cells `bad ↔ len(yy) < p`; inner loop in cell `k`
    `0 ≤ n_valid` and `bad ↔ len(yy) < k ∨ (len(yy) ≤ k ∧ 0 < n_valid)` (the first valid cell of the window raises it). -/
theorem safe_rolling_sum_flag (xx : Array Int) (window_size nodata : Int) (yy : Array Int) :
    (Safe.rolling_sum xx window_size nodata yy).2 = true ↔ yy.size < xx.size := by
  generalize hres : Safe.rolling_sum xx window_size nodata yy = res
  apply Id.of_wp_run_eq hres
  mvcgen invariants
  · ⇓⟨xs, s⟩ => ⌜s.2.1.size = yy.size ∧ (s.1 = true ↔ yy.size < xs.prefix.length)⌝
  · ⇓⟨xs, s⟩ => by
      py_name cur as k
      exact ⌜s.2.1.size = yy.size ∧ 0 ≤ s.2.2
        ∧ (s.1 = true ↔ ((yy.size : Int) < k ∨ ((yy.size : Int) ≤ k ∧ 0 < s.2.2)))⌝
  safe_vcs_iff []

/-! ### the contract is needed: outside it the flag goes up (evaluated in the kernel) -/

/-- output buffer one cell short: `yy[2]` is out of range -/
example : (Safe.rolling_sum #[1, 2, 3] 2 (-1) #[0, 0]).2 = true := by decide +kernel

/-- in contract, windows 2, 0, -5 and 7 (> n): results and flag -/
example : Safe.rolling_sum #[1, 2, 3] 2 (-1) #[0, 0, 0] = (#[-1, 3, 5], false) := by decide +kernel
example : Safe.rolling_sum #[1, 2, 3] 0 (-1) #[0, 0, 0] = (#[-1, -1, -1], false) := by decide +kernel
example : Safe.rolling_sum #[1, 2, 3] (-5) (-1) #[0, 0, 0] = (#[-1, -1, -1], false) := by decide +kernel
example : Safe.rolling_sum #[1, 2, 3] 7 (-1) #[0, 0, 0] = (#[-1, -1, -1], false) := by decide +kernel

end Hdc.SafeProps
