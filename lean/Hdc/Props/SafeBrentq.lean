import Hdc.Gen.SafeBrentq
import Hdc.Gen.NumBrentq
import Hdc.Lemmas.GenNum
import Hdc.Lemmas.SafeBrent
import Hdc.Lemmas.SafeSimN
import Std.Tactic.Do
/-
SafeBrentq  Safety of `hdc/algo/ops/stats.py::brentq`, proved FROM THE SOURCE: `Hdc.Gen.Safe.brentq` (Hdc/Gen/SafeBrentq.lean) is
the statement-by-statement translation plus the flag `bad`.  `brentq` has no arrays; its scalar divisions are
    `/ 2` (twice; a non-zero literal: not instrumented),
    `/ (fcur - fpre)`, `/ (xpre - xcur)`, `/ (xblk - xcur)`, `/ (dblk * dpre * (fblk - fpre))`     -> `bad := bad || eqv … (nat 0)`.

  safe_brentq_fst   (Safe.brentq f xtol rtol xa xb s).1 = Gen.NumKernels.brentq f xtol rtol xa xb s      every carrier, every input
  safe_brentq_ok    (Safe.brentq f xtol rtol xa xb s).2 = false      for EVERY `f`, every bracket, every `xtol`, `rtol` (no hypothesis
                    at all), over every linearly ordered field: no divisor of `brentq` can be zero.  (The argument is exact-arithmetic:
                    it uses `f x = f x`, i.e. that `func` is a function, and the sign rules of an ordered field.)

Method: `mvcgen` with an early-return invariant (`BInv`, Hdc/Lemmas/SafeBrent.lean); one verification condition per path through
the `if`s of the loop body, all closed by the same tactic: the paths on which the bracket was reset or swapped reach the inverse
quadratic branch only with `xpre = xblk`, i.e. not at all.
-/
namespace Hdc.SafeBrentq
open Hdc Hdc.Gen.NumKernels Hdc.GenNum Hdc.SafeL Hdc.SafeBrent Hdc.SafeSimN Std.Do

set_option mvcgen.warning false
set_option linter.unusedSimpArgs false
set_option linter.unusedTactic false
set_option linter.unreachableTactic false
set_option linter.unusedSectionVars false

/-- (i) the instrumented program is the translated source plus a flag -/
theorem safe_brentq_fst {α : Type} [Add α] [Sub α] [Mul α] [Div α] [Neg α] [NatCast α] [LT α] [DecidableLT α]
    (f : α → α) (xtol rtol xa xb s : α) :
    (Gen.Safe.brentq f xtol rtol xa xb s).1 = Gen.NumKernels.brentq f xtol rtol xa xb s := by
  unfold Gen.Safe.brentq Gen.NumKernels.brentq
  safe_sim

variable {α : Type} [Field α] [LinearOrder α] [IsStrictOrderedRing α]

set_option maxHeartbeats 1000000 in
/-- (ii) no divisor of `brentq` is ever zero: for every `f`, bracket and tolerances -/
theorem safe_brentq_ok (f : α → α) (xtol rtol xa xb s : α) :
    (Gen.Safe.brentq f xtol rtol xa xb s).2 = false := by
  generalize hres : Gen.Safe.brentq f xtol rtol xa xb s = res
  apply Id.of_wp_run_eq hres
  mvcgen invariants
  · Invariant.withEarlyReturnNewDo
      (fun xs s => ⌜BInv f s⌝)
      (fun r _ => ⌜r.2 = false⌝)
  all_goals first
    -- one pass of the loop body (one verification condition per path through the `if`s): `brent_path`
    -- (Hdc/Lemmas/SafeBrent.lean) derives the mid-iteration facts of the path and applies `BInv.next` / `div1 … div4`
    | brent_path
    -- entry of the loop: the three tests before it leave a sign change
    | (simp (config := {zetaDelta := true}) only [decide_eq_true_eq, eqv_iff, nat_zero] at *
       exact Or.inl ⟨trivial, BInv.init f xa xb _ _ _ _ _ _ _ _ _ _ ‹¬ 0 < f xa * f xb› ‹¬ f xa = 0› ‹¬ f xb = 0›⟩)
    -- after the loop: an early `return` happened, or the budget is used up
    | (rename_i hx hinv
       rcases hinv with ⟨hn, hI⟩ | ⟨_, h2, _, h3⟩
       · first
           | exact hI.1
           | (rw [hn] at hx; cases hx)
       · rw [h2] at hx
         cases hx <;> exact h3)

/-! ### Non-vacuity (ℚ): runs that take the secant and the inverse quadratic branch -/

example : Gen.Safe.brentq (fun x : ℚ => x * x - 2) (1/1000) (1/1000) 0 3 7
    = (110306054471 / 77987487864, false) := by
  decide +kernel
example : (Gen.Safe.brentq (fun x : ℚ => x * x * x - x - 1) (1/1000) (1/1000) 0 3 7).2 = false :=
  safe_brentq_ok _ _ _ _ _ _
/-- no tolerance at all (`delta = 0`), a function that is constant around the root: still no zero divisor -/
example : (Gen.Safe.brentq (fun x : ℚ => if x < 1 then -1 else if 2 < x then 1 else 0) 0 0 0 3 7).2 = false := by
  decide +kernel

end Hdc.SafeBrentq
