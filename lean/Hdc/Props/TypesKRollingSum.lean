import Hdc.Props.TypesCommon
/-
Type-level theorems of the compiled kernel `rolling_sum` (see Hdc/Props/TypesCommon.lean for the families, the whitelists and
their justification).  One module per kernel, so that a change to the typing / decorator of one kernel breaks the obligations
of the properties anchored at that kernel only.
-/
namespace Hdc.Props.Types
open Hdc.Types Hdc.Gen.Types

gufunc_family rolling_sum documented prod [[.f32, .i16, .i32, .i64], sc, sc]

end Hdc.Props.Types
