import Hdc.Props.C01
import Mathlib.Tactic.Linarith
import Mathlib.Algebra.BigOperators.Intervals
/-
Consequences of C01 used by other properties: the Whittaker core is insensitive to data
under zero weights, reproduces straight lines, and commutes with shifts, scalings and
reversal of the series.
-/
namespace Hdc.C01
open Finset

set_option linter.unusedSectionVars false

variable {α : Type} [Field α] [LinearOrder α] [IsStrictOrderedRing α]

/-! ### reading lists as functions -/

theorem fn_of_lt (l : List α) (i : ℕ) (h : i < l.length) : fn l i = l[i] := Ws2d.fnl_of_lt l i h

theorem fn_map_of_lt (f : α → α) (l : List α) (i : ℕ) (h : i < l.length) :
    fn (l.map f) i = f (fn l i) := by
  rw [fn_of_lt _ i (by simpa using h), fn_of_lt _ i h]; simp

theorem fn_reverse_of_lt (l : List α) (i : ℕ) (h : i < l.length) :
    fn l.reverse i = fn l (l.length - 1 - i) := by
  rw [fn_of_lt _ i (by simpa using h), fn_of_lt _ _ (by omega)]; simp

theorem list_eq_of_fn (l l' : List α) (hl : l.length = l'.length)
    (h : ∀ i < l.length, fn l i = fn l' i) : l = l' := Ws2d.list_eq_of_fnl l l' hl h

/-! ### 6. data under zero weights is never looked at (unconditional) -/

theorem ws2d_congr_masked (y y' w : List α) (lam : α) (hlen : y'.length = y.length)
    (h : ∀ i, fn w i ≠ 0 → fn y i = fn y' i) : ws2d y lam w = ws2d y' lam w := by
  unfold ws2d
  congr 1
  rw [Ws2d.ws2dRows_eq, Ws2d.ws2dRows_eq, hlen]
  have hl : (w.zip y').length = (w.zip y).length := by simp [hlen]
  rw [hl]
  apply List.map_congr_left
  intro j _
  apply Ws2d.RS_congr
  intro k
  by_cases h0 : fn w k = 0
  · show fn w k * fn y k = fn w k * fn y' k
    rw [h0]; simp
  · show fn w k * fn y k = fn w k * fn y' k
    rw [h k h0]

/-! ### algebra of `DtD` -/

theorem DtD_affine (n : ℕ) (a b : α) (i : ℕ) : DtD n (fun k => a + b * (k : α)) i = 0 := by
  unfold DtD
  apply Finset.sum_eq_zero
  intro j _
  have : D2 (fun k : ℕ => a + b * (k : α)) j = 0 := by
    simp only [D2]; push_cast; ring
  rw [this, mul_zero]

theorem DtD_add_const (n : ℕ) (z : ℕ → α) (c : α) (i : ℕ) :
    DtD n (fun k => z k + c) i = DtD n z i := by
  unfold DtD
  apply Finset.sum_congr rfl
  intro j _
  have : D2 (fun k => z k + c) j = D2 z j := by simp only [D2]; ring
  rw [this]

theorem DtD_const_mul (n : ℕ) (z : ℕ → α) (a : α) (i : ℕ) :
    DtD n (fun k => a * z k) i = a * DtD n z i := by
  unfold DtD
  rw [Finset.mul_sum]
  apply Finset.sum_congr rfl
  intro j _
  have : D2 (fun k => a * z k) j = a * D2 z j := by simp only [D2]; ring
  rw [this]; ring

theorem Dmat_reflect (n j i : ℕ) (hj : j + 2 < n) (hi : i < n) :
    (Dmat j i : α) = Dmat (n - 3 - j) (n - 1 - i) := by
  unfold Dmat
  have e1 : (n - 1 - i = n - 3 - j) = (i = j + 2) := propext (by omega)
  have e2 : (n - 1 - i = n - 3 - j + 1) = (i = j + 1) := propext (by omega)
  have e3 : (n - 1 - i = n - 3 - j + 2) = (i = j) := propext (by omega)
  simp only [e1, e2, e3]
  split_ifs <;> first | rfl | omega

theorem DtD_reflect (n : ℕ) (z : ℕ → α) (i : ℕ) (hi : i < n) :
    DtD n (fun k => z (n - 1 - k)) i = DtD n z (n - 1 - i) := by
  unfold DtD
  rw [← Finset.sum_range_reflect (fun j => Dmat j (n - 1 - i) * D2 z j) (n - 2)]
  apply Finset.sum_congr rfl
  intro j hj
  have hj' : j + 2 < n := by have := mem_range.1 hj; omega
  have e0 : n - 2 - 1 - j = n - 3 - j := by omega
  rw [e0, ← Dmat_reflect n j i hj' hi]
  congr 1
  simp only [D2]
  have i1 : n - 1 - (j + 1) = n - 3 - j + 1 := by omega
  have i2 : n - 1 - (j + 2) = n - 3 - j := by omega
  have i3 : n - 1 - j = n - 3 - j + 2 := by omega
  rw [i1, i2, i3]; ring

variable {y w : List α} {lam : α}

/-! ### 7. straight lines are reproduced (gap filling on the same line) -/

theorem ws2d_affine (h : InContract y w lam) (a b : α)
    (hy : ∀ i, fn w i ≠ 0 → fn y i = a + b * (i : α)) :
    ∀ i < y.length, fn (ws2d y lam w) i = a + b * (i : α) := by
  have hN : NormalEq y.length (fn y) (fn w) lam (fun k => a + b * (k : α)) := by
    intro i _
    rw [DtD_affine]
    by_cases h0 : fn w i = 0
    · rw [h0]; simp
    · rw [hy i h0]; simp
  intro i hi
  exact (ws2d_unique h _ hN i hi).symm

/-! ### 8. shift -/

theorem InContract.map (h : InContract y w lam) (f : α → α) : InContract (y.map f) w lam where
  len := by simpa using h.len
  wlen := by simpa using h.wlen
  lam_pos := h.lam_pos
  w_nonneg := h.w_nonneg
  two_pos := h.two_pos

theorem ws2d_shift_fn (h : InContract y w lam) (c : α) :
    ∀ i < y.length, fn (ws2d (y.map (· + c)) lam w) i = fn (ws2d y lam w) i + c := by
  have h' := h.map (· + c)
  have hN : NormalEq (y.map (· + c)).length (fn (y.map (· + c))) (fn w) lam
      (fun k => fn (ws2d y lam w) k + c) := by
    intro i hi
    have hi' : i < y.length := by simpa using hi
    rw [List.length_map, DtD_add_const, fn_map_of_lt _ _ _ hi']
    have := ws2d_normal_eq h i hi'
    linear_combination this
  intro i hi
  exact (ws2d_unique h' _ hN i (by simpa using hi)).symm

theorem ws2d_shift (h : InContract y w lam) (c : α) :
    ws2d (y.map (· + c)) lam w = (ws2d y lam w).map (· + c) := by
  have l1 : (ws2d (y.map (· + c)) lam w).length = y.length := by
    rw [ws2d_length _ _ _ (by simpa using h.wlen)]; simp
  have l2 : (ws2d y lam w).length = y.length := ws2d_length _ _ _ h.wlen
  apply list_eq_of_fn _ _ (by rw [l1, List.length_map, l2])
  intro i hi
  rw [l1] at hi
  rw [ws2d_shift_fn h c i hi, fn_map_of_lt _ _ _ (by rw [l2]; exact hi)]

/-! ### 10. scaling -/

theorem ws2d_scale_fn (h : InContract y w lam) (a : α) :
    ∀ i < y.length, fn (ws2d (y.map (a * ·)) lam w) i = a * fn (ws2d y lam w) i := by
  have h' := h.map (a * ·)
  have hN : NormalEq (y.map (a * ·)).length (fn (y.map (a * ·))) (fn w) lam
      (fun k => a * fn (ws2d y lam w) k) := by
    intro i hi
    have hi' : i < y.length := by simpa using hi
    rw [List.length_map, DtD_const_mul, fn_map_of_lt _ _ _ hi']
    have := ws2d_normal_eq h i hi'
    linear_combination a * this
  intro i hi
  exact (ws2d_unique h' _ hN i (by simpa using hi)).symm

theorem ws2d_scale (h : InContract y w lam) (a : α) :
    ws2d (y.map (a * ·)) lam w = (ws2d y lam w).map (a * ·) := by
  have l1 : (ws2d (y.map (a * ·)) lam w).length = y.length := by
    rw [ws2d_length _ _ _ (by simpa using h.wlen)]; simp
  have l2 : (ws2d y lam w).length = y.length := ws2d_length _ _ _ h.wlen
  apply list_eq_of_fn _ _ (by rw [l1, List.length_map, l2])
  intro i hi
  rw [l1] at hi
  rw [ws2d_scale_fn h a i hi, fn_map_of_lt _ _ _ (by rw [l2]; exact hi)]

/-! ### 9. reversal -/

theorem InContract.reverse (h : InContract y w lam) : InContract y.reverse w.reverse lam where
  len := by simpa using h.len
  wlen := by simpa using h.wlen
  lam_pos := h.lam_pos
  w_nonneg := fun x hx => h.w_nonneg x (List.mem_reverse.1 hx)
  two_pos := by
    obtain ⟨p, q, hpq, hq, hwp, hwq⟩ := h.two_pos
    refine ⟨w.length - 1 - q, w.length - 1 - p, by omega, by simp; omega, ?_, ?_⟩
    · rw [fn_reverse_of_lt _ _ (by omega)]
      have : w.length - 1 - (w.length - 1 - q) = q := by omega
      rwa [this]
    · rw [fn_reverse_of_lt _ _ (by omega)]
      have : w.length - 1 - (w.length - 1 - p) = p := by omega
      rwa [this]

theorem ws2d_reverse_fn (h : InContract y w lam) :
    ∀ i < y.length,
      fn (ws2d y.reverse lam w.reverse) i = fn (ws2d y lam w) (y.length - 1 - i) := by
  have h' := h.reverse
  have hN : NormalEq y.reverse.length (fn y.reverse) (fn w.reverse) lam
      (fun k => fn (ws2d y lam w) (y.length - 1 - k)) := by
    intro i hi
    have hi' : i < y.length := by simpa using hi
    rw [List.length_reverse, DtD_reflect _ _ _ hi', fn_reverse_of_lt _ _ hi',
      fn_reverse_of_lt _ _ (by rw [h.wlen]; exact hi'), h.wlen]
    exact ws2d_normal_eq h (y.length - 1 - i) (by omega)
  intro i hi
  exact (ws2d_unique h' _ hN i (by simpa using hi)).symm

theorem ws2d_reverse (h : InContract y w lam) :
    ws2d y.reverse lam w.reverse = (ws2d y lam w).reverse := by
  have l1 : (ws2d y.reverse lam w.reverse).length = y.length := by
    rw [ws2d_length _ _ _ (by simpa using h.wlen)]; simp
  have l2 : (ws2d y lam w).length = y.length := ws2d_length _ _ _ h.wlen
  apply list_eq_of_fn _ _ (by rw [l1, List.length_reverse, l2])
  intro i hi
  rw [l1] at hi
  rw [ws2d_reverse_fn h i hi, fn_reverse_of_lt _ _ (by rw [l2]; exact hi), l2]

end Hdc.C01
