import Hdc.Lemmas.GenNumACFloat
import Hdc.Gen.NumAutocorrFloat
import Std.Tactic.Do
/-
GenNumACFloat  The GENERATED translation of `ops/autocorr.py::autocorr_1d_float` (Hdc/Gen/NumAutocorrFloat.lean, written by
harness/py2lean_stats.py from the Python source on every run) computes the hand model `Hdc.autocorr1d` (accumulation
`Hdc.acAccum` AND the closing formula), over every linearly ordered field.

This is the floating analogue of `GenKAC.gen_autocorr_sums_eq_model` (the integer kernel, cut before the formula): here
the whole function is translated.  `isnan` is a parameter of the generated program (an ordered field has no NaN): the
model's `none` cells are exactly the cells `isnan` reports.  The counters `nx`, `ny`, `nxy` are floating in the source
(`float64(0)`, `+= 1`) and naturals in the model; `nxy == 0` on the floating counter is `s.nxy = 0` because the field has
characteristic 0.  `x ** -0.5` is the parameter `rsqrt`, `1e-8` the parameter `eps`.

Method as in GenKAC / GenNumBrent: `mvcgen`, one invariant (Hdc/Lemmas/GenNumACFloat.lean), the two `return`s after the loop
are ordinary branches.
-/
namespace Hdc.GenNumACFloat
open Hdc Hdc.Gen.NumKernels Hdc.PyNpT Hdc.GenNum Std.Do
open Hdc.Ws2dGen (av)
open Hdc.Ws2d (fnl)

set_option mvcgen.warning false
set_option linter.unusedSimpArgs false
set_option linter.unusedTactic false
set_option linter.unreachableTactic false

variable {α : Type} [Field α] [LinearOrder α] [IsStrictOrderedRing α]

/-- The translated `autocorr_1d_float` equals the model, for ANY series (also the empty and the one-element one: `data[:-1]`
    is empty, the loop does not run, both sides return 0), any `isnan`, `rsqrt`, `eps`.  No hypothesis. -/
theorem gen_autocorr_1d_float_eq_model (isnan : α → Bool) (rsqrt : α → α) (eps : α) (data : List α) :
    Gen.NumKernels.autocorr_1d_float isnan rsqrt eps data.toArray
      = Hdc.autocorr1d rsqrt eps (data.map fun v => if isnan v then none else some v) := by
  show _ = autocorr1d rsqrt eps (acOpt isnan data)
  generalize hres : Gen.NumKernels.autocorr_1d_float isnan rsqrt eps data.toArray = res
  apply Id.of_wp_run_eq hres
  mvcgen invariants
  · ⇓⟨xs, s⟩ => ⌜AcInv isnan data xs.prefix.length s.2.2.2.2⌝
  all_goals
    pyn_ranges
    simp (config := {zetaDelta := true}) only [pySliceG_init, pySliceG_tail, List.size_toArray,
      List.length_append, List.length_singleton, List.length_nil, pyRange_length, List.length_dropLast,
      decide_eq_true_eq, Bool.and_eq_true, Bool.or_eq_true, Bool.not_eq_true', not_and] at *
  all_goals first
    -- one iteration (one condition per combination of the three `if`s; some are contradictory):
    -- `xx[i] = data[i]`, `yy[i] = data[i+1]`
    | (py_name cur as i; py_name pref as pref
       have hi : i.toNat = pref.length := by omega
       simp (disch := omega) only [rd_nonneg, av_toArray, hi, fnl_dropLast, fnl_tail] at *
       refine AcInv.step ‹AcInv _ _ _ _› (by omega) rfl rfl ?_
       simp_all [acNext, nat])
    -- entry of the loop
    | simpa [nat] using AcInv.init isnan data
    -- after the loop: `return 0` (no valid pair / a vanishing variance) or the quotient
    | (rename_i hinv
       obtain ⟨S, hS, hSeq⟩ := AcInv.final hinv (by omega)
       rw [autocorr1d_of_sums rsqrt eps _ S hSeq]
       clear hSeq hinv
       simp only [hS, acTuple] at *
       simp only [*, if_true, if_false, Bool.false_eq_true, ite_self])

/-- fewer than two cells: 0 (source and model) -/
theorem gen_autocorr_1d_float_short (isnan : α → Bool) (rsqrt : α → α) (eps : α) (data : List α)
    (h : data.length ≤ 1) : Gen.NumKernels.autocorr_1d_float isnan rsqrt eps data.toArray = 0 := by
  rw [gen_autocorr_1d_float_eq_model]
  match data, h with
  | [], _ => simp [autocorr1d, acAccum, ACSums.zero, nat]
  | [a], _ => simp [autocorr1d, acAccum, ACSums.zero, nat]

/-! ### Non-vacuity: concrete rational inputs (−1 plays NaN, `rsqrt v = 1 / v`), evaluated on the model side -/

example : Gen.NumKernels.autocorr_1d_float (fun v : ℚ => decide (v = -1)) (fun v => 1 / v) (1 / 100000000)
    [1, 2, -1, 4, 5].toArray = 10 / 441 := by
  rw [gen_autocorr_1d_float_eq_model]; decide +kernel

example : Gen.NumKernels.autocorr_1d_float (fun v : ℚ => decide (v = -1)) (fun v => 1 / v) (1 / 100000000)
    [1, 2, -1, 4, 7, 3].toArray = 1 / 1568 := by
  rw [gen_autocorr_1d_float_eq_model]; decide +kernel

/-- a constant series: the variance vanishes, `return 0` -/
example : Gen.NumKernels.autocorr_1d_float (fun v : ℚ => decide (v = -1)) (fun v => 1 / v) (1 / 100000000)
    [3, 3, 3].toArray = 0 := by
  rw [gen_autocorr_1d_float_eq_model]; decide +kernel

example : Gen.NumKernels.autocorr_1d_float (fun v : ℚ => decide (v = -1)) (fun v => 1 / v) (1 / 100000000)
    [3].toArray = 0 := gen_autocorr_1d_float_short _ _ _ [3] (by decide)

end Hdc.GenNumACFloat
