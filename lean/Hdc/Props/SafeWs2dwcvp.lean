import Hdc.Gen.SafeWs2dwcvp
import Hdc.Gen.NumWs2dwcvp
import Hdc.Props.SafeWs2d
import Hdc.Lemmas.SafeSimN
/-
SafeWs2dwcvp  `hdc/algo/ops/ws2dwcvp.py::ws2dwcvp`, instrumented (Hdc/Gen/SafeWs2dwcvp.lean, written by the `safe` mode of
harness/py2lean_wcv.py): the statement-by-statement translation plus the flag `bad`.

  safe_ws2dwcvp_fst   (Safe.ws2dwcvp …).1 = Gen.NumKernels.ws2dwcvp …       every carrier, every input
-/
namespace Hdc.SafeWs2dwcvp
open Hdc Hdc.Gen.NumKernels Hdc.SafeSimN

/-- (i) the instrumented program is the translated source plus a flag -/
theorem safe_ws2dwcvp_fst {α : Type} [Add α] [Sub α] [Mul α] [Div α] [Neg α] [NatCast α] [LT α] [DecidableLT α] [IntCast α]
    (G : GFns α) (cos : α → α) (isnan isinf : α → Bool) (rnd : α → α) (pi : α) (y : Array α) (nodata p : α)
    (llas : Array α) (robust : Bool) (out lopt : Array α) :
    (Gen.Safe.ws2dwcvp G cos isnan isinf rnd pi y nodata p llas robust out lopt).1
      = Gen.NumKernels.ws2dwcvp G cos isnan isinf rnd pi y nodata p llas robust out lopt := by
  unfold Gen.Safe.ws2dwcvp Gen.NumKernels.ws2dwcvp
  simp only [SafeWs2d.safe_ws2d_fst]
  safe_sim

end Hdc.SafeWs2dwcvp
