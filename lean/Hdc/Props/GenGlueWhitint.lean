import Hdc.Gen.GlueWhitint
import Hdc.Lemmas.GenGlueWhit
/-
GenGlueWhitint  The GENERATED translation of the accessor `WhittakerSmoother.whitint` (Hdc/Gen/GlueWhitint.lean) equals the decision
table `Hdc.AccWhit.whitintPlan`, and the consequences C20 relies on: a dtype other than int16 raises NotImplementedError, the output
template is `np.zeros(k, dtype='u1')` with `k` = the number of DISTINCT daily labels, and that same array's `.size` is the declared
length of the output axis `newtime` (part of the matched literal text of the `apply_ufunc` call, together with `output_dtypes=['int16']`,
the core dims, `dask=` and `keep_attrs=`).
-/
namespace Hdc.GenGlue
open Hdc Hdc.PyGlue Hdc.Gen.Glue Hdc.AccWhit

set_option linter.unusedSimpArgs false
set_option linter.unusedVariables false

variable {T TO DA : Type}

/-- REFINEMENT: the translated accessor is the plan, run by the kernel parameter (no hypothesis) -/
theorem gen_whitint_eq_plan (ct : Bool) (dt : String) (z : Int → TO) (ati : T → List Int → TO → DA) (labels : List Int) (t : T) :
    whitint ct dt z ati labels t = (whitintPlan ct dt labels t).map (runTI z ati) := by
  unfold whitint whitintPlan
  rcases ct with _ | _
  all_goals glue_eval
  · rfl
  · by_cases h : dt = "int16"
    · subst h; rfl
    · simp only [h, decide_not, decide_false, Bool.not_false, not_false_eq_true, if_true, raise_bind, raise_eq, ne_eq,
        except_map_error, decide_true]

/-- no time dimension: MissingTimeError (checked BEFORE the dtype) -/
theorem gen_whitint_no_time (dt : String) (z : Int → TO) (ati : T → List Int → TO → DA) (labels : List Int) (t : T) :
    whitint false dt z ati labels t = .error .missingTimeError := by
  rw [gen_whitint_eq_plan]; rfl

/-- a dtype other than int16 (`hdt`): NotImplementedError -/
theorem gen_whitint_not_int16 (dt : String) (z : Int → TO) (ati : T → List Int → TO → DA) (labels : List Int) (t : T)
    (hdt : dt ≠ "int16") :
    whitint true dt z ati labels t = .error .notImplementedError := by
  rw [gen_whitint_eq_plan]
  simp only [whitintPlan, hdt, Bool.not_true, Bool.false_eq_true, if_false, if_true, ne_eq, not_false_eq_true, except_map_error]

/-- int16 input: `tinterpolate(template, labels_daily, template_out)` with `template_out = np.zeros(k, 'u1')`,
    `k` = number of distinct labels; template and labels are passed unchanged, in this order -/
theorem gen_whitint_int16 (z : Int → TO) (ati : T → List Int → TO → DA) (labels : List Int) (t : T) :
    whitint true "int16" z ati labels t = .ok (ati t labels (z ((Hdc.Py.unique labels).length : Int))) := by
  rw [gen_whitint_eq_plan]; rfl

/-- the accessor succeeds ONLY for int16 input -/
theorem gen_whitint_ok_iff (ct : Bool) (dt : String) (z : Int → TO) (ati : T → List Int → TO → DA) (labels : List Int) (t : T) :
    (∃ r, whitint ct dt z ati labels t = .ok r) ↔ (ct = true ∧ dt = "int16") := by
  constructor
  · rintro ⟨r, h⟩
    rcases ct with _ | _
    · rw [gen_whitint_no_time] at h; exact nomatch h
    · by_cases hdt : dt = "int16"
      · exact ⟨rfl, hdt⟩
      · rw [gen_whitint_not_int16 _ _ _ _ _ hdt] at h; exact nomatch h
  · rintro ⟨rfl, rfl⟩
    exact ⟨_, gen_whitint_int16 z ati labels t⟩

/-! non-vacuity: the kernel records its arguments, `zeros_u1 n` is the list of n zeros -/
section examples
private def zX : Int → List Int := fun n => List.replicate n.toNat 0
private def atiX : String → List Int → List Int → String × List Int × List Int := fun t l o => (t, l, o)

/-- five daily labels, three distinct: an output template of three zeros -/
example : whitint true "int16" zX atiX [0, 0, 1, 2, 2] "tmpl" = .ok ("tmpl", [0, 0, 1, 2, 2], [0, 0, 0]) := by
  rw [gen_whitint_int16]; rfl
/-- outside `dt = "int16"` (`gen_whitint_int16`), and an instance of `hdt` -/
example : whitint true "float32" zX atiX [0, 0, 1, 2, 2] "tmpl" = .error .notImplementedError :=
  gen_whitint_not_int16 _ _ _ _ _ (by decide)
/-- `hdt` of `gen_whitint_not_int16` is necessary -/
example : whitint true "int16" zX atiX [0, 0, 1, 2, 2] "tmpl" ≠ .error .notImplementedError := by
  rw [gen_whitint_int16]; exact fun h => nomatch h
/-- outside `ct = true` -/
example : whitint false "int16" zX atiX [0, 0, 1, 2, 2] "tmpl" = .error .missingTimeError := gen_whitint_no_time ..
end examples

end Hdc.GenGlue
