import Hdc.Gen.SafeGammastdGrp
import Hdc.Gen.NumGammastdGrp
import Hdc.Lemmas.SafeGammastdGrp
import Hdc.Props.SafeGammastd
import Std.Tactic.Do
/-
SafeGammastdGrp  Safety of `hdc/algo/ops/stats.py::gammastd_grp`, proved FROM THE SOURCE: `Hdc.Gen.Safe.gammastd_grp`
(Hdc/Gen/SafeGammastdGrp.lean, written by the class `SafeS` of harness/py2lean_spi.py) is the statement-by-statement translation
plus the flag `bad`, set by (predicates: Hdc/PySafeS.lean)
    `oob2 cal_indices grp 0`, `oob2 cal_indices grp 1`   the 2-d subscripts `cal_indices[grp, 0]`, `cal_indices[grp, 1]`: `grp` is not a
                                                 row of `cal_indices`, or the row has no column 0 / 1
    `badMask xx.size grp_ix.size`                `xx[grp_ix]`: the mask `groups == grp` has not the length of `xx`
    `badMask yy.size grp_ix.size`                `yy[grp_ix] = nodata`, `yy[grp_ix] = res[:]`: the same for the output buffer
    `(Safe.gammastd … pix nodata cal_start cal_stop 0 0).2`   the call of `gammastd` on the group's series (its window slice, …)
    `badMask res.size valid_ix.size`, `badMaskSet valid_ix (np.clip(res[valid_ix] * 1000, …)).size`
                                                 `res[valid_ix] = np.clip(res[valid_ix] * 1000, …)` (mask and value are built from `res`)
    `badMaskSet grp_ix res.size`                 `yy[grp_ix] = res[:]`: the group has as many cells as `res` has values
(`groups == grp`, `pix != nodata`, `res != nodata`, `.sum()`, `* 1000`, `np.clip`, `np.round(res, 0, res)`: cannot raise, no check.)

  safe_gammastd_grp_fst   (Safe.gammastd_grp …).1 = Gen.NumKernels.gammastd_grp …       every carrier, every input
  safe_gammastd_grp_ok    the flag is false under `Contract`:
      hg     num_groups > 0 → len groups = len xx          the mask `groups == grp` indexes `xx` (the gufunc signature
                                                           `(n),(m),(),(),(o,p)->(n)` does NOT enforce `m = n`)
      hy     num_groups > 0 → len yy = len xx              the output core dimension `(n)` (the gufunc allocates it so)
      hrows  every `g` in `range(num_groups)` is a row of `cal_indices` with at least two columns
      hwin   for every `g` in `range(num_groups)` whose series `xx[groups == g]` has a cell other than `nodata` (otherwise `gammastd`
             is not called): `0 ≤ cal_indices[g, 0] ≤ cal_indices[g, 1] ≤ len xx[groups == g]`, the contract of `gammastd`
             (`SafeGammastd.safe_gammastd_ok`) for the GROUP's series
  `example`s             an instance of the contract, and for every hypothesis an input outside it with the flag set
-/
namespace Hdc.SafeGammastdGrp
open Hdc Hdc.Gen.NumKernels Hdc.GenNum Hdc.SafeL Hdc.SafeSimN Hdc.SafeGammastd Hdc.SafeSpi Std.Do

set_option mvcgen.warning false
set_option linter.unusedSimpArgs false
set_option linter.unusedTactic false
set_option linter.unreachableTactic false
set_option linter.unusedSectionVars false

/-- (i) the instrumented program is the translated source plus a flag -/
theorem safe_gammastd_grp_fst {α : Type} [Add α] [Sub α] [Mul α] [Div α] [Neg α] [NatCast α] [LT α] [DecidableLT α]
    [IntCast α] (F : GamFns α) (digamma : α → α) (xtol rtol : α) (rnd : α → α) (xx : Array α) (groups : Array Int)
    (num_groups : Int) (nodata : α) (cal_indices : Array (Array Int)) (yy : Array α) :
    (Gen.Safe.gammastd_grp F digamma xtol rtol rnd xx groups num_groups nodata cal_indices yy).1
      = Gen.NumKernels.gammastd_grp F digamma xtol rtol rnd xx groups num_groups nodata cal_indices yy := by
  unfold Gen.Safe.gammastd_grp Gen.NumKernels.gammastd_grp
  simp only [safe_gammastd_fst]
  safe_sim

variable {α : Type} [Field α] [LinearOrder α] [IsStrictOrderedRing α]

/-- the series of group `g`: `xx[groups == g]` -/
abbrev series (xx : Array α) (groups : Array Int) (g : Int) : Array α :=
  npGather xx (groups.map fun e => decide (e = g))

/-- the contract of `gammastd_grp` (see the header) -/
structure Contract (xx : Array α) (groups : Array Int) (num_groups : Int) (nodata : α)
    (cal : Array (Array Int)) (yy : Array α) : Prop where
  hg : 0 < num_groups → groups.size = xx.size
  hy : 0 < num_groups → yy.size = xx.size
  hrows : ∀ g : Int, 0 ≤ g → g < num_groups → g < cal.size ∧ 2 ≤ (cal.getD g.toNat #[]).size
  hwin : ∀ g : Int, 0 ≤ g → g < num_groups →
    npCount ((series xx groups g).map fun e => !(eqv e nodata)) ≠ 0 →
    0 ≤ rdI2 cal g 0 ∧ rdI2 cal g 0 ≤ rdI2 cal g 1 ∧ rdI2 cal g 1 ≤ ((series xx groups g).size : Int)

/-- (ii) under the contract the flag is false -/
theorem safe_gammastd_grp_ok (F : GamFns α) (digamma : α → α) (xtol rtol : α) (rnd : α → α) (xx : Array α)
    (groups : Array Int) (num_groups : Int) (nodata : α) (cal_indices : Array (Array Int)) (yy : Array α)
    (hc : Contract xx groups num_groups nodata cal_indices yy) :
    (Gen.Safe.gammastd_grp F digamma xtol rtol rnd xx groups num_groups nodata cal_indices yy).2 = false := by
  generalize hres : Gen.Safe.gammastd_grp F digamma xtol rtol rnd xx groups num_groups nodata cal_indices yy = res
  apply Id.of_wp_run_eq hres
  mvcgen invariants
  · ⇓⟨xs, s⟩ => ⌜s.1 = false ∧ s.2.1.size = yy.size⌝
  all_goals
    pyn_ranges
  all_goals first
    | exact ⟨rfl, rfl⟩
    | exact (‹_ = false ∧ _ = yy.size›).1
    | skip
  all_goals
    obtain ⟨hb, hsz⟩ := ‹_ = false ∧ _ = yy.size›
    obtain ⟨rfl, hlt⟩ := hrange
    have hpos : 0 < num_groups := by omega
    have hg := hc.hg hpos
    have hy := hc.hy hpos
    obtain ⟨hr1, hr2⟩ := hc.hrows _ (by omega) hlt
    have hw := hc.hwin _ (by omega) hlt
    have ho0 := oob2_false cal_indices _ 0 (by omega) hr1 (by omega) (by omega)
    have ho1 := oob2_false cal_indices _ 1 (by omega) hr1 (by omega) (by omega)
    have hc2 : ∀ (r : Array α) (p : α → Bool), ((npGather r (r.map p)).size : ℤ) = npCount (r.map p) :=
      fun r p => (size_npGather r _ (Array.size_map ..).symm).symm
    simp (config := {zetaDelta := true}) only [decide_eq_true_eq, ne_eq] at *
    simp (config := {zetaDelta := true}) only [hb, ho0, ho1, hsz, hy, hg, hc2, Array.size_map, size_npMaskFill,
      size_npMaskSet, size_safe_gammastd, badMask_eq_false_iff, badMaskSet_eq_false_iff, Bool.or_false, Bool.false_or,
      Bool.or_eq_false_iff, true_and, and_true, and_self]
    first
      | done
      | exact ⟨safe_gammastd_ok _ _ _ _ _ _ _ _ _ _ (fun _ _ => hw ‹_›),
          size_npGather xx _ (hg.symm.trans (Array.size_map ..).symm)⟩


/-! ### Non-vacuity and sharpness (ℚ, the toy instance `Gq`, `dgq` of Hdc/Props/SafeGammafit.lean; `round = id`) -/

private def gv (xx : Array ℚ) (groups : Array ℤ) (n : ℤ) (cal : Array (Array ℤ)) (yy : Array ℚ) : Bool :=
  (Gen.Safe.gammastd_grp SafeGammafit.Gq SafeGammafit.dgq (1 / 1000) (1 / 1000) (fun v => v) xx groups n (-9999) cal yy).2

/-- in contract: group 0 = the series 1, 2, −1, 3 (window [0, 4)), group 1 = one cell, label 2 outside `range(num_groups)` -/
example : gv #[1, 2, 5, -1, 3, 7] #[0, 0, 1, 0, 0, 2] 2 #[#[0, 4], #[0, 1]] #[77, 77, 77, 77, 77, 77] = false :=
  safe_gammastd_grp_ok _ _ _ _ _ _ _ _ _ _ _
    ⟨fun _ => by decide, fun _ => by decide,
     fun g h0 h2 => by obtain rfl | rfl : g = 0 ∨ g = 1 := by omega
                       all_goals decide,
     fun g h0 h2 _ => by obtain rfl | rfl : g = 0 ∨ g = 1 := by omega
                         all_goals decide +kernel⟩
example : Gen.Safe.gammastd_grp SafeGammafit.Gq SafeGammafit.dgq (1 / 1000) (1 / 1000) (fun v => v)
    #[1, 2, 5, -1, 3, 7] #[0, 0, 1, 0, 0, 2] 2 (-9999) #[#[0, 4], #[0, 1]] #[77, 77, 77, 77, 77, 77]
    = (#[-125 / 2, -125, -9999, -9999, -375 / 2, 77], false) := by decide +kernel
/-- `num_groups = 0`: nothing is looked at -/
example : gv #[1, 2] #[] 0 #[] #[] = false :=
  safe_gammastd_grp_ok _ _ _ _ _ _ _ _ _ _ _
    ⟨fun h => absurd h (by decide), fun h => absurd h (by decide), fun g _ _ => by omega, fun g _ _ => by omega⟩
/-- a group without a valid cell is filled with `nodata`; its window is not looked at (here [5, 3)) -/
example : gv #[-9999, -9999] #[0, 0] 1 #[#[5, 3]] #[0, 0] = false :=
  safe_gammastd_grp_ok _ _ _ _ _ _ _ _ _ _ _
    ⟨fun _ => by decide, fun _ => by decide,
     fun g h0 h2 => by obtain rfl : g = 0 := by omega
                       decide,
     fun g h0 h2 h => by obtain rfl : g = 0 := by omega
                         exact absurd (by decide +kernel) h⟩
/-- `hg`: `groups` shorter / longer than `xx` (NumPy: boolean index did not match) -/
example : gv #[1, 2, -1, 3] #[0, 0, 0] 1 #[#[0, 3]] #[0, 0, 0, 0] = true := by decide +kernel
example : gv #[1, 2, -1, 3] #[0, 0, 0, 0, 0] 1 #[#[0, 4]] #[0, 0, 0, 0] = true := by decide +kernel
/-- `hy`: an output buffer of another length -/
example : gv #[1, 2, -1, 3] #[0, 0, 0, 0] 1 #[#[0, 4]] #[0, 0, 0] = true := by decide +kernel
/-- `hrows`: fewer rows than groups; a row with one column -/
example : gv #[1, 2, -1, 3] #[0, 0, 0, 0] 2 #[#[0, 4]] #[0, 0, 0, 0] = true := by decide +kernel
example : gv #[1, 2, -1, 3] #[0, 0, 0, 0] 1 #[#[0]] #[0, 0, 0, 0] = true := by decide +kernel
/-- `hwin`: a window that ends after the GROUP's series (it would fit into `xx`), starts before 0, or is reversed -/
example : gv #[1, 2, 9, -1, 3] #[0, 0, 1, 0, 0] 1 #[#[0, 5]] #[0, 0, 0, 0, 0] = true := by decide +kernel
example : gv #[1, 2, -1, 3] #[0, 0, 0, 0] 1 #[#[-1, 4]] #[0, 0, 0, 0] = true := by decide +kernel
example : gv #[1, 2, -1, 3] #[0, 0, 0, 0] 1 #[#[3, 2]] #[0, 0, 0, 0] = true := by decide +kernel

end Hdc.SafeGammastdGrp
