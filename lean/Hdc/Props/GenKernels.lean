import Hdc.Lemmas.GenKernelsMK
import Hdc.Lemmas.GenKernelsLroo
import Hdc.Lemmas.GenKernelsAC
import Hdc.Lemmas.GenKernelsRS
import Std.Tactic.Do
/-
GenKernels  The GENERATED translations of four integer loop kernels (Hdc/Gen/Kernels.lean, imperative
`Id.run do` programs over `Array Int` with Python index semantics, regenerated from the Python
sources on every verification run) compute their hand models.

Method (as in C01gen): the verification-condition generator `mvcgen` (Std.Do) is run on the generated
program with one invariant per loop, stated through ℕ-indexed functions of the model
(Hdc/Lemmas/GenKernels*.lean).  The generated expressions are never copied into this file: the position
of every `for … in range(a, b)` is recovered by `py_ranges`, reads `rd a i` are rewritten to ℕ-indexed
reads by `rd_nonneg` (side condition `0 ≤ i` by `omega`), writes `wr a i v` through `wr_upd`.
An invariant of an inner loop that mentions the loop variable of the enclosing loop names it by
`py_name cur as k` inside the invariant.

The verification conditions are not addressed by their generated tags (`vc3.step.isTrue…`, which
change when the branching structure of the source is rearranged) but by what they are: every proof
ends with `all_goals first | ‹step› | ‹entry› | ‹exit›`, each alternative failing quickly on the
conditions of the other kinds (a missing loop variable, an unprovable bound).
-/
namespace Hdc.GenKernels
open Hdc Hdc.Gen.Kernels Std.Do

set_option mvcgen.warning false
set_option linter.unusedSimpArgs false
set_option linter.unusedTactic false
set_option linter.unreachableTactic false

/-! ### mk_score: the two counters of the Mann-Kendall score -/

/-- The translated `mk_score` loop returns (#concordant, #discordant) of the model (any input,
    including the empty and the one-element series). -/
theorem gen_mk_score_eq_model (x : List Int) :
    Gen.Kernels.mk_score_counts x.toArray
      = (((Hdc.mkCounts x).1 : Int), ((Hdc.mkCounts x).2 : Int)) := by
  generalize hres : Gen.Kernels.mk_score_counts x.toArray = res
  apply Id.of_wp_run_eq hres
  mvcgen invariants
  -- outer loop, after `p` rows: everything the rows `< p` contribute
  · ⇓⟨xs, s⟩ => ⌜s = ((preA x xs.prefix.length : Int), (preB x xs.prefix.length : Int))⌝
  -- inner loop in row `k`, after `q` partners
  · ⇓⟨xs, s⟩ => by
      py_name cur as k
      exact ⌜s = ((preA x k.toNat + above x k.toNat xs.prefix.length : Int),
        (preB x k.toNat + below x k.toNat xs.prefix.length : Int))⌝
  all_goals
    py_ranges
    simp (config := {zetaDelta := true}) only [List.size_toArray, List.length_append,
      List.length_singleton, List.length_nil, pyRange_length, decide_eq_true_eq, gt_iff_lt, not_lt,
      Prod.mk.injEq] at *
  all_goals first
    -- one iteration of the inner loop (one condition per combination of the two `if`s)
    | (py_name cur as kk; py_name cur as k
       simp (disch := omega) only [rd_nonneg, gv_toArray] at *
       subst_vars
       rw [above_step x _ _ kk.toNat (by omega) (by omega),
         below_step x _ _ kk.toNat (by omega) (by omega)]
       constructor <;> split <;> omega)
    -- entry of the inner loop; exit of the inner loop: one more row counted
    | (py_name cur as k; py_name pref as pref
       have hk : k.toNat = pref.length := by omega
       have hq : ((x.length : ℤ) - (k + 1)).toNat = x.length - (pref.length + 1) := by omega
       subst_vars
       simp only [hk, hq, preA, preB, above_zero, below_zero, Nat.cast_zero, add_zero,
         Nat.cast_add, and_self])
    -- exit of the outer loop (it stops one row early: the last row has no partner)
    | (have hq : ((x.length : ℤ) - 1 - 0).toNat = x.length - 1 := by omega
       subst_vars
       rw [mkCounts_eq_pre x, hq]
       exact ⟨rfl, rfl⟩)

/-! ### lroo: longest run of ones -/

/-- The translated `lroo` writes the model's value into the one-cell output buffer (any input, any
    initial content of the buffer).  `np.where(data == 1)[0]` is `dotsFrom 0 data` (`whereEq_ofNat`). -/
theorem gen_lroo_eq_model (data : List Nat) (o : Array Int) (ho : o.size = 1) :
    Gen.Kernels.lroo (data.map Int.ofNat).toArray o = #[(Hdc.lroo data : Int)] := by
  generalize hres : Gen.Kernels.lroo (data.map Int.ofNat).toArray o = res
  apply Id.of_wp_run_eq hres
  mvcgen invariants
  -- state `(d, cr, mr)`; after `p` iterations the model's loop continues from dot `p` with `cr`, `mr`
  · ⇓⟨xs, s⟩ => ⌜LrooInv data xs.prefix.length s.2.1 s.2.2⌝
  all_goals
    py_ranges
    simp (config := {zetaDelta := true}) only [whereEq_ofNat, List.size_toArray, List.length_map,
      List.length_append, List.length_singleton, List.length_nil, pyRange_length,
      decide_eq_true_eq, gt_iff_lt, not_lt] at *
  all_goals first
    -- one iteration (`d = 1` and `cr > mr`, `d = 1` only, `d ≠ 1`)
    | (py_name cur as i
       simp (disch := omega) only [rd_nonneg, gv_dots] at *
       refine LrooInv.step ‹LrooInv _ _ _ _› (j1 := i.toNat) (j0 := (i - 1).toNat) (by omega)
         (by omega) (by omega) rfl ?_ ?_ <;> split_ifs <;> omega)
    -- entry of the loop
    | exact LrooInv.init data
    -- the final `if mr > 1`
    | (have hm := LrooInv.final ‹LrooInv _ _ _ _› (by omega)
       rw [wr_single o ho, lroo_cast]
       exact congrArg (fun v : Int => #[v]) (by split_ifs <;> omega))

/-! ### autocorr_sums: the ten accumulators of the lag-1 autocorrelation -/

/-- The translated accumulation loop of `autocorr_1d_int` returns the accumulators of the model
    (`none` = nodata cell; the counters of the model are naturals).  Any input: for the empty and the
    one-element series `data[:-1]` is empty, the loop does not run, and both sides are all zeros. -/
theorem gen_autocorr_sums_eq_model (data : List Int) (nodata : Int) :
    Gen.Kernels.autocorr_sums data.toArray nodata =
      (let s := Hdc.acAccum (data.map fun v => if v = nodata then none else some v) Hdc.ACSums.zero
       (s.sxy, s.sx_, s.sy_, (s.nxy : Int), s.sx, s.sxx, (s.nx : Int), s.sy, s.syy, (s.ny : Int))) := by
  show _ = acResult (acAccum (acOpt data nodata) ACSums.zero)
  generalize hres : Gen.Kernels.autocorr_sums data.toArray nodata = res
  apply Id.of_wp_run_eq hres
  mvcgen invariants
  -- state `(x, y, Sx_, Sy_, Sxy, nxy, Sx, Sxx, nx, Sy, Syy, ny)`; after `p` iterations the model,
  -- continued from cell `p` with the current accumulators, returns its final accumulators
  · ⇓⟨xs, s⟩ => ⌜AcInv data nodata xs.prefix.length s.2.2⌝
  all_goals
    py_ranges
    simp (config := {zetaDelta := true}) only [size_pySlice_init, List.size_toArray,
      List.length_append, List.length_singleton, List.length_nil, pyRange_length,
      decide_eq_true_eq, Bool.and_eq_true, not_and, ne_eq] at *
  all_goals first
    -- one iteration (one condition per combination of the three `if`s; some are contradictory)
    | (py_name cur as i; py_name pref as pref
       -- `xx[i] = data[i]`, `yy[i] = data[i+1]`
       simp (disch := omega) only [rd_nonneg, gv_pySlice_init, gv_pySlice_tail] at *
       have hi : i.toNat = pref.length := by omega
       simp only [hi] at *
       refine AcInv.step ‹AcInv _ _ _ _› (by omega) rfl rfl rfl rfl ?_
       simp only [acNext, Prod.mk.injEq]
       -- `omega`: linear updates and contradictory branches; `ring`: the products, in any order
       refine ⟨?_, ?_, ?_, ?_, ?_, ?_, ?_, ?_, ?_, ?_⟩ <;> split_ifs <;> first | omega | ring)
    -- entry of the loop
    | exact AcInv.init data nodata
    -- exit of the loop; the `return` permutes the accumulators
    | (obtain ⟨S, hS, rfl⟩ := AcInv.final ‹AcInv _ _ _ _› (by omega)
       simp only [hS, acTuple, acResult])

/-- fewer than two cells: all accumulators are zero (source and model) -/
theorem gen_autocorr_sums_short (data : List Int) (nodata : Int) (h : data.length ≤ 1) :
    Gen.Kernels.autocorr_sums data.toArray nodata = (0, 0, 0, 0, 0, 0, 0, 0, 0, 0) := by
  rw [gen_autocorr_sums_eq_model]
  match data, h with
  | [], _ => rfl
  | [a], _ => simp [acAccum, ACSums.zero, nat]

/-! ### rolling_sum -/

/-- The translated `rolling_sum` fills the output buffer with the model's values, for ANY integer
    window size `w` (the model is taken at `w.toNat`: for `w ≤ 0` every window is empty and every cell
    gets nodata, in the source and in the model), any initial content of the buffer of the right size.

    Outer invariant `RsOuter p`: cells `< p` final, cells `≥ p` still zero (the source zero-fills
    `yy` and accumulates in place).  Inner invariant `RsInner k q`: `yy[k]` is the sum and `n_valid`
    the number of the valid cells among the first `q` cells of the window. -/
theorem gen_rolling_sum_eq_model_int (xx : List Int) (w nd : Int) (yy0 : Array Int)
    (h0 : yy0.size = xx.length) :
    (Gen.Kernels.rolling_sum xx.toArray w nd yy0).toList = Hdc.rollingSum xx w.toNat nd := by
  generalize hres : Gen.Kernels.rolling_sum xx.toArray w nd yy0 = res
  apply Id.of_wp_run_eq hres
  mvcgen invariants
  -- state `(yy, n_valid)`
  · ⇓⟨xs, s⟩ => ⌜RsOuter xx w.toNat nd xs.prefix.length s.1⌝
  · ⇓⟨xs, s⟩ => by
      py_name cur as k
      exact ⌜RsInner xx w.toNat nd k.toNat xs.prefix.length s.1 s.2⌝
  all_goals
    py_ranges
    simp (config := {zetaDelta := true}) only [List.size_toArray,
      List.length_append, List.length_singleton, List.length_nil, pyRange_length,
      decide_eq_true_eq, not_lt] at *
  all_goals first
    -- inner loop, nodata cell: `continue`
    | (py_name cur as jj; py_name cur as k
       simp (disch := omega) only [rd_nonneg, gv_toArray] at *
       exact RsInner.skip ‹RsInner _ _ _ _ _ _ _› (j := jj.toNat) (by omega) (by omega) ‹_›)
    -- inner loop, valid cell: `yy[ii] += xx[jj]`, `n_valid += 1`
    | (py_name cur as jj; py_name cur as k
       have hI := ‹RsInner _ _ _ _ _ _ _›
       simp (disch := omega) only [rd_nonneg, gv_toArray] at *
       exact hI.add (j := jj.toNat) (by omega) (by omega) ‹_›
         (wr_upd rfl k.toNat (by omega) (by rw [hI.size]; omega)) rfl)
    -- exit of the inner loop, `n_valid == 0`: nodata
    | (py_name cur as k
       have hI := (‹RsInner _ _ _ _ _ _ _›).cast (q' := w.toNat) rfl (by omega)
       exact (hI.exit_none (by omega) ‹_›
         (wr_upd rfl k.toNat (by omega) (by rw [hI.size]; omega))).cast (by omega))
    -- exit of the inner loop, `n_valid != 0`
    | (have hI := (‹RsInner _ _ _ _ _ _ _›).cast (q' := w.toNat) rfl (by omega)
       exact (hI.exit_some (by omega) ‹_›).cast (by omega))
    -- incomplete window: nodata, `continue`
    | (py_name cur as i; py_name pref as pref
       have hO := ‹RsOuter _ _ _ _ _›
       exact hO.step_short (wr_upd rfl pref.length (by omega) (by rw [hO.size]; omega)) (by omega))
    -- entry of the inner loop (after `n_valid = 0`)
    | exact (‹RsOuter _ _ _ _ _›.enter).cast (by omega) rfl
    -- `yy[:] = 0`
    | exact RsOuter.init xx _ nd yy0 h0
    -- exit of the outer loop
    | exact (‹RsOuter _ _ _ _ _›.cast (by omega)).toList_eq

/-- The contract form: window size a natural number (any, including 0 and `> len(xx)`). -/
theorem gen_rolling_sum_eq_model (xx : List Int) (w : Nat) (nd : Int) (yy0 : Array Int)
    (h0 : yy0.size = xx.length) :
    (Gen.Kernels.rolling_sum xx.toArray (w : Int) nd yy0).toList = Hdc.rollingSum xx w nd := by
  rw [gen_rolling_sum_eq_model_int xx w nd yy0 h0, Int.toNat_natCast]

/-- A negative window size behaves as the window 0: every cell gets nodata. -/
theorem gen_rolling_sum_neg_window (xx : List Int) (w nd : Int) (hw : w ≤ 0) (yy0 : Array Int)
    (h0 : yy0.size = xx.length) :
    (Gen.Kernels.rolling_sum xx.toArray w nd yy0).toList = List.replicate xx.length nd := by
  rw [gen_rolling_sum_eq_model_int xx w nd yy0 h0, show w.toNat = 0 by omega]
  apply List.ext_getElem (by simp [rollingSum])
  intro j h1 h2
  simp [rollingSum]

/-- The result has the length of the input. -/
theorem gen_rolling_sum_size (xx : List Int) (w nd : Int) (yy0 : Array Int)
    (h0 : yy0.size = xx.length) :
    (Gen.Kernels.rolling_sum xx.toArray w nd yy0).size = xx.length := by
  have h := congrArg List.length (gen_rolling_sum_eq_model_int xx w nd yy0 h0)
  simpa [rollingSum] using h

/-! ### Non-vacuity: concrete inputs, evaluated on the model side -/

/-- windows of 3 over a series with two nodata cells (−1); the first two windows are incomplete, the
    window `[-1, -1, …]` never occurs here but `[2, -1, 4]` skips its nodata cell; the buffer starts
    with garbage -/
example : (Gen.Kernels.rolling_sum [1, 2, -1, 4, -1, -1, -1].toArray ((3 : ℕ) : ℤ) (-1)
      #[9, 9, 9, 9, 9, 9, 9]).toList = [-1, -1, 3, 6, 4, 4, -1] := by
  rw [gen_rolling_sum_eq_model _ 3 (-1) _ (by decide)]
  decide

/-- window larger than the series: all nodata -/
example : (Gen.Kernels.rolling_sum [1, 2].toArray ((5 : ℕ) : ℤ) (-1) #[0, 0]).toList
    = [-1, -1] := by
  rw [gen_rolling_sum_eq_model _ 5 (-1) _ (by decide)]
  decide

/-- window 0 and a negative window: all nodata -/
example : (Gen.Kernels.rolling_sum [1, 2].toArray ((0 : ℕ) : ℤ) (-1) #[0, 0]).toList
    = [-1, -1] := by
  rw [gen_rolling_sum_eq_model _ 0 (-1) _ (by decide)]
  decide
example : (Gen.Kernels.rolling_sum [1, 2].toArray (-4) (-1) #[0, 0]).toList = [-1, -1] :=
  gen_rolling_sum_neg_window [1, 2] (-4) (-1) (by omega) _ rfl

/-- 4 concordant and 1 discordant pair, one tie -/
example : Gen.Kernels.mk_score_counts [1, 3, 2, 3].toArray = (4, 1) := by
  rw [gen_mk_score_eq_model]
  decide

example : Gen.Kernels.mk_score_counts ([] : List Int).toArray = (0, 0) := by
  rw [gen_mk_score_eq_model]
  decide

/-- runs of ones of lengths 2 and 3 -/
example : Gen.Kernels.lroo ([1, 1, 0, 1, 1, 1, 0].map Int.ofNat).toArray #[7] = #[3] := by
  rw [gen_lroo_eq_model _ _ rfl]
  decide

/-- a single one is not a run (`mr > 1`), neither is an empty series -/
example : Gen.Kernels.lroo ([0, 1, 0].map Int.ofNat).toArray #[7] = #[0] := by
  rw [gen_lroo_eq_model _ _ rfl]
  decide
example : Gen.Kernels.lroo (([] : List Nat).map Int.ofNat).toArray #[7] = #[0] := by
  rw [gen_lroo_eq_model _ _ rfl]
  decide

/-- pairs (1,2), (2,nodata), (nodata,4), (4,5) with nodata = −1 -/
example : Gen.Kernels.autocorr_sums [1, 2, -1, 4, 5].toArray (-1)
    = (22, 5, 7, 2, 7, 21, 3, 11, 45, 3) := by
  rw [gen_autocorr_sums_eq_model]
  rfl

example : Gen.Kernels.autocorr_sums [3].toArray (-1) = (0, 0, 0, 0, 0, 0, 0, 0, 0, 0) :=
  gen_autocorr_sums_short [3] (-1) (by decide)

end Hdc.GenKernels
