import Hdc.Lemmas.GenNumACInt
import Hdc.Gen.NumAutocorrInt
import Std.Tactic.Do
/-
GenNumACInt  The GENERATED translation of the WHOLE `ops/autocorr.py::autocorr_1d_int` (Hdc/Gen/NumAutocorrInt.lean, written by
harness/py2lean_ac.py from the Python source on every run) computes the hand model `Hdc.autocorr1d` on the series whose
nodata cells are `none` and whose valid cells are cast to the carrier.

The source accumulates in `int64` (exact integers here: `Int`; the wrap-around of int64 is outside the model, as for every
integer kernel) and converts with `float64(..)` only in the closing formula: the generated program does the same (`Int`
accumulators, casts `((e : Int) : α)` in the tail).  The model accumulates over the carrier; that the two agree is the
lemma `acAccum_acOptC` (a cast of an exact sum is the sum of the casts: true in a field of characteristic 0, true in
binary64 only while the sums stay below 2^53 - outside this theorem).  `x ** -0.5` is the parameter `rsqrt`, `1e-8` the
parameter `eps`.  OUT OF SCOPE: the two `assert`s (`data.ndim == 1`, `data.dtype.kind in ("i", "u")`): the translation
types `data` as a 1-d integer array, which is what they assert.

Method as GenKAC (same loop invariant `GenKernels.AcInv`) + the two `return`s after the loop as ordinary branches.
-/
namespace Hdc.GenNumACInt
open Hdc Hdc.Gen.NumKernels Hdc.PyNpT Hdc.GenNum Hdc.GenKernels Std.Do

set_option mvcgen.warning false
set_option linter.unusedSimpArgs false
set_option linter.unusedTactic false
set_option linter.unreachableTactic false

variable {α : Type} [Field α] [LinearOrder α] [IsStrictOrderedRing α]

/-- The translated `autocorr_1d_int` equals the model on the cast series, for ANY integer series (also the empty and the
    one-element one), any `nodata`, `rsqrt`, `eps`.  No hypothesis. -/
theorem gen_autocorr_1d_int_eq_model (rsqrt : α → α) (eps : α) (data : List Int) (nodata : Int) :
    Gen.NumKernels.autocorr_1d_int rsqrt eps data.toArray nodata
      = Hdc.autocorr1d rsqrt eps (data.map fun v => if v = nodata then none else some (v : α)) := by
  show _ = autocorr1d rsqrt eps (acOptC data nodata)
  generalize hres : Gen.NumKernels.autocorr_1d_int rsqrt eps data.toArray nodata = res
  apply Id.of_wp_run_eq hres
  mvcgen invariants
  -- state `(x, y, Sx_, Sy_, Sxy, nxy, Sx, Sxx, nx, Sy, Syy, ny)`
  · ⇓⟨xs, s⟩ => ⌜AcInv data nodata xs.prefix.length s.2.2⌝
  all_goals
    pyn_ranges
    simp (config := {zetaDelta := true}) only [pySliceG_init, pySliceG_tail, List.size_toArray,
      List.length_append, List.length_singleton, List.length_nil, GenNum.pyRange_length, List.length_dropLast,
      decide_eq_true_eq, Bool.and_eq_true, Bool.or_eq_true, not_and, ne_eq] at *
  all_goals first
    -- one iteration: `xx[i] = data[i]`, `yy[i] = data[i+1]`
    | (py_name cur as i; py_name pref as pref
       have hi : i.toNat = pref.length := by omega
       simp (disch := omega) only [rdI_nonneg, gv_toArray, hi, lv_dropLast, lv_tail] at *
       refine AcInv.step ‹AcInv _ _ _ _› (by omega) rfl rfl rfl rfl ?_
       simp only [acNext, Prod.mk.injEq]
       refine ⟨?_, ?_, ?_, ?_, ?_, ?_, ?_, ?_, ?_, ?_⟩ <;> split_ifs <;> first | omega | ring)
    -- entry of the loop
    | exact AcInv.init data nodata
    -- after the loop: `return 0` (no valid pair / a vanishing variance) or the quotient
    | (rename_i hinv
       obtain ⟨S, hS, hSeq⟩ := AcInv.final hinv (by omega)
       rw [autocorr1d_of_int_sums rsqrt eps data nodata S hSeq]
       clear hSeq hinv
       simp only [hS, acTuple] at *
       try push_cast at *
       try simp only [Int.natCast_eq_zero] at *
       simp only [*, if_true, if_false, nat, Nat.cast_zero, ite_self, not_false_eq_true, or_self, or_true, true_or])

/-- fewer than two cells: 0 (source and model) -/
theorem gen_autocorr_1d_int_short (rsqrt : α → α) (eps : α) (data : List Int) (nodata : Int)
    (h : data.length ≤ 1) : Gen.NumKernels.autocorr_1d_int rsqrt eps data.toArray nodata = 0 := by
  rw [gen_autocorr_1d_int_eq_model]
  match data, h with
  | [], _ => simp [autocorr1d, acAccum, ACSums.zero, nat]
  | [a], _ => simp [autocorr1d, acAccum, ACSums.zero, nat]

/-! ### Non-vacuity: concrete integer inputs, carrier ℚ, `rsqrt v = 1 / v`, evaluated on the model side -/

example : Gen.NumKernels.autocorr_1d_int (fun v : ℚ => 1 / v) (1 / 100000000) [1, 2, -1, 4, 5].toArray (-1)
    = 10 / 441 := by
  rw [gen_autocorr_1d_int_eq_model]; decide +kernel

example : Gen.NumKernels.autocorr_1d_int (fun v : ℚ => 1 / v) (1 / 100000000) [1, 2, -1, 4, 7, 3].toArray (-1)
    = 1 / 1568 := by
  rw [gen_autocorr_1d_int_eq_model]; decide +kernel

/-- a constant series: the variance vanishes, `return 0` -/
example : Gen.NumKernels.autocorr_1d_int (fun v : ℚ => 1 / v) (1 / 100000000) [3, 3, 3].toArray (-1) = 0 := by
  rw [gen_autocorr_1d_int_eq_model]; decide +kernel

/-- every cell nodata: no valid pair, `return 0` -/
example : Gen.NumKernels.autocorr_1d_int (fun v : ℚ => 1 / v) (1 / 100000000) [-1, -1, -1].toArray (-1) = 0 := by
  rw [gen_autocorr_1d_int_eq_model]; decide +kernel

example : Gen.NumKernels.autocorr_1d_int (fun v : ℚ => 1 / v) (1 / 100000000) [3].toArray (-1) = 0 :=
  gen_autocorr_1d_int_short _ _ [3] (-1) (by decide)

end Hdc.GenNumACInt
