import Hdc.Lemmas.Bounds
import Hdc.Lemmas.BoundsTinterp
import Hdc.Model.Smooth
/-
C14  Index safety: every array index the kernels evaluate is in bounds, for every shape in contract.

Traces: `Hdc.Bounds` (Hdc/Model/Bounds.lean).  `a.inBounds` is Python/Numba semantics: −len ≤ idx < len.
No bound on sizes anywhere; `n`, `m`, `nl`, `l`, `numZones : Nat`, `window : Int` arbitrary.

Formal statements
 1. ws2d
    ws2d_in_bounds            ∀ n ≥ 2, ∀ a ∈ ws2dTrace n, a.inBounds                    (includes the wrapped reads at n = 2, 3)
    ws2d_oob_at_one           ∃ a ∈ ws2dTrace 1, ¬ a.inBounds                           (contract n ≥ 2 is sharp; witness: store d[1])
    ws2d_wraps_at_two/_three  at n = 2, 3 some in-bounds index is negative (wrap-around read)
    ws2d_no_wrap              ∀ n ≥ 4, ∀ a ∈ ws2dTrace n, 0 ≤ a.idx < n
 2. ws2d_all_written(_z,_d)   ∀ n ≥ 2, ∀ i < n, i ∈ written (ws2dTrace n) "z"  and  … "d"
    ws2d_tags_lens            ∀ n, ∀ a ∈ ws2dTrace n, a.arr ∈ [y,w,z,d,c,e] ∧ a.len = n
    ws2d_inputs_read_only     y, w are never stored to
 3. tinterp_scatter_in_bounds template.length ≥ 1 → n ≥ 1 → nmarks template ≤ n → ∀ a ∈ tinterpScatter n template, a.inBounds
    tinterp_scatter_oob       n < nmarks template → ∃ a ∈ tinterpScatter n template, ¬ a.inBounds      (general converse)
    tinterp_scatter_in_bounds_iff   for non-degenerate shapes: all in bounds ↔ nmarks template ≤ n
    tinterp_scatter_marks_written   every marked position of temp is stored
    nmarks_eq                 nmarks template = (template.filter (· ≠ 0)).length
 4. tinterp_runs_in_bounds    labels ≠ [] → nruns labels ≤ l → ∀ a ∈ tinterpRuns labels l, a.inBounds
    tinterp_runs_oob          labels ≠ [] → l < nruns labels → ∃ a ∈ tinterpRuns labels l, ¬ a.inBounds (general converse)
    tinterp_runs_written_eq   labels ≠ [] → written (tinterpRuns labels l) "out" = [0, 1, …, nruns labels − 1]  (exactly once, in order)
    tinterp_runs_all_written  l = nruns labels → written … "out" = upto l ∧ ∀ i < l, i ∈ written … "out"
    nruns_def / nruns_index_count / nruns_splitBy_length
                              nruns = 1 + #adjacent unequal pairs = 1 + #{i < len−1 | labels[i] ≠ labels[i+1]}
                                    = number of groups of `List.splitBy (· == ·)` (maximal runs)
 5. zonal_in_bounds           (∀ guarded (v,z), 0 ≤ z < numZones) → ∀ a ∈ zonalTrace …, a.inBounds
    zonal_cell_eq_id          under the contract no index wraps
    zonal_oob                 a guarded id ≥ numZones gives an out-of-bounds store
    zonal_in_bounds_iff       all in bounds ↔ every guarded id ∈ [−numZones, numZones)   (negative ids wrap silently)
 6. rolling_in_bounds         ∀ n window, ∀ a ∈ rollingTrace n window, a.inBounds
    rolling_no_wrap           … and 0 ≤ a.idx < n
    rolling_all_written       ∀ i < n, i ∈ written (rollingTrace n window) "yy"
 7. vcurve_in_bounds          ∀ m ≥ 2, nl ≥ 2, ∀ a ∈ vcurveTrace m nl, a.inBounds
    vcurve_oob_single_grid_point   ∃ a ∈ vcurveTrace 5 1, ¬ a.inBounds
    vcurve_all_written        fits, pens (0..nl−1); v, lamids (0..nl−2); diff1 (0..m−2) all stored
 8. smoothers_call_ws2d_in_contract   countValid ≥ 2 → length ≥ 2; countValid ≥ 5 → length ≥ 5; weightsOf/cleanOf keep length
    guarded_ws2d_call_in_bounds / guarded_gcv_call_in_bounds   guard (1 < n resp. 4 < n) ⇒ the ws2d call's trace is in bounds
 9. `example`s at the minimum sizes by `decide`
-/
namespace Hdc.C14
open Hdc.Bounds

/-- simp set turning `∀ a ∈ <explicit trace>, P a` into arithmetic -/
macro "trace_simp" : tactic => `(tactic|
  simp only [List.forall_mem_append, List.forall_mem_flatMap, List.forall_mem_cons, List.forall_mem_map,
    List.mem_map, mem_rangeI, mem_rangeDown, mem_upto, List.not_mem_nil, false_imp_iff, implies_true, and_true,
    rd_inBounds, wr_inBounds])

/-! ## 1, 2  ws2d -/

theorem ws2d_in_bounds (n : Nat) (hn : 2 ≤ n) : ∀ a ∈ ws2dTrace n, a.inBounds = true := by
  unfold ws2dTrace
  trace_simp
  refine ⟨⟨⟨?_, ?_⟩, ?_⟩, ?_⟩
  · omega
  · intro i hi; omega
  · omega
  · intro i hi; omega

theorem ws2d_oob_at_one : ∃ a ∈ ws2dTrace 1, a.inBounds = false := by decide

/-- which cell: the access at `n = 1` that leaves the arrays is the store `d[1]` -/
theorem ws2d_oob_at_one_witness : wr "d" 1 1 ∈ ws2dTrace 1 ∧ (wr "d" 1 1).inBounds = false := by decide

/-- at `n = 2, 3` the hand-written rows `m-1`, `m` read wrapped-around cells (negative indices) -/
theorem ws2d_wraps_at_two : ∃ a ∈ ws2dTrace 2, a.idx < 0 ∧ a.inBounds = true := by decide
theorem ws2d_wraps_at_three : ∃ a ∈ ws2dTrace 3, a.idx < 0 ∧ a.inBounds = true := by decide

/-- from `n = 4` on no index is negative -/
theorem ws2d_no_wrap (n : Nat) (hn : 4 ≤ n) : ∀ a ∈ ws2dTrace n, 0 ≤ a.idx ∧ a.idx < n := by
  unfold ws2dTrace
  simp only [List.forall_mem_append, List.forall_mem_flatMap, List.forall_mem_cons, mem_rangeI, mem_rangeDown,
    List.not_mem_nil, false_imp_iff, implies_true, and_true, rd, wr]
  refine ⟨⟨⟨?_, ?_⟩, ?_⟩, ?_⟩
  · omega
  · intro i hi; omega
  · omega
  · intro i hi; omega

theorem ws2d_all_written_z (n : Nat) (_hn : 2 ≤ n) : ∀ i < n, (i : Int) ∈ written (ws2dTrace n) "z" := by
  intro i hi
  rw [mem_written]
  refine ⟨wr "z" i n, ?_, rfl, rfl, ?_⟩
  · simp [ws2dTrace, mem_rangeI, mem_rangeDown, wr, rd]
    omega
  · exact cell_wr_nat _ _ _

theorem ws2d_all_written_d (n : Nat) (_hn : 2 ≤ n) : ∀ i < n, (i : Int) ∈ written (ws2dTrace n) "d" := by
  intro i hi
  rw [mem_written]
  refine ⟨wr "d" i n, ?_, rfl, rfl, ?_⟩
  · simp [ws2dTrace, mem_rangeI, mem_rangeDown, wr, rd]
    omega
  · exact cell_wr_nat _ _ _

theorem ws2d_all_written (n : Nat) (hn : 2 ≤ n) :
    (∀ i < n, (i : Int) ∈ written (ws2dTrace n) "z") ∧ (∀ i < n, (i : Int) ∈ written (ws2dTrace n) "d") :=
  ⟨ws2d_all_written_z n hn, ws2d_all_written_d n hn⟩

/-- only the six arrays `y, w, z, d, c, e` are indexed, each of length `n` -/
theorem ws2d_tags_lens (n : Nat) : ∀ a ∈ ws2dTrace n, a.arr ∈ ["y", "w", "z", "d", "c", "e"] ∧ a.len = n := by
  unfold ws2dTrace
  simp only [List.forall_mem_append, List.forall_mem_flatMap, List.forall_mem_cons, mem_rangeI, mem_rangeDown,
    List.not_mem_nil, false_imp_iff, implies_true, and_true, rd, wr]
  simp

/-- the inputs `y`, `w` are only read -/
theorem ws2d_inputs_read_only (n : Nat) : ∀ a ∈ ws2dTrace n, a.arr = "y" ∨ a.arr = "w" → a.write = false := by
  unfold ws2dTrace
  simp only [List.forall_mem_append, List.forall_mem_flatMap, List.forall_mem_cons, mem_rangeI, mem_rangeDown,
    List.not_mem_nil, false_imp_iff, implies_true, and_true, rd, wr]
  simp

/-! ## 3  tinterpolate: scatter loop -/

/-- `nmarks template` = number of nonzero template entries (`Hdc.Bounds.nmarks`, a `countP`) -/
theorem nmarks_eq (template : List Int) : nmarks template = (template.filter (fun t => t ≠ 0)).length := by
  simp [nmarks, List.countP_eq_length_filter]

theorem tinterp_scatter_in_bounds (n : Nat) (template : List Int) (hm : 1 ≤ template.length) (hn : 1 ≤ n)
    (hmarks : nmarks template ≤ n) : ∀ a ∈ tinterpScatter n template, a.inBounds = true := by
  intro a ha
  rcases (mem_tinterpScatter n template a).1 ha with ⟨i, hi, _, rfl⟩ | ⟨k, hk, rfl⟩ | rfl | rfl
  · rw [wr_inBounds]; omega
  · rw [rd_inBounds]; omega
  · rw [wr_inBounds]; omega
  · rw [rd_inBounds]; omega

/-- the contract is sharp: with more marks than observations the load `x[n]` is out of bounds -/
theorem tinterp_scatter_oob (n : Nat) (template : List Int) (hmarks : n < nmarks template) :
    ∃ a ∈ tinterpScatter n template, a.inBounds = false := by
  refine ⟨rd "x" n n, (mem_tinterpScatter n template _).2 (Or.inr (Or.inl ⟨n, hmarks, rfl⟩)), ?_⟩
  have h : ¬ ((rd "x" (n : Int) n).inBounds = true) := by rw [rd_inBounds]; omega
  simpa using h

/-- in-bounds ⇔ contract, for non-degenerate shapes -/
theorem tinterp_scatter_in_bounds_iff (n : Nat) (template : List Int) (hm : 1 ≤ template.length) (hn : 1 ≤ n) :
    (∀ a ∈ tinterpScatter n template, a.inBounds = true) ↔ nmarks template ≤ n := by
  constructor
  · intro h
    by_cases hle : nmarks template ≤ n
    · exact hle
    · obtain ⟨a, ha, hb⟩ := tinterp_scatter_oob n template (by omega)
      rw [h a ha] at hb; cases hb
  · exact tinterp_scatter_in_bounds n template hm hn

example : ∃ a ∈ tinterpScatter 1 [1, 1], a.inBounds = false := by decide
example : ∃ a ∈ tinterpScatter 2 [1, 0, 1, 1], a.inBounds = false := by decide

/-- every marked position of `temp` is stored -/
theorem tinterp_scatter_marks_written (n : Nat) (template : List Int) (i : Nat) (hi : i < template.length)
    (hmark : template[i] ≠ 0) : (i : Int) ∈ written (tinterpScatter n template) "temp" := by
  rw [mem_written]
  exact ⟨wr "temp" i template.length, (mem_tinterpScatter n template _).2 (Or.inl ⟨i, hi, hmark, rfl⟩), rfl, rfl,
    cell_wr_nat _ _ _⟩

/-! ## 4  tinterpolate: run loop -/

/-- `nruns` (`Hdc.Bounds.nruns`): one more than the number of adjacent unequal pairs -/
theorem nruns_def (labels : List Int) :
    nruns labels = (labels.zip labels.tail).countP (fun p => p.1 ≠ p.2) + 1 := rfl

/-- index form: `nruns labels = 1 + #{ i < len−1 | labels[i] ≠ labels[i+1] }` -/
theorem nruns_index_count (labels : List Int) (hne : labels ≠ []) :
    nruns labels =
      1 + ((List.range (labels.length - 1)).filter (fun i => decide (labels[i]? ≠ labels[i + 1]?))).length :=
  nruns_eq_index_count labels hne

/-- `nruns` is the number of maximal runs of equal consecutive labels -/
theorem nruns_splitBy_length (labels : List Int) (hne : labels ≠ []) :
    nruns labels = (labels.splitBy (fun x y => x == y)).length :=
  nruns_eq_splitBy_length labels hne

theorem tinterp_runs_in_bounds (labels : List Int) (l : Nat) (hne : labels ≠ []) (hl : nruns labels ≤ l) :
    ∀ a ∈ tinterpRuns labels l, a.inBounds = true := by
  cases labels with
  | nil => exact absurd rfl hne
  | cons l0 rest =>
    rw [nruns_cons] at hl
    obtain ⟨extra, h1, h2, _⟩ := runs_fold (rest.length + 1) l rest 1 0 l0 [rd "z" 0 (rest.length + 1)]
    intro a ha
    rw [tinterpRuns_cons, h1] at ha
    simp only [List.mem_append, List.mem_cons, List.not_mem_nil, or_false] at ha
    rcases ha with (rfl | ha) | rfl
    · rw [rd_inBounds]; omega
    · rcases h2 a ha with ⟨j, hj1, hj2, (rfl | rfl)⟩ | ⟨k, _, hk2, rfl⟩
      · rw [rd_inBounds]; omega
      · rw [rd_inBounds]; omega
      · rw [wr_inBounds]; omega
    · rw [wr_inBounds]; omega

/-- the contract is sharp: an output shorter than the number of runs is overrun by the last store -/
theorem tinterp_runs_oob (labels : List Int) (l : Nat) (hne : labels ≠ []) (hl : l < nruns labels) :
    ∃ a ∈ tinterpRuns labels l, a.inBounds = false := by
  cases labels with
  | nil => exact absurd rfl hne
  | cons l0 rest =>
    rw [nruns_cons] at hl
    obtain ⟨extra, h1, _, _⟩ := runs_fold (rest.length + 1) l rest 1 0 l0 [rd "z" 0 (rest.length + 1)]
    refine ⟨wr "out" ((0 + nchanges l0 rest : Nat) : Int) l, ?_, ?_⟩
    · rw [tinterpRuns_cons, h1]; simp
    · have h : ¬ ((wr "out" ((0 + nchanges l0 rest : Nat) : Int) l).inBounds = true) := by
        rw [wr_inBounds]; omega
      simpa using h

/-- the stores to `out` hit the cells 0, 1, …, nruns−1, each exactly once and in this order (for any `l`) -/
theorem tinterp_runs_written_eq (labels : List Int) (l : Nat) (hne : labels ≠ []) :
    written (tinterpRuns labels l) "out" = upto (nruns labels) := by
  cases labels with
  | nil => exact absurd rfl hne
  | cons l0 rest =>
    obtain ⟨extra, h1, _, h3⟩ := runs_fold (rest.length + 1) l rest 1 0 l0 [rd "z" 0 (rest.length + 1)]
    rw [tinterpRuns_cons, h1, nruns_cons]
    simp only [written_append, h3, upto, List.range_succ, List.map_append]
    simp [written, rd, wr, Acc.cell]
    omega

theorem tinterp_runs_all_written (labels : List Int) (l : Nat) (hne : labels ≠ []) (hl : l = nruns labels) :
    written (tinterpRuns labels l) "out" = upto l ∧
      ∀ i < l, (i : Int) ∈ written (tinterpRuns labels l) "out" := by
  have h := tinterp_runs_written_eq labels l hne
  rw [← hl] at h
  refine ⟨h, ?_⟩
  intro i hi
  rw [h, mem_upto]; omega

/-! ## 5  zonal mean -/

theorem mem_zonalTrace (pix zones : List Int) (numZones : Nat) (nodata znodata : Int) (a : Acc) :
    a ∈ zonalTrace pix zones numZones nodata znodata ↔
      ∃ v z, (v, z) ∈ pix.zip zones ∧ v ≠ nodata ∧ z ≠ znodata ∧
        (a = wr "sums" z numZones ∨ a = wr "counts" z numZones) := by
  simp only [zonalTrace, List.mem_flatMap, Prod.exists]
  constructor
  · rintro ⟨v, z, hp, ha⟩
    by_cases hg : v ≠ nodata ∧ z ≠ znodata
    · rw [if_pos hg] at ha
      simp only [List.mem_cons, List.not_mem_nil, or_false] at ha
      exact ⟨v, z, hp, hg.1, hg.2, ha⟩
    · rw [if_neg hg] at ha; cases ha
  · rintro ⟨v, z, hp, h1, h2, ha⟩
    refine ⟨v, z, hp, ?_⟩
    rw [if_pos ⟨h1, h2⟩]
    simpa using ha

theorem zonal_in_bounds (pix zones : List Int) (numZones : Nat) (nodata znodata : Int)
    (hz : ∀ v z, (v, z) ∈ pix.zip zones → v ≠ nodata → z ≠ znodata → 0 ≤ z ∧ z < numZones) :
    ∀ a ∈ zonalTrace pix zones numZones nodata znodata, a.inBounds = true := by
  intro a ha
  obtain ⟨v, z, hp, h1, h2, ha⟩ := (mem_zonalTrace ..).1 ha
  have := hz v z hp h1 h2
  rcases ha with rfl | rfl <;> rw [wr_inBounds] <;> omega

/-- under the contract no index wraps: the cell touched is the zone id itself -/
theorem zonal_cell_eq_id (pix zones : List Int) (numZones : Nat) (nodata znodata : Int)
    (hz : ∀ v z, (v, z) ∈ pix.zip zones → v ≠ nodata → z ≠ znodata → 0 ≤ z ∧ z < numZones) :
    ∀ a ∈ zonalTrace pix zones numZones nodata znodata, a.cell = a.idx ∧ 0 ≤ a.idx := by
  intro a ha
  obtain ⟨v, z, hp, h1, h2, ha⟩ := (mem_zonalTrace ..).1 ha
  have := hz v z hp h1 h2
  rcases ha with rfl | rfl <;> exact ⟨cell_of_nonneg _ _ _ _ this.1, this.1⟩

/-- an id ≥ numZones that passes the guard is an out-of-bounds store -/
theorem zonal_oob (pix zones : List Int) (numZones : Nat) (nodata znodata : Int) (v z : Int)
    (hp : (v, z) ∈ pix.zip zones) (hv : v ≠ nodata) (hzn : z ≠ znodata) (hbig : (numZones : Int) ≤ z) :
    ∃ a ∈ zonalTrace pix zones numZones nodata znodata, a.inBounds = false := by
  refine ⟨wr "sums" z numZones, (mem_zonalTrace ..).2 ⟨v, z, hp, hv, hzn, Or.inl rfl⟩, ?_⟩
  have h : ¬ ((wr "sums" z numZones).inBounds = true) := by rw [wr_inBounds]; omega
  simpa using h

/-- exact characterisation under Python/Numba semantics: the trace is in bounds iff every guarded id lies in
    −numZones ≤ z < numZones (ids in −numZones..−1 silently wrap: outside the contract but not a memory fault) -/
theorem zonal_in_bounds_iff (pix zones : List Int) (numZones : Nat) (nodata znodata : Int) :
    (∀ a ∈ zonalTrace pix zones numZones nodata znodata, a.inBounds = true) ↔
      ∀ v z, (v, z) ∈ pix.zip zones → v ≠ nodata → z ≠ znodata → -(numZones : Int) ≤ z ∧ z < numZones := by
  constructor
  · intro h v z hp h1 h2
    have := h (wr "sums" z numZones) ((mem_zonalTrace ..).2 ⟨v, z, hp, h1, h2, Or.inl rfl⟩)
    rwa [wr_inBounds] at this
  · intro h a ha
    obtain ⟨v, z, hp, h1, h2, ha⟩ := (mem_zonalTrace ..).1 ha
    have := h v z hp h1 h2
    rcases ha with rfl | rfl <;> rw [wr_inBounds] <;> exact this

/-- a negative id that passes the guard is accepted and lands in another zone's cell -/
example : (∀ a ∈ zonalTrace [10] [-1] 3 0 255, a.inBounds = true) ∧
    (2 : Int) ∈ written (zonalTrace [10] [-1] 3 0 255) "sums" := by decide

/-! ## 6  rolling sum -/

theorem rolling_in_bounds (n : Nat) (window : Int) : ∀ a ∈ rollingTrace n window, a.inBounds = true := by
  unfold rollingTrace
  simp only [List.forall_mem_flatMap, mem_upto]
  intro ii hii a ha
  by_cases hw : ii - window + 1 < 0
  · rw [if_pos hw] at ha
    simp only [List.mem_cons, List.not_mem_nil, or_false] at ha
    subst ha; rw [wr_inBounds]; omega
  · rw [if_neg hw] at ha
    simp only [List.mem_append, List.mem_flatMap, mem_rangeI, List.mem_cons, List.not_mem_nil, or_false] at ha
    rcases ha with ⟨jj, hjj, (rfl | rfl)⟩ | rfl
    · rw [rd_inBounds]; omega
    · rw [wr_inBounds]; omega
    · rw [wr_inBounds]; omega

/-- no index of the rolling sum is negative: no wrap-around for any window -/
theorem rolling_no_wrap (n : Nat) (window : Int) : ∀ a ∈ rollingTrace n window, 0 ≤ a.idx ∧ a.idx < n := by
  unfold rollingTrace
  simp only [List.forall_mem_flatMap, mem_upto]
  intro ii hii a ha
  by_cases hw : ii - window + 1 < 0
  · rw [if_pos hw] at ha
    simp only [List.mem_cons, List.not_mem_nil, or_false] at ha
    subst ha; simp only [wr]; omega
  · rw [if_neg hw] at ha
    simp only [List.mem_append, List.mem_flatMap, mem_rangeI, List.mem_cons, List.not_mem_nil, or_false] at ha
    rcases ha with ⟨jj, hjj, (rfl | rfl)⟩ | rfl
    · simp only [rd]; omega
    · simp only [wr]; omega
    · simp only [wr]; omega

theorem rolling_all_written (n : Nat) (window : Int) : ∀ i < n, (i : Int) ∈ written (rollingTrace n window) "yy" := by
  intro i hi
  rw [mem_written]
  refine ⟨wr "yy" i n, ?_, rfl, rfl, cell_wr_nat _ _ _⟩
  simp only [rollingTrace, List.mem_flatMap, mem_upto]
  refine ⟨i, by omega, ?_⟩
  by_cases hw : (i : Int) - window + 1 < 0
  · rw [if_pos hw]; simp
  · rw [if_neg hw]; simp

/-! ## 7  V-curve grid indexing -/

theorem vcurve_in_bounds (m nl : Nat) (hm : 2 ≤ m) (hnl : 2 ≤ nl) : ∀ a ∈ vcurveTrace m nl, a.inBounds = true := by
  unfold vcurveTrace
  trace_simp
  refine ⟨⟨⟨⟨⟨?_, ?_⟩, ?_⟩, ?_⟩, ?_⟩, ?_⟩
  · intro lix hlix
    refine ⟨⟨⟨by omega, by omega, by omega⟩, ?_⟩, ?_⟩
    · intro i hi; omega
    · intro i hi; omega
  · omega
  · intro i hi; omega
  · omega
  · rintro a ⟨i, hi, rfl⟩; rw [rd_inBounds]; omega
  · omega

theorem vcurve_oob_single_grid_point : ∃ a ∈ vcurveTrace 5 1, a.inBounds = false := by decide

/-- which accesses: `llas[1]` (grid step) and `v[0]`, `lamids[0]` on empty arrays -/
theorem vcurve_oob_single_grid_point_witness :
    rd "llas" 1 1 ∈ vcurveTrace 5 1 ∧ (rd "llas" 1 1).inBounds = false ∧
    rd "v" 0 0 ∈ vcurveTrace 5 1 ∧ (rd "v" 0 0).inBounds = false := by decide

theorem vcurve_written_fits (m nl : Nat) : ∀ i < nl, (i : Int) ∈ written (vcurveTrace m nl) "fits" := by
  intro i hi
  rw [mem_written]
  refine ⟨wr "fits" i nl, ?_, rfl, rfl, cell_wr_nat _ _ _⟩
  simp only [vcurveTrace, List.mem_append, List.mem_flatMap, mem_upto]
  exact Or.inl (Or.inl (Or.inl (Or.inl (Or.inl ⟨i, by omega, by simp⟩))))

theorem vcurve_written_pens (m nl : Nat) : ∀ i < nl, (i : Int) ∈ written (vcurveTrace m nl) "pens" := by
  intro i hi
  rw [mem_written]
  refine ⟨wr "pens" i nl, ?_, rfl, rfl, cell_wr_nat _ _ _⟩
  simp only [vcurveTrace, List.mem_append, List.mem_flatMap, mem_upto]
  exact Or.inl (Or.inl (Or.inl (Or.inl (Or.inl ⟨i, by omega, by simp⟩))))

theorem vcurve_written_v (m nl : Nat) : ∀ i < nl - 1, (i : Int) ∈ written (vcurveTrace m nl) "v" := by
  intro i hi
  rw [mem_written]
  refine ⟨wr "v" i (nl - 1), ?_, rfl, rfl, cell_wr_nat _ _ _⟩
  simp only [vcurveTrace, List.mem_append, List.mem_flatMap, mem_upto]
  exact Or.inl (Or.inl (Or.inl (Or.inr ⟨i, by omega, by simp⟩)))

theorem vcurve_written_lamids (m nl : Nat) : ∀ i < nl - 1, (i : Int) ∈ written (vcurveTrace m nl) "lamids" := by
  intro i hi
  rw [mem_written]
  refine ⟨wr "lamids" i (nl - 1), ?_, rfl, rfl, cell_wr_nat _ _ _⟩
  simp only [vcurveTrace, List.mem_append, List.mem_flatMap, mem_upto]
  exact Or.inl (Or.inl (Or.inl (Or.inr ⟨i, by omega, by simp⟩)))

theorem vcurve_written_diff1 (m nl : Nat) (hnl : 1 ≤ nl) :
    ∀ i < m - 1, (i : Int) ∈ written (vcurveTrace m nl) "diff1" := by
  intro i hi
  rw [mem_written]
  refine ⟨wr "diff1" i (m - 1), ?_, rfl, rfl, cell_wr_nat _ _ _⟩
  simp only [vcurveTrace, List.mem_append, List.mem_flatMap, mem_upto]
  refine Or.inl (Or.inl (Or.inl (Or.inl (Or.inl ⟨0, by omega, ?_⟩))))
  refine Or.inl (Or.inr ⟨i, by omega, by simp⟩)

theorem vcurve_all_written (m nl : Nat) (_hm : 2 ≤ m) (hnl : 2 ≤ nl) :
    (∀ i < nl, (i : Int) ∈ written (vcurveTrace m nl) "fits") ∧
    (∀ i < nl, (i : Int) ∈ written (vcurveTrace m nl) "pens") ∧
    (∀ i < nl - 1, (i : Int) ∈ written (vcurveTrace m nl) "v") ∧
    (∀ i < nl - 1, (i : Int) ∈ written (vcurveTrace m nl) "lamids") ∧
    (∀ i < m - 1, (i : Int) ∈ written (vcurveTrace m nl) "diff1") :=
  ⟨vcurve_written_fits m nl, vcurve_written_pens m nl, vcurve_written_v m nl, vcurve_written_lamids m nl,
    vcurve_written_diff1 m nl (by omega)⟩

/-! ## 8  the smoothers call ws2d inside its contract -/

section smoothers
variable {α : Type} [NatCast α]

omit [NatCast α] in
theorem countValid_le_length (miss : α → Bool) (y : List α) : countValid miss y ≤ y.length := by
  unfold countValid; exact List.length_filter_le _ _

theorem weightsOf_length (miss : α → Bool) (y : List α) : (weightsOf miss y).length = y.length := by
  simp [weightsOf]

theorem cleanOf_length (miss : α → Bool) (y : List α) : (cleanOf miss y).length = y.length := by
  simp [cleanOf]

/-- the minimum-valid-count guard `n > 1` of every smoother implies ws2d's contract `len ≥ 2`, on arrays of
    equal length; the GCV kernels' guard `n > 4` gives `len ≥ 5` -/
theorem smoothers_call_ws2d_in_contract (miss : α → Bool) (y : List α) :
    (2 ≤ countValid miss y → 2 ≤ y.length) ∧
    (5 ≤ countValid miss y → 5 ≤ y.length) ∧
    (weightsOf miss y).length = y.length ∧
    (cleanOf miss y).length = y.length ∧
    (weightsOf miss y).length = (cleanOf miss y).length := by
  have h := countValid_le_length miss y
  refine ⟨fun h2 => by omega, fun h5 => by omega, weightsOf_length miss y, cleanOf_length miss y, ?_⟩
  rw [weightsOf_length, cleanOf_length]

/-- in the form of the guards as written in the models (`1 < n`, `4 < n`) together with the index theorem:
    whenever a smoother reaches its ws2d call, every index of that call is in bounds -/
theorem guarded_ws2d_call_in_bounds (miss : α → Bool) (y : List α) (hg : 1 < countValid miss y) :
    (cleanOf miss y).length = (weightsOf miss y).length ∧
      ∀ a ∈ ws2dTrace (cleanOf miss y).length, a.inBounds = true := by
  have h := countValid_le_length miss y
  refine ⟨by rw [weightsOf_length, cleanOf_length], ws2d_in_bounds _ ?_⟩
  rw [cleanOf_length]; omega

theorem guarded_gcv_call_in_bounds (miss : α → Bool) (y : List α) (hg : 4 < countValid miss y) :
    5 ≤ (cleanOf miss y).length ∧ ∀ a ∈ ws2dTrace (cleanOf miss y).length, a.inBounds = true := by
  have h := countValid_le_length miss y
  have h5 : 5 ≤ (cleanOf miss y).length := by rw [cleanOf_length]; omega
  exact ⟨h5, ws2d_in_bounds _ (by omega)⟩

end smoothers

/-! ## 9  non-vacuity: concrete traces at the minimum sizes -/

example : (ws2dTrace 2).length = 62 ∧ ∀ a ∈ ws2dTrace 2, a.inBounds = true := by decide
example : ∀ a ∈ ws2dTrace 3, a.inBounds = true := by decide
example : ∀ a ∈ ws2dTrace 4, a.inBounds = true := by decide
example : written (ws2dTrace 5) "d" = [0, 1, 2, 3, 4] := by decide
example : tinterpScatter 1 [1] = [wr "temp" 0 1, rd "x" 0 1, wr "temp" (-1) 1, rd "x" (-1) 1] := by decide
example : ∀ a ∈ tinterpScatter 1 [1], a.inBounds = true := by decide
example : nruns [7] = 1 ∧ nruns [1, 1, 2, 2, 2, 3] = 3 ∧ nruns [1, 2, 1] = 3 := by decide
example : tinterpRuns [7] 1 = [rd "z" 0 1, wr "out" 0 1] := by decide
example : ∀ a ∈ tinterpRuns [1, 1, 2, 2, 2, 3] 3, a.inBounds = true := by decide
example : written (tinterpRuns [1, 1, 2, 2, 2, 3] 3) "out" = [0, 1, 2] := by decide
example : ∃ a ∈ tinterpRuns [1, 2, 3] 2, a.inBounds = false := by decide
example : zonalTrace [5, 0, 7] [0, 1, 255] 1 0 255 = [wr "sums" 0 1, wr "counts" 0 1] := by decide
example : ∃ a ∈ zonalTrace [5] [1] 1 0 255, a.inBounds = false := by decide
example : ∀ a ∈ rollingTrace 3 0, a.inBounds = true := by decide
example : ∀ a ∈ rollingTrace 3 (-2), a.inBounds = true := by decide
example : ∀ a ∈ rollingTrace 3 7, a.inBounds = true := by decide
example : rollingTrace 2 2 = [wr "yy" 0 2, rd "xx" 0 2, wr "yy" 1 2, rd "xx" 1 2, wr "yy" 1 2, wr "yy" 1 2] := by decide
example : ∀ a ∈ vcurveTrace 2 2, a.inBounds = true := by decide
example : (vcurveTrace 2 2).length = 24 := by decide
example : ∃ a ∈ vcurveTrace 5 1, a.inBounds = false := by decide

end Hdc.C14
