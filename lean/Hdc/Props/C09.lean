import Hdc.Lemmas.SpiBasic
import Hdc.Lemmas.SpiSearch
import Hdc.Lemmas.SpiGroup
import Hdc.Lemmas.SpiExample
import Mathlib.Data.Int.Order.Basic
import Mathlib.Tactic.Tauto
import Mathlib.Data.Finset.Card
import Mathlib.Data.Finset.Range
/-
C09  The SPI calibration window is the set of steps with begin ≤ t ≤ end (both ends inclusive),
     and grouped SPI is ungrouped SPI of each group's sub-series under that group's window.

FORMAL STATEMENTS (all proved below, namespace `Hdc.C09`)

 1. searchLeft_spec / searchRight_spec   on a sorted list, `searchLeft a v` = #{x ∈ a | x < v}, it is ≤ length,
      every index below it holds an entry < v and every index from it on an entry ≥ v (`right`: ≤ v / > v)
 2. window_exact       (i,j) = calIndices time b e, k < length :  i ≤ k < j  ↔  b ≤ time[k] ≤ e
    calIndices_diff    j − i = number of steps with b ≤ t ≤ e   (0 for reversed / empty windows)
 3. spiWindow_spec     spiWindow time b e = error if fewer than 2 steps lie in the window, else ok (calIndices …)
    spiWindow_error_iff, spiWindow_error_iff_four (the four source checks), spiWindow_ok (j − i ≥ 2, j ≤ length, exactness),
    spiWindow_reversed, spiWindowGrp_error_iff, spiWindowGrp_error_iff_of_pos, spiWindowGrp_ok
 4. spiAttrs_spec      for an accepted window the attributes are time[i], time[j−1]; these are the first and last step inside
 5. toLinspace_spec    keys strictly ascending, same members as x, idx[i] < #keys, keys[idx[i]] = x[i], idx[i] = idx[j] ↔ x[i] = x[j];
    toLinspace_partition_indep (any two labelings with the same partition give the same idx-partition),
    toLinspace_order_iso (an order-preserving respelling gives the same idx)
 6. gatherGrp_eq_subSeries, scatterGrp_cell, gatherGrp_scatterGrp, scatterGrp_gatherGrp,
    gammastdGrp_decomposes (list form), gammastdGrp_cell (cell form), gammastdGrp_written_iff
 7. gammastdGrp_relabel, gammastdGrp_single_group
 8. cal_indices_fit_int16, calIndicesGrp_fit_int16
-/
set_option linter.unusedSectionVars false
set_option linter.unusedSimpArgs false
set_option linter.unusedVariables false
namespace Hdc.C09
open Hdc.Spi

/-! ## Specification-side definitions (nothing below mentions the program) -/

/-- ascending (non-strict) -/
def Ascending {β : Type} [LE β] (l : List β) : Prop := l.Pairwise (· ≤ ·)

/-- the steps of the axis that lie in the closed window `[b, e]` -/
def windowSteps (time : List Int) (b e : Int) : List Int :=
  time.filter fun t => b ≤ t ∧ t ≤ e

/-- the sub-series `x[groups == g]`, by position -/
def subSeries {β : Type} (xx : List β) (groups : List ℕ) (g : ℕ) : List β :=
  (List.range xx.length).filterMap fun p => if groups[p]? = some g then xx[p]? else none

/-- number of earlier cells that carry the same label as cell `p` -/
def placeInGroup (groups : List ℕ) (p : ℕ) : ℕ :=
  ((List.range p).filter fun q => groups[q]? = groups[p]?).length

/-- default bounds of the accessor: first / last step -/
def beginOf (time : List Int) (b : Option Int) : Int := b.getD (time.headD 0)
def endOf (time : List Int) (e : Option Int) : Int := e.getD (time.getLastD 0)

/-! ## 1. searchsorted -/

section search
variable {β : Type} [LinearOrder β]

theorem searchLeft_spec (a : List β) (v : β) (h : Ascending a) :
    Py.searchLeft a v = (a.filter fun x => x < v).length ∧
    Py.searchLeft a v ≤ a.length ∧
    (∀ k (hk : k < a.length), k < Py.searchLeft a v → a[k] < v) ∧
    (∀ k (hk : k < a.length), Py.searchLeft a v ≤ k → v ≤ a[k]) := by
  refine ⟨?_, searchLeft_le_length a v, ?_, ?_⟩
  · rw [searchLeft_eq_countP a v h, List.countP_eq_length_filter]
  · intro k hk hlt; exact (lt_searchLeft_iff a v h k hk).mp hlt
  · intro k hk hle
    by_contra hc
    have := (lt_searchLeft_iff a v h k hk).mpr (not_le.mp hc)
    omega

theorem searchRight_spec (a : List β) (v : β) (h : Ascending a) :
    Py.searchRight a v = (a.filter fun x => x ≤ v).length ∧
    Py.searchRight a v ≤ a.length ∧
    (∀ k (hk : k < a.length), k < Py.searchRight a v → a[k] ≤ v) ∧
    (∀ k (hk : k < a.length), Py.searchRight a v ≤ k → v < a[k]) := by
  refine ⟨?_, searchRight_le_length a v, ?_, ?_⟩
  · rw [searchRight_eq_countP a v h, List.countP_eq_length_filter]
  · intro k hk hlt; exact (lt_searchRight_iff a v h k hk).mp hlt
  · intro k hk hle
    by_contra hc
    have := (lt_searchRight_iff a v h k hk).mpr (not_lt.mp hc)
    omega

end search

/-! ## 2. the window is exact, both ends inclusive -/

theorem window_exact (time : List Int) (h : Ascending time) (b e : Int) (k : ℕ)
    (hk : k < time.length) :
    ((calIndices time b e).1 ≤ k ∧ k < (calIndices time b e).2) ↔ (b ≤ time[k] ∧ time[k] ≤ e) := by
  unfold calIndices
  simp only
  rw [lt_searchRight_iff time e h k hk]
  have := lt_searchLeft_iff time b h k hk
  constructor
  · rintro ⟨h1, h2⟩
    refine ⟨?_, h2⟩
    by_contra hc
    have := this.mpr (not_le.mp hc)
    omega
  · rintro ⟨h1, h2⟩
    refine ⟨?_, h2⟩
    by_contra hc
    have := this.mp (Nat.lt_of_not_le hc)
    omega

theorem countP_split (l : List Int) (b e : Int) (hbe : b ≤ e) :
    l.countP (fun t => decide (t ≤ e)) =
      l.countP (fun t => decide (t < b)) + l.countP (fun t => decide (b ≤ t ∧ t ≤ e)) := by
  induction l with
  | nil => simp
  | cons x l ih =>
    simp only [List.countP_cons, ih]
    by_cases h1 : x ≤ e <;> by_cases h2 : x < b <;> by_cases h3 : b ≤ x <;>
      simp [h1, h2, h3] <;> omega

/-- the width of the slice is the number of steps in the closed window; reversed (`e < b`) and
    empty windows give width 0 -/
theorem calIndices_diff (time : List Int) (h : Ascending time) (b e : Int) :
    (calIndices time b e).2 - (calIndices time b e).1 = (windowSteps time b e).length := by
  unfold calIndices windowSteps
  simp only
  rw [searchLeft_eq_countP time b h, searchRight_eq_countP time e h, ← List.countP_eq_length_filter]
  by_cases hbe : b ≤ e
  · rw [countP_split time b e hbe]; omega
  · have h0 : time.countP (fun t => decide (b ≤ t ∧ t ≤ e)) = 0 := by
      rw [List.countP_eq_zero]; intro t _; simp; omega
    have hle : time.countP (fun t => decide (t ≤ e)) ≤ time.countP (fun t => decide (t < b)) := by
      apply List.countP_mono_left
      intro t _ ht
      simp only [decide_eq_true_eq] at ht ⊢; omega
    rw [h0]; omega

theorem calIndices_le_of_reversed (time : List Int) (h : Ascending time) (b e : Int)
    (hbe : e < b) : (calIndices time b e).2 ≤ (calIndices time b e).1 := by
  have := calIndices_diff time h b e
  have h0 : (windowSteps time b e).length = 0 := by
    unfold windowSteps
    rw [← List.countP_eq_length_filter, List.countP_eq_zero]; intro t _; simp; omega
  omega

/-! ## 8. (needed early) the indices fit the sub-series -/

theorem cal_indices_fit_int16 (time : List Int) (b e : Int) :
    (calIndices time b e).1 ≤ time.length ∧ (calIndices time b e).2 ≤ time.length :=
  ⟨searchLeft_le_length time b, searchRight_le_length time e⟩

/-! ## 3. validation of the window -/

theorem le_getLast_of_asc (time : List Int) (h : Ascending time) (tl : Int)
    (hl : time.getLast? = some tl) : ∀ t ∈ time, t ≤ tl := by
  obtain ⟨ys, rfl⟩ := List.getLast?_eq_some_iff.mp hl
  intro t ht
  rw [Ascending, List.pairwise_append] at h
  rcases List.mem_append.mp ht with ht | ht
  · exact h.2.2 t ht tl (by simp)
  · have : t = tl := by simpa using ht
    omega

theorem head_le_of_asc (time : List Int) (h : Ascending time) (t0 : Int)
    (h0 : time.head? = some t0) : ∀ t ∈ time, t0 ≤ t := by
  cases time with
  | nil => simp at h0
  | cons x xs =>
    have : x = t0 := by simpa using h0
    subst this
    rw [Ascending, List.pairwise_cons] at h
    intro t ht
    rcases List.mem_cons.mp ht with rfl | ht
    · exact le_refl _
    · exact h.1 t ht

theorem spiWindow_spec (time : List Int) (h : Ascending time) (b e : Option Int) :
    spiWindow time b e =
      if (windowSteps time (beginOf time b) (endOf time e)).length < 2 then .error .valueError
      else .ok (calIndices time (beginOf time b) (endOf time e)) := by
  cases time with
  | nil => simp [spiWindow, windowSteps]
  | cons t ts =>
    have hl : (t :: ts).getLast? = some ((t :: ts).getLast (by simp)) := List.getLast?_eq_some_getLast _
    generalize (t :: ts).getLast (by simp) = tl at hl
    have hb : beginOf (t :: ts) b = b.getD t := by simp [beginOf]
    have he : endOf (t :: ts) e = e.getD tl := by simp [endOf, List.getLastD_eq_getLast?, hl]
    rw [hb, he]
    have hd := calIndices_diff (t :: ts) h (b.getD t) (e.getD tl)
    unfold spiWindow
    rw [hl]
    simp only [List.head?_cons]
    have hw0 : (tl < b.getD t ∨ e.getD tl < t) →
        (windowSteps (t :: ts) (b.getD t) (e.getD tl)).length = 0 := by
      intro hc
      unfold windowSteps
      rw [← List.countP_eq_length_filter, List.countP_eq_zero]
      intro x hx
      have h1 := le_getLast_of_asc _ h tl hl x hx
      have h2 := head_le_of_asc _ h t (by simp) x hx
      simp only [decide_eq_true_eq]
      omega
    generalize calIndices (t :: ts) (b.getD t) (e.getD tl) = ij at *
    obtain ⟨i, j⟩ := ij
    simp only at hd ⊢
    split_ifs <;> first | rfl | (exfalso; omega)

/-- rejection ⇔ fewer than two steps inside the closed window -/
theorem spiWindow_error_iff (time : List Int) (h : Ascending time) (b e : Option Int) :
    spiWindow time b e = .error .valueError ↔
      (windowSteps time (beginOf time b) (endOf time e)).length < 2 := by
  rw [spiWindow_spec time h b e]
  split_ifs with hc <;> simp [hc]

/-- the four checks of the source, and why they collapse -/
theorem spiWindow_error_iff_four (time : List Int) (h : Ascending time) (b e : Int) :
    spiWindow time (some b) (some e) = .error .valueError ↔
      time = [] ∨ (windowSteps time b e).length < 2 ∨
        (∃ tl, time.getLast? = some tl ∧ tl < b) ∨ (∃ t0, time.head? = some t0 ∧ e < t0) := by
  rw [spiWindow_error_iff time h]
  simp only [beginOf, endOf, Option.getD_some]
  constructor
  · intro hc; exact Or.inr (Or.inl hc)
  · rintro (rfl | hc | ⟨tl, hl, hlt⟩ | ⟨t0, h0, hlt⟩)
    · simp [windowSteps]
    · exact hc
    · have : (windowSteps time b e).length = 0 := by
        unfold windowSteps
        rw [← List.countP_eq_length_filter, List.countP_eq_zero]
        intro x hx
        have h1 := le_getLast_of_asc _ h tl hl x hx
        simp only [decide_eq_true_eq]; omega
      omega
    · have : (windowSteps time b e).length = 0 := by
        unfold windowSteps
        rw [← List.countP_eq_length_filter, List.countP_eq_zero]
        intro x hx
        have h1 := head_le_of_asc _ h t0 h0 x hx
        simp only [decide_eq_true_eq]; omega
      omega

/-- a reversed window (`end < begin`) is always rejected -/
theorem spiWindow_reversed (time : List Int) (h : Ascending time) (b e : Int) (hbe : e < b) :
    spiWindow time (some b) (some e) = .error .valueError := by
  rw [spiWindow_error_iff time h]
  simp only [beginOf, endOf, Option.getD_some]
  have : (windowSteps time b e).length = 0 := by
    unfold windowSteps
    rw [← List.countP_eq_length_filter, List.countP_eq_zero]
    intro x hx
    simp only [decide_eq_true_eq]; omega
  omega

/-- an accepted window: at least two steps, inside the axis, and exact -/
theorem spiWindow_ok (time : List Int) (h : Ascending time) (b e : Option Int) (i j : ℕ)
    (hok : spiWindow time b e = .ok (i, j)) :
    (i, j) = calIndices time (beginOf time b) (endOf time e) ∧
    2 ≤ j - i ∧ j ≤ time.length ∧
    j - i = (windowSteps time (beginOf time b) (endOf time e)).length ∧
    ∀ k (hk : k < time.length),
      (i ≤ k ∧ k < j) ↔ (beginOf time b ≤ time[k] ∧ time[k] ≤ endOf time e) := by
  rw [spiWindow_spec time h b e] at hok
  split_ifs at hok with hc
  have heq : calIndices time (beginOf time b) (endOf time e) = (i, j) := by
    simpa using hok
  have hd := calIndices_diff time h (beginOf time b) (endOf time e)
  have hfit := cal_indices_fit_int16 time (beginOf time b) (endOf time e)
  have hex := window_exact time h (beginOf time b) (endOf time e)
  rw [heq] at hd hfit hex
  simp only at hd hfit hex
  exact ⟨heq.symm, by omega, hfit.2, hd, hex⟩

/-! ## 6a. sub-series and place in group, by position -/

theorem gatherGrp_eq_subSeries {β : Type} (g : ℕ) : ∀ (xx : List β) (groups : List ℕ),
    gatherGrp xx groups g = subSeries xx groups g
  | [], groups => by simp [subSeries]
  | x :: xs, [] => by simp [subSeries]
  | x :: xs, k :: ks => by
    rw [gatherGrp_cons, gatherGrp_eq_subSeries g xs ks]
    unfold subSeries
    simp only [List.length_cons, List.range_succ_eq_map, List.filterMap_cons, List.filterMap_map]
    by_cases hk : k = g
    · simp [hk, Function.comp_def]
    · simp [hk, Function.comp_def]

theorem rankIn_eq_filter_range (groups : List ℕ) (g : ℕ) : ∀ p, p ≤ groups.length →
    rankIn groups g p = ((List.range p).filter fun q => groups[q]? = some g).length
  | 0, _ => by simp [rankIn]
  | p + 1, hp => by
    have hp' : p < groups.length := hp
    have ih := rankIn_eq_filter_range groups g p (Nat.le_of_lt hp')
    unfold rankIn at ih ⊢
    rw [List.take_add_one, List.count_append, ih, List.range_succ, List.filter_append,
      List.length_append, List.getElem?_eq_getElem hp']
    by_cases hg : groups[p] = g
    · simp [hg, List.getElem?_eq_getElem hp']
    · simp [hg, List.getElem?_eq_getElem hp']

theorem rankIn_eq_placeInGroup (groups : List ℕ) (p : ℕ) (hp : p < groups.length) :
    rankIn groups groups[p] p = placeInGroup groups p := by
  rw [rankIn_eq_filter_range groups _ p (Nat.le_of_lt hp)]
  unfold placeInGroup
  rw [List.getElem?_eq_getElem hp]

/-! ## 3b. validation of the window, grouped -/

theorem subSeries_ascending (time : List Int) (h : Ascending time) (groups : List ℕ) (g : ℕ) :
    Ascending (subSeries time groups g) := by
  rw [← gatherGrp_eq_subSeries]
  exact List.Pairwise.sublist (gatherGrp_sublist g groups time) h

theorem calIndicesGrp_eq (time : List Int) (groups : List ℕ) (n : ℕ) (b e : Int) :
    calIndicesGrp time groups n b e =
      (List.range n).map fun g => calIndices (subSeries time groups g) b e := by
  unfold calIndicesGrp
  apply List.map_congr_left
  intro g _
  rw [← gatherGrp_eq_subSeries]
  rfl

theorem spiWindowGrp_cases (time : List Int) (h : Ascending time) (groups : List ℕ) (n : ℕ)
    (b e : Option Int) :
    ((time = [] ∨ time.getLastD 0 < beginOf time b ∨ endOf time e < time.headD 0 ∨
          ∃ g, g < n ∧ (windowSteps (subSeries time groups g) (beginOf time b) (endOf time e)).length < 2) →
      spiWindowGrp time groups n b e = .error .valueError) ∧
    (¬ (time = [] ∨ time.getLastD 0 < beginOf time b ∨ endOf time e < time.headD 0 ∨
          ∃ g, g < n ∧ (windowSteps (subSeries time groups g) (beginOf time b) (endOf time e)).length < 2) →
      spiWindowGrp time groups n b e = .ok ((List.range n).map fun g =>
        calIndices (subSeries time groups g) (beginOf time b) (endOf time e))) := by
  cases time with
  | nil => simp [spiWindowGrp]
  | cons t ts =>
    have hl : (t :: ts).getLast? = some ((t :: ts).getLast (by simp)) := List.getLast?_eq_some_getLast _
    generalize (t :: ts).getLast (by simp) = tl at hl
    have hb : beginOf (t :: ts) b = b.getD t := by simp [beginOf]
    have he : endOf (t :: ts) e = e.getD tl := by simp [endOf, List.getLastD_eq_getLast?, hl]
    have hl' : (t :: ts).getLastD 0 = tl := by simp [List.getLastD_eq_getLast?, hl]
    rw [hb, he, hl']
    unfold spiWindowGrp
    rw [hl]
    simp only [List.head?_cons, calIndicesGrp_eq]
    simp only [List.headD_cons]
    have key : ∀ g, (calIndices (subSeries (t :: ts) groups g) (b.getD t) (e.getD tl)).2 -
        (calIndices (subSeries (t :: ts) groups g) (b.getD t) (e.getD tl)).1 =
        (windowSteps (subSeries (t :: ts) groups g) (b.getD t) (e.getD tl)).length :=
      fun g => calIndices_diff _ (subSeries_ascending _ h groups g) _ _
    have h1 : ((List.map (fun g => calIndices (subSeries (t :: ts) groups g) (b.getD t) (e.getD tl))
        (List.range n)).any fun x => decide (x.2 ≤ x.1)) = true →
        ∃ g < n, (windowSteps (subSeries (t :: ts) groups g) (b.getD t) (e.getD tl)).length < 2 := by
      simp only [List.any_map, List.any_eq_true, List.mem_range, Function.comp_apply,
        decide_eq_true_eq]
      rintro ⟨g, hg, hle⟩
      exact ⟨g, hg, by have := key g; omega⟩
    have h2 : ((List.map (fun g => calIndices (subSeries (t :: ts) groups g) (b.getD t) (e.getD tl))
        (List.range n)).any fun x => decide (x.2 - x.1 ≤ 1)) = true ↔
        ∃ g < n, (windowSteps (subSeries (t :: ts) groups g) (b.getD t) (e.getD tl)).length < 2 := by
      simp only [List.any_map, List.any_eq_true, List.mem_range, Function.comp_apply,
        decide_eq_true_eq]
      constructor
      · rintro ⟨g, hg, hle⟩
        exact ⟨g, hg, by have := key g; omega⟩
      · rintro ⟨g, hg, hle⟩
        exact ⟨g, hg, by have := key g; omega⟩
    constructor
    · rintro (hc | hc | hc | hP)
      · simp at hc
      · rw [if_pos hc]
      · by_cases c1 : tl < b.getD t
        · rw [if_pos c1]
        · rw [if_neg c1, if_pos hc]
      · by_cases c1 : tl < b.getD t
        · rw [if_pos c1]
        · rw [if_neg c1]
          by_cases c3 : e.getD tl < t
          · rw [if_pos c3]
          · rw [if_neg c3, if_pos (h2.mpr hP)]; simp
    · intro hn
      have c1 : ¬ tl < b.getD t := fun hh => hn (Or.inr (Or.inl hh))
      have c3 : ¬ e.getD tl < t := fun hh => hn (Or.inr (Or.inr (Or.inl hh)))
      have hP : ¬ ∃ g < n,
          (windowSteps (subSeries (t :: ts) groups g) (b.getD t) (e.getD tl)).length < 2 :=
        fun hh => hn (Or.inr (Or.inr (Or.inr hh)))
      rw [if_neg c1, if_neg c3, if_neg (fun hh => hP (h1 hh)), if_neg (fun hh => hP (h2.mp hh))]

/-- the rejection condition of the grouped accessor -/
def GrpReject (time : List Int) (groups : List ℕ) (n : ℕ) (b e : Option Int) : Prop :=
  time = [] ∨ time.getLastD 0 < beginOf time b ∨ endOf time e < time.headD 0 ∨
    ∃ g, g < n ∧ (windowSteps (subSeries time groups g) (beginOf time b) (endOf time e)).length < 2

theorem spiWindowGrp_error_iff (time : List Int) (h : Ascending time) (groups : List ℕ) (n : ℕ)
    (b e : Option Int) :
    spiWindowGrp time groups n b e = .error .valueError ↔ GrpReject time groups n b e := by
  have := spiWindowGrp_cases time h groups n b e
  constructor
  · intro he
    by_contra hc
    rw [this.2 hc] at he
    cases he
  · exact this.1

theorem windowSteps_length_zero (l : List Int) (b e : Int) (h : ∀ t ∈ l, t < b ∨ e < t) :
    (windowSteps l b e).length = 0 := by
  unfold windowSteps
  rw [← List.countP_eq_length_filter, List.countP_eq_zero]
  intro x hx
  have := h x hx
  simp only [decide_eq_true_eq]; omega

theorem mem_subSeries {β : Type} (xx : List β) (groups : List ℕ) (g : ℕ) (v : β)
    (hv : v ∈ subSeries xx groups g) : v ∈ xx := by
  rw [← gatherGrp_eq_subSeries] at hv
  exact (gatherGrp_sublist g groups xx).subset hv

/-- with at least one group the global checks are subsumed: rejection ⇔ some group has fewer
    than two steps inside the window -/
theorem spiWindowGrp_error_iff_of_pos (time : List Int) (h : Ascending time) (groups : List ℕ)
    (n : ℕ) (hn : 0 < n) (b e : Option Int) :
    spiWindowGrp time groups n b e = .error .valueError ↔
      ∃ g, g < n ∧
        (windowSteps (subSeries time groups g) (beginOf time b) (endOf time e)).length < 2 := by
  rw [spiWindowGrp_error_iff time h]
  constructor
  · rintro (rfl | hc | hc | hc)
    · exact ⟨0, hn, by simp [subSeries, windowSteps]⟩
    · refine ⟨0, hn, ?_⟩
      rw [windowSteps_length_zero]; · omega
      intro t ht
      have ht' := mem_subSeries _ _ _ _ ht
      cases time with
      | nil => simp at ht'
      | cons x xs =>
        have hl : (x :: xs).getLast? = some ((x :: xs).getLastD 0) := by
          rw [List.getLastD_eq_getLast?, List.getLast?_eq_some_getLast (by simp)]; rfl
        have := le_getLast_of_asc _ h _ hl t ht'
        omega
    · refine ⟨0, hn, ?_⟩
      rw [windowSteps_length_zero]; · omega
      intro t ht
      have ht' := mem_subSeries _ _ _ _ ht
      cases time with
      | nil => simp at ht'
      | cons x xs =>
        have := head_le_of_asc _ h x (by simp) t ht'
        simp only [List.headD_cons] at hc
        omega
    · exact hc
  · intro hc; exact Or.inr (Or.inr (Or.inr hc))

/-- an accepted grouped window: one slice per group, each with at least two steps, inside the
    group's sub-axis, and exact on it -/
theorem spiWindowGrp_ok (time : List Int) (h : Ascending time) (groups : List ℕ) (n : ℕ)
    (b e : Option Int) (ws : List (ℕ × ℕ)) (hok : spiWindowGrp time groups n b e = .ok ws) :
    ws.length = n ∧ ∀ g, g < n → ∃ i j, ws[g]? = some (i, j) ∧
      (i, j) = calIndices (subSeries time groups g) (beginOf time b) (endOf time e) ∧
      2 ≤ j - i ∧ j ≤ (subSeries time groups g).length ∧
      ∀ k (hk : k < (subSeries time groups g).length),
        (i ≤ k ∧ k < j) ↔
          (beginOf time b ≤ (subSeries time groups g)[k] ∧ (subSeries time groups g)[k] ≤ endOf time e) := by
  have hc := spiWindowGrp_cases time h groups n b e
  by_cases hr : GrpReject time groups n b e
  · rw [hc.1 hr] at hok; cases hok
  · rw [hc.2 hr] at hok
    have hws : ws = (List.range n).map fun g =>
        calIndices (subSeries time groups g) (beginOf time b) (endOf time e) := by
      injection hok with hok; exact hok.symm
    subst hws
    refine ⟨by simp, ?_⟩
    intro g hg
    have hsub := subSeries_ascending time h groups g
    refine ⟨(calIndices (subSeries time groups g) (beginOf time b) (endOf time e)).1,
      (calIndices (subSeries time groups g) (beginOf time b) (endOf time e)).2, by simp [hg], rfl, ?_,
      (cal_indices_fit_int16 _ _ _).2, window_exact _ hsub _ _⟩
    have hd := calIndices_diff _ hsub (beginOf time b) (endOf time e)
    have : ¬ (windowSteps (subSeries time groups g) (beginOf time b) (endOf time e)).length < 2 :=
      fun hh => hr (Or.inr (Or.inr (Or.inr ⟨g, hg, hh⟩)))
    omega

/-! ## 4. recorded attributes -/

theorem spiAttrs_eq (time : List Int) (h : Ascending time) (b e : Int) :
    spiAttrs time b e =
      (time[(calIndices time b e).1]?,
       if (calIndices time b e).2 = 0 then none else time[(calIndices time b e).2 - 1]?) := by
  unfold spiAttrs calIndices
  have h1 : (time.filter fun t => decide (b ≤ t)) = time.drop (Py.searchLeft time b) := by
    unfold Py.searchLeft
    rw [← filter_not_eq_drop_of_sorted _ (downClosed_lt b) time h]
    apply List.filter_congr
    intro x _
    by_cases hx : x < b
    · simp [hx, not_le.mpr hx]
    · simp [hx, not_lt.mp hx]
  have h2 : (time.filter fun t => decide (t ≤ e)) = time.take (Py.searchRight time e) := by
    unfold Py.searchRight
    rw [← filter_eq_take_of_sorted _ (downClosed_le e) time h]
    apply List.filter_congr
    intro x _
    by_cases hx : e < x
    · simp [hx, not_le.mpr hx]
    · simp [hx, not_lt.mp hx]
  rw [h1, h2, List.head?_drop, List.getLast?_take]
  simp only
  split_ifs with hc
  · rfl
  · have hle := searchRight_le_length time e
    have : Py.searchRight time e - 1 < time.length := by omega
    rw [List.getElem?_eq_getElem this]; rfl

/-- for an accepted window the recorded attributes are `time[i]` and `time[j-1]`, and these are
    the first and the last step inside the window -/
theorem spiAttrs_spec (time : List Int) (h : Ascending time) (b e : Int) (i j : ℕ)
    (hok : spiWindow time (some b) (some e) = .ok (i, j)) :
    ∃ (hi : i < time.length) (hj : j - 1 < time.length),
      spiAttrs time b e = (some time[i], some time[j - 1]) ∧
      (b ≤ time[i] ∧ time[i] ≤ e) ∧ (b ≤ time[j - 1] ∧ time[j - 1] ≤ e) ∧
      ∀ k (hk : k < time.length), b ≤ time[k] → time[k] ≤ e → i ≤ k ∧ k ≤ j - 1 := by
  obtain ⟨heq, h2, hj, _, hex⟩ := spiWindow_ok time h (some b) (some e) i j hok
  simp only [beginOf, endOf, Option.getD_some] at heq hex
  have hi : i < time.length := by omega
  have hj' : j - 1 < time.length := by omega
  refine ⟨hi, hj', ?_, (hex i hi).mp (by omega), (hex (j - 1) hj').mp (by omega), ?_⟩
  · rw [spiAttrs_eq time h, ← heq]
    simp only
    rw [if_neg (by omega), List.getElem?_eq_getElem hi, List.getElem?_eq_getElem hj']
  · intro k hk hb he
    have := (hex k hk).mpr ⟨hb, he⟩
    omega

/-! ## 5. label linearisation -/

section linspace
variable {β : Type} [LinearOrder β]

theorem toLinspace_keys_sorted (x : List β) : (toLinspace x).2.Pairwise (· < ·) :=
  unique_sorted x

theorem toLinspace_keys_mem (x : List β) (v : β) : v ∈ (toLinspace x).2 ↔ v ∈ x :=
  mem_unique v x

theorem toLinspace_idx_length (x : List β) : (toLinspace x).1.length = x.length := by
  simp [toLinspace]

theorem toLinspace_idx_getElem (x : List β) (i : ℕ) (hi : i < x.length) :
    (toLinspace x).1[i]'(by rw [toLinspace_idx_length]; exact hi) =
      Py.searchLeft (toLinspace x).2 x[i] := by
  simp [toLinspace]

/-- the index of a label points at that label among the keys -/
theorem toLinspace_keys_idx (x : List β) (i : ℕ) (hi : i < x.length) :
    ∃ (hk : (toLinspace x).1[i]'(by rw [toLinspace_idx_length]; exact hi) < (toLinspace x).2.length),
      (toLinspace x).2[(toLinspace x).1[i]'(by rw [toLinspace_idx_length]; exact hi)] = x[i] := by
  have hmem : x[i] ∈ (toLinspace x).2 := (toLinspace_keys_mem x _).mpr (List.getElem_mem hi)
  obtain ⟨m, hm, hmx⟩ := List.getElem_of_mem hmem
  have hs := searchLeft_getElem_of_strict _ (toLinspace_keys_sorted x) m hm
  rw [hmx] at hs
  have hidx := toLinspace_idx_getElem x i hi
  rw [hs] at hidx
  refine ⟨by rw [hidx]; exact hm, ?_⟩
  simp only [hidx]; exact hmx

/-- equal indices ⇔ equal labels: the partition induced by `idx` is that of the labels -/
theorem toLinspace_idx_eq_iff (x : List β) (i j : ℕ) (hi : i < x.length) (hj : j < x.length) :
    (toLinspace x).1[i]'(by rw [toLinspace_idx_length]; exact hi) =
      (toLinspace x).1[j]'(by rw [toLinspace_idx_length]; exact hj) ↔ x[i] = x[j] := by
  constructor
  · intro h
    obtain ⟨hki, hi'⟩ := toLinspace_keys_idx x i hi
    obtain ⟨hkj, hj'⟩ := toLinspace_keys_idx x j hj
    rw [← hi', ← hj']
    simp only [h]
  · intro h
    rw [toLinspace_idx_getElem x i hi, toLinspace_idx_getElem x j hj, h]

theorem toLinspace_spec (x : List β) :
    (toLinspace x).2.Pairwise (· < ·) ∧ (∀ v, v ∈ (toLinspace x).2 ↔ v ∈ x) ∧
    (toLinspace x).1.length = x.length ∧
    (∀ i (hi : i < x.length),
      ∃ (hk : (toLinspace x).1[i]'(by rw [toLinspace_idx_length]; exact hi) < (toLinspace x).2.length),
        (toLinspace x).2[(toLinspace x).1[i]'(by rw [toLinspace_idx_length]; exact hi)] = x[i]) ∧
    (∀ i j (hi : i < x.length) (hj : j < x.length),
      (toLinspace x).1[i]'(by rw [toLinspace_idx_length]; exact hi) =
        (toLinspace x).1[j]'(by rw [toLinspace_idx_length]; exact hj) ↔ x[i] = x[j]) :=
  ⟨toLinspace_keys_sorted x, toLinspace_keys_mem x, toLinspace_idx_length x,
    toLinspace_keys_idx x, toLinspace_idx_eq_iff x⟩

/-- the partition does not depend on the label type, spelling or order: two labelings (over any
    two linear orders) that agree on which cells are equal induce the same index partition -/
theorem toLinspace_partition_indep {γ : Type} [LinearOrder γ] (x : List β) (y : List γ)
    (hlen : x.length = y.length)
    (hsame : ∀ i j (hi : i < x.length) (hj : j < x.length),
      x[i] = x[j] ↔ y[i]'(hlen ▸ hi) = y[j]'(hlen ▸ hj))
    (i j : ℕ) (hi : i < x.length) (hj : j < x.length) :
    (toLinspace x).1[i]'(by rw [toLinspace_idx_length]; exact hi) =
        (toLinspace x).1[j]'(by rw [toLinspace_idx_length]; exact hj) ↔
      (toLinspace y).1[i]'(by rw [toLinspace_idx_length]; exact hlen ▸ hi) =
        (toLinspace y).1[j]'(by rw [toLinspace_idx_length]; exact hlen ▸ hj) := by
  rw [toLinspace_idx_eq_iff x i j hi hj, toLinspace_idx_eq_iff y i j (hlen ▸ hi) (hlen ▸ hj)]
  exact hsame i j hi hj


theorem insertUniq_map {γ : Type} [LinearOrder γ] (f : β → γ) (hf : ∀ a b, f a < f b ↔ a < b)
    (a : β) (l : List β) : Py.insertUniq (f a) (l.map f) = (Py.insertUniq a l).map f := by
  induction l with
  | nil => simp [Py.insertUniq]
  | cons c cs ih =>
    simp only [List.map_cons, Py.insertUniq, hf]
    split_ifs <;> simp [ih]

theorem unique_map {γ : Type} [LinearOrder γ] (f : β → γ) (hf : ∀ a b, f a < f b ↔ a < b)
    (l : List β) : Py.unique (l.map f) = (Py.unique l).map f := by
  induction l with
  | nil => simp [Py.unique]
  | cons c cs ih =>
    have h1 : Py.unique (c :: cs) = Py.insertUniq c (Py.unique cs) := rfl
    have h2 : Py.unique ((c :: cs).map f) = Py.insertUniq (f c) (Py.unique (cs.map f)) := rfl
    rw [h1, h2, ih, insertUniq_map f hf]

theorem searchLeft_map {γ : Type} [LinearOrder γ] (f : β → γ) (hf : ∀ a b, f a < f b ↔ a < b)
    (l : List β) (v : β) : Py.searchLeft (l.map f) (f v) = Py.searchLeft l v := by
  unfold Py.searchLeft
  induction l with
  | nil => simp
  | cons c cs ih =>
    simp only [List.map_cons, List.takeWhile_cons, hf]
    split_ifs <;> simp [ih]

/-- an order-preserving respelling of the labels yields the same indices (and the respelt keys) -/
theorem toLinspace_order_iso {γ : Type} [LinearOrder γ] (f : β → γ)
    (hf : ∀ a b, f a < f b ↔ a < b) (x : List β) :
    toLinspace (x.map f) = ((toLinspace x).1, (toLinspace x).2.map f) := by
  unfold toLinspace
  simp only [unique_map f hf, List.map_map, Prod.mk.injEq, and_true]
  apply List.map_congr_left
  intro v _
  simp [searchLeft_map f hf]

end linspace

/-! ## 6. gather / scatter and the decomposition of grouped SPI -/

section grouping
variable {β : Type}

/-- `yy[groups == g] = vals`: the cells of group `g` receive the values in order (while there
    are values), every other cell keeps its content; the length is unchanged -/
theorem scatterGrp_cell (g : ℕ) (groups : List ℕ) (vals : List β) (out : List (Option β))
    (p : ℕ) (hp : p < out.length) :
    (scatterGrp g groups vals out).length = out.length ∧
    (scatterGrp g groups vals out)[p]? =
      if groups[p]? = some g then
        (match vals[placeInGroup groups p]? with
         | some v => some (some v)
         | none => out[p]?)
      else out[p]? := by
  refine ⟨scatterGrp_length g groups vals out, ?_⟩
  rw [scatterGrp_getElem? g groups vals out p hp]
  by_cases hg : groups[p]? = some g
  · have hpl : p < groups.length := by
      by_contra hc
      rw [List.getElem?_eq_none (Nat.le_of_not_lt hc)] at hg; simp at hg
    have hgp : groups[p] = g := by
      rw [List.getElem?_eq_getElem hpl] at hg; simpa using hg
    rw [if_pos hg, if_pos hg, ← rankIn_eq_placeInGroup groups p hpl, hgp]
    cases vals[rankIn groups g p]? <;> rfl
  · simp [hg]

/-- scatter ∘ gather round trip, gather side: what was scattered is what is gathered -/
theorem gatherGrp_scatterGrp (g : ℕ) (groups : List ℕ) (vals : List β) (out : List (Option β))
    (ho : out.length = groups.length) (hv : vals.length = groups.count g) :
    subSeries (scatterGrp g groups vals out) groups g = vals.map some ∧
    ∀ g', g' ≠ g → subSeries (scatterGrp g groups vals out) groups g' = subSeries out groups g' := by
  refine ⟨?_, ?_⟩
  · rw [← gatherGrp_eq_subSeries]; exact gatherGrp_scatterGrp_eq g groups vals out ho hv
  · intro g' hg'
    rw [← gatherGrp_eq_subSeries, ← gatherGrp_eq_subSeries]
    exact gatherGrp_scatterGrp_ne g' g (fun h => hg' h.symm) groups vals out

/-- scatter ∘ gather round trip, scatter side: writing a group's own cells back is the identity -/
theorem scatterGrp_gatherGrp (g : ℕ) (groups : List ℕ) (xx : List β) :
    scatterGrp g groups (subSeries xx groups g) (xx.map some) = xx.map some := by
  rw [← gatherGrp_eq_subSeries]; exact scatterGrp_gatherGrp_eq g groups xx

end grouping

section grouped
variable {α : Type} [Add α] [Sub α] [Mul α] [Div α] [Neg α] [NatCast α] [LT α] [DecidableLT α]

/-- SPI of the sub-series of group `g` under that group's window -/
def groupSpi (F : GamFns α) (xx : List α) (groups : List ℕ) (nodata : α) (cal : List (ℕ × ℕ))
    (g : ℕ) : List (Option α) :=
  gammastd F (subSeries xx groups g) nodata (cal.getD g (0, 0)).1 (cal.getD g (0, 0)).2

theorem grpResult_eq_groupSpi (F : GamFns α) (xx : List α) (groups : List ℕ) (nodata : α)
    (cal : List (ℕ × ℕ)) (g : ℕ) :
    grpResult F xx groups nodata cal g = groupSpi F xx groups nodata cal g := by
  unfold grpResult groupSpi; rw [gatherGrp_eq_subSeries]

/-- grouped SPI = ungrouped SPI of each group's sub-series under that group's window, in order -/
theorem gammastdGrp_decomposes (F : GamFns α) (xx : List α) (groups : List ℕ) (n : ℕ) (nodata : α)
    (cal : List (ℕ × ℕ)) (hlen : groups.length = xx.length) (g : ℕ) (hg : g < n) :
    subSeries (gammastdGrp F xx groups n nodata cal) groups g =
      (groupSpi F xx groups nodata cal g).map some := by
  rw [← gatherGrp_eq_subSeries, ← grpResult_eq_groupSpi]
  exact gatherGrp_gammastdGrp F xx groups n nodata cal hlen g hg

/-- the same cell by cell: a cell whose label is `g < numGroups` holds the SPI value at its place
    in the group's sub-series; a cell with any other label is never written -/
theorem gammastdGrp_cell (F : GamFns α) (xx : List α) (groups : List ℕ) (n : ℕ) (nodata : α)
    (cal : List (ℕ × ℕ)) (hlen : groups.length = xx.length) (p : ℕ) (hp : p < xx.length) :
    (gammastdGrp F xx groups n nodata cal).length = xx.length ∧
    (groups[p]'(hlen ▸ hp) < n →
      ∃ (hr : placeInGroup groups p <
          (groupSpi F xx groups nodata cal (groups[p]'(hlen ▸ hp))).length),
        (gammastdGrp F xx groups n nodata cal)[p]? =
          some (some ((groupSpi F xx groups nodata cal (groups[p]'(hlen ▸ hp)))[placeInGroup groups p]))) ∧
    (¬ groups[p]'(hlen ▸ hp) < n → (gammastdGrp F xx groups n nodata cal)[p]? = some none) := by
  have hpl : p < groups.length := hlen ▸ hp
  have hcell := gammastdGrp_getElem? F xx groups n nodata cal p hp
  rw [List.getElem?_eq_getElem hpl] at hcell
  simp only at hcell
  refine ⟨gammastdGrp_length F xx groups n nodata cal, ?_, ?_⟩
  · intro hg
    rw [if_pos hg] at hcell
    have hr : rankIn groups groups[p] p < (grpResult F xx groups nodata cal groups[p]).length := by
      unfold grpResult
      rw [gammastd_length]
      exact rankIn_lt_gatherGrp_length _ groups xx p hp (List.getElem?_eq_getElem hpl)
    rw [rankIn_eq_placeInGroup groups p hpl, grpResult_eq_groupSpi] at hr
    refine ⟨hr, ?_⟩
    rw [hcell, rankIn_eq_placeInGroup groups p hpl, grpResult_eq_groupSpi,
      List.getElem?_eq_getElem hr]
  · intro hg
    rw [if_neg hg] at hcell
    exact hcell

/-- every cell is written (no outer `none`) iff every label is `< numGroups` -/
theorem gammastdGrp_written_iff (F : GamFns α) (xx : List α) (groups : List ℕ) (n : ℕ) (nodata : α)
    (cal : List (ℕ × ℕ)) (hlen : groups.length = xx.length) :
    (∀ c ∈ gammastdGrp F xx groups n nodata cal, c ≠ none) ↔ ∀ k ∈ groups, k < n := by
  constructor
  · intro h k hk
    obtain ⟨p, hp, rfl⟩ := List.getElem_of_mem hk
    have hp' : p < xx.length := hlen ▸ hp
    by_contra hc
    have := (gammastdGrp_cell F xx groups n nodata cal hlen p hp').2.2 hc
    have hm := List.mem_of_getElem? this
    exact h none hm rfl
  · intro h c hc
    obtain ⟨p, hp, rfl⟩ := List.getElem_of_mem hc
    have hp' : p < xx.length := by rwa [gammastdGrp_length] at hp
    obtain ⟨hr, hcell⟩ := (gammastdGrp_cell F xx groups n nodata cal hlen p hp').2.1
      (h _ (List.getElem_mem _))
    rw [List.getElem?_eq_getElem hp] at hcell
    intro hnone
    rw [hnone] at hcell
    simp at hcell

end grouped

/-! ## 7, 8. relabelling, single group, index range -/

section relabel
variable {α : Type} [Add α] [Sub α] [Mul α] [Div α] [Neg α] [NatCast α] [LT α] [DecidableLT α]

/-- an injective map of `0..n-1` into itself is a permutation of it: nothing else lands inside -/
theorem perm_of_injective (σ : ℕ → ℕ) (hinj : Function.Injective σ) (n : ℕ)
    (hσ : ∀ g, g < n → σ g < n) (g : ℕ) : σ g < n ↔ g < n := by
  constructor
  · intro hg
    have hsub : (Finset.range n).image σ ⊆ Finset.range n := by
      intro y hy
      obtain ⟨x, hx, rfl⟩ := Finset.mem_image.mp hy
      exact Finset.mem_range.mpr (hσ x (Finset.mem_range.mp hx))
    have hcard : (Finset.range n).card ≤ ((Finset.range n).image σ).card := by
      rw [Finset.card_image_of_injective _ hinj]
    have heq := Finset.eq_of_subset_of_card_le hsub hcard
    have : σ g ∈ (Finset.range n).image σ := by rw [heq]; exact Finset.mem_range.mpr hg
    obtain ⟨x, hx, hxg⟩ := Finset.mem_image.mp this
    rw [← hinj hxg]; exact Finset.mem_range.mp hx
  · exact hσ g

/-- the result does not depend on how the groups are numbered: renumber the labels by a
    permutation `σ` of `0..numGroups-1` and permute the windows accordingly -/
theorem gammastdGrp_relabel (F : GamFns α) (xx : List α) (groups : List ℕ) (n : ℕ) (nodata : α)
    (cal cal' : List (ℕ × ℕ)) (σ : ℕ → ℕ) (hinj : Function.Injective σ)
    (hσ : ∀ g, g < n → σ g < n)
    (hcal : ∀ g, g < n → cal'.getD (σ g) (0, 0) = cal.getD g (0, 0)) :
    gammastdGrp F xx (groups.map σ) n nodata cal' = gammastdGrp F xx groups n nodata cal := by
  apply List.ext_getElem?
  intro p
  by_cases hp : p < xx.length
  · rw [gammastdGrp_getElem? F xx _ n nodata cal' p hp, gammastdGrp_getElem? F xx _ n nodata cal p hp,
      List.getElem?_map]
    cases hgp : groups[p]? with
    | none => simp
    | some g =>
      simp only [Option.map_some]
      by_cases hg : g < n
      · have hg' : σ g < n := hσ g hg
        rw [if_pos hg, if_pos hg']
        unfold grpResult
        rw [gatherGrp_map_inj σ hinj, rankIn_map_inj σ hinj, hcal g hg]
      · have hg' : ¬ σ g < n := fun h => hg ((perm_of_injective σ hinj n hσ g).mp h)
        rw [if_neg hg, if_neg hg']
  · have h1 : (gammastdGrp F xx (groups.map σ) n nodata cal').length ≤ p := by
      rw [gammastdGrp_length]; omega
    have h2 : (gammastdGrp F xx groups n nodata cal).length ≤ p := by
      rw [gammastdGrp_length]; omega
    rw [List.getElem?_eq_none h1, List.getElem?_eq_none h2]

/-- one group: the grouped kernel is the ungrouped one -/
theorem gammastdGrp_single_group (F : GamFns α) (xx : List α) (groups : List ℕ) (nodata : α)
    (cal : List (ℕ × ℕ)) (hlen : groups.length = xx.length) (hall : ∀ k ∈ groups, k = 0) :
    gammastdGrp F xx groups 1 nodata cal =
      (gammastd F xx nodata (cal.getD 0 (0, 0)).1 (cal.getD 0 (0, 0)).2).map some := by
  rw [gammastdGrp_succ, gammastdGrp_zero]
  unfold grpResult
  rw [gatherGrp_all 0 groups xx hlen hall]
  apply scatterGrp_all 0 groups _ _ (by simp [hlen]) (by simp [gammastd_length]) hall

end relabel

/-- the per-group slice indices never exceed the length of the group's sub-axis, which itself is
    at most the length of the axis (so they fit `int16` whenever the axis has ≤ 32767 steps) -/
theorem calIndicesGrp_fit_int16 (time : List Int) (groups : List ℕ) (n : ℕ) (b e : Int) (g : ℕ)
    (hg : g < n) :
    ∃ i j, (calIndicesGrp time groups n b e)[g]? = some (i, j) ∧
      i ≤ (subSeries time groups g).length ∧ j ≤ (subSeries time groups g).length ∧
      (subSeries time groups g).length ≤ time.length := by
  rw [calIndicesGrp_eq]
  refine ⟨_, _, by simp [hg], (cal_indices_fit_int16 _ b e).1, (cal_indices_fit_int16 _ b e).2, ?_⟩
  rw [← gatherGrp_eq_subSeries]; exact gatherGrp_length_le g groups time

/-- … hence within the int16 range for any axis of at most 32767 steps -/
theorem cal_indices_int16_range (time : List Int) (b e : Int) (hlen : time.length ≤ 32767) :
    ((calIndices time b e).1 : Int) ≤ 32767 ∧ ((calIndices time b e).2 : Int) ≤ 32767 := by
  have := cal_indices_fit_int16 time b e
  omega

/-! ## Non-vacuity: the hypotheses are satisfiable and the statements bite on concrete data -/

example : Ascending ([1, 3, 5, 7, 9] : List Int) := by unfold Ascending; decide
example : calIndices [1, 3, 5, 7, 9] 3 7 = (1, 4) := by decide
example : windowSteps [1, 3, 5, 7, 9] 3 7 = [3, 5, 7] := by decide
example : spiWindow [1, 3, 5, 7, 9] (some 3) (some 7) = .ok (1, 4) := by decide
example : spiWindow [1, 3, 5, 7, 9] none none = .ok (0, 5) := by decide
example : spiWindow [1, 3, 5, 7, 9] (some 7) (some 3) = .error .valueError := by decide
example : spiWindow [1, 3, 5, 7, 9] (some 4) (some 6) = .error .valueError := by decide
example : spiWindow [1, 3, 5, 7, 9] (some 10) (some 12) = .error .valueError := by decide
example : spiAttrs [1, 3, 5, 7, 9] 2 8 = (some 3, some 7) := by decide
example : spiWindowGrp [1, 2, 3, 4, 5, 6] [0, 1, 0, 1, 0, 1] 2 (some 1) (some 6) = .ok [(0, 3), (0, 3)] := by
  decide
example : spiWindowGrp [1, 2, 3, 4, 5, 6] [0, 1, 0, 1, 0, 1] 2 (some 1) (some 3) = .error .valueError := by
  decide
example : toLinspace ([30, 10, 30, 20] : List Int) = ([2, 0, 2, 1], [10, 20, 30]) := by decide
example : subSeries [10, 11, 12, 13, 14] [0, 1, 0, 1, 0] 1 = [11, 13] := by decide
example : placeInGroup [0, 1, 0, 1, 0] 4 = 2 := by decide
example : scatterGrp 1 [0, 1, 0, 1, 0] [7, 8] [none, none, none, none, none]
    = [none, some 7, none, some 8, none] := by decide
example : gammastdGrp Fex [1, 5, 3, 7, 0, 0] [0, 1, 0, 1, 0, 1] 2 (-9999) [(0, 3), (0, 3)]
    = [some (some 1), some (some (13/9)), some (some (7/3)), some (some (17/9)), some (some (1/3)),
       some (some (1/3))] := by
  decide +kernel
example : gammastd Fex (subSeries [1, 5, 3, 7, 0, 0] [0, 1, 0, 1, 0, 1] 1) (-9999) 0 3
    = [some (13/9), some (17/9), some (1/3)] := by
  decide +kernel
/-- a label outside `0..numGroups-1` is never written -/
example : gammastdGrp Fex [1, 5, 3] [0, 7, 0] 1 (-9999) [(0, 2)] = [some (some 1), none, some (some 3)] := by
  decide +kernel

end Hdc.C09
