import Hdc.Gen.GlueIteragg
import Hdc.Lemmas.GenGlueIteragg
import Hdc.Props.C19
/-
GenGlueIteragg  The GENERATED translation of `IterativeAggregation._iteragg` (Hdc/Gen/GlueIteragg.lean, regenerated from
hdc/algo/accessors.py on every run) equals the hand model `Hdc.iterAgg` (Hdc/Model/Discrete.lean) the C19 theorems are about.

Correspondence of the arguments
  * `size`     = `self._obj[dim].size` = `self._obj.sizes[dim]` (two spellings in the source: parameters `dim_size`, `sizes_dim`,
                 both instantiated with `size`: an xarray fact)
  * model `n`  = the source's `n` when given (`n : Option ℕ`, the source takes any int: negative `n` is outside the model), else `size`
  * model `beginLoc : Option ℤ` = `none` when the source's `begin is None`, else `some r` with `r` the ONE element of
                 `_index.get_indexer([begin], method=method)` (`loc l`; pandas returns -1 for a label it cannot locate);
                 the same for `endLoc`.  A `KeyError` of `get_indexer` is the second outcome: ValueError (`gen_iteragg_keyError_*`),
                 any other exception propagates unchanged (`gen_iteragg_other_exc_begin`).
  * the model's windows `(jj, ii)` are the yielded objects `aggObj … jj ii`: `self._obj[{dim: slice(jj, ii)}]` with its attributes,
                 reduced by `func` when one is given and re-expanded along time.  What these library calls compute is OUTSIDE this
                 theorem (parameters `mk_region`, `select`, `reduce`, `expand_dims`); instantiated with pairs and identities the
                 program returns exactly the model's windows (`gen_iteragg_windows`).
Hypotheses: `has_dim = true` (otherwise ValueError: `gen_iteragg_no_dim`) and `n ≠ 0` for the effective `n`
  (otherwise AssertionError: `gen_iteragg_n_zero`; the model has no assertion - for `n = none` on an EMPTY axis the model
  returns `ok []` where the source raises AssertionError: a difference between model and source outside the documented use).
Method: the straight-line part is evaluated symbolically (`glue_eval`, after the case split on which optionals are given); the
loop is `forIn_rangeDown_iterWindows` whose hypothesis about the loop body is discharged by `split_ifs` / `omega` on the
generated body - no generated expression is copied into this file.
-/
namespace Hdc.GenGlue
open Hdc Hdc.PyGlue Hdc.Gen.Glue

set_option linter.unusedSimpArgs false
set_option linter.unusedVariables false

section
variable {Lbl Obj : Type}

/-- the object yielded for the window `[jj, ii)`, in terms of the library parameters -/
def aggObj (mk_region : Int → Int → Obj) (select : Obj → Int → Int → Obj) (func_given : Bool) (reduce : Obj → Obj)
    (dim_is_time : Bool) (expand_dims : Obj → Int → Obj) (jj ii : Int) : Obj :=
  let o := select (mk_region jj ii) jj ii
  if func_given then (if dim_is_time then expand_dims (reduce o) ii else reduce o) else o

/-- the model's result read as a result of the program: windows ↦ yielded objects, the model's only error is ValueError -/
def liftAgg (F : Int → Int → Obj) : Except AggErr (List (Nat × Nat)) → Except Exc (List Obj)
  | .ok l => .ok (l.map fun p => F (p.1 : Int) (p.2 : Int))
  | .error _ => .error .valueError

/-- the loop body of the generated program against the step function of `forIn_rangeDown_iterWindows` -/
local macro "iteragg_body" : tactic => `(tactic|
  (simp only [decide_eq_true_eq, Bool.and_eq_true, beq_iff_eq, Option.some.injEq, ge_iff_le, aggObj,
     Bool.false_eq_true, if_false, if_true]
   split_ifs <;> first | rfl | (exfalso; omega)))

/-- The translated `_iteragg` equals the hand model `iterAgg`. -/
theorem gen_iteragg_eq_model (size : Nat) (n : Option Nat) (gi : Option Lbl → Except Exc Int) (loc : Lbl → Int)
    (mk : Int → Int → Obj) (sel : Obj → Int → Int → Obj) (fg : Bool) (red : Obj → Obj) (dt : Bool) (ex : Obj → Int → Obj)
    (b e : Option Lbl)
    (hb : ∀ l, b = some l → gi (some l) = .ok (loc l))
    (he : ∀ l, e = some l → gi (some l) = .ok (loc l))
    (hn : n.getD size ≠ 0) :
    iteragg true size gi size mk sel fg red dt ex (n.map Int.ofNat) b e
      = liftAgg (aggObj mk sel fg red dt ex) (iterAgg size (n.getD size) (b.map loc) (e.map loc)) := by
  unfold iteragg
  have hb' := fun l => hb l
  have he' := fun l => he l
  rcases b with _ | lb <;> rcases e with _ | le <;> rcases n with _ | n
  all_goals glue_eval
  all_goals try simp only [Option.getD_none, Option.getD_some] at hn
  all_goals try rw [hb' _ rfl]
  all_goals try rw [he' _ rfl]
  all_goals try glue_eval
  all_goals simp only [Int.ofNat_eq_natCast, decide_eq_true_eq, Bool.not_eq_eq_eq_not, Bool.not_true,
    bne_eq_false_iff_eq, Option.some.injEq, Int.natCast_eq_zero, hn, if_false, iterAgg]
  all_goals try split_ifs
  all_goals simp only [liftAgg, raise_eq]
  all_goals first
    | rfl
    | (rw [forIn_rangeDown_iterWindows (aggObj mk sel fg red dt ex) n (loc le)]
       simp [ok_bind]
       omega
       omega
       intro ii out hii
       iteragg_body)
    | (rw [forIn_rangeDown_iterWindows (aggObj mk sel fg red dt ex) n 0]
       simp [ok_bind]
       omega
       omega
       intro ii out hii
       iteragg_body)
    | (rw [forIn_rangeDown_iterWindows (aggObj mk sel fg red dt ex) size (loc le)]
       simp [ok_bind]
       omega
       omega
       intro ii out hii
       iteragg_body)
    | (rw [forIn_rangeDown_iterWindows (aggObj mk sel fg red dt ex) size 0]
       simp [ok_bind]
       omega
       omega
       intro ii out hii
       iteragg_body)


/-- The list of WINDOWS: with pairs for the yielded objects (`mk_region := Prod.mk`, the other library calls the identity) the
    program returns exactly the model's windows, in the model's order. -/
theorem gen_iteragg_windows (size : Nat) (n : Option Nat) (gi : Option Lbl → Except Exc Int) (loc : Lbl → Int)
    (fg dt : Bool) (b e : Option Lbl)
    (hb : ∀ l, b = some l → gi (some l) = .ok (loc l))
    (he : ∀ l, e = some l → gi (some l) = .ok (loc l))
    (hn : n.getD size ≠ 0) :
    iteragg (Obj := Int × Int) true size gi size Prod.mk (fun o _ _ => o) fg id dt (fun o _ => o) (n.map Int.ofNat) b e
      = liftAgg Prod.mk (iterAgg size (n.getD size) (b.map loc) (e.map loc)) := by
  rw [gen_iteragg_eq_model size n gi loc _ _ fg _ dt _ b e hb he hn]
  congr 1
  funext jj ii
  cases fg <;> cases dt <;> rfl

/-- a missing dimension: ValueError, whatever the other arguments -/
theorem gen_iteragg_no_dim (ds sd : Int) (gi : Option Lbl → Except Exc Int)
    (mk : Int → Int → Obj) (sel : Obj → Int → Int → Obj) (fg : Bool) (red : Obj → Obj) (dt : Bool) (ex : Obj → Int → Obj)
    (n : Option Int) (b e : Option Lbl) :
    iteragg false ds gi sd mk sel fg red dt ex n b e = .error .valueError := by
  unfold iteragg
  glue_eval
  rfl

/-- `n = 0` (given, or by default on an empty axis): AssertionError -/
theorem gen_iteragg_n_zero (ds sd : Int) (gi : Option Lbl → Except Exc Int)
    (mk : Int → Int → Obj) (sel : Obj → Int → Int → Obj) (fg : Bool) (red : Obj → Obj) (dt : Bool) (ex : Obj → Int → Obj)
    (n : Option Int) (b e : Option Lbl) (hn : n.getD ds = 0) :
    iteragg true ds gi sd mk sel fg red dt ex n b e = .error .assertionError := by
  unfold iteragg
  rcases n with _ | n <;> simp only [Option.getD_none, Option.getD_some] at hn <;> subst hn <;> glue_eval <;> rfl

/-- the second outcome of the lookup of `begin`: a `KeyError` of `get_indexer` becomes ValueError -/
theorem gen_iteragg_keyError_begin (ds sd : Int) (gi : Option Lbl → Except Exc Int)
    (mk : Int → Int → Obj) (sel : Obj → Int → Int → Obj) (fg : Bool) (red : Obj → Obj) (dt : Bool) (ex : Obj → Int → Obj)
    (n : Option Int) (l : Lbl) (e : Option Lbl) (hn : n.getD ds ≠ 0) (hk : gi (some l) = .error .keyError) :
    iteragg true ds gi sd mk sel fg red dt ex n (some l) e = .error .valueError := by
  unfold iteragg
  rcases n with _ | n <;> simp only [Option.getD_none, Option.getD_some] at hn <;> glue_eval <;>
    glue_norm <;> simp only [hk, hn, if_false, if_true] <;> glue_eval <;> rfl

/-- … any other exception of the lookup propagates unchanged -/
theorem gen_iteragg_other_exc_begin (ds sd : Int) (gi : Option Lbl → Except Exc Int)
    (mk : Int → Int → Obj) (sel : Obj → Int → Int → Obj) (fg : Bool) (red : Obj → Obj) (dt : Bool) (ex : Obj → Int → Obj)
    (n : Option Int) (l : Lbl) (e : Option Lbl) (x : Exc) (hn : n.getD ds ≠ 0) (hk : gi (some l) = .error x)
    (hx : x ≠ .keyError) :
    iteragg true ds gi sd mk sel fg red dt ex n (some l) e = .error x := by
  unfold iteragg
  rcases n with _ | n <;> simp only [Option.getD_none, Option.getD_some] at hn <;> glue_eval <;>
    glue_norm <;> simp only [hk, hn, hx, if_false, if_true] <;> glue_eval <;> simp only [hx, if_false] <;> rfl

/-- the lookup of `end` (after a successful lookup of `begin`): a `KeyError` becomes ValueError -/
theorem gen_iteragg_keyError_end (ds sd : Int) (gi : Option Lbl → Except Exc Int)
    (mk : Int → Int → Obj) (sel : Obj → Int → Int → Obj) (fg : Bool) (red : Obj → Obj) (dt : Bool) (ex : Obj → Int → Obj)
    (n : Option Int) (b : Option Lbl) (l : Lbl) (hn : n.getD ds ≠ 0) (hne : b ≠ some l)
    (hb : ∀ lb, b = some lb → ∃ r, gi (some lb) = .ok r) (hk : gi (some l) = .error .keyError) :
    iteragg true ds gi sd mk sel fg red dt ex n b (some l) = .error .valueError := by
  unfold iteragg
  rcases b with _ | lb
  · rcases n with _ | n <;> simp only [Option.getD_none, Option.getD_some] at hn <;> glue_eval <;>
      glue_norm <;> simp only [hk, hn, if_false, if_true] <;> glue_eval <;> rfl
  · obtain ⟨r, hr⟩ := hb lb rfl
    rcases n with _ | n <;> simp only [Option.getD_none, Option.getD_some] at hn <;> glue_eval <;>
      glue_norm <;> simp only [hr, hk, hn, if_false, if_true] <;> glue_eval <;> split_ifs <;> rfl

/-! ### C19 read off the translated source -/

/-- a label `get_indexer` cannot locate (-1) raises ValueError: `begin` … -/
theorem gen_iteragg_unlocatable_begin (size : Nat) (n : Option Nat) (gi : Option Lbl → Except Exc Int) (loc : Lbl → Int)
    (mk : Int → Int → Obj) (sel : Obj → Int → Int → Obj) (fg : Bool) (red : Obj → Obj) (dt : Bool) (ex : Obj → Int → Obj)
    (l : Lbl) (e : Option Lbl) (hb : gi (some l) = .ok (-1))
    (he : ∀ l, e = some l → gi (some l) = .ok (loc l)) (hn : n.getD size ≠ 0) :
    iteragg true size gi size mk sel fg red dt ex (n.map Int.ofNat) (some l) e = .error .valueError := by
  classical
  have hloc : ∀ l', e = some l' → gi (some l') = .ok ((fun x => if x = l then (-1 : Int) else loc x) l') := by
    intro l' hl'
    by_cases h : l' = l
    · subst h; simpa using hb
    · simpa [h] using he l' hl'
  rw [gen_iteragg_eq_model size n gi (fun x => if x = l then (-1 : Int) else loc x) mk sel fg red dt ex (some l) e
    (by intro l' hl'; cases hl'; simpa using hb) hloc hn]
  simp only [Option.map_some, if_true, C19.iterAgg_unlocatable_begin]
  rfl

/-- … located labels never raise, and the yielded objects are those of exactly the windows of `n` steps whose last step
    lies between `end` and `begin` inclusive, newest first (`C19.iterAgg_located`, `C19.iterWindows_mem`) -/
theorem gen_iteragg_located (size n : Nat) (gi : Option Lbl → Except Exc Int) (fg dt : Bool) (lb le : Lbl) (bi ei : Nat)
    (hb : gi (some lb) = .ok bi) (he : gi (some le) = .ok ei) (hn : 0 < n) :
    ∃ ws : List (Nat × Nat),
      iteragg (Obj := Int × Int) true size gi size Prod.mk (fun o _ _ => o) fg id dt (fun o _ => o) (some (n : Int))
        (some lb) (some le) = .ok (ws.map fun p => ((p.1 : Int), (p.2 : Int))) ∧
      (∀ jj ii, (jj, ii) ∈ ws ↔ (ii = jj + n ∧ ei < ii ∧ ii ≤ bi + 1)) ∧
      ws.Pairwise (fun p q => q.2 < p.2) := by
  classical
  refine ⟨iterWindows n ei (bi + 1), ?_, fun jj ii => C19.iterWindows_mem n ei (bi + 1) jj ii hn,
    C19.iterWindows_sorted n ei (bi + 1)⟩
  have := gen_iteragg_windows size (some n) gi (fun x => if x = lb then (bi : Int) else (ei : Int)) fg dt (some lb) (some le)
    (by intro l hl; cases hl; simpa using hb)
    (by intro l hl; cases hl
        by_cases h : le = lb
        · subst h; simpa using hb
        · simpa [h] using he)
    (by simpa using Nat.pos_iff_ne_zero.mp hn)
  simp only [Option.map_some, Int.ofNat_eq_natCast] at this
  rw [this]
  by_cases h : le = lb
  · subst h
    have hbe : (bi : Int) = ei := by
      rw [hb] at he; injection he
    have hbe' : bi = ei := by omega
    subst hbe'
    simp [liftAgg, C19.iterAgg_located]
  · simp [h, liftAgg, C19.iterAgg_located]

end

/-! ### Non-vacuity: concrete calls (labels = positions, `get_indexer` = "the position, -1 when outside the axis") -/

/-- a stand-in for `_index.get_indexer([x])` on the axis `0 .. 4` -/
def locEx (l : Int) : Int := if 0 ≤ l ∧ l < 5 then l else -1
def giEx : Option Int → Except Exc Int
  | some l => .ok (locEx l)
  | none => .ok (-1)

example : iteragg (Obj := Int × Int) true 5 giEx 5 Prod.mk (fun o _ _ => o) true id true (fun o _ => o) (some 2) none none
    = .ok [(3, 5), (2, 4), (1, 3), (0, 2)] :=
  (gen_iteragg_windows 5 (some 2) giEx locEx true true none none (by intro l h; cases h) (by intro l h; cases h)
    (by decide)).trans rfl

example : iteragg (Obj := Int × Int) true 5 giEx 5 Prod.mk (fun o _ _ => o) false id false (fun o _ => o) (some 2)
    (some 3) (some 1) = .ok [(2, 4), (1, 3), (0, 2)] :=
  (gen_iteragg_windows 5 (some 2) giEx locEx false false (some 3) (some 1) (by intro l h; cases h; rfl)
    (by intro l h; cases h; rfl) (by decide)).trans rfl

/-- a label outside the axis: ValueError -/
example : iteragg (Obj := Int × Int) true 5 giEx 5 Prod.mk (fun o _ _ => o) false id false (fun o _ => o) (some 2)
    (some 7) none = .error .valueError :=
  (gen_iteragg_windows 5 (some 2) giEx locEx false false (some 7) none (by intro l h; cases h; rfl)
    (by intro l h; cases h) (by decide)).trans rfl

/-- the default `n` (the whole axis): one window -/
example : iteragg (Obj := Int × Int) true 5 giEx 5 Prod.mk (fun o _ _ => o) false id false (fun o _ => o) none none none
    = .ok [(0, 5)] :=
  (gen_iteragg_windows 5 none giEx locEx false false none none (by intro l h; cases h) (by intro l h; cases h)
    (by decide)).trans rfl

end Hdc.GenGlue
