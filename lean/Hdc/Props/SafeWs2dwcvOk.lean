import Hdc.Props.SafeWs2dwcv
import Hdc.Props.GenNumWcv
import Hdc.Props.C05
import Hdc.Lemmas.SafeOk
import Hdc.Lemmas.SmoothGcvAffine
import Std.Tactic.Do
import Mathlib.Tactic.CasesM
/-
SafeWs2dwcvOk  `robust = True`: under `RobustContract` the flag of the instrumented `ws2dwcv` (Hdc/Gen/SafeWs2dwcv.lean, generated
from hdc/algo/ops/ws2dwcv.py::ws2dwcv) stays down: no subscript out of range, no shape mismatch, no `np.max` / `np.min` of an empty
array, no scalar division by zero, in the robust loop, the four sweeps, the re-weighting block and the final fit.

  safe_ws2dwcv_robust_ok   (Gen.Safe.ws2dwcv G cos isnan isinf rnd pi y nodata llas true out lopt).2 = false   under `hG`, `RobustContract`

The contract is PATH-DEPENDENT on purpose (see the end of Hdc/Props/SafeWs2dwcv.lean: with fractional robust weights
`gamma.sum() = w_temp.sum()` is one algebraic equation in the data that no guard of the kernel excludes, so no hypothesis on the inputs
alone gives `denominator ≠ 0`).  It is stated on the hand model of the loop, `Hdc.Smooth.grun` (the chain of `gstep`s of which
`Hdc.wcv` / `gcvSelect` are made, Hdc/Lemmas/SmoothGcv.lean), which the translated kernel is proved to compute
(`gen_ws2dwcv_eq_model`, Hdc/Props/GenNumWcv.lean); the proof re-uses that refinement's loop invariants (`OuterInv`, `SweepOk`) on the
instrumented program and adds the flag.  What follows WITHOUT hypothesis from the kernel's own guards: all sizes; `n ≠ 0`; `y_valid`
non-empty; `robust_gcv[1]` exists when `it > 1`; `w_temp ≥ 0` with two positive cells in every iteration (the guard
`np.sum((w * r_new) > 0) > 1`), hence every `ws2d(y, s, w * r_weights)` call is inside the contract of `safe_ws2d_ok` and
`w_temp.sum() > 0`; every λ that is used lies on the grid, hence is positive.

Method: `mvcgen`, three invariants (robust loop; the sweep under `it > 1`; the grid sweep), 22 conditions dispatched by shape.
-/
namespace Hdc.GenNum
open Hdc Hdc.C01 Hdc.Gen.NumKernels Hdc.PyNpW Hdc.Smooth Hdc.SafeL Hdc.SafeWcv Hdc.SafeOk Std.Do

set_option mvcgen.warning false
set_option linter.unusedSimpArgs false
set_option linter.unusedTactic false
set_option linter.unreachableTactic false
set_option linter.unusedVariables false
set_option linter.unusedSectionVars false

variable {α : Type} [Field α] [LinearOrder α] [IsStrictOrderedRing α]

/-- the contract of `ws2dwcv(y, nodata, llas, robust=True, out, lopt)`; `miss x = (x == nodata or isnan x or isinf x)`,
    `Y = cleanOf miss y` (`np.where(w == 0, 0.0, y)`), `w = weightsOf miss y`, `grun … k 0 (gs0 …)` = the state
    `(gcv_temp / y_temp, r_weights, robust_gcv)` of the robust loop after `k` iterations (`none`: `y_temp` was read unbound).
    * `ylen`: `d_eigs[0] = 1e-15` is executed before the guard `n > 4`;
    * `out`, `lopt`: the output buffers of the gufunc signature `(n),(),(m),() -> (n),()`;
    * `fit`, only when more than four cells are valid (otherwise the kernel copies `y`):
      - every `λ = 10 ** l` of the grid is positive (what `ws2d` needs at missing cells);
      - the four iterations run without reading `y_temp` unbound, i.e. some score of the FIRST sweep is below `1e15`
        (otherwise `y - y_temp` combines arrays of different length; in particular `llas` is not empty);
      - in each iteration `k` and for each `λ` swept in it (`iterLams`: the grid for `k ≤ 1`, `[robust_gcv[1][1]]` after),
        `gamma.sum() ≠ w_temp.sum()` with the re-weighted `w_temp = w * r_weights` of THAT iteration: exactly the condition under
        which `denominator = w_temp.sum() * (1 - tr_H / w_temp.sum()) ** 2` is non-zero (given `w_temp.sum() > 0`, which is proved). -/
structure RobustContract (G : GFns α) (isnan isinf : α → Bool) (y llas : List α) (nodata : α)
    (out0 lopt0 : Array α) : Prop where
  ylen : 1 ≤ y.length
  out : out0.size = y.length
  lopt : 1 ≤ lopt0.size
  fit : 4 < countValid (missG nodata isnan isinf) y →
    (∀ l ∈ llas, 0 < G.pow10 l) ∧
    (grun G (cleanOf (missG nodata isnan isinf) y) (weightsOf (missG nodata isnan isinf) y) (deigs G y.length)
      (llas.map G.pow10) true (sumF (weightsOf (missG nodata isnan isinf) y)) 4 0
      (gs0 G (cleanOf (missG nodata isnan isinf) y))).isSome ∧
    (∀ k < 4, ∀ st, grun G (cleanOf (missG nodata isnan isinf) y) (weightsOf (missG nodata isnan isinf) y)
        (deigs G y.length) (llas.map G.pow10) true (sumF (weightsOf (missG nodata isnan isinf) y)) k 0
        (gs0 G (cleanOf (missG nodata isnan isinf) y)) = some st →
      ∀ s ∈ iterLams (llas.map G.pow10) k st.2.2,
        sumF (gammaOf (mul2 (weightsOf (missG nodata isnan isinf) y) st.2.1) (deigs G y.length) s)
          ≠ sumF (mul2 (weightsOf (missG nodata isnan isinf) y) st.2.1))

set_option hygiene false in
macro "ok_sweep_step" : tactic => `(tactic| (
       show _ = false ∧ (_ → SweepOk _ _ _ _ _ (_ ++ [_]) _ _ _ _) ∧ _
       py_name unbound as ub
       have hu : ub = false := by assumption
       obtain ⟨st, hst, hok⟩ := OuterInv.ok ‹OuterInv _ _ _ _ _ _ _ _ _ _ _ _ _ _ _ _ _› hu
       obtain ⟨hRI, hTP⟩ := grun_facts G _ _ _ _ _ _ st (by simp) hW2 hst
       py_name w_temp as wta; py_name r_weights as rwa; py_name cur as cu; py_name z as za
       py_name cur as itc
       have hmem := mem_of_split ‹Array.toList _ = _ ++ cu :: _›
       have hcm : cu ∈ iterLams (llas.map G.pow10) _ st.2.2 := lams_mem hok _ (by
         first
         | (have hit := of_decide_eq_true ‹decide (itc > (1 : ℤ)) = true›
            rw [if_pos (by omega)]
            all_goals rfl)
         | (have hit : ¬ itc > (1 : ℤ) := fun h => ‹¬ decide (itc > (1 : ℤ)) = true› (decide_eq_true h)
            rw [if_neg (by omega)]
            all_goals simp (config := {zetaDelta := true}) only [toList_npMap, List.toList_toArray])) cu hmem
       have hcpos : 0 < cu := by
         obtain ⟨l, hl, rfl⟩ := List.mem_map.1 (iterLams_subset _ _ _ hRI.2.2.2 cu hcm)
         exact hpow l hl
       have hdn := hden _ (by omega) st hst cu hcm
       have hrl : rwa.toList.length = y.length := by simpa using hok.rwlen.trans hlen
       have hrw : rwa.toList = st.2.1 := hok.rweq
       have hwt : wta.toList = mul2 (weightsOf (missG nodata isnan isinf) y) rwa.toList := by
         simp only [wta, toList_npMap2, hwa, mul2_eq]
       have hwl : (mul2 (weightsOf (missG nodata isnan isinf) y) rwa.toList).length = y.length := by
         rw [mul2_length, weightsOf_length, hrl, Nat.min_self]
       have hwsz : wta.size = y.length := by
         have := congrArg List.length hwt
         rw [hwl] at this
         rw [← this]; simp
       clear_value wta
       have hcall := call_ok_arr ya wta _ _ cu hya hwt (inContract_mul2 _ _ _ cu (by rw [hlen]; omega) (by simp)
         hW0 (by rw [hlen]; exact hrl) (by rw [hrw]; exact hRI.2.1) hcpos (by rw [hrw]; exact hTP))
       have hS : npSum wta ≠ 0 := by
         rw [show npSum wta = sumF wta.toList from rfl, hwt]
         exact (sumF_pos_of_twoPos _ (mul2_nonneg _ _ hW0 (by rw [hrw]; exact hRI.2.1)) (by rw [hrw]; exact hTP)).ne'
       py_name gamma as gam
       have hgam : gam.toList = gammaOf (mul2 (weightsOf (missG nodata isnan isinf) y) rwa.toList)
           (deigs G y.length) cu := by
         simp only [gam, toList_npMap, toList_npMap2, hwt, hde, gamma_np]
       have hdn' : npSum gam ≠ npSum wta := by
         rw [show npSum gam = sumF gam.toList from rfl, hgam, show npSum wta = sumF wta.toList from rfl, hwt, hrw]
         exact hdn
       have hzs : za.size = y.length := by
         rw [show za = (Gen.Safe.ws2d ya cu wta).1 from rfl, SafeWs2d.safe_ws2d_fst,
           gen_ws2d_sizeW _ _ _ (by omega) (by omega), hysz]
       refine ⟨?_, fun _ => ?_, ?_⟩
       · clear_value gam za
         simp (config := {zetaDelta := true}) (disch := omega) only [*, size_npMap, size_npMap2, Nat.min_self,
           eqv_zero_false _ hS, eqv_zero_false _ (den_ne _ _ hS hdn'), oob_pair, oob_false, lenNe_self,
           Bool.or_false, Bool.false_or]
       · have hz : za = (ws2d (cleanOf (missG nodata isnan isinf) y) cu
             (mul2 (weightsOf (missG nodata isnan isinf) y) rwa.toList)).toArray := by
           rw [show za = (Gen.Safe.ws2d ya cu wta).1 from rfl, SafeWs2d.safe_ws2d_fst,
             gen_ws2d_arrW _ _ _ (by omega) (by omega), hya, hwt]
         first
           | refine SweepOk.step_lt (‹_ → SweepOk _ _ _ _ _ _ _ _ _ _› hu) (of_decide_eq_true ‹_›) ?_ hz
               (hwl.trans hlen.symm)
           | refine SweepOk.step_ge (‹_ → SweepOk _ _ _ _ _ _ _ _ _ _› hu)
               (fun h => ‹¬ decide (_ < _) = true› (decide_eq_true h)) ?_ hz (hwl.trans hlen.symm)
         py_name gcv_score as gs; py_name wsse as ws; py_name denominator as den; py_name tr_H as trh
         simp only [gs, ws, den, trh, gam, npSum, toList_npMap, toList_npMap2, hz, hya, hwt, hde, gamma_np,
           List.toList_toArray]
         exact score_np G _ _ _ cu
       · first | rfl | assumption))

set_option hygiene false in
macro "ok_sweep_init" : tactic => `(tactic| (
       show _ = false ∧ (_ → SweepOk _ _ _ _ _ [] _ _ _ _) ∧ _
       py_name unbound as ub
       have hu : ub = false := by assumption
       obtain ⟨st, hst, hok⟩ := OuterInv.ok ‹OuterInv _ _ _ _ _ _ _ _ _ _ _ _ _ _ _ _ _› hu
       have hrg := rg_size hok
       have hrs := hok.rwlen
       rw [hlen] at hrs
       refine ⟨?_, fun _ => SweepOk.init _ _ _ _ _ _ _ _ hok.ylen hok.zlen, by assumption⟩
       first
         | (py_name cur as itc
            have hit := of_decide_eq_true ‹decide (itc > (1 : ℤ)) = true›
            have hg2 := ‹∀ g ∈ _, g.size = 2› _ (rdA_mem_one _ (by rw [hrg]; omega))
            simp (config := {zetaDelta := true}) (disch := omega) only [*, oob_false, lenNe_self, Bool.or_false,
              Bool.false_or]
            done)
         | (simp (config := {zetaDelta := true}) (disch := omega) only [*, oob_false, lenNe_self, Bool.or_false,
              Bool.false_or]
            done)))

set_option hygiene false in
macro "ok_outer_init" : tactic => `(tactic| (
       show _ ∧ True ∧ _
       refine ⟨?_, trivial, OuterInv.init G _ _ _ _ true _ ma.toNat (by rw [hma, hlen]; simp) _, rfl, by simp⟩
       simp (config := {zetaDelta := true}) (disch := omega) only [*, size_npMap, size_npArange, List.size_toArray,
         Int.toNat_natCast, neg_size_false, lenNe_self, oob_false, Bool.or_false, Bool.false_or]))

set_option hygiene false in
macro "ok_unset" : tactic => `(tactic| (
       py_name y_temp_set as ysa
       have hys : ysa = false := by simpa using ‹(!ysa) = true›
       exfalso
       have hinv := ‹OuterInv _ _ _ _ _ _ _ _ _ _ _ _ _ _ _ _ _›
       have hsw := ‹_ → SweepOk _ _ _ _ _ _ _ _ _ _›
       refine absurd (outerInv_unbound (OuterInv.step_unset hinv ?_ hys hsw #[] false #[] #[])) ?_
       · wcv_lams
       · intro hnone
         have hn4 := grun_none_le _ _ _ _ _ _ _ _ 4 _ (by omega) hnone
         rw [hn4] at hrun
         exact absurd hrun (by simp)))

set_option hygiene false in
macro "ok_outer_step" : tactic => `(tactic| (
       show _ = false ∧ _ = false ∧ OuterInv _ _ _ _ _ _ _ (_ ++ [_]).length _ _ _ _ _ _ _ _ _ ∧ _
       py_name unbound as ub
       have hu : ub = false := by assumption
       obtain ⟨st, hst, hok⟩ := OuterInv.ok ‹OuterInv _ _ _ _ _ _ _ _ _ _ _ _ _ _ _ _ _› hu
       have hsw := ‹_ → SweepOk _ _ _ _ _ _ _ _ _ _› hu
       have hrs := hok.rwlen
       rw [hlen] at hrs
       have hn0 : sumF (weightsOf (missG nodata isnan isinf) y) ≠ 0 := by
         rw [sumF_weightsOf]; exact Nat.cast_ne_zero.2 (by omega)
       have hsel : emptyArr (npSelect ya (npMap (fun e => !eqv e (nat 0)) wa)).size = false := by
         obtain ⟨i, j, hij, hj, hi0, _⟩ := hW2
         exact emptyArr_eq_false_iff.2 (select_size_pos ya wa _ _ hya hwa (by simp) i (by omega) hi0)
       refine ⟨?_, hu, ?_, by assumption, ?_⟩
       · py_name y_temp_set as ysa
         have hys : ysa = true := by simpa using ‹¬(!ysa) = true›
         have hyts' := (hsw.ylen hys).trans hlen
         simp (config := {zetaDelta := true}) (disch := omega) only [*, size_npMap, size_npMap2, size_npMaskSet,
           Nat.min_self, eqv_zero_false _ hn0, oob_false, lenNe_self, Bool.or_false, Bool.false_or]
       · obtain ⟨robust, hr⟩ : ∃ r : Bool, r = true := ⟨true, rfl⟩
         wcv_vc_robust
       · intro g hg
         simp only [Array.toList_push, List.mem_append, List.mem_singleton] at hg
         rcases hg with hg | rfl
         · exact ‹∀ g ∈ _, g.size = 2› g hg
         · assumption))

set_option hygiene false in
macro "ok_final" : tactic => `(tactic| (
       show _ = false
       have h4l : (pyRange 0 4).length = 4 := by rw [pyRange_length]; decide
       obtain ⟨st, hst, hok⟩ := OuterInv.ok ‹OuterInv _ _ _ _ _ _ _ _ _ _ _ _ _ _ _ _ _› (by assumption)
       rw [h4l] at hst hok
       obtain ⟨hRI, hTP⟩ := grun_facts G _ _ _ _ _ _ st (by simp) hW2 hst
       have hrg := rg_size hok
       have hg2 := ‹∀ g ∈ _, g.size = 2› _ (rdA_mem_one _ (by rw [hrg]; omega))
       obtain ⟨hrws, hrwt⟩ := hok.rwts (by omega)
       have hmem := rg_lam_mem hok hRI (by omega)
       obtain ⟨l, hll, hl2⟩ := List.mem_map.1 hmem
       have hlpos := hpow l hll
       rw [hl2] at hlpos
       have hrl : st.2.1.length = y.length := by rw [hRI.1, hlen]
       have hcall := call_ok_arr ya _ _ _ _ hya hrwt (inContract_mul2 _ _ _ _ (by rw [hlen]; omega) (by simp)
         hW0 (by rw [hlen]; exact hrl) hRI.2.1 hlpos hTP)
       have hrsz := congrArg List.length hrwt
       simp only [Array.length_toList, mul2_length, weightsOf_length, hrl, Nat.min_self] at hrsz
       simp (config := {zetaDelta := true}) (disch := omega) only [*, rd_wr_zero _ _ hl, size_wr,
         SafeWs2d.safe_ws2d_fst, gen_ws2d_sizeW, oob_false, lenNe_self, Bool.or_false, Bool.false_or]))

set_option maxHeartbeats 1000000 in
/-- `robust = True`: under the contract the flag is false.  `hG` ties the eigenvalue table of the model (`G.eig`, in which the
    contract is stated) to the expression of the source, `-2 + 2 * np.cos(i * np.pi / m)`, as in `gen_ws2dwcv_eq_model`. -/
theorem safe_ws2dwcv_robust_ok (G : GFns α) (cos : α → α) (isnan isinf : α → Bool) (rnd : α → α) (pi : α)
    (y llas : List α) (nodata : α) (out0 lopt0 : Array α)
    (hG : ∀ i m : ℕ, G.eig i m = -2 + 2 * cos ((i : α) * pi / (m : α)))
    (hc : RobustContract G isnan isinf y llas nodata out0 lopt0) :
    (Gen.Safe.ws2dwcv G cos isnan isinf rnd pi y.toArray nodata llas.toArray true out0 lopt0).2 = false := by
  have hl := hc.lopt
  have hy1 := hc.ylen
  have ho := hc.out
  have hfit := hc.fit
  unfold Gen.Safe.ws2dwcv
  simp -zeta only [Bool.not_true, Bool.false_eq_true, ↓reduceIte]
  generalize hres : Id.run _ = res
  apply Id.of_wp_run_eq hres
  mvcgen invariants
  · ⇓⟨xs, s⟩ => ⌜s.1 = false ∧ s.2.1 = false ∧
      OuterInv G (cleanOf (missG nodata isnan isinf) y) (weightsOf (missG nodata isnan isinf) y)
        (deigs G y.length) (llas.map G.pow10) true (sumF (weightsOf (missG nodata isnan isinf) y))
        xs.prefix.length s.2.1 s.2.2.1 s.2.2.2.1 s.2.2.2.2.1 s.2.2.2.2.2.1 s.2.2.2.2.2.2.1 s.2.2.2.2.2.2.2.1
        s.2.2.2.2.2.2.2.2.1 s.2.2.2.2.2.2.2.2.2 ∧
      s.2.2.2.2.2.2.2.2.2.size = 2 ∧ (∀ g ∈ s.2.2.2.2.2.2.2.2.1.toList, g.size = 2)⌝
  · ⇓⟨xs, s⟩ => by
      py_name gcv_temp as gt0; py_name y_temp as yt0; py_name y_temp_set as set0
      py_name r_weights as rw0; py_name unbound as ub0
      exact ⌜s.1 = false ∧ (ub0 = false → SweepOk G (cleanOf (missG nodata isnan isinf) y)
        (mul2 (weightsOf (missG nodata isnan isinf) y) rw0.toList) (deigs G y.length) (bestOf gt0 yt0 set0)
        xs.prefix s.2.2.2.2.1 s.2.1 s.2.2.1 s.2.2.2.1) ∧ s.2.2.2.2.1.size = 2⌝
  · ⇓⟨xs, s⟩ => by
      py_name gcv_temp as gt0; py_name y_temp as yt0; py_name y_temp_set as set0
      py_name r_weights as rw0; py_name unbound as ub0
      exact ⌜s.1 = false ∧ (ub0 = false → SweepOk G (cleanOf (missG nodata isnan isinf) y)
        (mul2 (weightsOf (missG nodata isnan isinf) y) rw0.toList) (deigs G y.length) (bestOf gt0 yt0 set0)
        xs.prefix s.2.2.2.2.1 s.2.1 s.2.2.1 s.2.2.2.1) ∧ s.2.2.2.2.1.size = 2⌝
  all_goals wcv_setup
  all_goals try casesm* _ ∧ _
  all_goals first
    | (have hnot : ¬ decide ((nat 4 : α) < na) = true := by assumption
       have hWs : wa.size = y.length := by rw [← Array.length_toList, hwa, weightsOf_length]
       simp (config := {zetaDelta := true}) (disch := omega) only [*, size_npMap, size_npArange, List.size_toArray,
         Int.toNat_natCast, npCopyTo_eq, lenNe_self, oob_false, Bool.or_false, Bool.false_or]
       done)
    | wcv_setup_y
  all_goals
    try clear hres
    obtain ⟨hpow, hrun, hden⟩ := hfit h4
    have hWs : wa.size = y.length := by rw [← Array.length_toList, hwa, weightsOf_length]
    have hDs : dea.size = y.length := by rw [← Array.length_toList, hde]; simp [deigs]
    have hW2 : TwoPos (weightsOf (missG nodata isnan isinf) y) := twoPos_weights _ _ (by omega)
    have hW0 := weightsOf_nonneg (missG nodata isnan isinf) y
  -- one λ of the sweep
  all_goals first
    | ok_sweep_step
    | ok_sweep_init
    | ok_outer_init
    | ok_unset
    | skip
  all_goals first
    | ok_outer_step
    | skip
  all_goals first
    | ok_unset
    | ok_final

/-! ### Non-vacuity and sharpness (ℚ; `Gq`, `Gr`, `cosq` of Hdc/Props/GenNumWcv.lean: toy `sqrt`, `10 ** l = l + 1`,
`cos x = 1 - x²/2`, `π = 3`, `big = 10⁶`; with `Gr` the robust loop does re-weight)

The kernel of Lean cannot evaluate `np.median` (the model's `median` sorts with `List.mergeSort`, well-founded recursion), so
instances that run the re-weighting block cannot be closed by `decide`; they were evaluated with `#eval` (compiled code, NOT a
proof; `fl G cos y llas out lopt` = the flag with `robust = True`, `nodata = -1`, `isnan = isinf = false`, `π = 3`):
  * `fl Gr cosq #[-1,1,5,2,8,3,4] #[0,1] (7 zeros) #[9] = false`, the contract holds (chain defined for k ≤ 4, the three
    denominators conditions true), fractional weights occur (`r_weights = [1, 5684…/2118…, 1, 0, 1, 0, 1643…/2118…]`);
  * `10 ** l = 0` (`{Gr with pow10 := fun _ => 0}`): flag true (`ws2d` divides by zero at the missing first cell);
  * no score below `big` (`{Gr with big := 0}`, or the empty grid `llas = #[]`): flag true (`y - y_temp` with `y_temp = []`);
  * `gamma.sum() = w_temp.sum()` (`{Gr with eig0 := 0}`, `cos = 1`: every eigenvalue 0): flag true (`wsse / denominator`);
  * `hG`: `Gx = {Gr with eig := fun _ _ => -1, eig0 := 0}` and `cos = 1`: the contract holds for `Gx` (model eigenvalues
    `[0, -1, …]`, chain defined, all denominators non-zero) but the program computes `d_eigs = 0` and its flag is true.
Proved instances: an affine series (the MAD is 0, the weights stay 1) for the whole theorem, and the three buffer hypotheses. -/

private def flr (G : GFns ℚ) (cos : ℚ → ℚ) (y llas out lopt : Array ℚ) : Bool :=
  (Gen.Safe.ws2dwcv G cos (fun _ => false) (fun _ => false) (fun v => v) 3 y (-1) llas true out lopt).2

/-- an instance of the contract with more than four valid cells: an affine series (all residuals 0, the MAD is 0, the robust weights
    stay 1; the chain is `grun_perfect`, the denominators are checked at the two grid values) -/
example : flr Gq cosq #[1, 2, 3, 4, 5, 6] #[0, 1] #[0, 0, 0, 0, 0, 0] #[9] = false := by
  refine safe_ws2dwcv_robust_ok Gq cosq _ _ _ 3 [1, 2, 3, 4, 5, 6] [0, 1] (-1) _ _ hGq
    ⟨by decide, by decide, by decide, fun h4 => ?_⟩
  have hpow : ∀ l ∈ [(0 : ℚ), 1], 0 < Gq.pow10 l := by decide +kernel
  have hmt : (0 : ℚ) ≤ Gq.madtol := by decide +kernel
  have hline : ∀ i (hi : i < [(1 : ℚ), 2, 3, 4, 5, 6].length),
      missG (-1) (fun _ => false) (fun _ => false) [(1 : ℚ), 2, 3, 4, 5, 6][i] = false →
      [(1 : ℚ), 2, 3, 4, 5, 6][i] = 1 + 1 * (i : ℚ) := by
    intro i hi _
    simp only [List.length_cons, List.length_nil] at hi
    interval_cases i <;> norm_num
  have hres := C05.perfect_of_line _ _ 1 1 hline
  have hfit : ∀ s ∈ [(0 : ℚ), 1].map Gq.pow10,
      ws2d (cleanOf (missG (-1) (fun _ => false) (fun _ => false)) [(1 : ℚ), 2, 3, 4, 5, 6]) s
        (weightsOf (missG (-1) (fun _ => false) (fun _ => false)) [(1 : ℚ), 2, 3, 4, 5, 6]) = lineList 1 1 6 := by
    intro s hs
    obtain ⟨l, hl, rfl⟩ := List.mem_map.1 hs
    exact C05.fit_of_line _ _ 1 1 h4 hline _ (hpow l hl)
  refine ⟨hpow, ?_, ?_⟩
  · have := grun_perfect Gq hmt hres rfl (by simp) (deigs Gq 6) (Gq.pow10 0) ([1].map Gq.pow10) hfit
      (sumF (weightsOf (missG (-1) (fun _ => false) (fun _ => false)) [(1 : ℚ), 2, 3, 4, 5, 6])) (by decide +kernel)
    exact Option.isSome_iff_exists.2 ⟨_, this⟩
  · intro k hk st hst s hs
    have hI := grun_rinv Gq (deigs Gq 6) ([(0 : ℚ), 1].map Gq.pow10) _ (by simp) k 0 _ st (rinv_gstate0 Gq _ _) hst
    have hP := grun_perfInv Gq hmt hres (by simp) (deigs Gq 6) _ hfit _ k 0 _ st (rinv_gstate0 Gq _ _)
      (perfInv_gstate0 Gq _ _) hst
    rw [hP.1, mul2_ones' _ _ (by simp)]
    have hs' := iterLams_subset _ k st.2.2 hI.2.2.2 s hs
    simp only [List.map_cons, List.map_nil, List.mem_cons, List.not_mem_nil, or_false] at hs'
    rcases hs' with rfl | rfl <;> decide +kernel
/-- four valid cells (pass-through): only `ylen`, `out`, `lopt` matter -/
example : flr Gq cosq #[1, 5, -1, -1, 8, 3, -1] #[] #[0, 0, 0, 0, 0, 0, 0] #[9] = false :=
  safe_ws2dwcv_robust_ok Gq cosq _ _ _ 3 [1, 5, -1, -1, 8, 3, -1] [] (-1) _ _ hGq
    ⟨by decide, by decide, by decide, fun h => absurd h (by decide +kernel)⟩
/-- `ylen`: no cell at all, `d_eigs[0]` is out of range (NumPy: IndexError) -/
example : flr Gq cosq #[] #[0, 1] #[] #[9] = true := by decide +kernel
/-- `out`: a buffer of another length (`out[:] = y[:]`) -/
example : flr Gq cosq #[1, 5, -1, -1, 8, 3, -1] #[0, 1] #[] #[9] = true := by decide +kernel
/-- `lopt`: an empty buffer (`lopt[0] = 0.0`) -/
example : flr Gq cosq #[1, 5, -1, -1, 8, 3, -1] #[0, 1] #[0, 0, 0, 0, 0, 0, 0] #[] = true := by decide +kernel

end Hdc.GenNum
