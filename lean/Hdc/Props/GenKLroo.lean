import Hdc.Lemmas.GenKernelsLroo
import Hdc.Gen.KLroo
import Std.Tactic.Do
/-
GenKernels  The GENERATED translations of four integer loop kernels (Hdc/Gen/K*.lean, one module per kernel, imperative
`Id.run do` programs over `Array Int` with Python index semantics, regenerated from the Python
sources on every verification run) compute their hand models.

Method (as in C01gen): the verification-condition generator `mvcgen` (Std.Do) is run on the generated
program with one invariant per loop, stated through ℕ-indexed functions of the model
(Hdc/Lemmas/GenKernels*.lean).  The generated expressions are never copied into this file: the position
of every `for … in range(a, b)` is recovered by `py_ranges`, reads `rd a i` are rewritten to ℕ-indexed
reads by `rd_nonneg` (side condition `0 ≤ i` by `omega`), writes `wr a i v` through `wr_upd`.
An invariant of an inner loop that mentions the loop variable of the enclosing loop names it by
`py_name cur as k` inside the invariant.

The verification conditions are not addressed by their generated tags (`vc3.step.isTrue…`, which
change when the branching structure of the source is rearranged) but by what they are: every proof
ends with `all_goals first | ‹step› | ‹entry› | ‹exit›`, each alternative failing quickly on the
conditions of the other kinds (a missing loop variable, an unprovable bound).
-/
namespace Hdc.GenKernels
open Hdc Hdc.Gen.Kernels Std.Do

set_option mvcgen.warning false
set_option linter.unusedSimpArgs false
set_option linter.unusedTactic false
set_option linter.unreachableTactic false

/-! ### lroo: longest run of ones -/

/-- The translated `lroo` writes the model's value into the one-cell output buffer (any input, any
    initial content of the buffer).  `np.where(data == 1)[0]` is `dotsFrom 0 data` (`whereEq_ofNat`). -/
theorem gen_lroo_eq_model (data : List Nat) (o : Array Int) (ho : o.size = 1) :
    Gen.Kernels.lroo (data.map Int.ofNat).toArray o = #[(Hdc.lroo data : Int)] := by
  generalize hres : Gen.Kernels.lroo (data.map Int.ofNat).toArray o = res
  apply Id.of_wp_run_eq hres
  mvcgen invariants
  -- state `(d, cr, mr)`; after `p` iterations the model's loop continues from dot `p` with `cr`, `mr`
  · ⇓⟨xs, s⟩ => ⌜LrooInv data xs.prefix.length s.2.1 s.2.2⌝
  all_goals
    py_ranges
    simp (config := {zetaDelta := true}) only [whereEq_ofNat, List.size_toArray, List.length_map,
      List.length_append, List.length_singleton, List.length_nil, pyRange_length,
      decide_eq_true_eq, gt_iff_lt, not_lt] at *
  all_goals first
    -- one iteration (`d = 1` and `cr > mr`, `d = 1` only, `d ≠ 1`)
    | (py_name cur as i
       simp (disch := omega) only [rd_nonneg, gv_dots] at *
       refine LrooInv.step ‹LrooInv _ _ _ _› (j1 := i.toNat) (j0 := (i - 1).toNat) (by omega)
         (by omega) (by omega) rfl ?_ ?_ <;> split_ifs <;> omega)
    -- entry of the loop
    | exact LrooInv.init data
    -- the final `if mr > 1`
    | (have hm := LrooInv.final ‹LrooInv _ _ _ _› (by omega)
       rw [wr_single o ho, lroo_cast]
       exact congrArg (fun v : Int => #[v]) (by split_ifs <;> omega))

/-! ### Non-vacuity: concrete inputs, evaluated on the model side -/

/-- runs of ones of lengths 2 and 3 -/
example : Gen.Kernels.lroo ([1, 1, 0, 1, 1, 1, 0].map Int.ofNat).toArray #[7] = #[3] := by
  rw [gen_lroo_eq_model _ _ rfl]
  decide

/-- a single one is not a run (`mr > 1`), neither is an empty series -/
example : Gen.Kernels.lroo ([0, 1, 0].map Int.ofNat).toArray #[7] = #[0] := by
  rw [gen_lroo_eq_model _ _ rfl]
  decide
example : Gen.Kernels.lroo (([] : List Nat).map Int.ofNat).toArray #[7] = #[0] := by
  rw [gen_lroo_eq_model _ _ rfl]
  decide


end Hdc.GenKernels
