import Hdc.Lemmas.GenKMeanGrp
import Hdc.Gen.KMeanGrp
import Std.Tactic.Do
/-
GenKMeanGrp  The GENERATED translation of `ops/stats.py::mean_grp` (Hdc/Gen/KMeanGrp.lean, written by
harness/py2lean_stats.py from the Python source on every run) computes the hand model `Hdc.meanGrp`.

The data cells are exact integers; the grouped mean is a true division, which the translation does not evaluate: the
floating type of the results is an abstract `β` with `F : FloatOps β` (`F.lit` integer -> float, `F.add`, `F.div`; Numba
types `avg`, which is assigned integers and the quotient, as float64).  So the generated program returns, per cell,
the model's exact pair (sum, count) *before* the division: `F.div (F.lit sum) (F.lit count)`.

Method as in GenKRS: `mvcgen` with one invariant per loop (Hdc/Lemmas/GenKMeanGrp.lean), loop positions by `py_ranges`,
the NumPy idioms `groups == grp`, `xx[grp_ix]`, `yy[grp_ix] = avg` through the lemmas of Hdc/Lemmas/PyNpT.lean; the
verification conditions are dispatched by shape.
-/
namespace Hdc.GenKMeanGrp
open Hdc Hdc.Gen.Kernels Hdc.PyNpT Hdc.GenKernels Std.Do

set_option mvcgen.warning false
set_option linter.unusedSimpArgs false
set_option linter.unusedTactic false
set_option linter.unreachableTactic false

variable {β : Type}

/-- The translated `mean_grp` overwrites every cell whose label `k` lies in `0 .. num_groups-1` with the mean of the
    valid cells of its group, given by the model's exact (sum, count): `F.lit nodata` when count = 0, the quotient
    `F.div (F.lit sum) (F.lit count)` otherwise; cells with a label outside the range keep the content of the buffer
    (`none` in the model).

    Hypotheses: `hadd`, additions of integers are exact in the floating type (the idealisation the model makes by
    computing the sum in `Int`); `h0`, one buffer cell per label.  Nothing else: any `num_groups` (the model is taken
    at `num_groups.toNat`: a negative number of groups leaves the buffer untouched, as no group does), any labels (also
    negative ones and labels ≥ num_groups), any nodata, any initial content of the buffer, and even a data vector whose
    length differs from the number of labels (source and model then pair the cells with the labels as far as both go). -/
theorem gen_mean_grp_eq_model_int (F : FloatOps β)
    (hadd : ∀ a b : Int, F.add (F.lit a) (F.lit b) = F.lit (a + b))
    (xx groups : List Int) (numGroups : Int) (nodata : Int) (yy0 : Array β)
    (h0 : yy0.size = groups.length) :
    (Gen.Kernels.mean_grp F xx.toArray groups.toArray numGroups nodata yy0).toList
      = List.zipWith (fun (o : Option (Int × Nat)) (y : β) =>
          o.elim y fun sc => F.quot (F.lit nodata) sc.1 sc.2)
        (Hdc.meanGrp xx groups numGroups.toNat nodata) yy0.toList := by
  rw [← mgAfter_final]
  generalize hres : Gen.Kernels.mean_grp F xx.toArray groups.toArray numGroups nodata yy0 = res
  apply Id.of_wp_run_eq hres
  mvcgen invariants
  -- outer loop, state `(yy, grp_ix, pix, n, avg)`: the groups `< p` are stored
  · ⇓⟨xs, s⟩ => ⌜s.1.toList = mgAfter F xx groups nodata yy0.toList xs.prefix.length⌝
  -- inner loop, state `(n, avg)`: count and sum of the valid cells among the first `q` cells of `xx[groups == grp]`
  · ⇓⟨xs, s⟩ => by
      py_name cur as k
      exact ⌜MgInner F nodata (gsel xx groups k) xs.prefix.length s.1 s.2⌝
  all_goals
    py_ranges
    simp (config := {zetaDelta := true}) only [npCompress_eqMask, List.size_toArray,
      List.length_append, List.length_singleton, List.length_nil, pyRange_length,
      decide_eq_true_eq, not_lt] at *
  all_goals first
    -- inner loop: a nodata cell (`continue`), the first valid cell (`avg = pixv`), a further one (`avg += pixv`)
    | (py_name pref as pref; py_name cur as i
       simp (disch := omega) only [rd_nonneg, gv_toArray] at *
       have hi : i.toNat = pref.length := by omega
       simp only [hi] at *
       first
         | exact (‹MgInner _ _ _ _ _ _›).skip (by omega) ‹_›
         | exact (‹MgInner _ _ _ _ _ _›).first (by omega) ‹_› ‹_›
         | exact (‹MgInner _ _ _ _ _ _›).more hadd (by omega) ‹_› ‹_›)
    -- entry of the inner loop (`n = 0`)
    | exact MgInner.init F nodata _ _
    -- exit of the inner loop, `avg = nodata` / `avg = avg / n`, and the masked store `yy[grp_ix] = avg`
    | (py_name pref as pref; py_name cur as g
       obtain rfl : g = (pref.length : ℤ) := by omega
       refine mgAfter_step ‹_› (by rw [Array.length_toList (xs := yy0)]; omega)
         (by simpa using ‹MgInner _ _ _ _ _ _›) ?_
       simp only [*, if_true, if_false])
    -- entry and exit of the outer loop
    | exact (mgAfter_zero F xx groups nodata yy0.toList
        (by rw [Array.length_toList (xs := yy0)]; omega)).symm
    | (rename_i h; rw [Int.sub_zero] at h; exact h)

/-- The contract form: `num_groups` a natural number. -/
theorem gen_mean_grp_eq_model (F : FloatOps β)
    (hadd : ∀ a b : Int, F.add (F.lit a) (F.lit b) = F.lit (a + b))
    (xx groups : List Int) (numGroups : Nat) (nodata : Int) (yy0 : Array β)
    (h0 : yy0.size = groups.length) :
    (Gen.Kernels.mean_grp F xx.toArray groups.toArray (numGroups : Int) nodata yy0).toList
      = List.zipWith (fun (o : Option (Int × Nat)) (y : β) =>
          o.elim y fun sc => F.quot (F.lit nodata) sc.1 sc.2)
        (Hdc.meanGrp xx groups numGroups nodata) yy0.toList := by
  rw [gen_mean_grp_eq_model_int F hadd xx groups numGroups nodata yy0 h0, Int.toNat_natCast]

/-- The result has the size of the buffer. -/
theorem gen_mean_grp_size (F : FloatOps β)
    (hadd : ∀ a b : Int, F.add (F.lit a) (F.lit b) = F.lit (a + b))
    (xx groups : List Int) (numGroups : Nat) (nodata : Int) (yy0 : Array β)
    (h0 : yy0.size = groups.length) :
    (Gen.Kernels.mean_grp F xx.toArray groups.toArray (numGroups : Int) nodata yy0).size = groups.length := by
  have h := congrArg List.length (gen_mean_grp_eq_model F hadd xx groups numGroups nodata yy0 h0)
  simpa [meanGrp, h0] using h

/-! ### Non-vacuity: concrete inputs, evaluated on the model side -/

/-- the division kept as a pair (`FloatOps.pair`: `β = Int × Int`, `lit a = (a, 1)`, `div (a, _) (b, _) = (a, b)`):
    two groups and a label outside the range (cell 5 keeps its content); group 1 has no valid cell; nodata = −1.
    The cells of group 0 receive (sum, count) = (4 + 6, 2). -/
example : (Gen.Kernels.mean_grp FloatOps.pair [4, -1, 6, -1, -1, 3].toArray [0, 0, 0, 1, 1, 7].toArray
      ((2 : ℕ) : ℤ) (-1) #[(9, 9), (9, 9), (9, 9), (9, 9), (9, 9), (9, 9)]).toList
    = [(10, 2), (10, 2), (10, 2), (-1, 1), (-1, 1), (9, 9)] := by
  rw [gen_mean_grp_eq_model FloatOps.pair (fun _ _ => rfl) _ _ 2 (-1) _ (by decide)]
  decide

/-- over ℚ: means 5 and nodata -/
example : (Gen.Kernels.mean_grp (⟨fun a => (a : ℚ), (· + ·), (· / ·), 0⟩ : FloatOps ℚ)
      [4, -1, 6, -1].toArray [0, 0, 0, 1].toArray ((2 : ℕ) : ℤ) (-1) #[0, 0, 0, 0]).toList
    = [5, 5, 5, -1] := by
  rw [gen_mean_grp_eq_model _ (fun a b => by push_cast; ring) _ _ 2 (-1) _ (by decide)]
  decide +kernel

end Hdc.GenKMeanGrp
