import Hdc.Gen.GlueCalIndices
import Hdc.Lemmas.GenGlueCal
import Hdc.Props.C09
/-
GenGlueCalIndices  The GENERATED translation of `hdc/algo/utils.py::get_calibration_indices` (Hdc/Gen/GlueCalIndices.lean, two
variants: `groups` absent / given) equals the hand models `Hdc.calIndices` / `Hdc.calIndicesGrp` the C09 theorems are about.

Correspondence: `time` = the datetime64 values of the index as integers; the model's `b`, `e` are `np.datetime64(begin)`,
`np.datetime64(end)` (parameter `datetime64`); `groups : List ℕ` are the int16 labels (the program takes any integers; a
negative label matches no `ix` of `range(num_groups)`, like a label ≥ num_groups); model `numGroups` = `num_groups` when given,
else `len(np.unique(np.array(groups)))` (parameter `np_unique_len`).
Hypotheses, and an input outside each where program and model differ:
  * `Ascending time` + `SearchsortedSpec` (NumPy's contract for searchsorted needs a sorted array; on `[3, 1, 2]` NumPy's binary
    search for 2 from the left returns 0 or 3 depending on the probe sequence, the model's `takeWhile` count is 0)
  * grouped: `groups.length = time.length` (a shorter mask: NumPy raises IndexError, the model's `zip` truncates),
    `time.length ≤ 32767` + `Int16TableSpec` (a group whose window ends beyond position 32767: OverflowError / the model's index)
-/
namespace Hdc.GenGlue
open Hdc Hdc.PyGlue Hdc.Gen.Glue

set_option linter.unusedSimpArgs false
set_option linter.unusedVariables false

section
variable {D : Type}

/-- without groups: the pair `(searchLeft time b, searchRight time e)` of the model -/
theorem gen_cal_indices_eq_model (dt : D → Int) (ss : List Int → Int → String → Except Exc Int)
    (time : List Int) (b e : D) (ng : Option Int)
    (hasc : C09.Ascending time) (hss : SearchsortedSpec ss) :
    get_calibration_indices dt ss time (b, e) ng
      = .ok (((calIndices time (dt b) (dt e)).1 : Int), ((calIndices time (dt b) (dt e)).2 : Int)) := by
  unfold get_calibration_indices
  simp only [(hss time _ hasc).1, (hss time _ hasc).2]
  glue_eval
  rfl

/-- with groups: one row `[start, stop]` per group `0 .. num_groups-1`, the model's indices inside the group's sub-axis -/
theorem gen_cal_indices_grp_eq_model (dt : D → Int) (ss : List Int → Int → String → Except Exc Int)
    (ul : List Int → Int) (arr16 : List (List Int) → Except Exc (List (List Int)))
    (time : List Int) (b e : D) (groups : List Nat) (ng : Option Nat) (k : Nat)
    (hasc : C09.Ascending time) (hss : SearchsortedSpec ss) (h16 : Int16TableSpec arr16)
    (hlen : groups.length = time.length) (hsmall : time.length ≤ 32767)
    (hk : ng.getD (ul (groups.map Int.ofNat)).toNat = k) (hul : ng = none → 0 ≤ ul (groups.map Int.ofNat)) :
    get_calibration_indices_grp dt ss ul arr16 time (b, e) (groups.map Int.ofNat) (ng.map Int.ofNat)
      = .ok ((calIndicesGrp time groups k (dt b) (dt e)).map fun p => [(p.1 : Int), (p.2 : Int)]) := by
  unfold get_calibration_indices_grp
  have hkk : (match ng with | some v => (v : Int) | none => ul (groups.map Int.ofNat)) = (k : Int) := by
    rcases ng with _ | v
    · simp only [Option.getD_none] at hk; have := hul rfl; simp only; omega
    · simp only [Option.getD_some] at hk; simp only; omega
  -- rewriting rules for one pass of the desugared comprehension: mask selection = `gatherGrp`, searchsorted on the
  -- (ascending) sub-axis = the model's searches
  have hm : ∀ g : Nat, ((groups.map Int.ofNat).map fun x => decide (x = (g : Int))) = groups.map fun k => decide (k = g) := by
    intro g; rw [List.map_map]; apply List.map_congr_left; intro a _; simp
  have hm' : ∀ g : Nat, ((groups.map Int.ofNat).map fun x => decide ((g : Int) = x)) = groups.map fun k => decide (k = g) := by
    intro g; rw [List.map_map]; apply List.map_congr_left; intro a _; simp [eq_comm]
  have hsel := fun g => maskSelect_eq_gatherGrp time groups g hlen
  have hsl := fun g v => (hss (gatherGrp time groups g) v (gatherGrp_ascending time hasc groups g)).1
  have hsr := fun g v => (hss (gatherGrp time groups g) v (gatherGrp_ascending time hasc groups g)).2
  -- the loop appends the model's row of group `g` in pass `g`
  have hloop : ∀ (f : Int → List (List Int) → Except Exc (ForInStep (List (List Int)))),
      (∀ (g : Nat) acc, f g acc = .ok (.yield (acc ++
        [[((calIndices (gatherGrp time groups g) (dt b) (dt e)).1 : Int),
          ((calIndices (gatherGrp time groups g) (dt b) (dt e)).2 : Int)]]))) →
      forIn (range 0 (k : Int)) [] f = .ok ((calIndicesGrp time groups k (dt b) (dt e)).map fun p => [(p.1 : Int), (p.2 : Int)]) := by
    intro f hf
    rw [range_zero_natCast, forIn_append_map _ (fun x : Int =>
      [((calIndices (gatherGrp time groups x.toNat) (dt b) (dt e)).1 : Int),
       ((calIndices (gatherGrp time groups x.toNat) (dt b) (dt e)).2 : Int)])]
    · simp [calIndicesGrp, gatherGrp]
    · intro x hx acc
      obtain ⟨g, _, rfl⟩ := List.mem_map.1 hx
      rw [hf g acc, Int.toNat_natCast]
  have hrange : ∀ r ∈ (calIndicesGrp time groups k (dt b) (dt e)).map (fun p => [(p.1 : Int), (p.2 : Int)]),
      ∀ v ∈ r, (-32768 : Int) ≤ v ∧ v ≤ 32767 := by
    intro r hr v hv
    obtain ⟨p, hp, rfl⟩ := List.mem_map.1 hr
    rw [C09.calIndicesGrp_eq] at hp
    obtain ⟨g, _, rfl⟩ := List.mem_map.1 hp
    have h1 := C09.cal_indices_fit_int16 (C09.subSeries time groups g) (dt b) (dt e)
    have h2 : (C09.subSeries time groups g).length ≤ time.length := by
      rw [← C09.gatherGrp_eq_subSeries]; exact Hdc.Spi.gatherGrp_length_le g groups time
    simp only [List.mem_cons, List.not_mem_nil, or_false] at hv
    rcases hv with rfl | rfl <;> omega
  rcases ng with _ | v
  all_goals glue_eval
  all_goals simp only at hkk
  all_goals try simp only [Int.ofNat_eq_natCast]
  all_goals rw [hkk]
  all_goals rw [hloop _ (by intro g acc; simp only [hm, hm', hsel, hsl, hsr, ok_bind, pure_eq, calIndices])]
  all_goals glue_eval
  all_goals rw [h16 _ hrange]

end

/-! ### C09 read off the translated source -/

/-- the window is exact, both ends inclusive (`C09.window_exact`), for the indices the translated function returns -/
theorem gen_cal_indices_window_exact {D : Type} (dt : D → Int) (ss : List Int → Int → String → Except Exc Int)
    (time : List Int) (b e : D) (ng : Option Int) (hasc : C09.Ascending time) (hss : SearchsortedSpec ss) :
    ∃ i j : Nat, get_calibration_indices dt ss time (b, e) ng = .ok ((i : Int), (j : Int)) ∧
      ∀ k (hk : k < time.length), (i ≤ k ∧ k < j) ↔ (dt b ≤ time[k] ∧ time[k] ≤ dt e) :=
  ⟨_, _, gen_cal_indices_eq_model dt ss time b e ng hasc hss, fun k hk => C09.window_exact time hasc _ _ k hk⟩

/-! ### Non-vacuity (a searchsorted that satisfies the specification: the model's own) -/

def ssEx (a : List Int) (v : Int) (side : String) : Except Exc Int :=
  if side = "left" then .ok (Py.searchLeft a v : Nat) else if side = "right" then .ok (Py.searchRight a v : Nat)
  else .error .valueError

theorem ssEx_spec : SearchsortedSpec ssEx := fun a v _ => ⟨rfl, rfl⟩

def arr16Ex (t : List (List Int)) : Except Exc (List (List Int)) :=
  if t.all (fun r => r.all fun v => decide (-32768 ≤ v ∧ v ≤ 32767)) then .ok t else .error .overflowError

theorem arr16Ex_spec : Int16TableSpec arr16Ex := by
  intro t h
  unfold arr16Ex
  rw [if_pos]
  simp only [List.all_eq_true, decide_eq_true_eq]
  exact h

example : get_calibration_indices (D := Int) id ssEx [1, 3, 5, 7, 9] (3, 7) none = .ok (1, 4) :=
  (gen_cal_indices_eq_model id ssEx [1, 3, 5, 7, 9] 3 7 none (by unfold C09.Ascending; decide) ssEx_spec).trans (by decide)

example : get_calibration_indices_grp (D := Int) id ssEx (fun g => ((Py.unique g).length : Int)) arr16Ex [1, 2, 3, 4, 5, 6] (2, 6)
    [0, 1, 0, 1, 0, 1] none = .ok [[1, 3], [0, 3]] :=
  (gen_cal_indices_grp_eq_model id ssEx (fun g => ((Py.unique g).length : Int)) arr16Ex [1, 2, 3, 4, 5, 6] 2 6
    [0, 1, 0, 1, 0, 1] none 2 (by unfold C09.Ascending; decide) ssEx_spec arr16Ex_spec rfl (by decide) (by decide)
    (by intro _; decide)).trans (by decide)

end Hdc.GenGlue
