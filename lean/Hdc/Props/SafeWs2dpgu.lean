import Hdc.Gen.SafeWs2dpgu
import Hdc.Gen.NumWs2dpgu
import Hdc.Lemmas.SafeFixed
import Hdc.Lemmas.SafeSimN
import Std.Tactic.Do
/-
SafeWs2dpgu  Safety of `hdc/algo/ops/ws2dpgu.py::ws2dpgu`, proved FROM THE SOURCE: `Hdc.Gen.Safe.ws2dpgu` (Hdc/Gen/SafeWs2dpgu.lean,
written by the instrumentation mode of harness/py2lean_fixed.py) is the statement-by-statement translation plus the flag `bad`.
The kernel is written with NumPy vector idioms (no subscript, no scalar division of its own); the flag is set by
  * `lenDiffer …`                  every cell-by-cell operation on two arrays whose lengths differ (NumPy raises):
                                   `np.where(w == 0, 0.0, y)`, `y > z`, the masks of `wa[envelope] = p` / `wa[~envelope] = p1`,
                                   `w * wa`, `znew[:] = ws2d(…)`, `znew - z`, `z[:] = znew[:]`, `np.round(z, 0, out)`, `out[:] = y[:]`
  * `(Safe.ws2d y lmda ww).2`      the (up to 10 + 1) calls of the instrumented smoother with the asymmetric weights `ww = w * wa`.

  safe_ws2dpgu_fst   (Safe.ws2dpgu …).1 = Gen.NumKernels.ws2dpgu …       every carrier, every input
  safe_ws2dpgu_ok    the flag is false under the contract
                         out.size = len y     the gufunc layout `(n),(),(),() -> (n)`
                         len y ≠ 2            `ws2d` needs 3 cells; with ≤ 1 cell the smoother is never called
                         0 ≤ λ                the source tests `lmda != 0.0`, which does NOT give `λ > 0`: see the example with λ < 0
                         0 < p < 1            the asymmetric weights `p`, `1 - p` must both be positive: with p ∈ {0, 1} a pass can
                                              give every cell the weight 0, with p ∉ [0, 1] a negative weight (a pivot vanishes)
  `example`s         for `out.size`, `0 ≤ λ`, `0 < p`, `p < 1` inputs over ℚ outside the hypothesis with the flag true.  For
                     `len y ≠ 2` no such input was found (two cells: the subscripts of `ws2d` wrap inside the arrays and no pivot
                     vanished on the inputs tried); the hypothesis is there because `safe_ws2d_ok` is proved for n ≥ 3.

Invariant of the loop `for _ in range(10)`, state `(bad, z, znew, wa, envelope, ww, z_tmp)`: the flag is false, `z`, `znew`, `wa` have
the length of the series, and after the first pass `ww` is inside the contract of `ws2d` (`SafeFixed.contract_asym`).
-/
namespace Hdc.SafeWs2dpgu
open Hdc Hdc.Gen.NumKernels Hdc.GenNum Hdc.Smooth Hdc.SafeL Hdc.SafeOptv Hdc.SafeFixed Hdc.SafeSimN Std.Do Hdc.PyNpF

set_option mvcgen.warning false
set_option linter.unusedSimpArgs false
set_option linter.unusedTactic false
set_option linter.unreachableTactic false
set_option linter.unusedSectionVars false

/-- (i) the instrumented program is the translated source plus a flag -/
theorem safe_ws2dpgu_fst {α : Type} [Add α] [Sub α] [Mul α] [Div α] [Neg α] [NatCast α] [LT α] [DecidableLT α]
    (rnd : α → α) (isnan isinf : α → Bool) (y : Array α) (lam nodata p : α) (out : Array α) :
    (Gen.Safe.ws2dpgu rnd isnan isinf y lam nodata p out).1 = Gen.NumKernels.ws2dpgu rnd isnan isinf y lam nodata p out := by
  unfold Gen.Safe.ws2dpgu Gen.NumKernels.ws2dpgu
  simp only [SafeWs2d.safe_ws2d_fst]
  safe_sim

variable {α : Type} [Field α] [LinearOrder α] [IsStrictOrderedRing α]

/-- (ii) under the contract the flag is false -/
theorem safe_ws2dpgu_ok (rnd : α → α) (isnan isinf : α → Bool) (y : List α) (lam nodata p : α)
    (out0 : Array α) (hout : out0.size = y.length) (h2 : y.length ≠ 2) (hlam : 0 ≤ lam) (hp0 : 0 < p) (hp1 : p < 1) :
    (Gen.Safe.ws2dpgu rnd isnan isinf y.toArray lam nodata p out0).2 = false := by
  generalize hres : Gen.Safe.ws2dpgu rnd isnan isinf y.toArray lam nodata p out0 = res
  apply Id.of_wp_run_eq hres
  mvcgen invariants
  · ⇓⟨xs, s⟩ => ⌜s.1 = false ∧ s.2.1.size = y.length ∧ s.2.2.1.size = y.length ∧ s.2.2.2.1.size = y.length ∧
      (xs.prefix.length = 0 ∨ SafeWs2d.Contract (cleanOf (fun x => eqv x nodata || isnan x || isinf x) y)
        s.2.2.2.2.2.1.toList lam)⌝
  all_goals
    pyn_ranges
    simp (config := {zetaDelta := true}) only [npComp_eq, npBoolToNum_eq, npZipSA_eq,
      npZipAS_eq, npSum_eq, npWhereSA_eq, npWhereAS_eq, npWhereSS_eq, List.toList_toArray, weights_eq,
      sum_weights, clean_eq, decide_eq_true_eq, one_lt_count, Bool.not_eq_true', Bool.not_eq_false,
      pyRange_length, List.size_toArray, List.length_append, List.length_singleton, List.length_nil,
      show ((10 : ℤ) - 0).toNat = 10 from rfl] at *
  all_goals first
    -- the two pass-through paths: `out[:] = y[:]`
    | simp only [hout, lenDiffer_self, Bool.or_false]
    | skip
  -- the fit happens: two valid cells, hence three cells; the cleaned data with the validity weights are inside the contract
  -- of `ws2d`, and so is every re-weighting `w * wa` (0 < p < 1)
  all_goals
    have hc := ‹1 < countValid _ y›
    have h3 := three_le_of_count _ y hc h2
    have hC := contract_clean _ y lam h3 (lam_pos_of lam ‹eqv lam _ = false› hlam) hc
    have hA := fun z (hz : z.length = y.length) => contract_asym hC p hp0 hp1 z (by simpa using hz)
    have hcall := fun z (hz : z.length = y.length) => SafeWs2d.safe_ws2d_ok _ _ lam (hA z hz)
  all_goals first
    -- entry of the loop: `z = znew = wa = np.zeros(m)`
    | (refine ⟨?_, ?_, ?_, ?_, Or.inl trivial⟩ <;>
        simp only [List.length_map, weightsOf_length, lenDiffer_self, Bool.or_false, Array.size_replicate, Int.toNat_natCast])
    -- one pass: `envelope`, the two masked stores, `ww = w * wa`, the fit, the stopping test; then `break` / `z[:] = znew[:]`
    | (obtain ⟨hb, hz, hn, ha, hw⟩ := ‹_ = false ∧ _›
       refine ⟨?_, ?_, ?_, ?_, Or.inr ?_⟩ <;>
         simp only [hb, hz, hn, ha, npZipAA_eq, npMap_eq, npMaskSetS_eq,
           maskSet_both, zipWith_lt_swap, asymW_zip, size_npSetAll, size_npMaskSetS, size_npZipAA, size_npMap, ws2d_call_size,
           List.size_toArray, List.toList_toArray, List.length_zipWith, List.length_map, Array.length_toList,
           asymW_length, weightsOf_length, cleanOf_length, Nat.min_self, lenDiffer_self, Bool.or_false, hcall]
       <;> first | done | exact hA _ (by simp only [Array.length_toList, hz]))
    -- after the loop (10 passes or `break`: at least one pass, so `ww` is a re-weighting): `z = ws2d(y, lmda, ww)`,
    -- `np.round(z, 0, out)`
    | (obtain ⟨hb, hz, hn, ha, hw⟩ := ‹_ = false ∧ _›
       have hw' := hw.resolve_left (by omega)
       have hcw := ws2d_ok_arr (cleanOf _ y).toArray _ lam (by simpa only [List.toList_toArray] using hw')
       simp only [hb, hcw, ws2d_call_size, List.size_toArray, cleanOf_length, hout, lenDiffer_self, Bool.or_false])

/-! ### Non-vacuity and sharpness (ℚ; `round` = identity, no NaN / ∞) -/

private def pgu (y : Array ℚ) (lam p : ℚ) (out : Array ℚ) : Array ℚ × Bool :=
  Gen.Safe.ws2dpgu (fun v => v) (fun _ => false) (fun _ => false) y lam (-1) p out

/-- in contract: seven cells, one of them `nodata`, p = 9/10 (the upper envelope) -/
example : (pgu #[1, 2, -1, 3, 5, 9, 2] 2 (9 / 10) #[7, 7, 7, 7, 7, 7, 7]).2 = false :=
  safe_ws2dpgu_ok _ _ _ [1, 2, -1, 3, 5, 9, 2] _ _ _ _ (by rfl) (by decide) (by norm_num) (by norm_num) (by norm_num)
/-- the minimum length 3; the pass-through paths (λ = 0; a single valid cell) -/
example : (pgu #[1, 2, 4] 2 (1 / 2) #[0, 0, 0]).2 = false :=
  safe_ws2dpgu_ok _ _ _ [1, 2, 4] _ _ _ _ (by rfl) (by decide) (by norm_num) (by norm_num) (by norm_num)
example : (pgu #[1, 2, 4] 0 (1 / 2) #[0, 0, 0]).2 = false :=
  safe_ws2dpgu_ok _ _ _ [1, 2, 4] _ _ _ _ (by rfl) (by decide) (by norm_num) (by norm_num) (by norm_num)
example : (pgu #[1, -1, -1, -1] 2 (1 / 2) #[0, 0, 0, 0]).2 = false :=
  safe_ws2dpgu_ok _ _ _ [1, -1, -1, -1] _ _ _ _ (by rfl) (by decide) (by norm_num) (by norm_num) (by norm_num)
/-- `out.size = len y`: a buffer of another length on each of the three paths -/
example : (pgu #[1, 2, 4, 3, 5] 2 (1 / 2) #[7, 7, 7]).2 = true := by decide +kernel
example : (pgu #[1, -1, -1, -1, -1] 2 (1 / 2) #[7, 7, 7]).2 = true := by decide +kernel
example : (pgu #[1, 2, 4, 3, 5] 0 (1 / 2) #[7, 7, 7]).2 = true := by decide +kernel
/-- `0 ≤ λ`: the guard `lmda != 0.0` lets a negative λ through; first pass: every weight is `p = 1/2`, the first pivot
    `w₀ + λ` vanishes at λ = -1/2 -/
example : (pgu #[1, 2, 4, 3, 5] (-1 / 2) (1 / 2) #[0, 0, 0, 0, 0]).2 = true := by decide +kernel
/-- `0 < p`: p = 0 and data above the zero curve: every weight of the first pass is 0; p = -1: the weight `p` is negative
    (`w₀ + λ = -1 + 1`) -/
example : (pgu #[1, 2, 4, 3, 5] 2 0 #[0, 0, 0, 0, 0]).2 = true := by decide +kernel
example : (pgu #[1, 2, 4, 3, 5] 1 (-1) #[0, 0, 0, 0, 0]).2 = true := by decide +kernel
/-- `p < 1`: p = 1 and data below the zero curve: every weight `1 - p` of the first pass is 0; p = 2: `1 - p` is negative -/
example : (pgu #[-2, -3, -4, -3, -5] 2 1 #[0, 0, 0, 0, 0]).2 = true := by decide +kernel
example : (pgu #[-2, -3, -4, -3, -5] 1 2 #[0, 0, 0, 0, 0]).2 = true := by decide +kernel
/-- `len y ≠ 2`: two valid cells; the flag stays false on these inputs -/
example : (pgu #[1, 2] 2 (1 / 2) #[0, 0]).2 = false := by decide +kernel
example : (pgu #[1, 2] (1 / 100) (9 / 10) #[0, 0]).2 = false := by decide +kernel
example : (pgu #[3, 1] 1000 (1 / 10) #[0, 0]).2 = false := by decide +kernel

end Hdc.SafeWs2dpgu
