import Hdc.Gen.GlueMktrend
import Hdc.Lemmas.GenGlue
import Hdc.Model.AccPx
/-
GenGlueMktrend  The GENERATED translation of the accessor `PixelAlgorithms.mktrend` (Hdc/Gen/GlueMktrend.lean) equals the decision
model (Hdc/Model/AccPx.lean): nodata attribute None -> `_mann_kendall_trend_gu` WITHOUT a nodata argument (and a warning), else
`_mann_kendall_trend_gu_nd` WITH it; four outputs float32, float32, float32, int8; merged under tau, pvalue, slope, trend in this
order; `trend.attrs["nodata"] = -2`.  Never raises.
-/
namespace Hdc.GenGluePx
open Hdc Hdc.PyGlue Hdc.Gen.Glue Hdc.GenGlue

variable {V Outs Ds : Type} [Inhabited Outs]

theorem gen_mktrend_acc_eq_model (an : Option V) (ap : List String → Outs) (apnd : Option V → List String → Outs)
    (mg : Outs → List String → Ds) (st : Ds → Int → Ds) :
    mktrend_acc an ap apnd mg st
      = .ok (st (mg (match (mktrendKernel an).1 with
                     | .plain => ap mkTrendDtypes
                     | .withNodata v => apnd (some v) mkTrendDtypes) mkTrendNames) mkTrendNodata,
             (mktrendKernel an).2) := by
  cases an <;> rfl

/-- no nodata attribute: the kernel without nodata, warning raised -/
theorem gen_mktrend_acc_no_nodata (ap : List String → Outs) (apnd : Option V → List String → Outs)
    (mg : Outs → List String → Ds) (st : Ds → Int → Ds) :
    mktrend_acc none ap apnd mg st
      = .ok (st (mg (ap ["float32", "float32", "float32", "int8"]) ["tau", "pvalue", "slope", "trend"]) (-2), true) := rfl

/-- nodata attribute `v`: the nodata kernel with `v`, no warning -/
theorem gen_mktrend_acc_nodata (v : V) (ap : List String → Outs) (apnd : Option V → List String → Outs)
    (mg : Outs → List String → Ds) (st : Ds → Int → Ds) :
    mktrend_acc (some v) ap apnd mg st
      = .ok (st (mg (apnd (some v) ["float32", "float32", "float32", "int8"]) ["tau", "pvalue", "slope", "trend"]) (-2), false) := rfl

-- non-vacuity: outputs = the dtype list, the dataset = (name, dtype) pairs + the trend nodata attribute
example : mktrend_acc (V := Int) (Outs := List String) (Ds := List (String × String) × Option Int) (some 0)
    id (fun _ dt => dt) (fun o n => (n.zip o, none)) (fun d v => (d.1, some v))
    = .ok (([("tau", "float32"), ("pvalue", "float32"), ("slope", "float32"), ("trend", "int8")], some (-2)), false) := rfl

end Hdc.GenGluePx
