import Hdc.Gen.GlueWhitsvc
import Hdc.Lemmas.GenGlueWhit
/-
GenGlueWhitsvc  The GENERATED translation of the accessor `WhittakerSmoother.whitsvc` (Hdc/Gen/GlueWhitsvc.lean) equals the decision
table `Hdc.AccWhit.whitsvcPlan` followed by the post-processing `sgridDataset` (the Dataset named after the input with the second
variable `sgrid = log10(lambda)` as float32), and the consequences C04 relies on.

`if p:` in the branch without `lc` is the Python TRUTH VALUE of an `Optional[float]`: the translator renders it through the explicit
parameter `p_nonzero : P → Bool` (`p is not None and p != 0`; NaN is truthy), while `if p is None:` in the `lc` branch is `p.isNone`.
The three `xarray.apply_ufunc(..)` calls and the two post-processing lines are library parameters matched with their full literal
text.
-/
namespace Hdc.GenGlue
open Hdc Hdc.PyGlue Hdc.Gen.Glue Hdc.AccWhit

set_option linter.unusedSimpArgs false
set_option linter.unusedVariables false

variable {V LC SR P DA SGr DS LogS : Type} [Inhabited DA] [Inhabited SGr]

/-- REFINEMENT: the translated accessor is the plan, run by the three kernel parameters, then turned into the output Dataset
    (no hypothesis) -/
theorem gen_whitsvc_eq_plan (ct : Bool) (alc : V → Option P → Option LC → DA × SGr) (nz : P → Bool)
    (avp : V → Option P → Option SR → DA × SGr) (av : V → Option SR → DA × SGr)
    (td : DA → DS) (lg : SGr → LogS) (ss : DS → LogS → DS) (nd : V) (lc : Option LC) (sr : Option SR) (p : Option P) :
    whitsvc ct alc nz avp av td lg ss nd lc sr p
      = (whitsvcPlan ct nz nd lc sr p).map fun c => sgridDataset td lg ss (runV alc avp av c) := by
  unfold whitsvc whitsvcPlan
  rcases ct with _ | _ <;> rcases lc with _ | c <;> rcases sr with _ | r <;> rcases p with _ | q
  all_goals glue_eval
  all_goals simp only [except_map_ok, except_map_error, runV, sgridDataset]
  all_goals first
    | rfl
    | (by_cases h : nz q = true <;> simp only [h, if_false, if_true] <;> rfl)

/-- no time dimension: MissingTimeError -/
theorem gen_whitsvc_no_time (alc : V → Option P → Option LC → DA × SGr) (nz : P → Bool)
    (avp : V → Option P → Option SR → DA × SGr) (av : V → Option SR → DA × SGr)
    (td : DA → DS) (lg : SGr → LogS) (ss : DS → LogS → DS) (nd : V) (lc : Option LC) (sr : Option SR) (p : Option P) :
    whitsvc false alc nz avp av td lg ss nd lc sr p = .error .missingTimeError := by
  rw [gen_whitsvc_eq_plan]; rfl

/-- `lc` given and `p` None: ValueError (whatever `srange`) -/
theorem gen_whitsvc_lc_needs_p (alc : V → Option P → Option LC → DA × SGr) (nz : P → Bool)
    (avp : V → Option P → Option SR → DA × SGr) (av : V → Option SR → DA × SGr)
    (td : DA → DS) (lg : SGr → LogS) (ss : DS → LogS → DS) (nd : V) (c : LC) (sr : Option SR) :
    whitsvc true alc nz avp av td lg ss nd (some c) sr none = .error .valueError := by
  rw [gen_whitsvc_eq_plan]; rfl

/-- `lc` given (and a `p`, ANY value: the test is `p is None`): `ws2doptvplc(nodata, p, lc)` whatever `srange`; `nodata` first,
    `p` second, `lc` unchanged third; output = Dataset with `sgrid = log10(lambda)` (float32) -/
theorem gen_whitsvc_lc (alc : V → Option P → Option LC → DA × SGr) (nz : P → Bool)
    (avp : V → Option P → Option SR → DA × SGr) (av : V → Option SR → DA × SGr)
    (td : DA → DS) (lg : SGr → LogS) (ss : DS → LogS → DS) (nd : V) (c : LC) (sr : Option SR) (q : P) :
    whitsvc true alc nz avp av td lg ss nd (some c) sr (some q)
      = .ok (ss (td (alc nd (some q) (some c)).1) (lg (alc nd (some q) (some c)).2)) := by
  rw [gen_whitsvc_eq_plan]; rfl

/-- neither `lc` nor `srange`: ValueError (whatever `p`) -/
theorem gen_whitsvc_needs_lc_or_srange (alc : V → Option P → Option LC → DA × SGr) (nz : P → Bool)
    (avp : V → Option P → Option SR → DA × SGr) (av : V → Option SR → DA × SGr)
    (td : DA → DS) (lg : SGr → LogS) (ss : DS → LogS → DS) (nd : V) (p : Option P) :
    whitsvc true alc nz avp av td lg ss nd none none p = .error .valueError := by
  rw [gen_whitsvc_eq_plan]; rcases p with _ | q <;> rfl

/-- no `lc`, `srange`, a TRUTHY `p` (`hq`; in particular every p in (0, 1), e.g. 0.5): `ws2doptvp(nodata, p, srange)` -/
theorem gen_whitsvc_p_truthy_asymmetric (alc : V → Option P → Option LC → DA × SGr) (nz : P → Bool)
    (avp : V → Option P → Option SR → DA × SGr) (av : V → Option SR → DA × SGr)
    (td : DA → DS) (lg : SGr → LogS) (ss : DS → LogS → DS) (nd : V) (r : SR) (q : P) (hq : nz q = true) :
    whitsvc true alc nz avp av td lg ss nd none (some r) (some q)
      = .ok (ss (td (avp nd (some q) (some r)).1) (lg (avp nd (some q) (some r)).2)) := by
  rw [gen_whitsvc_eq_plan]
  simp only [whitsvcPlan, hq, Bool.not_true, Bool.false_eq_true, if_false, if_true, except_map_ok, runV, sgridDataset]

/-- CURRENT SOURCE, documented behaviour: without `lc` the test is `if p:`, so `p = 0.0` (`hq`: p is zero) silently selects the
    SYMMETRIC kernel `ws2doptv(nodata, srange)`; `p` is dropped -/
theorem gen_whitsvc_p_zero_symmetric (alc : V → Option P → Option LC → DA × SGr) (nz : P → Bool)
    (avp : V → Option P → Option SR → DA × SGr) (av : V → Option SR → DA × SGr)
    (td : DA → DS) (lg : SGr → LogS) (ss : DS → LogS → DS) (nd : V) (r : SR) (q : P) (hq : nz q = false) :
    whitsvc true alc nz avp av td lg ss nd none (some r) (some q)
      = .ok (ss (td (av nd (some r)).1) (lg (av nd (some r)).2)) := by
  rw [gen_whitsvc_eq_plan]
  simp only [whitsvcPlan, hq, Bool.not_true, Bool.false_eq_true, if_false, if_true, except_map_ok, runV, sgridDataset]

/-- no `lc`, `srange`, no `p`: the symmetric kernel `ws2doptv(nodata, srange)` -/
theorem gen_whitsvc_p_none_symmetric (alc : V → Option P → Option LC → DA × SGr) (nz : P → Bool)
    (avp : V → Option P → Option SR → DA × SGr) (av : V → Option SR → DA × SGr)
    (td : DA → DS) (lg : SGr → LogS) (ss : DS → LogS → DS) (nd : V) (r : SR) :
    whitsvc true alc nz avp av td lg ss nd none (some r) none
      = .ok (ss (td (av nd (some r)).1) (lg (av nd (some r)).2)) := by
  rw [gen_whitsvc_eq_plan]; rfl

/-- the second output: whenever `whitsvc` succeeds, the result is `set_sgrid d (log10_f32 lambda)` for the pair
    `(smoothed, lambda)` one of the three kernels returned, `d = to_dataset smoothed` -/
theorem gen_whitsvc_sgrid_is_log10_lambda (alc : V → Option P → Option LC → DA × SGr) (nz : P → Bool)
    (avp : V → Option P → Option SR → DA × SGr) (av : V → Option SR → DA × SGr)
    (td : DA → DS) (lg : SGr → LogS) (ss : DS → LogS → DS) (nd : V) (lc : Option LC) (sr : Option SR) (p : Option P) (out : DS)
    (h : whitsvc true alc nz avp av td lg ss nd lc sr p = .ok out) :
    ∃ c, whitsvcPlan true nz nd lc sr p = .ok c ∧
      out = ss (td (runV alc avp av c).1) (lg (runV alc avp av c).2) := by
  rw [gen_whitsvc_eq_plan] at h
  rcases hc : whitsvcPlan true nz nd lc sr p with e | c
  · rw [hc] at h; exact nomatch h
  · rw [hc] at h
    simp only [except_map_ok, Except.ok.injEq, sgridDataset] at h
    exact ⟨c, rfl, h.symm⟩

/-- the defaults of the `def` line (`lc=None, srange=None, p=None`): `whitsvc(nodata)` alone raises ValueError -/
theorem gen_whitsvc_dflt (alc : V → Option P → Option LC → DA × SGr) (nz : P → Bool)
    (avp : V → Option P → Option SR → DA × SGr) (av : V → Option SR → DA × SGr)
    (td : DA → DS) (lg : SGr → LogS) (ss : DS → LogS → DS) (nd : V) :
    whitsvc_dflt true alc nz avp av td lg ss nd = .error .valueError := by
  unfold whitsvc_dflt; rw [gen_whitsvc_eq_plan]; rfl

/-! non-vacuity: numbers are `Int` scaled by 10 (p = 5 stands for 0.5), `nz q = (q != 0)`; the kernels record their name and
    arguments, lambda = 100 -/
section examples
private abbrev R := (String × Int × Option Int × Option Int × Option Int) × Int
private def alcX : Int → Option Int → Option Int → R := fun nd p lc => (("optvplc", nd, p, lc, none), 100)
private def avpX : Int → Option Int → Option Int → R := fun nd p sr => (("optvp", nd, p, none, sr), 100)
private def avX : Int → Option Int → R := fun nd sr => (("optv", nd, none, none, sr), 100)
private def nzX : Int → Bool := fun q => q != 0
private abbrev DSX := (String × Int × Option Int × Option Int × Option Int) × Option Int
private def tdX : (String × Int × Option Int × Option Int × Option Int) → DSX := fun d => (d, none)
private def ssX : DSX → Int → DSX := fun d g => (d.1, some g)

/-- p = 0.5 (truthy): the asymmetric kernel - the regression `if p and p != 0.5` would not even translate -/
example : whitsvc true alcX nzX avpX avX tdX (fun l => l + 1) ssX (-3000) none (some 42) (some 5)
    = .ok (("optvp", -3000, some 5, none, some 42), some 101) :=
  gen_whitsvc_p_truthy_asymmetric alcX nzX avpX avX tdX (fun l => l + 1) ssX (-3000) 42 5 rfl
/-- outside `hq` of `.._p_truthy_asymmetric` (p = 0): the symmetric kernel, a different result -/
example : whitsvc true alcX nzX avpX avX tdX (fun l => l + 1) ssX (-3000) none (some 42) (some 0)
    = .ok (("optv", -3000, none, none, some 42), some 101) :=
  gen_whitsvc_p_zero_symmetric alcX nzX avpX avX tdX (fun l => l + 1) ssX (-3000) 42 0 rfl
/-- with `lc` even p = 0 keeps the asymmetric lc kernel (`p is None` test), and `srange` is ignored -/
example : whitsvc true alcX nzX avpX avX tdX (fun l => l + 1) ssX (-3000) (some 9) (some 42) (some 0)
    = .ok (("optvplc", -3000, some 0, some 9, none), some 101) :=
  gen_whitsvc_lc alcX nzX avpX avX tdX (fun l => l + 1) ssX (-3000) 9 (some 42) 0
/-- outside `ct = true`: no time dimension -/
example : whitsvc false alcX nzX avpX avX tdX (fun l => l + 1) ssX (-3000) (some 9) (some 42) (some 0) = .error .missingTimeError :=
  gen_whitsvc_no_time ..
/-- `gen_whitsvc_lc_needs_p` needs `p` None, `gen_whitsvc_needs_lc_or_srange` needs both absent: see the three successes above -/
example : whitsvc true alcX nzX avpX avX tdX (fun l => l + 1) ssX (-3000) none none (some 5) = .error .valueError :=
  gen_whitsvc_needs_lc_or_srange ..
end examples

end Hdc.GenGlue
