import Hdc.Lemmas.SmoothGcvAffine
import Hdc.Lemmas.SmoothExpectile
import Mathlib.Tactic.NormNum
import Mathlib.Tactic.IntervalCases
import Hdc.Props.C03
import Hdc.Props.C04
import Hdc.Props.C05
/-
C06  Linear series, offsets, time reversal.

Formal statements proved in this file (α any linearly ordered field; `lineList a b n` = [a + b·i | i < n]).
The core `ws2d` is the LDLᵀ solve of the model, which is the penalised least-squares solution only inside
the contract of C01 (n ≥ 4, λ > 0, weights ≥ 0 with two positive entries); the hypotheses `4 ≤ |y|`,
`0 < λ` (resp. `0 ≤ λ`, `0 < pow10 _`) below are exactly what is needed to be inside it.

 1. straight lines
  curve_affine_of_weights        InContract y ww lam, ww = 0 on missing cells, valid cells on the line → ws2d y lam ww = the line
  curve_affine_of_weights_clean  the same for the cleaned data
  gu_affine        4 ≤ n, 0 < lam, 2 ≤ countValid, valid cells on a + b·i → gu miss y lam = some (lineList a b n)
  optv_affine      optv F miss y llas = some (z, lopt), 0 < lopt, 4 ≤ n, valid cells on the line → z = lineList a b n
  wcv_affine       wcv G miss y llas false = .ok z lopt, 0 < lopt, valid cells on the line → z = lineList a b n
  wcv_affine_of_contract   robust or not: if the final weights are inside the contract the curve is the line
                   (for robust = true this is now unconditional: wcv_affine_robust in section 4)
  expectile_affine InContract y w lam, 0<p<1, data on the line where w ≠ 0 → expectile y w lam p = lineList a b n
  pgu_affine / optvp_affine / wcvp_affine   the same for the asymmetric kernels
 2. offsets and reversal of the fixed-λ kernel
  (the unconditional `gu_shift`/`gu_reverse` of the task are FALSE in the model for n = 3 and for λ < 0:
   counterexamples are checked in the non-vacuity section)
  gu_shift         4 ≤ n, 0 ≤ lam → gu (fun x => miss (x − c)) (y.map (· + c)) lam = (gu miss y lam).map (·.map (· + c))
  gu_reverse       4 ≤ n, 0 ≤ lam → gu miss y.reverse lam = (gu miss y lam).map List.reverse
 3. V-curve
  fitSS_eq_sum / penSS_eq_sum    fitSS w y z = Σ (w_i (y_i − z_i))²,  penSS z = Σ_j (D2 z j)²
  fitSS_shift / penSS_shift / fitSS_reverse / penSS_reverse    fit and roughness are invariant
  optv_shift       4 ≤ n, 0 < pow10 → optv F (miss (· − c)) (y + c) llas = (optv F miss y llas).map (curve + c, same lopt)
  optv_reverse     4 ≤ n, 0 < pow10 → optv F miss y.reverse llas = (optv F miss y llas).map (curve reversed, same lopt)
                   (the grid `llas` is NOT reversed)
 4. GCV kernel under offsets (`G.sqrtw 0 = 0`, `0 < pow10` on the grid)
  wcv_shift_passthrough   pass-through is decided on the valid count only
  wcv_shift_nonrobust     wcv G miss y llas false = .ok z lopt, lopt ≠ 0 →
                            wcv G (miss (· − c)) (y + c) llas false = .ok (z + c) lopt
  wcv_shift_nonrobust'    some grid score beats `big` → wcv G (miss (· − c)) (y + c) llas false = shiftOut c (wcv G miss y llas false)
  robustWeightsOK         2 ≤ countValid → every robust weight vector in force leaves ≥ 2 positive weights (THEOREM, by the
                            guard of the repaired re-weighting step)
  wcv_shift_robust        wcv G (miss (· − c)) (y + c) llas true = shiftOut c (wcv G miss y llas true)   (no side condition:
                            the MAD threshold madtol·(1 + max − min) is shift invariant)
  wcv_affine_robust / wcvp_affine_robust   robust = true, valid cells on the line, positive grid → the curve is the line
 5. asymmetric kernels under offsets
  expectileEq_unique      0<p<1, λ>0, w ≥ 0 with two positive entries: the expectile equations have at most one solution
                          (they are the stationarity conditions of a strictly convex functional)
  expectile_fix_unique    list form: two full-length fixed points of "re-weight, re-fit" coincide
  expectile_shift_of_converged   both runs stopped early → expectile (y + c) w lam p = (expectile y w lam p) + c
  pgu_shift_partial       the same for ws2dpgu
  (the unconditional commutation is kept as a comment in section 5: it needs both runs to reach their fixed point)
-/
namespace Hdc.C06
open Hdc Hdc.C01 Hdc.Smooth

set_option linter.unusedSectionVars false

variable {α : Type} [Field α] [LinearOrder α] [IsStrictOrderedRing α]

/-! ### 1. straight lines are reproduced, gaps are filled on the same line -/

theorem curve_affine_of_weights (miss : α → Bool) (y ww : List α) (lam a b : α)
    (h : InContract y ww lam)
    (hsupp : ∀ i (hi : i < y.length), miss y[i] = true → fn ww i = 0)
    (hline : ∀ i (hi : i < y.length), miss y[i] = false → y[i] = a + b * (i : α)) :
    ws2d y lam ww = lineList a b y.length := by
  apply ws2d_eq_line h a b
  intro i hi
  have hl : i < y.length := by rw [← h.wlen]; exact fn_ne_zero_lt _ i hi
  rw [fn_of_lt _ i hl]
  apply hline i hl
  by_contra hm
  exact hi (hsupp i hl (by simpa using hm))

theorem curve_affine_of_weights_clean (miss : α → Bool) (y ww : List α) (lam a b : α)
    (h : InContract (cleanOf miss y) ww lam)
    (hsupp : ∀ i (hi : i < y.length), miss y[i] = true → fn ww i = 0)
    (hline : ∀ i (hi : i < y.length), miss y[i] = false → y[i] = a + b * (i : α)) :
    ws2d (cleanOf miss y) lam ww = lineList a b y.length := by
  have := ws2d_eq_line h a b (by
    intro i hi
    have hl : i < y.length := by
      have := fn_ne_zero_lt _ i hi
      rw [h.wlen] at this; simpa using this
    have hm : miss y[i] = false := by
      by_contra hm
      exact hi (hsupp i hl (by simpa using hm))
    rw [fn_cleanOf miss y i hl, hm]
    simpa using hline i hl hm)
  simpa using this

/-- the validity weights vanish on missing cells -/
theorem weightsOf_supp (miss : α → Bool) (y : List α) :
    ∀ i (hi : i < y.length), miss y[i] = true → fn (weightsOf miss y) i = 0 := by
  intro i hi hm
  rw [fn_weightsOf miss y i hi, hm]; simp

/-- weights inside the support of the validity weights vanish on missing cells -/
theorem supp_of_suppIn (miss : α → Bool) (y ww : List α) (hs : SuppIn ww (weightsOf miss y)) :
    ∀ i (hi : i < y.length), miss y[i] = true → fn ww i = 0 := by
  intro i hi hm
  by_contra h0
  exact hs i h0 (weightsOf_supp miss y i hi hm)

theorem gu_affine (miss : α → Bool) (y : List α) (lam a b : α) (hn : 4 ≤ y.length) (hlam : 0 < lam)
    (hv : 2 ≤ countValid miss y)
    (hline : ∀ i (hi : i < y.length), miss y[i] = false → y[i] = a + b * (i : α)) :
    gu miss y lam = some (lineList a b y.length) := by
  rw [C02.gu_eq_some miss y lam hlam.ne' hv,
    curve_affine_of_weights_clean miss y _ lam a b (inContract_clean miss y lam hn hlam hv)
      (weightsOf_supp miss y) hline]

theorem optv_affine (F : VFns α) (miss : α → Bool) (y llas : List α) (a b : α) (z : List α) (lopt : α)
    (h : optv F miss y llas = some (z, lopt)) (hl : 0 < lopt) (hn : 4 ≤ y.length)
    (hline : ∀ i (hi : i < y.length), miss y[i] = false → y[i] = a + b * (i : α)) :
    z = lineList a b y.length := by
  rw [C04.optv_eq_some_iff] at h
  obtain ⟨hc, _, rfl⟩ := h
  exact curve_affine_of_weights miss y _ lopt a b (inContract_raw miss y lopt hn hl (by omega))
    (weightsOf_supp miss y) hline

theorem wcv_affine (G : GFns α) (miss : α → Bool) (y llas : List α) (a b : α) (z : List α) (lopt : α)
    (h : wcv G miss y llas false = .ok z lopt) (hl : 0 < lopt)
    (hline : ∀ i (hi : i < y.length), miss y[i] = false → y[i] = a + b * (i : α)) :
    z = lineList a b y.length := by
  obtain ⟨hc, _, rfl⟩ := C05.wcv_nonrobust_ok G miss y llas z lopt h
  have hn : 4 ≤ y.length := by have := countValid_le_length miss y; omega
  exact curve_affine_of_weights_clean miss y _ lopt a b
    (inContract_clean miss y lopt hn hl (by omega)) (weightsOf_supp miss y) hline

/-- robust or not: whenever the weights in force at the final fit are inside the contract,
    the curve of a series whose valid cells lie on a line is that line -/
theorem wcv_affine_of_contract (G : GFns α) (miss : α → Bool) (y llas : List α) (robust : Bool)
    (a b : α) (z : List α) (lopt : α) (h : wcv G miss y llas robust = .ok z lopt)
    (hc : ∀ rw, (∀ x ∈ rw, 0 ≤ x ∧ x ≤ 1) → z = ws2d (cleanOf miss y) lopt (mul2 (weightsOf miss y) rw) →
      InContract (cleanOf miss y) (mul2 (weightsOf miss y) rw) lopt)
    (hline : ∀ i (hi : i < y.length), miss y[i] = false → y[i] = a + b * (i : α)) :
    z = lineList a b y.length := by
  obtain ⟨_, rwts, hs, hz⟩ := C05.wcv_ok G miss y llas robust z lopt h
  obtain ⟨rw, hr, rfl⟩ := C05.gcvSelect_weights G _ _ llas robust lopt rwts hs
  rw [hz]
  exact curve_affine_of_weights_clean miss y _ lopt a b (hc rw hr hz)
    (supp_of_suppIn miss y _ (suppIn_mul2 _ _)) hline

variable {y w : List α} {lam : α}

theorem expectile_affine (h : InContract y w lam) (p : α) (hp0 : 0 < p) (hp1 : p < 1) (a b : α)
    (hy : ∀ i, fn w i ≠ 0 → fn y i = a + b * (i : α)) :
    expectile y w lam p = lineList a b y.length := by
  unfold expectile
  apply ws2d_eq_line (C03.irls_inContract h p hp0 hp1 9 _ _ (by simp)) a b
  intro i hi
  exact hy i (irls_supp y w lam p 10 _ _ (suppIn_zerosLike y w) i hi)

theorem pgu_affine (miss : α → Bool) (y : List α) (lam p a b : α) (hn : 4 ≤ y.length) (hlam : 0 < lam)
    (hv : 2 ≤ countValid miss y) (hp0 : 0 < p) (hp1 : p < 1)
    (hline : ∀ i (hi : i < y.length), miss y[i] = false → y[i] = a + b * (i : α)) :
    pgu miss y lam p = some (lineList a b y.length) := by
  rw [C02.pgu_eq_some miss y lam p hlam.ne' hv]
  have := expectile_affine (inContract_clean miss y lam hn hlam hv) p hp0 hp1 a b (by
    intro i hi
    obtain ⟨hl, hm⟩ := weightsOf_ne_zero miss y i hi
    rw [fn_cleanOf miss y i hl, hm]
    simpa using hline i hl hm)
  simpa using this

theorem optvp_affine (F : VFns α) (miss : α → Bool) (y : List α) (p : α) (llas : List α) (a b : α)
    (z : List α) (lopt : α) (h : optvp F miss y p llas = some (z, lopt)) (hl : 0 < lopt)
    (hn : 4 ≤ y.length) (hp0 : 0 < p) (hp1 : p < 1)
    (hline : ∀ i (hi : i < y.length), miss y[i] = false → y[i] = a + b * (i : α)) :
    z = lineList a b y.length := by
  have := C04.optvp_self_consistent F miss y p llas z lopt h hl.ne'
  have hv : 2 ≤ countValid miss y := by
    by_contra hc
    rw [(C02.pgu_passthrough_iff miss y lopt p).2 (Or.inr (by omega))] at this
    cases this
  rw [pgu_affine miss y lopt p a b hn hl hv hp0 hp1 hline] at this
  exact (Option.some.inj this).symm

theorem wcvp_affine (G : GFns α) (miss : α → Bool) (y : List α) (p : α) (llas : List α) (a b : α)
    (z : List α) (lopt : α) (h : wcvp G miss y p llas false = .ok z lopt) (hl : 0 < lopt)
    (hp0 : 0 < p) (hp1 : p < 1)
    (hline : ∀ i (hi : i < y.length), miss y[i] = false → y[i] = a + b * (i : α)) :
    z = lineList a b y.length := by
  have := C05.wcvp_self_consistent G miss y p llas z lopt h hl.ne'
  obtain ⟨hc, _, _⟩ := C05.wcvp_nonrobust_ok G miss y p llas z lopt h
  have hn : 4 ≤ y.length := by have := countValid_le_length miss y; omega
  rw [pgu_affine miss y lopt p a b hn hl (by omega) hp0 hp1 hline] at this
  exact (Option.some.inj this).symm

/-! ### 2. offsets and time reversal of ws2dgu -/

theorem gu_shift (miss : α → Bool) (y : List α) (lam c : α) (hn : 4 ≤ y.length) (hlam : 0 ≤ lam) :
    gu (fun x => miss (x - c)) (y.map (· + c)) lam = (gu miss y lam).map (·.map (· + c)) := by
  by_cases hv : 2 ≤ countValid miss y ∧ lam ≠ 0
  · obtain ⟨hv, h0⟩ := hv
    have hpos : 0 < lam := lt_of_le_of_ne hlam (Ne.symm h0)
    rw [C02.gu_eq_some miss y lam h0 hv,
      C02.gu_eq_some _ _ lam h0 (by rw [countValid_shift]; exact hv), weightsOf_shift,
      ws2d_masked (cleanOf_shift_masked miss y c) (SuppIn.refl _),
      ws2d_shift (inContract_clean miss y lam hn hpos hv) c]
    rfl
  · have h1 : gu miss y lam = none := by
      rw [C02.gu_passthrough_iff]
      by_cases h0 : lam = 0
      · exact Or.inl h0
      · right; by_contra hc; exact hv ⟨by omega, h0⟩
    have h2 : gu (fun x => miss (x - c)) (y.map (· + c)) lam = none := by
      rw [C02.gu_passthrough_iff, countValid_shift, ← C02.gu_passthrough_iff]; exact h1
    rw [h1, h2]; rfl

theorem gu_reverse (miss : α → Bool) (y : List α) (lam : α) (hn : 4 ≤ y.length) (hlam : 0 ≤ lam) :
    gu miss y.reverse lam = (gu miss y lam).map List.reverse := by
  by_cases hv : 2 ≤ countValid miss y ∧ lam ≠ 0
  · obtain ⟨hv, h0⟩ := hv
    have hpos : 0 < lam := lt_of_le_of_ne hlam (Ne.symm h0)
    rw [C02.gu_eq_some miss y lam h0 hv,
      C02.gu_eq_some _ _ lam h0 (by rw [countValid_reverse]; exact hv), weightsOf_reverse,
      cleanOf_reverse, ws2d_reverse (inContract_clean miss y lam hn hpos hv)]
    rfl
  · have h1 : gu miss y lam = none := by
      rw [C02.gu_passthrough_iff]
      by_cases h0 : lam = 0
      · exact Or.inl h0
      · right; by_contra hc; exact hv ⟨by omega, h0⟩
    have h2 : gu miss y.reverse lam = none := by
      rw [C02.gu_passthrough_iff, countValid_reverse, ← C02.gu_passthrough_iff]; exact h1
    rw [h1, h2]; rfl

/-! ### 3. the V-curve: fit and roughness are invariant -/

/-- `fitSS w y z = Σ (w_i (y_i − z_i))²` -/
theorem fitSS_eq_sum (w y z : List α) (hw : w.length = y.length) (hz : z.length = y.length) :
    fitSS w y z = ∑ i ∈ Finset.range y.length, (fn w i * (fn y i - fn z i)) ^ 2 :=
  Smooth.fitSS_eq_sum w y z hw hz

/-- `penSS z = Σ (Δ² z)²`: the roughness term of `C01.PLS` -/
theorem penSS_eq_sum (z : List α) :
    penSS z = ∑ j ∈ Finset.range (z.length - 2), (D2 (fn z) j) ^ 2 := Smooth.penSS_eq_sum z

theorem fitSS_shift (w y z : List α) (c : α) :
    fitSS w (y.map (· + c)) (z.map (· + c)) = fitSS w y z := Smooth.fitSS_shift w y z c

theorem penSS_shift (z : List α) (c : α) : penSS (z.map (· + c)) = penSS z := Smooth.penSS_shift z c

theorem fitSS_reverse (w y z : List α) (hw : w.length = y.length) (hz : z.length = y.length) :
    fitSS w.reverse y.reverse z.reverse = fitSS w y z := Smooth.fitSS_reverse w y z hw hz

theorem penSS_reverse (z : List α) : penSS z.reverse = penSS z := Smooth.penSS_reverse z

theorem optv_shift (F : VFns α) (miss : α → Bool) (y llas : List α) (c : α) (hn : 4 ≤ y.length)
    (hpow : ∀ x, 0 < F.pow10 x) :
    optv F (fun x => miss (x - c)) (y.map (· + c)) llas =
      (optv F miss y llas).map fun r => (r.1.map (· + c), r.2) := by
  rw [optv_unfold, optv_unfold, countValid_shift, weightsOf_shift]
  by_cases hc : 1 < countValid miss y
  · rw [if_pos hc, if_pos hc]
    have hC : ∀ lam, 0 < lam → InContract y (weightsOf miss y) lam :=
      fun lam hl => inContract_raw miss y lam hn hl (by omega)
    have hsel : vselect F (weightsOf miss y) (y.map (· + c)) llas
          (fun (_ : Unit) lam => ((), ws2d (y.map (· + c)) lam (weightsOf miss y))) () =
        vselect F (weightsOf miss y) y llas
          (fun (_ : Unit) lam => ((), ws2d y lam (weightsOf miss y))) () := by
      apply vselect_rel F _ _ _ _ llas _ _ (fun _ _ => True) () () trivial
      intro _ _ _ l _
      refine ⟨trivial, ?_, ?_⟩
      · simp only []; rw [ws2d_shift (hC _ (hpow l)) c, Smooth.fitSS_shift]
      · simp only []; rw [ws2d_shift (hC _ (hpow l)) c, Smooth.penSS_shift]
    rw [hsel]
    cases hs : vselect F (weightsOf miss y) y llas
          (fun (_ : Unit) lam => ((), ws2d y lam (weightsOf miss y))) () with
    | none => rfl
    | some lopt =>
      obtain ⟨k, _, hl, _⟩ := C04.vselect_midpoint F _ _ _ _ _ _ hs
      simp only [Option.map_some]
      rw [ws2d_shift (hC lopt (by rw [hl]; exact hpow _)) c]
  · rw [if_neg hc, if_neg hc]; rfl

theorem optv_reverse (F : VFns α) (miss : α → Bool) (y llas : List α) (hn : 4 ≤ y.length)
    (hpow : ∀ x, 0 < F.pow10 x) :
    optv F miss y.reverse llas = (optv F miss y llas).map fun r => (r.1.reverse, r.2) := by
  rw [optv_unfold, optv_unfold, countValid_reverse, weightsOf_reverse]
  by_cases hc : 1 < countValid miss y
  · rw [if_pos hc, if_pos hc]
    have hC : ∀ lam, 0 < lam → InContract y (weightsOf miss y) lam :=
      fun lam hl => inContract_raw miss y lam hn hl (by omega)
    have hsel : vselect F (weightsOf miss y).reverse y.reverse llas
          (fun (_ : Unit) lam => ((), ws2d y.reverse lam (weightsOf miss y).reverse)) () =
        vselect F (weightsOf miss y) y llas
          (fun (_ : Unit) lam => ((), ws2d y lam (weightsOf miss y))) () := by
      apply vselect_rel F _ _ _ _ llas _ _ (fun _ _ => True) () () trivial
      intro _ _ _ l _
      refine ⟨trivial, ?_, ?_⟩
      · simp only []
        rw [ws2d_reverse (hC _ (hpow l)),
          Smooth.fitSS_reverse _ _ _ (by simp) (ws2d_length _ _ _ (by simp))]
      · simp only []; rw [ws2d_reverse (hC _ (hpow l)), Smooth.penSS_reverse]
    rw [hsel]
    cases hs : vselect F (weightsOf miss y) y llas
          (fun (_ : Unit) lam => ((), ws2d y lam (weightsOf miss y))) () with
    | none => rfl
    | some lopt =>
      obtain ⟨k, _, hl, _⟩ := C04.vselect_midpoint F _ _ _ _ _ _ hs
      simp only [Option.map_some]
      rw [ws2d_reverse (hC lopt (by rw [hl]; exact hpow _))]
  · rw [if_neg hc, if_neg hc]; rfl

/-! ### 4. the GCV kernel under offsets

Residuals `y − z` are invariant under the shift, so every score, every MAD and every robust
weight on a valid cell is unchanged; the λ grid sweep selects the same λ and the curve is
shifted.  `G.sqrtw 0 = 0` (i.e. `0 ** 0.5 = 0`) is needed because the cleaned data carry 0,
not `c`, on missing cells; there the residual is multiplied by `sqrtw 0`. -/

/-- the output with its curve shifted -/
def shiftOut (c : α) : GcvOut α → GcvOut α
  | .ok z l => .ok (z.map (· + c)) l
  | .passthrough => .passthrough
  | .unbound => .unbound

theorem wcv_shift_passthrough (G : GFns α) (miss : α → Bool) (y llas : List α) (c : α) (robust : Bool) :
    wcv G (fun x => miss (x - c)) (y.map (· + c)) llas robust = .passthrough ↔
      wcv G miss y llas robust = .passthrough := by
  rw [C02.wcv_passthrough_iff, C02.wcv_passthrough_iff, countValid_shift]

/-- robust = false: same λ, curve shifted (λ = 0 is reported only when no score beats `big`;
    then the final solve is outside the contract of the core) -/
theorem wcv_shift_nonrobust (G : GFns α) (miss : α → Bool) (y llas : List α) (c : α)
    (hpow : ∀ l ∈ llas, 0 < G.pow10 l) (hsq : G.sqrtw 0 = 0) (z : List α) (lopt : α)
    (h : wcv G miss y llas false = .ok z lopt) (h0 : lopt ≠ 0) :
    wcv G (fun x => miss (x - c)) (y.map (· + c)) llas false = .ok (z.map (· + c)) lopt := by
  obtain ⟨hc, hl, hz⟩ := C05.wcv_nonrobust_ok G miss y llas z lopt h
  have hn : 4 ≤ y.length := by have := countValid_le_length miss y; omega
  have hM := cleanOf_shift_masked miss y c
  have hpow' : ∀ s ∈ llas.map G.pow10, 0 < s := by
    intro s hs
    rw [List.mem_map] at hs
    obtain ⟨l, hl, rfl⟩ := hs
    exact hpow l hl
  have hC : ∀ s, 0 < s → InContract (cleanOf miss y) (weightsOf miss y) s :=
    fun s hs => inContract_clean miss y s hn hs (by omega)
  have hsw := gcvSweep_shift G c hM hsq (weightsOf miss y) (deigs G y.length) (llas.map G.pow10)
    (SuppIn.refl _) (fun s hs => hC s (hpow' s hs)) ⟨G.big, nat 0, none⟩
  have hlpos : 0 < lopt := by
    rcases Smooth.gcvSweep_lam G (cleanOf miss y) (weightsOf miss y) (deigs G y.length)
      (llas.map G.pow10) ⟨G.big, nat 0, none⟩ with e | ⟨e, _⟩
    · exfalso; apply h0; rw [hl, e]; exact nat_zero
    · rw [hl]; exact hpow' _ e
  rw [C05.wcv_nonrobust_eq, countValid_shift, weightsOf_shift, List.length_map, if_pos hc]
  have hsw' : gcvSweep G (cleanOf (fun x => miss (x - c)) (y.map (· + c))) (weightsOf miss y)
      (deigs G y.length) (llas.map G.pow10) ⟨G.big, nat 0, none⟩ =
      shiftB c (gcvSweep G (cleanOf miss y) (weightsOf miss y) (deigs G y.length) (llas.map G.pow10)
        ⟨G.big, nat 0, none⟩) := hsw
  rw [hsw']
  show GcvOut.ok (ws2d _ (gcvSweep G (cleanOf miss y) (weightsOf miss y) (deigs G y.length)
      (llas.map G.pow10) ⟨G.big, nat 0, none⟩).lam _) (gcvSweep G (cleanOf miss y) (weightsOf miss y)
      (deigs G y.length) (llas.map G.pow10) ⟨G.big, nat 0, none⟩).lam = _
  rw [← hl, ws2d_masked hM (SuppIn.refl _), ws2d_shift (hC lopt hlpos) c, hz]

/-- robust = false, whole-output form: if some grid score beats `big` (or fewer than 5 cells are
    valid) the output on the shifted data is the shifted output -/
theorem wcv_shift_nonrobust' (G : GFns α) (miss : α → Bool) (y llas : List α) (c : α)
    (hpow : ∀ l ∈ llas, 0 < G.pow10 l) (hsq : G.sqrtw 0 = 0)
    (hbeat : ∃ s ∈ llas.map G.pow10,
      (gcvScore G (cleanOf miss y) (weightsOf miss y) (deigs G y.length) s).1 < G.big) :
    wcv G (fun x => miss (x - c)) (y.map (· + c)) llas false = shiftOut c (wcv G miss y llas false) := by
  by_cases hc : 4 < countValid miss y
  · have hok : wcv G miss y llas false = .ok (ws2d (cleanOf miss y)
        (gcvSweep G (cleanOf miss y) (weightsOf miss y) (deigs G y.length) (llas.map G.pow10)
          ⟨G.big, nat 0, none⟩).lam (weightsOf miss y))
        (gcvSweep G (cleanOf miss y) (weightsOf miss y) (deigs G y.length) (llas.map G.pow10)
          ⟨G.big, nat 0, none⟩).lam := by
      rw [C05.wcv_nonrobust_eq, if_pos hc]
    have h0 : (gcvSweep G (cleanOf miss y) (weightsOf miss y) (deigs G y.length) (llas.map G.pow10)
          ⟨G.big, nat 0, none⟩).lam ≠ 0 := by
      obtain ⟨_, _, h3 | ⟨k, hk, hr, _, _⟩⟩ := C05.gcvSweep_spec G (cleanOf miss y) (weightsOf miss y)
        (deigs G y.length) (llas.map G.pow10) ⟨G.big, nat 0, none⟩
      · obtain ⟨s, hs, hlt⟩ := hbeat
        exact absurd hlt (h3.2 s hs)
      · rw [hr]
        have := List.getElem_mem hk
        rw [List.mem_map] at this
        obtain ⟨l, hl, e⟩ := this
        show (llas.map G.pow10)[k] ≠ 0
        rw [← e]; exact (hpow l hl).ne'
    rw [wcv_shift_nonrobust G miss y llas c hpow hsq _ _ hok h0, hok]
    rfl
  · have h1 : wcv G miss y llas false = .passthrough := (C02.wcv_passthrough_iff _ _ _ _ _).2 (by omega)
    rw [(wcv_shift_passthrough G miss y llas c false).2 h1, h1]
    rfl

/-- every robust weight vector in force (before each of the four iterations and at the final
    fit) leaves at least two cells with positive weight -/
def RobustWeightsOK (G : GFns α) (miss : α → Bool) (y llas : List α) : Prop :=
  ∀ j ≤ 4, ∀ st,
    grun G (cleanOf miss y) (weightsOf miss y) (deigs G (cleanOf miss y).length) (llas.map G.pow10)
      true (sumF (weightsOf miss y)) j 0 (gstate0 G (cleanOf miss y)) = some st →
    TwoPos (mul2 (weightsOf miss y) st.2.1)

/-- with the guard of the repaired re-weighting step this is a theorem: two valid cells suffice -/
theorem robustWeightsOK (G : GFns α) (miss : α → Bool) (y llas : List α) (hv : 2 ≤ countValid miss y) :
    RobustWeightsOK G miss y llas := by
  intro j _ st hst
  apply grun_twoPos G _ _ _ j 0 _ st _ hst
  show TwoPos (mul2 (weightsOf miss y) ((cleanOf miss y).map fun _ => (nat 1 : α)))
  rw [mul2_ones' _ _ (by simp)]
  exact C05.twoPos_weightsOf miss y hv

/-- robust = true: same outcome, same λ, curve shifted — no side condition on the run -/
theorem wcv_shift_robust (G : GFns α) (miss : α → Bool) (y llas : List α) (c : α)
    (hpow : ∀ l ∈ llas, 0 < G.pow10 l) (hsq : G.sqrtw 0 = 0) :
    wcv G (fun x => miss (x - c)) (y.map (· + c)) llas true = shiftOut c (wcv G miss y llas true) := by
  rw [wcv_unfold, wcv_unfold, countValid_shift, weightsOf_shift]
  by_cases hc : 4 < countValid miss y
  · rw [if_pos hc, if_pos hc]
    have hn : 4 ≤ (cleanOf miss y).length := by
      have := countValid_le_length miss y; simp; omega
    have hM := cleanOf_shift_masked miss y c
    have h2 := C05.twoPos_weightsOf miss y (by omega)
    have hsel := gcvSelect_shift_robust G c hM hsq llas hn (by simp) (weightsOf_nonneg miss y) hpow h2
    rw [hsel]
    cases hs : gcvSelect G (cleanOf miss y) (weightsOf miss y) llas true with
    | none => rfl
    | some r =>
      obtain ⟨l, rwts⟩ := r
      simp only [outOf_some, shiftOut]
      have hC := C05.gcvSelect_robust_inContract G _ _ llas l rwts hn (by simp)
        (weightsOf_nonneg miss y) h2 hpow hs
      obtain ⟨rw, _, hrw⟩ := C05.gcvSelect_weights G _ _ llas true l rwts hs
      rw [ws2d_masked hM (by rw [hrw]; exact suppIn_mul2 _ _), ws2d_shift hC c]
  · rw [if_neg hc, if_neg hc]; rfl

/-- robust = true, valid cells on a line: the curve is the line (no assumption on `G` beyond a
    positive grid; compare `C05.wcv_affine_robust`, which also identifies the final weights) -/
theorem wcv_affine_robust (G : GFns α) (miss : α → Bool) (y llas : List α) (a b : α) (z : List α)
    (lopt : α) (hpow : ∀ l ∈ llas, 0 < G.pow10 l)
    (hline : ∀ i (hi : i < y.length), miss y[i] = false → y[i] = a + b * (i : α))
    (h : wcv G miss y llas true = .ok z lopt) : z = lineList a b y.length := by
  obtain ⟨rw, _, _, hz, hC⟩ := C05.wcv_robust_inContract G miss y llas z lopt hpow h
  rw [hz]
  exact curve_affine_of_weights_clean miss y _ lopt a b hC
    (supp_of_suppIn miss y _ (suppIn_mul2 _ _)) hline

theorem wcvp_affine_robust (G : GFns α) (miss : α → Bool) (y : List α) (p : α) (llas : List α)
    (a b : α) (z : List α) (lopt : α) (hpow : ∀ l ∈ llas, 0 < G.pow10 l) (hp0 : 0 < p) (hp1 : p < 1)
    (hline : ∀ i (hi : i < y.length), miss y[i] = false → y[i] = a + b * (i : α))
    (h : wcvp G miss y p llas true = .ok z lopt) : z = lineList a b y.length := by
  obtain ⟨rw, _, hz, hC⟩ := C05.wcvp_robust_inContract G miss y p llas z lopt hpow h
  rw [hz]
  have := expectile_affine hC p hp0 hp1 a b (by
    intro i hi
    have hw : fn (weightsOf miss y) i ≠ 0 := suppIn_mul2 _ _ i hi
    obtain ⟨hl, hm⟩ := weightsOf_ne_zero miss y i hw
    rw [fn_cleanOf miss y i hl, hm]
    simpa using hline i hl hm)
  simpa using this

/-! ### 5. the asymmetric kernels under offsets

The unconditional statement

    expectile (y.map (· + c)) w lam p = (expectile y w lam p).map (· + c)          (*)
    pgu (fun x => miss (x − c)) (y.map (· + c)) lam p = (pgu miss y lam p).map (·.map (· + c))

cannot be derived for the algorithm as written: the loop starts from the ZERO curve, the first
weights depend on the sign of `y_i − 0`, which a shift changes, so the two runs follow different
sequences of iterates, and the loop is cut after 10 passes whether or not it has converged.
What holds is: the expectile
equations have at most one solution (proved here, no hypothesis), the shifted solution solves
the shifted equations, hence if both runs reach their fixed point, (*) holds. -/

/-- uniqueness for the expectile equations, at the level of functions -/
theorem expectileEq_unique (n : ℕ) (yf wf : ℕ → α) (lam p : α) (hlam : 0 < lam) (hp0 : 0 < p)
    (hp1 : p < 1) (hw : ∀ i < n, 0 ≤ wf i) (a b : ℕ) (hab : a < b) (hb : b < n) (hwa : 0 < wf a)
    (hwb : 0 < wf b) (z z' : ℕ → α)
    (hz : NormalEq n yf (fun i => wf i * (if z i < yf i then p else 1 - p)) lam z)
    (hz' : NormalEq n yf (fun i => wf i * (if z' i < yf i then p else 1 - p)) lam z') :
    ∀ i < n, z i = z' i :=
  Smooth.expectileEq_unique n yf wf lam p hlam hp0 hp1 hw a b hab hb hwa hwb z z' hz hz'

/-- two full-length fixed points of "re-weight, re-fit" coincide -/
theorem expectile_fix_unique (h : InContract y w lam) (p : α) (hp0 : 0 < p) (hp1 : p < 1)
    (z z' : List α) (hz : z = ws2d y lam (asymW p w y z)) (hz' : z' = ws2d y lam (asymW p w y z'))
    (hl : z.length = y.length) (hl' : z'.length = y.length) : z = z' :=
  Smooth.expectile_fix_unique h p hp0 hp1 z z' hz hz' hl hl'

theorem expectile_shift_of_converged (h : InContract y w lam) (p : α) (hp0 : 0 < p) (hp1 : p < 1)
    (c : α)
    (hstop1 : ∃ j < 10, iter y w lam p (zerosLike y) (j + 1) = iter y w lam p (zerosLike y) j)
    (hstop2 : ∃ j < 10, iter (y.map (· + c)) w lam p (zerosLike (y.map (· + c))) (j + 1) =
      iter (y.map (· + c)) w lam p (zerosLike (y.map (· + c))) j) :
    expectile (y.map (· + c)) w lam p = (expectile y w lam p).map (· + c) := by
  have h' := h.map (· + c)
  have f1 := (C03.expectile_fixed_point h p hp0 hp1 hstop1).1
  have f2 := (C03.expectile_fixed_point h' p hp0 hp1 hstop2).1
  have l1 := expectile_length y w lam p h.wlen
  have l2 := expectile_length (y.map (· + c)) w lam p h'.wlen
  exact Smooth.expectile_fix_unique h' p hp0 hp1 _ _ f2
    (expectile_fix_shift h p hp0 hp1 c _ l1 f1) l2 (by simp [l1])

theorem pgu_shift_partial (miss : α → Bool) (y : List α) (lam p c : α) (hn : 4 ≤ y.length)
    (hlam : 0 < lam) (hp0 : 0 < p) (hp1 : p < 1)
    (hstop1 : ∃ j < 10,
      iter (cleanOf miss y) (weightsOf miss y) lam p (zerosLike (cleanOf miss y)) (j + 1) =
      iter (cleanOf miss y) (weightsOf miss y) lam p (zerosLike (cleanOf miss y)) j)
    (hstop2 : ∃ j < 10,
      iter (cleanOf (fun x => miss (x - c)) (y.map (· + c)))
        (weightsOf (fun x => miss (x - c)) (y.map (· + c))) lam p
        (zerosLike (cleanOf (fun x => miss (x - c)) (y.map (· + c)))) (j + 1) =
      iter (cleanOf (fun x => miss (x - c)) (y.map (· + c)))
        (weightsOf (fun x => miss (x - c)) (y.map (· + c))) lam p
        (zerosLike (cleanOf (fun x => miss (x - c)) (y.map (· + c)))) j) :
    pgu (fun x => miss (x - c)) (y.map (· + c)) lam p = (pgu miss y lam p).map (·.map (· + c)) := by
  by_cases hv : 2 ≤ countValid miss y
  · have hM := cleanOf_shift_masked miss y c
    rw [C02.pgu_eq_some miss y lam p hlam.ne' hv,
      C02.pgu_eq_some _ _ lam p hlam.ne' (by rw [countValid_shift]; exact hv), weightsOf_shift,
      expectile_masked hM]
    have hz : zerosLike (cleanOf (fun x => miss (x - c)) (y.map (· + c))) =
        zerosLike ((cleanOf miss y).map (· + c)) := zerosLike_congr _ _ (by simp)
    rw [weightsOf_shift, hz] at hstop2
    simp only [iter_masked hM] at hstop2
    rw [expectile_shift_of_converged (inContract_clean miss y lam hn hlam hv) p hp0 hp1 c hstop1 hstop2]
    rfl
  · have h1 : pgu miss y lam p = none := by
      rw [C02.pgu_passthrough_iff]; right; omega
    have h2 : pgu (fun x => miss (x - c)) (y.map (· + c)) lam p = none := by
      rw [C02.pgu_passthrough_iff, countValid_shift]; right; omega
    rw [h1, h2]; rfl

/-! ### non-vacuity -/

/-- a series with one gap whose valid cells lie on the line 1 + 2·i -/
def yq : List ℚ := [1, 3, -3000, 7, 9, 11]
def missq : ℚ → Bool := fun x => decide (x = -3000)

theorem yq_line : ∀ i (hi : i < yq.length), missq yq[i] = false → yq[i] = 1 + 2 * (i : ℚ) := by
  intro i hi
  simp only [yq, List.length_cons, List.length_nil] at hi
  interval_cases i <;> simp [yq, missq] <;> norm_num

theorem yq_count : countValid missq yq = 5 := by
  norm_num [countValid, List.filter, yq, missq]

/-- hypotheses of `gu_affine`, `pgu_affine`, `gu_shift`, `gu_reverse` -/
example : 4 ≤ yq.length ∧ (0 : ℚ) < 7 ∧ 2 ≤ countValid missq yq ∧ (0 : ℚ) < 1 / 10 ∧ (1 / 10 : ℚ) < 1 := by
  refine ⟨by decide, by norm_num, by rw [yq_count]; omega, by norm_num, by norm_num⟩

/-- … so the gap is filled on the line -/
example : gu missq yq 7 = some (lineList 1 2 6) :=
  gu_affine missq yq 7 1 2 (by decide) (by norm_num) (by rw [yq_count]; omega) yq_line

/-- the hypothesis `4 ≤ n` of `gu_shift` cannot be dropped: at n = 3 the core is not the
    penalised least-squares solve (its rows do not annihilate constants) -/
example : gu (fun x : ℚ => (fun _ => false) (x - 1)) (([0, 0, 0] : List ℚ).map (· + 1)) 1 ≠
    (gu (fun _ => false) ([0, 0, 0] : List ℚ) 1).map (·.map (· + 1)) := by decide +kernel

/-- the hypothesis `0 ≤ λ` of `gu_shift` cannot be dropped: at λ = −1 the first pivot is 0 -/
example : gu (fun x : ℚ => (fun _ => false) (x - 1)) (([0, 0, 0, 0] : List ℚ).map (· + 1)) (-1) ≠
    (gu (fun _ => false) ([0, 0, 0, 0] : List ℚ) (-1)).map (·.map (· + 1)) := by decide +kernel

/-- hypotheses of `optv_shift`, `optv_reverse`: a positive `pow10` -/
example : ∀ x, 0 < C04.Fq.pow10 x := fun _ => by simp [C04.Fq]

/-- hypotheses of `wcv_shift_robust` (and of `wcv_affine_robust_ok`) -/
example : RobustWeightsOK C05.Gq missq yq [1, 2] :=
  robustWeightsOK C05.Gq missq yq [1, 2] (by rw [yq_count]; omega)

example : ∀ l ∈ ([1, 2] : List ℚ), 0 < C05.Gq.pow10 l := by
  intro l hl; simp at hl; rcases hl with rfl | rfl <;> norm_num [C05.Gq]

example : C05.Gq.sqrtw 0 = 0 := rfl

/-- hypotheses of `expectile_shift_of_converged`: both runs stop early for data on a line -/
example : InContract (α := ℚ) [1, 3, 5, 7, 9] [1, 1, 0, 1, 1] 7 ∧
    (∃ j < 10, iter [1, 3, 5, 7, 9] [1, 1, 0, 1, 1] (7 : ℚ) (1 / 10) (zerosLike [1, 3, 5, 7, 9]) (j + 1) =
      iter [1, 3, 5, 7, 9] [1, 1, 0, 1, 1] (7 : ℚ) (1 / 10) (zerosLike [1, 3, 5, 7, 9]) j) := by
  have hc : InContract (α := ℚ) [1, 3, 5, 7, 9] [1, 1, 0, 1, 1] 7 :=
    { len := by decide
      wlen := by decide
      lam_pos := by norm_num
      w_nonneg := by
        intro x hx
        simp only [List.mem_cons, List.not_mem_nil, or_false] at hx
        rcases hx with rfl | rfl | rfl | rfl | rfl <;> norm_num
      two_pos := ⟨0, 1, by decide, by decide, by norm_num [fn], by norm_num [fn]⟩ }
  refine ⟨hc, C03.early_stop_of_line hc (1 / 10) (by norm_num) (by norm_num) 1 2 ?_⟩
  intro i hi
  have hl : i < 5 := by simpa using fn_ne_zero_lt _ i hi
  interval_cases i <;> norm_num [fn]

end Hdc.C06
