import Hdc.Model.RoundAcc
import Hdc.Props.C17
import Mathlib.Algebra.Order.Group.Unbundled.Int
/-
C17round  When is the exact rolling sum what a float32 accumulator computes?

`ops/stats.py::rolling_sum` accumulates `yy[ii] += xx[jj]` in a float32 array; `Hdc.rollingSum` (and with it every theorem
of C17, e.g. `rolling_all_valid`: "the cell is the exact window sum") sums in `Int`.  `Hdc.rollingSumR R` is the model with a
rounding `R.rnd` after every addition (Hdc/Model/RoundAcc.lean).  This file states when the two agree
(`window · M ≤ R.B`, M a bound of the valid data), shows that the bound is needed, and instantiates it for binary32.
`|x| ≤ M` is written `x.natAbs ≤ M`; the `abs` forms are given alongside.
-/
namespace Hdc.C17round
open Hdc

/-- **Exactness below the bound.**  If the valid cells are bounded by `M` in absolute value and `window · M` does not exceed
    the exactness range of the accumulator format, rounding after every addition changes nothing: the rounding-aware model
    is the exact model, and all of C17 applies to what the float accumulator computes.
    (No hypothesis on `nodata`, on the window (0 and `> len(xx)` included), or on the cells equal to `nodata`.) -/
theorem rollingSumR_eq_exact (R : IntRound) (xx : List Int) (window M : Nat) (nodata : Int)
    (hB : window * M ≤ R.B) (hM : ∀ x ∈ xx, x ≠ nodata → x.natAbs ≤ M) :
    rollingSumR R xx window nodata = rollingSum xx window nodata := by
  unfold rollingSumR rollingSum
  apply List.map_congr_left
  intro ii _
  by_cases h1 : ii + 1 < window
  · simp only [if_pos h1]
  · simp only [if_neg h1]
    split
    · rfl
    · rw [foldl_add_sum, Int.zero_add]
      apply accR_exact_of_bound R _ M
      · intro x hx
        rw [List.mem_filter] at hx
        exact hM x (List.mem_of_mem_drop (List.mem_of_mem_take hx.1)) (by simpa using hx.2)
      · refine Nat.le_trans (Nat.mul_le_mul_right M ?_) hB
        refine Nat.le_trans (List.length_filter_le _ _) ?_
        rw [List.length_take]
        exact Nat.min_le_left _ _

/-- the same with `|·|` -/
theorem rollingSumR_eq_exact_abs (R : IntRound) (xx : List Int) (window : Nat) (M : Int) (nodata : Int)
    (hB : (window : Int) * M ≤ R.B) (hM : ∀ x ∈ xx, x ≠ nodata → |x| ≤ M) :
    rollingSumR R xx window nodata = rollingSum xx window nodata := by
  by_cases hM0 : 0 ≤ M
  · refine rollingSumR_eq_exact R xx window M.toNat nodata ?_ (fun x hx hn => ?_)
    · have : ((window * M.toNat : Nat) : Int) ≤ R.B := by
        push_cast; rw [Int.toNat_of_nonneg hM0]; exact hB
      exact_mod_cast this
    · have := hM x hx hn
      rw [Int.abs_eq_natAbs] at this
      omega
  · -- a negative bound: there is no valid cell at all
    refine rollingSumR_eq_exact R xx window 0 nodata (by simp) (fun x hx hn => ?_)
    have := hM x hx hn
    have := abs_nonneg x
    omega

/-- the accessor form (the first `window - 1` positions dropped) -/
theorem rollingSumAccR_eq_exact (R : IntRound) (xx : List Int) (window M : Nat) (nodata : Int)
    (hB : window * M ≤ R.B) (hM : ∀ x ∈ xx, x ≠ nodata → x.natAbs ≤ M) :
    rollingSumAccR R xx window nodata = rollingSumAcc xx window nodata := by
  rw [rollingSumAccR, rollingSumAcc, rollingSumR_eq_exact R xx window M nodata hB hM]

/-- Hence `rolling_all_valid` for the ROUNDED accumulator, under the bound: a complete window without nodata yields the
    exact window sum. -/
theorem rollingR_all_valid (R : IntRound) (xx : List Int) (w ii M : Nat) (nd : Int) (hw : 1 ≤ w)
    (h1 : w ≤ ii + 1) (h2 : ii < xx.length) (hB : w * M ≤ R.B) (hM : ∀ x ∈ xx, x ≠ nd → x.natAbs ≤ M)
    (hv : ∀ v ∈ C17.window xx w ii, v ≠ nd) :
    (rollingSumR R xx w nd)[ii]? = some (C17.window xx w ii).sum := by
  rw [rollingSumR_eq_exact R xx w M nd hB hM]
  exact C17.rolling_all_valid xx w ii nd hw h1 h2 hv

/-! ### the bound is needed: a toy format -/

-- the toy format `IntRound.toy`: integers up to 4 exact, above that only the even ones (Hdc/Model/RoundAcc.lean)

/-- NEGATIVE witness: window 2, data bounded by M = 3, `2 · 3 = 6 > 4 = B`: the rounded accumulator returns 4, the exact
    model 5. -/
theorem toy_differs :
    rollingSumR IntRound.toy [3, 2] 2 (-1) = [-1, 4] ∧ rollingSum [3, 2] 2 (-1) = [-1, 5] := by decide

/-- the bound is sharp for the toy format: `window · M = B + 1` fails (window 1, M = 5), `window · M = B` is exact for ALL data
    (`rollingSumR_eq_exact`) -/
theorem toy_sharp : rollingSumR IntRound.toy [5] 1 (-1) ≠ rollingSum [5] 1 (-1) := by decide

example (xx : List Int) (h : ∀ x ∈ xx, x ≠ (-1) → x.natAbs ≤ 2) :
    rollingSumR IntRound.toy xx 2 (-1) = rollingSum xx 2 (-1) :=
  rollingSumR_eq_exact IntRound.toy xx 2 2 (-1) (by decide) h

/-- so the conclusion of `rolling_all_valid` ("the exact window sum") FAILS for the rounded accumulator outside the bound -/
theorem toy_all_valid_fails : (rollingSumR IntRound.toy [3, 2] 2 (-1))[1]? ≠ some (C17.window [3, 2] 2 1).sum := by decide

/-! ### binary32: B = 2^24 -/

/-- **int16 data.**  For every format exact up to 2^24 (binary32) and data of absolute value ≤ 32768 (every int16 value;
    nodata cells excepted, they are not added), every window ≤ 512 is summed exactly: 512 · 32768 = 2^24. -/
theorem rollingSumR_int16_exact (R : IntRound) (hR : B32 ≤ R.B) (xx : List Int) (window : Nat) (nodata : Int)
    (hw : window ≤ 512) (h16 : ∀ x ∈ xx, x ≠ nodata → x.natAbs ≤ 32768) :
    rollingSumR R xx window nodata = rollingSum xx window nodata := by
  refine rollingSumR_eq_exact R xx window 32768 nodata ?_ h16
  have : window * 32768 ≤ 512 * 32768 := Nat.mul_le_mul_right _ hw
  have h24 : B32 = 512 * 32768 := by decide
  omega

/-- in general for binary32: windows up to `2^24 / M` -/
theorem rollingSumR_f32_exact (xx : List Int) (window M : Nat) (nodata : Int) (hB : window * M ≤ 2 ^ 24)
    (hM : ∀ x ∈ xx, x ≠ nodata → x.natAbs ≤ M) :
    rollingSumR IntRound.f32 xx window nodata = rollingSum xx window nodata :=
  rollingSumR_eq_exact IntRound.f32 xx window M nodata hB hM

/-- for a float64 accumulator (not what `rolling_sum` uses; `mean_grp`, `do_mean` do): windows up to `2^53 / M` -/
theorem rollingSumR_f64_exact (xx : List Int) (window M : Nat) (nodata : Int) (hB : window * M ≤ 2 ^ 53)
    (hM : ∀ x ∈ xx, x ≠ nodata → x.natAbs ≤ M) :
    rollingSumR IntRound.f64 xx window nodata = rollingSum xx window nodata :=
  rollingSumR_eq_exact IntRound.f64 xx window M nodata hB hM

/-! ### the audit's input on the integer-level binary32 rounding `IntRound.f32` (= `rne 24`) -/

set_option maxRecDepth 100000 in
/-- int16 input `[30000]*1000 + [1]*1000`, window 2000 (2000 · 30000 > 2^24): the float32 accumulator reaches 3.0e7 after
    the first 1000 cells (30000·k is representable up to 2^25) and then absorbs each `+ 1` (ties to even); the exact sum
    is 30001000. -/
theorem audit_accR :
    accR IntRound.f32 (List.replicate 1000 30000 ++ List.replicate 1000 1) = 30000000 ∧
    (List.replicate 1000 30000 ++ List.replicate 1000 1).sum = 30001000 := by
  constructor <;> decide +kernel

set_option maxRecDepth 100000 in
theorem audit_rolling :
    (rollingSumR IntRound.f32 (List.replicate 1000 30000 ++ List.replicate 1000 1) 2000 (-9999))[1999]?
      = some 30000000 ∧
    (rollingSum (List.replicate 1000 30000 ++ List.replicate 1000 1) 2000 (-9999))[1999]? = some 30001000 := by
  constructor <;> decide +kernel

/-- the smallest such input: `2^24 + 1` is not a binary32 number -/
theorem f32_smallest : rollingSumR IntRound.f32 [16777216, 1] 2 (-1) = [-1, 16777216] ∧
    rollingSum [16777216, 1] 2 (-1) = [-1, 16777217] := by
  constructor <;> decide +kernel

end Hdc.C17round
