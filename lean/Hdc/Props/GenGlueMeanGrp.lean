import Hdc.Gen.GlueMeanGrp
import Hdc.Lemmas.GenGlue
import Hdc.Model.GlueExt
/-
GenGlueMeanGrp  The GENERATED translation of the accessor `PixelAlgorithms.mean_grp` (Hdc/Gen/GlueMeanGrp.lean) equals the
decision function `Hdc.meanGrpAcc` (Hdc/Model/GlueExt.lean, new: no hand model existed), and the precedence of the `nodata`
argument over the `nodata` attribute.
-/
namespace Hdc.GenGlue
open Hdc Hdc.PyGlue Hdc.Gen.Glue

set_option linter.unusedSimpArgs false

variable {Grp V Res : Type}

/-- the translated accessor: the model's outcome, the kernel applied to the model's arguments -/
theorem gen_mean_grp_acc_eq_model (ct : Bool) (an : Option V) (a16 : Grp → List Int) (tsz : Int) (us : List Int → Int)
    (ap : List Int → Int → Option V → Res) (g : Grp) (nd : Option V) :
    mean_grp_acc ct an a16 tsz us ap g nd
      = (meanGrpAcc ct nd an (a16 g) tsz (us (a16 g))).map fun r => ap r.1 r.2.1 (some r.2.2) := by
  unfold mean_grp_acc meanGrpAcc resolveNodata
  rcases ct with _ | _ <;> rcases nd with _ | v <;> rcases an with _ | w
  all_goals glue_eval
  all_goals simp only [len, decide_eq_true_eq, decide_not, Bool.not_eq_eq_eq_not, Bool.not_true, decide_eq_false_iff_not,
    ne_eq, Except.map]
  all_goals first
    | rfl
    | (by_cases h : ((a16 g).length : Int) = tsz <;> simp only [h, not_true_eq_false, not_false_eq_true, decide_true,
        decide_false, Bool.false_eq_true, if_false, if_true] <;> rfl)

/-- precedence: an argument wins over the attribute; without an argument the attribute is used; neither: ValueError -/
theorem resolveNodata_arg (v : V) (attr : Option V) : resolveNodata (some v) attr = some v := rfl
theorem resolveNodata_attr (attr : Option V) : resolveNodata none attr = attr := rfl

theorem gen_mean_grp_acc_nodata_precedence (an : Option V) (a16 : Grp → List Int) (us : List Int → Int)
    (ap : List Int → Int → Option V → Res) (g : Grp) (v : V) :
    mean_grp_acc true an a16 (a16 g).length us ap g (some v) = .ok (ap (a16 g) (us (a16 g)) (some v)) := by
  rw [gen_mean_grp_acc_eq_model]
  simp [meanGrpAcc, resolveNodata, Except.map]

theorem gen_mean_grp_acc_nodata_attribute (a16 : Grp → List Int) (us : List Int → Int)
    (ap : List Int → Int → Option V → Res) (g : Grp) (w : V) :
    mean_grp_acc true (some w) a16 (a16 g).length us ap g none = .ok (ap (a16 g) (us (a16 g)) (some w)) := by
  rw [gen_mean_grp_acc_eq_model]
  simp [meanGrpAcc, resolveNodata, Except.map]

theorem gen_mean_grp_acc_no_nodata (a16 : Grp → List Int) (tsz : Int) (us : List Int → Int)
    (ap : List Int → Int → Option V → Res) (g : Grp) :
    mean_grp_acc true (none : Option V) a16 tsz us ap g none = .error .valueError := by
  rw [gen_mean_grp_acc_eq_model]
  simp [meanGrpAcc, resolveNodata, Except.map]

/-- non-vacuity -/
example : mean_grp_acc (Grp := List Int) (V := Int) (Res := List Int × Int × Option Int) true (some 7) id 3
    (fun l => (Hdc.Py.unique l).length) (fun a b c => (a, b, c)) [0, 1, 0] (some (-1)) = .ok ([0, 1, 0], 2, some (-1)) := by
  rw [gen_mean_grp_acc_eq_model]; rfl
example : mean_grp_acc (Grp := List Int) (V := Int) (Res := List Int × Int × Option Int) true (some 7) id 4
    (fun l => (Hdc.Py.unique l).length) (fun a b c => (a, b, c)) [0, 1, 0] (some (-1)) = .error .valueError := by
  rw [gen_mean_grp_acc_eq_model]; rfl

end Hdc.GenGlue
