import Hdc.Gen.SafeGammastdYxt
import Hdc.Gen.NumGammastdYxt
import Hdc.Lemmas.SafeGammastdYxt
import Hdc.Props.SafeGammastd
import Std.Tactic.Do
/-
SafeGammastdYxt  Safety of `hdc/algo/ops/stats.py::gammastd_yxt`, proved FROM THE SOURCE: `Hdc.Gen.Safe.gammastd_yxt`
(Hdc/Gen/SafeGammastdYxt.lean, written by the class `SafeS` of harness/py2lean_spi.py) is the statement-by-statement translation
plus the flag `bad`, set by (predicates: Hdc/PySafeS.lean, Hdc/PySafe.lean)
    `oob2 x ri ci`                          `x[ri, ci, :]`: `ri` is not a plane of `x` or `ci` not a column of THAT plane
    `oob2 y ri ci`                          `y[ri, ci, :] = nodata`, `y[ri, ci, :] = s[:]` (`y = np.full_like(x, …)`)
    `(Safe.gammastd … xt nodata cal_start cal_stop 0 0).2`   the call of `gammastd` on the pixel's series
    `oob s.size ti`                         `s[ti]` (read twice, stored once) for `ti in range(t)`
    `badLen (rd3 y ri ci).size s.size`      `y[ri, ci, :] = s[:]`: `s` has not the length of the series it replaces
(`r, c, t = x.shape`, the two `if p is None: p = e` with `e` = `0` / `t`, `np.full_like`, `xt != nodata`, `.sum()`, `* 1000`, `min`,
`max`, `np.round(s, 0, s)`, the scalar store `y[ri, ci, :] = nodata`: cannot raise, no check.)

The carrier of a cube is the ragged `Array (Array (Array α))`; `x.shape` is read off the first plane / the first series
(`shape3`).  A NumPy array is rectangular; the contract asks only for what the checks need:

  safe_gammastd_yxt_fst   (Safe.gammastd_yxt …).1 = Gen.NumKernels.gammastd_yxt …       every carrier, every input
  safe_gammastd_yxt_ok    the flag is false under `Contract` (`r, c, t = x.shape`):
      hcols   every plane has at least `c` columns
      hsteps  every pixel `(i, j)` of `range(r) × range(c)` whose series has a cell other than `nodata` has at least `t` steps
      hwin    for every such pixel `0 ≤ cal_start ≤ cal_stop ≤ len x[i, j, :]` (defaults `0`, `t`): the contract of `gammastd`
              (`SafeGammastd.safe_gammastd_ok`); for a rectangular cube: `0 ≤ cal_start ≤ cal_stop ≤ t`.
      (a pixel without any valid cell is filled with `nodata` without calling `gammastd`: nothing is asked of it)
  `example`s             instances of the contract, and for every hypothesis an input outside it with the flag set
-/
namespace Hdc.SafeGammastdYxt
open Hdc Hdc.Gen.NumKernels Hdc.GenNum Hdc.SafeL Hdc.SafeSimN Hdc.SafeGammastd Hdc.SafeSpi Std.Do

set_option mvcgen.warning false
set_option linter.unusedSimpArgs false
set_option linter.unusedTactic false
set_option linter.unreachableTactic false
set_option linter.unusedSectionVars false

/-- (i) the instrumented program is the translated source plus a flag -/
theorem safe_gammastd_yxt_fst {α : Type} [Add α] [Sub α] [Mul α] [Div α] [Neg α] [NatCast α] [LT α] [DecidableLT α]
    [IntCast α] (F : GamFns α) (digamma : α → α) (xtol rtol : α) (rnd : α → α) (x : Array (Array (Array α)))
    (nodata : α) (cal_start cal_stop : Option Int) :
    (Gen.Safe.gammastd_yxt F digamma xtol rtol rnd x nodata cal_start cal_stop).1
      = Gen.NumKernels.gammastd_yxt F digamma xtol rtol rnd x nodata cal_start cal_stop := by
  unfold Gen.Safe.gammastd_yxt Gen.NumKernels.gammastd_yxt
  simp only [safe_gammastd_fst]
  safe_sim

variable {α : Type} [Field α] [LinearOrder α] [IsStrictOrderedRing α]

/-- the contract of `gammastd_yxt` (see the header); `r, c, t = x.shape` are the sizes of the cube, of its first plane and of
    its first series -/
structure Contract (x : Array (Array (Array α))) (nodata : α) (cal_start cal_stop : Option Int) : Prop where
  hcols : ∀ i : ℕ, i < x.size → shape3 x 1 ≤ (x.getD i #[]).size
  hsteps : ∀ i j : ℕ, i < x.size → j < shape3 x 1 →
    npCount ((rd3 x i j).map fun e => !(eqv e nodata)) ≠ 0 → shape3 x 2 ≤ (rd3 x i j).size
  hwin : ∀ i j : ℕ, i < x.size → j < shape3 x 1 →
    npCount ((rd3 x i j).map fun e => !(eqv e nodata)) ≠ 0 →
    0 ≤ cal_start.getD 0 ∧ cal_start.getD 0 ≤ cal_stop.getD (shape3 x 2) ∧
      cal_stop.getD (shape3 x 2) ≤ ((rd3 x i j).size : Int)

/-- (ii) under the contract the flag is false -/
theorem safe_gammastd_yxt_ok (F : GamFns α) (digamma : α → α) (xtol rtol : α) (rnd : α → α)
    (x : Array (Array (Array α))) (nodata : α) (cal_start cal_stop : Option Int)
    (hc : Contract x nodata cal_start cal_stop) :
    (Gen.Safe.gammastd_yxt F digamma xtol rtol rnd x nodata cal_start cal_stop).2 = false := by
  generalize hres : Gen.Safe.gammastd_yxt F digamma xtol rtol rnd x nodata cal_start cal_stop = res
  -- the facts the checks need, for a pixel `(i, j)` inside `range(r) × range(c)` (`r, c, t = x.shape`)
  have hx0 : shape3 x 0 = x.size := rfl
  have HC : ∀ i j : ℕ, (i : ℤ) < (shape3 x 0 : ℕ) → (j : ℤ) < (shape3 x 1 : ℕ) →
      i < x.size ∧ j < (x.getD i #[]).size := by
    intro i j hi hj
    have hi' : i < x.size := by rw [hx0] at hi; exact_mod_cast hi
    exact ⟨hi', lt_of_lt_of_le (by exact_mod_cast hj) (hc.hcols i hi')⟩
  have HX : ∀ i j : ℕ, (i : ℤ) < (shape3 x 0 : ℕ) → (j : ℤ) < (shape3 x 1 : ℕ) → oob2 x (i : ℤ) (j : ℤ) = false :=
    fun i j hi hj => oob2_nat x i j (HC i j hi hj).1 (HC i j hi hj).2
  have HY : ∀ (y : Array (Array (Array α))) (i j : ℕ), SameShape y x → (i : ℤ) < (shape3 x 0 : ℕ) →
      (j : ℤ) < (shape3 x 1 : ℕ) → oob2 y (i : ℤ) (j : ℤ) = false :=
    fun y i j hS hi hj => hS.oob2 i j (HC i j hi hj).1 (HC i j hi hj).2
  have HS : ∀ (y : Array (Array (Array α))) (i j : ℕ), SameShape y x →
      (rd3 y (i : ℤ) (j : ℤ)).size = (rd3 x (i : ℤ) (j : ℤ)).size := fun y i j hS => hS.2.2 i j
  have HW : ∀ (y : Array (Array (Array α))) (row : Array α) (i j : ℕ), SameShape y x → (i : ℤ) < (shape3 x 0 : ℕ) →
      (j : ℤ) < (shape3 x 1 : ℕ) → row.size = (rd3 x (i : ℤ) (j : ℤ)).size → SameShape (wr3 y (i : ℤ) (j : ℤ) row) x :=
    fun y row i j hS hi hj hrow => hS.wr3 i j row (HC i j hi hj).1 (HC i j hi hj).2 hrow
  have HG : ∀ i j : ℕ, (i : ℤ) < (shape3 x 0 : ℕ) → (j : ℤ) < (shape3 x 1 : ℕ) →
      ¬ npCount ((rd3 x (i : ℤ) (j : ℤ)).map fun e => !(eqv e nodata)) = 0 →
      (Gen.Safe.gammastd F digamma xtol rtol (rd3 x (i : ℤ) (j : ℤ)) nodata (cal_start.getD 0)
        (cal_stop.getD (shape3 x 2 : ℕ)) (nat 0) (nat 0)).2 = false :=
    fun i j hi hj hn => safe_gammastd_ok _ _ _ _ _ _ _ _ _ _
      (fun _ _ => hc.hwin i j (HC i j hi hj).1 (by exact_mod_cast hj) hn)
  have HT : ∀ i j k : ℕ, (i : ℤ) < (shape3 x 0 : ℕ) → (j : ℤ) < (shape3 x 1 : ℕ) →
      ¬ npCount ((rd3 x (i : ℤ) (j : ℤ)).map fun e => !(eqv e nodata)) = 0 → (k : ℤ) < (shape3 x 2 : ℕ) →
      oob (rd3 x (i : ℤ) (j : ℤ)).size (k : ℤ) = false := by
    intro i j k hi hj hn hk
    have := hc.hsteps i j (HC i j hi hj).1 (by exact_mod_cast hj) hn
    exact oob_eq_false (by omega) (by omega)
  apply Id.of_wp_run_eq hres
  mvcgen invariants
  -- planes, state `(bad, xt, s, y)`
  · ⇓⟨xs, s⟩ => ⌜s.1 = false ∧ SameShape s.2.2.2 x⌝
  -- columns
  · ⇓⟨xs, s⟩ => ⌜s.1 = false ∧ SameShape s.2.2.2 x⌝
  -- time steps, state `(bad, s)`
  · ⇓⟨xs, s⟩ => by
      py_name cur as co; py_name cur as ro
      exact ⌜s.1 = false ∧ s.2.size = (rd3 x ro co).size⌝
  all_goals
    pyn_ranges
    pyn_subst
    try simp (config := {zetaDelta := true}) only [decide_eq_true_eq, gt_iff_lt, Int.zero_add, ne_eq, true_and] at *
  all_goals first
    | exact SameShape.init x nodata
    | exact (‹_ = false ∧ SameShape _ x›).1
    | (casesm* _ ∧ _
       refine ⟨?_, ?_⟩
       · simp (disch := assumption) only [*, HX, HY, HG, HT, HS, Array.size_map, badLen_eq_false_iff, Bool.or_false, Bool.false_or,
           Bool.or_self]
       · first
           | assumption
           | exact HW _ _ _ _ ‹SameShape _ x› ‹_› ‹_› (by simp (disch := assumption) only [Array.size_map, HS, *])
           | simp only [size_wr, size_safe_gammastd, *])


/-! ### Non-vacuity and sharpness (ℚ, the toy instance `Gq`, `dgq` of Hdc/Props/SafeGammafit.lean; `round = id`) -/

private def yv (x : Array (Array (Array ℚ))) (cs ce : Option ℤ) : Bool :=
  (Gen.Safe.gammastd_yxt SafeGammafit.Gq SafeGammafit.dgq (1 / 1000) (1 / 1000) (fun v => v) x (-9999) cs ce).2

/-- in contract: one plane, two pixels (the series 1, 2, −1, 3 and a pixel without data), default window -/
example : yv #[#[#[1, 2, -1, 3], #[-9999, -9999, -9999, -9999]]] none none = false :=
  safe_gammastd_yxt_ok _ _ _ _ _ _ _ _ _
    ⟨fun i hi => by have hi' : i < 1 := hi
                    obtain rfl : i = 0 := by omega
                    decide,
     fun i j hi hj _ => by have hj' : j < 2 := hj
                           have hi' : i < 1 := hi
                           obtain rfl : i = 0 := by omega
                           obtain rfl | rfl : j = 0 ∨ j = 1 := by omega
                           all_goals decide,
     fun i j hi hj _ => by have hj' : j < 2 := hj
                           have hi' : i < 1 := hi
                           obtain rfl : i = 0 := by omega
                           obtain rfl | rfl : j = 0 ∨ j = 1 := by omega
                           all_goals decide⟩
example : Gen.Safe.gammastd_yxt SafeGammafit.Gq SafeGammafit.dgq (1 / 1000) (1 / 1000) (fun v => v)
    #[#[#[1, 2, -1, 3], #[-9999, -9999, -9999, -9999]]] (-9999) none none
    = (#[#[#[-125 / 2, -125, -9999, -375 / 2], #[-9999, -9999, -9999, -9999]]], false) := by decide +kernel
/-- a pixel without a valid cell: its (reversed, too long) window is not looked at -/
example : yv #[#[#[-9999, -9999]]] (some 5) (some 3) = false :=
  safe_gammastd_yxt_ok _ _ _ _ _ _ _ _ _
    ⟨fun i hi => by have hi' : i < 1 := hi
                    obtain rfl : i = 0 := by omega
                    decide,
     fun i j hi hj h => by have hj' : j < 1 := hj
                           have hi' : i < 1 := hi
                           obtain rfl : i = 0 := by omega
                           obtain rfl : j = 0 := by omega
                           exact absurd (by decide +kernel) h,
     fun i j hi hj h => by have hj' : j < 1 := hj
                           have hi' : i < 1 := hi
                           obtain rfl : i = 0 := by omega
                           obtain rfl : j = 0 := by omega
                           exact absurd (by decide +kernel) h⟩
/-- `hcols`: a second plane with fewer columns than the first (`x[1, 1, :]`) -/
example : yv #[#[#[1, 2, -1, 3], #[1, 2, -1, 3]], #[#[1, 2, -1, 3]]] none none = true := by decide +kernel
/-- `hsteps`: a pixel with fewer steps than the first one (`s[4]`); the window [0, 4) fits both series -/
example : yv #[#[#[1, 2, -1, 3, -9999], #[1, 2, -1, 3]]] none (some 4) = true := by decide +kernel
/-- `hwin`: a window that ends after the series, starts before 0, or is reversed -/
example : yv #[#[#[1, 2, -1, 3]]] none (some 5) = true := by decide +kernel
example : yv #[#[#[1, 2, -1, 3]]] (some (-1)) none = true := by decide +kernel
example : yv #[#[#[1, 2, -1, 3]]] (some 3) (some 2) = true := by decide +kernel
/-- the same windows inside the series: in contract -/
example : yv #[#[#[1, 2, -1, 3]]] (some 0) (some 4) = false := by decide +kernel

end Hdc.SafeGammastdYxt
