import Hdc.Lemmas.GenNumGammastdGrp
import Hdc.Gen.NumGammastdGrp
import Hdc.Props.GenNumGammastd
import Std.Tactic.Do
/-
GenNumGammastdGrp  The GENERATED translation of `ops/stats.py::gammastd_grp` (Hdc/Gen/NumGammastdGrp.lean, written by
harness/py2lean_spi.py from the current Python source; the NumPy mask idioms go through the combinators of Hdc/PyNpS.lean)
computes the hand model `Hdc.gammastdGrp` followed by `spiCell` (scale by 1000, saturate to int16, round).

  gen_gammastd_grp_eq_model   (gammastd_grp … xx groups numGroups nodata cal_indices yy0).toList
        = mergeOut (grpCell rnd nodata) (Hdc.gammastdGrp (brentRoot F …) xx groups numGroups nodata cal) yy0
      i.e. cell i = yy0[i] where the model has `none` (label ≥ numGroups: never written), otherwise
      `spiCell rnd (−32768) 32767 1000 nodata c` for the model's cell `c`.
  gen_gammastd_grp_eq_model_ndtri   the same under the stronger, simpler hypothesis `∀ p, F.ndtri p ≠ nodata`

Hypotheses (the contract of the gufunc) and why each is needed:
  hg   len(groups) = len(xx)      `xx[groups == grp]` (NumPy: IndexError otherwise; the combinators truncate)
  hy   len(yy) = len(xx)          the output core dimension `(n)` of the gufunc signature
  hrnd round(nodata) = nodata     `np.round(res, 0, res)` also rounds the sentinel cells; the model's `spiCell none` is
                                  `nodata` itself (nodata is an integer in every caller: the output is int16)
  hnd  no value of the model equals the sentinel   the source recognises "no value" by `res != nodata`; a standardised value
                                  that happened to equal `nodata` would be left unscaled (the model scales it).
The labels are natural numbers (the model's are; `groups == grp` never matches a negative label for `grp ≥ 0`), the rows of
`cal_indices` are `[start, stop]` with natural entries; a missing row reads as `(0, 0)` on both sides.

Method: `mvcgen`, one invariant for the loop over the groups (`GrpInv`, Hdc/Lemmas/GenNumGammastdGrp.lean: the buffer
holds the model's output for the groups done so far); the call of the translated `gammastd` is bridged by
`gen_gammastd_eq_model_arr` (`gen_gammastd_group`); the three paths of the body (`continue` for an all-nodata group,
scaling, no valid cell in the result) are `GrpInv.step_fill` / `GrpInv.step_set` with `scaled_cells'` / `unscaled_cells`.
-/
namespace Hdc.GenNum
open Hdc Hdc.Gen.NumKernels Std.Do
open Hdc.Spi (grpResult)

set_option mvcgen.warning false
set_option linter.unusedSimpArgs false
set_option linter.unusedTactic false
set_option linter.unreachableTactic false

section grp
variable {α : Type} [Field α] [LinearOrder α] [IsStrictOrderedRing α]

/-- the call `gammastd(xx[groups == grp], nodata, cal_indices[grp, 0], cal_indices[grp, 1])` of the translated
    `gammastd` computes the model's result for the group -/
theorem gen_gammastd_group (F : GamFns α) (digamma : α → α) (xtol rtol : α) (xx : List α) (groups : List ℕ)
    (nodata : α) (cal : List (ℕ × ℕ)) (p : ℕ) :
    Gen.NumKernels.gammastd F digamma xtol rtol (gatherGrp xx groups p).toArray nodata
        (rdI2 (calArr cal) (p : ℤ) 0) (rdI2 (calArr cal) (p : ℤ) 1) (nat 0) (nat 0)
      = ((grpResult (brentRoot F digamma xtol rtol) xx groups nodata cal p).map
          (fun o => o.getD nodata)).toArray := by
  rw [(rdI2_cal cal p).1, (rdI2_cal cal p).2, gen_gammastd_eq_model_arr]
  rfl

/-- The translated `gammastd_grp` writes, into the cells of the groups `0 … numGroups−1`, the model's grouped SPI
    scaled by 1000, saturated to the int16 range and rounded; the other cells keep their content. -/
theorem gen_gammastd_grp_eq_model (F : GamFns α) (digamma : α → α) (xtol rtol : α) (rnd : α → α)
    (xx : List α) (groups : List ℕ) (numGroups : ℕ) (nodata : α) (cal : List (ℕ × ℕ)) (yy0 : List α)
    (hg : groups.length = xx.length) (hy : yy0.length = xx.length)
    (hrnd : rnd nodata = nodata)
    (hnd : ∀ g < numGroups, some nodata ∉ grpResult (brentRoot F digamma xtol rtol) xx groups nodata cal g) :
    (Gen.NumKernels.gammastd_grp F digamma xtol rtol rnd xx.toArray (groupsArr groups) (numGroups : ℤ) nodata
        (calArr cal) yy0.toArray).toList
      = mergeOut (grpCell rnd nodata)
          (Hdc.gammastdGrp (brentRoot F digamma xtol rtol) xx groups numGroups nodata cal) yy0 := by
  generalize hres : Gen.NumKernels.gammastd_grp F digamma xtol rtol rnd xx.toArray (groupsArr groups)
    (numGroups : ℤ) nodata (calArr cal) yy0.toArray = res
  have hnd : ∀ g < numGroups, ∀ v,
      some v ∈ grpResult (brentRoot F digamma xtol rtol) xx groups nodata cal g → v ≠ nodata :=
    fun g hg v hv e => hnd g hg (e ▸ hv)
  apply Id.of_wp_run_eq hres
  mvcgen invariants
  -- `for grp in range(num_groups)`, state `(yy, grp_ix, cal_start, cal_stop, pix, res, valid_ix)`
  · ⇓⟨xs, s⟩ => ⌜GrpInv (brentRoot F digamma xtol rtol) rnd xx groups nodata cal yy0 xs.prefix.length s.1⌝
  all_goals
    pyn_ranges
    try obtain ⟨rfl, hlt⟩ := hrange
    simp (config := {zetaDelta := true}) only [List.size_toArray, List.length_append,
      List.length_singleton, List.length_nil, pyRange_length, decide_eq_true_eq, gt_iff_lt,
      Int.toNat_natCast, Bool.not_eq_true', decide_eq_false_iff_not, not_not, Int.zero_add, zero_add,
      groupsArr_mask, npGather_toArray, gen_gammastd_group, List.map_toArray, npMaskSet_toArray,
      npCount_toArray, filter_id_map_length, gatherL_groups, Int.natCast_eq_zero, Int.natCast_pos,
      Int.sub_zero] at *
  all_goals first
    | exact (‹GrpInv _ _ _ _ _ _ _ _ _›).step_fill hg hy ‹_›
    | exact (‹GrpInv _ _ _ _ _ _ _ _ _›).step_set hg hy _
        (scaled_cells' rnd nodata _ (hnd _ (by omega)) hrnd)
    | exact (‹GrpInv _ _ _ _ _ _ _ _ _›).step_set hg hy _
        (unscaled_cells rnd nodata _ (hnd _ (by omega)) (by omega))
    | exact GrpInv.init _ rnd xx groups nodata cal yy0 hy
    | exact ‹GrpInv _ _ _ _ _ _ _ _ _›

/-- the same under a hypothesis on the special function only: `ndtri` never returns the sentinel -/
theorem gen_gammastd_grp_eq_model_ndtri (F : GamFns α) (digamma : α → α) (xtol rtol : α) (rnd : α → α)
    (xx : List α) (groups : List ℕ) (numGroups : ℕ) (nodata : α) (cal : List (ℕ × ℕ)) (yy0 : List α)
    (hg : groups.length = xx.length) (hy : yy0.length = xx.length)
    (hrnd : rnd nodata = nodata) (hnd : ∀ p, F.ndtri p ≠ nodata) :
    (Gen.NumKernels.gammastd_grp F digamma xtol rtol rnd xx.toArray (groupsArr groups) (numGroups : ℤ) nodata
        (calArr cal) yy0.toArray).toList
      = mergeOut (grpCell rnd nodata)
          (Hdc.gammastdGrp (brentRoot F digamma xtol rtol) xx groups numGroups nodata cal) yy0 := by
  apply gen_gammastd_grp_eq_model F digamma xtol rtol rnd xx groups numGroups nodata cal yy0 hg hy hrnd
  intro g _ hmem
  obtain ⟨p, hp⟩ := gammastd_some_is_ndtri _ _ _ _ _ _ hmem
  exact hnd p hp.symm

/-- `np.round` on ℚ (half to even) -/
def rndq : ℚ → ℚ := fun v => (Py.roundHalfEvenRat v : ℚ)

/-- non-vacuity (toy special functions `Gq`, `dgq` of GenNumGammafit).  Group 0 is the series of the `gammastd` example
    (window [0, 6)): 13/64, 5/32, 7/64, 1/4 become 203, 156, 109, 250; group 1 is a single cell (not fittable: nodata);
    the label 2 is outside `range(num_groups)`: the cell keeps its content 77. -/
example :
    (Gen.NumKernels.gammastd_grp Gq dgq (1 / 1000) (1 / 1000) rndq [1, 2, 5, -1, 3, -9999, 0, 7].toArray
        (groupsArr [0, 0, 1, 0, 0, 0, 0, 2]) ((2 : ℕ) : ℤ) (-9999) (calArr [(0, 6), (0, 1)])
        [77, 77, 77, 77, 77, 77, 77, 77].toArray).toList
      = [203, 156, -9999, -9999, 109, -9999, 250, 77] := by
  refine (gen_gammastd_grp_eq_model (α := ℚ) _ _ _ _ _ _ _ _ _ _ _ ?_ ?_ ?_ ?_).trans ?_ <;> decide +kernel

/-- `Gq` with `ndtri v = −1000·v` -/
def Gq1000 : GamFns ℚ := { Gq with ndtri := fun v => -1000 * v }

/-- saturation: with `ndtri v = −1000·v` the indices −1000·(13/64)·1000, … leave the int16 range and are stored as −32768 -/
example :
    (Gen.NumKernels.gammastd_grp Gq1000 dgq (1 / 1000) (1 / 1000) rndq
        [1, 2, -1, 3, -9999, 0].toArray (groupsArr [0, 0, 0, 0, 0, 0]) ((1 : ℕ) : ℤ) (-9999) (calArr [(0, 6)])
        [0, 0, 0, 0, 0, 0].toArray).toList
      = [-32768, -32768, -9999, -32768, -9999, -32768] := by
  refine (gen_gammastd_grp_eq_model (α := ℚ) _ _ _ _ _ _ _ _ _ _ _ ?_ ?_ ?_ ?_).trans ?_ <;> decide +kernel

end grp
end Hdc.GenNum
