import Hdc.Lemmas.GenNumACWrap
import Hdc.Props.GenNumAC1d
import Hdc.Props.C15
import Hdc.Gen.NumAutocorrYxt
import Std.Tactic.Do
/-
GenNumACYxt  The GENERATED translation of the pixel-loop wrapper `hdc/algo/ops/autocorr.py::autocorr(x, nodata=None)` ((y, x, t) cube;
Hdc/Gen/NumAutocorrYxt.lean, written by harness/py2lean_ac.py from the Python source on every run) computes, pixel by pixel, the hand
model `Hdc.autocorr1d` on the series `x[r, c, :]` of the pixel.

The cube is its row-major flattening `x` with the shape `(nr, nc, nt)`; the result is the flattened `(nr, nc)` array.  As for
`autocorr_1d` the translator emits one program per Numba specialisation of `nodata is None`:
   `autocorr_yxt_none`  nodata omitted, float cells      missing = `isnan`
   `autocorr_yxt_nd`    integer cells, integer nodata    missing = `== nodata`, valid cells cast to the carrier
`store32` is the store into the `float32` result array (`z = zeros(.., dtype="float32")`), a parameter.

  gen_autocorr_yxt_none_cells / _nd_cells   the two loops, for ANY buffer: `z.shape = (nr, nc)` and cell `(r, c)` holds `store32` of the
                                            generated `autocorr_1d` on the generated slice `x[r, c, :]`
  gen_autocorr_yxt_none_eq_model / _nd_eq_model / gen_autocorr_yxt_eq_model    MAIN: cell `(r, c)` = `store32 (Hdc.autocorr1d (series of the pixel))`
  gen_autocorr_yxt_range, gen_autocorr_yxt_degenerate, gen_autocorr_yxt_pixel_local    what C15 says per pixel, for the wrapper

The results are stated with `z[r * nc + c]? = some _` (the cell EXISTS and has this value), the series with `rowSeries` (cells read
with `x[i]?`, no default value).  Method: `mvcgen`, one invariant per loop (`CellInv`, Hdc/Lemmas/GenNumACWrap.lean).
-/
namespace Hdc.GenNumACYxt
open Hdc Hdc.Gen.NumKernels Hdc.PyNpT Hdc.PyNpX Hdc.GenNum Hdc.GenNumACW Std.Do
open Hdc.Ws2dGen

set_option mvcgen.warning false
set_option linter.unusedSimpArgs false
set_option linter.unusedTactic false
set_option linter.unreachableTactic false
set_option linter.unusedSectionVars false

variable {α : Type} [Field α] [LinearOrder α] [IsStrictOrderedRing α]

/-- the optional cells of a float series: NaN = missing -/
def optF (isnan : α → Bool) (s : List α) : List (Option α) := s.map fun v => if isnan v then none else some v
/-- the optional cells of an integer series: nodata = missing, valid cells cast -/
def optI (nodata : Int) (s : List Int) : List (Option α) := s.map fun v => if v = nodata then none else some (v : α)

/-- the degenerate series of C15: at most one cell, no pair of consecutive valid cells, a scaled variance below `eps`, or
    (`0 < eps`) all valid cells equal -/
def ACDegenerate (eps : α) (data : List (Option α)) : Prop :=
  data.length ≤ 1 ∨ C15.nPairs (C15.X data) (C15.Y data) = 0 ∨ C15.EpsBranch eps data ∨
    (0 < eps ∧ ∃ k, ∀ v, some v ∈ data → v = k)

/-! ### the loops (no hypothesis on the buffer) -/

/-- nodata omitted: the result has `nr * nc` cells; cell `(r, c)` is the stored value of the generated `autocorr_1d` on the slice -/
theorem gen_autocorr_yxt_none_cells (isnan : α → Bool) (rsqrt : α → α) (eps : α) (store32 : α → α) (x : Array α)
    (nr nc nt : ℕ) :
    (Gen.NumKernels.autocorr_yxt_none isnan rsqrt eps store32 x nr nc nt).size = nr * nc ∧
    ∀ r c, r < nr → c < nc →
      (Gen.NumKernels.autocorr_yxt_none isnan rsqrt eps store32 x nr nc nt)[r * nc + c]?
        = some (store32 (autocorr_1d_none isnan rsqrt eps (npRow3 x (nat 0) nr nc nt r c))) := by
  suffices h : CellInv nr nc (fun r c => store32 (autocorr_1d_none isnan rsqrt eps (npRow3 x (nat 0) nr nc nt r c)))
      (nr * nc) (Gen.NumKernels.autocorr_yxt_none isnan rsqrt eps store32 x nr nc nt) from
    ⟨h.sz, fun r c hr hc => h.final hr hc⟩
  generalize hres : Gen.NumKernels.autocorr_yxt_none isnan rsqrt eps store32 x nr nc nt = res
  apply Id.of_wp_run_eq hres
  mvcgen invariants
  · ⇓⟨xs, s⟩ => ⌜CellInv nr nc (fun r c => store32 (autocorr_1d_none isnan rsqrt eps (npRow3 x (nat 0) nr nc nt r c)))
      (xs.prefix.length * nc) s.2⌝
  · ⇓⟨xs, s⟩ => by
      py_name cur as rr
      exact ⌜CellInv nr nc (fun r c => store32 (autocorr_1d_none isnan rsqrt eps (npRow3 x (nat 0) nr nc nt r c)))
        (rr.toNat * nc + xs.prefix.length) s.2⌝
  all_goals
    pyn_ranges
    simp (config := {zetaDelta := true}) only [List.size_toArray, List.length_append,
      List.length_singleton, List.length_nil, GenNum.pyRange_length, decide_eq_true_eq, gt_iff_lt,
      Int.toNat_natCast, Int.sub_zero, SPred.down_pure] at *
  case vc1.step =>
    exact CellInv.loop_step
      (g := fun ri ci => store32 (autocorr_1d_none isnan rsqrt eps (npRow3 x (nat 0) nr nc nt ri ci)))
      (by assumption) (by assumption) (by assumption)
  case vc2.step.pre => exact CellInv.row_start (by assumption) (by assumption)
  case vc3.step.post.success => exact CellInv.row_end (by assumption) (by assumption)
  case vc4.pre => exact CellInv.init' _ _ _ _
  case vc5.post.success => assumption

/-- integer cells with a nodata value: the same, with the integer specialisation of `autocorr_1d`; `nodata` is forwarded -/
theorem gen_autocorr_yxt_nd_cells (rsqrt : α → α) (eps : α) (store32 : α → α) (x : Array Int) (nr nc nt : ℕ)
    (nodata : Int) :
    (Gen.NumKernels.autocorr_yxt_nd rsqrt eps store32 x nr nc nt nodata).size = nr * nc ∧
    ∀ r c, r < nr → c < nc →
      (Gen.NumKernels.autocorr_yxt_nd rsqrt eps store32 x nr nc nt nodata)[r * nc + c]?
        = some (store32 (autocorr_1d_nd rsqrt eps (npRow3 x (0 : Int) nr nc nt r c) nodata)) := by
  suffices h : CellInv nr nc (fun r c => store32 (autocorr_1d_nd rsqrt eps (npRow3 x (0 : Int) nr nc nt r c) nodata))
      (nr * nc) (Gen.NumKernels.autocorr_yxt_nd rsqrt eps store32 x nr nc nt nodata) from
    ⟨h.sz, fun r c hr hc => h.final hr hc⟩
  generalize hres : Gen.NumKernels.autocorr_yxt_nd rsqrt eps store32 x nr nc nt nodata = res
  apply Id.of_wp_run_eq hres
  mvcgen invariants
  · ⇓⟨xs, s⟩ => ⌜CellInv nr nc (fun r c => store32 (autocorr_1d_nd rsqrt eps (npRow3 x (0 : Int) nr nc nt r c) nodata))
      (xs.prefix.length * nc) s.2⌝
  · ⇓⟨xs, s⟩ => by
      py_name cur as rr
      exact ⌜CellInv nr nc (fun r c => store32 (autocorr_1d_nd rsqrt eps (npRow3 x (0 : Int) nr nc nt r c) nodata))
        (rr.toNat * nc + xs.prefix.length) s.2⌝
  all_goals
    pyn_ranges
    simp (config := {zetaDelta := true}) only [List.size_toArray, List.length_append,
      List.length_singleton, List.length_nil, GenNum.pyRange_length, decide_eq_true_eq, gt_iff_lt,
      Int.toNat_natCast, Int.sub_zero, SPred.down_pure] at *
  case vc1.step =>
    exact CellInv.loop_step
      (g := fun ri ci => store32 (autocorr_1d_nd rsqrt eps (npRow3 x (0 : Int) nr nc nt ri ci) nodata))
      (by assumption) (by assumption) (by assumption)
  case vc2.step.pre => exact CellInv.row_start (by assumption) (by assumption)
  case vc3.step.post.success => exact CellInv.row_end (by assumption) (by assumption)
  case vc4.pre => exact CellInv.init' _ _ _ _
  case vc5.post.success => assumption

/-! ### MAIN: every pixel holds the model autocorrelation of its series -/

/-- nodata omitted (float cells, NaN = missing): cell `(r, c)` of the result is the stored model autocorrelation of `x[r, c, :]`.
    Hypotheses: `len(x) = nr * nc * nt` (the shape fits the buffer; Numba does no bounds check, a shorter buffer is read beyond
    its end), `r * nc + c < nr * nc` (the cell exists; every pixel `r < nr`, `c < nc` of the cube satisfies it, and as Numba checks no bounds an index `c ≥ nc` is the pixel with the same number `r * nc + c`).  No hypothesis on `nt`: a series of length 0 or 1 gives `store32 0`. -/
theorem gen_autocorr_yxt_none_eq_model (isnan : α → Bool) (rsqrt : α → α) (eps : α) (store32 : α → α) (x : List α)
    (nr nc nt : ℕ) (hlen : x.length = nr * nc * nt) (r c : ℕ) (hpix : r * nc + c < nr * nc) :
    (Gen.NumKernels.autocorr_yxt_none isnan rsqrt eps store32 x.toArray nr nc nt)[r * nc + c]?
      = some (store32 (Hdc.autocorr1d rsqrt eps (optF isnan (rowSeries x nr nc nt r c)))) := by
  obtain ⟨hr, hc, e⟩ := pix_of_lt hpix
  have h := (gen_autocorr_yxt_none_cells isnan rsqrt eps store32 x.toArray nr nc nt).2 _ _ hr hc
  rw [e] at h
  rw [h, npRow3_eq_rowSeries x _ nr nc nt _ _ hlen hr hc, GenNumAC1d.gen_autocorr_1d_none_eq_model,
    rowSeries_alias x nr nc nt e]
  rfl

/-- integer cells with an integer nodata (`== nodata` = missing, valid cells cast to the carrier) -/
theorem gen_autocorr_yxt_nd_eq_model (rsqrt : α → α) (eps : α) (store32 : α → α) (x : List Int) (nr nc nt : ℕ)
    (nodata : Int) (hlen : x.length = nr * nc * nt) (r c : ℕ) (hpix : r * nc + c < nr * nc) :
    (Gen.NumKernels.autocorr_yxt_nd rsqrt eps store32 x.toArray nr nc nt nodata)[r * nc + c]?
      = some (store32 (Hdc.autocorr1d rsqrt eps (optI nodata (rowSeries x nr nc nt r c)))) := by
  obtain ⟨hr, hc, e⟩ := pix_of_lt hpix
  have h := (gen_autocorr_yxt_nd_cells rsqrt eps store32 x.toArray nr nc nt nodata).2 _ _ hr hc
  rw [e] at h
  rw [h, npRow3_eq_rowSeries x _ nr nc nt _ _ hlen hr hc, GenNumAC1d.gen_autocorr_1d_nd_eq_model,
    rowSeries_alias x nr nc nt e]
  rfl

/-- both specialisations, and the shape of the result -/
theorem gen_autocorr_yxt_eq_model (isnan : α → Bool) (rsqrt : α → α) (eps : α) (store32 : α → α) (xF : List α)
    (xI : List Int) (nodata : Int) (nr nc nt : ℕ) (r c : ℕ) (hpix : r * nc + c < nr * nc) :
    (xF.length = nr * nc * nt →
      (Gen.NumKernels.autocorr_yxt_none isnan rsqrt eps store32 xF.toArray nr nc nt).size = nr * nc ∧
      (Gen.NumKernels.autocorr_yxt_none isnan rsqrt eps store32 xF.toArray nr nc nt)[r * nc + c]?
        = some (store32 (Hdc.autocorr1d rsqrt eps (optF isnan (rowSeries xF nr nc nt r c))))) ∧
    (xI.length = nr * nc * nt →
      (Gen.NumKernels.autocorr_yxt_nd rsqrt eps store32 xI.toArray nr nc nt nodata).size = nr * nc ∧
      (Gen.NumKernels.autocorr_yxt_nd rsqrt eps store32 xI.toArray nr nc nt nodata)[r * nc + c]?
        = some (store32 (Hdc.autocorr1d rsqrt eps (optI nodata (rowSeries xI nr nc nt r c))))) :=
  ⟨fun h => ⟨(gen_autocorr_yxt_none_cells isnan rsqrt eps store32 xF.toArray nr nc nt).1,
      gen_autocorr_yxt_none_eq_model isnan rsqrt eps store32 xF nr nc nt h r c hpix⟩,
   fun h => ⟨(gen_autocorr_yxt_nd_cells rsqrt eps store32 xI.toArray nr nc nt nodata).1,
      gen_autocorr_yxt_nd_eq_model rsqrt eps store32 xI nr nc nt nodata h r c hpix⟩⟩

/-! ### C15 per pixel -/

/-- Range.  With `rsqrt` an inverse square root on the positives and a `store32` that keeps `[-1, 1]` (rounding to float32 is
    monotone and −1, 1 are float32 numbers) every pixel of both specialisations holds a value in `[-1, 1]`.
    Both are needed: with `rsqrt := fun _ => 100` the series `1 2 4` gives a value far above 1 (the model is then not a
    correlation, see Hdc/Props/C15.lean), with `store32 := fun _ => 2` every cell holds 2. -/
theorem gen_autocorr_yxt_range (isnan : α → Bool) (rsqrt : α → α) (hrs : C15.IsRsqrt rsqrt) (eps : α) (store32 : α → α)
    (hst : ∀ v, -1 ≤ v → v ≤ 1 → -1 ≤ store32 v ∧ store32 v ≤ 1)
    (xF : List α) (xI : List Int) (nodata : Int) (nr nc nt : ℕ) (r c : ℕ) (hpix : r * nc + c < nr * nc) :
    (xF.length = nr * nc * nt → ∃ v,
      (Gen.NumKernels.autocorr_yxt_none isnan rsqrt eps store32 xF.toArray nr nc nt)[r * nc + c]? = some v ∧
        -1 ≤ v ∧ v ≤ 1) ∧
    (xI.length = nr * nc * nt → ∃ v,
      (Gen.NumKernels.autocorr_yxt_nd rsqrt eps store32 xI.toArray nr nc nt nodata)[r * nc + c]? = some v ∧
        -1 ≤ v ∧ v ≤ 1) := by
  refine ⟨fun h => ⟨_, gen_autocorr_yxt_none_eq_model isnan rsqrt eps store32 xF nr nc nt h r c hpix, ?_⟩,
    fun h => ⟨_, gen_autocorr_yxt_nd_eq_model rsqrt eps store32 xI nr nc nt nodata h r c hpix, ?_⟩⟩
  · exact hst _ (C15.autocorr_range rsqrt hrs eps _).1 (C15.autocorr_range rsqrt hrs eps _).2
  · exact hst _ (C15.autocorr_range rsqrt hrs eps _).1 (C15.autocorr_range rsqrt hrs eps _).2

/-- Degenerate pixels hold `store32 0`: a series of at most one cell, no pair of consecutive valid cells, a (scaled) variance
    below `eps`, or (for `0 < eps`) all valid cells equal.  `data` is the optional series of the pixel in either encoding. -/
theorem gen_autocorr_yxt_degenerate (isnan : α → Bool) (rsqrt : α → α) (eps : α) (store32 : α → α)
    (xF : List α) (xI : List Int) (nodata : Int) (nr nc nt : ℕ) (r c : ℕ) (hpix : r * nc + c < nr * nc)
 :
    (xF.length = nr * nc * nt → ACDegenerate eps (optF isnan (rowSeries xF nr nc nt r c)) →
      (Gen.NumKernels.autocorr_yxt_none isnan rsqrt eps store32 xF.toArray nr nc nt)[r * nc + c]? = some (store32 0)) ∧
    (xI.length = nr * nc * nt → ACDegenerate eps (optI nodata (rowSeries xI nr nc nt r c)) →
      (Gen.NumKernels.autocorr_yxt_nd rsqrt eps store32 xI.toArray nr nc nt nodata)[r * nc + c]? = some (store32 0)) := by
  have key : ∀ data, ACDegenerate eps data → Hdc.autocorr1d rsqrt eps data = 0 := by
    intro data hd
    rcases hd with h | h | h | ⟨h0, k, h⟩
    · exact C15.autocorr_degenerate_nopair rsqrt eps data (C15.nPairs_short data h)
    · exact C15.autocorr_degenerate_nopair rsqrt eps data h
    · exact C15.autocorr_degenerate_eps rsqrt eps data h
    · exact C15.autocorr_degenerate_const rsqrt eps h0 data k h
  refine ⟨fun h hd => ?_, fun h hd => ?_⟩
  · rw [gen_autocorr_yxt_none_eq_model isnan rsqrt eps store32 xF nr nc nt h r c hpix, key _ hd]
  · rw [gen_autocorr_yxt_nd_eq_model rsqrt eps store32 xI nr nc nt nodata h r c hpix, key _ hd]

/-- Pixel locality: two cubes of the same shape with the same series at pixel `(r, c)` give the same value at `(r, c)`, whatever
    the other pixels hold (so changing the series of another pixel does not change this pixel's output). -/
theorem gen_autocorr_yxt_pixel_local (isnan : α → Bool) (rsqrt : α → α) (eps : α) (store32 : α → α)
    (xF xF' : List α) (xI xI' : List Int) (nodata : Int) (nr nc nt : ℕ) (r c : ℕ) (hpix : r * nc + c < nr * nc) :
    (xF.length = nr * nc * nt → xF'.length = nr * nc * nt →
      rowSeries xF nr nc nt r c = rowSeries xF' nr nc nt r c →
      (Gen.NumKernels.autocorr_yxt_none isnan rsqrt eps store32 xF.toArray nr nc nt)[r * nc + c]?
        = (Gen.NumKernels.autocorr_yxt_none isnan rsqrt eps store32 xF'.toArray nr nc nt)[r * nc + c]?) ∧
    (xI.length = nr * nc * nt → xI'.length = nr * nc * nt →
      rowSeries xI nr nc nt r c = rowSeries xI' nr nc nt r c →
      (Gen.NumKernels.autocorr_yxt_nd rsqrt eps store32 xI.toArray nr nc nt nodata)[r * nc + c]?
        = (Gen.NumKernels.autocorr_yxt_nd rsqrt eps store32 xI'.toArray nr nc nt nodata)[r * nc + c]?) := by
  refine ⟨fun h h' hs => ?_, fun h h' hs => ?_⟩
  · rw [gen_autocorr_yxt_none_eq_model isnan rsqrt eps store32 xF nr nc nt h r c hpix,
      gen_autocorr_yxt_none_eq_model isnan rsqrt eps store32 xF' nr nc nt h' r c hpix, hs]
  · rw [gen_autocorr_yxt_nd_eq_model rsqrt eps store32 xI nr nc nt nodata h r c hpix,
      gen_autocorr_yxt_nd_eq_model rsqrt eps store32 xI' nr nc nt nodata h' r c hpix, hs]

/-! ### Non-vacuity and necessity of the hypotheses: a `(2, 2, 4)` cube over ℚ, nodata = −1 (toy `rsqrt v = 1 / v`, `store32 = id`) -/

def acCubeY : List Int := [1, 2, -1, 4,  3, 1, 4, 1,  5, 5, 5, 5,  2, 7, 1, 8]

/-- pixel (0, 1), series `3 1 4 1` -/
example : (Gen.NumKernels.autocorr_yxt_nd (fun v : ℚ => 1 / v) (1 / 100000000) id acCubeY.toArray (2 : ℕ) (2 : ℕ) (4 : ℕ) (-1) : Array ℚ)[(0 * 2 + 1 : ℕ)]?
    = some (-5 / 252) := by
  have h := gen_autocorr_yxt_nd_eq_model (fun v : ℚ => 1 / v) (1 / 100000000) id acCubeY 2 2 4 (-1) (by decide) 0 1 (by decide)
  rw [show rowSeries acCubeY 2 2 4 0 1 = [3, 1, 4, 1] by decide] at h
  refine h.trans ?_
  decide +kernel

/-- pixel (0, 0), series `1 2 nodata 4` -/
example : (Gen.NumKernels.autocorr_yxt_nd (fun v : ℚ => 1 / v) (1 / 100000000) id acCubeY.toArray (2 : ℕ) (2 : ℕ) (4 : ℕ) (-1) : Array ℚ)[(0 * 2 + 0 : ℕ)]?
    = some (1 / 8) := by
  have h := gen_autocorr_yxt_nd_eq_model (fun v : ℚ => 1 / v) (1 / 100000000) id acCubeY 2 2 4 (-1) (by decide) 0 0 (by decide)
  rw [show rowSeries acCubeY 2 2 4 0 0 = [1, 2, -1, 4] by decide] at h
  refine h.trans ?_
  decide +kernel

/-- the float specialisation on the same cube (−1 plays NaN) -/
example : (Gen.NumKernels.autocorr_yxt_none (fun v : ℚ => decide (v = -1)) (fun v : ℚ => 1 / v) (1 / 100000000) id
      ([1, 2, -1, 4,  3, 1, 4, 1,  5, 5, 5, 5,  2, 7, 1, 8] : List ℚ).toArray (2 : ℕ) (2 : ℕ) (4 : ℕ) : Array ℚ)[(0 * 2 + 0 : ℕ)]? = some (1 / 8) := by
  have h := gen_autocorr_yxt_none_eq_model (fun v : ℚ => decide (v = -1)) (fun v : ℚ => 1 / v) (1 / 100000000) id
    [1, 2, -1, 4,  3, 1, 4, 1,  5, 5, 5, 5,  2, 7, 1, 8] 2 2 4 (by decide) 0 0 (by decide)
  rw [show rowSeries ([1, 2, -1, 4,  3, 1, 4, 1,  5, 5, 5, 5,  2, 7, 1, 8] : List ℚ) 2 2 4 0 0 = [1, 2, -1, 4] by decide +kernel] at h
  refine h.trans ?_
  decide +kernel

/-- pixel (1, 0), series `5 5 5 5`: degenerate (all cells equal), the cell holds `store32 0` -/
example : (Gen.NumKernels.autocorr_yxt_nd (fun v : ℚ => 1 / v) (1 / 100000000) id acCubeY.toArray (2 : ℕ) (2 : ℕ) (4 : ℕ) (-1) : Array ℚ)[(1 * 2 + 0 : ℕ)]?
    = some (id 0) := by
  refine (gen_autocorr_yxt_degenerate (fun _ : ℚ => false) (fun v : ℚ => 1 / v) (1 / 100000000) id [] acCubeY (-1) 2 2 4 1 0
    (by decide)).2 (by decide) (Or.inr (Or.inr (Or.inr ⟨by norm_num, 5, ?_⟩)))
  rw [show rowSeries acCubeY 2 2 4 1 0 = [5, 5, 5, 5] by decide]
  intro v hv
  simp [optI] at hv
  exact hv.symm ▸ rfl

/-- `hpix` is needed: beyond the last pixel there is no cell -/
example : (Gen.NumKernels.autocorr_yxt_nd (fun v : ℚ => 1 / v) (1 / 100000000) id acCubeY.toArray (2 : ℕ) (2 : ℕ) (4 : ℕ) (-1) : Array ℚ)[(2 * 2 + 0 : ℕ)]?
    = none :=
  Array.getElem?_eq_none (Nat.le_of_eq (gen_autocorr_yxt_nd_cells _ _ _ _ 2 2 4 _).1)

/-- `hlen` is needed: the shape `(1, 1, 3)` on the buffer `[1, 2]`: the program reads a third cell (0 in the translation,
    anything in Numba), the series of the cells that exist is `1 2` -/
example : (Gen.NumKernels.autocorr_yxt_nd (fun v : ℚ => 1 / v) (1 / 100000000) id [1, 2].toArray (1 : ℕ) (1 : ℕ) (3 : ℕ) (-1) : Array ℚ)[(0 * 1 + 0 : ℕ)]?
    ≠ some (id (Hdc.autocorr1d (fun v : ℚ => 1 / v) (1 / 100000000) (optI (-1) (rowSeries [1, 2] 1 1 3 0 0)))) := by
  have h := (gen_autocorr_yxt_nd_cells (fun v : ℚ => 1 / v) (1 / 100000000) id [1, 2].toArray 1 1 3 (-1)).2 0 0 (by decide) (by decide)
  rw [show PyNpX.npRow3 [1, 2].toArray (0 : Int) (1 : ℕ) (1 : ℕ) (3 : ℕ) (0 : ℕ) (0 : ℕ) = [1, 2, 0].toArray by decide,
    GenNumAC1d.gen_autocorr_1d_nd_eq_model] at h
  rw [show rowSeries ([1, 2] : List Int) 1 1 3 0 0 = [1, 2] by decide]
  intro h'
  rw [h] at h'
  revert h'
  decide +kernel

end Hdc.GenNumACYxt
