import Hdc.Model.Discrete
import Hdc.Lemmas.Discrete
/-
C16  Zonal mean is the exact mean and count of valid pixels per zone.
The model returns (sum, count) per zone over ℤ; the kernel stores sum / count (NaN when count = 0).
-/
namespace Hdc.C16
open Hdc.Discrete

/-- the pixels that count for zone k -/
def members (pix zones : List Int) (nd znd k : Int) : List Int :=
  ((pix.zip zones).filter fun (v, z) => v ≠ nd ∧ z ≠ znd ∧ z = k).map (·.1)

theorem zoneStats_spec (pix zones : List Int) (nd znd k : Int) :
    zoneStats pix zones nd znd k = ((members pix zones nd znd k).sum, (members pix zones nd znd k).length) := by
  unfold zoneStats members
  rw [foldl_sumCount0]; simp

theorem zone_nodata_nowhere (pix zones : List Int) (nd znd : Int) : zoneStats pix zones nd znd znd = (0, 0) := by
  unfold zoneStats
  have : ((pix.zip zones).filter fun (v, z) => v ≠ nd ∧ z ≠ znd ∧ z = znd) = [] := by
    rw [List.filter_eq_nil_iff]
    rintro ⟨v, z⟩ _
    simp
  rw [this]; rfl

theorem zonal_perm_invariant (pz qz : List (Int × Int)) (h : pz.Perm qz) (nd znd k : Int) :
    zoneStats (pz.map (·.1)) (pz.map (·.2)) nd znd k = zoneStats (qz.map (·.1)) (qz.map (·.2)) nd znd k := by
  unfold zoneStats
  rw [zip_map_fst_snd, zip_map_fst_snd, foldl_sumCount0, foldl_sumCount0]
  have hf := h.filter (fun (p : Int × Int) => match p with | (v, z) => decide (v ≠ nd ∧ z ≠ znd ∧ z = k))
  congr 1
  · exact perm_sum_int (hf.map _)
  · exact hf.length_eq

theorem zonalMean_length (pix zones : List Int) (nz : Nat) (nd znd : Int) : (zonalMean pix zones nz nd znd).length = nz := by
  simp [zonalMean]

theorem zonalMean_get (pix zones : List Int) (nz : Nat) (nd znd : Int) (k : Nat) (hk : k < nz) :
    (zonalMean pix zones nz nd znd)[k]? = some (zoneStats pix zones nd znd (k : Int)) := by
  simp [zonalMean, hk]

theorem members_sub (pix zones : List Int) (nd znd k : Int) :
    ∀ v ∈ members pix zones nd znd k, v ∈ pix ∧ v ≠ nd := by
  intro v hv
  simp only [members, List.mem_map, List.mem_filter] at hv
  obtain ⟨⟨a, z⟩, ⟨hz, hp⟩, rfl⟩ := hv
  refine ⟨(List.of_mem_zip hz).1, ?_⟩
  simp at hp
  exact hp.1

/-- counts are exact in an int64 accumulator: bounded by the number of pixels -/
theorem count_le (pix zones : List Int) (nd znd k : Int) : (zoneStats pix zones nd znd k).2 ≤ pix.length := by
  rw [zoneStats_spec]
  simp only [members, List.length_map]
  refine Nat.le_trans (List.length_filter_le _ _) ?_
  rw [List.length_zip]; exact Nat.min_le_left _ _

/-- |sum| ≤ count · B for pixels bounded by B: exact in float64 when count · B < 2^53 -/
theorem sum_bound (pix zones : List Int) (nd znd k : Int) (B : Nat) (hB : ∀ v ∈ pix, v.natAbs ≤ B) :
    (zoneStats pix zones nd znd k).1.natAbs ≤ (zoneStats pix zones nd znd k).2 * B := by
  rw [zoneStats_spec]
  exact natAbs_sum_le _ B (fun v hv => hB v (members_sub pix zones nd znd k v hv).1)

/-- the pinned tree accumulated in float32, whose counter saturates (regression witness, F5) -/
theorem float32_counter_saturates : (16777216 : Float32) + 1 = 16777216 := by decide +kernel

/-- the repaired kernel's integer counter does not saturate -/
theorem nat_counter_does_not_saturate : (16777216 : Nat) + 1 ≠ 16777216 := by decide

/-- a zone with no valid pixel has count 0 (the kernel stores NaN there) -/
theorem zone_empty_count (pix zones : List Int) (nd znd k : Int)
    (h : ∀ p ∈ pix.zip zones, p.1 = nd ∨ p.2 ≠ k) : zoneStats pix zones nd znd k = (0, 0) := by
  unfold zoneStats
  have : ((pix.zip zones).filter fun (v, z) => v ≠ nd ∧ z ≠ znd ∧ z = k) = [] := by
    rw [List.filter_eq_nil_iff]
    rintro ⟨v, z⟩ hp
    have := h _ hp
    simp at this ⊢
    intro h1 _ h3
    cases this with
    | inl h => exact absurd h h1
    | inr h => exact absurd h3 h
  rw [this]; rfl

-- non-vacuity: 2 zones, one nodata pixel, one pixel in the nodata zone
example : zonalMean [10, 20, -1, 40, 50] [0, 1, 0, 0, 9] 2 (-1) 9 = [(50, 2), (20, 1)] := by decide
example : members [10, 20, -1, 40, 50] [0, 1, 0, 0, 9] (-1) 9 0 = [10, 40] := by decide
example : zoneStats [10, 20, -1, 40, 50] [0, 1, 0, 0, 9] (-1) 9 9 = (0, 0) := by decide
example : zoneStats [10, 20] [0, 0] (-1) 9 0 = zoneStats [20, 10] [0, 0] (-1) 9 0 := by decide

end Hdc.C16
