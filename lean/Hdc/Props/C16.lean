import Hdc.Model.Discrete
/-
C16  Zonal mean is the exact mean and count of valid pixels per zone.
The model returns (sum, count) per zone over ℤ; the kernel stores sum / count (NaN when count = 0).
-/
namespace Hdc.C16

/-- the pixels that count for zone k -/
def members (pix zones : List Int) (nd znd k : Int) : List Int :=
  ((pix.zip zones).filter fun (v, z) => v ≠ nd ∧ z ≠ znd ∧ z = k).map (·.1)

-- THEOREMS TO PROVE (statements fixed)
-- theorem zoneStats_spec (pix zones : List Int) (nd znd k : Int) :
--     zoneStats pix zones nd znd k = ((members pix zones nd znd k).sum, (members pix zones nd znd k).length)
-- theorem zone_nodata_nowhere (pix zones : List Int) (nd znd : Int) : zoneStats pix zones nd znd znd = (0, 0)
-- theorem zonal_perm_invariant (pz qz : List (Int × Int)) (h : pz.Perm qz) (nd znd k : Int) :
--     zoneStats (pz.map (·.1)) (pz.map (·.2)) nd znd k = zoneStats (qz.map (·.1)) (qz.map (·.2)) nd znd k
-- theorem zonalMean_length (pix zones : List Int) (nz : Nat) (nd znd : Int) : (zonalMean pix zones nz nd znd).length = nz
-- theorem zonalMean_get (pix zones : List Int) (nz : Nat) (nd znd : Int) (k : Nat) (hk : k < nz) :
--     (zonalMean pix zones nz nd znd)[k]? = some (zoneStats pix zones nd znd (k : Int))
-- /-- counts are exact in an int64 accumulator: bounded by the number of pixels -/
-- theorem count_le (pix zones : List Int) (nd znd k : Int) : (zoneStats pix zones nd znd k).2 ≤ pix.length
-- /-- |sum| ≤ count · B for pixels bounded by B: exact in float64 when count · B < 2^53 -/
-- theorem sum_bound (pix zones : List Int) (nd znd k : Int) (B : Nat) (hB : ∀ v ∈ pix, v.natAbs ≤ B) :
--     (zoneStats pix zones nd znd k).1.natAbs ≤ (zoneStats pix zones nd znd k).2 * B
-- /-- the pinned tree accumulated in float32, whose counter saturates (regression witness, F5) -/
-- theorem float32_counter_saturates : (16777216 : Float32) + 1 = 16777216      -- by decide +kernel

end Hdc.C16
