import Hdc.Gen.SafeWs2dwcvp
import Hdc.Props.SafeWs2dwcv
import Hdc.Props.SafeWs2dwcvOk
import Hdc.Lemmas.SafeOkP
import Std.Tactic.Do
import Mathlib.Tactic.CasesM
/-
SafeWs2dwcvpOk  Under its contract the flag of the instrumented `ws2dwcvp` (Hdc/Gen/SafeWs2dwcvp.lean, generated from
hdc/algo/ops/ws2dwcvp.py::ws2dwcvp) stays down, for BOTH values of `robust`: no subscript out of range, no slice out of bounds,
no shape mismatch, no `np.max` / `np.min` of an empty array, no scalar division by zero, no flag of the instrumented `ws2d`
 in the robust loop, the λ sweeps, the re-weighting block, the asymmetric loop `for _ in range(10)` (with its `break`) and the final fit.

  safe_ws2dwcvp_plain_ok    `robust = False`   under `SafeWs2dwcv.Contract` (the contract of ws2dwcv(robust=False)) and `0 < p < 1`
  safe_ws2dwcvp_robust_ok   `robust = True`    under `RobustContract` (the contract of ws2dwcv(robust=True), on the model's chain
                                               `Hdc.Smooth.grun`), `hG`, and `0 < p < 1`
  safe_ws2dwcvp_ok          both, the contract chosen by `robust`

The λ selection of ws2dwcvp is, statement for statement, the one of ws2dwcv (the two generated programs differ only in the
declarations of `ww`, `znew`, `wa` and in what follows `lopt[0] = …`), so the contracts of Hdc/Props/SafeWs2dwcv.lean (robust = False:
stated on the NumPy expressions `wOf`, `yOf`, `dOf`, `trOf`, `scoreOf` of the source) and Hdc/Props/SafeWs2dwcvOk.lean (robust = True:
path-dependent, stated on the states of the hand model) are reused unchanged, and so are the tactic macros for the conditions of
that part.  New here: `p`.
  * `0 < p < 1` is needed only when more than four cells are valid (otherwise the early return `out[:] = y[:]; lopt[0] = 0.0`: covered);
    with `p ∈ {0, 1}` a pass can give every cell the weight 0, with `p ∉ [0, 1]` a negative weight: `example`s below.
  * What follows WITHOUT hypothesis: the sizes of `z`, `znew`, `wa`, `ww`; `m = len(y)` so that the three slices `[0:m]` are full;
    `lopt[0]` is the positive grid value selected before; `robust_weights` (`= w`, resp. `w * r_weights` with two positive cells,
    by the guard `np.sum((w * r_new) > 0) > 1`) times `wa ∈ {p, 1 - p}` is inside the contract of `ws2d` (Hdc/Lemmas/SafeOkP.lean); the
    loop runs at least one pass (`range(10)`), so `ww` of the final fit is such a product (NOT the initial `ww = []`).
Invariant of the loop `for _ in range(10)`, state `(bad, unbound, ww, z, znew, wa)`: the flag is false, `z`, `znew`, `wa` have the length
of the series, and after the first pass `ww` is inside the contract of `ws2d` for every positive λ.
Method: `mvcgen`, four invariants (robust loop; the sweep under `it > 1`; the grid sweep; the ten passes).
-/
namespace Hdc.SafeWs2dwcvp
open Hdc Hdc.Gen.NumKernels Hdc.PyNpW Hdc.GenNum Hdc.SafeL Hdc.SafeWcv Hdc.SafeSimN Hdc.SafeOkP Std.Do

set_option mvcgen.warning false
set_option linter.unusedSimpArgs false
set_option linter.unusedTactic false
set_option linter.unreachableTactic false
set_option linter.unusedVariables false
set_option linter.unusedSectionVars false

variable {α : Type} [Field α] [LinearOrder α] [IsStrictOrderedRing α]

set_option maxHeartbeats 1000000 in
/-- `robust = False`: under the contract of `ws2dwcv(robust=False)` (`SafeWs2dwcv.Contract`: `len y ≥ 1`, the buffers `out`, `lopt` of
    the gufunc signature `(n),(),(),(m),() -> (n),()`, and — only with more than four valid cells — every `10 ** l` positive,
    `gamma.sum() ≠ w.sum()` on the grid, some score below `1e15`) and `0 < p < 1` (same proviso) the flag is false -/
theorem safe_ws2dwcvp_plain_ok (G : GFns α) (cos : α → α) (isnan isinf : α → Bool) (rnd : α → α) (pi : α)
    (y llas : List α) (nodata p : α) (out0 lopt0 : Array α)
    (hc : SafeWs2dwcv.Contract G cos isnan isinf pi y llas nodata out0 lopt0)
    (hp : 4 < countValid (missG nodata isnan isinf) y → 0 < p ∧ p < 1) :
    (Gen.Safe.ws2dwcvp G cos isnan isinf rnd pi y.toArray nodata p llas.toArray false out0 lopt0).2 = false := by
  have hl := hc.lopt
  have hy1 := hc.ylen
  have ho := hc.out
  have hfit := hc.fit
  unfold Gen.Safe.ws2dwcvp
  simp -zeta only [Bool.not_false, Bool.false_eq_true, ↓reduceIte]
  generalize hres : Id.run _ = res
  apply Id.of_wp_run_eq hres
  mvcgen invariants
  -- `for it in range(1)`, state `(bad, unbound, y_temp, y_temp_set, robust_weights, robust_weights_set, z, r_weights, robust_gcv, gcv_temp)`
  · ⇓⟨xs, s⟩ => ⌜s.1 = false ∧ s.2.2.2.2.2.2.1.size = y.length ∧ s.2.2.2.2.2.2.2.1 = Array.replicate y.length (nat 1) ∧
      (xs.prefix.length = 0 → s.2.2.2.2.2.2.2.2.1 = #[] ∧ s.2.2.2.2.2.2.2.2.2 = #[G.big, nat 0]) ∧
      (xs.prefix.length ≠ 0 → ∃ g, s.2.2.2.2.2.2.2.2.1 = #[g] ∧ g.size = 2 ∧ 0 < rd g 1 ∧
        s.2.2.2.2.1 = wOf nodata isnan isinf y.toArray)⌝
  -- the sweep under `it > 1`: not reached with `r_its = 1`
  · ⇓⟨xs, s⟩ => ⌜True⌝
  -- `for s in lambda_range`, state `(bad, y_temp, y_temp_set, z, gcv_temp, s, gamma)`
  · ⇓⟨xs, s⟩ => ⌜s.1 = false ∧ s.2.2.2.1.size = y.length ∧
      SweepS G.big (scoreOf G (yOf (wOf nodata isnan isinf y.toArray) y.toArray)
      (wOf nodata isnan isinf y.toArray) (dOf G cos pi y.length)) xs.prefix s.2.2.2.2.1⌝
  -- `for _ in range(10)`, state `(bad, unbound, ww, z, znew, wa)`
  · ⇓⟨xs, s⟩ => ⌜s.1 = false ∧ s.2.2.2.1.size = y.length ∧ s.2.2.2.2.1.size = y.length ∧ s.2.2.2.2.2.size = y.length ∧
      (xs.prefix.length = 0 ∨ ∀ lam : α, 0 < lam →
        SafeWs2d.Contract (yOf (wOf nodata isnan isinf y.toArray) y.toArray).toList s.2.2.1.toList lam)⌝
  all_goals (clear_jps; try clear hres)
  all_goals pyn_ranges
  all_goals try dsimp only [id, PostCond.noThrow, SPred.down_pure] at *
  -- the NumPy expressions of the source, folded into `wOf`, `dOf`, `yOf`
  all_goals
    simp (config := {zetaDelta := true}) only [wOf_fold] at *
    simp (config := {zetaDelta := true}) only [dOf_fold, yOf_fold, four_lt, decide_eq_true_eq] at *
  all_goals try casesm* _ ∧ _
  all_goals
    have hWs := size_wOf' nodata isnan isinf y
    have hDs := size_dOf' G cos pi y.length
    have hYs := size_yOf' nodata isnan isinf y
    have hWT := wtemp_eq nodata isnan isinf y
  -- the sweep under `it > 1` is not reached
  all_goals try (exfalso; omega)
  all_goals first
    -- fewer than five valid cells: pass-through, `lopt[0] = 0`
    | (have hnot : ¬ 4 < countValid (missG nodata isnan isinf) y := by assumption
       simp (disch := omega) only [*, size_npMap, size_npArange, List.size_toArray, Int.toNat_natCast, npCopyTo_eq,
         lenNe_self, oob_false, Bool.or_false, Bool.false_or])
    | skip
  all_goals
    have h4 : 4 < countValid (missG nodata isnan isinf) y := by assumption
    obtain ⟨hpow, hden, hbig⟩ := hfit h4
    obtain ⟨hp0, hp1⟩ := hp h4
    have h5 : 5 ≤ y.length := le_trans h4 (Smooth.countValid_le_length _ y)
    have hcall : ∀ lam, 0 < lam → (Gen.Safe.ws2d (yOf (wOf nodata isnan isinf y.toArray) y.toArray) lam
        (wOf nodata isnan isinf y.toArray)).2 = false :=
      fun lam hlam => call_ok nodata isnan isinf y _ lam hYs (by omega) hlam (by omega)
    have hbase : ∀ lam : α, 0 < lam → SafeWs2d.Contract (yOf (wOf nodata isnan isinf y.toArray) y.toArray).toList
        (wOf nodata isnan isinf y.toArray).toList lam :=
      fun lam hlam => base_contract nodata isnan isinf y _ lam hYs (by omega) hlam (by omega)
    have hS : npSum (wOf nodata isnan isinf y.toArray) ≠ 0 := by
      rw [npSum_wOf]; exact Nat.cast_ne_zero.2 (by omega)
  -- the remaining conditions: "the new flag is false" + the bookkeeping of the invariants
  all_goals first
    -- entry of the robust loop
    | (refine ⟨?_, by simp, by simp, fun _ => trivial, fun h => absurd rfl h⟩
       simp (disch := omega) only [*, size_npMap, size_npArange, List.size_toArray, Int.toNat_natCast,
         neg_size_false, lenNe_self, oob_false, Bool.or_false, Bool.false_or])
    | skip
  all_goals first
    -- entry of the sweep: `gcv_temp = [big, 0]`
    | (obtain ⟨hrg, hgt⟩ := ‹_ = 0 → _› (by omega)
       refine ⟨?_, by assumption, by rw [hgt]; exact SweepS.init _ _⟩
       simp only [*, Array.size_replicate, lenNe_self, Bool.or_false])
    -- end of the sweep: some score was below `big`, so `best_gcv[1] > 0`
    | (obtain ⟨hrg, hgt⟩ := ‹_ = 0 → _› (by omega)
       have hSw := ‹SweepS G.big _ _ _›
       have hpos := hSw.pos (by
         obtain ⟨l, hl, hlt⟩ := hbig
         exact ⟨G.pow10 l, by simp only [toList_npMap, List.toList_toArray]; exact List.mem_map_of_mem hl, hlt⟩)
       refine ⟨?_, by assumption, by assumption, fun h => absurd h (by simp), fun _ => ⟨_, by rw [hrg]; rfl, hSw.size, hpos, by simp only [*]⟩⟩
       simp (disch := omega) only [*, hSw.size, Array.size_replicate, lenNe_self, oob_false, Bool.or_false])
    | skip
  all_goals first
    -- after the robust loop: `lopt[0] = robust_gcv[0, 1] > 0`; entry of the loop `for _ in range(10)`: `z[:] = 0.0`
    | (obtain ⟨g, hrg, hg2, hgpos, hrw⟩ := ‹(pyRange 0 1).length ≠ 0 → _› (by rw [pyRange_length]; decide)
       show _ ∧ (npFill _ _).size = _ ∧ _
       refine ⟨?_, ?_, ?_, ?_, Or.inl rfl⟩
       all_goals simp (disch := omega) only [*, rdA_single, oob_single, size_npFill, Array.size_replicate,
         List.size_toArray, Int.toNat_natCast, List.length_singleton, List.length_cons, List.length_nil, lenNe_self,
         oob_false, Bool.or_false, Bool.false_or])
    | skip
  all_goals first
    -- after the ten passes (or `break`): at least one pass, so `ww` is a re-weighting; the final fit, `np.round(z, 0, out)`
    | (obtain ⟨g, hrg, hg2, hgpos, hrw⟩ := ‹(pyRange 0 1).length ≠ 0 → _› (by rw [pyRange_length]; decide)
       have hC := (‹(pyRange 0 10).length = 0 ∨ _›).resolve_left (by rw [pyRange_length]; decide)
       have hcw := SafeFixed.ws2d_ok_arr _ _ _ (hC _ hgpos)
       simp (disch := omega) only [*, rdA_single, oob_single, rd_wr_zero _ _ hl, size_wr, hcw,
         SafeOptv.ws2d_call_size, lenNe_self, oob_false, Bool.or_false])
    | skip
  all_goals first
    -- one pass: `envelope`, the two mask stores, `ww = robust_weights * wa`, the fit, `znew[0:m] = …`; `break` / `z[0:m] = znew[0:m]`
    | (obtain ⟨g, hrg, hg2, hgpos, hrw⟩ := ‹(pyRange 0 1).length ≠ 0 → _› (by rw [pyRange_length]; decide)
       have hpc := fun (z wa : Array α) (hz : z.size = y.length) (ha : wa.size = y.length) =>
         pass_call_ok (hbase _ hgpos) p hp0 hp1 z wa (hz.trans hYs.symm) (ha.trans hYs.symm)
       refine ⟨?_, ?_, ?_, ?_, Or.inr (fun lam hlam => ?_)⟩
       · simp (disch := omega) only [*, rdA_single, oob_single, rd_wr_zero _ _ hl, size_wr, hpc,
           SafeOptv.ws2d_call_size, size_npSetSliceW, size_npSlice_nat, size_npMaskSet, size_npMap2, size_npMap,
           List.size_toArray, Nat.min_self, badSlice_full, sliceLenNe_full, lenNe_self, oob_false, Bool.or_false]
       · simp (disch := omega) only [*, SafeOptv.ws2d_call_size, size_npSetSliceW, size_npSlice_nat, size_npMaskSet,
           size_npMap2, size_npMap, List.size_toArray, Nat.min_self]
       · simp (disch := omega) only [*, SafeOptv.ws2d_call_size, size_npSetSliceW, size_npSlice_nat, size_npMaskSet,
           size_npMap2, size_npMap, List.size_toArray, Nat.min_self]
       · simp (disch := omega) only [*, SafeOptv.ws2d_call_size, size_npSetSliceW, size_npSlice_nat, size_npMaskSet,
           size_npMap2, size_npMap, List.size_toArray, Nat.min_self]
       · rw [hrw]
         exact pass_contract (hbase lam hlam) p hp0 hp1 _ _ (by rw [hYs]; assumption) (by rw [hYs]; assumption))
    | skip
  -- one grid point `s = 10 ** l`
  all_goals
    have hmem := mem_of_split ‹(npMap _ _).toList = _›
    simp only [toList_npMap, List.toList_toArray, List.mem_map] at hmem
    obtain ⟨l, hlm, hl10⟩ := hmem
    have hsp := hpow l hlm
    have hdn := hden l hlm
    rw [hl10] at hsp hdn
    have hSw := ‹SweepS G.big _ _ _›
    have hrwt := ‹_ = Array.replicate y.length (nat 1)›
    simp only [hrwt, hWT] at *
    simp only [SafeWs2d.safe_ws2d_fst, trOf_fold, scoreOf_fold] at *
  all_goals first
    | refine ⟨?_, ?_, hSw.step_lt _ _ hsp⟩
    | refine ⟨?_, ?_, hSw.step_ge _ (by simpa only [rd_pair_zero, decide_eq_true_eq] using ‹¬ decide _ = true›)⟩
  all_goals
    simp (disch := omega) only [*, hcall _ hsp, size_npMap, size_npMap2, C01gen.gen_ws2d_size_array, Nat.min_self,
      eqv_zero_false _ hS, eqv_zero_false _ (den_ne _ _ hS hdn), oob_pair, hSw.size, oob_false, lenNe_self,
      Bool.or_false]

/-! ### Non-vacuity and sharpness (ℚ; toy `sqrt x = x ** 0.5 = x`, `10 ** l = l + 1`,
`cos x = 1 - x²/2`, `π = 3`, `big = 10⁶`, `eig0 = 1/1000`; `round = id`; `isnan = isinf = false`; `nodata = -1`) -/

private def cosqp (x : ℚ) : ℚ := 1 - x * x / 2
private def Gqp : GFns ℚ :=
  ⟨fun i m => -2 + 2 * cosqp ((i : ℚ) * 3 / (m : ℚ)), 1 / 1000, fun x => x, fun x => x, fun x => x + 1, 1000000, 3 / 2, 5, 1000⟩
private def flp (G : GFns ℚ) (cos : ℚ → ℚ) (y llas : Array ℚ) (p : ℚ) (out lopt : Array ℚ) : Bool :=
  (Gen.Safe.ws2dwcvp G cos (fun _ => false) (fun _ => false) (fun v => v) 3 y (-1) p llas false out lopt).2

/-- an instance of the contract: 7 cells, the first one `nodata`, a grid of 2, the upper envelope `p = 9/10` -/
example : flp Gqp cosqp #[-1, 1, 5, 2, 8, 3, 4] #[0, 1] (9 / 10) #[0, 0, 0, 0, 0, 0, 0] #[9] = false :=
  safe_ws2dwcvp_plain_ok Gqp cosqp _ _ _ 3 [-1, 1, 5, 2, 8, 3, 4] [0, 1] (-1) (9 / 10) _ _
    ⟨by decide, by decide, by decide, fun _ => ⟨by decide +kernel, by decide +kernel, by decide +kernel⟩⟩
    (fun _ => ⟨by decide +kernel, by decide +kernel⟩)
/-- four valid cells (the early return `out[:] = y[:]; lopt[0] = 0`): only `ylen`, `out`, `lopt` matter, `p` is arbitrary -/
example : flp Gqp cosqp #[1, 5, -1, -1, 8, 3, -1] #[] 7 #[0, 0, 0, 0, 0, 0, 0] #[9] = false :=
  safe_ws2dwcvp_plain_ok Gqp cosqp _ _ _ 3 [1, 5, -1, -1, 8, 3, -1] [] (-1) 7 _ _
    ⟨by decide, by decide, by decide, fun h => absurd h (by decide +kernel)⟩ (fun h => absurd h (by decide +kernel))
/-- `ylen`: no cell at all, `d_eigs[0]` is out of range (NumPy: IndexError) -/
example : flp Gqp cosqp #[] #[0, 1] (9 / 10) #[] #[9] = true := by decide +kernel
/-- `out`: a buffer of another length (`np.round(z, 0, out)` / `out[:] = y[:]`), on both branches -/
example : flp Gqp cosqp #[-1, 1, 5, 2, 8, 3, 4] #[0, 1] (9 / 10) #[0, 0] #[9] = true := by decide +kernel
example : flp Gqp cosqp #[1, 5, -1, -1, 8, 3, -1] #[0, 1] (9 / 10) #[] #[9] = true := by decide +kernel
/-- `lopt`: an empty buffer (`lopt[0]`), on both branches -/
example : flp Gqp cosqp #[-1, 1, 5, 2, 8, 3, 4] #[0, 1] (9 / 10) #[0, 0, 0, 0, 0, 0, 0] #[] = true := by decide +kernel
example : flp Gqp cosqp #[1, 5, -1, -1, 8, 3, -1] #[0, 1] (9 / 10) #[0, 0, 0, 0, 0, 0, 0] #[] = true := by decide +kernel
/-- `0 < 10 ** l`: with `10 ** l = 0` the smoother is called with `λ = 0` and divides by zero at the missing first cell -/
example : flp { Gqp with pow10 := fun _ => 0 } cosqp #[-1, 1, 5, 2, 8, 3, 4] #[0, 1] (9 / 10) #[0, 0, 0, 0, 0, 0, 0] #[9] = true := by
  decide +kernel
/-- `gamma.sum() ≠ w.sum()`: `cos = 1`, `eig0 = 0`: every eigenvalue is 0, `denominator = 0` -/
example : flp { Gqp with eig0 := 0 } (fun _ => 1) #[-1, 1, 5, 2, 8, 3, 4] #[0, 1] (9 / 10) #[0, 0, 0, 0, 0, 0, 0] #[9] = true := by
  decide +kernel
/-- "some score is below `big`": an empty grid leaves `lopt[0] = 0`, every `ws2d(y, 0, ww)` of the ten passes divides by zero at
    the missing first cell; the same with `big = 0` -/
example : flp Gqp cosqp #[-1, 1, 5, 2, 8, 3, 4] #[] (9 / 10) #[0, 0, 0, 0, 0, 0, 0] #[9] = true := by decide +kernel
example : flp { Gqp with big := 0 } cosqp #[-1, 1, 5, 2, 8, 3, 4] #[0, 1] (9 / 10) #[0, 0, 0, 0, 0, 0, 0] #[9] = true := by decide +kernel
/-- `0 < p`: `p = 0` and data above the zero curve: every weight of the first pass is 0; `p = -1`: negative weights -/
example : flp Gqp cosqp #[1, 5, 2, 8, 3, 4] #[0, 1] 0 #[0, 0, 0, 0, 0, 0] #[9] = true := by decide +kernel
/-- `p < 1`: `p = 1` and data below the zero curve: every weight `1 - p` of the first pass is 0 -/
example : flp Gqp cosqp #[-2, -5, -3, -8, -3, -4] #[0, 1] 1 #[0, 0, 0, 0, 0, 0] #[9] = true := by decide +kernel

end Hdc.SafeWs2dwcvp

namespace Hdc.GenNum
open Hdc Hdc.C01 Hdc.Gen.NumKernels Hdc.PyNpW Hdc.Smooth Hdc.SafeL Hdc.SafeWcv Hdc.SafeOk Hdc.SafeOkP Std.Do

set_option mvcgen.warning false
set_option linter.unusedSimpArgs false
set_option linter.unusedTactic false
set_option linter.unreachableTactic false
set_option linter.unusedVariables false
set_option linter.unusedSectionVars false

variable {α : Type} [Field α] [LinearOrder α] [IsStrictOrderedRing α]

set_option hygiene false in
/-- after the robust loop (`robust = True`, four iterations done): the model state behind the program state; `robust_gcv[1][1]` is a
    positive λ of the grid; `robust_weights = w * r_weights` with the data is inside the contract of `ws2d` for every positive λ -/
macro "okp_pre" : tactic => `(tactic| (
       have h4l : (pyRange 0 4).length = 4 := by rw [pyRange_length]; decide
       obtain ⟨st, hst, hok⟩ := OuterInv.ok ‹OuterInv _ _ _ _ _ _ _ _ _ _ _ _ _ _ _ _ _› (by assumption)
       rw [h4l] at hst hok
       obtain ⟨hRI, hTP⟩ := grun_facts G _ _ _ _ _ _ st (by simp) hW2 hst
       have hrg := rg_size hok
       have hg2 := ‹∀ g ∈ _, g.size = 2› _ (rdA_mem_one _ (by rw [hrg]; omega))
       obtain ⟨hrws, hrwt⟩ := hok.rwts (by omega)
       have hmem := rg_lam_mem hok hRI (by omega)
       obtain ⟨l, hll, hl2⟩ := List.mem_map.1 hmem
       have hlpos := hpow l hll
       rw [hl2] at hlpos
       have hrl : st.2.1.length = y.length := by rw [hRI.1, hlen]
       have hrsz := congrArg List.length hrwt
       simp only [Array.length_toList, mul2_length, weightsOf_length, hrl, Nat.min_self] at hrsz
       have hzs := hok.zlen
       rw [hlen] at hzs
       have hbase : ∀ lam : α, 0 < lam → SafeWs2d.Contract ya.toList
           (mul2 (weightsOf (missG nodata isnan isinf) y) st.2.1) lam := fun lam hlam => by
         rw [hya]
         exact SafeWs2d.Contract.of_c01 (inContract_mul2 _ _ _ lam (by rw [hlen]; omega) (by simp) hW0
           (by rw [hlen]; exact hrl) hRI.2.1 hlam hTP)
       rw [← hrwt] at hbase))

set_option hygiene false in
macro "okp_entry" : tactic => `(tactic| (
       show _ ∧ (npFill _ _).size = _ ∧ _
       okp_pre
       refine ⟨?_, ?_, ?_, ?_, Or.inl rfl⟩
       all_goals simp (config := {zetaDelta := true}) (disch := omega) only [*, size_npFill, Array.size_replicate,
         Int.toNat_natCast, lenNe_self, oob_false, Bool.or_false, Bool.false_or]))

set_option hygiene false in
macro "okp_final" : tactic => `(tactic| (
       show _ = false
       okp_pre
       have hC := (‹(pyRange 0 10).length = 0 ∨ _›).resolve_left (by rw [pyRange_length]; decide)
       rw [← hya] at hC
       have hcw := SafeFixed.ws2d_ok_arr ya _ _ (hC _ hlpos)
       simp (config := {zetaDelta := true}) (disch := omega) only [*, rd_wr_zero _ _ hl, size_wr, hcw,
         SafeOptv.ws2d_call_size, lenNe_self, oob_false, Bool.or_false, Bool.false_or]))

set_option hygiene false in
macro "okp_step" : tactic => `(tactic| (
       okp_pre
       have hpc := fun (z wa : Array α) (hz : z.size = y.length) (ha : wa.size = y.length) =>
         pass_call_ok (hbase _ hlpos) p hp0 hp1 z wa (hz.trans hysz.symm) (ha.trans hysz.symm)
       refine ⟨?_, ?_, ?_, ?_, Or.inr (fun lam hlam => ?_)⟩
       · simp (config := {zetaDelta := true}) (disch := omega) only [*, rd_wr_zero _ _ hl, size_wr, hpc,
           SafeOptv.ws2d_call_size, size_npSetSliceW, size_npSlice_nat, size_npMaskSet, size_npMap2, size_npMap,
           Nat.min_self, badSlice_full, sliceLenNe_full, lenNe_self, oob_false, Bool.or_false, Bool.false_or]
       · simp (config := {zetaDelta := true}) (disch := omega) only [*, SafeOptv.ws2d_call_size, size_npSetSliceW,
           size_npSlice_nat, size_npMaskSet, size_npMap2, size_npMap, Nat.min_self]
       · simp (config := {zetaDelta := true}) (disch := omega) only [*, SafeOptv.ws2d_call_size, size_npSetSliceW,
           size_npSlice_nat, size_npMaskSet, size_npMap2, size_npMap, Nat.min_self]
       · simp (config := {zetaDelta := true}) (disch := omega) only [*, SafeOptv.ws2d_call_size, size_npSetSliceW,
           size_npSlice_nat, size_npMaskSet, size_npMap2, size_npMap, Nat.min_self]
       · rw [← hya]
         exact pass_contract (hbase lam hlam) p hp0 hp1 _ _ (by rw [hysz]; assumption) (by rw [hysz]; assumption)))

set_option maxHeartbeats 2000000 in
/-- `robust = True`: under `RobustContract` (Hdc/Props/SafeWs2dwcvOk.lean: the buffers; with more than four valid cells every
    `10 ** l` positive, the model's chain of four iterations defined, `gamma.sum() ≠ w_temp.sum()` for every λ swept in every
    iteration) and `0 < p < 1` the flag is false.  `hG` ties the eigenvalue table of the model to the expression of the source. -/
theorem safe_ws2dwcvp_robust_ok (G : GFns α) (cos : α → α) (isnan isinf : α → Bool) (rnd : α → α) (pi : α)
    (y llas : List α) (nodata p : α) (out0 lopt0 : Array α)
    (hG : ∀ i m : ℕ, G.eig i m = -2 + 2 * cos ((i : α) * pi / (m : α)))
    (hc : RobustContract G isnan isinf y llas nodata out0 lopt0)
    (hp : 4 < countValid (missG nodata isnan isinf) y → 0 < p ∧ p < 1) :
    (Gen.Safe.ws2dwcvp G cos isnan isinf rnd pi y.toArray nodata p llas.toArray true out0 lopt0).2 = false := by
  have hl := hc.lopt
  have hy1 := hc.ylen
  have ho := hc.out
  have hfit := hc.fit
  unfold Gen.Safe.ws2dwcvp
  simp -zeta only [Bool.not_true, Bool.false_eq_true, ↓reduceIte]
  generalize hres : Id.run _ = res
  apply Id.of_wp_run_eq hres
  mvcgen invariants
  · ⇓⟨xs, s⟩ => ⌜s.1 = false ∧ s.2.1 = false ∧
      OuterInv G (cleanOf (missG nodata isnan isinf) y) (weightsOf (missG nodata isnan isinf) y)
        (deigs G y.length) (llas.map G.pow10) true (sumF (weightsOf (missG nodata isnan isinf) y))
        xs.prefix.length s.2.1 s.2.2.1 s.2.2.2.1 s.2.2.2.2.1 s.2.2.2.2.2.1 s.2.2.2.2.2.2.1 s.2.2.2.2.2.2.2.1
        s.2.2.2.2.2.2.2.2.1 s.2.2.2.2.2.2.2.2.2 ∧
      s.2.2.2.2.2.2.2.2.2.size = 2 ∧ (∀ g ∈ s.2.2.2.2.2.2.2.2.1.toList, g.size = 2)⌝
  · ⇓⟨xs, s⟩ => by
      py_name gcv_temp as gt0; py_name y_temp as yt0; py_name y_temp_set as set0
      py_name r_weights as rw0; py_name unbound as ub0
      exact ⌜s.1 = false ∧ (ub0 = false → SweepOk G (cleanOf (missG nodata isnan isinf) y)
        (mul2 (weightsOf (missG nodata isnan isinf) y) rw0.toList) (deigs G y.length) (bestOf gt0 yt0 set0)
        xs.prefix s.2.2.2.2.1 s.2.1 s.2.2.1 s.2.2.2.1) ∧ s.2.2.2.2.1.size = 2⌝
  · ⇓⟨xs, s⟩ => by
      py_name gcv_temp as gt0; py_name y_temp as yt0; py_name y_temp_set as set0
      py_name r_weights as rw0; py_name unbound as ub0
      exact ⌜s.1 = false ∧ (ub0 = false → SweepOk G (cleanOf (missG nodata isnan isinf) y)
        (mul2 (weightsOf (missG nodata isnan isinf) y) rw0.toList) (deigs G y.length) (bestOf gt0 yt0 set0)
        xs.prefix s.2.2.2.2.1 s.2.1 s.2.2.1 s.2.2.2.1) ∧ s.2.2.2.2.1.size = 2⌝
  -- `for _ in range(10)`, state `(bad, unbound, ww, z, znew, wa)`
  · ⇓⟨xs, s⟩ => ⌜s.1 = false ∧ s.2.2.2.1.size = y.length ∧ s.2.2.2.2.1.size = y.length ∧ s.2.2.2.2.2.size = y.length ∧
      (xs.prefix.length = 0 ∨ ∀ lam : α, 0 < lam →
        SafeWs2d.Contract (cleanOf (missG nodata isnan isinf) y) s.2.2.1.toList lam)⌝
  all_goals wcv_setup
  all_goals try casesm* _ ∧ _
  all_goals first
    | (have hnot : ¬ decide ((nat 4 : α) < na) = true := by assumption
       have hWs : wa.size = y.length := by rw [← Array.length_toList, hwa, weightsOf_length]
       simp (config := {zetaDelta := true}) (disch := omega) only [*, size_npMap, size_npArange, List.size_toArray,
         Int.toNat_natCast, npCopyTo_eq, lenNe_self, oob_false, Bool.or_false, Bool.false_or]
       done)
    | wcv_setup_y
  all_goals
    try clear hres
    obtain ⟨hpow, hrun, hden⟩ := hfit h4
    obtain ⟨hp0, hp1⟩ := hp h4
    have hWs : wa.size = y.length := by rw [← Array.length_toList, hwa, weightsOf_length]
    have hDs : dea.size = y.length := by rw [← Array.length_toList, hde]; simp [deigs]
    have hW2 : TwoPos (weightsOf (missG nodata isnan isinf) y) := twoPos_weights _ _ (by omega)
    have hW0 := weightsOf_nonneg (missG nodata isnan isinf) y
  all_goals first
    | ok_sweep_step
    | ok_sweep_init
    | ok_outer_init
    | ok_unset
    | skip
  all_goals first
    | ok_outer_step
    | skip
  all_goals first
    | ok_unset
    | okp_entry
    | okp_final
    | okp_step

/-- both values of `robust`; the contract is the one of `ws2dwcv` for that value, plus `0 < p < 1` when more than four cells are valid -/
theorem safe_ws2dwcvp_ok (G : GFns α) (cos : α → α) (isnan isinf : α → Bool) (rnd : α → α) (pi : α)
    (y llas : List α) (nodata p : α) (robust : Bool) (out0 lopt0 : Array α)
    (hG : robust = true → ∀ i m : ℕ, G.eig i m = -2 + 2 * cos ((i : α) * pi / (m : α)))
    (hc : if robust then RobustContract G isnan isinf y llas nodata out0 lopt0
      else SafeWs2dwcv.Contract G cos isnan isinf pi y llas nodata out0 lopt0)
    (hp : 4 < countValid (missG nodata isnan isinf) y → 0 < p ∧ p < 1) :
    (Gen.Safe.ws2dwcvp G cos isnan isinf rnd pi y.toArray nodata p llas.toArray robust out0 lopt0).2 = false := by
  cases robust
  · exact SafeWs2dwcvp.safe_ws2dwcvp_plain_ok G cos isnan isinf rnd pi y llas nodata p out0 lopt0 hc hp
  · exact safe_ws2dwcvp_robust_ok G cos isnan isinf rnd pi y llas nodata p out0 lopt0 (hG rfl) hc hp

/-! ### Non-vacuity, `robust = True` (ℚ; `Gq`, `cosq` of Hdc/Props/GenNumWcv.lean).  The kernel of Lean cannot evaluate `np.median`
(the model's `median` sorts with `List.mergeSort`), so instances that run the re-weighting block cannot be closed by `decide`; the
hypotheses of `RobustContract` are shown sharp in Hdc/Props/SafeWs2dwcvOk.lean (same robust loop), those on `p` above (same ten passes). -/

private def flpr (G : GFns ℚ) (cos : ℚ → ℚ) (y llas : Array ℚ) (p : ℚ) (out lopt : Array ℚ) : Bool :=
  (Gen.Safe.ws2dwcvp G cos (fun _ => false) (fun _ => false) (fun v => v) 3 y (-1) p llas true out lopt).2

/-- an instance of the contract with more than four valid cells: an affine series (all residuals 0, the MAD is 0, the robust weights
    stay 1; the chain is `grun_perfect`, the denominators are checked at the two grid values), `p = 9/10` -/
example : flpr Gq cosq #[1, 2, 3, 4, 5, 6] #[0, 1] (9 / 10) #[0, 0, 0, 0, 0, 0] #[9] = false := by
  refine safe_ws2dwcvp_robust_ok Gq cosq _ _ _ 3 [1, 2, 3, 4, 5, 6] [0, 1] (-1) (9 / 10) _ _ hGq
    ⟨by decide, by decide, by decide, fun h4 => ?_⟩ (fun _ => ⟨by decide +kernel, by decide +kernel⟩)
  have hpow : ∀ l ∈ [(0 : ℚ), 1], 0 < Gq.pow10 l := by decide +kernel
  have hmt : (0 : ℚ) ≤ Gq.madtol := by decide +kernel
  have hline : ∀ i (hi : i < [(1 : ℚ), 2, 3, 4, 5, 6].length),
      missG (-1) (fun _ => false) (fun _ => false) [(1 : ℚ), 2, 3, 4, 5, 6][i] = false →
      [(1 : ℚ), 2, 3, 4, 5, 6][i] = 1 + 1 * (i : ℚ) := by
    intro i hi _
    simp only [List.length_cons, List.length_nil] at hi
    interval_cases i <;> norm_num
  have hres := C05.perfect_of_line _ _ 1 1 hline
  have hfit : ∀ s ∈ [(0 : ℚ), 1].map Gq.pow10,
      ws2d (cleanOf (missG (-1) (fun _ => false) (fun _ => false)) [(1 : ℚ), 2, 3, 4, 5, 6]) s
        (weightsOf (missG (-1) (fun _ => false) (fun _ => false)) [(1 : ℚ), 2, 3, 4, 5, 6]) = lineList 1 1 6 := by
    intro s hs
    obtain ⟨l, hl, rfl⟩ := List.mem_map.1 hs
    exact C05.fit_of_line _ _ 1 1 h4 hline _ (hpow l hl)
  refine ⟨hpow, ?_, ?_⟩
  · have := grun_perfect Gq hmt hres rfl (by simp) (deigs Gq 6) (Gq.pow10 0) ([1].map Gq.pow10) hfit
      (sumF (weightsOf (missG (-1) (fun _ => false) (fun _ => false)) [(1 : ℚ), 2, 3, 4, 5, 6])) (by decide +kernel)
    exact Option.isSome_iff_exists.2 ⟨_, this⟩
  · intro k hk st hst s hs
    have hI := grun_rinv Gq (deigs Gq 6) ([(0 : ℚ), 1].map Gq.pow10) _ (by simp) k 0 _ st (rinv_gstate0 Gq _ _) hst
    have hP := grun_perfInv Gq hmt hres (by simp) (deigs Gq 6) _ hfit _ k 0 _ st (rinv_gstate0 Gq _ _)
      (perfInv_gstate0 Gq _ _) hst
    rw [hP.1, mul2_ones' _ _ (by simp)]
    have hs' := iterLams_subset _ k st.2.2 hI.2.2.2 s hs
    simp only [List.map_cons, List.map_nil, List.mem_cons, List.not_mem_nil, or_false] at hs'
    rcases hs' with rfl | rfl <;> decide +kernel
/-- four valid cells (pass-through): only `ylen`, `out`, `lopt` matter -/
example : flpr Gq cosq #[1, 5, -1, -1, 8, 3, -1] #[] 7 #[0, 0, 0, 0, 0, 0, 0] #[9] = false :=
  safe_ws2dwcvp_robust_ok Gq cosq _ _ _ 3 [1, 5, -1, -1, 8, 3, -1] [] (-1) 7 _ _ hGq
    ⟨by decide, by decide, by decide, fun h => absurd h (by decide +kernel)⟩ (fun h => absurd h (by decide +kernel))
/-- the three buffer hypotheses, `robust = True` -/
example : flpr Gq cosq #[] #[0, 1] (9 / 10) #[] #[9] = true := by decide +kernel
example : flpr Gq cosq #[1, 5, -1, -1, 8, 3, -1] #[0, 1] (9 / 10) #[] #[9] = true := by decide +kernel
example : flpr Gq cosq #[1, 5, -1, -1, 8, 3, -1] #[0, 1] (9 / 10) #[0, 0, 0, 0, 0, 0, 0] #[] = true := by decide +kernel

end Hdc.GenNum
