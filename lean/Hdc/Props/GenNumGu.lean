import Hdc.Lemmas.GenNumFixed
import Hdc.Gen.NumWs2dgu
import Std.Tactic.Do
import Mathlib.Tactic.NormNum
/-
GenNumGu  The GENERATED translation of `hdc/algo/ops/ws2dgu.py::ws2dgu` (Hdc/Gen/NumWs2dgu.lean, written by
harness/py2lean_fixed.py from the current Python source: an `Id.run do` program over an abstract carrier, its
NumPy vector expressions composed from the combinators of Hdc/PyNpF.lean) computes the hand model `Hdc.gu`.

  gen_ws2dgu_eq_model     = (curve of `Hdc.gu`).map rnd  /  the input (pass-through), for all inputs
  gen_ws2dgu_some, gen_ws2dgu_none, gen_ws2dgu_size     corollaries

Method: `mvcgen` splits the program into its three paths (λ = 0; fewer than two valid cells; the fit); every
path presents the source assignments as local definitions; `PyNpF.*_eq` turns each combinator into the list
operation it stands for, and the lemmas of Hdc/Lemmas/GenNumFixed.lean identify the resulting list
expressions with `weightsOf`, `cleanOf`, `countValid`; the call of the translated `ws2d` is the model's by
`C01gen.gen_ws2d_eq_model`.  The generated expressions are never copied into this file.
-/
namespace Hdc.GenNum
open Hdc Hdc.Gen.NumKernels Std.Do Hdc.PyNpF

set_option mvcgen.warning false
set_option linter.unusedSimpArgs false
set_option linter.unusedTactic false
set_option linter.unreachableTactic false
set_option linter.unusedSectionVars false

section gu
variable {α : Type} [Field α] [LinearOrder α] [IsStrictOrderedRing α]

/-- The translated `ws2dgu` equals the hand model `Hdc.gu` with the missing-cell test
    `x == nodata or isnan(x) or isinf(x)` (`isnan`, `isinf` arbitrary predicates: an ordered field has no
    NaN / ∞): the rounded smoothed curve if `λ ≠ 0` and at least two cells are valid, the input otherwise.

    Hypotheses.
    * `hout : out0.size = len(y)` - the gufunc layout `(n),(),() -> (n)`; `out[:] = …` and
      `np.round(z, 0, out)` write *into* `out` (the content of `out0` is irrelevant).
    * `h2 : len(y) ≠ 2` - `ws2d` is specified for `n ≥ 3` (C01gen); with `n ≤ 1` the kernel never calls
      it (fewer than two valid cells), so only `n = 2` is excluded: there source and model differ. -/
theorem gen_ws2dgu_eq_model (rnd : α → α) (isnan isinf : α → Bool) (y : List α) (lam nodata : α)
    (out0 : Array α) (hout : out0.size = y.length) (h2 : y.length ≠ 2) :
    Gen.NumKernels.ws2dgu rnd isnan isinf y.toArray lam nodata out0 =
      match Hdc.gu (fun x => eqv x nodata || isnan x || isinf x) y lam with
      | some z => (z.map rnd).toArray
      | none => y.toArray := by
  generalize hres : Gen.NumKernels.ws2dgu rnd isnan isinf y.toArray lam nodata out0 = res
  apply Id.of_wp_run_eq hres
  mvcgen
  -- every combinator is the list operation it stands for; `w`, `n > 1`, the cleaned `y` are the model's
  all_goals
    simp (config := {zetaDelta := true}) only [npComp_eq, npBoolToNum_eq, npZipAA_eq, npZipSA_eq,
      npZipAS_eq, npMap_eq, npSum_eq, npWhereSA_eq, npWhereAS_eq, npWhereSS_eq, List.toList_toArray,
      weights_eq, sum_weights, clean_eq, decide_eq_true_eq, one_lt_count, Bool.not_eq_true',
      Bool.not_eq_false] at *
  all_goals first
    -- the fit: `z = ws2d(y, lmda, w); np.round(z, 0, out)`
    | (have hc := ‹1 < countValid _ y›
       have h3 := three_le_of_count _ y hc h2
       rw [gu_some _ y lam ‹eqv lam _ = false› hc]
       exact round_gen_ws2d_list rnd _ _ out0 lam (by simp) (by simp [hout]) (by simp [h3]))
    -- fewer than two valid cells: `out[:] = y[:]`
    | (rw [gu_none_count _ y lam ‹¬ 1 < countValid _ y›]
       exact setAll_list out0 y hout)
    -- `lmda == 0`: `out[:] = y[:]`
    | (rw [gu_none_lam _ y lam ‹eqv lam _ = true›]
       exact setAll_list out0 y hout)

/-- the model produces a curve: the output is its rounding -/
theorem gen_ws2dgu_some (rnd : α → α) (isnan isinf : α → Bool) (y : List α) (lam nodata : α)
    (out0 : Array α) (hout : out0.size = y.length) (h2 : y.length ≠ 2) (z : List α)
    (hm : Hdc.gu (fun x => eqv x nodata || isnan x || isinf x) y lam = some z) :
    Gen.NumKernels.ws2dgu rnd isnan isinf y.toArray lam nodata out0 = (z.map rnd).toArray := by
  rw [gen_ws2dgu_eq_model rnd isnan isinf y lam nodata out0 hout h2, hm]

/-- the model passes the input through (`λ = 0` or fewer than two valid cells); no restriction on `len(y)` -/
theorem gen_ws2dgu_none (rnd : α → α) (isnan isinf : α → Bool) (y : List α) (lam nodata : α)
    (out0 : Array α) (hout : out0.size = y.length)
    (hm : Hdc.gu (fun x => eqv x nodata || isnan x || isinf x) y lam = none) :
    Gen.NumKernels.ws2dgu rnd isnan isinf y.toArray lam nodata out0 = y.toArray := by
  by_cases h2 : y.length = 2
  · -- two cells: the model can only pass through when the source does
    generalize hres : Gen.NumKernels.ws2dgu rnd isnan isinf y.toArray lam nodata out0 = res
    apply Id.of_wp_run_eq hres
    mvcgen
    all_goals
      simp (config := {zetaDelta := true}) only [npComp_eq, npBoolToNum_eq, npZipAA_eq, npZipSA_eq,
        npZipAS_eq, npMap_eq, npSum_eq, npWhereSA_eq, npWhereAS_eq, npWhereSS_eq,
        List.toList_toArray, weights_eq, sum_weights, clean_eq, decide_eq_true_eq, one_lt_count,
        Bool.not_eq_true', Bool.not_eq_false] at *
    all_goals first
      | (rw [gu_some _ y lam ‹eqv lam _ = false› ‹1 < countValid _ y›] at hm; cases hm)
      | exact setAll_list out0 y hout
  · rw [gen_ws2dgu_eq_model rnd isnan isinf y lam nodata out0 hout h2, hm]

/-- the output keeps the length of the series -/
theorem gen_ws2dgu_size (rnd : α → α) (isnan isinf : α → Bool) (y : Array α) (lam nodata : α)
    (out0 : Array α) :
    (Gen.NumKernels.ws2dgu rnd isnan isinf y lam nodata out0).size = out0.size := by
  generalize hres : Gen.NumKernels.ws2dgu rnd isnan isinf y lam nodata out0 = res
  apply Id.of_wp_run_eq hres
  mvcgen
  all_goals simp (config := {zetaDelta := true}) only [size_npRoundInto, size_npSetAll]

/-! ### non-vacuity on concrete rational inputs (`rnd` the identity, no NaN / ∞ in ℚ) -/

/-- five valid cells, λ = 2; the buffer starts with garbage -/
example :
    Gen.NumKernels.ws2dgu (fun v => v) (fun _ => false) (fun _ => false) [1, 2, 4, 3, 5].toArray
        (2 : ℚ) (-1) #[7, 7, 7, 7, 7]
      = #[827 / 737, 1580 / 737, 208 / 67, 2853 / 737, 3507 / 737] := by
  rw [gen_ws2dgu_some _ _ _ [1, 2, 4, 3, 5] _ _ _ (by rfl) (by decide)
    [827 / 737, 1580 / 737, 208 / 67, 2853 / 737, 3507 / 737] (by decide +kernel)]
  rfl

/-- one nodata cell (weight 0, its value kept out of the arithmetic) -/
example :
    Gen.NumKernels.ws2dgu (fun v => v) (fun _ => false) (fun _ => false) [1, -1, 4, 3, 5].toArray
        (2 : ℚ) (-1) #[7, 7, 7, 7, 7]
      = #[279 / 233, 519 / 233, 736 / 233, 907 / 233, 1107 / 233] := by
  rw [gen_ws2dgu_some _ _ _ [1, -1, 4, 3, 5] _ _ _ (by rfl) (by decide)
    [279 / 233, 519 / 233, 736 / 233, 907 / 233, 1107 / 233] (by decide +kernel)]
  rfl

/-- a cell flagged by `isnan` is missing as well (here: the predicate `x = 4`) -/
example :
    Gen.NumKernels.ws2dgu (fun v => v) (fun x => decide (x = 4)) (fun _ => false)
        [1, 2, 4, 3, 5].toArray (2 : ℚ) (-1) #[7, 7, 7, 7, 7]
      = Gen.NumKernels.ws2dgu (fun v => v) (fun _ => false) (fun _ => false)
        [1, 2, -1, 3, 5].toArray (2 : ℚ) (-1) #[0, 0, 0, 0, 0] := by
  rw [gen_ws2dgu_eq_model _ _ _ [1, 2, 4, 3, 5] _ _ _ (by rfl) (by decide),
    gen_ws2dgu_eq_model _ _ _ [1, 2, -1, 3, 5] _ _ _ (by rfl) (by decide)]
  decide +kernel

/-- a single valid cell: pass-through -/
example :
    Gen.NumKernels.ws2dgu (fun v => v) (fun _ => false) (fun _ => false) [1, -1, -1, -1].toArray
        (2 : ℚ) (-1) #[7, 7, 7, 7] = #[1, -1, -1, -1] := by
  rw [gen_ws2dgu_none _ _ _ [1, -1, -1, -1] _ _ _ (by rfl) (by decide +kernel)]

/-- λ = 0: pass-through, also on two cells -/
example :
    Gen.NumKernels.ws2dgu (fun v => v) (fun _ => false) (fun _ => false) [1, 2].toArray
        (0 : ℚ) (-1) #[7, 7] = #[1, 2] := by
  rw [gen_ws2dgu_none _ _ _ [1, 2] _ _ _ (by rfl) (by decide +kernel)]

/-! ### the two hypotheses are needed -/

/-- `len(y) = 2`, both cells valid: the source (`ws2d` reads wrapped-around cells) and the model differ -/
example :
    Gen.NumKernels.ws2dgu (fun v => v) (fun _ => false) (fun _ => false) [1, 2].toArray (2 : ℚ)
        (-1) #[7, 7] = #[11 / 7, 38 / 21]
    ∧ Hdc.gu (fun x => eqv x (-1) || false || false) [1, 2] (2 : ℚ) = some [-11 / 7, -10 / 7] := by
  decide +kernel

/-- a buffer of another length than the series: `out[:] = y[:]` cannot be performed (NumPy raises; the
    translation keeps the buffer) -/
example :
    Gen.NumKernels.ws2dgu (fun v => v) (fun _ => false) (fun _ => false) [1, 2, 4, 3, 5].toArray
        (0 : ℚ) (-1) #[7, 7, 7] = #[7, 7, 7] := by
  decide +kernel

end gu

end Hdc.GenNum
