import Hdc.Lemmas.GenNumGammastdYxt
import Hdc.Gen.NumGammastdYxt
import Hdc.Props.GenNumGammastd
import Std.Tactic.Do
/-
GenNumGammastdYxt  The GENERATED translation of `ops/stats.py::gammastd_yxt` (Hdc/Gen/NumGammastdYxt.lean, written by
harness/py2lean_spi.py from the current Python source) computes the model `Hdc.gammastdYxt` (Hdc/Model/StatsExt.lean:
per pixel `Hdc.gammastd`, then `Hdc.spiCell`; the hand model of Hdc/Model/Stats.lean has no function for this wrapper).

  gen_gammastd_yxt_eq_model   fromArr3 (gammastd_yxt … (toArr3 x) nodata cal_start cal_stop)
                                = Hdc.gammastdYxt (brentRoot F …) rnd (−32768) 32767 1000 x nodata cs ce

Hypotheses and why each is needed:
  hcube  `x` is a rectangular (rows, columns, time) cube: what a NumPy 3-d array is (the translation stores it as nested arrays)
  hrnd   round(nodata) = nodata    `np.round(s, 0, s)` also rounds the sentinel cells (as for `gammastd_grp`)
  hnd    no value of the model equals the sentinel (the source recognises "no value" by `s[ti] == nodata`, as for `gammastd_grp`)
The window bounds are `Option ℕ` (`None` = the defaults `0` / `t`).

Method: `mvcgen`, three invariants (Hdc/Lemmas/GenNumGammastdYxt.lean): `YInv` for the loops over rows and columns (the
pixels before `(ri, ci)` hold the model's series, the others are still nodata), `ScaleInv` for the loop over the time steps.
-/
namespace Hdc.GenNum
open Hdc Hdc.Gen.NumKernels Std.Do

set_option mvcgen.warning false
set_option linter.unusedSimpArgs false
set_option linter.unusedTactic false
set_option linter.unreachableTactic false

section yxt
variable {α : Type} [Field α] [LinearOrder α] [IsStrictOrderedRing α]

/-- the call `gammastd(x[ri, ci, :], nodata, cal_start, cal_stop)` of the translated `gammastd` computes the model's
    series of the pixel -/
theorem gen_gammastd_pixel (F : GamFns α) (digamma : α → α) (xtol rtol : α) (x : List (List (List α)))
    (nodata : α) (cs ce : Option ℕ) (t p q : ℕ) :
    Gen.NumKernels.gammastd F digamma xtol rtol (xrow x p q).toArray nodata
        ((cs.map Int.ofNat).getD 0) ((ce.map Int.ofNat).getD (t : ℤ)) (nat 0) (nat 0)
      = ((pixModel (brentRoot F digamma xtol rtol) x nodata cs ce t p q).map (fun o => o.getD nodata)).toArray := by
  rw [optInt_getD_zero, optInt_getD_nat, gen_gammastd_eq_model_arr, pixModel]

/-- The translated `gammastd_yxt` equals the per-pixel model: every pixel's series standardised, scaled by 1000,
    saturated to the int16 range and rounded. -/
theorem gen_gammastd_yxt_eq_model (F : GamFns α) (digamma : α → α) (xtol rtol : α) (rnd : α → α)
    (x : List (List (List α))) (nodata : α) (cs ce : Option ℕ)
    (hcube : Cube x) (hrnd : rnd nodata = nodata)
    (hnd : ∀ i < x.length, ∀ j < (x.headD []).length, some nodata ∉
      pixModel (brentRoot F digamma xtol rtol) x nodata cs ce ((x.headD []).headD []).length i j) :
    fromArr3 (Gen.NumKernels.gammastd_yxt F digamma xtol rtol rnd (toArr3 x) nodata
        (cs.map Int.ofNat) (ce.map Int.ofNat))
      = Hdc.gammastdYxt (brentRoot F digamma xtol rtol) rnd (-(nat 32768)) (nat 32767) (nat 1000) x nodata cs ce := by
  generalize hres : Gen.NumKernels.gammastd_yxt F digamma xtol rtol rnd (toArr3 x) nodata
        (cs.map Int.ofNat) (ce.map Int.ofNat) = res
  have hrect : Rect x (x.headD []).length ((x.headD []).headD []).length := hcube
  have hnd' : ∀ i < x.length, ∀ j < (x.headD []).length, ∀ v,
      some v ∈ pixModel (brentRoot F digamma xtol rtol) x nodata cs ce
        ((x.headD []).headD []).length i j → v ≠ nodata := fun i hi j hj v hv e => hnd i hi j hj (e ▸ hv)
  apply Id.of_wp_run_eq hres
  mvcgen invariants
  -- rows, state `(·, ·, y)`
  · ⇓⟨xs, s⟩ => ⌜YInv (fun i j => (pixModel (brentRoot F digamma xtol rtol) x nodata cs ce
        ((x.headD []).headD []).length i j).map (grpCell rnd nodata))
      nodata x.length (x.headD []).length ((x.headD []).headD []).length xs.prefix.length 0 s.2.2⌝
  -- columns
  · ⇓⟨xs, s⟩ => by
      py_name cur as ro
      exact ⌜YInv (fun i j => (pixModel (brentRoot F digamma xtol rtol) x nodata cs ce
          ((x.headD []).headD []).length i j).map (grpCell rnd nodata))
        nodata x.length (x.headD []).length ((x.headD []).headD []).length ro.toNat xs.prefix.length s.2.2⌝
  -- time steps, state `s`
  · ⇓⟨xs, s⟩ => by
      py_name cur as co; py_name cur as ro
      exact ⌜ScaleInv nodata ((pixModel (brentRoot F digamma xtol rtol) x nodata cs ce
        ((x.headD []).headD []).length ro.toNat co.toNat).map (fun o => o.getD nodata)) xs.prefix.length s⌝
  all_goals
    pyn_ranges
    pyn_subst
    simp (config := {zetaDelta := true}) only [List.size_toArray, List.length_append,
      List.length_singleton, List.length_nil, pyRange_length, decide_eq_true_eq, gt_iff_lt,
      Int.toNat_natCast, Bool.not_eq_true', decide_eq_false_iff_not, not_not, Int.zero_add, zero_add,
      Int.sub_zero, (shape3_toArr3 x).1, (shape3_toArr3 x).2.1, (shape3_toArr3 x).2.2, rd3_nat, rowOf_toArr3,
      gen_gammastd_pixel, List.map_toArray, npCount_toArray, filter_id_map_length, Int.natCast_eq_zero,
      Int.natCast_pos, true_and] at *
  all_goals first
    -- a pixel without data: `y[ri, ci, :] = nodata; continue`
    | exact (‹YInv _ _ _ _ _ _ _ _›).step_fill (by omega) (by omega)
        (by rw [pix_all_nodata _ rnd x nodata cs ce _ _ _ ‹_›, xrow_length x _ _ hrect _ _ (by omega) (by omega)])
    -- time steps: a sentinel cell (`continue`) / a value (scaled, saturated)
    | exact (‹ScaleInv _ _ _ _›).step_skip
        (by rw [List.length_map, pixModel_length, xrow_length x _ _ hrect _ _ (by omega) (by omega)]; omega) rfl ‹_›
    | exact (‹ScaleInv _ _ _ _›).step_scale
        (by rw [List.length_map, pixModel_length, xrow_length x _ _ hrect _ _ (by omega) (by omega)]; omega) rfl ‹_›
    | exact ScaleInv.init _ _
    -- after the time steps: `np.round(s, 0, s); y[ri, ci, :] = s[:]`
    | exact (‹YInv _ _ _ _ _ _ _ _›).step_write (by omega) (by omega) _
        (by rw [Array.toList_map, (‹ScaleInv _ _ _ _›).final
              (by rw [List.length_map, pixModel_length, xrow_length x _ _ hrect _ _ (by omega) (by omega)]),
            scaled_cells_yxt rnd nodata _ (hnd' _ (by omega) _ (by omega)) hrnd])
    -- no value in the result: the pixel keeps its nodata row
    | exact (‹YInv _ _ _ _ _ _ _ _›).step_keep (by omega) (by omega)
        (by rw [all_nodata_cells rnd nodata _ (hnd' _ (by omega) _ (by omega)) (by omega), pixModel_length,
              xrow_length x _ _ hrect _ _ (by omega) (by omega)])
    -- end of a row of pixels / entry of the loops / the result
    | exact (‹YInv _ _ _ _ _ _ _ _›).next_plane (le_refl _)
    | exact YInv.init _ nodata x _ _ hrect
    | exact YInv.final ‹YInv _ _ _ _ _ _ _ _› hrect (le_refl _)
    | assumption

/-- non-vacuity (toy special functions `Gq`, `dgq` of GenNumGammafit, `np.round` on ℚ): a 2 × 2 cube of 6 steps.
    Pixel (0,0) is the series of the `gammastd` example (default window): 203, 156, 109, 250; pixel (0,1) has no
    data; pixel (1,0) has a single positive cell (not fittable); pixel (1,1) has more than 90 % zeros. -/
example :
    fromArr3 (Gen.NumKernels.gammastd_yxt Gq dgq (1 / 1000) (1 / 1000) (fun v => (Py.roundHalfEvenRat v : ℚ))
      (toArr3 [[[1, 2, -1, 3, -9999, 0], [-9999, -9999, -9999, -9999, -9999, -9999]],
               [[5, -1, -9999, -2, -3, -9999], [0, 0, 0, 0, 0, 0]]])
      (-9999) (Option.map Int.ofNat none) (Option.map Int.ofNat none))
    = [[[203, 156, -9999, 109, -9999, 250], [-9999, -9999, -9999, -9999, -9999, -9999]],
       [[-9999, -9999, -9999, -9999, -9999, -9999], [-9999, -9999, -9999, -9999, -9999, -9999]]] := by
  refine (gen_gammastd_yxt_eq_model (α := ℚ) _ _ _ _ _ _ _ _ _ ?_ ?_ ?_).trans ?_
  · exact ⟨by decide, by decide⟩
  · decide +kernel
  · decide +kernel
  · decide +kernel

end yxt
end Hdc.GenNum
