import Hdc.Gen.SafeWs2dwcv
import Hdc.Gen.NumWs2dwcv
import Hdc.Lemmas.SafeWcv
import Hdc.Lemmas.SafeSimN
import Std.Tactic.Do
import Mathlib.Tactic.CasesM
/-
SafeWs2dwcv  Safety of `hdc/algo/ops/ws2dwcv.py::ws2dwcv`, FROM THE SOURCE: `Hdc.Gen.Safe.ws2dwcv` (Hdc/Gen/SafeWs2dwcv.lean,
written by the `safe` mode of harness/py2lean_wcv.py) is the statement-by-statement translation plus the flag `bad`, set by
  * `oob a.size i`       `d_eigs[0]`; `robust_gcv[1][1]` (two checks: the list, then the row); `gcv[0]`, `gcv_temp[0]`; `best_gcv[1]`;
                         `robust_gcv[1, 1]` / `robust_gcv[0, 1]` (two checks each); `lopt[0]` (store and read)
  * `lenNe a.size b.size`  every NumPy operation on two arrays: `np.where(w == 0, 0.0, y)`, `w * r_weights`, the three binary
                         operations of `gamma = ...` (twice), `y - z`, `(w_temp**0.5) * (y - z)`, `y - y_temp`, `r_arr[w_temp != 0]`,
                         `y[w != 0]`, the two mask stores into `r_new`, `w * r_new`, `np.round(z, 0, out)`, `out[:] = y[:]`
  * `emptyArr a.size`    `np.max(y_valid)`, `np.min(y_valid)`
  * `decide (m < 0)`     `np.zeros(m)`, `np.ones(m)`
  * `eqv e 0`            the SCALAR divisions `tr_H / w_temp.sum()`, `wsse / denominator`, `gamma.sum() / n`
  * `(Safe.ws2d …).2`    the calls of the instrumented smoother
NOT instrumented (NumPy does not raise): the array-valued divisions `np.arange(m) * np.pi / m`, `w_temp / (w_temp + s * …)`,
`r_arr / (1.4826 * mad * np.sqrt(…))`, `u_arr / 4.685`; `np.sqrt` / `** 0.5` of a negative number; `np.median` of an empty
array; `np.array(robust_gcv)`.  The UnboundLocalError of `y_temp` / `robust_weights` is reported by the first component (`none`).

  safe_ws2dwcv_fst   (Safe.ws2dwcv …).1 = Gen.NumKernels.ws2dwcv …     every carrier, every input, both values of `robust`
  safe_ws2dwcv_ok    `robust = False`: under `Contract` the flag is false
  `example`s         an instance of the contract; for every hypothesis an input over ℚ outside it where the flag is true

`robust = True` is NOT covered by `safe_ws2dwcv_ok` (see the end of the file for what is open).
-/
namespace Hdc.SafeWs2dwcv
open Hdc Hdc.Gen.NumKernels Hdc.PyNpW Hdc.GenNum Hdc.SafeL Hdc.SafeWcv Hdc.SafeSimN Std.Do

set_option mvcgen.warning false
set_option linter.unusedSimpArgs false
set_option linter.unusedTactic false
set_option linter.unreachableTactic false
set_option linter.unusedVariables false
set_option linter.unusedSectionVars false

/-- (i) the instrumented program is the translated source plus a flag -/
theorem safe_ws2dwcv_fst {α : Type} [Add α] [Sub α] [Mul α] [Div α] [Neg α] [NatCast α] [LT α] [DecidableLT α] [IntCast α]
    (G : GFns α) (cos : α → α) (isnan isinf : α → Bool) (rnd : α → α) (pi : α) (y : Array α) (nodata : α)
    (llas : Array α) (robust : Bool) (out lopt : Array α) :
    (Gen.Safe.ws2dwcv G cos isnan isinf rnd pi y nodata llas robust out lopt).1
      = Gen.NumKernels.ws2dwcv G cos isnan isinf rnd pi y nodata llas robust out lopt := by
  unfold Gen.Safe.ws2dwcv Gen.NumKernels.ws2dwcv
  simp only [SafeWs2d.safe_ws2d_fst]
  safe_sim

variable {α : Type} [Field α] [LinearOrder α] [IsStrictOrderedRing α]

/-- the contract of `ws2dwcv(y, nodata, llas, robust=False, out, lopt)`.  `wOf`, `yOf`, `dOf`, `trOf`, `scoreOf`
    (Hdc/Lemmas/SafeWcv.lean) are the NumPy expressions of the source for `w`, the cleaned `y`, `d_eigs`, `gamma.sum()`, `gcv_score`.
    * `ylen`: `d_eigs[0] = 1e-15` is executed before the guard `n > 4`;
    * `out`, `lopt`: the output buffers of the gufunc signature `(n),(),(m),() -> (n),()`;
    * `fit`, only when more than four cells are valid (otherwise the kernel copies `y`):
      every `λ = 10 ** l` of the grid is positive (a fact about the float function; what `ws2d` needs),
      `gamma.sum() ≠ w.sum()` for every `λ` of the grid (EXACTLY the condition under which `denominator = w.sum() * (1 - tr_H / w.sum()) ** 2`
      is non-zero, given `w.sum() = n > 4`; NOT guaranteed by a guard of the kernel: with the real `cos` and `1e-15` every `d_eigs[i]` is
      non-zero, hence `gamma[i] < w[i]` on valid cells and the inequality holds, but `cos`, `eig0` are parameters here),
      and some grid point scores below `1e15` (otherwise `gcv_temp` stays `[1e15, 0]`, `lopt[0] = 0` and the final `ws2d(y, 0, w)`
      divides by zero at a leading missing cell; again no guard in the kernel: an empty grid `llas` is enough). -/
structure Contract (G : GFns α) (cos : α → α) (isnan isinf : α → Bool) (pi : α) (y llas : List α) (nodata : α)
    (out0 lopt0 : Array α) : Prop where
  ylen : 1 ≤ y.length
  out : out0.size = y.length
  lopt : 1 ≤ lopt0.size
  fit : 4 < countValid (missG nodata isnan isinf) y →
    (∀ l ∈ llas, 0 < G.pow10 l) ∧
    (∀ l ∈ llas, trOf (wOf nodata isnan isinf y.toArray) (dOf G cos pi y.length) (G.pow10 l)
      ≠ npSum (wOf nodata isnan isinf y.toArray)) ∧
    (∃ l ∈ llas, scoreOf G (yOf (wOf nodata isnan isinf y.toArray) y.toArray) (wOf nodata isnan isinf y.toArray)
      (dOf G cos pi y.length) (G.pow10 l) < G.big)

set_option maxHeartbeats 1000000 in
/-- (ii) `robust = False`: under the contract the flag is false -/
theorem safe_ws2dwcv_ok (G : GFns α) (cos : α → α) (isnan isinf : α → Bool) (rnd : α → α) (pi : α)
    (y llas : List α) (nodata : α) (out0 lopt0 : Array α)
    (hc : Contract G cos isnan isinf pi y llas nodata out0 lopt0) :
    (Gen.Safe.ws2dwcv G cos isnan isinf rnd pi y.toArray nodata llas.toArray false out0 lopt0).2 = false := by
  have hl := hc.lopt
  have hy1 := hc.ylen
  have ho := hc.out
  have hfit := hc.fit
  unfold Gen.Safe.ws2dwcv
  simp -zeta only [Bool.not_false, Bool.false_eq_true, ↓reduceIte]
  generalize hres : Id.run _ = res
  apply Id.of_wp_run_eq hres
  mvcgen invariants
  -- `for it in range(1)`, state `(bad, unbound, y_temp, y_temp_set, robust_weights, robust_weights_set, z, r_weights, robust_gcv, gcv_temp)`
  · ⇓⟨xs, s⟩ => ⌜s.1 = false ∧ s.2.2.2.2.2.2.2.1 = Array.replicate y.length (nat 1) ∧
      (xs.prefix.length = 0 → s.2.2.2.2.2.2.2.2.1 = #[] ∧ s.2.2.2.2.2.2.2.2.2 = #[G.big, nat 0]) ∧
      (xs.prefix.length ≠ 0 → ∃ g, s.2.2.2.2.2.2.2.2.1 = #[g] ∧ g.size = 2 ∧ 0 < rd g 1 ∧
        s.2.2.2.2.1 = wOf nodata isnan isinf y.toArray)⌝
  -- the sweep under `it > 1`: not reached with `r_its = 1`
  · ⇓⟨xs, s⟩ => ⌜True⌝
  -- `for s in lambda_range`, state `(bad, y_temp, y_temp_set, z, gcv_temp, s, gamma)`
  · ⇓⟨xs, s⟩ => ⌜s.1 = false ∧ SweepS G.big (scoreOf G (yOf (wOf nodata isnan isinf y.toArray) y.toArray)
      (wOf nodata isnan isinf y.toArray) (dOf G cos pi y.length)) xs.prefix s.2.2.2.2.1⌝
  all_goals (clear_jps; try clear hres)
  all_goals pyn_ranges
  all_goals try dsimp only [id, PostCond.noThrow, SPred.down_pure] at *
  -- the NumPy expressions of the source, folded into `wOf`, `dOf`, `yOf`
  all_goals
    simp (config := {zetaDelta := true}) only [wOf_fold] at *
    simp (config := {zetaDelta := true}) only [dOf_fold, yOf_fold, four_lt, decide_eq_true_eq] at *
  all_goals try casesm* _ ∧ _
  all_goals
    have hWs := size_wOf' nodata isnan isinf y
    have hDs := size_dOf' G cos pi y.length
    have hYs := size_yOf' nodata isnan isinf y
    have hWT := wtemp_eq nodata isnan isinf y
  -- the sweep under `it > 1` is not reached
  all_goals try (exfalso; omega)
  all_goals first
    -- fewer than five valid cells: pass-through, `lopt[0] = 0`
    | (have hnot : ¬ 4 < countValid (missG nodata isnan isinf) y := by assumption
       simp (disch := omega) only [*, size_npMap, size_npArange, List.size_toArray, Int.toNat_natCast, npCopyTo_eq,
         lenNe_self, oob_false, Bool.or_false, Bool.false_or])
    | skip
  all_goals
    have h4 : 4 < countValid (missG nodata isnan isinf) y := by assumption
    obtain ⟨hpow, hden, hbig⟩ := hfit h4
    have h5 : 5 ≤ y.length := le_trans h4 (Smooth.countValid_le_length _ y)
    have hcall : ∀ lam, 0 < lam → (Gen.Safe.ws2d (yOf (wOf nodata isnan isinf y.toArray) y.toArray) lam
        (wOf nodata isnan isinf y.toArray)).2 = false :=
      fun lam hlam => call_ok nodata isnan isinf y _ lam hYs (by omega) hlam (by omega)
    have hS : npSum (wOf nodata isnan isinf y.toArray) ≠ 0 := by
      rw [npSum_wOf]; exact Nat.cast_ne_zero.2 (by omega)
  -- the remaining conditions: "the new flag is false" + the bookkeeping of the invariants
  all_goals first
    -- entry of the robust loop
    | (refine ⟨?_, by simp, fun _ => trivial, fun h => absurd rfl h⟩
       simp (disch := omega) only [*, size_npMap, size_npArange, List.size_toArray, Int.toNat_natCast,
         neg_size_false, lenNe_self, oob_false, Bool.or_false, Bool.false_or])
    | skip
  all_goals first
    -- entry of the sweep: `gcv_temp = [big, 0]`
    | (obtain ⟨hrg, hgt⟩ := ‹_ = 0 → _› (by omega)
       refine ⟨?_, by rw [hgt]; exact SweepS.init _ _⟩
       simp only [*, Array.size_replicate, lenNe_self, Bool.or_false])
    -- end of the sweep: some score was below `big`, so `best_gcv[1] > 0`
    | (obtain ⟨hrg, hgt⟩ := ‹_ = 0 → _› (by omega)
       have hSw := ‹SweepS G.big _ _ _›
       have hpos := hSw.pos (by
         obtain ⟨l, hl, hlt⟩ := hbig
         exact ⟨G.pow10 l, by simp only [toList_npMap, List.toList_toArray]; exact List.mem_map_of_mem hl, hlt⟩)
       refine ⟨?_, by assumption, fun h => absurd h (by simp), fun _ => ⟨_, by rw [hrg]; rfl, hSw.size, hpos, by simp only [*]⟩⟩
       simp (disch := omega) only [*, hSw.size, Array.size_replicate, lenNe_self, oob_false, Bool.or_false])
    | skip
  all_goals first
    -- after the loop: `lopt[0] = robust_gcv[0, 1] > 0`, the final fit with the validity weights
    | (obtain ⟨g, hrg, hg2, hgpos, hrw⟩ := ‹(pyRange 0 1).length ≠ 0 → _› (by rw [pyRange_length]; decide)
       simp (disch := omega) only [*, rdA_single, oob_single, rd_wr_zero _ _ hl, size_wr, hcall _ hgpos,
         SafeOptv.ws2d_call_size, lenNe_self, oob_false, Bool.or_false])
    | skip
  -- one grid point `s = 10 ** l`
  all_goals
    have hmem := mem_of_split ‹(npMap _ _).toList = _›
    simp only [toList_npMap, List.toList_toArray, List.mem_map] at hmem
    obtain ⟨l, hlm, hl10⟩ := hmem
    have hsp := hpow l hlm
    have hdn := hden l hlm
    rw [hl10] at hsp hdn
    have hSw := ‹SweepS G.big _ _ _›
    have hrwt := ‹_ = Array.replicate y.length (nat 1)›
    simp only [hrwt, hWT] at *
    simp only [SafeWs2d.safe_ws2d_fst, trOf_fold, scoreOf_fold] at *
  all_goals first
    | refine ⟨?_, hSw.step_lt _ _ hsp⟩
    | refine ⟨?_, hSw.step_ge _ (by simpa only [rd_pair_zero, decide_eq_true_eq] using ‹¬ decide _ = true›)⟩
  all_goals
    simp (disch := omega) only [*, hcall _ hsp, size_npMap, size_npMap2, C01gen.gen_ws2d_size_array, Nat.min_self,
      eqv_zero_false _ hS, eqv_zero_false _ (den_ne _ _ hS hdn), oob_pair, hSw.size, oob_false, lenNe_self,
      Bool.or_false]

/-! ### Non-vacuity and sharpness (ℚ; toy functions `sqrt x = x ** 0.5 = x`, `10 ** l = l + 1`, `cos x = 1 - x²/2`, `π = 3`,
`big = 10⁶`, `eig0 = 1/1000`; `round = id`; `isnan = isinf = false`) -/

private def cosq (x : ℚ) : ℚ := 1 - x * x / 2
private def Gq : GFns ℚ :=
  ⟨fun i m => -2 + 2 * cosq ((i : ℚ) * 3 / (m : ℚ)), 1 / 1000, fun x => x, fun x => x, fun x => x + 1, 1000000, 3 / 2, 5, 1000⟩
private def fl (G : GFns ℚ) (cos : ℚ → ℚ) (y llas out lopt : Array ℚ) : Bool :=
  (Gen.Safe.ws2dwcv G cos (fun _ => false) (fun _ => false) (fun v => v) 3 y (-1) llas false out lopt).2

/-- an instance of the contract: 7 cells, the first one `nodata`, a grid of 2 -/
example : fl Gq cosq #[-1, 1, 5, 2, 8, 3, 4] #[0, 1] #[0, 0, 0, 0, 0, 0, 0] #[9] = false :=
  safe_ws2dwcv_ok Gq cosq _ _ _ 3 [-1, 1, 5, 2, 8, 3, 4] [0, 1] (-1) _ _
    ⟨by decide, by decide, by decide, fun _ => ⟨by decide +kernel, by decide +kernel, by decide +kernel⟩⟩
/-- four valid cells (pass-through): only `ylen`, `out`, `lopt` matter -/
example : fl Gq cosq #[1, 5, -1, -1, 8, 3, -1] #[] #[0, 0, 0, 0, 0, 0, 0] #[9] = false :=
  safe_ws2dwcv_ok Gq cosq _ _ _ 3 [1, 5, -1, -1, 8, 3, -1] [] (-1) _ _
    ⟨by decide, by decide, by decide, fun h => absurd h (by decide +kernel)⟩
/-- `ylen`: no cell at all, `d_eigs[0]` is out of range (NumPy: IndexError) -/
example : fl Gq cosq #[] #[0, 1] #[] #[9] = true := by decide +kernel
/-- `out`: a buffer of another length (`np.round(z, 0, out)` / `out[:] = y[:]`), on both branches -/
example : fl Gq cosq #[-1, 1, 5, 2, 8, 3, 4] #[0, 1] #[0, 0] #[9] = true := by decide +kernel
example : fl Gq cosq #[1, 5, -1, -1, 8, 3, -1] #[0, 1] #[] #[9] = true := by decide +kernel
/-- `lopt`: an empty buffer (`lopt[0]`), on both branches -/
example : fl Gq cosq #[-1, 1, 5, 2, 8, 3, 4] #[0, 1] #[0, 0, 0, 0, 0, 0, 0] #[] = true := by decide +kernel
example : fl Gq cosq #[1, 5, -1, -1, 8, 3, -1] #[0, 1] #[0, 0, 0, 0, 0, 0, 0] #[] = true := by decide +kernel
/-- `0 < 10 ** l`: with `10 ** l = 0` the smoother is called with `λ = 0` and divides by zero at the missing first cell -/
example : fl { Gq with pow10 := fun _ => 0 } cosq #[-1, 1, 5, 2, 8, 3, 4] #[0, 1] #[0, 0, 0, 0, 0, 0, 0] #[9] = true := by
  decide +kernel
/-- FINDING `gamma.sum() ≠ w.sum()`: no guard of the kernel protects `wsse / denominator`.  With `cos = 1` and `eig0 = 0`
    every eigenvalue is 0, `gamma = w`, `tr_H = w.sum()`, `denominator = 0` (all other hypotheses hold: `λ > 0`, 6 valid cells) -/
example : fl { Gq with eig0 := 0 } (fun _ => 1) #[-1, 1, 5, 2, 8, 3, 4] #[0, 1] #[0, 0, 0, 0, 0, 0, 0] #[9] = true := by
  decide +kernel
/-- FINDING "some score is below `big`": an EMPTY grid `llas` (nothing in the kernel excludes it) leaves `lopt[0] = 0`, and the
    final `ws2d(y, 0, w)` divides by zero at the missing first cell; the same with `big = 0` -/
example : fl Gq cosq #[-1, 1, 5, 2, 8, 3, 4] #[] #[0, 0, 0, 0, 0, 0, 0] #[9] = true := by decide +kernel
example : fl { Gq with big := 0 } cosq #[-1, 1, 5, 2, 8, 3, 4] #[0, 1] #[0, 0, 0, 0, 0, 0, 0] #[9] = true := by decide +kernel
/-- … while with all cells valid the empty grid does not raise the flag (`ws2d(y, 0, 1)` has no zero pivot): the hypothesis
    is needed only when a cell is missing -/
example : fl Gq cosq #[1, 5, 2, 8, 3, 4] #[] #[0, 0, 0, 0, 0, 0] #[9] = false := by decide +kernel

/-! ### `robust = True`: open.  Not proved, and not a consequence of hypotheses on the inputs alone:
  * the checks that remain are those of the block `if robust:` (`lenNe` of `y - y_temp`, of the two selections and the mask stores,
    `emptyArr y_valid.size`, `gamma.sum() / n`), `robust_gcv[1][1]` for `it > 1`, and in iterations 1..3 the calls `ws2d(y, s, w * r_weights)` and the
    two scalar divisions with RE-WEIGHTED `w_temp = w * r_weights`;
  * sizes, `n ≠ 0`, `y_valid` non-empty and the subscripts follow as above; `w_temp ≥ 0` holds (`r_new` is a square, then 0 / 1 on the
    masks) and the guard `np.sum((w * r_new) > 0) > 1` gives the two positive weights `ws2d` needs: the kernel DOES protect the solver;
  * but `tr_H ≠ w_temp.sum()` is no longer automatic: for a fractional weight `0 < w_i < 1` the cell's `gamma_i = w_i / (w_i + s d_i²)`
    exceeds `w_i` as soon as `s d_i² < 1 - w_i` (always at `i = 0`, `d_0 = 1e-15`), cells with weight 1 have `gamma_i < 1`, so
    `Σ gamma_i = Σ w_i` is ONE algebraic equation in the data that no guard excludes: `denominator` can vanish. -/

end Hdc.SafeWs2dwcv
