import Hdc.Props.GenNumMkScore
import Hdc.Props.GenNumMkVar
import Hdc.Props.GenNumMkZ
import Hdc.Props.GenNumMkP
import Hdc.Props.GenNumMkSens
import Hdc.Gen.NumMkTrend
import Std.Tactic.Do
/-
GenNumMkTrend  The GENERATED translation of `ops/stats.py::mann_kendall_trend_1d` (Hdc/Gen/NumMkTrend.lean,
harness/py2lean_stats.py) is the hand model `Hdc.mkTrend`: (tau, p, slope, trend).

The generated program CALLS the generated `mk_score`, `mk_variance_s`, `mk_z_score`, `mk_p_value`, `mk_sens_slope`; the
proof rewrites each call with that kernel's refinement theorem (GenNumMkScore, GenNumMkVar, GenNumMkZ, GenNumMkP,
GenNumMkSens), so it holds modulo the same externals: `np.unique` = `Py.unique`, `np.nanmedian` = `median`,
`sqrt`/`erf`/`0.5`/`ndtri(0.975)`/int->float = the fields of `F : MKFns α`.
-/
namespace Hdc.GenNumMk
open Hdc Hdc.Gen.NumKernels Hdc.PyNpT Hdc.GenNum Std.Do

set_option mvcgen.warning false
set_option linter.unusedSimpArgs false
set_option linter.unusedTactic false
set_option linter.unreachableTactic false

variable {α : Type} [Field α] [LinearOrder α] [IsStrictOrderedRing α]

/-- The translated `mann_kendall_trend_1d` equals the model for every series, every `F` whose int -> float conversion
    is the canonical cast on the naturals (`hof`, inherited from `gen_mk_score_eq_model`: the model writes the lengths in `tau` with `nat`). -/
theorem gen_mann_kendall_trend_1d_eq_model (F : MKFns α) (hof : ∀ k : ℕ, F.ofInt (k : ℤ) = (k : α))
    (x : List α) :
    Gen.NumKernels.mann_kendall_trend_1d F x.toArray = Hdc.mkTrend F x := by
  generalize hres : Gen.NumKernels.mann_kendall_trend_1d F x.toArray = res
  apply Id.of_wp_run_eq hres
  mvcgen
  all_goals
    simp (config := {zetaDelta := true}) only [gen_mk_score_eq_model F hof, gen_mk_variance_s_eq_model,
      gen_mk_z_score_eq_model, gen_mk_p_value_eq_model, gen_mk_sens_slope_eq_model,
      decide_eq_true_eq, Bool.not_eq_true'] at *
  all_goals
    try simp only [Bool.not_eq_false] at *
    clear hof
    simp only [mkTrend, *, Bool.not_true, Bool.not_false, Bool.false_eq_true, if_true, if_false]

/-! ### Non-vacuity (ℚ; `sqrt`, `erf` replaced by the identity, critical value 1/10): tau, p and the three trend
indicators (the slope component is the median of GenNumMkSens, whose sort the kernel does not unfold) -/

example : (fun r : ℚ × ℚ × ℚ × ℤ => (r.1, r.2.1, r.2.2.2))
      (Gen.NumKernels.mann_kendall_trend_1d (⟨id, id, 1 / 2, 1 / 10, fun i => (i : ℚ)⟩ : MKFns ℚ) [1, 3, 2, 6].toArray)
    = (2 / 3, 43 / 52, 1) := by
  rw [gen_mann_kendall_trend_1d_eq_model _ (fun _ => Int.cast_natCast _)]; decide +kernel

example : (fun r : ℚ × ℚ × ℚ × ℤ => (r.1, r.2.1, r.2.2.2))
      (Gen.NumKernels.mann_kendall_trend_1d (⟨id, id, 1 / 2, 1 / 10, fun i => (i : ℚ)⟩ : MKFns ℚ)
        [9, 7, 7, 4, 3, 1].toArray)
    = (-14 / 15, 125 / 164, -1) := by
  rw [gen_mann_kendall_trend_1d_eq_model _ (fun _ => Int.cast_natCast _)]; decide +kernel

example : (fun r : ℚ × ℚ × ℚ × ℤ => (r.1, r.2.1, r.2.2.2))
      (Gen.NumKernels.mann_kendall_trend_1d (⟨id, id, 1 / 2, 1 / 10, fun i => (i : ℚ)⟩ : MKFns ℚ) [2, 2, 2].toArray)
    = (0, 1, 0) := by
  rw [gen_mann_kendall_trend_1d_eq_model _ (fun _ => Int.cast_natCast _)]; decide +kernel

end Hdc.GenNumMk
