import Hdc.Gen.GlueLrooAcc
import Hdc.Lemmas.GenGlue
import Hdc.Model.AccPx
/-
GenGlueLrooAcc  The GENERATED translation of the accessor `PixelAlgorithms.lroo` (Hdc/Gen/GlueLrooAcc.lean): MissingTimeError without
a time dimension, otherwise `apply_ufunc(ops.lroo, ..)` over the core dimension `time`, output dtype int32, attributes kept.
-/
namespace Hdc.GenGluePx
open Hdc Hdc.PyGlue Hdc.Gen.Glue Hdc.GenGlue

variable {Res : Type}

theorem gen_lroo_acc_eq_model (ct : Bool) (ap : List (List String) → List String → Bool → Res) :
    lroo_acc ct ap = (lrooAccCheck ct).map fun _ => ap [["time"]] ["int32"] true := by
  cases ct <;> rfl

theorem gen_lroo_acc_no_time (ap : List (List String) → List String → Bool → Res) :
    lroo_acc false ap = .error .missingTimeError := rfl

/-- the kernel call: core dimension `time`, ONE output of dtype int32, keep_attrs=True -/
theorem gen_lroo_acc_call (ap : List (List String) → List String → Bool → Res) :
    lroo_acc true ap = .ok (ap [["time"]] ["int32"] true) := rfl

-- non-vacuity
example : lroo_acc true (fun cd dt ka => (cd, dt, ka)) = .ok ([["time"]], ["int32"], true) := rfl

end Hdc.GenGluePx
