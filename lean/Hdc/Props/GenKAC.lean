import Hdc.Lemmas.GenKernelsAC
import Hdc.Gen.KAutocorrSums
import Std.Tactic.Do
/-
GenKernels  The GENERATED translations of four integer loop kernels (Hdc/Gen/K*.lean, one module per kernel, imperative
`Id.run do` programs over `Array Int` with Python index semantics, regenerated from the Python
sources on every verification run) compute their hand models.

Method (as in C01gen): the verification-condition generator `mvcgen` (Std.Do) is run on the generated
program with one invariant per loop, stated through ℕ-indexed functions of the model
(Hdc/Lemmas/GenKernels*.lean).  The generated expressions are never copied into this file: the position
of every `for … in range(a, b)` is recovered by `py_ranges`, reads `rd a i` are rewritten to ℕ-indexed
reads by `rd_nonneg` (side condition `0 ≤ i` by `omega`), writes `wr a i v` through `wr_upd`.
An invariant of an inner loop that mentions the loop variable of the enclosing loop names it by
`py_name cur as k` inside the invariant.

The verification conditions are not addressed by their generated tags (`vc3.step.isTrue…`, which
change when the branching structure of the source is rearranged) but by what they are: every proof
ends with `all_goals first | ‹step› | ‹entry› | ‹exit›`, each alternative failing quickly on the
conditions of the other kinds (a missing loop variable, an unprovable bound).
-/
namespace Hdc.GenKernels
open Hdc Hdc.Gen.Kernels Std.Do

set_option mvcgen.warning false
set_option linter.unusedSimpArgs false
set_option linter.unusedTactic false
set_option linter.unreachableTactic false

/-! ### autocorr_sums: the ten accumulators of the lag-1 autocorrelation -/

/-- The translated accumulation loop of `autocorr_1d_int` returns the accumulators of the model
    (`none` = nodata cell; the counters of the model are naturals).  Any input: for the empty and the
    one-element series `data[:-1]` is empty, the loop does not run, and both sides are all zeros. -/
theorem gen_autocorr_sums_eq_model (data : List Int) (nodata : Int) :
    Gen.Kernels.autocorr_sums data.toArray nodata =
      (let s := Hdc.acAccum (data.map fun v => if v = nodata then none else some v) Hdc.ACSums.zero
       (s.sxy, s.sx_, s.sy_, (s.nxy : Int), s.sx, s.sxx, (s.nx : Int), s.sy, s.syy, (s.ny : Int))) := by
  show _ = acResult (acAccum (acOpt data nodata) ACSums.zero)
  generalize hres : Gen.Kernels.autocorr_sums data.toArray nodata = res
  apply Id.of_wp_run_eq hres
  mvcgen invariants
  -- state `(x, y, Sx_, Sy_, Sxy, nxy, Sx, Sxx, nx, Sy, Syy, ny)`; after `p` iterations the model,
  -- continued from cell `p` with the current accumulators, returns its final accumulators
  · ⇓⟨xs, s⟩ => ⌜AcInv data nodata xs.prefix.length s.2.2⌝
  all_goals
    py_ranges
    simp (config := {zetaDelta := true}) only [size_pySlice_init, List.size_toArray,
      List.length_append, List.length_singleton, List.length_nil, pyRange_length,
      decide_eq_true_eq, Bool.and_eq_true, not_and, ne_eq] at *
  all_goals first
    -- one iteration (one condition per combination of the three `if`s; some are contradictory)
    | (py_name cur as i; py_name pref as pref
       -- `xx[i] = data[i]`, `yy[i] = data[i+1]`
       simp (disch := omega) only [rd_nonneg, gv_pySlice_init, gv_pySlice_tail] at *
       have hi : i.toNat = pref.length := by omega
       simp only [hi] at *
       refine AcInv.step ‹AcInv _ _ _ _› (by omega) rfl rfl rfl rfl ?_
       simp only [acNext, Prod.mk.injEq]
       -- `omega`: linear updates and contradictory branches; `ring`: the products, in any order
       refine ⟨?_, ?_, ?_, ?_, ?_, ?_, ?_, ?_, ?_, ?_⟩ <;> split_ifs <;> first | omega | ring)
    -- entry of the loop
    | exact AcInv.init data nodata
    -- exit of the loop; the `return` permutes the accumulators
    | (obtain ⟨S, hS, rfl⟩ := AcInv.final ‹AcInv _ _ _ _› (by omega)
       simp only [hS, acTuple, acResult])

/-- fewer than two cells: all accumulators are zero (source and model) -/
theorem gen_autocorr_sums_short (data : List Int) (nodata : Int) (h : data.length ≤ 1) :
    Gen.Kernels.autocorr_sums data.toArray nodata = (0, 0, 0, 0, 0, 0, 0, 0, 0, 0) := by
  rw [gen_autocorr_sums_eq_model]
  match data, h with
  | [], _ => rfl
  | [a], _ => simp [acAccum, ACSums.zero, nat]

/-! ### Non-vacuity: concrete inputs, evaluated on the model side -/

/-- pairs (1,2), (2,nodata), (nodata,4), (4,5) with nodata = −1 -/
example : Gen.Kernels.autocorr_sums [1, 2, -1, 4, 5].toArray (-1)
    = (22, 5, 7, 2, 7, 21, 3, 11, 45, 3) := by
  rw [gen_autocorr_sums_eq_model]
  rfl

example : Gen.Kernels.autocorr_sums [3].toArray (-1) = (0, 0, 0, 0, 0, 0, 0, 0, 0, 0) :=
  gen_autocorr_sums_short [3] (-1) (by decide)


end Hdc.GenKernels
