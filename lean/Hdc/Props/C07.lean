import Hdc.Lemmas.SpiBasic
import Hdc.Lemmas.SpiFit
import Hdc.Lemmas.SpiExample
import Mathlib.Tactic.NormNum
/-
C07  SPI equals the gamma-MLE / zero-mixture / normal-quantile definition.
     (The special functions log, sqrt, digamma-root, gammainc, ndtri are the parameters `GamFns`;
      the carrier is any linearly ordered field.)

FORMAL STATEMENTS (all proved below, namespace `Hdc.C07`)

 1. gammastd_refines_spec   gammastd F x nodata cs ce = SpiSpec F x nodata cs ce
      where SpiSpec is the declarative definition: a cell is `some (ndtri (p0 + (1-p0)·gammainc a (v/b)))` iff the series is
      `Fittable` and the cell is valid (≠ nodata, ≥ 0), else `none`; p0 = #zeros/#valid; (a, b) from the positive cells with
      index in [cs, ce) by Thom's estimate and the root of `log a − digamma a − s` in [0.6·a_est, 1.4·a_est]; b = mean / a.
    gammastd_all_nodata_iff  (corollary) all four "all nodata" exits, as an iff with ¬Fittable (for a series with a valid cell)
    gammafit_scale_ne_zero   β = 0 never happens on its own (the `beta == 0` test of the source is implied by `alpha == 0`)
 2. gammafit_positive_only  gammafit F x = gammafit F (x.filter (0 < ·))
    gammafit_perm           invariant under permutation of the positive entries
    gammafit_window         gammafit F ((x.drop cs).take (ce − cs)) = fitSpec F x cs ce   (sums over {k | cs ≤ k < ce ∧ 0 < x[k]})
    gammafit_window_congr   two series that agree on the indices cs ≤ k < ce give the same fit
 3. gammafit_scale_of_root  (gammafit F x).1 ≠ 0 → (gammafit F x).1 * (gammafit F x).2 = mean of the positive entries
    gammafit_shape_is_root  (gammafit F x).1 ≠ 0 → it is the value `F.root (0.6 a_est) (1.4 a_est) s`
 4. Brent (f arbitrary; invariants `TopInv` = top of the loop body, `MidInv` = after re-bracketing):
    brentq_no_sign_change      0 < f xa · f xb → brentq = 0
    brentq_endpoint_roots      f xa = 0 → xa ;  f xa ≠ 0 → f xb = 0 → xb
    brentq_enters_loop         f xa · f xb < 0 → brentq = brentLoop … init  ∧  TopInv f init
    brentBracket_inv           sign change between (xpre,xcur) or (xblk,xcur) ⇒ after: fblk·fcur ≤ 0 ∧ |fcur| ≤ |fblk|
    brentBracket_midInv        TopInv f s → MidInv f (brentBracket s)
    brentStep_inl / brentStep_inr  what the two exits of one pass return
    brentStep_inv              TopInv f s → brentStep … s = .inr s' → TopInv f s'
    brentLoop_returns_bracketed, brentq_returns_bracketed
                               the returned r always has a y with f y · f r ≤ 0, and either `Converged` (f r = 0, or such a y with
                               |y − r|/2 < delta(r)) or the loop used up its `maxiter` passes (`RunsOut`)
-/
set_option linter.unusedSectionVars false
set_option linter.unusedSimpArgs false
set_option linter.unusedVariables false
namespace Hdc.C07
open Hdc.Spi Finset

variable {α : Type} [Field α] [LinearOrder α] [IsStrictOrderedRing α]

/-! ## Specification (written without reference to the program) -/

/-- a cell takes part: it is not the nodata marker and not negative -/
def Valid (nodata v : α) : Prop := v ≠ nodata ∧ 0 ≤ v

/-- number of valid cells / of valid cells that are zero -/
def nValid (x : List α) (nodata : α) : ℕ := (x.filter fun v => v ≠ nodata ∧ 0 ≤ v).length
def nZero (x : List α) (nodata : α) : ℕ := (x.filter fun v => v ≠ nodata ∧ v = 0).length

/-- probability of zero -/
def zeroProb (x : List α) (nodata : α) : α := (nZero x nodata : α) / (nValid x nodata : α)

/-- the calibration cells: positive cells with index in `[cs, ce)` -/
def calCells (x : List α) (cs ce : ℕ) : Finset ℕ :=
  (Finset.range x.length).filter fun k => cs ≤ k ∧ k < ce ∧ 0 < x.getD k 0

/-- their mean -/
def calMean (x : List α) (cs ce : ℕ) : α :=
  (∑ k ∈ calCells x cs ce, x.getD k 0) / ((calCells x cs ce).card : α)

/-- `s = log(mean) − mean(log)` -/
def calS (F : GamFns α) (x : List α) (cs ce : ℕ) : α :=
  F.log (calMean x cs ce) - (∑ k ∈ calCells x cs ce, F.log (x.getD k 0)) / ((calCells x cs ce).card : α)

/-- Thom's estimate of the shape -/
def thom (F : GamFns α) (s : α) : α := (3 - s + F.sqrt ((s - 3) ^ 2 + 24 * s)) / (12 * s)

/-- the MLE shape: root of `log a − digamma a − s` in `[(1 − 0.4)·a_est, (1 + 0.4)·a_est]` (0 = none) -/
def shapeOf (F : GamFns α) (s : α) : α :=
  F.root (thom F s * (1 - F.c04)) (thom F s * (1 + F.c04)) s

def calShape (F : GamFns α) (x : List α) (cs ce : ℕ) : α := shapeOf F (calS F x cs ce)
def calScale (F : GamFns α) (x : List α) (cs ce : ℕ) : α := calMean x cs ce / calShape F x cs ce

/-- the fit as `gammafit` reports it: `(0,0)` = not fittable -/
def fitSpec (F : GamFns α) (x : List α) (cs ce : ℕ) : α × α :=
  if (calCells x cs ce).card = 0 ∨ calS F x cs ce = 0 ∨ calShape F x cs ce = 0 then (0, 0)
  else (calShape F x cs ce, calScale F x cs ce)

/-- the series can be standardised -/
def Fittable (F : GamFns α) (x : List α) (nodata : α) (cs ce : ℕ) : Prop :=
  nValid x nodata ≠ 0 ∧ ¬ F.c09 < zeroProb x nodata ∧ (calCells x cs ce).card ≠ 0 ∧
    calS F x cs ce ≠ 0 ∧ calShape F x cs ce ≠ 0

instance (F : GamFns α) (x : List α) (nodata : α) (cs ce : ℕ) :
    Decidable (Fittable F x nodata cs ce) := by unfold Fittable; infer_instance

/-- the standardised value of a valid observation `v` -/
def spiValue (F : GamFns α) (x : List α) (nodata : α) (cs ce : ℕ) (v : α) : α :=
  F.ndtri (zeroProb x nodata +
    (1 - zeroProb x nodata) * F.gammainc (calShape F x cs ce) (v / calScale F x cs ce))

/-- the SPI of a series, declaratively -/
def SpiSpec (F : GamFns α) (x : List α) (nodata : α) (cs ce : ℕ) : List (Option α) :=
  x.map fun v =>
    if Fittable F x nodata cs ce ∧ v ≠ nodata ∧ 0 ≤ v then some (spiValue F x nodata cs ce v) else none

/-! ## Bridges between the model-side counts / sums and the specification -/

theorem calCells_eq (x : List α) (cs ce : ℕ) : calCells x cs ce = winIdx x cs ce := rfl

theorem nValid_eq (x : List α) (nodata : α) : cntValid x nodata = nValid x nodata := by
  unfold cntValid nValid; rw [List.countP_eq_length_filter]

theorem nZero_eq (x : List α) (nodata : α) : cntZero x nodata = nZero x nodata := by
  unfold cntZero nZero; rw [List.countP_eq_length_filter]

theorem calMean_eq (x : List α) (cs ce : ℕ) :
    lmean (positives (slice x cs ce)) = calMean x cs ce := by
  rw [lmean_slice]; rfl

theorem calS_eq (F : GamFns α) (x : List α) (cs ce : ℕ) :
    lS F (positives (slice x cs ce)) = calS F x cs ce := by
  rw [lS_slice]; rfl

theorem shapeOf_eq (F : GamFns α) (s : α) : lRoot F s = shapeOf F s := by
  unfold lRoot shapeOf lAest thom; rw [pow_two]

/-! ## 2. what the fit depends on -/

/-- only the positive entries matter -/
theorem gammafit_positive_only (F : GamFns α) (x : List α) :
    gammafit F x = gammafit F (x.filter fun v => 0 < v) :=
  gammafit_positives F x

/-- … and not their order -/
theorem gammafit_perm (F : GamFns α) (x y : List α)
    (h : (x.filter fun v => 0 < v).Perm (y.filter fun v => 0 < v)) :
    gammafit F x = gammafit F y :=
  Spi.gammafit_perm F x y h

/-- the fit over the slice `x[cs:ce]` uses exactly the cells with `cs ≤ index < ce` -/
theorem gammafit_window (F : GamFns α) (x : List α) (cs ce : ℕ) :
    gammafit F ((x.drop cs).take (ce - cs)) = fitSpec F x cs ce := by
  have hcases := gammafit_cases F (slice x cs ce)
  rw [slice_positives_length, calS_eq, calMean_eq, shapeOf_eq, ← calCells_eq] at hcases
  unfold fitSpec calScale calShape
  rcases hcases with ⟨hc, hfit⟩ | ⟨h1, h2, h3, hfit⟩
  · rw [if_pos hc]; exact hfit
  · rw [if_neg (by rintro (h | h | h) <;> contradiction)]; exact hfit

/-- series that agree inside the window have the same fit -/
theorem gammafit_window_congr (F : GamFns α) (x y : List α) (cs ce : ℕ)
    (h : ∀ k, cs ≤ k → k < ce → x[k]? = y[k]?) :
    gammafit F ((x.drop cs).take (ce - cs)) = gammafit F ((y.drop cs).take (ce - cs)) := by
  have : (x.drop cs).take (ce - cs) = (y.drop cs).take (ce - cs) := by
    apply List.ext_getElem?
    intro i
    rw [List.getElem?_take, List.getElem?_take]
    split_ifs with hi
    · rw [List.getElem?_drop, List.getElem?_drop]; exact h _ (by omega) (by omega)
    · rfl
  rw [this]

/-! ## 3. the MLE mean equation -/

/-- when a shape is found, shape · scale = mean of the positive entries -/
theorem gammafit_scale_of_root (F : GamFns α) (x : List α) (ha : (gammafit F x).1 ≠ 0) :
    (gammafit F x).1 * (gammafit F x).2 =
      (x.filter fun v => 0 < v).sum / ((x.filter fun v => 0 < v).length : α) ∧
    (gammafit F x).2 = (x.filter fun v => 0 < v).sum / ((x.filter fun v => 0 < v).length : α)
      / (gammafit F x).1 := by
  rcases gammafit_cases F x with ⟨_, hfit⟩ | ⟨h1, h2, h3, hfit⟩
  · rw [hfit] at ha; exact absurd rfl ha
  · rw [hfit]
    simp only
    refine ⟨?_, rfl⟩
    rw [mul_div_cancel₀ _ h3]; rfl

/-- … and the shape is the value returned by the root finder on Thom's bracket -/
theorem gammafit_shape_is_root (F : GamFns α) (x : List α) (cs ce : ℕ)
    (ha : (gammafit F ((x.drop cs).take (ce - cs))).1 ≠ 0) :
    (gammafit F ((x.drop cs).take (ce - cs))).1 = shapeOf F (calS F x cs ce) ∧
    (gammafit F ((x.drop cs).take (ce - cs))).2 = calMean x cs ce / shapeOf F (calS F x cs ce) := by
  rw [gammafit_window] at ha ⊢
  unfold fitSpec at ha ⊢
  split_ifs at ha ⊢ with hc
  · exact absurd rfl ha
  · exact ⟨rfl, rfl⟩

/-- the mean of the calibration cells is positive, hence the scale never vanishes on its own -/
theorem calMean_pos (x : List α) (cs ce : ℕ) (h : (calCells x cs ce).card ≠ 0) :
    0 < calMean x cs ce := by
  rw [← calMean_eq]
  apply lmean_positives_pos
  rw [slice_positives_length]; exact h

theorem gammafit_scale_ne_zero (F : GamFns α) (x : List α) (ha : (gammafit F x).1 ≠ 0) :
    (gammafit F x).2 ≠ 0 := by
  rcases gammafit_cases F x with ⟨_, hfit⟩ | ⟨h1, h2, h3, hfit⟩
  · rw [hfit] at ha; exact absurd rfl ha
  · rw [hfit]
    exact div_ne_zero (ne_of_gt (lmean_positives_pos x h1)) h3

/-! ## 1. the kernel computes the specification -/

theorem gammastd_refines_spec (F : GamFns α) (x : List α) (nodata : α) (cs ce : ℕ) :
    gammastd F x nodata cs ce = SpiSpec F x nodata cs ce := by
  rw [gammastd_eq, nValid_eq, nZero_eq]
  have hw : gammafit F (slice x cs ce) = fitSpec F x cs ce := gammafit_window F x cs ce
  rw [hw]
  unfold SpiSpec
  by_cases h1 : nValid x nodata = 0
  · rw [if_pos h1]
    apply List.map_congr_left
    intro v _
    rw [if_neg]
    rintro ⟨hf, _⟩; exact hf.1 h1
  rw [if_neg h1]
  by_cases h2 : F.c09 < (nZero x nodata : α) / (nValid x nodata : α)
  · rw [if_pos h2]
    apply List.map_congr_left
    intro v _
    rw [if_neg]
    rintro ⟨hf, _⟩; exact hf.2.1 h2
  rw [if_neg h2]
  unfold fitSpec
  by_cases h3 : (calCells x cs ce).card = 0 ∨ calS F x cs ce = 0 ∨ calShape F x cs ce = 0
  · rw [if_pos h3]
    simp only [true_or, if_true]
    apply List.map_congr_left
    intro v _
    rw [if_neg]
    rintro ⟨hf, _⟩
    rcases h3 with h | h | h
    · exact hf.2.2.1 h
    · exact hf.2.2.2.1 h
    · exact hf.2.2.2.2 h
  · rw [if_neg h3]
    have h3' : (calCells x cs ce).card ≠ 0 ∧ calS F x cs ce ≠ 0 ∧ calShape F x cs ce ≠ 0 := by
      refine ⟨fun h => h3 (Or.inl h), fun h => h3 (Or.inr (Or.inl h)), fun h => h3 (Or.inr (Or.inr h))⟩
    have hfit : Fittable F x nodata cs ce := ⟨h1, h2, h3'.1, h3'.2.1, h3'.2.2⟩
    have hb : calScale F x cs ce ≠ 0 :=
      div_ne_zero (ne_of_gt (calMean_pos x cs ce h3'.1)) h3'.2.2
    simp only
    rw [if_neg (by rintro (h | h); exact h3'.2.2 h; exact hb h)]
    apply List.map_congr_left
    intro v _
    by_cases hv1 : v = nodata
    · rw [if_pos hv1, if_neg (by rintro ⟨_, h, _⟩; exact h hv1)]
    · rw [if_neg hv1]
      by_cases hv2 : v < 0
      · rw [if_pos hv2, if_neg (by rintro ⟨_, _, h⟩; exact absurd hv2 (not_lt.mpr h))]
      · rw [if_neg hv2, if_pos ⟨hfit, hv1, not_lt.mp hv2⟩]
        rfl

/-- cell form -/
theorem gammastd_cell (F : GamFns α) (x : List α) (nodata : α) (cs ce : ℕ) (k : ℕ)
    (hk : k < x.length) :
    (gammastd F x nodata cs ce)[k]? =
      some (if Fittable F x nodata cs ce ∧ x[k] ≠ nodata ∧ 0 ≤ x[k]
        then some (spiValue F x nodata cs ce x[k]) else none) := by
  rw [gammastd_refines_spec]
  unfold SpiSpec
  rw [List.getElem?_map, List.getElem?_eq_getElem hk]; rfl

/-- a series with a valid cell count has a valid cell -/
theorem exists_valid_of_nValid_ne_zero (x : List α) (nodata : α) (h : nValid x nodata ≠ 0) :
    ∃ v ∈ x, v ≠ nodata ∧ 0 ≤ v := by
  unfold nValid at h
  have hne : (x.filter fun v => v ≠ nodata ∧ 0 ≤ v) ≠ [] := fun hc => h (by rw [hc]; rfl)
  obtain ⟨v, hv⟩ := List.exists_mem_of_ne_nil _ hne
  have := List.mem_filter.mp hv
  exact ⟨v, this.1, by simpa using this.2⟩

/-- the four "all nodata" exits (no valid cell; p0 > 0.9; no positive calibration cell or s = 0;
    no root) are exactly the failures of `Fittable` -/
theorem gammastd_all_nodata_iff (F : GamFns α) (x : List α) (nodata : α) (cs ce : ℕ) :
    (∀ c ∈ gammastd F x nodata cs ce, c = none) ↔ ¬ Fittable F x nodata cs ce := by
  rw [gammastd_refines_spec]
  unfold SpiSpec
  constructor
  · intro h hf
    obtain ⟨v, hv, hv1, hv2⟩ := exists_valid_of_nValid_ne_zero x nodata hf.1
    have := h _ (List.mem_map.mpr ⟨v, hv, rfl⟩)
    rw [if_pos ⟨hf, hv1, hv2⟩] at this
    simp at this
  · intro hf c hc
    obtain ⟨v, _, rfl⟩ := List.mem_map.mp hc
    rw [if_neg (fun h => hf h.1)]

/-! ## 4. Brent's root finder (`brentq`) -/

/-- the state the loop starts from -/
def brentInit (f : α → α) (xa xb : α) : BState α := ⟨xa, xb, 0, f xa, f xb, 0, 0, 0⟩

/-- invariant at the top of the loop body: the cached values are values of `f`, and there is a
    sign change either between `xpre` and `xcur` (strict) or between `xblk` and `xcur` -/
def TopInv (f : α → α) (s : BState α) : Prop :=
  s.fpre = f s.xpre ∧ s.fcur = f s.xcur ∧
    (s.fpre * s.fcur < 0 ∨ (s.fblk = f s.xblk ∧ s.fblk * s.fcur ≤ 0))

/-- invariant after re-bracketing: `xblk`, `xcur` bracket a sign change and `xcur` is the better
    of the two -/
def MidInv (f : α → α) (s : BState α) : Prop :=
  s.fpre = f s.xpre ∧ s.fcur = f s.xcur ∧ s.fblk = f s.xblk ∧
    s.fblk * s.fcur ≤ 0 ∧ |s.fcur| ≤ |s.fblk|

/-- the tolerance used at the point `x` -/
def brentDelta (xtol rtol x : α) : α := (xtol + rtol * |x|) / 2

/-- the converged exit: `r` is a root, or a sign change of `f` lies within `2·delta` of `r` -/
def Converged (f : α → α) (xtol rtol r : α) : Prop :=
  f r = 0 ∨ ∃ y, f y * f r ≤ 0 ∧ |y - r| / 2 < brentDelta xtol rtol r

/-- the loop uses up `k` iterations without reaching the converged exit -/
def RunsOut (f : α → α) (xtol rtol : α) : ℕ → BState α → Prop
  | 0, _ => True
  | k + 1, s => ∃ s', brentStep f xtol rtol s = .inr s' ∧ RunsOut f xtol rtol k s'

theorem brentq_no_sign_change (f : α → α) (xtol rtol : α) (maxiter : ℕ) (xa xb : α)
    (h : 0 < f xa * f xb) : brentq f xtol rtol maxiter xa xb = 0 := by
  unfold brentq
  simp only [nat_zero]
  rw [if_pos h]

theorem brentq_endpoint_roots (f : α → α) (xtol rtol : α) (maxiter : ℕ) (xa xb : α) :
    (f xa = 0 → brentq f xtol rtol maxiter xa xb = xa) ∧
    (f xa ≠ 0 → f xb = 0 → brentq f xtol rtol maxiter xa xb = xb) := by
  unfold brentq
  simp only [nat_zero, eqv_iff]
  constructor
  · intro h
    rw [if_neg (by rw [h, zero_mul]; exact lt_irrefl 0), if_pos h]
  · intro ha hb
    rw [if_neg (by rw [hb, mul_zero]; exact lt_irrefl 0), if_neg ha, if_pos hb]

/-- otherwise the loop is entered, from a state that satisfies the invariant -/
theorem brentq_enters_loop (f : α → α) (xtol rtol : α) (maxiter : ℕ) (xa xb : α)
    (h : f xa * f xb < 0) :
    brentq f xtol rtol maxiter xa xb = brentLoop f xtol rtol maxiter (brentInit f xa xb) ∧
    TopInv f (brentInit f xa xb) := by
  have ha : f xa ≠ 0 := fun hc => by rw [hc, zero_mul] at h; exact lt_irrefl 0 h
  have hb : f xb ≠ 0 := fun hc => by rw [hc, mul_zero] at h; exact lt_irrefl 0 h
  constructor
  · unfold brentq brentInit
    simp only [nat_zero, eqv_iff]
    rw [if_neg (not_lt.mpr (le_of_lt h)), if_neg ha, if_neg hb]
  · exact ⟨rfl, rfl, Or.inl h⟩

/-- re-bracketing, sign part only (no reference to `f`) -/
theorem brentBracket_inv (s : BState α)
    (h : s.fpre * s.fcur < 0 ∨ s.fblk * s.fcur ≤ 0) :
    (brentBracket s).fblk * (brentBracket s).fcur ≤ 0 ∧
    |(brentBracket s).fcur| ≤ |(brentBracket s).fblk| := by
  unfold brentBracket
  simp only [nat_zero, absv_eq]
  by_cases h1 : s.fpre * s.fcur < 0
  · simp only [if_pos h1]
    by_cases h2 : |s.fpre| < |s.fcur|
    · simp only [if_pos h2]
      exact ⟨by rw [mul_comm]; exact le_of_lt h1, le_of_lt h2⟩
    · simp only [if_neg h2]
      exact ⟨le_of_lt h1, not_lt.mp h2⟩
  · simp only [if_neg h1]
    have h' : s.fblk * s.fcur ≤ 0 := h.resolve_left h1
    by_cases h2 : |s.fblk| < |s.fcur|
    · simp only [if_pos h2]
      exact ⟨by rw [mul_comm]; exact h', le_of_lt h2⟩
    · simp only [if_neg h2]
      exact ⟨h', not_lt.mp h2⟩

/-- re-bracketing establishes the mid-loop invariant -/
theorem brentBracket_midInv (f : α → α) (s : BState α) (h : TopInv f s) :
    MidInv f (brentBracket s) := by
  obtain ⟨hp, hc, hs⟩ := h
  have hsign := brentBracket_inv s (hs.imp id (fun h => h.2))
  refine ⟨?_, ?_, ?_, hsign.1, hsign.2⟩ <;>
  · unfold brentBracket
    simp only [nat_zero, absv_eq]
    by_cases h1 : s.fpre * s.fcur < 0
    · simp only [if_pos h1]
      by_cases h2 : |s.fpre| < |s.fcur|
      · simp only [if_pos h2]; assumption
      · simp only [if_neg h2]; assumption
    · simp only [if_neg h1]
      have h' := (hs.resolve_left h1).1
      by_cases h2 : |s.fblk| < |s.fcur|
      · simp only [if_pos h2]; assumption
      · simp only [if_neg h2]; assumption

theorem brentChoose_fields (s : BState α) (d b : α) :
    (brentChoose s d b).xpre = s.xpre ∧ (brentChoose s d b).xcur = s.xcur ∧
    (brentChoose s d b).xblk = s.xblk ∧ (brentChoose s d b).fpre = s.fpre ∧
    (brentChoose s d b).fcur = s.fcur ∧ (brentChoose s d b).fblk = s.fblk := by
  unfold brentChoose
  split_ifs <;> exact ⟨rfl, rfl, rfl, rfl, rfl, rfl⟩

/-- the converged exit of one pass -/
theorem brentStep_inl (f : α → α) (xtol rtol : α) (s : BState α) (x : α)
    (h : brentStep f xtol rtol s = .inl x) :
    x = (brentBracket s).xcur ∧
    ((brentBracket s).fcur = 0 ∨
      |(brentBracket s).xblk - x| / 2 < brentDelta xtol rtol x) := by
  unfold brentStep at h
  simp only [nat_zero, absv_eq, eqv_iff] at h
  split_ifs at h with hc
  · have hx : (brentBracket s).xcur = x := by injection h
    subst hx
    refine ⟨rfl, hc.imp id (fun h => ?_)⟩
    unfold brentDelta
    have h2 : ((2 : ℕ) : α) = 2 := by norm_num
    rw [nat_eq, h2, abs_div, abs_of_pos (by norm_num : (0 : α) < 2)] at h
    exact h

/-- the continuing exit of one pass -/
theorem brentStep_inr (f : α → α) (xtol rtol : α) (s s' : BState α)
    (h : brentStep f xtol rtol s = .inr s') :
    (brentBracket s).fcur ≠ 0 ∧
    s'.xpre = (brentBracket s).xcur ∧ s'.fpre = (brentBracket s).fcur ∧
    s'.xblk = (brentBracket s).xblk ∧ s'.fblk = (brentBracket s).fblk ∧
    s'.fcur = f s'.xcur := by
  unfold brentStep at h
  simp only [nat_zero, absv_eq, eqv_iff] at h
  split at h
  · cases h
  · next hc =>
    have hs := Sum.inr.inj h
    have hne : (brentBracket s).fcur ≠ 0 := fun h0 => hc (Or.inl h0)
    obtain ⟨_, h2, h3, _, h5, h6⟩ := brentChoose_fields (brentBracket s)
      ((xtol + rtol * |(brentBracket s).xcur|) / nat 2)
      (((brentBracket s).xblk - (brentBracket s).xcur) / nat 2)
    rw [← hs]
    exact ⟨hne, h2, h5, h3, h6, rfl⟩

/-- the loop invariant is preserved by a continuing pass -/
theorem brentStep_inv (f : α → α) (xtol rtol : α) (s s' : BState α) (hinv : TopInv f s)
    (h : brentStep f xtol rtol s = .inr s') : TopInv f s' := by
  obtain ⟨hne, h1, h2, h3, h4, h5⟩ := brentStep_inr f xtol rtol s s' h
  obtain ⟨_, mc, mb, msign, _⟩ := brentBracket_midInv f s hinv
  refine ⟨by rw [h2, h1, mc], h5, ?_⟩
  rw [h2, h4, h3]
  by_cases hB : (brentBracket s).fblk * s'.fcur ≤ 0
  · exact Or.inr ⟨mb, hB⟩
  · left
    have hBN : 0 < (brentBracket s).fblk * s'.fcur := not_le.mp hB
    have hB0 : (brentBracket s).fblk ≠ 0 := fun h0 => by rw [h0, zero_mul] at hBN; exact lt_irrefl 0 hBN
    have hBC : (brentBracket s).fblk * (brentBracket s).fcur < 0 :=
      lt_of_le_of_ne msign (mul_ne_zero hB0 hne)
    by_contra hcn
    have hcn' : 0 ≤ (brentBracket s).fcur * s'.fcur := not_lt.mp hcn
    have e1 : ((brentBracket s).fblk * (brentBracket s).fcur) * ((brentBracket s).fblk * s'.fcur) < 0 :=
      mul_neg_of_neg_of_pos hBC hBN
    have e2 : ((brentBracket s).fblk * (brentBracket s).fcur) * ((brentBracket s).fblk * s'.fcur)
        = ((brentBracket s).fblk * (brentBracket s).fblk) * ((brentBracket s).fcur * s'.fcur) := by ring
    have e3 : 0 ≤ ((brentBracket s).fblk * (brentBracket s).fblk) * ((brentBracket s).fcur * s'.fcur) :=
      mul_nonneg (mul_self_nonneg _) hcn'
    rw [e2] at e1
    exact absurd e1 (not_lt.mpr e3)

/-- a state satisfying the invariant always carries a sign change next to `xcur` -/
theorem topInv_bracketed (f : α → α) (s : BState α) (h : TopInv f s) :
    ∃ y, f y * f s.xcur ≤ 0 := by
  obtain ⟨hp, hc, hs | ⟨hb, hs⟩⟩ := h
  · exact ⟨s.xpre, by rw [← hp, ← hc]; exact le_of_lt hs⟩
  · exact ⟨s.xblk, by rw [← hb, ← hc]; exact hs⟩

/-- the loop: from a state satisfying the invariant, the returned value always has a sign change
    of `f` next to it, and it either comes from the converged exit (root, or sign change within
    `2·delta`) or the iteration budget was used up -/
theorem brentLoop_returns_bracketed (f : α → α) (xtol rtol : α) :
    ∀ (k : ℕ) (s : BState α), TopInv f s →
      (∃ y, f y * f (brentLoop f xtol rtol k s) ≤ 0) ∧
      (Converged f xtol rtol (brentLoop f xtol rtol k s) ∨ RunsOut f xtol rtol k s)
  | 0, s, h => by
    unfold brentLoop
    exact ⟨topInv_bracketed f s h, Or.inr trivial⟩
  | k + 1, s, h => by
    unfold brentLoop
    cases hstep : brentStep f xtol rtol s with
    | inl x =>
      simp only
      obtain ⟨hx, hconv⟩ := brentStep_inl f xtol rtol s x hstep
      obtain ⟨_, mc, mb, msign, _⟩ := brentBracket_midInv f s h
      have hsign : f (brentBracket s).xblk * f x ≤ 0 := by rw [hx, ← mb, ← mc]; exact msign
      refine ⟨⟨_, hsign⟩, Or.inl ?_⟩
      rcases hconv with h0 | hd
      · left; rw [hx, ← mc]; exact h0
      · right; exact ⟨_, hsign, hd⟩
    | inr s' =>
      simp only
      have hinv' := brentStep_inv f xtol rtol s s' h hstep
      obtain ⟨h1, h2⟩ := brentLoop_returns_bracketed f xtol rtol k s' hinv'
      exact ⟨h1, h2.imp id (fun hr => ⟨s', hstep, hr⟩)⟩

/-- `brentq` on a bracket with a sign change: the returned value has a sign change of `f` next to
    it; and it is a root, or a sign change lies within `2·delta` of it, unless `maxiter` passes
    were not enough -/
theorem brentq_returns_bracketed (f : α → α) (xtol rtol : α) (maxiter : ℕ) (xa xb : α)
    (h : f xa * f xb ≤ 0) :
    (∃ y, f y * f (brentq f xtol rtol maxiter xa xb) ≤ 0) ∧
    (Converged f xtol rtol (brentq f xtol rtol maxiter xa xb) ∨
      RunsOut f xtol rtol maxiter (brentInit f xa xb)) := by
  by_cases ha : f xa = 0
  · rw [(brentq_endpoint_roots f xtol rtol maxiter xa xb).1 ha]
    exact ⟨⟨xa, by rw [ha, zero_mul]⟩, Or.inl (Or.inl ha)⟩
  · by_cases hb : f xb = 0
    · rw [(brentq_endpoint_roots f xtol rtol maxiter xa xb).2 ha hb]
      exact ⟨⟨xb, by rw [hb, zero_mul]⟩, Or.inl (Or.inl hb)⟩
    · have hlt : f xa * f xb < 0 := lt_of_le_of_ne h (mul_ne_zero ha hb)
      obtain ⟨heq, hinv⟩ := brentq_enters_loop f xtol rtol maxiter xa xb hlt
      rw [heq]
      exact brentLoop_returns_bracketed f xtol rtol maxiter _ hinv

/-! ## Non-vacuity -/

example : gammastd Fex xex (-9999) 0 5 = [some 1, some (7/3), some (1/3), none, none] := by
  decide +kernel
example : Fittable Fex xex (-9999) 0 5 := by decide +kernel
example : SpiSpec Fex xex (-9999) 0 5 = [some 1, some (7/3), some (1/3), none, none] := by
  decide +kernel
example : fitSpec Fex xex 0 5 = (2, 1) := by decide +kernel
example : gammafit Fex xex = (2, 1) := by decide +kernel
/-- the window matters: calibrating on `[0,1)` only sees the cell `1`, for which `s = 0` -/
example : gammastd Fex xex (-9999) 0 1 = [none, none, none, none, none] := by decide +kernel
/-- p0 = 1 > 0.9 -/
example : gammastd Fex [0, 0, 0] (-9999) 0 3 = [none, none, none] := by decide +kernel
example : ¬ Fittable Fex [0, 0, 0] (-9999) 0 3 := by decide +kernel

/-! ## Non-vacuity (Brent) -/

example : brentq (fun x : ℚ => x - 1) (1/1000) (1/1000) 100 0 3 = 1 := by decide +kernel
/-- no sign change on the bracket -/
example : brentq (fun x : ℚ => x * x + 2) (1/1000) (1/1000) 100 0 3 = 0 := by decide +kernel
/-- the invariant's hypothesis is satisfiable: `x² − 2` changes sign on `[0, 3]` -/
example : TopInv (fun x : ℚ => x * x - 2) (brentInit (fun x : ℚ => x * x - 2) 0 3) :=
  (brentq_enters_loop (fun x : ℚ => x * x - 2) (1/1000) (1/1000) 100 0 3 (by norm_num)).2
/-- with a budget of 2 passes the loop runs out on that problem -/
example : brentq (fun x : ℚ => x * x - 2) (1/1000) (1/1000) 2 0 3 = 11 / 6 := by decide +kernel

end Hdc.C07
