import Hdc.Model.Ws2d
import Mathlib.Algebra.BigOperators.Group.Finset.Basic
import Mathlib.Algebra.Order.Field.Basic
import Mathlib.Tactic.Ring
import Mathlib.Tactic.LinearCombination
import Hdc.Lemmas.Ws2dRows
import Hdc.Lemmas.Ws2dSpec
import Hdc.Lemmas.Ws2dCore
/-
C01  The Whittaker core returns the exact penalised least-squares solution.

Specification side — written without any of the code's literals (1,5,6,-2,-4 never
appear here; they have to be derived in the proofs):
-/
namespace Hdc.C01
open Finset

variable {α : Type} [Field α] [LinearOrder α] [IsStrictOrderedRing α]

/-- second difference -/
def D2 (z : ℕ → α) (j : ℕ) : α := z j - 2 * z (j + 1) + z (j + 2)

/-- the penalised least-squares functional -/
def PLS (n : ℕ) (y w : ℕ → α) (lam : α) (z : ℕ → α) : α :=
  (∑ i ∈ range n, w i * (y i - z i) ^ 2) + lam * ∑ j ∈ range (n - 2), (D2 z j) ^ 2

/-- entry (j,i) of the second-difference matrix D ((n-2) × n) -/
def Dmat (j i : ℕ) : α := if i = j then 1 else if i = j + 1 then -2 else if i = j + 2 then 1 else 0

/-- (DᵀD z) i -/
def DtD (n : ℕ) (z : ℕ → α) (i : ℕ) : α := ∑ j ∈ range (n - 2), Dmat j i * D2 z j

/-- the normal equations (W + λ DᵀD) z = W y -/
def NormalEq (n : ℕ) (y w : ℕ → α) (lam : α) (z : ℕ → α) : Prop :=
  ∀ i < n, w i * z i + lam * DtD n z i = w i * y i

/-- a list read as a function (0 outside) -/
def fn (l : List α) : ℕ → α := fun i => l.getD i 0

/-- hypotheses of the property: n ≥ 4, λ > 0, w ≥ 0 with at least two positive entries -/
structure InContract (y w : List α) (lam : α) : Prop where
  len : 4 ≤ y.length
  wlen : w.length = y.length
  lam_pos : 0 < lam
  w_nonneg : ∀ x ∈ w, 0 ≤ x
  two_pos : ∃ i j, i < j ∧ j < w.length ∧ 0 < fn w i ∧ 0 < fn w j

-- THEOREMS (statements fixed; proved below):

-- theorem ws2d_length (y w : List α) (lam : α) (h : w.length = y.length) : (ws2d y lam w).length = y.length
-- theorem pivots_pos  (h : InContract y w lam) : ∀ r ∈ ws2dRows y lam w, 0 < r.d
-- theorem ws2d_normal_eq (h : InContract y w lam) : NormalEq y.length (fn y) (fn w) lam (fn (ws2d y lam w))
-- theorem ws2d_unique (h : InContract y w lam) (z : ℕ → α) (hz : NormalEq y.length (fn y) (fn w) lam z) :
--     ∀ i < y.length, z i = fn (ws2d y lam w) i
-- theorem ws2d_minimises (h : InContract y w lam) (z : ℕ → α) :
--     PLS y.length (fn y) (fn w) lam (fn (ws2d y lam w)) ≤ PLS y.length (fn y) (fn w) lam z
-- theorem ws2d_minimiser_unique (h : InContract y w lam) (z : ℕ → α)
--     (hz : PLS y.length (fn y) (fn w) lam z ≤ PLS y.length (fn y) (fn w) lam (fn (ws2d y lam w))) :
--     ∀ i < y.length, z i = fn (ws2d y lam w) i

set_option linter.unusedSectionVars false

/-! ### Bridge to the lemma files (verbatim copies of the spec definitions, identified by `rfl`) -/

theorem fn_eq (l : List α) : fn l = Ws2d.fnl l := rfl
theorem D2_eq (z : ℕ → α) (j : ℕ) : D2 z j = Ws2d.d2 z j := rfl
theorem Dmat_eq (j i : ℕ) : (Dmat j i : α) = Ws2d.dmat j i := rfl
theorem DtD_eq (n : ℕ) (z : ℕ → α) (i : ℕ) : DtD n z i = Ws2d.dtd n z i := rfl
theorem PLS_eq (n : ℕ) (y w : ℕ → α) (lam : α) (z : ℕ → α) :
    PLS n y w lam z = Ws2d.pls n y w lam z := rfl

variable {y w : List α} {lam : α}

theorem InContract.w_nonneg_fn (h : InContract y w lam) : ∀ i < y.length, 0 ≤ fn w i := by
  intro i hi
  have hi' : i < w.length := by rw [h.wlen]; exact hi
  have : fn w i = w[i] := Ws2d.fnl_of_lt w i hi'
  rw [this]
  exact h.w_nonneg _ (List.getElem_mem hi')

/-- all pivots, as functions of the row index -/
theorem pivots_pos_fn (h : InContract y w lam) :
    ∀ k < y.length, 0 < (Ws2d.RS lam y.length (fn w) (fn y) (k + 2)).d := by
  obtain ⟨p, q, hpq, hq, hwp, hwq⟩ := h.two_pos
  exact Ws2d.pivots_pos_fn lam y.length (fn w) (fn y) h.len h.lam_pos h.w_nonneg_fn p q hpq
    (by rw [← h.wlen]; exact hq) hwp hwq

/-- the quadratic form of `W + λ DᵀD` is definite under the contract -/
theorem qf_definite (h : InContract y w lam) (g : ℕ → α)
    (hg : Ws2d.qf y.length (fn w) lam g ≤ 0) : ∀ i < y.length, g i = 0 := by
  obtain ⟨p, q, hpq, hq, hwp, hwq⟩ := h.two_pos
  exact Ws2d.qf_definite y.length (fn w) lam h.lam_pos h.w_nonneg_fn p q hpq
    (by rw [← h.wlen]; exact hq) hwp hwq g hg

/-! ### The theorems -/

theorem ws2d_length (y w : List α) (lam : α) (h : w.length = y.length) :
    (ws2d y lam w).length = y.length :=
  Ws2d.ws2d_length' y w lam h

theorem pivots_pos (h : InContract y w lam) : ∀ r ∈ ws2dRows y lam w, 0 < r.d := by
  intro r hr
  obtain ⟨i, hi, rfl⟩ := List.getElem_of_mem hr
  have hi' : i < y.length := by rwa [Ws2d.ws2dRows_length y lam w h.wlen] at hi
  rw [Ws2d.ws2dRows_getElem y lam w h.wlen i hi']
  exact pivots_pos_fn h i hi'

theorem ws2d_normal_eq (h : InContract y w lam) :
    NormalEq y.length (fn y) (fn w) lam (fn (ws2d y lam w)) := by
  intro i hi
  exact Ws2d.normal_eq_fn y w lam h.len h.wlen (fun k hk => (pivots_pos_fn h k hk).ne') i hi

/-- around any solution of the normal equations, `PLS` is that value plus the quadratic form -/
theorem PLS_of_normalEq (n : ℕ) (yf wf : ℕ → α) (lam : α) (z z' : ℕ → α)
    (hz : NormalEq n yf wf lam z) :
    PLS n yf wf lam z' = PLS n yf wf lam z + Ws2d.qf n wf lam (fun i => z' i - z i) :=
  Ws2d.pls_of_normal n yf wf lam z z' hz

theorem ws2d_minimises (h : InContract y w lam) (z : ℕ → α) :
    PLS y.length (fn y) (fn w) lam (fn (ws2d y lam w)) ≤ PLS y.length (fn y) (fn w) lam z := by
  rw [PLS_of_normalEq _ _ _ _ _ z (ws2d_normal_eq h)]
  have := Ws2d.qf_nonneg y.length (fn w) lam h.lam_pos h.w_nonneg_fn
    (fun i => z i - fn (ws2d y lam w) i)
  linarith

theorem ws2d_minimiser_unique (h : InContract y w lam) (z : ℕ → α)
    (hz : PLS y.length (fn y) (fn w) lam z ≤ PLS y.length (fn y) (fn w) lam (fn (ws2d y lam w))) :
    ∀ i < y.length, z i = fn (ws2d y lam w) i := by
  rw [PLS_of_normalEq _ _ _ _ _ z (ws2d_normal_eq h)] at hz
  have hq : Ws2d.qf y.length (fn w) lam (fun i => z i - fn (ws2d y lam w) i) ≤ 0 := by linarith
  intro i hi
  have := qf_definite h _ hq i hi
  exact sub_eq_zero.1 this

theorem ws2d_unique (h : InContract y w lam) (z : ℕ → α)
    (hz : NormalEq y.length (fn y) (fn w) lam z) :
    ∀ i < y.length, z i = fn (ws2d y lam w) i := by
  apply ws2d_minimiser_unique h z
  rw [PLS_of_normalEq _ _ _ _ _ (fn (ws2d y lam w)) hz]
  have := Ws2d.qf_nonneg y.length (fn w) lam h.lam_pos h.w_nonneg_fn
    (fun i => fn (ws2d y lam w) i - z i)
  linarith

/-! ### Non-vacuity: the contract is satisfiable (ℚ, n = 5, three zero weights) -/

example : InContract (α := ℚ) [3, 1, 4, 1, 5] [0, 2, 0, 0, 1] 7 where
  len := by decide
  wlen := by decide
  lam_pos := by norm_num
  w_nonneg := by
    intro x hx
    simp only [List.mem_cons, List.not_mem_nil, or_false] at hx
    rcases hx with rfl | rfl | rfl | rfl | rfl <;> norm_num
  two_pos := ⟨1, 4, by decide, by decide, by norm_num [fn], by norm_num [fn]⟩

end Hdc.C01
