import Hdc.Gen.GluePeriod
import Hdc.Lemmas.GenGluePeriod
import Hdc.Lemmas.GenGlue
/-
GenGluePeriod  The GENERATED translation of the `.dekad` accessor (Hdc/Gen/GluePeriod.lean: `AccessorTimeBase.__init__`, the
properties of `Period`, and `DekadPeriod._period_cls = Dekad` instantiated with the GENERATED `Hdc.Gen.Dekad`) against the
declarative specification Hdc/Model/AccPeriod.lean (defined from year / month / day, never through the raw dekad integer).

The time axis is the list `ts` of its instants.  Notation: `AllDays ts := ∀ t ∈ ts, t.ValidDay` (real civil dates 0001-01-01 ..
9999-12-31), `AllValid ts := ∀ t ∈ ts, t.Valid` (additionally 0 ≤ microsecond of the day < 86400e6), `NoLast ts := ∀ t ∈ ts,
¬ t.inLastDekad` (no instant in 9999-12-d3, whose `end_date` needs `datetime(10000, 1, 1)`).

1 any period class (`cls : PeriodCls T P D`)
  gen_period_map_eq           idx / yidx / raw / label are `ts.map (fun t => cls.<f> (cls.ofInstant t))`, linspace is the map of `yidx − 1`
  gen_period_idx_pointwise    length preserved; element i of idx depends on instant i only (the same for the others by gen_period_map_eq)
  gen_period_ndays_pointwise, gen_period_start_date_pointwise, gen_period_end_date_pointwise
                              a successful result has the length of the axis and element i is the class's value on instant i
  gen_period_ndays_raises     an instant on which the class raises makes the accessor raise (also start_date / end_date)
  gen_period_midx_eq_idx      midx = (one DeprecationWarning with stacklevel 2, idx)
  gen_period_linspace_eq      linspace = yidx − 1 element-wise
2 the dekad class: refinement (AllDays; NoLast for ndays / end_date)
  gen_dekad_idx_refines, gen_dekad_midx_refines, gen_dekad_yidx_refines, gen_dekad_raw_refines, gen_dekad_label_refines,
  gen_dekad_linspace_refines (and every value in 0..35), gen_dekad_start_date_refines, gen_dekad_end_date_refines,
  gen_dekad_ndays_refines;  gen_dekad_last_raises: an instant of 9999-12-d3 makes ndays and end_date raise (NoLast is necessary)
3 consistency on every axis
  gen_dekad_instant_within    start_date[i] ≤ instant i ≤ end_date[i]                       (AllValid, NoLast)
  gen_dekad_ndays_span        end_date[i] + 1 µs − start_date[i] = ndays[i] days            (AllDays, NoLast)
  gen_dekad_label_parses_back `Dekad(label[i])` is the dekad of instant i                   (AllDays)
  gen_dekad_label_eq_iff      label[i] = label[j] ↔ instants i, j lie in the same dekad     (AllDays)
4 constructor
  gen_timebase_init_eq_spec   = the decision table `ctorSpec`;  gen_timebase_init_typeError / _valueError / _expands / _keeps
-/
set_option linter.unusedSimpArgs false
set_option linter.unusedVariables false
namespace Hdc.GenGlue
open Hdc Hdc.Py Hdc.PyDate Hdc.PyGlue Hdc.Gen.Glue Hdc.AccPeriod Hdc.GenGluePeriod

def AllDays (ts : List Instant) : Prop := ∀ t ∈ ts, t.ValidDay
def AllValid (ts : List Instant) : Prop := ∀ t ∈ ts, t.Valid
def NoLast (ts : List Instant) : Prop := ∀ t ∈ ts, ¬ t.inLastDekad

/-! ## 1 any period class -/

section generic
variable {T P D : Type} (cls : PeriodCls T P D) (ts : List T)

theorem gen_period_map_eq :
    period_idx cls ts = ts.map (fun t => cls.idx (cls.ofInstant t)) ∧
    period_yidx cls ts = ts.map (fun t => cls.yidx (cls.ofInstant t)) ∧
    period_raw cls ts = ts.map (fun t => cls.raw (cls.ofInstant t)) ∧
    period_label cls ts = ts.map (fun t => cls.str (cls.ofInstant t)) ∧
    period_linspace cls ts = ts.map (fun t => cls.yidx (cls.ofInstant t) - 1) := by
  refine ⟨rfl, rfl, rfl, rfl, ?_⟩
  simp only [period_linspace, period_yidx, period_tseries, List.map_map]
  rfl

theorem gen_period_idx_pointwise :
    (period_idx cls ts).length = ts.length ∧
    ∀ i : Nat, (period_idx cls ts)[i]? = (ts[i]?).map (fun t => cls.idx (cls.ofInstant t)) := by
  simp only [period_idx, period_tseries, List.length_map, List.getElem?_map, implies_true, and_self]

theorem gen_period_ndays_pointwise {r : List Int} (h : period_ndays cls ts = .ok r) :
    r.length = ts.length ∧ ∀ (i : Nat) (t : T), ts[i]? = some t → ∃ v, cls.ndays (cls.ofInstant t) = .ok v ∧ r[i]? = some v :=
  mapM_ok_getElem _ ts r h

theorem gen_period_start_date_pointwise {r : List D} (h : period_start_date cls ts = .ok r) :
    r.length = ts.length ∧ ∀ (i : Nat) (t : T), ts[i]? = some t → ∃ v, cls.start_date (cls.ofInstant t) = .ok v ∧ r[i]? = some v :=
  mapM_ok_getElem _ ts r h

theorem gen_period_end_date_pointwise {r : List D} (h : period_end_date cls ts = .ok r) :
    r.length = ts.length ∧ ∀ (i : Nat) (t : T), ts[i]? = some t → ∃ v, cls.end_date (cls.ofInstant t) = .ok v ∧ r[i]? = some v :=
  mapM_ok_getElem _ ts r h

/-- an exception of the class on one instant is an exception of the accessor -/
theorem gen_period_ndays_raises {t : T} (ht : t ∈ ts) :
    ((∃ e, cls.ndays (cls.ofInstant t) = .error e) → ∃ e, period_ndays cls ts = .error e) ∧
    ((∃ e, cls.start_date (cls.ofInstant t) = .error e) → ∃ e, period_start_date cls ts = .error e) ∧
    ((∃ e, cls.end_date (cls.ofInstant t) = .error e) → ∃ e, period_end_date cls ts = .error e) :=
  ⟨mapM_error_of_mem (fun x => cls.ndays (cls.ofInstant x)) ts t ht,
   mapM_error_of_mem (fun x => cls.start_date (cls.ofInstant x)) ts t ht,
   mapM_error_of_mem (fun x => cls.end_date (cls.ofInstant x)) ts t ht⟩

theorem gen_period_midx_eq_idx : period_midx cls ts = ([PyWarning.deprecationWarning 2], period_idx cls ts) := rfl

theorem gen_period_linspace_eq : period_linspace cls ts = (period_yidx cls ts).map (fun v => v - 1) := rfl

end generic

/-! ## 2 the dekad class: refinement -/

theorem gen_dekad_idx_refines {ts : List Instant} (h : AllDays ts) : period_idx dekadCls ts = ts.map dekadIdx :=
  List.map_congr_left fun t ht => idx_spec (h t ht)

theorem gen_dekad_midx_refines {ts : List Instant} (h : AllDays ts) : (period_midx dekadCls ts).2 = ts.map dekadIdx :=
  gen_dekad_idx_refines h

theorem gen_dekad_yidx_refines {ts : List Instant} (h : AllDays ts) : period_yidx dekadCls ts = ts.map dekadYidx :=
  List.map_congr_left fun t ht => yidx_spec (h t ht)

theorem gen_dekad_raw_refines {ts : List Instant} (h : AllDays ts) : period_raw dekadCls ts = ts.map dekadRaw :=
  List.map_congr_left fun t ht => raw_spec (h t ht)

theorem gen_dekad_label_refines {ts : List Instant} (h : AllDays ts) : period_label dekadCls ts = ts.map dekadLabel :=
  List.map_congr_left fun t ht => str_spec (h t ht)

theorem gen_dekad_linspace_refines {ts : List Instant} (h : AllDays ts) :
    period_linspace dekadCls ts = ts.map dekadLinspace ∧ ∀ v ∈ period_linspace dekadCls ts, 0 ≤ v ∧ v ≤ 35 := by
  have e : period_linspace dekadCls ts = ts.map dekadLinspace := by
    rw [gen_period_linspace_eq, gen_dekad_yidx_refines h, List.map_map]
    rfl
  refine ⟨e, ?_⟩
  rw [e]
  intro v hv
  obtain ⟨t, ht, rfl⟩ := List.mem_map.1 hv
  obtain ⟨h1, h2, h3, h4, h5, h6⟩ := h t ht
  have := daysInMonth_bounds t.year t.month
  unfold dekadLinspace dekadYidx dekadIdx
  omega

theorem gen_dekad_start_date_refines {ts : List Instant} (h : AllDays ts) :
    period_start_date dekadCls ts = .ok (ts.map dekadStart) :=
  mapM_ok_of_forall _ _ ts fun t ht => start_spec (h t ht)

theorem gen_dekad_end_date_refines {ts : List Instant} (h : AllDays ts) (hl : NoLast ts) :
    period_end_date dekadCls ts = .ok (ts.map dekadEnd) :=
  mapM_ok_of_forall _ _ ts fun t ht => end_spec (h t ht) (hl t ht)

theorem gen_dekad_ndays_refines {ts : List Instant} (h : AllDays ts) (hl : NoLast ts) :
    period_ndays dekadCls ts = .ok (ts.map dekadNdays) :=
  mapM_ok_of_forall _ _ ts fun t ht => ndays_spec (h t ht) (hl t ht)

/-- `NoLast` is necessary: one instant of 9999-12-d3 and `ndays`, `end_date` raise (`datetime(10000, 1, 1)`) -/
theorem gen_dekad_last_raises {ts : List Instant} {t : Instant} (ht : t ∈ ts) (hv : t.ValidDay) (hl : t.inLastDekad) :
    (∃ e, period_ndays dekadCls ts = .error e) ∧ (∃ e, period_end_date dekadCls ts = .error e) :=
  ⟨(gen_period_ndays_raises dekadCls ts ht).1 ⟨_, ndays_last' hv hl⟩,
   (gen_period_ndays_raises dekadCls ts ht).2.2 ⟨_, end_last hv hl⟩⟩

/-! ## 3 consistency on every axis -/

theorem gen_dekad_instant_within {ts : List Instant} (h : AllValid ts) (hl : NoLast ts) :
    ∃ S E, period_start_date dekadCls ts = .ok S ∧ period_end_date dekadCls ts = .ok E ∧
      S.length = ts.length ∧ E.length = ts.length ∧
      ∀ (i : Nat) (t : Instant) (s e : DateTime), ts[i]? = some t → S[i]? = some s → E[i]? = some e →
        s.totalUs ≤ t.totalUs ∧ t.totalUs ≤ e.totalUs := by
  have hd : AllDays ts := fun t ht => (h t ht).1
  refine ⟨_, _, gen_dekad_start_date_refines hd, gen_dekad_end_date_refines hd hl, by simp, by simp, ?_⟩
  intro i t s e ht hs he
  simp only [List.getElem?_map, ht, Option.map_some, Option.some.injEq] at hs he
  subst hs; subst he
  exact start_le_end_spec t (h t (List.mem_of_getElem? ht))

theorem gen_dekad_ndays_span {ts : List Instant} (h : AllDays ts) (hl : NoLast ts) :
    ∃ S E N, period_start_date dekadCls ts = .ok S ∧ period_end_date dekadCls ts = .ok E ∧ period_ndays dekadCls ts = .ok N ∧
      N.length = ts.length ∧
      ∀ (i : Nat) (s e : DateTime) (n : Int), S[i]? = some s → E[i]? = some e → N[i]? = some n →
        e.totalUs + 1 - s.totalUs = n * usPerDay := by
  refine ⟨_, _, _, gen_dekad_start_date_refines h, gen_dekad_end_date_refines h hl, gen_dekad_ndays_refines h hl, by simp, ?_⟩
  intro i s e n hs he hn
  simp only [List.getElem?_map] at hs he hn
  cases hti : ts[i]? with
  | none => simp [hti] at hs
  | some t =>
    simp only [hti, Option.map_some, Option.some.injEq] at hs he hn
    subst hs; subst he; subst hn
    exact ndays_span_spec t

/-- every label parses back (`Dekad(label)`) to the raw integer of the same instant's dekad -/
theorem gen_dekad_label_parses_back {ts : List Instant} (h : AllDays ts) :
    List.mapM Hdc.Gen.Dekad.ofStr (period_label dekadCls ts) = .ok (period_raw dekadCls ts) ∧
    period_raw dekadCls ts = ts.map dekadRaw := by
  refine ⟨?_, gen_dekad_raw_refines h⟩
  simp only [period_label, period_raw, period_tseries]
  induction ts with
  | nil => rfl
  | cons t l ih =>
    have ht := h t (List.mem_cons_self ..)
    simp only [List.map_cons]
    rw [mapM_cons_ok _ _ _ _ (by
      show Hdc.Gen.Dekad.ofStr (Hdc.Gen.Dekad.str (Hdc.Gen.Dekad.ofDate t.year t.month t.day)) = .ok _
      exact C11.ofStr_str_ok (inRange_of ht)),
      ih (fun x hx => h x (List.mem_cons_of_mem _ hx))]
    rfl

theorem gen_dekad_label_eq_iff {ts : List Instant} (h : AllDays ts) {i j : Nat} {a b : Instant}
    (ha : ts[i]? = some a) (hb : ts[j]? = some b) :
    (period_label dekadCls ts)[i]? = (period_label dekadCls ts)[j]? ↔ sameDekad a b := by
  have va := h a (List.mem_of_getElem? ha)
  have vb := h b (List.mem_of_getElem? hb)
  simp only [period_label, period_tseries, List.getElem?_map, ha, hb, Option.map_some, Option.some.injEq]
  rw [← ofDate_eq_iff va vb]
  constructor
  · exact C11.str_injective (inRange_of va) (inRange_of vb)
  · intro e
    show Hdc.Gen.Dekad.str (Hdc.Gen.Dekad.ofDate a.year a.month a.day) = Hdc.Gen.Dekad.str (Hdc.Gen.Dekad.ofDate b.year b.month b.day)
    rw [e]

/-! ## 4 constructor -/

section ctor
variable {Obj : Type} (isdt hasT inD : Obj → Bool) (ex : Obj → Obj) (o : Obj)

theorem gen_timebase_init_eq_spec :
    timebase_init isdt hasT inD ex o =
      match ctorSpec (isdt o) (hasT o) (inD o) ex o with
      | .typeError => .error .typeError
      | .valueError => .error .valueError
      | .stored x => .ok x := by
  unfold timebase_init ctorSpec
  dsimp only
  cases isdt o <;> cases hasT o <;> cases inD o <;> rfl

/-- not a datetime64 array: TypeError, whatever else holds -/
theorem gen_timebase_init_typeError (h : isdt o = false) : timebase_init isdt hasT inD ex o = .error .typeError := by
  rw [gen_timebase_init_eq_spec]; simp [ctorSpec, h]

/-- datetime64 but no `time` attribute: ValueError -/
theorem gen_timebase_init_valueError (h1 : isdt o = true) (h2 : hasT o = false) :
    timebase_init isdt hasT inD ex o = .error .valueError := by
  rw [gen_timebase_init_eq_spec]; simp [ctorSpec, h1, h2]

/-- `time` is not a dimension: the object is stored with `expand_dims("time")` applied -/
theorem gen_timebase_init_expands (h1 : isdt o = true) (h2 : hasT o = true) (h3 : inD o = false) :
    timebase_init isdt hasT inD ex o = .ok (ex o) := by
  rw [gen_timebase_init_eq_spec]; simp [ctorSpec, h1, h2, h3]

/-- `time` is a dimension: the object is stored unchanged -/
theorem gen_timebase_init_keeps (h1 : isdt o = true) (h2 : hasT o = true) (h3 : inD o = true) :
    timebase_init isdt hasT inD ex o = .ok o := by
  rw [gen_timebase_init_eq_spec]; simp [ctorSpec, h1, h2, h3]

end ctor

/-! ## 5 non-vacuity and necessity of the hypotheses -/

/-- 2024-02-29T23:59:59 and two more instants -/
def exAxis : List Instant := [⟨2024, 2, 29, 86399000000⟩, ⟨2024, 3, 1, 0⟩, ⟨2023, 12, 31, 1⟩]

example : AllValid exAxis ∧ AllDays exAxis ∧ NoLast exAxis := by
  refine ⟨?_, ?_, ?_⟩ <;> intro t ht <;> simp only [exAxis, List.mem_cons, List.not_mem_nil, or_false] at ht <;>
    rcases ht with rfl | rfl | rfl <;> decide
example : period_label dekadCls exAxis = ["202402d3", "202403d1", "202312d3"] := by decide
example : period_idx dekadCls exAxis = [3, 1, 3] ∧ period_yidx dekadCls exAxis = [6, 7, 36] ∧
    period_linspace dekadCls exAxis = [5, 6, 35] ∧ period_raw dekadCls exAxis = [72869, 72870, 72863] := by decide
example : period_ndays dekadCls exAxis = .ok [9, 10, 11] := by rfl
example : period_start_date dekadCls exAxis = .ok [⟨738937, 0⟩, ⟨738946, 0⟩, ⟨738875, 0⟩] := by rfl
example : period_end_date dekadCls exAxis = .ok [⟨738945, 86399999999⟩, ⟨738955, 86399999999⟩, ⟨738885, 86399999999⟩] := by rfl
example : exAxis.map dekadNdays = [9, 10, 11] ∧ exAxis.map dekadLinspace = [5, 6, 35] := by decide
example : sameDekad ⟨2024, 2, 21, 0⟩ ⟨2024, 2, 29, 5⟩ ∧ ¬ sameDekad ⟨2024, 2, 20, 0⟩ ⟨2024, 2, 21, 0⟩ := by
  unfold sameDekad; decide

/- AllDays is necessary: day 0 (program 3, specification 0), month 13 (program: yidx wraps to 1, specification 37) -/
example : period_idx dekadCls [⟨2024, 2, 0, 0⟩] = [3] ∧ [(⟨2024, 2, 0, 0⟩ : Instant)].map dekadIdx = [0] := by decide
example : period_yidx dekadCls [⟨2024, 13, 1, 0⟩] = [1] ∧ [(⟨2024, 13, 1, 0⟩ : Instant)].map dekadYidx = [37] := by decide
/- the year range is necessary for the dates: year 10000 has no `datetime` -/
example : period_start_date dekadCls [⟨10000, 1, 1, 0⟩] = .error .valueError := by rfl
/- NoLast is necessary (gen_dekad_last_raises): 9999-12-25 -/
example : period_ndays dekadCls [⟨9999, 12, 25, 0⟩] = .error .valueError ∧
    period_end_date dekadCls [⟨9999, 12, 25, 0⟩] = .error .valueError ∧
    period_start_date dekadCls [⟨9999, 12, 25, 0⟩] = .ok [⟨3652049, 0⟩] := by
  refine ⟨?_, ?_, ?_⟩ <;> rfl
/- the microsecond range (AllValid) is necessary for `instant ≤ end_date`: 2 days' worth of microseconds on the 10th -/
example : ¬ ((⟨2024, 1, 10, 2 * 86400000000⟩ : Instant).totalUs ≤ (dekadEnd ⟨2024, 1, 10, 2 * 86400000000⟩).totalUs) := by decide
example : ¬ ((dekadStart ⟨2024, 1, 1, -1⟩).totalUs ≤ (⟨2024, 1, 1, -1⟩ : Instant).totalUs) := by decide
/- constructor -/
example : timebase_init (fun _ : Nat => true) (fun _ => true) (fun o => o % 2 == 0) (fun o => o + 1) 3 = .ok 4 := by rfl
example : timebase_init (fun _ : Nat => true) (fun _ => true) (fun o => o % 2 == 0) (fun o => o + 1) 4 = .ok 4 := by rfl
example : timebase_init (fun _ : Nat => false) (fun _ => false) (fun _ => false) id 4 = .error .typeError := by rfl
example : timebase_init (fun _ : Nat => true) (fun _ => false) (fun _ => false) id 4 = .error .valueError := by rfl

end Hdc.GenGlue
