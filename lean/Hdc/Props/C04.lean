import Hdc.Lemmas.SmoothV
import Hdc.Props.C02
import Mathlib.Tactic.NormNum
/-
C04  V-curve selection is optimal on the grid and self-consistent.

Formal statements proved in this file (α any linearly ordered field, `F : VFns α` arbitrary):

  argminFirst_spec     l ≠ [] → ∃ b, argminFirst l = some b ∧ b ∈ l ∧ (∀ c ∈ l, ¬ c.1 < b.1) ∧
                         ∃ k, l[k] = b ∧ ∀ j < k, b.1 < l[j].1            (FIRST strict minimum)
  argminFirst_eq_none_iff   argminFirst l = none ↔ l = []
  vcurve_length / vcurve_entry
                       the V-curve of m points has m − 1 entries; entry k is
                       (sqrt((f_{k+1} − f_k)² + (p_{k+1} − p_k)²) / (ln10 · step), (l_k + l_{k+1}) / 2)
  vpts_grid            the sweep produces one point per grid value, in grid order
  optv_pts             for ws2doptv, point k is (l_k, log fitSS w y z_k, log penSS z_k), z_k = ws2d y 10^{l_k} w
  vselect_midpoint     vselect … = some lopt → ∃ k, k + 1 < |llas| ∧ lopt = pow10 ((llas[k] + llas[k+1]) / 2) ∧
                         no V value is strictly below V_k ∧ every V value before k is strictly above V_k
  vselect_eq_none_iff  vselect … = none ↔ |llas| ≤ 1
  optv_eq_some_iff     optv F miss y llas = some (z, lopt) ↔ 1 < countValid ∧ vselect … = some lopt ∧ z = ws2d y lopt w
  optv_lopt            optv F miss y llas = some (z, lopt) → z = ws2d y lopt w ∧ (conclusion of vselect_midpoint)
  optv_isSome_iff      (optv F miss y llas).isSome ↔ 1 < countValid miss y ∧ 2 ≤ |llas|
  optv_self_consistent optv F miss y llas = some (z, lopt) → lopt ≠ 0 → gu miss y lopt = some z
  optvp_self_consistent   optvp F miss y p llas = some (z, lopt) → lopt ≠ 0 → pgu miss y lopt p = some z
  optvplc_self_consistent the same for optvplc
  optvplc_grid         optvplc F miss y p hi lo gHi gLo gNan
                         = optvp F miss y p (if hi then gHi else if lo then gLo else gNan)
  optvplc_hi / optvplc_lo / optvplc_nan    the three cases spelled out
-/
namespace Hdc.C04
open Hdc Hdc.C01 Hdc.Smooth

set_option linter.unusedSectionVars false

variable {α : Type} [Field α] [LinearOrder α] [IsStrictOrderedRing α]

/-! ### 1. first strict minimum -/

theorem argminFirst_spec (l : List (α × α)) (hl : l ≠ []) :
    ∃ b, argminFirst l = some b ∧ b ∈ l ∧ (∀ c ∈ l, ¬ c.1 < b.1) ∧
      ∃ k, ∃ hk : k < l.length, l[k] = b ∧ ∀ j (hj : j < k), b.1 < (l[j]'(by omega)).1 := by
  cases l with
  | nil => exact absurd rfl hl
  | cons x xs =>
    obtain ⟨k, hk, hb, hmin, hbefore⟩ := argminFirst_cons x xs
    refine ⟨_, rfl, ?_, hmin, k, hk, hb, hbefore⟩
    rw [← hb]; exact List.getElem_mem hk

theorem argminFirst_eq_none_iff (l : List (α × α)) : argminFirst l = none ↔ l = [] := by
  cases l with
  | nil => simp [argminFirst]
  | cons x xs => simp [argminFirst]

/-! ### 2. the V-curve and the selected λ -/

theorem vcurve_length (F : VFns α) (step : α) (pts : List (α × α × α)) :
    (vcurve F step pts).length = pts.length - 1 := Smooth.vcurve_length F step pts

/-- entry `k` of the V-curve: distance of consecutive (log fit, log penalty) points over
    `ln10 · step`, paired with the midpoint of the two grid values -/
theorem vcurve_entry (F : VFns α) (step : α) (pts : List (α × α × α)) (k : ℕ)
    (hk : k + 1 < pts.length) :
    (vcurve F step pts)[k]'(by rw [vcurve_length]; omega) =
      (F.sqrt ((pts[k + 1].2.1 - pts[k].2.1) * (pts[k + 1].2.1 - pts[k].2.1)
          + (pts[k + 1].2.2 - pts[k].2.2) * (pts[k + 1].2.2 - pts[k].2.2)) / (F.ln10 * step),
        (pts[k].1 + pts[k + 1].1) / 2) :=
  Smooth.vcurve_getElem F step pts k hk

/-- the sweep yields one point per grid value, in grid order -/
theorem vpts_grid {σ : Type} (F : VFns α) (w y llas : List α) (fit : σ → α → σ × List α) (s0 : σ) :
    (vpts F w y llas fit s0).map (·.1) = llas := vpts_fst F w y llas fit s0

/-- the points of the ws2doptv sweep -/
theorem optv_pts (F : VFns α) (w y llas : List α) :
    vpts F w y llas (fun (_ : Unit) lam => ((), ws2d y lam w)) () =
      llas.map fun l => (l, F.log (fitSS w y (ws2d y (F.pow10 l) w)),
        F.log (penSS (ws2d y (F.pow10 l) w))) :=
  vpts_unit F w y llas fun lam => ws2d y lam w

theorem vselect_midpoint {σ : Type} (F : VFns α) (w y llas : List α) (fit : σ → α → σ × List α)
    (s0 : σ) (lopt : α) (h : vselect F w y llas fit s0 = some lopt) :
    ∃ k, ∃ hk : k + 1 < llas.length,
      lopt = F.pow10 ((llas[k] + llas[k + 1]) / 2) ∧
      ∃ hv : k < (vcurve F (gridStep llas) (vpts F w y llas fit s0)).length,
        (∀ c ∈ vcurve F (gridStep llas) (vpts F w y llas fit s0),
          ¬ c.1 < ((vcurve F (gridStep llas) (vpts F w y llas fit s0))[k]).1) ∧
        ∀ j (hj : j < k), ((vcurve F (gridStep llas) (vpts F w y llas fit s0))[k]).1
          < ((vcurve F (gridStep llas) (vpts F w y llas fit s0))[j]'(by omega)).1 := by
  rw [vselect_eq] at h
  set vc := vcurve F (gridStep llas) (vpts F w y llas fit s0) with hvc
  have hne : vc ≠ [] := by
    intro h0; rw [h0] at h; simp [argminFirst] at h
  obtain ⟨b, hb, _, hmin, k, hk, hkb, hbefore⟩ := argminFirst_spec vc hne
  rw [hb] at h
  simp only [Option.map_some, Option.some.injEq] at h
  have hlen : vc.length = llas.length - 1 := by
    rw [hvc, Smooth.vcurve_length, vpts_length]
  have hk1 : k + 1 < llas.length := by omega
  have hk1' : k + 1 < (vpts F w y llas fit s0).length := by rw [vpts_length]; exact hk1
  refine ⟨k, hk1, ?_, hk, ?_, ?_⟩
  · have he : vc[k] = _ := Smooth.vcurve_getElem F (gridStep llas) (vpts F w y llas fit s0) k hk1'
    rw [← h, ← hkb, he]
    simp only
    rw [vpts_getElem_fst F w y llas fit s0 k (by omega), vpts_getElem_fst F w y llas fit s0 (k + 1) hk1]
  · rw [hkb]; exact hmin
  · rw [hkb]; exact hbefore

theorem vselect_eq_none_iff {σ : Type} (F : VFns α) (w y llas : List α) (fit : σ → α → σ × List α)
    (s0 : σ) : vselect F w y llas fit s0 = none ↔ llas.length ≤ 1 := by
  rw [vselect_eq, Option.map_eq_none_iff, argminFirst_eq_none_iff, ← List.length_eq_zero_iff,
    Smooth.vcurve_length, vpts_length]
  omega

/-! ### 3. ws2doptv -/

theorem optv_eq_some_iff (F : VFns α) (miss : α → Bool) (y llas : List α) (z : List α) (lopt : α) :
    optv F miss y llas = some (z, lopt) ↔
      1 < countValid miss y ∧
      vselect F (weightsOf miss y) y llas
        (fun (_ : Unit) lam => ((), ws2d y lam (weightsOf miss y))) () = some lopt ∧
      z = ws2d y lopt (weightsOf miss y) := by
  rw [optv_unfold]
  by_cases hc : 1 < countValid miss y
  · rw [if_pos hc]
    simp only [Option.map_eq_some_iff, Prod.mk.injEq, hc, true_and]
    constructor
    · rintro ⟨l, hl, rfl, rfl⟩; exact ⟨hl, rfl⟩
    · rintro ⟨hl, rfl⟩; exact ⟨lopt, hl, rfl, rfl⟩
  · rw [if_neg hc]; simp [hc]

theorem optv_isSome_iff (F : VFns α) (miss : α → Bool) (y llas : List α) :
    (optv F miss y llas).isSome ↔ 1 < countValid miss y ∧ 2 ≤ llas.length := by
  rw [optv_unfold]
  by_cases hc : 1 < countValid miss y
  · rw [if_pos hc, Option.isSome_map, Option.isSome_iff_ne_none, Ne, vselect_eq_none_iff]
    constructor
    · intro h; exact ⟨hc, by omega⟩
    · intro h; omega
  · rw [if_neg hc]; simp [hc]

/-- the curve returned with `lopt` is the curve the fixed-λ kernel returns at `lopt` -/
theorem optv_self_consistent (F : VFns α) (miss : α → Bool) (y llas : List α) (z : List α) (lopt : α)
    (h : optv F miss y llas = some (z, lopt)) (h0 : lopt ≠ 0) : gu miss y lopt = some z := by
  rw [optv_eq_some_iff] at h
  obtain ⟨hc, _, rfl⟩ := h
  rw [C02.gu_eq_some miss y lopt h0 (by omega),
    ws2d_masked (maskedEq_clean miss y) (SuppIn.refl _)]

/-- ws2doptv: the reported λ is the grid midpoint at the first strict minimum of the V-curve
    (whose points are given by `optv_pts`), and the curve is the Whittaker curve at that λ -/
theorem optv_lopt (F : VFns α) (miss : α → Bool) (y llas : List α) (z : List α) (lopt : α)
    (h : optv F miss y llas = some (z, lopt)) :
    z = ws2d y lopt (weightsOf miss y) ∧
    ∃ k, ∃ hk : k + 1 < llas.length,
      lopt = F.pow10 ((llas[k] + llas[k + 1]) / 2) ∧
      ∃ hv : k < (vcurve F (gridStep llas) (vpts F (weightsOf miss y) y llas
          (fun (_ : Unit) lam => ((), ws2d y lam (weightsOf miss y))) ())).length,
        (∀ c ∈ vcurve F (gridStep llas) (vpts F (weightsOf miss y) y llas
            (fun (_ : Unit) lam => ((), ws2d y lam (weightsOf miss y))) ()),
          ¬ c.1 < ((vcurve F (gridStep llas) (vpts F (weightsOf miss y) y llas
            (fun (_ : Unit) lam => ((), ws2d y lam (weightsOf miss y))) ()))[k]).1) ∧
        ∀ j (hj : j < k), ((vcurve F (gridStep llas) (vpts F (weightsOf miss y) y llas
            (fun (_ : Unit) lam => ((), ws2d y lam (weightsOf miss y))) ()))[k]).1
          < ((vcurve F (gridStep llas) (vpts F (weightsOf miss y) y llas
            (fun (_ : Unit) lam => ((), ws2d y lam (weightsOf miss y))) ()))[j]'(by omega)).1 := by
  rw [optv_eq_some_iff] at h
  exact ⟨h.2.2, vselect_midpoint F _ _ _ _ _ _ h.2.1⟩

/-! ### 4. asymmetric V-curve kernels -/

theorem optvpCore_eq_some (F : VFns α) (y w : List α) (p : α) (llas : List α) (z : List α)
    (lopt : α) (h : optvpCore F y w p llas = some (z, lopt)) :
    z = expectile y w lopt p ∧
    vselect F w y llas
        (fun (z : List α) lam => let r := irls y w lam p 10 z (zerosLike y); (r.1, r.1))
        (zerosLike y) = some lopt := by
  rw [optvpCore_unfold, Option.map_eq_some_iff] at h
  obtain ⟨l, hl, he⟩ := h
  simp only [Prod.mk.injEq] at he
  obtain ⟨rfl, rfl⟩ := he
  exact ⟨rfl, hl⟩

theorem optvp_self_consistent (F : VFns α) (miss : α → Bool) (y : List α) (p : α) (llas : List α)
    (z : List α) (lopt : α) (h : optvp F miss y p llas = some (z, lopt)) (h0 : lopt ≠ 0) :
    pgu miss y lopt p = some z := by
  unfold optvp at h
  by_cases hc : 1 < countValid miss y
  · rw [if_pos hc] at h
    rw [(optvpCore_eq_some F _ _ p llas z lopt h).1, C02.pgu_eq_some miss y lopt p h0 (by omega),
      expectile_masked (maskedEq_clean miss y)]
  · rw [if_neg hc] at h; simp at h

theorem optvplc_self_consistent (F : VFns α) (miss : α → Bool) (y : List α) (p : α) (hi lo : Bool)
    (gHi gLo gNan : List α) (z : List α) (lopt : α)
    (h : optvplc F miss y p hi lo gHi gLo gNan = some (z, lopt)) (h0 : lopt ≠ 0) :
    pgu miss y lopt p = some z := by
  unfold optvplc at h
  by_cases hc : 1 < countValid miss y
  · rw [if_pos hc] at h
    rw [(optvpCore_eq_some F _ _ p _ z lopt h).1, C02.pgu_eq_some miss y lopt p h0 (by omega),
      expectile_masked (maskedEq_clean miss y)]
  · rw [if_neg hc] at h; simp at h

/-- the selected λ of the asymmetric kernels is again a grid midpoint minimising the V-curve -/
theorem optvp_lopt (F : VFns α) (miss : α → Bool) (y : List α) (p : α) (llas : List α)
    (z : List α) (lopt : α) (h : optvp F miss y p llas = some (z, lopt)) :
    ∃ k, ∃ hk : k + 1 < llas.length, lopt = F.pow10 ((llas[k] + llas[k + 1]) / 2) := by
  unfold optvp at h
  by_cases hc : 1 < countValid miss y
  · rw [if_pos hc] at h
    obtain ⟨k, hk, hl, _⟩ := vselect_midpoint F _ _ _ _ _ _ (optvpCore_eq_some F _ _ p llas z lopt h).2
    exact ⟨k, hk, hl⟩
  · rw [if_neg hc] at h; simp at h

/-! ### 5. grid choice of ws2doptvplc -/

theorem optvplc_grid (F : VFns α) (miss : α → Bool) (y : List α) (p : α) (hi lo : Bool)
    (gHi gLo gNan : List α) :
    optvplc F miss y p hi lo gHi gLo gNan =
      optvp F miss y p (if hi then gHi else if lo then gLo else gNan) := rfl

theorem optvplc_hi (F : VFns α) (miss : α → Bool) (y : List α) (p : α) (lo : Bool)
    (gHi gLo gNan : List α) :
    optvplc F miss y p true lo gHi gLo gNan = optvp F miss y p gHi := rfl

theorem optvplc_lo (F : VFns α) (miss : α → Bool) (y : List α) (p : α)
    (gHi gLo gNan : List α) :
    optvplc F miss y p false true gHi gLo gNan = optvp F miss y p gLo := rfl

theorem optvplc_nan (F : VFns α) (miss : α → Bool) (y : List α) (p : α)
    (gHi gLo gNan : List α) :
    optvplc F miss y p false false gHi gLo gNan = optvp F miss y p gNan := rfl

/-! ### non-vacuity -/

/-- a concrete `VFns ℚ` (the theorems hold for arbitrary ones) -/
def Fq : VFns ℚ := ⟨fun x => x, fun x => x, fun _ => 1, 1⟩

/-- `argminFirst_spec`: a non-empty list -/
example : ([(3, 0), (1, 1), (1, 2)] : List (ℚ × ℚ)) ≠ [] := by simp

/-- `optv_self_consistent`: the hypothesis `optv … = some (z, lopt)` with `lopt ≠ 0` is satisfiable -/
example : ∃ z lopt, optv Fq (fun x : ℚ => decide (x = -3000)) [1, -3000, 2, 5, 3] [0, 1, 2] = some (z, lopt)
    ∧ lopt ≠ 0 := by
  have hs : (optv Fq (fun x : ℚ => decide (x = -3000)) [1, -3000, 2, 5, 3] [0, 1, 2]).isSome := by
    rw [optv_isSome_iff]
    refine ⟨?_, by decide⟩
    norm_num [countValid, List.filter]
  obtain ⟨⟨z, lopt⟩, h⟩ := Option.isSome_iff_exists.1 hs
  refine ⟨z, lopt, h, ?_⟩
  rw [optv_eq_some_iff] at h
  obtain ⟨k, _, hl, _⟩ := vselect_midpoint _ _ _ _ _ _ _ h.2.1
  rw [hl]; simp [Fq]

end Hdc.C04
