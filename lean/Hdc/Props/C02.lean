import Hdc.Lemmas.SmoothMasked
import Mathlib.Tactic.NormNum
import Mathlib.Tactic.IntervalCases
/-
C02  Missing observations carry zero weight.

Formal statements proved in this file (α any linearly ordered field; `miss` the kernel's
missing-cell test; `SameObs miss y miss' y'` = two encodings of the same observations):

  weightsOf_sameObs / cleanOf_sameObs / countValid_sameObs
      SameObs miss y miss' y' → weightsOf, cleanOf, countValid coincide
  gu_sameObs       SameObs → gu miss y lam = gu miss' y' lam                          (any lam)
  pgu_sameObs      SameObs → pgu miss y lam p = pgu miss' y' lam p                    (any lam, p)
  optv_sameObs     SameObs → optv F miss y llas = optv F miss' y' llas          (curve AND lopt, any F)
  optvp_sameObs    SameObs → optvp F miss y p llas = optvp F miss' y' p llas
  optvplc_sameObs  SameObs → optvplc F miss y p hi lo g1 g2 g3 = optvplc F miss' y' p hi lo g1 g2 g3
  wcv_sameObs      SameObs → wcv G miss y llas robust = wcv G miss' y' llas robust    (robust = true, false)
  wcvp_sameObs     SameObs → wcvp G miss y p llas robust = wcvp G miss' y' p llas robust
  gu_passthrough_iff   gu miss y lam = none ↔ lam = 0 ∨ countValid miss y ≤ 1
  pgu_passthrough_iff  pgu miss y lam p = none ↔ lam = 0 ∨ countValid miss y ≤ 1
  optv_passthrough     countValid miss y ≤ 1 → optv F miss y llas = none   (also optvp, optvplc)
  wcv_passthrough_iff  wcv G miss y llas robust = .passthrough ↔ countValid miss y ≤ 4
  wcvp_passthrough_iff wcvp G miss y p llas robust = .passthrough ↔ countValid miss y ≤ 4
  gu_normal_eq     4 ≤ |y|, 0 < lam, 2 ≤ countValid →
                     ∃ z, gu miss y lam = some z ∧ |z| = |y| ∧
                          NormalEq |y| (clean y) (weights y) lam z ∧ (z is the only solution)
  gu_valid_cell_eq / gu_gap_eq
      componentwise reading: z_i + lam (DᵀD z)_i = y_i on valid cells, (DᵀD z)_i = 0 on missing cells
-/
namespace Hdc.C02
open Hdc Hdc.C01 Hdc.Smooth

set_option linter.unusedSectionVars false

variable {α : Type} [Field α] [LinearOrder α] [IsStrictOrderedRing α]

/-! ### specification -/

/-- two encodings (possibly with different placeholders) of the same observations -/
def SameObs (miss : α → Bool) (y : List α) (miss' : α → Bool) (y' : List α) : Prop :=
  y.length = y'.length ∧
    ∀ i (h : i < y.length) (h' : i < y'.length),
      miss y[i] = miss' y'[i] ∧ (miss y[i] = false → y[i] = y'[i])

/-! ### SameObs: what the kernels see is the same -/

variable {miss miss' : α → Bool} {y y' : List α}

theorem sameObs_cons_iff (a b : α) :
    SameObs miss (a :: y) miss' (b :: y') ↔
      (miss a = miss' b ∧ (miss a = false → a = b)) ∧ SameObs miss y miss' y' := by
  constructor
  · rintro ⟨hl, h⟩
    refine ⟨?_, by simpa using hl, ?_⟩
    · have := h 0 (by simp) (by simp)
      simp only [List.getElem_cons_zero] at this
      exact this
    · intro i hi hi'
      have := h (i + 1) (by simpa using hi) (by simpa using hi')
      simp only [List.getElem_cons_succ] at this
      exact this
  · rintro ⟨h0, hl, h⟩
    refine ⟨by simpa using hl, ?_⟩
    intro i hi hi'
    cases i with
    | zero => simp only [List.getElem_cons_zero]; exact h0
    | succ i =>
      simp only [List.getElem_cons_succ]
      exact h i (by simpa using hi) (by simpa using hi')

theorem weightsOf_sameObs (h : SameObs miss y miss' y') : weightsOf miss y = weightsOf miss' y' := by
  apply list_eq_of_fn _ _ (by simpa using h.1)
  intro i hi
  have hi1 : i < y.length := by simpa using hi
  have hi2 : i < y'.length := by rw [← h.1]; exact hi1
  rw [fn_weightsOf _ _ i hi1, fn_weightsOf _ _ i hi2, (h.2 i hi1 hi2).1]

theorem cleanOf_sameObs (h : SameObs miss y miss' y') : cleanOf miss y = cleanOf miss' y' := by
  apply list_eq_of_fn _ _ (by simpa using h.1)
  intro i hi
  have hi1 : i < y.length := by simpa using hi
  have hi2 : i < y'.length := by rw [← h.1]; exact hi1
  rw [fn_cleanOf _ _ i hi1, fn_cleanOf _ _ i hi2, ← (h.2 i hi1 hi2).1]
  cases hm : miss y[i] with
  | true => simp
  | false => simpa using (h.2 i hi1 hi2).2 hm

theorem countValid_sameObs (h : SameObs miss y miss' y') : countValid miss y = countValid miss' y' := by
  induction y generalizing y' with
  | nil =>
    have : y' = [] := by
      have := h.1; simp at this; exact List.length_eq_zero_iff.1 this.symm
    subst this; rfl
  | cons a as ih =>
    cases y' with
    | nil => have := h.1; simp at this
    | cons b bs =>
      rw [sameObs_cons_iff] at h
      have := ih h.2
      simp only [countValid] at this ⊢
      simp only [List.filter_cons, h.1.1]
      split_ifs <;> simp [this]

/-- the raw data agree wherever the validity weights are non-zero -/
theorem maskedEq_of_sameObs (h : SameObs miss y miss' y') : MaskedEq (weightsOf miss y) y y' := by
  refine ⟨h.1.symm, fun i hi => ?_⟩
  obtain ⟨hi1, hm⟩ := weightsOf_ne_zero miss y i hi
  have hi2 : i < y'.length := by rw [← h.1]; exact hi1
  rw [fn_of_lt _ i hi1, fn_of_lt _ i hi2]
  exact (h.2 i hi1 hi2).2 hm

/-! ### 1. fixed-λ kernels -/

theorem gu_sameObs (h : SameObs miss y miss' y') (lam : α) : gu miss y lam = gu miss' y' lam := by
  unfold gu
  rw [countValid_sameObs h, cleanOf_sameObs h, weightsOf_sameObs h]

theorem pgu_sameObs (h : SameObs miss y miss' y') (lam p : α) :
    pgu miss y lam p = pgu miss' y' lam p := by
  unfold pgu
  rw [countValid_sameObs h, cleanOf_sameObs h, weightsOf_sameObs h]

/-! ### 2. V-curve kernels (the data is NOT cleaned there) -/

theorem optv_sameObs (F : VFns α) (h : SameObs miss y miss' y') (llas : List α) :
    optv F miss y llas = optv F miss' y' llas := by
  have hm := maskedEq_of_sameObs h
  unfold optv
  rw [countValid_sameObs h, ← weightsOf_sameObs h]
  simp only [optvSelect_masked F hm llas, ← ws2d_masked hm (SuppIn.refl _)]

theorem optvp_sameObs (F : VFns α) (h : SameObs miss y miss' y') (p : α) (llas : List α) :
    optvp F miss y p llas = optvp F miss' y' p llas := by
  have hm := maskedEq_of_sameObs h
  unfold optvp
  rw [countValid_sameObs h, ← weightsOf_sameObs h, optvpCore_masked F hm]

theorem optvplc_sameObs (F : VFns α) (h : SameObs miss y miss' y') (p : α) (hi lo : Bool)
    (gHi gLo gNan : List α) :
    optvplc F miss y p hi lo gHi gLo gNan = optvplc F miss' y' p hi lo gHi gLo gNan := by
  have hm := maskedEq_of_sameObs h
  unfold optvplc
  rw [countValid_sameObs h, ← weightsOf_sameObs h, optvpCore_masked F hm]

/-! ### 3. GCV kernels -/

theorem wcv_sameObs (G : GFns α) (h : SameObs miss y miss' y') (llas : List α) (robust : Bool) :
    wcv G miss y llas robust = wcv G miss' y' llas robust := by
  unfold wcv
  rw [countValid_sameObs h, cleanOf_sameObs h, weightsOf_sameObs h]

theorem wcvp_sameObs (G : GFns α) (h : SameObs miss y miss' y') (p : α) (llas : List α)
    (robust : Bool) : wcvp G miss y p llas robust = wcvp G miss' y' p llas robust := by
  unfold wcvp
  rw [countValid_sameObs h, cleanOf_sameObs h, weightsOf_sameObs h]

/-! ### 4. pass-through -/

theorem gu_passthrough_iff (miss : α → Bool) (y : List α) (lam : α) :
    gu miss y lam = none ↔ (lam = 0 ∨ countValid miss y ≤ 1) := by
  unfold gu
  by_cases h0 : lam = 0
  · simp [h0, (eqv_iff (0 : α) 0).2 rfl]
  · have : eqv lam (nat 0) = false := by rw [eqv_eq_false_iff, nat_zero]; exact h0
    rw [this]
    by_cases hc : 1 < countValid miss y
    · simp [hc, h0]
    · simp [hc, h0]; omega

theorem pgu_passthrough_iff (miss : α → Bool) (y : List α) (lam p : α) :
    pgu miss y lam p = none ↔ (lam = 0 ∨ countValid miss y ≤ 1) := by
  unfold pgu
  by_cases h0 : lam = 0
  · simp [h0, (eqv_iff (0 : α) 0).2 rfl]
  · have : eqv lam (nat 0) = false := by rw [eqv_eq_false_iff, nat_zero]; exact h0
    rw [this]
    by_cases hc : 1 < countValid miss y
    · simp [hc, h0]
    · simp [hc, h0]; omega

theorem optv_passthrough (F : VFns α) (miss : α → Bool) (y llas : List α)
    (h : countValid miss y ≤ 1) : optv F miss y llas = none := by
  unfold optv; rw [if_neg (by omega)]

theorem optvp_passthrough (F : VFns α) (miss : α → Bool) (y : List α) (p : α) (llas : List α)
    (h : countValid miss y ≤ 1) : optvp F miss y p llas = none := by
  unfold optvp; rw [if_neg (by omega)]

theorem optvplc_passthrough (F : VFns α) (miss : α → Bool) (y : List α) (p : α) (hi lo : Bool)
    (gHi gLo gNan : List α) (h : countValid miss y ≤ 1) :
    optvplc F miss y p hi lo gHi gLo gNan = none := by
  unfold optvplc; rw [if_neg (by omega)]

theorem wcv_passthrough_iff (G : GFns α) (miss : α → Bool) (y llas : List α) (robust : Bool) :
    wcv G miss y llas robust = .passthrough ↔ countValid miss y ≤ 4 := by
  unfold wcv
  by_cases hc : 4 < countValid miss y
  · rw [if_pos hc]
    constructor
    · intro h
      cases hs : gcvSelect G (cleanOf miss y) (weightsOf miss y) llas robust with
      | none => simp [hs] at h
      | some r => simp [hs] at h
    · intro h; omega
  · rw [if_neg hc]
    exact ⟨fun _ => by omega, fun _ => rfl⟩

theorem wcvp_passthrough_iff (G : GFns α) (miss : α → Bool) (y : List α) (p : α) (llas : List α)
    (robust : Bool) : wcvp G miss y p llas robust = .passthrough ↔ countValid miss y ≤ 4 := by
  unfold wcvp
  by_cases hc : 4 < countValid miss y
  · rw [if_pos hc]
    constructor
    · intro h
      cases hs : gcvSelect G (cleanOf miss y) (weightsOf miss y) llas robust with
      | none => simp [hs] at h
      | some r => simp [hs] at h
    · intro h; omega
  · rw [if_neg hc]
    exact ⟨fun _ => by omega, fun _ => rfl⟩

/-! ### 5. gap filling: also at missing cells the curve is THE penalised solution -/

theorem gu_eq_some (miss : α → Bool) (y : List α) (lam : α) (hlam : lam ≠ 0)
    (hv : 2 ≤ countValid miss y) :
    gu miss y lam = some (ws2d (cleanOf miss y) lam (weightsOf miss y)) := by
  unfold gu
  have : eqv lam (nat 0) = false := by rw [eqv_eq_false_iff, nat_zero]; exact hlam
  rw [this]; simp only [Bool.false_eq_true, if_false]; rw [if_pos (by omega)]

theorem pgu_eq_some (miss : α → Bool) (y : List α) (lam p : α) (hlam : lam ≠ 0)
    (hv : 2 ≤ countValid miss y) :
    pgu miss y lam p = some (expectile (cleanOf miss y) (weightsOf miss y) lam p) := by
  unfold pgu
  have : eqv lam (nat 0) = false := by rw [eqv_eq_false_iff, nat_zero]; exact hlam
  rw [this]; simp only [Bool.false_eq_true, if_false]; rw [if_pos (by omega)]

theorem gu_normal_eq (miss : α → Bool) (y : List α) (lam : α) (hn : 4 ≤ y.length) (hlam : 0 < lam)
    (hv : 2 ≤ countValid miss y) :
    ∃ z, gu miss y lam = some z ∧ z.length = y.length ∧
      NormalEq y.length (fn (cleanOf miss y)) (fn (weightsOf miss y)) lam (fn z) ∧
      ∀ z' : ℕ → α, NormalEq y.length (fn (cleanOf miss y)) (fn (weightsOf miss y)) lam z' →
        ∀ i < y.length, z' i = fn z i := by
  have hc := inContract_clean miss y lam hn hlam hv
  refine ⟨_, gu_eq_some miss y lam hlam.ne' hv, ?_, ?_, ?_⟩
  · rw [ws2d_length _ _ _ (by simp)]; simp
  · simpa using ws2d_normal_eq hc
  · intro z' hz' i hi
    exact ws2d_unique hc z' (by simpa using hz') i (by simpa using hi)

/-- on a valid cell the curve satisfies `z_i + lam (DᵀD z)_i = y_i` -/
theorem gu_valid_cell_eq (miss : α → Bool) (y : List α) (lam : α) (hn : 4 ≤ y.length)
    (hlam : 0 < lam) (hv : 2 ≤ countValid miss y) (z : List α) (hz : gu miss y lam = some z)
    (i : ℕ) (hi : i < y.length) (hm : miss y[i] = false) :
    fn z i + lam * DtD y.length (fn z) i = y[i] := by
  obtain ⟨z0, h0, _, hN, _⟩ := gu_normal_eq miss y lam hn hlam hv
  rw [hz] at h0
  obtain rfl : z = z0 := by simpa using h0
  have := hN i hi
  rw [fn_weightsOf miss y i hi, fn_cleanOf miss y i hi, hm] at this
  simpa using this

/-- on a missing cell the curve solves the homogeneous equation `(DᵀD z)_i = 0`: the gap is
    filled by the smoothest interpolant, the placeholder value plays no role -/
theorem gu_gap_eq (miss : α → Bool) (y : List α) (lam : α) (hn : 4 ≤ y.length)
    (hlam : 0 < lam) (hv : 2 ≤ countValid miss y) (z : List α) (hz : gu miss y lam = some z)
    (i : ℕ) (hi : i < y.length) (hm : miss y[i] = true) :
    DtD y.length (fn z) i = 0 := by
  obtain ⟨z0, h0, _, hN, _⟩ := gu_normal_eq miss y lam hn hlam hv
  rw [hz] at h0
  obtain rfl : z = z0 := by simpa using h0
  have := hN i hi
  rw [fn_weightsOf miss y i hi, fn_cleanOf miss y i hi, hm] at this
  simpa [hlam.ne'] using this

/-! ### non-vacuity -/

/-- two encodings of the same five observations (one missing), with placeholders −3000 and 255 -/
example : SameObs (fun x : ℚ => decide (x = -3000)) [1, -3000, 2, 5, 3]
    (fun x : ℚ => decide (x = 255)) [1, 255, 2, 5, 3] := by
  refine ⟨rfl, ?_⟩
  intro i h h'
  simp only [List.length_cons, List.length_nil] at h
  interval_cases i <;> norm_num

/-- the hypotheses of `gu_normal_eq` are satisfiable -/
example : 4 ≤ ([1, -3000, 2, 5, 3] : List ℚ).length ∧ (0 : ℚ) < 7 ∧
    2 ≤ countValid (fun x : ℚ => decide (x = -3000)) [1, -3000, 2, 5, 3] := by
  refine ⟨by decide, by norm_num, ?_⟩
  norm_num [countValid, List.filter]

/-- the pass-through side: one valid cell only -/
example : countValid (fun x : ℚ => decide (x = -3000)) [-3000, -3000, 2, -3000] ≤ 1 := by
  norm_num [countValid, List.filter]

end Hdc.C02
