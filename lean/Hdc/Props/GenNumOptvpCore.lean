import Hdc.Lemmas.GenNum
import Hdc.Gen.NumWs2doptvpCore
import Hdc.Lemmas.GenNumOptvp
import Std.Tactic.Do
/-
GenNumOptvpCore  The GENERATED translation of `hdc/algo/ops/ws2doptvp.py::_ws2doptvp` (Hdc/Gen/NumWs2doptvpCore.lean, an
imperative `Id.run do` program over an abstract carrier `α`, regenerated from the Python source by
harness/py2lean_optvp.py) computes the hand model `Hdc.optvpCore`.

  gen_ws2doptvpCore_eq_model   optvpCore F y w p llas = some (curve, λ) of the program
  gen_ws2doptvpCore_eq         the same as an equation for the returned pair

Method: `mvcgen` with one invariant per loop (Hdc/Lemmas/GenNumOptvp.lean); the verification conditions of the loops
are dispatched by shape by `optvp_loops`; the generated expressions are never copied into this file (only the positions
of the loop variables inside the state tuples of the `for` loops appear, in the comments next to the invariants).
-/
namespace Hdc.GenNum
open Hdc Hdc.Gen.NumKernels Std.Do
open Hdc.Ws2dGen (av Holds)
open Hdc.Ws2d (fnl)

set_option mvcgen.warning false
set_option linter.unusedSimpArgs false
set_option linter.unusedTactic false
set_option linter.unreachableTactic false

section optvpCore
variable {α : Type} [Field α] [LinearOrder α] [IsStrictOrderedRing α]

/-- The translated `_ws2doptvp` equals the hand model `Hdc.optvpCore`: the curve of the final asymmetric fit
    (restarted from the zero curve) and the λ selected on the V-curve of the warm-started sweep.

    Hypotheses: `len(w) = len(y)` and `3 ≤ len(y)` (what the translated `ws2d` needs), at least 2 grid points (otherwise
    the source reads `llas[1]`, `v[0]` out of range).

    One invariant per loop of the source (Hdc/Lemmas/GenNumOptvp.lean): `SweepP` (λ grid, warm start), `IInv`
    (re-weighting loop with `break`: the model's loop continued from the current state returns the model's result),
    `AWInv` (asymmetric weights), `L1Inv` (`Σ|znew − z|`), `AccInv` (the two `+=` accumulations), `Holds` (first
    differences), `VInvG` (V-curve), `ArgInvG` (first strict minimum), and the second copy of the re-weighting loop. -/
theorem gen_ws2doptvpCore_eq_model (F : VFns α) (y w llas : List α) (p : α)
    (hw : w.length = y.length) (h3 : 3 ≤ y.length) (h2 : 2 ≤ llas.length) :
    Hdc.optvpCore F y w p llas = some
      ((Gen.NumKernels.ws2doptvpCore F y.toArray w.toArray p llas.toArray).1.toList,
       (Gen.NumKernels.ws2doptvpCore F y.toArray w.toArray p llas.toArray).2) := by
  generalize hres : Gen.NumKernels.ws2doptvpCore F y.toArray w.toArray p llas.toArray = res
  apply Id.of_wp_run_eq hres
  mvcgen invariants
  -- λ grid, state `(lmda, z_tmp, w_tmp, y_tmp, z2, i, j, fits, pens, z, znew, diff1, wa, ww)`
  · ⇓⟨xs, s⟩ => ⌜SweepP F w y p llas xs.prefix.length s.2.2.2.2.2.2.2.1 s.2.2.2.2.2.2.2.2.1
      s.2.2.2.2.2.2.2.2.2.1 s.2.2.2.2.2.2.2.2.2.2.1 s.2.2.2.2.2.2.2.2.2.2.2.1 s.2.2.2.2.2.2.2.2.2.2.2.2.1
      s.2.2.2.2.2.2.2.2.2.2.2.2.2⌝
  -- re-weighting loop, state `(z_tmp, y_tmp, i, j, z, znew, wa, ww)`
  · ⇓⟨xs, s⟩ => by
      py_name z as z0; py_name lmda as lam
      exact ⌜IInv y w lam p (irls y w lam p 10 z0.toList (zerosLike y)) xs.prefix.length
        s.2.2.2.2.1 s.2.2.2.2.2.1 s.2.2.2.2.2.2.1 s.2.2.2.2.2.2.2⌝
  -- `wa[j] = …; ww[j] = w[j] * wa[j]`, state `(z_tmp, y_tmp, j, wa, ww)`
  · ⇓⟨xs, s⟩ => by
      py_name z as zc
      exact ⌜AWInv p w y zc.toList xs.prefix.length s.2.2.2.1 s.2.2.2.2⌝
  -- `z_tmp += abs(znew[j] - z[j])`, state `(z_tmp, j)`
  · ⇓⟨xs, s⟩ => by
      py_name z as zc; py_name znew as zn
      exact ⌜L1Inv zn.toList zc.toList xs.prefix.length s.1⌝
  -- `fits[lix] += …`, state `(z_tmp, w_tmp, y_tmp, i, fits)`
  · ⇓⟨xs, s⟩ => by
      py_name fits as fits0; py_name cur as k; py_name z as zc
      exact ⌜AccInv fits0 s.2.2.2.2 k.toNat (fitTerms w y zc.toList) xs.prefix.length⌝
  -- `diff1[i] = z[i+1] - z[i]`, state `(z_tmp, z2, i, diff1)`
  · ⇓⟨xs, s⟩ => by
      py_name z as zc
      exact ⌜Holds (y.length - 1) (fnl (diffs zc.toList)) xs.prefix.length s.2.2.2⌝
  -- `pens[lix] += …`, state `(z_tmp, z2, i, pens)`
  · ⇓⟨xs, s⟩ => by
      py_name pens as pens0; py_name cur as k; py_name z as zc
      exact ⌜AccInv pens0 s.2.2.2 k.toNat (penTerms zc.toList) xs.prefix.length⌝
  -- V-curve, state `(l1, l2, fit1, fit2, pen1, pen2, i, lamids, v)`
  · ⇓⟨xs, s⟩ => ⌜VInvG F llas (fG F w y p llas) (pG F w y p llas) xs.prefix.length
      s.2.2.2.2.2.2.2.1 s.2.2.2.2.2.2.2.2⌝
  -- first strict minimum, state `(i, k, vmin)`
  · ⇓⟨xs, s⟩ => ⌜ArgInvG F llas (fG F w y p llas) (pG F w y p llas) xs.prefix.length s.2.1 s.2.2⌝
  -- final re-weighting loop (same three states)
  · ⇓⟨xs, s⟩ => by
      py_name z as z0; py_name lopt as lam
      exact ⌜IInv y w lam p (irls y w lam p 10 z0.toList (zerosLike y)) xs.prefix.length
        s.2.2.2.2.1 s.2.2.2.2.2.1 s.2.2.2.2.2.2.1 s.2.2.2.2.2.2.2⌝
  · ⇓⟨xs, s⟩ => by
      py_name z as zc
      exact ⌜AWInv p w y zc.toList xs.prefix.length s.2.2.2.1 s.2.2.2.2⌝
  · ⇓⟨xs, s⟩ => by
      py_name z as zc; py_name znew as zn
      exact ⌜L1Inv zn.toList zc.toList xs.prefix.length s.1⌝
  all_goals
    pyn_ranges
    simp (config := {zetaDelta := true}) only [List.size_toArray, List.length_append,
      List.length_singleton, List.length_nil, pyRange_length, decide_eq_true_eq, gt_iff_lt,
      Int.toNat_natCast, Int.sub_zero, show Int.toNat 10 = 10 from rfl] at *
  optvp_loops hw h3 h2
  -- after the final re-weighting loop: `z = ws2d(y, lopt, ww)`; `return z, lopt`
  all_goals
    obtain ⟨hlo, hz⟩ := final_fit ‹ArgInvG _ _ _ _ _ _ _› (by omega) ‹VInvG _ _ _ _ _ _ _› (by omega)
      ‹SweepP _ _ _ _ _ _ _ _ _ _ _ _ _› hw h3 ‹IInv _ _ _ _ _ _ _ _ _ _›
    rw [optvpCore_eq F y w p llas h2, hz, hlo]

/-- the same, as an equation for the returned pair -/
theorem gen_ws2doptvpCore_eq (F : VFns α) (y w llas : List α) (p : α)
    (hw : w.length = y.length) (h3 : 3 ≤ y.length) (h2 : 2 ≤ llas.length)
    (z : List α) (lo : α) (hm : Hdc.optvpCore F y w p llas = some (z, lo)) :
    Gen.NumKernels.ws2doptvpCore F y.toArray w.toArray p llas.toArray = (z.toArray, lo) := by
  have h := gen_ws2doptvpCore_eq_model F y w llas p hw h3 h2
  rw [hm] at h
  injection h with h
  injection h with h1 h2
  apply Prod.ext
  · apply Array.toList_inj.1; exact h1.symm
  · exact h2.symm

/-- a toy instance of the transcendental functions over ℚ (identity maps, `ln 10 := 1`) -/
def FqC : VFns ℚ := ⟨fun x => x, fun x => x, fun x => x, 1⟩

/-- non-vacuity: five cells, one of weight 0, three grid points, `p = 9/10` -/
example :
    Gen.NumKernels.ws2doptvpCore FqC [1, 2, 4, 3, 5].toArray [1, 1, 0, 1, 1].toArray (9 / 10)
        [1, 2, 3].toArray
      = (#[94443 / 94618, 93118 / 47309, 139046 / 47309, 185577 / 47309, 466565 / 94618], 5 / 2) := by
  rw [gen_ws2doptvpCore_eq FqC [1, 2, 4, 3, 5] [1, 1, 0, 1, 1] [1, 2, 3] (9 / 10) rfl (by decide) (by decide)
    [94443 / 94618, 93118 / 47309, 139046 / 47309, 185577 / 47309, 466565 / 94618] (5 / 2)
    (by decide +kernel)]

end optvpCore

end Hdc.GenNum
