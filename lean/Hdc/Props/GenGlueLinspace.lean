import Hdc.Gen.GlueLinspace
import Hdc.Lemmas.GenGlueLinspace
import Hdc.Props.C09
/-
GenGlueLinspace  The GENERATED translation of `hdc/algo/utils.py::to_linspace` (Hdc/Gen/GlueLinspace.lean) equals the hand model
`Hdc.toLinspace` (Hdc/Model/Discrete.lean): the index of every label among the sorted distinct labels, and the keys.

The source computes more than the model says (`idx[idx == keys.size] = 0`, the mask `keys[idx] == x`, `np.where(mask, values[idx],
0)`): the theorem shows these steps are the identity, because every label of `x` is one of the keys.
Hypothesis: `np.searchsorted(keys, v)` on a STRICTLY ASCENDING `keys` is element-wise the model's `searchLeft` (NumPy's contract
on a sorted array; nothing is assumed for unsorted arrays).  `x` is one-dimensional (translator note).
-/
namespace Hdc.GenGlue
open Hdc Hdc.PyGlue Hdc.Gen.Glue Hdc.Spi

set_option linter.unusedSimpArgs false

variable {L : Type} [LinearOrder L]

/-- assumed behaviour of the vectorised `np.searchsorted(keys, v)` (side = 'left') on strictly ascending keys -/
def SearchsortedVecSpec (ssv : List L → List L → List Int) : Prop :=
  ∀ keys vs : List L, keys.Pairwise (· < ·) → ssv keys vs = vs.map fun v => ((Py.searchLeft keys v : Nat) : Int)

theorem gen_to_linspace_eq_model (ssv : List L → List L → List Int) (hss : SearchsortedVecSpec ssv) (x : List L) :
    to_linspace ssv x = .ok ((toLinspace x).1.map Int.ofNat, (toLinspace x).2) := by
  unfold to_linspace toLinspace
  have hsorted := unique_sorted x
  have hidx : ssv (Py.unique x) x = x.map fun v => ((Py.searchLeft (Py.unique x) v : Nat) : Int) := hss _ _ hsorted
  -- no index equals `keys.size`: the masked assignment changes nothing
  have h1 : ∀ w : Int, maskAssign (x.map fun v => ((Py.searchLeft (Py.unique x) v : Nat) : Int))
      ((x.map fun v => ((Py.searchLeft (Py.unique x) v : Nat) : Int)).map fun i => decide (i = len (Py.unique x))) w
      = .ok (x.map fun v => ((Py.searchLeft (Py.unique x) v : Nat) : Int)) := by
    intro w
    apply maskAssign_none
    intro i hi
    obtain ⟨v, hv, rfl⟩ := List.mem_map.1 hi
    obtain ⟨hlt, _⟩ := searchLeft_unique_spec x v hv
    have : ((Py.searchLeft (Py.unique x) v : Nat) : Int) ≠ ((Py.unique x).length : Int) := by omega
    simpa [len] using this
  -- `keys[idx]` gives the labels back: the mask is all true
  have h2 : gather (Py.unique x) (x.map fun v => ((Py.searchLeft (Py.unique x) v : Nat) : Int)) = .ok (x.map id) := by
    apply gather_of
    intro v hv
    obtain ⟨hlt, heq⟩ := searchLeft_unique_spec x v hv
    rw [getItem_natCast _ _ hlt, heq]; rfl
  -- `values[idx] = idx`
  have h3 : gather (range 0 (len (Py.unique x))) (x.map fun v => ((Py.searchLeft (Py.unique x) v : Nat) : Int))
      = .ok (x.map fun v => ((Py.searchLeft (Py.unique x) v : Nat) : Int)) := by
    apply gather_of
    intro v hv
    obtain ⟨hlt, _⟩ := searchLeft_unique_spec x v hv
    exact getItem_range _ _ hlt
  have h4 := npWhereS_all_true x (x.map fun v => ((Py.searchLeft (Py.unique x) v : Nat) : Int)) (0 : Int) (by simp)
  simp only [npSort_of_sorted _ hsorted, hidx, h1, ok_bind, h2, List.map_id, zipWithArr_self, decide_true, h3, h4, pure_eq]
  simp [List.map_map, Function.comp_def]

/-! ### C09 read off the translated source -/

/-- the indices the translated `to_linspace` returns point at the label among the returned keys, and equal indices ⇔ equal
    labels (`C09.toLinspace_spec`) -/
theorem gen_to_linspace_spec (ssv : List L → List L → List Int) (hss : SearchsortedVecSpec ssv) (x : List L) :
    ∃ (idx : List Nat) (keys : List L), to_linspace ssv x = .ok (idx.map Int.ofNat, keys) ∧
      keys.Pairwise (· < ·) ∧ (∀ v, v ∈ keys ↔ v ∈ x) ∧ idx.length = x.length ∧
      ∀ i j (hi : i < x.length) (hj : j < x.length), idx[i]? = idx[j]? ↔ x[i] = x[j] := by
  refine ⟨(toLinspace x).1, (toLinspace x).2, gen_to_linspace_eq_model ssv hss x, C09.toLinspace_keys_sorted x,
    C09.toLinspace_keys_mem x, C09.toLinspace_idx_length x, ?_⟩
  intro i j hi hj
  have h := C09.toLinspace_idx_eq_iff x i j hi hj
  have hi' : i < (toLinspace x).1.length := by rw [C09.toLinspace_idx_length]; exact hi
  have hj' : j < (toLinspace x).1.length := by rw [C09.toLinspace_idx_length]; exact hj
  rw [List.getElem?_eq_getElem hi', List.getElem?_eq_getElem hj', Option.some.injEq]
  exact h

/-! ### Non-vacuity -/

example : to_linspace (L := Int) (fun keys vs => vs.map fun v => ((Py.searchLeft keys v : Nat) : Int)) [30, 10, 30, 20]
    = .ok ([2, 0, 2, 1], [10, 20, 30]) :=
  (gen_to_linspace_eq_model _ (fun _ _ _ => rfl) [30, 10, 30, 20]).trans (by decide)

end Hdc.GenGlue
