import Hdc.Gen.GlueWhitswcv
import Hdc.Lemmas.GenGlueWhit
/-
GenGlueWhitswcv  The GENERATED translation of the accessor `WhittakerSmoother.whitswcv` (Hdc/Gen/GlueWhitswcv.lean) equals the
decision table `Hdc.AccWhit.whitswcvPlan` followed by the post-processing `sgridDataset`, and the consequences C05 relies on: the
default grid `np.arange(-1.8, 4.2, 0.2)` in BOTH branches when no `srange` is given, a truthy `p` selecting `ws2dwcvp(nodata, p,
srange, robust)`, otherwise `ws2dwcv(nodata, srange, robust)`, `robust` passed through (default True).

`if p:` is the Python TRUTH VALUE of an `Optional[float]` (parameter `p_nonzero`).  The source spells the default grid twice
(`np.arange(-1.8, 4.2, 0.2, dtype=np.float64)` in the asymmetric branch, `np.arange(-1.8, 4.2, 0.2)` in the symmetric one): two
library parameters `d64`, `d`, both matched with their literals.  NumPy's `arange` of float arguments IS float64, i.e. `d64 = d`;
that fact about NumPy is the hypothesis `hd` of the merged statements and of nothing else.
-/
namespace Hdc.GenGlue
open Hdc Hdc.PyGlue Hdc.Gen.Glue Hdc.AccWhit

set_option linter.unusedSimpArgs false
set_option linter.unusedVariables false

variable {V SR P DA SGr DS LogS : Type} [Inhabited DA] [Inhabited SGr]

/-- REFINEMENT (no hypothesis): the translated accessor is the plan - with the default grid of the branch taken - run by the two
    kernel parameters, then turned into the output Dataset -/
theorem gen_whitswcv_eq_plan (ct : Bool) (nz : P → Bool) (d64 : SR) (awp : V → Option P → Option SR → Bool → DA × SGr) (d : SR)
    (aw : V → Option SR → Bool → DA × SGr) (td : DA → DS) (lg : SGr → LogS) (ss : DS → LogS → DS)
    (nd : V) (sr : Option SR) (p : Option P) (rb : Bool) :
    whitswcv ct nz d64 awp d aw td lg ss nd sr p rb
      = (whitswcvPlan ct nz (if pyTruthy nz p then d64 else d) nd sr p rb).map
          fun c => sgridDataset td lg ss (runGcv awp aw c) := by
  unfold whitswcv whitswcvPlan pyTruthy srangeOrDefault
  rcases ct with _ | _ <;> rcases sr with _ | r <;> rcases p with _ | q
  all_goals glue_eval
  all_goals simp only [except_map_ok, except_map_error, runGcv, sgridDataset]
  all_goals first
    | rfl
    | (by_cases h : nz q = true <;> simp only [h, if_false, if_true] <;> rfl)

/-- REFINEMENT with ONE default grid (`hd`: the two spellings of the default denote the same array) -/
theorem gen_whitswcv_eq_plan_one_default (ct : Bool) (nz : P → Bool) (d64 : SR) (awp : V → Option P → Option SR → Bool → DA × SGr)
    (d : SR) (aw : V → Option SR → Bool → DA × SGr) (td : DA → DS) (lg : SGr → LogS) (ss : DS → LogS → DS)
    (nd : V) (sr : Option SR) (p : Option P) (rb : Bool) (hd : d64 = d) :
    whitswcv ct nz d64 awp d aw td lg ss nd sr p rb
      = (whitswcvPlan ct nz d nd sr p rb).map fun c => sgridDataset td lg ss (runGcv awp aw c) := by
  rw [gen_whitswcv_eq_plan, hd, ite_self]

/-- no time dimension: MissingTimeError -/
theorem gen_whitswcv_no_time (nz : P → Bool) (d64 : SR) (awp : V → Option P → Option SR → Bool → DA × SGr) (d : SR)
    (aw : V → Option SR → Bool → DA × SGr) (td : DA → DS) (lg : SGr → LogS) (ss : DS → LogS → DS)
    (nd : V) (sr : Option SR) (p : Option P) (rb : Bool) :
    whitswcv false nz d64 awp d aw td lg ss nd sr p rb = .error .missingTimeError := by
  rw [gen_whitswcv_eq_plan]; rfl

/-- a TRUTHY `p` (`hq`): `ws2dwcvp(nodata, p, srange, robust)` with the given grid, or the asymmetric branch's default
    `np.arange(-1.8, 4.2, 0.2, dtype=np.float64)` when none is given; `robust` is passed through -/
theorem gen_whitswcv_p_truthy_asymmetric (nz : P → Bool) (d64 : SR) (awp : V → Option P → Option SR → Bool → DA × SGr) (d : SR)
    (aw : V → Option SR → Bool → DA × SGr) (td : DA → DS) (lg : SGr → LogS) (ss : DS → LogS → DS)
    (nd : V) (sr : Option SR) (q : P) (rb : Bool) (hq : nz q = true) :
    whitswcv true nz d64 awp d aw td lg ss nd sr (some q) rb
      = .ok (ss (td (awp nd (some q) (some (srangeOrDefault d64 sr)) rb).1)
                (lg (awp nd (some q) (some (srangeOrDefault d64 sr)) rb).2)) := by
  rw [gen_whitswcv_eq_plan]
  simp only [whitswcvPlan, pyTruthy, hq, Bool.not_true, Bool.false_eq_true, if_false, if_true, except_map_ok, runGcv, sgridDataset]

/-- CURRENT SOURCE, documented behaviour: the test is `if p:`, so `p = 0.0` (`hq`) silently selects the SYMMETRIC kernel
    `ws2dwcv(nodata, srange, robust)` (default grid `np.arange(-1.8, 4.2, 0.2)`); `p` is dropped -/
theorem gen_whitswcv_p_zero_symmetric (nz : P → Bool) (d64 : SR) (awp : V → Option P → Option SR → Bool → DA × SGr) (d : SR)
    (aw : V → Option SR → Bool → DA × SGr) (td : DA → DS) (lg : SGr → LogS) (ss : DS → LogS → DS)
    (nd : V) (sr : Option SR) (q : P) (rb : Bool) (hq : nz q = false) :
    whitswcv true nz d64 awp d aw td lg ss nd sr (some q) rb
      = .ok (ss (td (aw nd (some (srangeOrDefault d sr)) rb).1) (lg (aw nd (some (srangeOrDefault d sr)) rb).2)) := by
  rw [gen_whitswcv_eq_plan]
  simp only [whitswcvPlan, pyTruthy, hq, Bool.not_true, Bool.false_eq_true, if_false, if_true, except_map_ok, runGcv, sgridDataset]

/-- no `p`: the symmetric kernel `ws2dwcv(nodata, srange, robust)`, default grid `np.arange(-1.8, 4.2, 0.2)` -/
theorem gen_whitswcv_p_none_symmetric (nz : P → Bool) (d64 : SR) (awp : V → Option P → Option SR → Bool → DA × SGr) (d : SR)
    (aw : V → Option SR → Bool → DA × SGr) (td : DA → DS) (lg : SGr → LogS) (ss : DS → LogS → DS)
    (nd : V) (sr : Option SR) (rb : Bool) :
    whitswcv true nz d64 awp d aw td lg ss nd sr none rb
      = .ok (ss (td (aw nd (some (srangeOrDefault d sr)) rb).1) (lg (aw nd (some (srangeOrDefault d sr)) rb).2)) := by
  rw [gen_whitswcv_eq_plan]; rfl

/-- a given `srange` is used unchanged in BOTH branches (the defaults are not consulted) -/
theorem gen_whitswcv_srange_given (ct : Bool) (nz : P → Bool) (d64 d64' : SR) (awp : V → Option P → Option SR → Bool → DA × SGr)
    (d d' : SR) (aw : V → Option SR → Bool → DA × SGr) (td : DA → DS) (lg : SGr → LogS) (ss : DS → LogS → DS)
    (nd : V) (r : SR) (p : Option P) (rb : Bool) :
    whitswcv ct nz d64 awp d aw td lg ss nd (some r) p rb = whitswcv ct nz d64' awp d' aw td lg ss nd (some r) p rb := by
  rw [gen_whitswcv_eq_plan, gen_whitswcv_eq_plan]; rfl

/-- the defaults of the `def` line (`srange=None, p=None, robust=True`): `whitswcv(nodata)` is the ROBUST symmetric fit on the
    default grid -/
theorem gen_whitswcv_dflt (nz : P → Bool) (d64 : SR) (awp : V → Option P → Option SR → Bool → DA × SGr) (d : SR)
    (aw : V → Option SR → Bool → DA × SGr) (td : DA → DS) (lg : SGr → LogS) (ss : DS → LogS → DS) (nd : V) :
    whitswcv_dflt true nz d64 awp d aw td lg ss nd
      = .ok (ss (td (aw nd (some d) true).1) (lg (aw nd (some d) true).2)) := by
  unfold whitswcv_dflt; rw [gen_whitswcv_eq_plan]; rfl

/-! non-vacuity: numbers are `Int` scaled by 10, `nz q = (q != 0)`; the kernels record their name and arguments, lambda = 100;
    the default grid is the number 77 -/
section examples
private abbrev K := String × Int × Option Int × Option Int × Bool
private def awpX : Int → Option Int → Option Int → Bool → K × Int := fun nd p sr rb => (("wcvp", nd, p, sr, rb), 100)
private def awX : Int → Option Int → Bool → K × Int := fun nd sr rb => (("wcv", nd, none, sr, rb), 100)
private def nzW : Int → Bool := fun q => q != 0
private def tdW : K → K × Option Int := fun d => (d, none)
private def ssW : K × Option Int → Int → K × Option Int := fun d g => (d.1, some g)

example : whitswcv true nzW 77 awpX 77 awX tdW (fun l => l + 1) ssW (-3000) none (some 9) false
    = .ok (("wcvp", -3000, some 9, some 77, false), some 101) :=
  gen_whitswcv_p_truthy_asymmetric nzW 77 awpX 77 awX tdW (fun l => l + 1) ssW (-3000) none 9 false rfl
/-- outside `hq` (p = 0): the symmetric kernel -/
example : whitswcv true nzW 77 awpX 77 awX tdW (fun l => l + 1) ssW (-3000) none (some 0) false
    = .ok (("wcv", -3000, none, some 77, false), some 101) :=
  gen_whitswcv_p_zero_symmetric nzW 77 awpX 77 awX tdW (fun l => l + 1) ssW (-3000) none 0 false rfl
example : whitswcv true nzW 77 awpX 77 awX tdW (fun l => l + 1) ssW (-3000) (some 5) none true
    = .ok (("wcv", -3000, none, some 5, true), some 101) :=
  gen_whitswcv_p_none_symmetric nzW 77 awpX 77 awX tdW (fun l => l + 1) ssW (-3000) (some 5) true
example : whitswcv_dflt true nzW 77 awpX 77 awX tdW (fun l => l + 1) ssW (-3000)
    = .ok (("wcv", -3000, none, some 77, true), some 101) :=
  gen_whitswcv_dflt nzW 77 awpX 77 awX tdW (fun l => l + 1) ssW (-3000)
/-- `hd` of `gen_whitswcv_eq_plan_one_default` is necessary: with two DIFFERENT defaults (78 ≠ 77) and a truthy `p` the program
    uses the asymmetric branch's grid, the one-default plan the other -/
example : whitswcv true nzW 78 awpX 77 awX tdW (fun l => l + 1) ssW (-3000) none (some 9) false
    ≠ (whitswcvPlan true nzW (77 : Int) (-3000) none (some 9) false).map fun c => sgridDataset tdW (fun l => l + 1) ssW (runGcv awpX awX c) := by
  rw [gen_whitswcv_eq_plan]
  intro h
  have h' := congrArg (fun x => match x with | .ok (r : K × Option Int) => r.1.2.2.2.1 | .error _ => none) h
  exact absurd h' (by decide)
/-- outside `ct = true` -/
example : whitswcv false nzW 77 awpX 77 awX tdW (fun l => l + 1) ssW (-3000) none (some 9) false = .error .missingTimeError :=
  gen_whitswcv_no_time ..
end examples

end Hdc.GenGlue
