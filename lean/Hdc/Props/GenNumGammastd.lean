import Hdc.Lemmas.GenNumGammastd
import Hdc.Gen.NumGammastd
import Hdc.Props.GenNumGammafit
import Std.Tactic.Do
/-
GenNumGammastd  The GENERATED translation of `ops/stats.py::gammastd` (Hdc/Gen/NumGammastd.lean, written by
harness/py2lean_spi.py from the current Python source) computes the hand model `Hdc.gammastd`.

  gen_gammastd_eq_model    (gammastd F digamma xtol rtol x nodata cs ce 0 0).toList
                             = (Hdc.gammastd (brentRoot F digamma xtol rtol) x nodata cs ce).map (·.getD nodata)
                           for EVERY series `x`, every `nodata`, every calibration window `cs ce : ℕ`
                           (the model separates "no value" (`none`) from the value; the source stores `nodata` there)
  gen_gammastd_eq_model_arr   the same as an equation between arrays

The window bounds are natural numbers because the model's are (`(x.drop cs).take (ce − cs)`); the translation of
`x[cal_start:cal_stop]` (`pySlice`) implements Python's wrap-around for negative bounds, which the model does not describe.
The overrides `a`, `b` of the source are at their defaults `0` (the only way the wrappers call `gammastd`; the model
has no overrides).  No other hypothesis.

Method: `mvcgen`, one invariant per loop (Hdc/Lemmas/GenNumGammastd.lean): `CntInv` (the two counters over the cells
that are not nodata), `FillInv` (cells `< ix` are the model's cells, the others still nodata; the two writes
`y[ix] = …; y[ix] = ndtri(y[ix])` are one model cell).  The source's chain of early returns is matched with the model's
`if`s by `gammastd_of_counts`; the call of the translated `gammafit` on the slice is bridged by `gen_gammafit_eq_model`
and `pySlice_nat`.  (The statements after `if (a == 0) and (b == 0): … else: …` are verified once per branch; the
`else` branch is unreachable for `a = b = 0`.)
-/
namespace Hdc.GenNum
open Hdc Hdc.Gen.NumKernels Std.Do

set_option mvcgen.warning false
set_option linter.unusedSimpArgs false
set_option linter.unusedTactic false
set_option linter.unreachableTactic false

section gammastd
variable {α : Type} [Field α] [LinearOrder α] [IsStrictOrderedRing α]

/-- The translated `gammastd` (overrides `a = b = 0`) equals the hand model cell by cell, `none` read as `nodata`. -/
theorem gen_gammastd_eq_model (F : GamFns α) (digamma : α → α) (xtol rtol : α) (x : List α) (nodata : α)
    (cs ce : ℕ) :
    (Gen.NumKernels.gammastd F digamma xtol rtol x.toArray nodata (cs : ℤ) (ce : ℤ) (nat 0) (nat 0)).toList
      = (Hdc.gammastd (brentRoot F digamma xtol rtol) x nodata cs ce).map (fun o => o.getD nodata) := by
  generalize hres : Gen.NumKernels.gammastd F digamma xtol rtol x.toArray nodata (cs : ℤ) (ce : ℤ) (nat 0) (nat 0) = res
  apply Id.of_wp_run_eq hres
  mvcgen invariants
  -- counting loop, state `(n_zero, n_valid)`
  · ⇓⟨xs, s⟩ => ⌜CntInv x nodata xs.prefix.length s.1 s.2⌝
  -- output loop after `alpha, beta = gammafit(x[cal_start:cal_stop])`, state `y`
  · ⇓⟨xs, s⟩ => by
      py_name p_zero as p0; py_name alpha as al; py_name beta as be
      exact ⌜FillInv (brentRoot F digamma xtol rtol) nodata p0 al be x xs.prefix.length s⌝
  -- output loop after `alpha, beta = (a, b)`: not reached for `a = b = 0`
  · ⇓⟨xs, s⟩ => ⌜True⌝
  all_goals
    pyn_ranges
    simp (config := {zetaDelta := true}) only [List.size_toArray, List.length_append,
      List.length_singleton, List.length_nil, pyRange_length, decide_eq_true_eq, gt_iff_lt,
      Int.toNat_natCast, Bool.not_eq_true', decide_eq_false_iff_not, not_not, Bool.or_eq_true,
      Bool.and_eq_true, pySlice_nat, gen_gammafit_eq_model, eqv_self, and_self, not_true_eq_false] at *
  all_goals first
    | trivial
    | contradiction
    | (py_name cur as c
       refine CntInv.step (cur := c) ‹CntInv _ _ _ _ _› (by omega) (by omega) ?_ ?_ <;>
         (clear hrange; simp only [*, if_true, if_false, ite_true, ite_false, not_true_eq_false, not_false_eq_true, Bool.false_eq_true]))
    | exact CntInv.init x nodata
    | (py_name cur as c
       exact FillInv.step_skip (cur := c) ‹FillInv _ _ _ _ _ _ _ _› (by omega) (by omega) (Or.inl ‹_›))
    | (py_name cur as c
       exact FillInv.step_skip (cur := c) ‹FillInv _ _ _ _ _ _ _ _› (by omega) (by omega) (Or.inr ‹_›))
    | (py_name cur as c
       exact FillInv.step_valid (cur := c) ‹FillInv _ _ _ _ _ _ _ _› (by omega) (by omega) ‹¬ eqv _ _ = true› ‹¬ _ < _›)
    | exact FillInv.init _ nodata _ _ _ x _ rfl
    | (rw [toList_npFullLike, gammastd_of_counts _ x nodata cs ce ‹CntInv _ _ _ _ _› (by omega)]
       simp only [*, if_true, if_false, ite_true, ite_false, not_true_eq_false, not_false_eq_true,
         Bool.false_eq_true, List.size_toArray, brentRoot_c09, or_self, or_true, true_or])
    | (rw [(‹FillInv _ _ _ _ _ _ _ _›).final (by omega), gammastd_of_counts _ x nodata cs ce ‹CntInv _ _ _ _ _› (by omega)]
       simp only [*, if_true, if_false, ite_true, ite_false, not_true_eq_false, not_false_eq_true,
         Bool.false_eq_true, brentRoot_c09])

/-- the same as an equation between arrays -/
theorem gen_gammastd_eq_model_arr (F : GamFns α) (digamma : α → α) (xtol rtol : α) (x : List α) (nodata : α)
    (cs ce : ℕ) :
    Gen.NumKernels.gammastd F digamma xtol rtol x.toArray nodata (cs : ℤ) (ce : ℤ) (nat 0) (nat 0)
      = ((Hdc.gammastd (brentRoot F digamma xtol rtol) x nodata cs ce).map (fun o => o.getD nodata)).toArray := by
  apply Array.toList_inj.1
  rw [gen_gammastd_eq_model]

/-- non-vacuity (toy special functions `Gq`, `dgq` of GenNumGammafit: `gammainc a v = v`, `ndtri = id`): four valid
    cells, one of them zero (p0 = 1/4), a negative and a nodata cell; fit on the whole series: α = −1/8, β = −16 -/
example : (Gen.NumKernels.gammastd Gq dgq (1 / 1000) (1 / 1000) [1, 2, -1, 3, -9999, 0].toArray (-9999)
      ((0 : ℕ) : ℤ) ((6 : ℕ) : ℤ) (nat 0) (nat 0)).toList = [13 / 64, 5 / 32, -9999, 7 / 64, -9999, 1 / 4] := by
  rw [gen_gammastd_eq_model]; decide +kernel
/-- the window `[1:3)` holds the cells 2, −1: a single positive cell, `s == 0`, not fittable -/
example : (Gen.NumKernels.gammastd Gq dgq (1 / 1000) (1 / 1000) [1, 2, -1, 3, -9999, 0].toArray (-9999)
      ((1 : ℕ) : ℤ) ((3 : ℕ) : ℤ) (nat 0) (nat 0)).toList = [-9999, -9999, -9999, -9999, -9999, -9999] := by
  rw [gen_gammastd_eq_model]; decide +kernel
/-- more than 90 % zeros among the valid cells -/
example : (Gen.NumKernels.gammastd Gq dgq (1 / 1000) (1 / 1000) (List.replicate 10 (0 : ℚ) ++ [1]).toArray (-9999)
      ((0 : ℕ) : ℤ) ((11 : ℕ) : ℤ) (nat 0) (nat 0)).toList = List.replicate 11 (-9999) := by
  rw [gen_gammastd_eq_model]; decide +kernel
/-- no valid cell -/
example : (Gen.NumKernels.gammastd Gq dgq (1 / 1000) (1 / 1000) [-9999, -3].toArray (-9999)
      ((0 : ℕ) : ℤ) ((2 : ℕ) : ℤ) (nat 0) (nat 0)).toList = [-9999, -9999] := by
  rw [gen_gammastd_eq_model]; decide +kernel

end gammastd
end Hdc.GenNum
