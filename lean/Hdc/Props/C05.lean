import Hdc.Lemmas.SmoothGcvAffine
import Hdc.Props.C02
import Hdc.Props.C03
import Mathlib.Tactic.NormNum
import Mathlib.Tactic.IntervalCases
/-
C05  GCV selection.

Formal statements proved in this file (α any linearly ordered field, `G : GFns α` arbitrary):

  gcvSweep_spec     r := gcvSweep G y wt de lams b0 satisfies r.score ≤ b0.score, no score on `lams` is < r.score,
                    and either r = b0 (no score is < b0.score) or r = ⟨score s, s, curve s⟩ for the FIRST s = lams[k]
                    attaining the minimum, which is < b0.score
  gcvSelect_nonrobust   robust = false: λ is the λ of one sweep from ⟨big, 0, none⟩, the weights are the validity weights
  wcv_nonrobust_eq / wcvp_nonrobust_eq    closed form of the kernels for robust = false (never `.unbound`)
  wcv_lopt_on_grid_nonrobust   wcv … false = .ok z lopt → (lopt ∈ grid ∧ score lopt < big ∧ lopt minimises the score on the
                    grid) ∨ (lopt = 0 ∧ no grid score is < big)
  wcv_lopt_on_grid_robust      wcv … true = .ok z lopt → lopt ∈ llas.map G.pow10
  wcv_lopt_on_grid  robust or not: lopt ∈ llas.map G.pow10 ∨ lopt = 0           (same for wcvp)
  wcv_self_consistent    wcv G miss y llas false = .ok z lopt → lopt ≠ 0 → gu miss y lopt = some z
  wcvp_self_consistent   wcvp G miss y p llas false = .ok z lopt → lopt ≠ 0 → pgu miss y lopt p = some z
  robustStep_range   entries of rw in [0,1] → entries of robustStep … rw w … in [0,1]
  robustStep_mad_small   MAD ≤ madtol·(1 + max − min of the valid cells) → robustStep … rw w … = rw
  robustStep_mad_nonpos / robustStep_mad_zero   corollaries for 0 ≤ madtol (the spread is ≥ 0: spread_nonneg)
  robustStep_two_pos     TwoPos (w·rw) → TwoPos (w·robustStep … rw w …)     (the guard of the repaired kernel)
  wcv_robust_is_weighted_curve   wcv G miss y llas true = .ok z lopt → ∃ rw, (∀ x ∈ rw, 0 ≤ x ∧ x ≤ 1) ∧
                    z = ws2d (cleanOf miss y) lopt (mul2 (weightsOf miss y) rw)
                    (+ the weights mul2 w rw are in [0, w_i], zero on missing cells)     (wcvp: expectile … lopt p)
  gcvSelect_weights_two_pos      TwoPos w → gcvSelect … = some (lopt, rwts) → TwoPos rwts          (robust or not)
  gcvSelect_robust_inContract    … hence InContract y rwts lopt for robust = true and a positive grid
  wcv_robust_inContract   wcv … true = .ok z lopt, 0 < pow10 on the grid → the final weights are InContract at lopt
  wcv_robust_normal_eq    … and z has full length, solves the weighted normal equations, is their only solution and the
                    unique minimiser of the weighted PLS, at a grid λ: robust mode never degenerates
  wcvp_robust_inContract / wcvp_robust_normal_eq   the same for ws2dwcvp with the asymmetric final stage (0<p<1):
                    the curve is ws2d yc lopt (asymW p (w·rw) yc zprev), weights again InContract
  wcv_affine_robust  valid cells on a + b·i, 0 < pow10 on the grid, 0 ≤ madtol, wcv … true = .ok z lopt →
                    z = lineList a b n and the final weights are the validity weights (MAD = 0 throughout)
                    (C06.wcv_affine_robust drops `0 ≤ madtol` for the curve alone)
  wcv_affine_robust_ok   additionally 4 < countValid, 0 < G.big, G.sqrtw 0 = 0, grid l0 :: ls →
                    wcv … true = .ok (lineList a b n) (G.pow10 l0)
-/
namespace Hdc.C05
open Hdc Hdc.C01 Hdc.Smooth

set_option linter.unusedSectionVars false

variable {α : Type} [Field α] [LinearOrder α] [IsStrictOrderedRing α]

/-! ### 1. the sweep keeps the first strict minimum -/

theorem gcvSweep_spec (G : GFns α) (y wt de lams : List α) (b0 : Best α) :
    (gcvSweep G y wt de lams b0).score ≤ b0.score ∧
    (∀ s ∈ lams, ¬ (gcvScore G y wt de s).1 < (gcvSweep G y wt de lams b0).score) ∧
    ((gcvSweep G y wt de lams b0 = b0 ∧ ∀ s ∈ lams, ¬ (gcvScore G y wt de s).1 < b0.score) ∨
      ∃ k, ∃ hk : k < lams.length,
        gcvSweep G y wt de lams b0 =
          ⟨(gcvScore G y wt de lams[k]).1, lams[k], some (ws2d y lams[k] wt)⟩ ∧
        (gcvScore G y wt de lams[k]).1 < b0.score ∧
        ∀ j (hj : j < k), (gcvScore G y wt de lams[k]).1 < (gcvScore G y wt de (lams[j]'(by omega))).1) :=
  sweepInv_gcvSweep G y wt de lams b0

/-- the λ the sweep reports is the initial one or a swept one -/
theorem gcvSweep_lam (G : GFns α) (y wt de lams : List α) (b0 : Best α) :
    (gcvSweep G y wt de lams b0 = b0) ∨
      ((gcvSweep G y wt de lams b0).lam ∈ lams ∧
        (gcvSweep G y wt de lams b0).ytemp =
          some (ws2d y (gcvSweep G y wt de lams b0).lam wt)) :=
  Smooth.gcvSweep_lam G y wt de lams b0

/-! ### 2. λ selection: structure -/

theorem mul2_ones (w y : List α) (h : w.length = y.length) :
    mul2 w (y.map fun _ => (nat 1 : α)) = w := by
  apply list_eq_of_fn _ _ (by simp [h])
  intro i hi
  have hi' : i < w.length := by simpa [h] using hi
  rw [fn_mul2, fn_map_of_lt _ _ _ (by omega)]; simp

theorem gcvSelect_nonrobust (G : GFns α) (y w llas : List α) (hw : w.length = y.length) :
    gcvSelect G y w llas false =
      some ((gcvSweep G y w (deigs G y.length) (llas.map G.pow10) ⟨G.big, nat 0, none⟩).lam, w) := by
  rw [gcvSelect_unfold]
  simp only [grun, gstep, iterLams, Bool.false_eq_true, if_false, Option.bind_some, Option.map_some,
    mul2_ones w y hw, List.nil_append, List.getD_cons_zero]
  simp

theorem wcv_nonrobust_eq (G : GFns α) (miss : α → Bool) (y llas : List α) :
    wcv G miss y llas false =
      if 4 < countValid miss y then
        .ok (ws2d (cleanOf miss y)
            (gcvSweep G (cleanOf miss y) (weightsOf miss y) (deigs G y.length) (llas.map G.pow10)
              ⟨G.big, nat 0, none⟩).lam (weightsOf miss y))
          (gcvSweep G (cleanOf miss y) (weightsOf miss y) (deigs G y.length) (llas.map G.pow10)
              ⟨G.big, nat 0, none⟩).lam
      else .passthrough := by
  rw [wcv_unfold, gcvSelect_nonrobust G _ _ llas (by simp)]
  simp

theorem wcvp_nonrobust_eq (G : GFns α) (miss : α → Bool) (y : List α) (p : α) (llas : List α) :
    wcvp G miss y p llas false =
      if 4 < countValid miss y then
        .ok (expectile (cleanOf miss y) (weightsOf miss y)
            (gcvSweep G (cleanOf miss y) (weightsOf miss y) (deigs G y.length) (llas.map G.pow10)
              ⟨G.big, nat 0, none⟩).lam p)
          (gcvSweep G (cleanOf miss y) (weightsOf miss y) (deigs G y.length) (llas.map G.pow10)
              ⟨G.big, nat 0, none⟩).lam
      else .passthrough := by
  rw [wcvp_unfold, gcvSelect_nonrobust G _ _ llas (by simp)]
  simp

/-- robust = false: what `.ok z lopt` means -/
theorem wcv_nonrobust_ok (G : GFns α) (miss : α → Bool) (y llas : List α) (z : List α) (lopt : α)
    (h : wcv G miss y llas false = .ok z lopt) :
    4 < countValid miss y ∧
    lopt = (gcvSweep G (cleanOf miss y) (weightsOf miss y) (deigs G y.length) (llas.map G.pow10)
              ⟨G.big, nat 0, none⟩).lam ∧
    z = ws2d (cleanOf miss y) lopt (weightsOf miss y) := by
  rw [wcv_nonrobust_eq] at h
  by_cases hc : 4 < countValid miss y
  · rw [if_pos hc] at h
    injection h with h1 h2
    subst h2
    exact ⟨hc, rfl, h1.symm⟩
  · rw [if_neg hc] at h; cases h

theorem wcvp_nonrobust_ok (G : GFns α) (miss : α → Bool) (y : List α) (p : α) (llas : List α)
    (z : List α) (lopt : α) (h : wcvp G miss y p llas false = .ok z lopt) :
    4 < countValid miss y ∧
    lopt = (gcvSweep G (cleanOf miss y) (weightsOf miss y) (deigs G y.length) (llas.map G.pow10)
              ⟨G.big, nat 0, none⟩).lam ∧
    z = expectile (cleanOf miss y) (weightsOf miss y) lopt p := by
  rw [wcvp_nonrobust_eq] at h
  by_cases hc : 4 < countValid miss y
  · rw [if_pos hc] at h
    injection h with h1 h2
    subst h2
    exact ⟨hc, rfl, h1.symm⟩
  · rw [if_neg hc] at h; cases h

/-- robust = false: the reported λ minimises the GCV score over the grid and beats `big`,
    or no grid score beats `big` and the reported λ is 0 -/
theorem wcv_lopt_on_grid_nonrobust (G : GFns α) (miss : α → Bool) (y llas : List α) (z : List α)
    (lopt : α) (h : wcv G miss y llas false = .ok z lopt) :
    (lopt ∈ llas.map G.pow10 ∧
      (gcvScore G (cleanOf miss y) (weightsOf miss y) (deigs G y.length) lopt).1 < G.big ∧
      ∀ s ∈ llas.map G.pow10,
        ¬ (gcvScore G (cleanOf miss y) (weightsOf miss y) (deigs G y.length) s).1 <
          (gcvScore G (cleanOf miss y) (weightsOf miss y) (deigs G y.length) lopt).1) ∨
    (lopt = 0 ∧ ∀ s ∈ llas.map G.pow10,
        ¬ (gcvScore G (cleanOf miss y) (weightsOf miss y) (deigs G y.length) s).1 < G.big) := by
  obtain ⟨_, hl, _⟩ := wcv_nonrobust_ok G miss y llas z lopt h
  obtain ⟨_, h2, h3 | ⟨k, hk, hr, hb, _⟩⟩ := gcvSweep_spec G (cleanOf miss y) (weightsOf miss y)
    (deigs G y.length) (llas.map G.pow10) ⟨G.big, nat 0, none⟩
  · right
    rw [hl, h3.1]
    exact ⟨nat_zero, h3.2⟩
  · left
    rw [hr] at h2
    rw [hl, hr]
    exact ⟨List.getElem_mem hk, hb, h2⟩

theorem wcv_ok (G : GFns α) (miss : α → Bool) (y llas : List α) (robust : Bool) (z : List α)
    (lopt : α) (h : wcv G miss y llas robust = .ok z lopt) :
    4 < countValid miss y ∧ ∃ rwts,
      gcvSelect G (cleanOf miss y) (weightsOf miss y) llas robust = some (lopt, rwts) ∧
      z = ws2d (cleanOf miss y) lopt rwts := by
  rw [wcv_unfold] at h
  by_cases hc : 4 < countValid miss y
  · rw [if_pos hc] at h
    obtain ⟨r, h1, h2⟩ := outOf_eq_ok _ _ _ _ h
    exact ⟨hc, r, h1, h2⟩
  · rw [if_neg hc] at h; cases h

theorem wcvp_ok (G : GFns α) (miss : α → Bool) (y : List α) (p : α) (llas : List α) (robust : Bool)
    (z : List α) (lopt : α) (h : wcvp G miss y p llas robust = .ok z lopt) :
    4 < countValid miss y ∧ ∃ rwts,
      gcvSelect G (cleanOf miss y) (weightsOf miss y) llas robust = some (lopt, rwts) ∧
      z = expectile (cleanOf miss y) rwts lopt p := by
  rw [wcvp_unfold] at h
  by_cases hc : 4 < countValid miss y
  · rw [if_pos hc] at h
    obtain ⟨r, h1, h2⟩ := outOf_eq_ok _ _ _ _ h
    exact ⟨hc, r, h1, h2⟩
  · rw [if_neg hc] at h; cases h

/-! ### robust = true: the four iterations -/

theorem gcvSelect_robust_some (G : GFns α) (y w llas : List α) (lopt : α) (rwts : List α)
    (h : gcvSelect G y w llas true = some (lopt, rwts)) :
    ∃ st4, grun G y w (deigs G y.length) (llas.map G.pow10) true (sumF w) 4 0
        (⟨G.big, nat 0, none⟩, y.map (fun _ => nat 1), []) = some st4 ∧
      lopt = (st4.2.2.getD 1 ⟨nat 0, nat 0, none⟩).lam ∧ rwts = mul2 w st4.2.1 := by
  rw [gcvSelect_unfold, Option.map_eq_some_iff] at h
  obtain ⟨st4, hg, he⟩ := h
  simp only [if_true, Prod.mk.injEq] at he
  exact ⟨st4, hg, he.1.symm, he.2.symm⟩

/-- robust = true: the reported λ is always a grid value (otherwise the kernel is `.unbound`) -/
theorem gcvSelect_robust_lopt (G : GFns α) (y w llas : List α) (lopt : α) (rwts : List α)
    (h : gcvSelect G y w llas true = some (lopt, rwts)) : lopt ∈ llas.map G.pow10 := by
  obtain ⟨st4, hg, hl, _⟩ := gcvSelect_robust_some G y w llas lopt rwts h
  obtain ⟨st1, st2, st3, h1, h2, h3, h4⟩ := grun_robust_four _ _ _ _ _ _ _ _ hg
  obtain ⟨a1, b1, yt1, c1, _⟩ := gstep_robust_some _ _ _ _ _ _ _ _ _ h1
  obtain ⟨a2, b2, _, _, _⟩ := gstep_robust_some _ _ _ _ _ _ _ _ _ h2
  obtain ⟨_, b3, _, _, _⟩ := gstep_robust_some _ _ _ _ _ _ _ _ _ h3
  obtain ⟨_, b4, _, _, _⟩ := gstep_robust_some _ _ _ _ _ _ _ _ _ h4
  have hh : st4.2.2 = [st1.1, st2.1, st3.1, st4.1] := by
    rw [b4, b3, b2, b1]; rfl
  have hl2 : lopt = st2.1.lam := by rw [hl, hh]; rfl
  -- iteration 0 recorded a curve, hence moved away from the initial best
  have hlam1 : st1.1.lam ∈ llas.map G.pow10 := by
    simp only [iterLams, if_false, Nat.not_lt_zero] at a1
    rcases gcvSweep_lam G y (mul2 w (y.map fun _ => nat 1)) (deigs G y.length) (llas.map G.pow10)
      ⟨G.big, nat 0, none⟩ with e | ⟨e, _⟩
    · rw [a1, e] at c1; simp at c1
    · rw [a1]; exact e
  simp only [iterLams, show ¬ (1 < 1) by omega, if_false] at a2
  rcases gcvSweep_lam G y (mul2 w st1.2.1) (deigs G y.length) (llas.map G.pow10) st1.1 with e | ⟨e, _⟩
  · rw [hl2, a2, e]; exact hlam1
  · rw [hl2, a2]; exact e

theorem wcv_lopt_on_grid_robust (G : GFns α) (miss : α → Bool) (y llas : List α) (z : List α)
    (lopt : α) (h : wcv G miss y llas true = .ok z lopt) : lopt ∈ llas.map G.pow10 := by
  obtain ⟨_, rwts, hs, _⟩ := wcv_ok G miss y llas true z lopt h
  exact gcvSelect_robust_lopt G _ _ llas lopt rwts hs

theorem wcvp_lopt_on_grid_robust (G : GFns α) (miss : α → Bool) (y : List α) (p : α) (llas : List α)
    (z : List α) (lopt : α) (h : wcvp G miss y p llas true = .ok z lopt) :
    lopt ∈ llas.map G.pow10 := by
  obtain ⟨_, rwts, hs, _⟩ := wcvp_ok G miss y p llas true z lopt h
  exact gcvSelect_robust_lopt G _ _ llas lopt rwts hs

/-- robust or not: the reported λ is a grid value, or 0 (only for robust = false, and only
    when no grid score is below `big`, see `wcv_lopt_on_grid_nonrobust`) -/
theorem wcv_lopt_on_grid (G : GFns α) (miss : α → Bool) (y llas : List α) (robust : Bool)
    (z : List α) (lopt : α) (h : wcv G miss y llas robust = .ok z lopt) :
    lopt ∈ llas.map G.pow10 ∨ lopt = 0 := by
  cases robust with
  | true => exact Or.inl (wcv_lopt_on_grid_robust G miss y llas z lopt h)
  | false =>
    rcases wcv_lopt_on_grid_nonrobust G miss y llas z lopt h with h1 | h1
    · exact Or.inl h1.1
    · exact Or.inr h1.1

theorem wcvp_lopt_on_grid (G : GFns α) (miss : α → Bool) (y : List α) (p : α) (llas : List α)
    (robust : Bool) (z : List α) (lopt : α) (h : wcvp G miss y p llas robust = .ok z lopt) :
    lopt ∈ llas.map G.pow10 ∨ lopt = 0 := by
  cases robust with
  | true => exact Or.inl (wcvp_lopt_on_grid_robust G miss y p llas z lopt h)
  | false =>
    obtain ⟨_, hl, _⟩ := wcvp_nonrobust_ok G miss y p llas z lopt h
    rcases gcvSweep_lam G (cleanOf miss y) (weightsOf miss y) (deigs G y.length) (llas.map G.pow10)
      ⟨G.big, nat 0, none⟩ with e | ⟨e, _⟩
    · right; rw [hl, e]; exact nat_zero
    · left; rw [hl]; exact e

/-! ### 3. self-consistency (robust = false) -/

theorem wcv_self_consistent (G : GFns α) (miss : α → Bool) (y llas : List α) (z : List α) (lopt : α)
    (h : wcv G miss y llas false = .ok z lopt) (h0 : lopt ≠ 0) : gu miss y lopt = some z := by
  obtain ⟨hc, _, rfl⟩ := wcv_nonrobust_ok G miss y llas z lopt h
  exact C02.gu_eq_some miss y lopt h0 (by omega)

theorem wcvp_self_consistent (G : GFns α) (miss : α → Bool) (y : List α) (p : α) (llas : List α)
    (z : List α) (lopt : α) (h : wcvp G miss y p llas false = .ok z lopt) (h0 : lopt ≠ 0) :
    pgu miss y lopt p = some z := by
  obtain ⟨hc, _, rfl⟩ := wcvp_nonrobust_ok G miss y p llas z lopt h
  exact C02.pgu_eq_some miss y lopt p h0 (by omega)

/-! ### 4. the robust re-weighting step -/

theorem robustStep_range (G : GFns α) (y ytemp wt de rw w : List α) (s n : α)
    (h : ∀ x ∈ rw, 0 ≤ x ∧ x ≤ 1) :
    ∀ x ∈ robustStep G y ytemp wt de rw w s n, 0 ≤ x ∧ x ≤ 1 :=
  Smooth.robustStep_range G y ytemp wt de rw w s n h

/-- a MAD at rounding-noise level relative to the spread of the valid data keeps the weights
    (the source tests `mad > madtol * (1 + max − min)`) -/
theorem robustStep_mad_small (G : GFns α) (y ytemp wt de rw w : List α) (s n : α)
    (h : madOf y ytemp wt ≤ G.madtol * (1 + (maxL (yvOf y w) - minL (yvOf y w)))) :
    robustStep G y ytemp wt de rw w s n = rw := by
  rw [robustStep_eq, if_neg (not_lt.2 (by unfold madMinOf; exact h))]

/-- the spread of the valid data is non-negative -/
theorem spread_nonneg (l : List α) : 0 ≤ maxL l - minL l := by
  have := minL_le_maxL l; linarith

theorem robustStep_mad_nonpos (G : GFns α) (y ytemp wt de rw w : List α) (s n : α)
    (hmt : 0 ≤ G.madtol) (h : ¬ 0 < madOf y ytemp wt) : robustStep G y ytemp wt de rw w s n = rw := by
  apply robustStep_mad_small
  have h1 := spread_nonneg (yvOf y w)
  have h2 : 0 ≤ G.madtol * (1 + (maxL (yvOf y w) - minL (yvOf y w))) := mul_nonneg hmt (by linarith)
  linarith [not_lt.1 h]

theorem robustStep_mad_zero (G : GFns α) (y ytemp wt de rw w : List α) (s n : α)
    (hmt : 0 ≤ G.madtol) (h : madOf y ytemp wt = 0) : robustStep G y ytemp wt de rw w s n = rw :=
  robustStep_mad_nonpos G y ytemp wt de rw w s n hmt (by rw [h]; exact lt_irrefl _)

/-- the guard of the repaired kernel: if two cells have positive weight before the step,
    two cells have positive weight after it -/
theorem robustStep_two_pos (G : GFns α) (y ytemp wt de rw w : List α) (s n : α)
    (h : TwoPos (mul2 w rw)) : TwoPos (mul2 w (robustStep G y ytemp wt de rw w s n)) :=
  Smooth.robustStep_two_pos G y ytemp wt de rw w s n h

/-! ### 5. robust = true: the band is a weighted Whittaker curve at the reported λ -/

theorem gstep_rw_range (G : GFns α) (y w de llasPow : List α) (robust : Bool) (n : α) (it : ℕ)
    (st st' : GState α) (h : gstep G y w de llasPow robust n it st = some st')
    (hr : ∀ x ∈ st.2.1, 0 ≤ x ∧ x ≤ 1) : ∀ x ∈ st'.2.1, 0 ≤ x ∧ x ≤ 1 := by
  cases robust with
  | true =>
    obtain ⟨_, _, yt, _, e⟩ := gstep_robust_some _ _ _ _ _ _ _ _ _ h
    rw [e]
    exact robustStep_range G y yt _ de _ w _ n hr
  | false =>
    unfold gstep at h
    simp only [Bool.false_eq_true, if_false, Option.some.injEq] at h
    subst h
    exact hr

theorem grun_rw_range (G : GFns α) (y w de llasPow : List α) (robust : Bool) (n : α) (k it : ℕ)
    (st st' : GState α) (h : grun G y w de llasPow robust n k it st = some st')
    (hr : ∀ x ∈ st.2.1, 0 ≤ x ∧ x ≤ 1) : ∀ x ∈ st'.2.1, 0 ≤ x ∧ x ≤ 1 := by
  induction k generalizing it st with
  | zero =>
    simp only [grun, Option.some.injEq] at h
    subst h; exact hr
  | succ k ih =>
    simp only [grun, Option.bind_eq_some_iff] at h
    obtain ⟨st1, h1, h2⟩ := h
    exact ih _ _ h2 (gstep_rw_range _ _ _ _ _ _ _ _ _ _ h1 hr)

theorem gcvSelect_weights (G : GFns α) (y w llas : List α) (robust : Bool) (lopt : α) (rwts : List α)
    (h : gcvSelect G y w llas robust = some (lopt, rwts)) :
    ∃ rw, (∀ x ∈ rw, 0 ≤ x ∧ x ≤ 1) ∧ rwts = mul2 w rw := by
  rw [gcvSelect_unfold, Option.map_eq_some_iff] at h
  obtain ⟨st, hg, he⟩ := h
  simp only [Prod.mk.injEq] at he
  refine ⟨st.2.1, ?_, he.2.symm⟩
  apply grun_rw_range _ _ _ _ _ _ _ _ _ _ _ hg
  intro x hx
  simp only [List.mem_map] at hx
  obtain ⟨_, _, rfl⟩ := hx
  simp

/-- the band of the robust kernel is a Whittaker curve at the reported λ whose weights are
    the validity weights damped by factors in [0,1] -/
theorem wcv_robust_is_weighted_curve (G : GFns α) (miss : α → Bool) (y llas : List α) (z : List α)
    (lopt : α) (h : wcv G miss y llas true = .ok z lopt) :
    ∃ rw, (∀ x ∈ rw, 0 ≤ x ∧ x ≤ 1) ∧
      z = ws2d (cleanOf miss y) lopt (mul2 (weightsOf miss y) rw) := by
  obtain ⟨_, rwts, hs, hz⟩ := wcv_ok G miss y llas true z lopt h
  obtain ⟨rw, hr, rfl⟩ := gcvSelect_weights G _ _ llas true lopt rwts hs
  exact ⟨rw, hr, hz⟩

theorem wcvp_robust_is_weighted_curve (G : GFns α) (miss : α → Bool) (y : List α) (p : α)
    (llas : List α) (z : List α) (lopt : α) (h : wcvp G miss y p llas true = .ok z lopt) :
    ∃ rw, (∀ x ∈ rw, 0 ≤ x ∧ x ≤ 1) ∧
      z = expectile (cleanOf miss y) (mul2 (weightsOf miss y) rw) lopt p := by
  obtain ⟨_, rwts, hs, hz⟩ := wcvp_ok G miss y p llas true z lopt h
  obtain ⟨rw, hr, rfl⟩ := gcvSelect_weights G _ _ llas true lopt rwts hs
  exact ⟨rw, hr, hz⟩

/-- the weights in force are between 0 and the validity weights, in particular they vanish
    on missing cells -/
theorem mul2_weights_range (miss : α → Bool) (y rw : List α) (hr : ∀ x ∈ rw, 0 ≤ x ∧ x ≤ 1) (i : ℕ) :
    0 ≤ fn (mul2 (weightsOf miss y) rw) i ∧
      fn (mul2 (weightsOf miss y) rw) i ≤ fn (weightsOf miss y) i ∧
      (∀ hi : i < y.length, miss y[i] = true → fn (mul2 (weightsOf miss y) rw) i = 0) := by
  rw [fn_mul2]
  have hw0 : 0 ≤ fn (weightsOf miss y) i := by
    by_cases hi : i < (weightsOf miss y).length
    · rw [fn_of_lt _ i hi]; exact weightsOf_nonneg miss y _ (List.getElem_mem hi)
    · rw [fn_of_le _ i (by omega)]
  have hr' : 0 ≤ fn rw i ∧ fn rw i ≤ 1 := by
    by_cases hi : i < rw.length
    · rw [fn_of_lt _ i hi]; exact hr _ (List.getElem_mem hi)
    · rw [fn_of_le _ i (by omega)]; exact ⟨le_refl _, zero_le_one⟩
  refine ⟨mul_nonneg hw0 hr'.1, mul_le_of_le_one_right hw0 hr'.2, ?_⟩
  intro hi hm
  rw [fn_weightsOf miss y i hi, hm]; simp

/-! ### 5b. robust mode never degenerates

The repaired re-weighting step keeps the previous weights whenever fewer than two cells would
keep a positive weight.  Hence "at least two cells of `w · rw` are positive" is an invariant
of the loop; it holds initially (`rw` = ones, at least 5 valid cells), so the weights in
force at the final fit are inside the contract of C01 and the band is the unique minimiser
of the correspondingly weighted penalised least-squares functional at a grid λ. -/

theorem twoPos_weightsOf (miss : α → Bool) (y : List α) (hv : 2 ≤ countValid miss y) :
    TwoPos (weightsOf miss y) := by
  obtain ⟨i, k, hik, hk, h1, h2⟩ := exists_two_valid miss y hv
  refine ⟨i, k, hik, by simpa using hk, ?_, ?_⟩
  · rw [fn_weightsOf miss y i (by omega), h1]; simp
  · rw [fn_weightsOf miss y k hk, h2]; simp

/-- the invariant lifted through the loop: the final weights have two positive entries -/
theorem gcvSelect_weights_two_pos (G : GFns α) (y w llas : List α) (robust : Bool) (lopt : α)
    (rwts : List α) (hwl : w.length = y.length) (h2 : TwoPos w)
    (h : gcvSelect G y w llas robust = some (lopt, rwts)) : TwoPos rwts := by
  cases robust with
  | false =>
    rw [gcvSelect_nonrobust G y w llas hwl] at h
    simp only [Option.some.injEq, Prod.mk.injEq] at h
    rw [← h.2]; exact h2
  | true =>
    obtain ⟨st4, hg, _, hrw⟩ := gcvSelect_robust_some G y w llas lopt rwts h
    rw [hrw]
    apply grun_twoPos G (deigs G y.length) (llas.map G.pow10) (sumF w) 4 0 _ st4 _ hg
    show TwoPos (mul2 w (y.map fun _ => (nat 1 : α)))
    rw [mul2_ones' w y hwl]; exact h2

/-- robust λ selection: the final weights are inside the contract of C01 at the reported λ -/
theorem gcvSelect_robust_inContract (G : GFns α) (y w llas : List α) (lopt : α) (rwts : List α)
    (hn : 4 ≤ y.length) (hwl : w.length = y.length) (hw : ∀ x ∈ w, 0 ≤ x) (h2 : TwoPos w)
    (hpow : ∀ l ∈ llas, 0 < G.pow10 l)
    (h : gcvSelect G y w llas true = some (lopt, rwts)) : InContract y rwts lopt := by
  have htp := gcvSelect_weights_two_pos G y w llas true lopt rwts hwl h2 h
  obtain ⟨st4, hg, _, hrw⟩ := gcvSelect_robust_some G y w llas lopt rwts h
  have hI := grun_rinv G (deigs G y.length) (llas.map G.pow10) (sumF w) hwl 4 0 _ st4
    (rinv_gstate0 G _ y) hg
  have hlpos : 0 < lopt := by
    have := gcvSelect_robust_lopt G y w llas lopt rwts h
    rw [List.mem_map] at this
    obtain ⟨x, hx, rfl⟩ := this
    exact hpow x hx
  rw [hrw] at htp ⊢
  exact inContract_mul2 y w st4.2.1 lopt hn hwl hw hI.1 hI.2.1 hlpos htp

/-- ws2dwcv, robust = true: whenever the kernel returns a curve, the weights of the final
    fit are inside the contract (no hypothesis beyond a positive grid) -/
theorem wcv_robust_inContract (G : GFns α) (miss : α → Bool) (y llas : List α) (z : List α) (lopt : α)
    (hpow : ∀ l ∈ llas, 0 < G.pow10 l) (h : wcv G miss y llas true = .ok z lopt) :
    ∃ rw, (∀ x ∈ rw, 0 ≤ x ∧ x ≤ 1) ∧
      gcvSelect G (cleanOf miss y) (weightsOf miss y) llas true =
        some (lopt, mul2 (weightsOf miss y) rw) ∧
      z = ws2d (cleanOf miss y) lopt (mul2 (weightsOf miss y) rw) ∧
      InContract (cleanOf miss y) (mul2 (weightsOf miss y) rw) lopt := by
  obtain ⟨hc, rwts, hs, hz⟩ := wcv_ok G miss y llas true z lopt h
  obtain ⟨rw, hr, rfl⟩ := gcvSelect_weights G _ _ llas true lopt rwts hs
  have hn : 4 ≤ (cleanOf miss y).length := by
    have := countValid_le_length miss y; simp; omega
  exact ⟨rw, hr, hs, hz, gcvSelect_robust_inContract G _ _ llas lopt _ hn (by simp)
    (weightsOf_nonneg miss y) (twoPos_weightsOf miss y (by omega)) hpow hs⟩

/-- … hence the robust band's curve is a finite Whittaker curve at a grid λ: it has full
    length, solves the weighted normal equations, is their only solution, and is the unique
    minimiser of the weighted penalised least-squares functional -/
theorem wcv_robust_normal_eq (G : GFns α) (miss : α → Bool) (y llas : List α) (z : List α) (lopt : α)
    (hpow : ∀ l ∈ llas, 0 < G.pow10 l) (h : wcv G miss y llas true = .ok z lopt) :
    ∃ rw, (∀ x ∈ rw, 0 ≤ x ∧ x ≤ 1) ∧ lopt ∈ llas.map G.pow10 ∧ z.length = y.length ∧
      NormalEq y.length (fn (cleanOf miss y)) (fn (mul2 (weightsOf miss y) rw)) lopt (fn z) ∧
      (∀ z' : ℕ → α,
        NormalEq y.length (fn (cleanOf miss y)) (fn (mul2 (weightsOf miss y) rw)) lopt z' →
          ∀ i < y.length, z' i = fn z i) ∧
      (∀ z' : ℕ → α,
        PLS y.length (fn (cleanOf miss y)) (fn (mul2 (weightsOf miss y) rw)) lopt (fn z) ≤
          PLS y.length (fn (cleanOf miss y)) (fn (mul2 (weightsOf miss y) rw)) lopt z') ∧
      (∀ z' : ℕ → α,
        PLS y.length (fn (cleanOf miss y)) (fn (mul2 (weightsOf miss y) rw)) lopt z' ≤
          PLS y.length (fn (cleanOf miss y)) (fn (mul2 (weightsOf miss y) rw)) lopt (fn z) →
          ∀ i < y.length, z' i = fn z i) := by
  obtain ⟨rw, hr, _, hz, hC⟩ := wcv_robust_inContract G miss y llas z lopt hpow h
  have hl : (cleanOf miss y).length = y.length := by simp
  refine ⟨rw, hr, wcv_lopt_on_grid_robust G miss y llas z lopt h, ?_, ?_, ?_, ?_, ?_⟩
  · rw [hz, ws2d_length _ _ _ hC.wlen, hl]
  · rw [hz, ← hl]; exact ws2d_normal_eq hC
  · intro z' hz'; rw [hz, ← hl] at *; exact ws2d_unique hC z' hz'
  · intro z'; rw [hz, ← hl]; exact ws2d_minimises hC z'
  · intro z' hz'; rw [hz, ← hl] at *; exact ws2d_minimiser_unique hC z' hz'

/-- ws2dwcvp, robust = true: the robust weights are inside the contract -/
theorem wcvp_robust_inContract (G : GFns α) (miss : α → Bool) (y : List α) (p : α) (llas : List α)
    (z : List α) (lopt : α) (hpow : ∀ l ∈ llas, 0 < G.pow10 l)
    (h : wcvp G miss y p llas true = .ok z lopt) :
    ∃ rw, (∀ x ∈ rw, 0 ≤ x ∧ x ≤ 1) ∧
      z = expectile (cleanOf miss y) (mul2 (weightsOf miss y) rw) lopt p ∧
      InContract (cleanOf miss y) (mul2 (weightsOf miss y) rw) lopt := by
  obtain ⟨hc, rwts, hs, hz⟩ := wcvp_ok G miss y p llas true z lopt h
  obtain ⟨rw, hr, rfl⟩ := gcvSelect_weights G _ _ llas true lopt rwts hs
  have hn : 4 ≤ (cleanOf miss y).length := by
    have := countValid_le_length miss y; simp; omega
  exact ⟨rw, hr, hz, gcvSelect_robust_inContract G _ _ llas lopt _ hn (by simp)
    (weightsOf_nonneg miss y) (twoPos_weightsOf miss y (by omega)) hpow hs⟩

/-- … and the asymmetric final stage on top of them (`0 < p < 1`): the band's curve is the
    Whittaker curve for the weights `asymW p (w · rw) yc zprev`, which are again inside the
    contract; it solves those normal equations and is their only solution -/
theorem wcvp_robust_normal_eq (G : GFns α) (miss : α → Bool) (y : List α) (p : α) (llas : List α)
    (z : List α) (lopt : α) (hpow : ∀ l ∈ llas, 0 < G.pow10 l) (hp0 : 0 < p) (hp1 : p < 1)
    (h : wcvp G miss y p llas true = .ok z lopt) :
    ∃ rw zprev, (∀ x ∈ rw, 0 ≤ x ∧ x ≤ 1) ∧ lopt ∈ llas.map G.pow10 ∧ z.length = y.length ∧
      zprev.length = y.length ∧
      InContract (cleanOf miss y)
        (asymW p (mul2 (weightsOf miss y) rw) (cleanOf miss y) zprev) lopt ∧
      z = ws2d (cleanOf miss y) lopt (asymW p (mul2 (weightsOf miss y) rw) (cleanOf miss y) zprev) ∧
      NormalEq y.length (fn (cleanOf miss y))
        (fn (asymW p (mul2 (weightsOf miss y) rw) (cleanOf miss y) zprev)) lopt (fn z) ∧
      (∀ z' : ℕ → α, NormalEq y.length (fn (cleanOf miss y))
        (fn (asymW p (mul2 (weightsOf miss y) rw) (cleanOf miss y) zprev)) lopt z' →
          ∀ i < y.length, z' i = fn z i) := by
  obtain ⟨rw, hr, hz, hC⟩ := wcvp_robust_inContract G miss y p llas z lopt hpow h
  have hl : (cleanOf miss y).length = y.length := by simp
  have hz0 : (zerosLike (cleanOf miss y)).length = (cleanOf miss y).length := by simp
  obtain ⟨j, _, _, h2, _⟩ := irls_spec (cleanOf miss y) (mul2 (weightsOf miss y) rw) lopt p hC.wlen 9
    (zerosLike (cleanOf miss y)) (zerosLike (cleanOf miss y)) hz0
  have hlen := iter_length (cleanOf miss y) (mul2 (weightsOf miss y) rw) lopt p _ hC.wlen hz0 j
  have hC' := C03.asymW_inContract hC p hp0 hp1 _ hlen
  have hze : z = ws2d (cleanOf miss y) lopt (asymW p (mul2 (weightsOf miss y) rw) (cleanOf miss y)
      (iter (cleanOf miss y) (mul2 (weightsOf miss y) rw) lopt p (zerosLike (cleanOf miss y)) j)) := by
    rw [hz]; unfold expectile; rw [h2]
  refine ⟨rw, _, hr, wcvp_lopt_on_grid_robust G miss y p llas z lopt h, ?_, by rw [hlen, hl], hC',
    hze, ?_, ?_⟩
  · rw [hze, ws2d_length _ _ _ hC'.wlen, hl]
  · rw [hze, ← hl]; exact ws2d_normal_eq hC'
  · intro z' hz'; rw [hze, ← hl] at *; exact ws2d_unique hC' z' hz'

/-! ### 6. constant / linear series under the robust loop

With every valid cell on a straight line all residuals on valid cells are 0, hence the MAD is
0 in every iteration, the robust weights stay 1, and the final curve is the Whittaker curve
with the validity weights, i.e. the line (C06core.ws2d_affine).  No assumption on `G` is needed
for this; for the kernel to actually return `.ok` (a score must beat `big`) we assume
`0 < G.big`, `G.sqrtw 0 = 0` and a non-empty grid: then every score is 0 and the FIRST grid
value is reported. -/

theorem perfect_of_line (miss : α → Bool) (y : List α) (a b : α)
    (hline : ∀ i (hi : i < y.length), miss y[i] = false → y[i] = a + b * (i : α)) :
    ∀ i, fn (weightsOf miss y) i ≠ 0 → fn (cleanOf miss y) i = fn (lineList a b y.length) i := by
  intro i hi
  obtain ⟨hl, hm⟩ := weightsOf_ne_zero miss y i hi
  rw [fn_cleanOf miss y i hl, hm, fn_lineList a b _ i hl]
  simpa using hline i hl hm

theorem fit_of_line (miss : α → Bool) (y : List α) (a b : α) (hc : 4 < countValid miss y)
    (hline : ∀ i (hi : i < y.length), miss y[i] = false → y[i] = a + b * (i : α)) (s : α) (hs : 0 < s) :
    ws2d (cleanOf miss y) s (weightsOf miss y) = lineList a b y.length := by
  have hn : 4 ≤ y.length := by have := countValid_le_length miss y; omega
  have := ws2d_eq_line (inContract_clean miss y s hn hs (by omega)) a b (by
    intro i hi
    rw [perfect_of_line miss y a b hline i hi, fn_lineList a b _ i (weightsOf_ne_zero miss y i hi).1])
  simpa using this

theorem wcv_affine_robust (G : GFns α) (miss : α → Bool) (y llas : List α) (a b : α) (z : List α)
    (lopt : α) (hpow : ∀ l ∈ llas, 0 < G.pow10 l) (hmt : 0 ≤ G.madtol)
    (hline : ∀ i (hi : i < y.length), miss y[i] = false → y[i] = a + b * (i : α))
    (h : wcv G miss y llas true = .ok z lopt) :
    z = lineList a b y.length ∧
      gcvSelect G (cleanOf miss y) (weightsOf miss y) llas true = some (lopt, weightsOf miss y) := by
  obtain ⟨hc, rwts, hs, hz⟩ := wcv_ok G miss y llas true z lopt h
  obtain ⟨st4, hg, _, hrw⟩ := gcvSelect_robust_some G _ _ llas lopt rwts hs
  have hpow' : ∀ s ∈ llas.map G.pow10, 0 < s := by
    intro s hs
    rw [List.mem_map] at hs
    obtain ⟨l, hl, rfl⟩ := hs
    exact hpow l hl
  have hfit : ∀ s ∈ llas.map G.pow10, ws2d (cleanOf miss y) s (weightsOf miss y) = lineList a b y.length :=
    fun s hs => fit_of_line miss y a b hc hline s (hpow' s hs)
  have hP := grun_perfInv G hmt (perfect_of_line miss y a b hline) (by simp)
    (deigs G (cleanOf miss y).length) (llas.map G.pow10) hfit (sumF (weightsOf miss y)) 4 0 _ st4
    (rinv_gstate0 G _ (cleanOf miss y)) (perfInv_gstate0 G _ _) hg
  have hw : rwts = weightsOf miss y := by
    rw [hrw, hP.1]; exact mul2_ones' _ _ (by simp)
  rw [hw] at hz hs
  exact ⟨by rw [hz]; exact hfit lopt (gcvSelect_robust_lopt G _ _ llas lopt _ hs), hs⟩

theorem wcv_affine_robust_ok (G : GFns α) (miss : α → Bool) (y : List α) (l0 : α) (ls : List α)
    (a b : α) (hc : 4 < countValid miss y) (hpow : ∀ l ∈ l0 :: ls, 0 < G.pow10 l)
    (hsq : G.sqrtw 0 = 0) (hbig : 0 < G.big) (hmt : 0 ≤ G.madtol)
    (hline : ∀ i (hi : i < y.length), miss y[i] = false → y[i] = a + b * (i : α)) :
    wcv G miss y (l0 :: ls) true = .ok (lineList a b y.length) (G.pow10 l0) := by
  have hfit : ∀ s ∈ G.pow10 l0 :: ls.map G.pow10,
      ws2d (cleanOf miss y) s (weightsOf miss y) = lineList a b y.length := by
    intro s hs
    apply fit_of_line miss y a b hc hline s
    have : s ∈ (l0 :: ls).map G.pow10 := by simpa using hs
    rw [List.mem_map] at this
    obtain ⟨l, hl, rfl⟩ := this
    exact hpow l hl
  have hrun := grun_perfect G hmt (perfect_of_line miss y a b hline) hsq (by simp)
    (deigs G (cleanOf miss y).length) (G.pow10 l0) (ls.map G.pow10) hfit
    (sumF (weightsOf miss y)) hbig
  rw [wcv_unfold, if_pos hc, gcvSelect_unfold]
  simp only [if_true, List.map_cons]
  have hrun' : grun G (cleanOf miss y) (weightsOf miss y) (deigs G (cleanOf miss y).length)
      (G.pow10 l0 :: ls.map G.pow10) true (sumF (weightsOf miss y)) 4 0
      (⟨G.big, nat 0, none⟩, (cleanOf miss y).map (fun _ => (nat 1 : α)), []) = _ := hrun
  rw [hrun']
  simp only [Option.map_some, outOf_some, List.getD_cons_succ, List.getD_cons_zero,
    mul2_ones' _ _ (weightsOf_length miss y |>.trans (cleanOf_length miss y).symm)]
  show GcvOut.ok (ws2d (cleanOf miss y) (G.pow10 l0) (weightsOf miss y)) (G.pow10 l0) = _
  rw [hfit _ (by simp)]

/-! ### non-vacuity -/

/-- a concrete `GFns ℚ` (the theorems hold for arbitrary ones) -/
def Gq : GFns ℚ := ⟨fun _ _ => -1, 1, fun x => x, fun x => x, fun x => x, 1000, 1, 1, 1 / 1000⟩

/-- hypothesis of `robustStep_range`: weights in [0,1] -/
example : ∀ x ∈ ([1, 0, 1 / 2] : List ℚ), 0 ≤ x ∧ x ≤ 1 := by
  intro x hx
  simp only [List.mem_cons, List.not_mem_nil, or_false] at hx
  rcases hx with rfl | rfl | rfl <;> norm_num

/-- `wcv … false = .ok z lopt` is satisfiable (five valid cells suffice) -/
example : ∃ z lopt, wcv Gq (fun x : ℚ => decide (x = -3000)) [1, 4, 2, 5, 3, 6] [0, 1] false = .ok z lopt := by
  rw [wcv_nonrobust_eq, if_pos (by norm_num [countValid, List.filter])]
  exact ⟨_, _, rfl⟩

/-- `wcv … true = .ok z lopt` is satisfiable: a series with a gap whose valid cells lie on
    1 + 2·i is returned as that line, with the first grid value reported -/
example : wcv Gq (fun x : ℚ => decide (x = -3000)) [1, 3, -3000, 7, 9, 11] [1, 2] true =
    .ok (lineList 1 2 6) 1 := by
  have := wcv_affine_robust_ok Gq (fun x : ℚ => decide (x = -3000)) [1, 3, -3000, 7, 9, 11] 1 [2] 1 2
    (by norm_num [countValid, List.filter])
    (by intro l hl; simp at hl; rcases hl with rfl | rfl <;> norm_num [Gq]) rfl (by norm_num [Gq])
    (by norm_num [Gq])
    (by
      intro i hi
      simp only [List.length_cons, List.length_nil] at hi
      interval_cases i <;> simp <;> norm_num)
  simpa [Gq] using this

end Hdc.C05
