import Hdc.Lemmas.GenNumGamma
import Hdc.Gen.NumGammafit
import Hdc.Props.GenNumBrent
import Std.Tactic.Do
/-
GenNumGammafit  The GENERATED translation of `ops/stats.py::gammafit` (Hdc/Gen/NumGammafit.lean, written by
harness/py2lean_spi.py from the current Python source) computes the hand model `Hdc.gammafit`.

  gen_gammafit_eq_model     gammafit F digamma xtol rtol x = Hdc.gammafit (brentRoot F digamma xtol rtol) x
                            for EVERY input list, no hypothesis.  `brentRoot F …` is `F` with the root finder
                            `F.root xa xb s := Hdc.brentq (fun a => F.log a − digamma a − s) xtol rtol 100 xa xb`,
                            i.e. the model of the `brentq(xa, xb, s)` the source calls (the call of the translated
                            `brentq` is bridged by `gen_brentq_eq_model`).
  gen_gammafit_eq_model'    the same for any `F` whose `root` field is that function (hypothesis form)

Method: `mvcgen` on the generated program, one invariant for the accumulation loop (`FitInv`, Hdc/Lemmas/
GenNumGamma.lean: `xts`, `logs`, `n` are the left folds over the positive cells read so far); the four exits of the
source (`n == 0`, `s == 0`, `a == 0`, the fit) are matched with the model's `if`s by `gammafit_of_inv`.
The only field fact used: the cast of the integer counter `n` is the cast of the natural number of positive cells.
-/
namespace Hdc.GenNum
open Hdc Hdc.Gen.NumKernels Std.Do

set_option mvcgen.warning false
set_option linter.unusedSimpArgs false
set_option linter.unusedTactic false
set_option linter.unreachableTactic false

section gammafit
variable {α : Type} [Field α] [LinearOrder α] [IsStrictOrderedRing α]

/-- The translated `gammafit` equals the hand model, the root finder of the model being Brent's method on
    `a ↦ log a − digamma a − s` with the source's tolerances and 100 passes.  No hypothesis: any list (empty,
    no positive cell, …), any `F`, `digamma`, `xtol`, `rtol`. -/
theorem gen_gammafit_eq_model (F : GamFns α) (digamma : α → α) (xtol rtol : α) (x : List α) :
    Gen.NumKernels.gammafit F digamma xtol rtol x.toArray
      = Hdc.gammafit (brentRoot F digamma xtol rtol) x := by
  generalize hres : Gen.NumKernels.gammafit F digamma xtol rtol x.toArray = res
  apply Id.of_wp_run_eq hres
  mvcgen invariants
  -- `for xx in x`, state `(n, xts, logs)`
  · ⇓⟨xs, s⟩ => ⌜FitInv F.log x xs.prefix.length s.2.1 s.2.2 s.1⌝
  all_goals
    pyn_ranges
    simp (config := {zetaDelta := true}) only [List.size_toArray, List.length_append,
      List.length_singleton, List.length_nil, pyRange_length, decide_eq_true_eq, gt_iff_lt,
      Int.toNat_natCast] at *
  all_goals first
    -- one pass: a positive cell / any other cell; entry
    | exact (‹FitInv _ _ _ _ _ _›).step_pos (by omega) ‹_ < _› (by omega)
    | exact (‹FitInv _ _ _ _ _ _›).step_neg (by omega) ‹¬ _ < _› (by omega)
    | exact FitInv.init F.log x
    -- the four exits after the loop
    | (rw [gammafit_of_inv (brentRoot F digamma xtol rtol) ‹FitInv _ _ _ _ _ _› (by omega)]
       simp only [brentRoot, gen_brentq_eq_model] at *
       simp only [*, if_true, if_false, ite_true, ite_false, Bool.false_eq_true])

/-- hypothesis form: any `F` whose root finder is Brent's method on `a ↦ log a − digamma a − s` -/
theorem gen_gammafit_eq_model' (F : GamFns α) (digamma : α → α) (xtol rtol : α) (x : List α)
    (hroot : F.root = fun xa xb s => Hdc.brentq (fun a => F.log a - digamma a - s) xtol rtol 100 xa xb) :
    Gen.NumKernels.gammafit F digamma xtol rtol x.toArray = Hdc.gammafit F x := by
  rw [gen_gammafit_eq_model]
  congr 1
  cases F
  simp only [brentRoot] at hroot ⊢
  rw [← hroot]

/-- a toy instance over ℚ: `log v = v²`, `sqrt = id`, 0.4 = 2/5, 0.9 = 9/10 (`root` is not used by the program) -/
def Gq : GamFns ℚ := ⟨fun v => v * v, fun v => v, fun _ _ _ => 0, fun _ v => v, fun v => v, 2 / 5, 9 / 10⟩

/-- a `digamma` for which `log a − digamma a − s` is `a + 1/8` at the `s = −2/3` of the series below -/
def dgq : ℚ → ℚ := fun a => a * a - (a + 1 / 8) + 2 / 3

/-- non-vacuity: three positive cells and a negative one; s = −2/3, bracket [−1/12, −7/36], root −1/8, β = 2/(−1/8) -/
example : Gen.NumKernels.gammafit Gq dgq (1 / 1000) (1 / 1000) [1, 2, -1, 3].toArray = (-1 / 8, -16) := by
  rw [gen_gammafit_eq_model]; decide +kernel
/-- no positive cell: not fittable -/
example : Gen.NumKernels.gammafit Gq dgq (1 / 1000) (1 / 1000) [0, -2, 0].toArray = (0, 0) := by
  rw [gen_gammafit_eq_model]; decide +kernel
/-- no sign change on the bracket (`digamma = 0`): `brentq` returns 0, not fittable -/
example : Gen.NumKernels.gammafit Gq (fun _ => 0) (1 / 1000) (1 / 1000) [1, 2, -1, 3].toArray = (0, 0) := by
  rw [gen_gammafit_eq_model]; decide +kernel
/-- `s == 0` (a single positive cell): not fittable -/
example : Gen.NumKernels.gammafit Gq dgq (1 / 1000) (1 / 1000) [5, -1].toArray = (0, 0) := by
  rw [gen_gammafit_eq_model]; decide +kernel

end gammafit
end Hdc.GenNum
