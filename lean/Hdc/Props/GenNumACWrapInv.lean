import Hdc.Lemmas.GenNumACWrapInv
import Hdc.Props.GenNumACYxt
import Hdc.Props.GenNumACTyx
import Hdc.Props.C15
import Mathlib.Tactic.IntervalCases
/-
GenNumACWrapInv  The invariances of property C15, lifted from the 1-d model (Hdc/Props/C15.lean) to the GENERATED pixel-loop wrappers
`autocorr` ((y, x, t) cube, Hdc/Gen/NumAutocorrYxt.lean) and `autocorr_tyx` ((t, y, x) cube, Hdc/Gen/NumAutocorrTyx.lean) through the
refinement theorems `gen_autocorr_{yxt,tyx}_{none,nd}_eq_model`.  Nothing about the 1-d model is re-proved here, with one exception:
C15's `autocorr_affine` is stated for `0 < a` only; the version for every `a ≠ 0` (`autocorr_affine_ne`, Hdc/Lemmas/GenNumACWrapInv.lean,
the same proof with `|a|`) is used, whose homogeneity hypothesis reads `rsqrt (a² v) = rsqrt v / |a|` (for `0 < a` exactly C15's).

For each layout (`yxt`, `tyx`), each statement for both Numba specialisations (`_none`: float cells, NaN = missing; `_nd`: integer
cells, integer nodata), cells stated as `z[r * nc + c]? = some _`:

  gen_autocorr_*_affine         two cubes of the same shape whose series at pixel (r, c) are related by `v ↦ a·v + b`, `a ≠ 0`, on the valid
                                cells (missing cells stay missing) hold the same value at (r, c); hypotheses = those of the 1-d theorem
  gen_autocorr_*_pearson        the cell is `store32 (cov X Y / s)`, `s` the square root of `var X · var Y` (mean-filled Pearson form)
  gen_autocorr_*_encoding       integer/nodata run on a cube = float/NaN run on the re-encoded cube = integer run with another placeholder
  gen_autocorr_*_affine_cube    every pixel transformed (its own `a r c`, `b r c`): the whole result ARRAYS are equal
  gen_autocorr_*_encoding_cube  re-encoding the whole cube: the whole result arrays are equal
-/
namespace Hdc.GenNumACWrapInv
open Hdc Hdc.Gen.NumKernels Hdc.GenNumACW Hdc.GenNumACWI
open Hdc.GenNumACYxt (optF optI acCubeY)
open Hdc.GenNumACTyx (acCubeT)

set_option linter.unusedSectionVars false
set_option linter.unusedVariables false

variable {α : Type} [Field α] [LinearOrder α] [IsStrictOrderedRing α]

/-- the hypotheses of C15's `autocorr_pearson` on an optional series `d`: a valid pair exists, the run does not take the eps-branch,
    and `s` is the positive square root of `var X · var Y` -/
def ACPearsonHyp (eps : α) (d : List (Option α)) (s : α) : Prop :=
  C15.nPairs (C15.X d) (C15.Y d) ≠ 0 ∧ ¬ C15.EpsBranch eps d ∧ 0 < s ∧ s * s = C15.var (C15.X d) * C15.var (C15.Y d)

/-- `d'` is the image of `d` under `v ↦ a·v + b` on the valid cells (missing cells stay missing) and both runs take / do not take the
    eps-branch together (the eps test is applied to variances scaled by `a²`, see the remark in Hdc/Props/C15.lean) -/
def ACAffineRel (eps : α) (a b : α) (d d' : List (Option α)) : Prop :=
  d' = C15.amap a b d ∧ (C15.EpsBranch eps d' ↔ C15.EpsBranch eps d)

/-- 1-d core: related series have the same model value -/
theorem autocorr1d_of_affineRel (rsqrt : α → α) (eps : α) (a b : α) (ha : a ≠ 0)
    (hh : ∀ v, 0 < v → rsqrt (a ^ 2 * v) = rsqrt v / |a|) (d d' : List (Option α)) (h : ACAffineRel eps a b d d') :
    Hdc.autocorr1d rsqrt eps d' = Hdc.autocorr1d rsqrt eps d := by
  obtain ⟨h1, h2⟩ := h
  subst h1
  exact autocorr_affine_ne rsqrt eps d a b ha hh h2

/-! ## the (y, x, t) wrapper -/

/-- Affine invariance per pixel.  Two cubes of the same shape whose series at pixel `(r, c)` are related by `v ↦ a·v + b` on the valid
    cells give the same cell `(r, c)`, whatever the other pixels hold.
    Hypotheses: `a ≠ 0` (with `a = 0` the image is constant: value 0, example below); `hh` homogeneity of `rsqrt` (an inverse square
    root has it; with `rsqrt v = 1 / v` and `a = 2` the values differ, example below); the relation `ACAffineRel` (image series +
    same side of the eps test: rescaling by `a²` can push a run into / out of the eps-branch); the shapes fit the buffers; the cell exists. -/
theorem gen_autocorr_yxt_affine (isnan : α → Bool) (rsqrt : α → α) (eps : α) (store32 : α → α)
    (xF xF' : List α) (xI xI' : List Int) (nodata nodata' : Int) (nr nc nt : ℕ) (r c : ℕ) (hpix : r * nc + c < nr * nc)
    (a b : α) (ha : a ≠ 0) (hh : ∀ v, 0 < v → rsqrt (a ^ 2 * v) = rsqrt v / |a|) :
    (xF.length = nr * nc * nt → xF'.length = nr * nc * nt →
      ACAffineRel eps a b (optF isnan (rowSeries xF nr nc nt r c)) (optF isnan (rowSeries xF' nr nc nt r c)) →
      (Gen.NumKernels.autocorr_yxt_none isnan rsqrt eps store32 xF'.toArray nr nc nt)[r * nc + c]?
        = (Gen.NumKernels.autocorr_yxt_none isnan rsqrt eps store32 xF.toArray nr nc nt)[r * nc + c]?) ∧
    (xI.length = nr * nc * nt → xI'.length = nr * nc * nt →
      ACAffineRel eps a b (optI nodata (rowSeries xI nr nc nt r c)) (optI nodata' (rowSeries xI' nr nc nt r c)) →
      (Gen.NumKernels.autocorr_yxt_nd rsqrt eps store32 xI'.toArray nr nc nt nodata')[r * nc + c]?
        = (Gen.NumKernels.autocorr_yxt_nd rsqrt eps store32 xI.toArray nr nc nt nodata)[r * nc + c]?) := by
  refine ⟨fun h h' hrel => ?_, fun h h' hrel => ?_⟩
  · rw [GenNumACYxt.gen_autocorr_yxt_none_eq_model isnan rsqrt eps store32 xF' nr nc nt h' r c hpix,
      GenNumACYxt.gen_autocorr_yxt_none_eq_model isnan rsqrt eps store32 xF nr nc nt h r c hpix,
      autocorr1d_of_affineRel rsqrt eps a b ha hh _ _ hrel]
  · rw [GenNumACYxt.gen_autocorr_yxt_nd_eq_model rsqrt eps store32 xI' nr nc nt nodata' h' r c hpix,
      GenNumACYxt.gen_autocorr_yxt_nd_eq_model rsqrt eps store32 xI nr nc nt nodata h r c hpix,
      autocorr1d_of_affineRel rsqrt eps a b ha hh _ _ hrel]

/-- Pearson form per pixel.  With `rsqrt` an inverse square root on the positives, a pixel whose series has a valid pair and does not
    take the eps-branch holds `store32 (cov X Y / s)`: the Pearson correlation of the mean-filled series `X = s[:-1]` with its lag
    `Y = s[1:]`, `s` being the positive square root of `var X · var Y` (hypotheses: exactly those of `C15.autocorr_pearson`). -/
theorem gen_autocorr_yxt_pearson (isnan : α → Bool) (rsqrt : α → α) (hrs : C15.IsRsqrt rsqrt) (eps : α) (store32 : α → α)
    (xF : List α) (xI : List Int) (nodata : Int) (nr nc nt : ℕ) (r c : ℕ) (hpix : r * nc + c < nr * nc) (s : α) :
    (xF.length = nr * nc * nt → ACPearsonHyp eps (optF isnan (rowSeries xF nr nc nt r c)) s →
      (Gen.NumKernels.autocorr_yxt_none isnan rsqrt eps store32 xF.toArray nr nc nt)[r * nc + c]?
        = some (store32 (C15.cov (C15.X (optF isnan (rowSeries xF nr nc nt r c))) (C15.Y (optF isnan (rowSeries xF nr nc nt r c))) / s))) ∧
    (xI.length = nr * nc * nt → ACPearsonHyp eps (optI nodata (rowSeries xI nr nc nt r c)) s →
      (Gen.NumKernels.autocorr_yxt_nd rsqrt eps store32 xI.toArray nr nc nt nodata)[r * nc + c]?
        = some (store32 (C15.cov (C15.X (optI nodata (rowSeries xI nr nc nt r c))) (C15.Y (optI nodata (rowSeries xI nr nc nt r c))) / s))) := by
  refine ⟨fun h hp => ?_, fun h hp => ?_⟩
  · rw [GenNumACYxt.gen_autocorr_yxt_none_eq_model isnan rsqrt eps store32 xF nr nc nt h r c hpix,
      C15.autocorr_pearson rsqrt hrs eps _ hp.1 hp.2.1 s hp.2.2.1 hp.2.2.2]
  · rw [GenNumACYxt.gen_autocorr_yxt_nd_eq_model rsqrt eps store32 xI nr nc nt nodata h r c hpix,
      C15.autocorr_pearson rsqrt hrs eps _ hp.1 hp.2.1 s hp.2.2.1 hp.2.2.2]

/-- Encoding equivalence per pixel.  (1) The float/NaN run on the re-encoded cube (`encF`: nodata ↦ `nan`, every other cell cast) holds
    the value of the integer/nodata run; (2) so does the integer run on the cube whose missing cells carry another placeholder `nodata'`.
    Hypotheses: `isnan nan` (else the placeholder counts as a valid cell), no valid cell of the pixel casts to a NaN / equals the new
    placeholder (else a valid cell is dropped) - examples below. -/
theorem gen_autocorr_yxt_encoding (isnan : α → Bool) (rsqrt : α → α) (eps : α) (store32 : α → α)
    (xI : List Int) (nodata nodata' : Int) (nan : α) (nr nc nt : ℕ) (hlen : xI.length = nr * nc * nt) (r c : ℕ)
    (hpix : r * nc + c < nr * nc) :
    (isnan nan = true → (∀ v ∈ rowSeries xI nr nc nt r c, v ≠ nodata → isnan (v : α) = false) →
      (Gen.NumKernels.autocorr_yxt_none isnan rsqrt eps store32 (xI.map (encF nodata nan)).toArray nr nc nt)[r * nc + c]?
        = (Gen.NumKernels.autocorr_yxt_nd rsqrt eps store32 xI.toArray nr nc nt nodata)[r * nc + c]?) ∧
    ((∀ v ∈ rowSeries xI nr nc nt r c, v ≠ nodata → v ≠ nodata') →
      (Gen.NumKernels.autocorr_yxt_nd rsqrt eps store32 (xI.map (renod nodata nodata')).toArray nr nc nt nodata')[r * nc + c]?
        = (Gen.NumKernels.autocorr_yxt_nd rsqrt eps store32 xI.toArray nr nc nt nodata)[r * nc + c]?) := by
  refine ⟨fun hnan hval => ?_, fun hfresh => ?_⟩
  · rw [GenNumACYxt.gen_autocorr_yxt_none_eq_model isnan rsqrt eps store32 _ nr nc nt (by rw [List.length_map]; exact hlen) r c hpix,
      GenNumACYxt.gen_autocorr_yxt_nd_eq_model rsqrt eps store32 xI nr nc nt nodata hlen r c hpix,
      rowSeries_map, optF_encF isnan nodata nan _ hnan hval]
  · rw [GenNumACYxt.gen_autocorr_yxt_nd_eq_model rsqrt eps store32 _ nr nc nt nodata' (by rw [List.length_map]; exact hlen) r c hpix,
      GenNumACYxt.gen_autocorr_yxt_nd_eq_model rsqrt eps store32 xI nr nc nt nodata hlen r c hpix,
      rowSeries_map, optI_renod nodata nodata' _ hfresh]

/-- Affine invariance of the whole result.  If EVERY pixel's series is transformed by its own map `v ↦ a r c · v + b r c`
    (`a r c ≠ 0`), the two result arrays are equal. -/
theorem gen_autocorr_yxt_affine_cube (isnan : α → Bool) (rsqrt : α → α) (eps : α) (store32 : α → α)
    (xF xF' : List α) (xI xI' : List Int) (nodata nodata' : Int) (nr nc nt : ℕ) (a b : ℕ → ℕ → α)
    (ha : ∀ r c, r < nr → c < nc → a r c ≠ 0 ∧ ∀ v, 0 < v → rsqrt (a r c ^ 2 * v) = rsqrt v / |a r c|) :
    (xF.length = nr * nc * nt → xF'.length = nr * nc * nt →
      (∀ r c, r < nr → c < nc →
        ACAffineRel eps (a r c) (b r c) (optF isnan (rowSeries xF nr nc nt r c)) (optF isnan (rowSeries xF' nr nc nt r c))) →
      Gen.NumKernels.autocorr_yxt_none isnan rsqrt eps store32 xF'.toArray nr nc nt
        = Gen.NumKernels.autocorr_yxt_none isnan rsqrt eps store32 xF.toArray nr nc nt) ∧
    (xI.length = nr * nc * nt → xI'.length = nr * nc * nt →
      (∀ r c, r < nr → c < nc →
        ACAffineRel eps (a r c) (b r c) (optI nodata (rowSeries xI nr nc nt r c)) (optI nodata' (rowSeries xI' nr nc nt r c))) →
      Gen.NumKernels.autocorr_yxt_nd rsqrt eps store32 xI'.toArray nr nc nt nodata'
        = Gen.NumKernels.autocorr_yxt_nd rsqrt eps store32 xI.toArray nr nc nt nodata) := by
  refine ⟨fun h h' hrel => ?_, fun h h' hrel => ?_⟩
  · exact array_eq_of_cells (GenNumACYxt.gen_autocorr_yxt_none_cells isnan rsqrt eps store32 _ nr nc nt).1
      (GenNumACYxt.gen_autocorr_yxt_none_cells isnan rsqrt eps store32 _ nr nc nt).1 fun r c hr hc =>
      (gen_autocorr_yxt_affine isnan rsqrt eps store32 xF xF' [] [] 0 0 nr nc nt r c (pix_lt hr hc) (a r c) (b r c)
        (ha r c hr hc).1 (ha r c hr hc).2).1 h h' (hrel r c hr hc)
  · exact array_eq_of_cells (GenNumACYxt.gen_autocorr_yxt_nd_cells rsqrt eps store32 _ nr nc nt nodata').1
      (GenNumACYxt.gen_autocorr_yxt_nd_cells rsqrt eps store32 _ nr nc nt nodata).1 fun r c hr hc =>
      (gen_autocorr_yxt_affine (fun _ => false) rsqrt eps store32 [] [] xI xI' nodata nodata' nr nc nt r c (pix_lt hr hc) (a r c) (b r c)
        (ha r c hr hc).1 (ha r c hr hc).2).2 h h' (hrel r c hr hc)

/-- Encoding equivalence of the whole result: the float/NaN run on the re-encoded cube and the integer run with another placeholder
    return the ARRAY of the integer/nodata run (no valid cell of the cube casts to a NaN / equals the new placeholder). -/
theorem gen_autocorr_yxt_encoding_cube (isnan : α → Bool) (rsqrt : α → α) (eps : α) (store32 : α → α)
    (xI : List Int) (nodata nodata' : Int) (nan : α) (nr nc nt : ℕ) (hlen : xI.length = nr * nc * nt) :
    (isnan nan = true → (∀ v ∈ xI, v ≠ nodata → isnan (v : α) = false) →
      Gen.NumKernels.autocorr_yxt_none isnan rsqrt eps store32 (xI.map (encF nodata nan)).toArray nr nc nt
        = Gen.NumKernels.autocorr_yxt_nd rsqrt eps store32 xI.toArray nr nc nt nodata) ∧
    ((∀ v ∈ xI, v ≠ nodata → v ≠ nodata') →
      Gen.NumKernels.autocorr_yxt_nd rsqrt eps store32 (xI.map (renod nodata nodata')).toArray nr nc nt nodata'
        = Gen.NumKernels.autocorr_yxt_nd rsqrt eps store32 xI.toArray nr nc nt nodata) := by
  refine ⟨fun hnan hval => ?_, fun hfresh => ?_⟩
  · exact array_eq_of_cells (GenNumACYxt.gen_autocorr_yxt_none_cells isnan rsqrt eps store32 _ nr nc nt).1
      (GenNumACYxt.gen_autocorr_yxt_nd_cells rsqrt eps store32 _ nr nc nt nodata).1 fun r c hr hc =>
      (gen_autocorr_yxt_encoding isnan rsqrt eps store32 xI nodata nodata' nan nr nc nt hlen r c (pix_lt hr hc)).1 hnan
        fun v hv => hval v (mem_of_mem_rowSeries hv)
  · exact array_eq_of_cells (GenNumACYxt.gen_autocorr_yxt_nd_cells rsqrt eps store32 _ nr nc nt nodata').1
      (GenNumACYxt.gen_autocorr_yxt_nd_cells rsqrt eps store32 _ nr nc nt nodata).1 fun r c hr hc =>
      (gen_autocorr_yxt_encoding (fun _ => false) rsqrt eps store32 xI nodata nodata' (0 : α) nr nc nt hlen r c (pix_lt hr hc)).2
        fun v hv => hfresh v (mem_of_mem_rowSeries hv)

/-! ## the (t, y, x) wrapper -/

/-- Affine invariance per pixel.  Two cubes of the same shape whose series at pixel `(r, c)` are related by `v ↦ a·v + b` on the valid
    cells give the same cell `(r, c)`, whatever the other pixels hold.
    Hypotheses: `a ≠ 0` (with `a = 0` the image is constant: value 0, example below); `hh` homogeneity of `rsqrt` (an inverse square
    root has it; with `rsqrt v = 1 / v` and `a = 2` the values differ, example below); the relation `ACAffineRel` (image series +
    same side of the eps test: rescaling by `a²` can push a run into / out of the eps-branch); the shapes fit the buffers; the cell exists. -/
theorem gen_autocorr_tyx_affine (isnan : α → Bool) (rsqrt : α → α) (eps : α) (store32 : α → α)
    (xF xF' : List α) (xI xI' : List Int) (nodata nodata' : Int) (nt nr nc : ℕ) (r c : ℕ) (hpix : r * nc + c < nr * nc)
    (a b : α) (ha : a ≠ 0) (hh : ∀ v, 0 < v → rsqrt (a ^ 2 * v) = rsqrt v / |a|) :
    (xF.length = nt * nr * nc → xF'.length = nt * nr * nc →
      ACAffineRel eps a b (optF isnan (colSeries xF nt nr nc r c)) (optF isnan (colSeries xF' nt nr nc r c)) →
      (Gen.NumKernels.autocorr_tyx_none isnan rsqrt eps store32 xF'.toArray nt nr nc)[r * nc + c]?
        = (Gen.NumKernels.autocorr_tyx_none isnan rsqrt eps store32 xF.toArray nt nr nc)[r * nc + c]?) ∧
    (xI.length = nt * nr * nc → xI'.length = nt * nr * nc →
      ACAffineRel eps a b (optI nodata (colSeries xI nt nr nc r c)) (optI nodata' (colSeries xI' nt nr nc r c)) →
      (Gen.NumKernels.autocorr_tyx_nd rsqrt eps store32 xI'.toArray nt nr nc nodata')[r * nc + c]?
        = (Gen.NumKernels.autocorr_tyx_nd rsqrt eps store32 xI.toArray nt nr nc nodata)[r * nc + c]?) := by
  refine ⟨fun h h' hrel => ?_, fun h h' hrel => ?_⟩
  · rw [GenNumACTyx.gen_autocorr_tyx_none_eq_model isnan rsqrt eps store32 xF' nt nr nc h' r c hpix,
      GenNumACTyx.gen_autocorr_tyx_none_eq_model isnan rsqrt eps store32 xF nt nr nc h r c hpix,
      autocorr1d_of_affineRel rsqrt eps a b ha hh _ _ hrel]
  · rw [GenNumACTyx.gen_autocorr_tyx_nd_eq_model rsqrt eps store32 xI' nt nr nc nodata' h' r c hpix,
      GenNumACTyx.gen_autocorr_tyx_nd_eq_model rsqrt eps store32 xI nt nr nc nodata h r c hpix,
      autocorr1d_of_affineRel rsqrt eps a b ha hh _ _ hrel]

/-- Pearson form per pixel.  With `rsqrt` an inverse square root on the positives, a pixel whose series has a valid pair and does not
    take the eps-branch holds `store32 (cov X Y / s)`: the Pearson correlation of the mean-filled series `X = s[:-1]` with its lag
    `Y = s[1:]`, `s` being the positive square root of `var X · var Y` (hypotheses: exactly those of `C15.autocorr_pearson`). -/
theorem gen_autocorr_tyx_pearson (isnan : α → Bool) (rsqrt : α → α) (hrs : C15.IsRsqrt rsqrt) (eps : α) (store32 : α → α)
    (xF : List α) (xI : List Int) (nodata : Int) (nt nr nc : ℕ) (r c : ℕ) (hpix : r * nc + c < nr * nc) (s : α) :
    (xF.length = nt * nr * nc → ACPearsonHyp eps (optF isnan (colSeries xF nt nr nc r c)) s →
      (Gen.NumKernels.autocorr_tyx_none isnan rsqrt eps store32 xF.toArray nt nr nc)[r * nc + c]?
        = some (store32 (C15.cov (C15.X (optF isnan (colSeries xF nt nr nc r c))) (C15.Y (optF isnan (colSeries xF nt nr nc r c))) / s))) ∧
    (xI.length = nt * nr * nc → ACPearsonHyp eps (optI nodata (colSeries xI nt nr nc r c)) s →
      (Gen.NumKernels.autocorr_tyx_nd rsqrt eps store32 xI.toArray nt nr nc nodata)[r * nc + c]?
        = some (store32 (C15.cov (C15.X (optI nodata (colSeries xI nt nr nc r c))) (C15.Y (optI nodata (colSeries xI nt nr nc r c))) / s))) := by
  refine ⟨fun h hp => ?_, fun h hp => ?_⟩
  · rw [GenNumACTyx.gen_autocorr_tyx_none_eq_model isnan rsqrt eps store32 xF nt nr nc h r c hpix,
      C15.autocorr_pearson rsqrt hrs eps _ hp.1 hp.2.1 s hp.2.2.1 hp.2.2.2]
  · rw [GenNumACTyx.gen_autocorr_tyx_nd_eq_model rsqrt eps store32 xI nt nr nc nodata h r c hpix,
      C15.autocorr_pearson rsqrt hrs eps _ hp.1 hp.2.1 s hp.2.2.1 hp.2.2.2]

/-- Encoding equivalence per pixel.  (1) The float/NaN run on the re-encoded cube (`encF`: nodata ↦ `nan`, every other cell cast) holds
    the value of the integer/nodata run; (2) so does the integer run on the cube whose missing cells carry another placeholder `nodata'`.
    Hypotheses: `isnan nan` (else the placeholder counts as a valid cell), no valid cell of the pixel casts to a NaN / equals the new
    placeholder (else a valid cell is dropped) - examples below. -/
theorem gen_autocorr_tyx_encoding (isnan : α → Bool) (rsqrt : α → α) (eps : α) (store32 : α → α)
    (xI : List Int) (nodata nodata' : Int) (nan : α) (nt nr nc : ℕ) (hlen : xI.length = nt * nr * nc) (r c : ℕ)
    (hpix : r * nc + c < nr * nc) :
    (isnan nan = true → (∀ v ∈ colSeries xI nt nr nc r c, v ≠ nodata → isnan (v : α) = false) →
      (Gen.NumKernels.autocorr_tyx_none isnan rsqrt eps store32 (xI.map (encF nodata nan)).toArray nt nr nc)[r * nc + c]?
        = (Gen.NumKernels.autocorr_tyx_nd rsqrt eps store32 xI.toArray nt nr nc nodata)[r * nc + c]?) ∧
    ((∀ v ∈ colSeries xI nt nr nc r c, v ≠ nodata → v ≠ nodata') →
      (Gen.NumKernels.autocorr_tyx_nd rsqrt eps store32 (xI.map (renod nodata nodata')).toArray nt nr nc nodata')[r * nc + c]?
        = (Gen.NumKernels.autocorr_tyx_nd rsqrt eps store32 xI.toArray nt nr nc nodata)[r * nc + c]?) := by
  refine ⟨fun hnan hval => ?_, fun hfresh => ?_⟩
  · rw [GenNumACTyx.gen_autocorr_tyx_none_eq_model isnan rsqrt eps store32 _ nt nr nc (by rw [List.length_map]; exact hlen) r c hpix,
      GenNumACTyx.gen_autocorr_tyx_nd_eq_model rsqrt eps store32 xI nt nr nc nodata hlen r c hpix,
      colSeries_map, optF_encF isnan nodata nan _ hnan hval]
  · rw [GenNumACTyx.gen_autocorr_tyx_nd_eq_model rsqrt eps store32 _ nt nr nc nodata' (by rw [List.length_map]; exact hlen) r c hpix,
      GenNumACTyx.gen_autocorr_tyx_nd_eq_model rsqrt eps store32 xI nt nr nc nodata hlen r c hpix,
      colSeries_map, optI_renod nodata nodata' _ hfresh]

/-- Affine invariance of the whole result.  If EVERY pixel's series is transformed by its own map `v ↦ a r c · v + b r c`
    (`a r c ≠ 0`), the two result arrays are equal. -/
theorem gen_autocorr_tyx_affine_cube (isnan : α → Bool) (rsqrt : α → α) (eps : α) (store32 : α → α)
    (xF xF' : List α) (xI xI' : List Int) (nodata nodata' : Int) (nt nr nc : ℕ) (a b : ℕ → ℕ → α)
    (ha : ∀ r c, r < nr → c < nc → a r c ≠ 0 ∧ ∀ v, 0 < v → rsqrt (a r c ^ 2 * v) = rsqrt v / |a r c|) :
    (xF.length = nt * nr * nc → xF'.length = nt * nr * nc →
      (∀ r c, r < nr → c < nc →
        ACAffineRel eps (a r c) (b r c) (optF isnan (colSeries xF nt nr nc r c)) (optF isnan (colSeries xF' nt nr nc r c))) →
      Gen.NumKernels.autocorr_tyx_none isnan rsqrt eps store32 xF'.toArray nt nr nc
        = Gen.NumKernels.autocorr_tyx_none isnan rsqrt eps store32 xF.toArray nt nr nc) ∧
    (xI.length = nt * nr * nc → xI'.length = nt * nr * nc →
      (∀ r c, r < nr → c < nc →
        ACAffineRel eps (a r c) (b r c) (optI nodata (colSeries xI nt nr nc r c)) (optI nodata' (colSeries xI' nt nr nc r c))) →
      Gen.NumKernels.autocorr_tyx_nd rsqrt eps store32 xI'.toArray nt nr nc nodata'
        = Gen.NumKernels.autocorr_tyx_nd rsqrt eps store32 xI.toArray nt nr nc nodata) := by
  refine ⟨fun h h' hrel => ?_, fun h h' hrel => ?_⟩
  · exact array_eq_of_cells (GenNumACTyx.gen_autocorr_tyx_none_cells isnan rsqrt eps store32 _ nt nr nc).1
      (GenNumACTyx.gen_autocorr_tyx_none_cells isnan rsqrt eps store32 _ nt nr nc).1 fun r c hr hc =>
      (gen_autocorr_tyx_affine isnan rsqrt eps store32 xF xF' [] [] 0 0 nt nr nc r c (pix_lt hr hc) (a r c) (b r c)
        (ha r c hr hc).1 (ha r c hr hc).2).1 h h' (hrel r c hr hc)
  · exact array_eq_of_cells (GenNumACTyx.gen_autocorr_tyx_nd_cells rsqrt eps store32 _ nt nr nc nodata').1
      (GenNumACTyx.gen_autocorr_tyx_nd_cells rsqrt eps store32 _ nt nr nc nodata).1 fun r c hr hc =>
      (gen_autocorr_tyx_affine (fun _ => false) rsqrt eps store32 [] [] xI xI' nodata nodata' nt nr nc r c (pix_lt hr hc) (a r c) (b r c)
        (ha r c hr hc).1 (ha r c hr hc).2).2 h h' (hrel r c hr hc)

/-- Encoding equivalence of the whole result: the float/NaN run on the re-encoded cube and the integer run with another placeholder
    return the ARRAY of the integer/nodata run (no valid cell of the cube casts to a NaN / equals the new placeholder). -/
theorem gen_autocorr_tyx_encoding_cube (isnan : α → Bool) (rsqrt : α → α) (eps : α) (store32 : α → α)
    (xI : List Int) (nodata nodata' : Int) (nan : α) (nt nr nc : ℕ) (hlen : xI.length = nt * nr * nc) :
    (isnan nan = true → (∀ v ∈ xI, v ≠ nodata → isnan (v : α) = false) →
      Gen.NumKernels.autocorr_tyx_none isnan rsqrt eps store32 (xI.map (encF nodata nan)).toArray nt nr nc
        = Gen.NumKernels.autocorr_tyx_nd rsqrt eps store32 xI.toArray nt nr nc nodata) ∧
    ((∀ v ∈ xI, v ≠ nodata → v ≠ nodata') →
      Gen.NumKernels.autocorr_tyx_nd rsqrt eps store32 (xI.map (renod nodata nodata')).toArray nt nr nc nodata'
        = Gen.NumKernels.autocorr_tyx_nd rsqrt eps store32 xI.toArray nt nr nc nodata) := by
  refine ⟨fun hnan hval => ?_, fun hfresh => ?_⟩
  · exact array_eq_of_cells (GenNumACTyx.gen_autocorr_tyx_none_cells isnan rsqrt eps store32 _ nt nr nc).1
      (GenNumACTyx.gen_autocorr_tyx_nd_cells rsqrt eps store32 _ nt nr nc nodata).1 fun r c hr hc =>
      (gen_autocorr_tyx_encoding isnan rsqrt eps store32 xI nodata nodata' nan nt nr nc hlen r c (pix_lt hr hc)).1 hnan
        fun v hv => hval v (mem_of_mem_colSeries hv)
  · exact array_eq_of_cells (GenNumACTyx.gen_autocorr_tyx_nd_cells rsqrt eps store32 _ nt nr nc nodata').1
      (GenNumACTyx.gen_autocorr_tyx_nd_cells rsqrt eps store32 _ nt nr nc nodata).1 fun r c hr hc =>
      (gen_autocorr_tyx_encoding (fun _ => false) rsqrt eps store32 xI nodata nodata' (0 : α) nt nr nc hlen r c (pix_lt hr hc)).2
        fun v hv => hfresh v (mem_of_mem_colSeries hv)

/-! ## Non-vacuity and necessity of the hypotheses

Cubes of shape `(2, 2, 4)` / `(4, 2, 2)` over ℚ, nodata = −1, toy `rsqrt v = 1 / v`, `store32 = id` (the cubes `acCubeY`, `acCubeT` of
Hdc/Props/GenNumACYxt.lean / GenNumACTyx.lean).  Over ℚ the homogeneity hypothesis `hh` holds for the toy `rsqrt` exactly when
`a = ±1` (an inverse square root ℚ → ℚ does not exist, see Hdc/Props/C15.lean), so the rational examples use `a = −1` (the sign of
`a` is irrelevant) and `a = 1`; over ℝ with `C15.rsqrtR` `hh` holds for every `a ≠ 0` (`rsqrtR_homogeneous_abs`, Hdc/Lemmas/GenNumACWrapInv.lean). -/

/-- `acCubeY` with the pixels of row 0 mapped by `v ↦ 10 − v` and those of row 1 by `v ↦ v + 3` (nodata cells stay nodata) -/
def acCubeYA : List Int := [9, 8, -1, 6,  7, 9, 6, 9,  8, 8, 8, 8,  5, 10, 4, 11]
/-- the same for the `(t, y, x)` cube `acCubeT` -/
def acCubeTA : List Int := [9, 7, 8, 5,  8, 9, 8, 10,  -1, 6, 8, 4,  6, 9, 8, 11]

/-- all hypotheses of `gen_autocorr_yxt_affine` hold together: pixel (0, 0), series `1 2 nodata 4` ↦ `9 8 nodata 6` (a = −1, b = 10) -/
example : (Gen.NumKernels.autocorr_yxt_nd (fun v : ℚ => 1 / v) (1 / 100000000) id acCubeYA.toArray (2 : ℕ) (2 : ℕ) (4 : ℕ) (-1))[0 * 2 + 0]?
    = (Gen.NumKernels.autocorr_yxt_nd (fun v : ℚ => 1 / v) (1 / 100000000) id acCubeY.toArray (2 : ℕ) (2 : ℕ) (4 : ℕ) (-1))[0 * 2 + 0]? :=
  (gen_autocorr_yxt_affine (fun _ : ℚ => false) (fun v : ℚ => 1 / v) (1 / 100000000) id [] [] acCubeY acCubeYA (-1) (-1) 2 2 4 0 0
    (by decide) (-1) 10 (by norm_num) (fun v _ => by norm_num)).2 (by decide) (by decide) ⟨by decide +kernel, by decide +kernel⟩

example : (Gen.NumKernels.autocorr_tyx_nd (fun v : ℚ => 1 / v) (1 / 100000000) id acCubeTA.toArray (4 : ℕ) (2 : ℕ) (2 : ℕ) (-1))[0 * 2 + 0]?
    = (Gen.NumKernels.autocorr_tyx_nd (fun v : ℚ => 1 / v) (1 / 100000000) id acCubeT.toArray (4 : ℕ) (2 : ℕ) (2 : ℕ) (-1))[0 * 2 + 0]? :=
  (gen_autocorr_tyx_affine (fun _ : ℚ => false) (fun v : ℚ => 1 / v) (1 / 100000000) id [] [] acCubeT acCubeTA (-1) (-1) 4 2 2 0 0
    (by decide) (-1) 10 (by norm_num) (fun v _ => by norm_num)).2 (by decide) (by decide) ⟨by decide +kernel, by decide +kernel⟩

/-- whole-cube form, a different map per pixel row: the result arrays are equal -/
example : Gen.NumKernels.autocorr_yxt_nd (fun v : ℚ => 1 / v) (1 / 100000000) id acCubeYA.toArray (2 : ℕ) (2 : ℕ) (4 : ℕ) (-1)
    = Gen.NumKernels.autocorr_yxt_nd (fun v : ℚ => 1 / v) (1 / 100000000) id acCubeY.toArray (2 : ℕ) (2 : ℕ) (4 : ℕ) (-1) := by
  refine (gen_autocorr_yxt_affine_cube (fun _ : ℚ => false) (fun v : ℚ => 1 / v) (1 / 100000000) id [] [] acCubeY acCubeYA (-1) (-1)
    2 2 4 (fun r _ => if r = 0 then -1 else 1) (fun r _ => if r = 0 then 10 else 3) ?_).2 (by decide) (by decide) ?_
  · intro r c hr hc
    interval_cases r <;> exact ⟨by norm_num, fun v _ => by norm_num⟩
  · intro r c hr hc
    interval_cases r <;> interval_cases c <;> exact ⟨by decide +kernel, by decide +kernel⟩

example : Gen.NumKernels.autocorr_tyx_nd (fun v : ℚ => 1 / v) (1 / 100000000) id acCubeTA.toArray (4 : ℕ) (2 : ℕ) (2 : ℕ) (-1)
    = Gen.NumKernels.autocorr_tyx_nd (fun v : ℚ => 1 / v) (1 / 100000000) id acCubeT.toArray (4 : ℕ) (2 : ℕ) (2 : ℕ) (-1) := by
  refine (gen_autocorr_tyx_affine_cube (fun _ : ℚ => false) (fun v : ℚ => 1 / v) (1 / 100000000) id [] [] acCubeT acCubeTA (-1) (-1)
    4 2 2 (fun r _ => if r = 0 then -1 else 1) (fun r _ => if r = 0 then 10 else 3) ?_).2 (by decide) (by decide) ?_
  · intro r c hr hc
    interval_cases r <;> exact ⟨by norm_num, fun v _ => by norm_num⟩
  · intro r c hr hc
    interval_cases r <;> interval_cases c <;> exact ⟨by decide +kernel, by decide +kernel⟩

/-- `a ≠ 0` is needed.  `a = 0`, `b = 5`, `eps = 0`: pixel (0, 1), series `3 1 4 1` ↦ `5 5 5 5`.  Every other hypothesis holds (`hh`
    reads `rsqrt 0 = 0`, true for the toy `rsqrt`; neither run takes the eps-branch as no variance is negative), the cells differ:
    the constant image gives 0. -/
def acCubeY0 : List Int := [1, 2, -1, 4,  5, 5, 5, 5,  5, 5, 5, 5,  2, 7, 1, 8]
def acCubeT0 : List Int := [1, 5, 5, 2,  2, 5, 5, 7,  -1, 5, 5, 1,  4, 5, 5, 8]

example :
    (∀ v : ℚ, 0 < v → (fun v : ℚ => 1 / v) ((0 : ℚ) ^ 2 * v) = (fun v : ℚ => 1 / v) v / |(0 : ℚ)|) ∧
    ACAffineRel (0 : ℚ) 0 5 (optI (-1) (rowSeries acCubeY 2 2 4 0 1)) (optI (-1) (rowSeries acCubeY0 2 2 4 0 1)) ∧
    (Gen.NumKernels.autocorr_yxt_nd (fun v : ℚ => 1 / v) 0 id acCubeY0.toArray (2 : ℕ) (2 : ℕ) (4 : ℕ) (-1))[0 * 2 + 1]?
      ≠ (Gen.NumKernels.autocorr_yxt_nd (fun v : ℚ => 1 / v) 0 id acCubeY.toArray (2 : ℕ) (2 : ℕ) (4 : ℕ) (-1))[0 * 2 + 1]? := by
  refine ⟨fun v _ => by norm_num, ⟨by decide +kernel, by decide +kernel⟩, ?_⟩
  rw [GenNumACYxt.gen_autocorr_yxt_nd_eq_model _ _ _ acCubeY0 2 2 4 (-1) (by decide) 0 1 (by decide),
    GenNumACYxt.gen_autocorr_yxt_nd_eq_model _ _ _ acCubeY 2 2 4 (-1) (by decide) 0 1 (by decide)]
  decide +kernel

example :
    (∀ v : ℚ, 0 < v → (fun v : ℚ => 1 / v) ((0 : ℚ) ^ 2 * v) = (fun v : ℚ => 1 / v) v / |(0 : ℚ)|) ∧
    ACAffineRel (0 : ℚ) 0 5 (optI (-1) (colSeries acCubeT 4 2 2 0 1)) (optI (-1) (colSeries acCubeT0 4 2 2 0 1)) ∧
    (Gen.NumKernels.autocorr_tyx_nd (fun v : ℚ => 1 / v) 0 id acCubeT0.toArray (4 : ℕ) (2 : ℕ) (2 : ℕ) (-1))[0 * 2 + 1]?
      ≠ (Gen.NumKernels.autocorr_tyx_nd (fun v : ℚ => 1 / v) 0 id acCubeT.toArray (4 : ℕ) (2 : ℕ) (2 : ℕ) (-1))[0 * 2 + 1]? := by
  refine ⟨fun v _ => by norm_num, ⟨by decide +kernel, by decide +kernel⟩, ?_⟩
  rw [GenNumACTyx.gen_autocorr_tyx_nd_eq_model _ _ _ acCubeT0 4 2 2 (-1) (by decide) 0 1 (by decide),
    GenNumACTyx.gen_autocorr_tyx_nd_eq_model _ _ _ acCubeT 4 2 2 (-1) (by decide) 0 1 (by decide)]
  decide +kernel

/-- `hh` is needed.  `a = 2`, `b = 0`, `eps = 0`, toy `rsqrt v = 1 / v` (not homogeneous of degree −1/2): pixel (0, 1), series
    `3 1 4 1` ↦ `6 2 8 2`; `a ≠ 0` and the relation hold, the cells differ (by the factor 4). -/
def acCubeY2 : List Int := [1, 2, -1, 4,  6, 2, 8, 2,  5, 5, 5, 5,  2, 7, 1, 8]

example :
    (2 : ℚ) ≠ 0 ∧
    ACAffineRel (0 : ℚ) 2 0 (optI (-1) (rowSeries acCubeY 2 2 4 0 1)) (optI (-1) (rowSeries acCubeY2 2 2 4 0 1)) ∧
    (Gen.NumKernels.autocorr_yxt_nd (fun v : ℚ => 1 / v) 0 id acCubeY2.toArray (2 : ℕ) (2 : ℕ) (4 : ℕ) (-1))[0 * 2 + 1]?
      ≠ (Gen.NumKernels.autocorr_yxt_nd (fun v : ℚ => 1 / v) 0 id acCubeY.toArray (2 : ℕ) (2 : ℕ) (4 : ℕ) (-1))[0 * 2 + 1]? := by
  refine ⟨by norm_num, ⟨by decide +kernel, by decide +kernel⟩, ?_⟩
  rw [GenNumACYxt.gen_autocorr_yxt_nd_eq_model _ _ _ acCubeY2 2 2 4 (-1) (by decide) 0 1 (by decide),
    GenNumACYxt.gen_autocorr_yxt_nd_eq_model _ _ _ acCubeY 2 2 4 (-1) (by decide) 0 1 (by decide)]
  decide +kernel

/-- encoding, whole cube: the float run on the cube re-encoded with the placeholder 999 (`isnan v := v = 999`), and the integer run
    with the placeholder 255, return the array of the integer run with nodata = −1 -/
example : Gen.NumKernels.autocorr_yxt_none (fun v : ℚ => decide (v = 999)) (fun v : ℚ => 1 / v) (1 / 100000000) id
      (acCubeY.map (encF (-1) (999 : ℚ))).toArray (2 : ℕ) (2 : ℕ) (4 : ℕ)
    = Gen.NumKernels.autocorr_yxt_nd (fun v : ℚ => 1 / v) (1 / 100000000) id acCubeY.toArray (2 : ℕ) (2 : ℕ) (4 : ℕ) (-1) :=
  (gen_autocorr_yxt_encoding_cube _ _ _ _ acCubeY (-1) 255 999 2 2 4 (by decide)).1 (by decide +kernel) (by decide +kernel)

example : Gen.NumKernels.autocorr_yxt_nd (fun v : ℚ => 1 / v) (1 / 100000000) id (acCubeY.map (renod (-1) 255)).toArray (2 : ℕ) (2 : ℕ) (4 : ℕ) 255
    = Gen.NumKernels.autocorr_yxt_nd (fun v : ℚ => 1 / v) (1 / 100000000) id acCubeY.toArray (2 : ℕ) (2 : ℕ) (4 : ℕ) (-1) :=
  (gen_autocorr_yxt_encoding_cube (fun _ : ℚ => false) _ _ _ acCubeY (-1) 255 0 2 2 4 (by decide)).2 (by decide)

example : Gen.NumKernels.autocorr_tyx_none (fun v : ℚ => decide (v = 999)) (fun v : ℚ => 1 / v) (1 / 100000000) id
      (acCubeT.map (encF (-1) (999 : ℚ))).toArray (4 : ℕ) (2 : ℕ) (2 : ℕ)
    = Gen.NumKernels.autocorr_tyx_nd (fun v : ℚ => 1 / v) (1 / 100000000) id acCubeT.toArray (4 : ℕ) (2 : ℕ) (2 : ℕ) (-1) :=
  (gen_autocorr_tyx_encoding_cube _ _ _ _ acCubeT (-1) 255 999 4 2 2 (by decide)).1 (by decide +kernel) (by decide +kernel)

example : Gen.NumKernels.autocorr_tyx_nd (fun v : ℚ => 1 / v) (1 / 100000000) id (acCubeT.map (renod (-1) 255)).toArray (4 : ℕ) (2 : ℕ) (2 : ℕ) 255
    = Gen.NumKernels.autocorr_tyx_nd (fun v : ℚ => 1 / v) (1 / 100000000) id acCubeT.toArray (4 : ℕ) (2 : ℕ) (2 : ℕ) (-1) :=
  (gen_autocorr_tyx_encoding_cube (fun _ : ℚ => false) _ _ _ acCubeT (-1) 255 0 4 2 2 (by decide)).2 (by decide)

/-- `isnan nan` is needed: with `isnan := fun _ => false` the placeholder 999 of pixel (0, 0) counts as a valid cell -/
example : (Gen.NumKernels.autocorr_yxt_none (fun _ : ℚ => false) (fun v : ℚ => 1 / v) (1 / 100000000) id
      (acCubeY.map (encF (-1) (999 : ℚ))).toArray (2 : ℕ) (2 : ℕ) (4 : ℕ))[0 * 2 + 0]?
    ≠ (Gen.NumKernels.autocorr_yxt_nd (fun v : ℚ => 1 / v) (1 / 100000000) id acCubeY.toArray (2 : ℕ) (2 : ℕ) (4 : ℕ) (-1))[0 * 2 + 0]? := by
  rw [GenNumACYxt.gen_autocorr_yxt_none_eq_model _ _ _ _ (acCubeY.map (encF (-1) (999 : ℚ))) 2 2 4 (by decide) 0 0 (by decide),
    GenNumACYxt.gen_autocorr_yxt_nd_eq_model _ _ _ acCubeY 2 2 4 (-1) (by decide) 0 0 (by decide)]
  decide +kernel

/-- the freshness of the new placeholder is needed: with `nodata' = 4` the valid cell 4 of pixel (0, 0) (series `1 2 nodata 4`) is dropped -/
example : (Gen.NumKernels.autocorr_yxt_nd (fun v : ℚ => 1 / v) (1 / 100000000) id (acCubeY.map (renod (-1) 4)).toArray (2 : ℕ) (2 : ℕ) (4 : ℕ) 4)[0 * 2 + 0]?
    ≠ (Gen.NumKernels.autocorr_yxt_nd (fun v : ℚ => 1 / v) (1 / 100000000) id acCubeY.toArray (2 : ℕ) (2 : ℕ) (4 : ℕ) (-1))[0 * 2 + 0]? := by
  rw [GenNumACYxt.gen_autocorr_yxt_nd_eq_model _ _ _ (acCubeY.map (renod (-1) 4)) 2 2 4 4 (by decide) 0 0 (by decide),
    GenNumACYxt.gen_autocorr_yxt_nd_eq_model _ _ _ acCubeY 2 2 4 (-1) (by decide) 0 0 (by decide)]
  decide +kernel

/-- Pearson form, all hypotheses together (over ℝ, `C15.rsqrtR`; an inverse square root on ℚ does not exist): the `(2, 2, 3)` cube whose
    pixel (0, 0) holds `1 2 4`: X = `1 2`, Y = `2 4` are perfectly correlated, `s = 1`, the cell holds exactly 1 -/
example : (Gen.NumKernels.autocorr_yxt_nd C15.rsqrtR (1 / 10 ^ 8) id
      ([1, 2, 4,  3, 1, 4,  5, 5, 5,  2, 7, 1] : List Int).toArray (2 : ℕ) (2 : ℕ) (3 : ℕ) (-1))[0 * 2 + 0]? = some 1 := by
  have hs : (optI (-1) (rowSeries ([1, 2, 4,  3, 1, 4,  5, 5, 5,  2, 7, 1] : List Int) 2 2 3 0 0) : List (Option ℝ)) = C15.d2 := by
    rw [show rowSeries ([1, 2, 4,  3, 1, 4,  5, 5, 5,  2, 7, 1] : List Int) 2 2 3 0 0 = [1, 2, 4] by decide]
    simp [optI, C15.d2]
  have h := (gen_autocorr_yxt_pearson (fun _ => false) C15.rsqrtR C15.isRsqrt_rsqrtR (1 / 10 ^ 8) id []
    ([1, 2, 4,  3, 1, 4,  5, 5, 5,  2, 7, 1] : List Int) (-1) 2 2 3 0 0 (by decide) 1).2 (by decide)
    (by rw [hs]; exact ⟨C15.d2_nondegenerate.1, C15.d2_nondegenerate.2, one_pos, by rw [C15.d2_varX, C15.d2_varY]; norm_num⟩)
  rw [hs, C15.d2_cov] at h
  simpa using h

example : (Gen.NumKernels.autocorr_tyx_nd C15.rsqrtR (1 / 10 ^ 8) id
      ([1, 3, 5, 2,  2, 1, 5, 7,  4, 4, 5, 1] : List Int).toArray (3 : ℕ) (2 : ℕ) (2 : ℕ) (-1))[0 * 2 + 0]? = some 1 := by
  have hs : (optI (-1) (colSeries ([1, 3, 5, 2,  2, 1, 5, 7,  4, 4, 5, 1] : List Int) 3 2 2 0 0) : List (Option ℝ)) = C15.d2 := by
    rw [show colSeries ([1, 3, 5, 2,  2, 1, 5, 7,  4, 4, 5, 1] : List Int) 3 2 2 0 0 = [1, 2, 4] by decide]
    simp [optI, C15.d2]
  have h := (gen_autocorr_tyx_pearson (fun _ => false) C15.rsqrtR C15.isRsqrt_rsqrtR (1 / 10 ^ 8) id []
    ([1, 3, 5, 2,  2, 1, 5, 7,  4, 4, 5, 1] : List Int) (-1) 3 2 2 0 0 (by decide) 1).2 (by decide)
    (by rw [hs]; exact ⟨C15.d2_nondegenerate.1, C15.d2_nondegenerate.2, one_pos, by rw [C15.d2_varX, C15.d2_varY]; norm_num⟩)
  rw [hs, C15.d2_cov] at h
  simpa using h

end Hdc.GenNumACWrapInv
