import Hdc.Lemmas.GenKDoMean
import Hdc.Gen.KDoMean
import Std.Tactic.Do
/-
GenKDoMean  The GENERATED translation of `ops/zonal.py::do_mean` (Hdc/Gen/KDoMean.lean, written by
harness/py2lean_stats.py from the Python source on every run) computes the hand model `Hdc.zonalMean`, time step by time step.

The pixel cube `pixels` (T, Y, X) and the zone raster `z_pixels` (Y, X) are passed to the generated program FLATTENED
(row-major) together with their dimensions; `pixels[tix, rw, cl]` is cell `flat3 T Y X tix rw cl` of the flat array.  The
returned array is the flattening of the (T, num_zones, 2) result.  As for `mean_grp` the data cells are exact integers and
the floating results (the float64 accumulator `sums`, the output) are of an abstract type `β` with `F : FloatOps β`; the
division `sums[idx] / counts[idx]` is not evaluated, so the result holds the model's exact (sum, count) per zone.

Method: `mvcgen`, one invariant per loop (four loops: time steps, rows, columns, zones of the output;
Hdc/Lemmas/GenKDoMean.lean), loop positions by `py_ranges` + `py_subst_ranges`, conditions dispatched by shape.
-/
namespace Hdc.GenKDoMean
open Hdc Hdc.Gen.Kernels Hdc.PyNpT Hdc.GenKernels Std.Do

set_option mvcgen.warning false
set_option linter.unusedSimpArgs false
set_option linter.unusedTactic false
set_option linter.unreachableTactic false

variable {β : Type}

/-- The translated `do_mean` returns, for every time step `tix` and every zone `k < num_zones`, the two cells
    `[mean, count]` given by the model's exact `(sum, count) = zoneStats (time step tix) zones nodata z_nodata k`:
    mean = `F.div (F.lit sum) (F.lit count)` if count > 0 and NaN otherwise, count = `F.lit count`.

    Hypotheses (the documented contract):
    * `hadd`: additions of integers are exact in the accumulator type (the model sums in `Int`);
    * `hp`, `hz`: the flat arrays have the sizes their dimensions say (T·Y·X and Y·X);
    * `hlab`: a zone label is `z_nodata` or non-negative ("zones have to be numbered … starting with 0").  A negative label
      other than `z_nodata` wraps around in `sums[z_idx]` (Python and Numba index semantics) and is counted for zone
      `num_zones + z_idx`, which the model does not do.  Labels `≥ num_zones` are allowed: source (store beyond the
      arrays, dropped by the translation; Numba does not check) and model ignore them.
    Any T, Y, X, num_zones ≥ 0 (also 0), any nodata values. -/
theorem gen_do_mean_eq_model (F : FloatOps β)
    (hadd : ∀ a b : Int, F.add (F.lit a) (F.lit b) = F.lit (a + b))
    (pixels zones : List Int) (t nr nc nz : Nat) (nd znd : Int)
    (hp : pixels.length = t * (nr * nc)) (hz : zones.length = nr * nc)
    (hlab : ∀ z ∈ zones, z = znd ∨ 0 ≤ z) :
    (Gen.Kernels.do_mean F pixels.toArray t nr nc zones.toArray nr nc nz nd znd).toList
      = (List.range t).flatMap fun tix =>
          (Hdc.zonalMean ((pixels.drop (tix * (nr * nc))).take (nr * nc)) zones nz nd znd).flatMap
            fun sc => [F.quot F.nan sc.1 sc.2, F.lit (sc.2 : ℕ)] := by
  show _ = zdone F pixels zones (nr * nc) nz nd znd t
  generalize hres : Gen.Kernels.do_mean F pixels.toArray t nr nc zones.toArray nr nc nz nd znd = res
  apply Id.of_wp_run_eq hres
  mvcgen invariants
  -- time steps, state `(pix, z_idx, result, sums, counts)`
  · ⇓⟨xs, s⟩ => ⌜ROut F pixels zones t (nr * nc) nz nd znd xs.prefix.length s.2.2.1 s.2.2.2.1 s.2.2.2.2⌝
  -- rows, state `(pix, z_idx, sums, counts)`
  · ⇓⟨xs, s⟩ => by
      py_name cur as tix
      exact ⌜ZAcc F nd znd nz ((cells pixels zones (nr * nc) tix.toNat).take (xs.prefix.length * nc))
        s.2.2.1 s.2.2.2⌝
  -- columns, same state
  · ⇓⟨xs, s⟩ => by
      py_name cur as rw; py_name cur as tix
      exact ⌜ZAcc F nd znd nz
        ((cells pixels zones (nr * nc) tix.toNat).take (rw.toNat * nc + xs.prefix.length)) s.2.2.1 s.2.2.2⌝
  -- zones of the output, state `result`
  · ⇓⟨xs, s⟩ => by
      py_name cur as tix
      exact ⌜RIn F pixels zones t (nr * nc) nz nd znd tix.toNat xs.prefix.length s⌝
  all_goals
    py_ranges
    simp (config := {zetaDelta := true}) only [List.size_toArray,
      List.length_append, List.length_singleton, List.length_nil, pyRange_length,
      decide_eq_true_eq, Bool.and_eq_true, not_lt, Int.zero_add, Int.sub_zero, Int.toNat_natCast,
      Nat.zero_mul, Nat.add_zero, List.take_zero] at *
    py_subst_ranges
    try simp only [Int.toNat_natCast] at *
  all_goals first
    -- one cell: counted (`sums[z_idx] += pix; counts[z_idx] += 1`) / not counted
    | exact (ZAcc.cell hadd hlab hp hz (by omega) (by omega) (by omega)
        ‹ZAcc _ _ _ _ (List.take (_ + _) _) _ _› rfl rfl).1 ‹_›
    | exact (ZAcc.cell hadd hlab hp hz (by omega) (by omega) (by omega)
        ‹ZAcc _ _ _ _ (List.take (_ + _) _) _ _› rfl rfl).2 ‹_›
    -- entry of the loop over the columns
    | assumption
    -- exit of the loop over the columns: one more row
    | exact (‹ZAcc _ _ _ _ (List.take (_ + _) _) _ _›).cast (congrArg (fun n => List.take n _) (by ring))
    -- `sums[:] = 0; counts[:] = 0`
    | exact ZAcc.init F nd znd (‹ROut _ _ _ _ _ _ _ _ _ _ _ _›).ssize (‹ROut _ _ _ _ _ _ _ _ _ _ _ _›).csize
    -- one zone of the output: the mean or NaN, and the count
    | exact (‹RIn _ _ _ _ _ _ _ _ _ _ _›).step (by omega) (by omega) ‹ZAcc _ _ _ _ _ _ _› rfl rfl
        (by split <;> first | rfl | omega) rfl
    -- entry and exit of the loop over the zones
    | exact (‹ROut _ _ _ _ _ _ _ _ _ _ _ _›).enter
    | exact (‹RIn _ _ _ _ _ _ _ _ _ _ _›).exit (‹ZAcc _ _ _ _ _ _ _›).ssize (‹ZAcc _ _ _ _ _ _ _›).csize
    -- the allocations before the loops; the result after them
    | exact ROut.init F pixels zones t (nr * nc) nz nd znd
    | exact (‹ROut _ _ _ _ _ _ _ _ _ _ _ _›).final

/-- The size of the result: T · num_zones · 2. -/
theorem gen_do_mean_size (F : FloatOps β)
    (hadd : ∀ a b : Int, F.add (F.lit a) (F.lit b) = F.lit (a + b))
    (pixels zones : List Int) (t nr nc nz : Nat) (nd znd : Int)
    (hp : pixels.length = t * (nr * nc)) (hz : zones.length = nr * nc)
    (hlab : ∀ z ∈ zones, z = znd ∨ 0 ≤ z) :
    (Gen.Kernels.do_mean F pixels.toArray t nr nc zones.toArray nr nc nz nd znd).size = t * (nz * 2) := by
  have h := congrArg List.length (gen_do_mean_eq_model F hadd pixels zones t nr nc nz nd znd hp hz hlab)
  rw [Array.length_toList] at h
  rw [h]
  exact zdone_length F pixels zones (nr * nc) nz nd znd t

/-! ### Non-vacuity: concrete inputs, evaluated on the model side -/

/-- two time steps of a 1 × 3 raster, zones `[0, 0, 1]`, three zones (zone 2 is empty), nodata = −1, zone nodata = −9;
    with the division kept as a pair (`FloatOps.pair`: NaN = (0, 0), `lit c = (c, 1)`) the means are the (sum, count) pairs -/
example : (Gen.Kernels.do_mean FloatOps.pair [4, -1, 6, 1, 2, 3].toArray ((2 : ℕ) : ℤ) ((1 : ℕ) : ℤ) ((3 : ℕ) : ℤ)
      [0, 0, 1].toArray ((1 : ℕ) : ℤ) ((3 : ℕ) : ℤ) ((3 : ℕ) : ℤ) (-1) (-9)).toList
    = [(4, 1), (1, 1), (6, 1), (1, 1), (0, 0), (0, 1),
       (3, 2), (2, 1), (3, 1), (1, 1), (0, 0), (0, 1)] := by
  rw [gen_do_mean_eq_model FloatOps.pair (fun _ _ => rfl) _ _ 2 1 3 3 (-1) (-9) (by decide) (by decide)
    (by decide)]
  decide

/-- over ℚ (NaN represented by −1): a 2 × 2 raster with a nodata zone cell and a label beyond `num_zones` -/
example : (Gen.Kernels.do_mean (⟨fun a => (a : ℚ), (· + ·), (· / ·), -1⟩ : FloatOps ℚ)
      [1, 2, 3, 4].toArray ((1 : ℕ) : ℤ) ((2 : ℕ) : ℤ) ((2 : ℕ) : ℤ)
      [0, -9, 0, 5].toArray ((2 : ℕ) : ℤ) ((2 : ℕ) : ℤ) ((2 : ℕ) : ℤ) (-1) (-9)).toList
    = [2, 2, -1, 0] := by
  rw [gen_do_mean_eq_model _ (fun a b => by push_cast; ring) _ _ 1 2 2 2 (-1) (-9) (by decide) (by decide)
    (by decide)]
  decide +kernel

end Hdc.GenKDoMean
