import Hdc.Lemmas.GenKernelsRSround
import Hdc.Gen.KRollingSumR
import Hdc.Props.C17round
import Std.Tactic.Do
/-
GenKRSround  The GENERATED rounding-aware translation of `ops/stats.py::rolling_sum` (Hdc/Gen/KRollingSumR.lean, written
by harness/py2lean.py with `round_stores={"yy": "rnd"}`: every value stored into the float32 array `yy` is wrapped by the
parameter `rnd : Int → Int`) computes the rounding-aware hand model `Hdc.rollingSumR R` (Hdc/Model/RoundAcc.lean) when `rnd`
is the rounding `R.rnd` of a format `R : IntRound`; hence, when `window · M ≤ R.B`, the exact model `Hdc.rollingSum`
(Hdc/Props/C17round.lean) - and without the bound it does NOT (witnesses below).

This replaces the idealisation of Hdc/Props/GenKRS.lean (program and model over exact `Int`) by a statement about the
accumulation in the output array's own type.  Method and layout as in GenKRS.lean (`mvcgen`, one invariant per loop,
invariants in Hdc/Lemmas/GenKernelsRSround.lean).

How the stores of the sentinel are treated: the translation wraps them like every other store (`wr yy ii (rnd nodata)`:
the array holds float32(nodata)); the model stores `nodata` itself.  The hypothesis `hnd : R.rnd nd = nd` - the sentinel is
representable in the output type; implied by `|nd| ≤ R.B`, i.e. |nodata| ≤ 2^24 for float32 - closes the gap.  Outside it
the program returns the ROUNDED sentinel (`rounded_sentinel` below), which no longer compares equal to `nodata`.
-/
namespace Hdc.GenKernels
open Hdc Hdc.Gen.Kernels Std.Do

set_option mvcgen.warning false
set_option linter.unusedSimpArgs false
set_option linter.unusedTactic false
set_option linter.unreachableTactic false

/-! ### rolling_sum with rounded stores -/

/-- The translated `rolling_sum` with every store into `yy` rounded by `R.rnd` fills the output buffer with the values of
    the rounding-aware model, for ANY format `R`, any integer window size `w` (the model is taken at `w.toNat`), any data
    (no bound), any initial content of the buffer of the right size.

    Hypothesis `hnd`: the sentinel survives the store (see the header).

    Outer invariant `RsOuterR p`: cells `< p` final, cells `≥ p` still zero.  Inner invariant `RsInnerR k q`: `yy[k]` is
    the rounded accumulation and `n_valid` the number of the valid cells among the first `q` cells of the window. -/
theorem gen_rolling_sum_r_eq_model_int (R : IntRound) (xx : List Int) (w nd : Int) (yy0 : Array Int)
    (h0 : yy0.size = xx.length) (hnd : R.rnd nd = nd) :
    (Gen.Kernels.rolling_sum_r R.rnd xx.toArray w nd yy0).toList = Hdc.rollingSumR R xx w.toNat nd := by
  generalize hres : Gen.Kernels.rolling_sum_r R.rnd xx.toArray w nd yy0 = res
  apply Id.of_wp_run_eq hres
  mvcgen invariants
  -- state `(yy, n_valid)`
  · ⇓⟨xs, s⟩ => ⌜RsOuterR R xx w.toNat nd xs.prefix.length s.1⌝
  · ⇓⟨xs, s⟩ => by
      py_name cur as k
      exact ⌜RsInnerR R xx w.toNat nd k.toNat xs.prefix.length s.1 s.2⌝
  all_goals
    py_ranges
    simp (config := {zetaDelta := true}) only [List.size_toArray,
      List.length_append, List.length_singleton, List.length_nil, pyRange_length,
      decide_eq_true_eq, not_lt] at *
  all_goals first
    -- inner loop, nodata cell: `continue`
    | (py_name cur as jj; py_name cur as k
       simp (disch := omega) only [rd_nonneg, gv_toArray] at *
       exact RsInnerR.skip ‹RsInnerR _ _ _ _ _ _ _ _› (j := jj.toNat) (by omega) (by omega) ‹_›)
    -- inner loop, valid cell: `yy[ii] += xx[jj]` (rounded), `n_valid += 1`
    | (py_name cur as jj; py_name cur as k
       have hI := ‹RsInnerR _ _ _ _ _ _ _ _›
       simp (disch := omega) only [rd_nonneg, gv_toArray] at *
       exact hI.add (j := jj.toNat) (by omega) (by omega) ‹_›
         (wr_upd rfl k.toNat (by omega) (by rw [hI.size]; omega)) rfl)
    -- exit of the inner loop, `n_valid == 0`: nodata
    | (py_name cur as k
       have hI := (‹RsInnerR _ _ _ _ _ _ _ _›).cast (q' := w.toNat) rfl (by omega)
       exact (hI.exit_none (by omega) ‹_›
         (wr_upd rfl k.toNat (by omega) (by rw [hI.size]; omega)) hnd).cast (by omega))
    -- exit of the inner loop, `n_valid != 0`
    | (have hI := (‹RsInnerR _ _ _ _ _ _ _ _›).cast (q' := w.toNat) rfl (by omega)
       exact (hI.exit_some (by omega) ‹_›).cast (by omega))
    -- incomplete window: nodata, `continue`
    | (py_name cur as i; py_name pref as pref
       have hO := ‹RsOuterR _ _ _ _ _ _›
       exact hO.step_short (wr_upd rfl pref.length (by omega) (by rw [hO.size]; omega)) hnd (by omega))
    -- entry of the inner loop (after `n_valid = 0`)
    | exact (‹RsOuterR _ _ _ _ _ _›.enter).cast (by omega) rfl
    -- `yy[:] = 0`
    | exact RsOuterR.init R xx _ nd yy0 h0
    -- exit of the outer loop
    | exact (‹RsOuterR _ _ _ _ _ _›.cast (by omega)).toList_eq

/-- The contract form: window size a natural number (any, including 0 and `> len(xx)`). -/
theorem gen_rolling_sum_r_eq_model (R : IntRound) (xx : List Int) (w : Nat) (nd : Int) (yy0 : Array Int)
    (h0 : yy0.size = xx.length) (hnd : R.rnd nd = nd) :
    (Gen.Kernels.rolling_sum_r R.rnd xx.toArray (w : Int) nd yy0).toList = Hdc.rollingSumR R xx w nd := by
  rw [gen_rolling_sum_r_eq_model_int R xx w nd yy0 h0 hnd, Int.toNat_natCast]

/-- `hnd` from a bound on the sentinel: `|nodata| ≤ R.B` -/
theorem gen_rolling_sum_r_eq_model' (R : IntRound) (xx : List Int) (w : Nat) (nd : Int) (yy0 : Array Int)
    (h0 : yy0.size = xx.length) (hnd : nd.natAbs ≤ R.B) :
    (Gen.Kernels.rolling_sum_r R.rnd xx.toArray (w : Int) nd yy0).toList = Hdc.rollingSumR R xx w nd :=
  gen_rolling_sum_r_eq_model R xx w nd yy0 h0 (R.exact nd hnd)

/-- **Hence the exact model under the bound.**  If the valid cells are bounded by `M`, `window · M ≤ R.B` and the sentinel
    is representable, the program with rounded stores returns the exact rolling sum `Hdc.rollingSum` - the statement
    Hdc/Props/GenKRS.lean makes for the idealised program, now for an accumulator that rounds. -/
theorem gen_rolling_sum_r_eq_exact (R : IntRound) (xx : List Int) (w M : Nat) (nd : Int) (yy0 : Array Int)
    (h0 : yy0.size = xx.length) (hnd : R.rnd nd = nd) (hB : w * M ≤ R.B)
    (hM : ∀ x ∈ xx, x ≠ nd → x.natAbs ≤ M) :
    (Gen.Kernels.rolling_sum_r R.rnd xx.toArray (w : Int) nd yy0).toList = Hdc.rollingSum xx w nd := by
  rw [gen_rolling_sum_r_eq_model R xx w nd yy0 h0 hnd, C17round.rollingSumR_eq_exact R xx w M nd hB hM]

/-- float32 output (`R.B ≥ 2^24`), int16 data, window ≤ 512, |nodata| ≤ 2^24 (every int16 sentinel): exact. -/
theorem gen_rolling_sum_r_int16 (R : IntRound) (hR : B32 ≤ R.B) (xx : List Int) (w : Nat) (nd : Int)
    (yy0 : Array Int) (h0 : yy0.size = xx.length) (hnd : nd.natAbs ≤ 2 ^ 24) (hw : w ≤ 512)
    (h16 : ∀ x ∈ xx, x ≠ nd → x.natAbs ≤ 32768) :
    (Gen.Kernels.rolling_sum_r R.rnd xx.toArray (w : Int) nd yy0).toList = Hdc.rollingSum xx w nd := by
  rw [gen_rolling_sum_r_eq_model' R xx w nd yy0 h0 (Nat.le_trans hnd hR),
    C17round.rollingSumR_int16_exact R hR xx w nd hw h16]

/-- Without rounding (`rnd = id`) the R-program is the idealised one: the exact model for all data. -/
theorem gen_rolling_sum_r_ideal (xx : List Int) (w : Nat) (nd : Int) (yy0 : Array Int)
    (h0 : yy0.size = xx.length) :
    (Gen.Kernels.rolling_sum_r (fun n => n) xx.toArray (w : Int) nd yy0).toList = Hdc.rollingSum xx w nd := by
  have h := gen_rolling_sum_r_eq_model (IntRound.ideal 0) xx w nd yy0 h0 rfl
  rw [show (IntRound.ideal 0).rnd = fun n => n from rfl] at h
  rw [h]
  unfold rollingSumR rollingSum
  apply List.map_congr_left
  intro ii _
  simp only [accR_ideal, foldl_add_sum, Int.zero_add]

/-- The result has the length of the input. -/
theorem gen_rolling_sum_r_size (R : IntRound) (xx : List Int) (w nd : Int) (yy0 : Array Int)
    (h0 : yy0.size = xx.length) (hnd : R.rnd nd = nd) :
    (Gen.Kernels.rolling_sum_r R.rnd xx.toArray w nd yy0).size = xx.length := by
  have h := congrArg List.length (gen_rolling_sum_r_eq_model_int R xx w nd yy0 h0 hnd)
  simpa [rollingSumR] using h

/-! ### Non-vacuity and the negative witnesses, on the GENERATED program -/

/-- within the bound of the toy format (window 2, M = 2, B = 4): the exact sums; the buffer starts with garbage -/
example : (Gen.Kernels.rolling_sum_r IntRound.toy.rnd [1, 2, -1, 2, -1, -1].toArray ((2 : ℕ) : ℤ) (-1)
      #[9, 9, 9, 9, 9, 9]).toList = [-1, 3, 2, 2, 2, -1] := by
  rw [gen_rolling_sum_r_eq_exact IntRound.toy _ 2 2 (-1) _ (by decide) (by decide) (by decide) (by decide)]
  decide

/-- outside the bound (window 2, data up to 3): the generated program returns the ROUNDED sum 4 where the exact model
    (and the idealised program of GenKRS.lean) has 5 -/
theorem rounded_program_differs :
    (Gen.Kernels.rolling_sum_r IntRound.toy.rnd [3, 2].toArray ((2 : ℕ) : ℤ) (-1) #[0, 0]).toList = [-1, 4] ∧
    Hdc.rollingSum [3, 2] 2 (-1) = [-1, 5] := by
  rw [gen_rolling_sum_r_eq_model IntRound.toy _ 2 (-1) _ (by decide) (by decide)]
  decide

/-- binary32 on the integers (`IntRound.f32` = `rne 24`): `2^24 + 1` is lost -/
theorem f32_program_differs :
    (Gen.Kernels.rolling_sum_r IntRound.f32.rnd [16777216, 1].toArray ((2 : ℕ) : ℤ) (-1) #[0, 0]).toList
      = [-1, 16777216] ∧ Hdc.rollingSum [16777216, 1] 2 (-1) = [-1, 16777217] := by
  rw [gen_rolling_sum_r_eq_model IntRound.f32 _ 2 (-1) _ (by decide) (by decide +kernel)]
  exact C17round.f32_smallest

/-- the hypothesis `hnd` is needed: a sentinel outside the exactness range (toy format, nodata = 5) is stored ROUNDED
    (4), so the program's output differs from the model's (which holds 5) - and the cell no longer equals `nodata` -/
theorem rounded_sentinel :
    Gen.Kernels.rolling_sum_r IntRound.toy.rnd #[1, 1] 2 5 #[0, 0] = #[4, 2] ∧
    Hdc.rollingSumR IntRound.toy [1, 1] 2 5 = [5, 2] := by
  decide +kernel

/-- the same for binary32: the sentinel 2^24 + 1 comes back as 2^24 -/
theorem rounded_sentinel_f32 :
    Gen.Kernels.rolling_sum_r IntRound.f32.rnd #[1, 1] 2 16777217 #[0, 0] = #[16777216, 2] := by
  decide +kernel

end Hdc.GenKernels
