import Hdc.Gen.GlueWhits
import Hdc.Lemmas.GenGlueWhit
/-
GenGlueWhits  The GENERATED translation of the accessor `WhittakerSmoother.whits` (Hdc/Gen/GlueWhits.lean, regenerated from the
current source by harness/py2lean_glue_whit.py) equals the decision table `Hdc.AccWhit.whitsPlan` (Hdc/Model/AccWhit.lean), and the
property-level consequences stated outright (C03, C02): the exceptions, `lambda = 10 ** sg` with the sgrid winning over `s`,
`p is not None` (NOT truthiness) selecting the asymmetric kernel, `nodata` passed unchanged in the slot after lambda.

The two `xarray.apply_ufunc(..)` calls are the library parameters `apply_pgu` / `apply_gu`, matched with their full literal text
(kernel, argument order, core dims, `dask=`, `keep_attrs=`): an edit of those literals fails the translation.
-/
namespace Hdc.GenGlue
open Hdc Hdc.PyGlue Hdc.Gen.Glue Hdc.AccWhit

set_option linter.unusedSimpArgs false
set_option linter.unusedVariables false

variable {V SG L P DA : Type} [Inhabited DA]

/-- REFINEMENT: the translated accessor is the plan, run by the two kernel parameters (no hypothesis) -/
theorem gen_whits_eq_plan (ct : Bool) (pow10 : SG → L) (ap : Option L → V → Option P → DA) (ag : Option L → V → DA)
    (nd : V) (sg : Option SG) (s : Option L) (p : Option P) :
    whits ct pow10 ap ag nd sg s p = (whitsPlan ct pow10 nd sg s p).map (runFixed ap ag) := by
  unfold whits whitsPlan fixedLambda
  rcases ct with _ | _ <;> rcases sg with _ | g <;> rcases s with _ | l <;> rcases p with _ | q
  all_goals glue_eval
  all_goals simp only [Bool.and_true, Bool.and_false, Bool.true_and, Bool.false_and, Bool.false_eq_true, if_false, if_true,
    ok_bind, pure_eq, except_map_ok, except_map_error, runFixed]
  all_goals rfl

/-- no time dimension: MissingTimeError, whatever the arguments -/
theorem gen_whits_no_time (pow10 : SG → L) (ap : Option L → V → Option P → DA) (ag : Option L → V → DA)
    (nd : V) (sg : Option SG) (s : Option L) (p : Option P) :
    whits false pow10 ap ag nd sg s p = .error .missingTimeError := by
  rw [gen_whits_eq_plan]; rfl

/-- neither `sg` nor `s`: ValueError (with a time dimension), whatever `p` -/
theorem gen_whits_no_lambda (pow10 : SG → L) (ap : Option L → V → Option P → DA) (ag : Option L → V → DA)
    (nd : V) (p : Option P) :
    whits true pow10 ap ag nd none none p = .error .valueError := by
  rw [gen_whits_eq_plan]; rfl

/-- `sg` given, no `p`: the SYMMETRIC kernel with `lambda = 10 ** sg` - whatever `s` is (the sgrid wins) - and `nodata` unchanged -/
theorem gen_whits_sg_wins (pow10 : SG → L) (ap : Option L → V → Option P → DA) (ag : Option L → V → DA)
    (nd : V) (g : SG) (s : Option L) :
    whits true pow10 ap ag nd (some g) s none = .ok (ag (some (pow10 g)) nd) := by
  rw [gen_whits_eq_plan]; rfl

/-- `sg` given, `p` given: the ASYMMETRIC kernel with `lambda = 10 ** sg` (whatever `s`), `nodata` after lambda, `p` last -/
theorem gen_whits_sg_wins_p (pow10 : SG → L) (ap : Option L → V → Option P → DA) (ag : Option L → V → DA)
    (nd : V) (g : SG) (s : Option L) (q : P) :
    whits true pow10 ap ag nd (some g) s (some q) = .ok (ap (some (pow10 g)) nd (some q)) := by
  rw [gen_whits_eq_plan]; rfl

/-- only `s` given, no `p`: the symmetric kernel with the constant `s` itself -/
theorem gen_whits_s_const (pow10 : SG → L) (ap : Option L → V → Option P → DA) (ag : Option L → V → DA)
    (nd : V) (l : L) :
    whits true pow10 ap ag nd none (some l) none = .ok (ag (some l) nd) := by
  rw [gen_whits_eq_plan]; rfl

/-- only `s` given, `p` given: the asymmetric kernel with the constant `s` -/
theorem gen_whits_s_const_p (pow10 : SG → L) (ap : Option L → V → Option P → DA) (ag : Option L → V → DA)
    (nd : V) (l : L) (q : P) :
    whits true pow10 ap ag nd none (some l) (some q) = .ok (ap (some l) nd (some q)) := by
  rw [gen_whits_eq_plan]; rfl

/-- `whits` tests `p is not None`, NOT the truth value of `p`: EVERY given `p` - `0.0` included - selects the asymmetric kernel
    (contrast `gen_whitsvc_p_zero_symmetric`, `gen_whitswcv_p_zero_symmetric`).  Whenever a lambda exists the outcome is
    `ws2dpgu(lmda, nodata, p)`; the symmetric parameter `ag` is not consulted. -/
theorem gen_whits_p_is_not_none (pow10 : SG → L) (ap : Option L → V → Option P → DA) (ag : Option L → V → DA)
    (nd : V) (sg : Option SG) (s : Option L) (q : P) (lmda : L) (hl : fixedLambda pow10 sg s = some lmda) :
    whits true pow10 ap ag nd sg s (some q) = .ok (ap (some lmda) nd (some q)) := by
  rw [gen_whits_eq_plan]
  simp only [whitsPlan, hl, Bool.not_true, Bool.false_eq_true, if_false, except_map_ok, runFixed]

/-- the kernel never receives `None` for lambda, and a successful call determines the plan: if `whits` succeeds then a lambda
    existed and the result is exactly one of the two kernels on `(lambda, nodata[, p])` -/
theorem gen_whits_ok_inv (pow10 : SG → L) (ap : Option L → V → Option P → DA) (ag : Option L → V → DA)
    (nd : V) (sg : Option SG) (s : Option L) (p : Option P) (r : DA) (h : whits true pow10 ap ag nd sg s p = .ok r) :
    ∃ lmda, fixedLambda pow10 sg s = some lmda ∧
      r = match p with | some q => ap (some lmda) nd (some q) | none => ag (some lmda) nd := by
  rw [gen_whits_eq_plan] at h
  rcases sg with _ | g <;> rcases s with _ | l <;> rcases p with _ | q <;>
    simp only [whitsPlan, fixedLambda, Bool.not_true, Bool.false_eq_true, if_false, except_map_ok, except_map_error, runFixed,
      reduceCtorEq, Except.ok.injEq] at h
  all_goals first
    | exact ⟨_, rfl, h.symm⟩

/-- the defaults of the `def` line (`sg=None, s=None, p=None`): `whits(nodata)` alone has no lambda - ValueError -/
theorem gen_whits_dflt (pow10 : SG → L) (ap : Option L → V → Option P → DA) (ag : Option L → V → DA) (nd : V) :
    whits_dflt true pow10 ap ag nd = .error .valueError := by
  unfold whits_dflt; rw [gen_whits_eq_plan]; rfl

/-! non-vacuity (V = L = P = SG = Int, the kernels record their arguments) and the role of each fixed argument -/
section examples
private def apX : Option Int → Int → Option Int → String × Option Int × Int × Option Int := fun l nd p => ("pgu", l, nd, p)
private def agX : Option Int → Int → String × Option Int × Int × Option Int := fun l nd => ("gu", l, nd, none)
private def p10 : Int → Int := fun g => 10 ^ g.toNat

example : whits true p10 apX agX (-3000) (some 2) (some 7) none = .ok ("gu", some 100, -3000, none) := by
  rw [gen_whits_sg_wins]; rfl
example : whits true p10 apX agX (-3000) (some 2) (some 7) (some 0) = .ok ("pgu", some 100, -3000, some 0) := by
  rw [gen_whits_sg_wins_p]; rfl
example : whits true p10 apX agX (-3000) none (some 7) none = .ok ("gu", some 7, -3000, none) := by
  rw [gen_whits_s_const]; rfl
/-- `gen_whits_p_is_not_none` with p = 0 -/
example : whits true p10 apX agX (-3000) none (some 7) (some 0) = .ok ("pgu", some 7, -3000, some 0) :=
  gen_whits_p_is_not_none p10 apX agX (-3000) none (some 7) 0 7 rfl
/-- outside `ct = true` (gen_whits_sg_wins ..): the same arguments without a time dimension raise -/
example : whits false p10 apX agX (-3000) (some 2) (some 7) none ≠ .ok ("gu", some 100, -3000, none) := by
  rw [gen_whits_no_time]; exact fun h => nomatch h
/-- outside `hl` of `gen_whits_p_is_not_none`: no lambda, no kernel -/
example : whits true p10 apX agX (-3000) none none (some 0) = .error .valueError := by
  rw [gen_whits_no_lambda]
/-- `gen_whits_no_lambda` needs BOTH absent: with `s` given the call succeeds -/
example : whits true p10 apX agX (-3000) none (some 7) none ≠ .error .valueError := by
  rw [gen_whits_s_const]; exact fun h => nomatch h
end examples

end Hdc.GenGlue
