import Hdc.Lemmas.ConcWidth
/-
C13  Compiled (fixed-width) and interpreted (unbounded) integer arithmetic agree within the contracts.

The Numba kernels accumulate in int64 and store into int16 / int32 arrays; the same source run by the
interpreter computes with unbounded integers.  Where the two worlds can differ is pure logic: does an
accumulator wrap, does a store truncate.  Definitions and helper lemmas: Hdc/Lemmas/ConcWidth.lean
(`wrap64 x = (x + 2^63) % 2^64 - 2^63`, `wrap16 x = (x + 2^15) % 2^16 - 2^15`, the carrier `W64` =
integers with wrapping `+` and `*`, at which the polymorphic model `Hdc.acAccum` is run unchanged).

Formal statements (namespace Hdc.C13)

  prefix_sums_bounded        entries in [-B, B] → every prefix sum in [-len·B, len·B]
  int64_sum_no_overflow      entries in [-B, B], len·B < 2^63 → the wrapping int64 running sum equals
                             the unbounded sum, for the whole list and for every prefix
  int16_products_sum_no_overflow   B = 2^30 (products of two int16 values), len < 2^31
  autocorr_int64_exact       int16 data (with gaps), len < 2^31: all seven accumulators of
                             `autocorr_1d_int` (Sx, Sxx, Sy, Syy, Sx', Sy', Sxy) and the three counters,
                             computed with wrapping int64 `+`/`*`, equal the model `acAccum` over ℤ;
                             and they are bounded by (len-1)·2^30 (counters by len-1)
  autocorr_int64_range       hence every accumulator lies strictly between -2^61 and 2^61
  mk_score_no_overflow       n < 2^31 → concordant, discordant ≤ n(n-1)/2, |S| ≤ n(n-1)/2 < 2^63,
                             wrap64 S = S
  lroo_counters              every (cr, mr) the loop of `lroo` passes through is ≤ len; result ≤ len
  lroo_int32_store           len < 2^31 → the int32 store of the result is the identity
  store_int16_defined        wrap16 v = v ↔ -32768 ≤ v ≤ 32767
  store_int16_identity, store_int16_not_identity   the two directions
  store_int16_out_of_range   examples: 32768 ↦ -32768, -32769 ↦ 32767
-/
namespace Hdc.C13
open Hdc Hdc.Width

/-! ## D1 -/

theorem prefix_sums_bounded (B : Int) (l : List Int) (h : ∀ v ∈ l, -B ≤ v ∧ v ≤ B) (k : Nat) :
    -((l.length : Int) * B) ≤ (l.take k).sum ∧ (l.take k).sum ≤ (l.length : Int) * B :=
  prefix_sum_bound B l h k

theorem int64_sum_no_overflow (B : Int) (l : List Int) (h : ∀ v ∈ l, -B ≤ v ∧ v ≤ B)
    (hlen : (l.length : Int) * B < 2 ^ 63) :
    wsum64 l = l.sum ∧ ∀ k, wsum64 (l.take k) = (l.take k).sum :=
  ⟨wsum64_exact B l h hlen, wsum64_prefix_exact B l h hlen⟩

/-- sums of products of int16 values over fewer than 2^31 cells -/
theorem int16_products_sum_no_overflow (xs ys : List Int) (hx : ∀ v ∈ xs, inInt16 v)
    (hy : ∀ v ∈ ys, inInt16 v) (hlen : xs.length < 2 ^ 31) :
    wsum64 (List.zipWith (· * ·) xs ys) = (List.zipWith (· * ·) xs ys).sum := by
  apply wsum64_exact (2 ^ 30)
  · intro v hv
    obtain ⟨i, hi, rfl⟩ := List.mem_iff_getElem.mp hv
    simp only [List.length_zipWith] at hi
    rw [List.getElem_zipWith]
    exact int16_mul_bound _ _ (hx _ (List.getElem_mem _)) (hy _ (List.getElem_mem _))
  · have : (List.zipWith (· * ·) xs ys).length ≤ xs.length := by
      simp only [List.length_zipWith]; omega
    omega

/-- the accumulators of `autocorr_1d_int` never wrap: the model run at the wrapping int64 carrier
    equals the model run over ℤ -/
theorem autocorr_int64_exact (data : List (Option Int)) (hd : ∀ a ∈ data, optInt16 a)
    (hlen : data.length < 2 ^ 31) :
    valsOf (acAccum (data.map lift) (ACSums.zero : ACSums W64)) = acAccum data (ACSums.zero : ACSums Int) ∧
      Bnd (data.length - 1) (acAccum data (ACSums.zero : ACSums Int)) := by
  have h := acAccum_sim data 0 ACSums.zero hd (by omega) bnd_zero
  rw [valsOf_zero, Nat.zero_add] at h
  exact h

/-- the seven running sums -/
def sumsOf (s : ACSums Int) : List Int := [s.sxy, s.sx_, s.sy_, s.sx, s.sxx, s.sy, s.syy]

/-- in particular every accumulator stays far inside the int64 range -/
theorem autocorr_int64_range (data : List (Option Int)) (hd : ∀ a ∈ data, optInt16 a)
    (hlen : data.length < 2 ^ 31) :
    ∀ v ∈ sumsOf (acAccum data (ACSums.zero : ACSums Int)), -2 ^ 61 < v ∧ v < 2 ^ 61 := by
  obtain ⟨_, hb⟩ := autocorr_int64_exact data hd hlen
  obtain ⟨b1, b2, b3, b4, b5, b6, b7, _, _, _⟩ := hb
  intro v hv
  simp only [sumsOf, List.mem_cons, List.not_mem_nil, or_false] at hv
  rcases hv with rfl | rfl | rfl | rfl | rfl | rfl | rfl <;> omega

/-! ## D2 -/

theorem mk_score_no_overflow {α : Type} [LT α] [DecidableLT α] (x : List α) (hn : x.length < 2 ^ 31) :
    (mkCounts x).1 ≤ x.length * (x.length - 1) / 2 ∧
    (mkCounts x).2 ≤ x.length * (x.length - 1) / 2 ∧
    (mkS x).natAbs ≤ x.length * (x.length - 1) / 2 ∧
    x.length * (x.length - 1) / 2 < 2 ^ 63 ∧
    wrap64 (mkS x) = mkS x := by
  obtain ⟨h1, h2⟩ := mkCounts_bound x
  have h3 := pairs_lt x.length hn
  unfold mkS
  generalize x.length * (x.length - 1) = m at *
  refine ⟨by omega, by omega, by omega, by omega, ?_⟩
  apply wrap64_id
  omega

/-! ## D3 -/

theorem lroo_counters (data : List Nat) :
    (∀ d ds, dotsFrom 0 data = d :: ds →
      ∀ p ∈ lrooTrace d 1 0 ds, p.1 ≤ data.length ∧ p.2 ≤ data.length) ∧
    lrooRaw data ≤ data.length ∧ lroo data ≤ data.length := by
  have hlen := dotsFrom_length data 0
  have hraw : lrooRaw data ≤ data.length := by
    unfold lrooRaw
    split
    · omega
    · rename_i d ds heq
      rw [heq, List.length_cons] at hlen
      exact lrooLoop_le data.length ds d 1 0 (by omega) (by omega)
  refine ⟨?_, hraw, ?_⟩
  · intro d ds heq p hp
    rw [heq, List.length_cons] at hlen
    exact lrooTrace_bound data.length ds d 1 0 (by omega) (by omega) (by omega) p hp
  · unfold lroo
    simp only
    split <;> omega

/-- the trace ends in the value the model returns -/
theorem lroo_trace_result (d : Nat) (ds : List Nat) :
    ((lrooTrace d 1 0 ds).getLast?).map (·.2) = some (lrooLoop d 1 0 ds) := lrooTrace_last ds d 1 0

theorem lroo_int32_store (data : List Nat) (hlen : data.length < 2 ^ 31) :
    wrapS 32 (lroo data) = (lroo data : Int) := by
  have h := (lroo_counters data).2.2
  have hm : lroo data % 2 ^ 32 = lroo data := Nat.mod_eq_of_lt (by omega)
  unfold wrapS
  simp only [hm]
  rw [if_pos (by omega)]

/-! ## D4 -/

theorem store_int16_defined (v : Int) : wrap16 v = v ↔ -32768 ≤ v ∧ v ≤ 32767 := wrap16_eq_iff v

theorem store_int16_identity (v : Int) (h : -32768 ≤ v ∧ v ≤ 32767) : wrap16 v = v :=
  (wrap16_eq_iff v).mpr h

theorem store_int16_not_identity (v : Int) (h : v < -32768 ∨ 32767 < v) : wrap16 v ≠ v := by
  intro he; have := (wrap16_eq_iff v).mp he; omega

theorem store_int16_out_of_range : wrap16 32768 = -32768 ∧ wrap16 (-32769) = 32767 := by decide

end Hdc.C13
