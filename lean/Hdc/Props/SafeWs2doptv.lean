import Hdc.Gen.SafeWs2doptv
import Hdc.Gen.NumWs2doptv
import Hdc.Lemmas.SafeOptv
import Hdc.Lemmas.SafeSimN
import Std.Tactic.Do
import Mathlib.Tactic.CasesM
/-
SafeWs2doptv  Safety of `hdc/algo/ops/ws2doptv.py::ws2doptv`, proved FROM THE SOURCE: `Hdc.Gen.Safe.ws2doptv`
(Hdc/Gen/SafeWs2doptv.lean) is the statement-by-statement translation plus the flag `bad`, set by
  * `oob a.size i`        every subscript: `y[ii]`, `w[ii]`; `llas[lix]`, `w[i]`, `y[i]`, `z[i]`, `fits[lix]`, `z[i+1]`, `diff1[i]`,
                          `diff1[i+1]`, `pens[lix]`; `llas[1]`, `llas[0]`, `llas[i]`, `llas[i+1]`, `fits[i]`, `fits[i+1]`, `pens[i]`,
                          `pens[i+1]`, `v[i]`, `lamids[i]`; `v[k]`, `v[i]`, `lamids[k]`, `lopt[0]`
  * `eqv (log(10) * llastep) 0`   the only scalar division with a non-literal divisor (`/ 2` is not instrumented)
  * `(Safe.ws2d …).2`     the `len(llas) + 1` calls of the instrumented smoother
(the slices `z[:]`, `out[:]`, `y[:]` are whole arrays: no check; `np.round(z, 0, out)` is a NumPy vector operation).

  safe_ws2doptv_fst   (Safe.ws2doptv …).1 = Gen.NumKernels.ws2doptv …       every carrier, every input
  safe_ws2doptv_ok    under `Contract` the flag is false
  `example`s          for every hypothesis an input over ℚ outside it where the flag is true (for `3 ≤ len y`: at 2 cells the
                      flag is false on the inputs tried, as for `ws2d` itself)
-/
namespace Hdc.SafeWs2doptv
open Hdc Hdc.Gen.NumKernels Hdc.GenNum Hdc.SafeL Hdc.SafeOptv Hdc.SafeSimN Std.Do
open Hdc.Ws2dGen (av Holds)
open Hdc.Ws2d (fnl)

set_option mvcgen.warning false
set_option linter.unusedSimpArgs false
set_option linter.unusedTactic false
set_option linter.unreachableTactic false
set_option linter.unusedSectionVars false

/-- (i) the instrumented program is the translated source plus a flag -/
theorem safe_ws2doptv_fst {α : Type} [Add α] [Sub α] [Mul α] [Div α] [Neg α] [NatCast α] [LT α] [DecidableLT α]
    (F : VFns α) (rnd : α → α) (y : Array α) (nodata : α) (llas out lopt : Array α) :
    (Gen.Safe.ws2doptv F rnd y nodata llas out lopt).1 = Gen.NumKernels.ws2doptv F rnd y nodata llas out lopt := by
  unfold Gen.Safe.ws2doptv Gen.NumKernels.ws2doptv
  simp only [SafeWs2d.safe_ws2d_fst]
  safe_sim

variable {α : Type} [Field α] [LinearOrder α] [IsStrictOrderedRing α]

/-- the documented contract of `ws2doptv`.  `lopt` is the one-cell output buffer of the gufunc; everything else is only
    needed when at least two cells are valid (otherwise the kernel copies `y` and stores `lopt[0] = 0`):
    at least 3 cells (what `ws2d` needs), at least 2 grid entries with `llas[1] ≠ llas[0]`, and the float functions the
    translation takes as parameters behave like `10^·` (positive) and `log(10)` (non-zero). -/
structure Contract (F : VFns α) (y llas : List α) (nodata : α) (lopt0 : Array α) : Prop where
  lopt : 1 ≤ lopt0.size
  fit : 2 ≤ countValid (fun x => eqv x nodata) y →
    3 ≤ y.length ∧ 2 ≤ llas.length ∧ (∀ l, 0 < F.pow10 l) ∧ F.ln10 ≠ 0 ∧ fnl llas 1 ≠ fnl llas 0

/-- (ii) under the contract the flag is false -/
theorem safe_ws2doptv_ok (F : VFns α) (rnd : α → α) (y llas : List α) (nodata : α)
    (out0 lopt0 : Array α) (hc : Contract F y llas nodata lopt0) :
    (Gen.Safe.ws2doptv F rnd y.toArray nodata llas.toArray out0 lopt0).2 = false := by
  have hl := hc.lopt
  generalize hres : Gen.Safe.ws2doptv F rnd y.toArray nodata llas.toArray out0 lopt0 = res
  apply Id.of_wp_run_eq hres
  mvcgen invariants
  -- weights loop, state `(bad, w, n)`
  · ⇓⟨xs, s⟩ => ⌜s.1 = false ∧ WInv nodata y xs.prefix.length s.2.1 s.2.2⌝
  -- λ grid, state `(bad, i, fits, pens, z, diff1, lmda, w_tmp, y_tmp, z_tmp, z2)`
  · ⇓⟨xs, s⟩ => ⌜s.1 = false ∧ s.2.2.1.size = llas.length ∧ s.2.2.2.1.size = llas.length ∧
        s.2.2.2.2.2.1.size = y.length - 1⌝
  -- `fits[lix] += …`, state `(bad, i, fits, w_tmp, y_tmp, z_tmp)`
  · ⇓⟨xs, s⟩ => ⌜s.1 = false ∧ s.2.2.1.size = llas.length⌝
  -- `diff1[i] = z[i+1] - z[i]`, state `(bad, i, diff1, z_tmp, z2)`
  · ⇓⟨xs, s⟩ => ⌜s.1 = false ∧ s.2.2.1.size = y.length - 1⌝
  -- `pens[lix] += …`, state `(bad, i, pens, z_tmp, z2)`
  · ⇓⟨xs, s⟩ => ⌜s.1 = false ∧ s.2.2.1.size = llas.length⌝
  -- V-curve, state `(bad, i, lamids, v, l1, l2, f1, f2, p1, p2)`
  · ⇓⟨xs, s⟩ => ⌜s.1 = false ∧ s.2.2.1.size = llas.length - 1 ∧ s.2.2.2.1.size = llas.length - 1⌝
  -- first strict minimum, state `(bad, i, k, vmin)`
  · ⇓⟨xs, s⟩ => ⌜s.1 = false ∧ 0 ≤ s.2.2.1 ∧ s.2.2.1 < (llas.length : ℤ) - 1⌝
  all_goals
    pyn_ranges
    simp (config := {zetaDelta := true}) only [List.size_toArray, List.length_append,
      List.length_singleton, List.length_nil, pyRange_length, decide_eq_true_eq, gt_iff_lt,
      Int.toNat_natCast] at *
  all_goals try casesm* _ ∧ _
  all_goals first
    -- weights loop: nodata cell / valid cell / entry
    | (have hW := ‹WInv _ _ _ _ _›
       refine ⟨?_, hW.step_miss (by omega) ‹eqv _ _ = true› (by omega)⟩
       simp (disch := omega) only [*, hW.hw.size, oob_false, Bool.or_false])
    | (have hW := ‹WInv _ _ _ _ _›
       refine ⟨?_, hW.step_valid (by omega) ‹¬ eqv _ _ = true› (by omega)⟩
       simp (disch := omega) only [*, hW.hw.size, oob_false, Bool.or_false])
    | exact ⟨trivial, WInv.init nodata y⟩
    -- fewer than two valid cells: pass-through, `lopt[0] = 0`
    | (have hnot := ‹¬ (1 : ℤ) < _›
       simp (disch := omega) only [*, oob_false, Bool.or_false])
    | skip
  -- after the weights loop (two valid cells): `w` is the validity weight vector, every call of the smoother is safe
  all_goals
    obtain ⟨hw, hn⟩ := (‹WInv _ _ _ _ _›).final (by omega)
    have hv : 2 ≤ countValid (missNd nodata) y := by omega
    obtain ⟨h3, h2, hpow, hln, hstep⟩ := hc.fit hv
    have hcall : ∀ l, (Gen.Safe.ws2d y.toArray (F.pow10 l) (weightsOf (missNd nodata) y).toArray).2 = false :=
      fun l => ws2d_call_ok (missNd nodata) y _ h3 (hpow l) hv
    have hdiv : eqv (F.ln10 * (rd llas.toArray 1 - rd llas.toArray 0)) (nat 0) = false := by
      rw [rd_of_eq _ 1 1 rfl, rd_of_eq _ 0 0 rfl, av_list, av_list]
      exact eqv_zero_false _ (mul_ne_zero hln (sub_ne_zero.2 hstep))
    simp only [hw] at *
    (try simp only [rd_wr_zero _ _ hl] at *)
  -- every remaining condition is a conjunction of "the new flag is false" (all subscripts in range by the sizes recorded in
  -- the invariants, the smoother calls by `hcall`, the divisor by `hdiv`) and of size equations
  all_goals
    (repeat' apply And.intro) <;> (try simp (disch := omega) only [*, size_wr, Array.size_replicate, ws2d_call_size,
      List.size_toArray, Smooth.weightsOf_length, oob_false, hcall, hdiv, Bool.or_false, Bool.false_or,
      Array.size_map]) <;> first | done | omega

/-! ### Non-vacuity and sharpness (ℚ; toy functions `log = sqrt = id`, `10^l = l² + 1`, `log 10 = 1`; `round = id`) -/

private def Fq : VFns ℚ := ⟨fun v => v, fun v => v, fun l => l * l + 1, 1⟩
private def ov (F : VFns ℚ) (y llas lopt : Array ℚ) : Bool :=
  (Gen.Safe.ws2doptv F (fun v => v) y (-3000) llas #[] lopt).2

/-- an instance of the contract: 5 cells, one of them `nodata`, a grid of 3 -/
example : ov Fq #[1, 2, -3000, 3, 5] #[0, 1, 2] #[0] = false :=
  safe_ws2doptv_ok Fq _ [1, 2, -3000, 3, 5] [0, 1, 2] _ _ _
    ⟨by decide, fun _ => ⟨by decide, by decide, fun l => by show (0 : ℚ) < l * l + 1; linarith [mul_self_nonneg l], by decide, by decide +kernel⟩⟩
/-- fewer than two valid cells: only `lopt` matters -/
example : ov Fq #[-3000, 2, -3000] #[] #[0] = false :=
  safe_ws2doptv_ok Fq _ [-3000, 2, -3000] [] _ _ _ ⟨by decide, fun h => absurd h (by decide +kernel)⟩
/-- `lopt`: an empty output buffer (`lopt[0]` out of range), on both branches -/
example : ov Fq #[1, 2, -3000, 3, 5] #[0, 1, 2] #[] = true := by decide +kernel
example : ov Fq #[-3000, 2, -3000] #[0, 1, 2] #[] = true := by decide +kernel
/-- `2 ≤ len llas`: a grid of one entry (`llas[1]`, `v[0]` out of range) -/
example : ov Fq #[1, 2, -3000, 3, 5] #[0] #[0] = true := by decide +kernel
/-- `llas[1] ≠ llas[0]`: the V-curve divides by `log(10) * (llas[1] - llas[0])` -/
example : ov Fq #[1, 2, -3000, 3, 5] #[1, 1, 2] #[0] = true := by decide +kernel
/-- `log(10) ≠ 0` and `10^l > 0` are facts about the float functions; with other parameters the flag is set -/
example : ov ⟨fun v => v, fun v => v, fun l => l * l + 1, 0⟩ #[1, 2, -3000, 3, 5] #[0, 1, 2] #[0] = true := by
  decide +kernel
example : ov ⟨fun v => v, fun v => v, fun _ => 0, 1⟩ #[1, 2, -3000, 3, 5] #[0, 1, 2] #[0] = true := by
  decide +kernel
/-- `3 ≤ len y`: with two cells (both valid) the smoother wraps its indices but no divisor vanishes on this input -/
example : ov Fq #[1, 2] #[0, 1, 2] #[0] = false := by decide +kernel

end Hdc.SafeWs2doptv
