import Hdc.Lemmas.SafeSim
import Hdc.Lemmas.SafeBase
import Hdc.Gen.SafeAutocorrSums
import Hdc.Gen.KAutocorrSums
import Std.Tactic.Do
/-
SafeAutocorrSums  Memory safety of the summation loop of `ops/autocorr.py::autocorr_1d_int` from the source (instrumented
translation Hdc/Gen/SafeAutocorrSums.lean): `xx = data[:-1]`, `yy = data[1:]`, `for i in range(len(xx))` reads `xx[i]`, `yy[i]`.
The slices are clamped by Python and Numba (never flagged); the loop is safe because both views have `max 0 (len data - 1)` cells.
-/
namespace Hdc.SafeProps
open Hdc Hdc.Gen Hdc.Gen.Kernels Hdc.SafeSim Hdc.SafeLemmas Hdc.GenKernels Std.Do

set_option mvcgen.warning false
set_option linter.unusedSimpArgs false
set_option linter.unusedTactic false
set_option linter.unreachableTactic false

/-- (i) the instrumented program IS the translated `autocorr_sums` plus a flag -/
theorem safe_autocorr_sums_fst (data : Array Int) (nodata : Int) :
    (Safe.autocorr_sums data nodata).1 = Kernels.autocorr_sums data nodata := by
  unfold Safe.autocorr_sums Kernels.autocorr_sums
  safe_sim

/-- (ii) no subscript leaves its array - for EVERY input (any length, also 0 and 1; any values): the kernel has no safety
    contract.  (That this is a theorem about the source and not a triviality is shown by the mutations in the report:
    `range(N)` -> `range(N + 1)` or `yy = data[2:]` break it.) -/
theorem safe_autocorr_sums_ok (data : Array Int) (nodata : Int) :
    (Safe.autocorr_sums data nodata).2 = false := by
  generalize hres : Safe.autocorr_sums data nodata = res
  apply Id.of_wp_run_eq hres
  mvcgen invariants
  · ⇓⟨xs, s⟩ => ⌜s.1 = false⌝
  safe_vcs [size_pySlice_tail_eq_init]

/-- non-vacuity: `Sxy`, `nxy` and the flag on a concrete series (the ten sums are (2, 1, 2, 1, 3, 5, 2, 6, 20, 2)) -/
example : ((Safe.autocorr_sums #[1, 2, -1, 4] (-1)).1.1, (Safe.autocorr_sums #[1, 2, -1, 4] (-1)).1.2.2.2.1,
    (Safe.autocorr_sums #[1, 2, -1, 4] (-1)).2) = (2, 1, false) := by decide +kernel
example : (Safe.autocorr_sums #[] (-1)).2 = false := by decide +kernel

end Hdc.SafeProps
