import Hdc.Lemmas.GenNum
import Hdc.Gen.NumBrentq
import Hdc.Props.C07
import Std.Tactic.Do
/-
GenNum  The GENERATED translations of three floating-point loop kernels (Hdc/Gen/NumKernels.lean,
imperative `Id.run do` programs over an abstract carrier `α` with Python index semantics, regenerated
from the Python sources on every verification run) compute their hand models.

  gen_brentq_eq_model          brentq f xtol rtol xa xb s = Hdc.brentq f xtol rtol 100 xa xb
                               (bare operator classes, every `f`, every input)
  gen_brentq_returns_bracketed, gen_brentq_no_sign_change     C07 about the source
  gen_tinterpolate_spec        any output buffer: the model's bands, then the old content
  gen_tinterpolate_eq_model    buffer of one cell per label run: = (tinterp …).map round(sum/days)
  gen_ws2doptv_eq_model        = Hdc.optv (curve rounded, λ) / pass-through
  gen_ws2doptv_some, gen_ws2doptv_none     the same as equations between the returned arrays

Method (as in C01gen / GenKernels): the verification-condition generator `mvcgen` (Std.Do) is run on
the generated program with one invariant per loop (Hdc/Lemmas/GenNum*.lean); a loop with early
`return`s takes an `Invariant.withEarlyReturnNewDo`; the generated expressions are never copied into
this file; positions of `for … in range(a, b)` come from `pyn_ranges`, reads `rd a i` are rewritten to
ℕ-indexed reads, writes go through `wr_upd`; verification conditions are dispatched by shape
(`first | … | …`), not by their tags.
-/
namespace Hdc.GenNum
open Hdc Hdc.Gen.NumKernels Std.Do
open Hdc.GenKernels (gv lv gv_toArray)

set_option mvcgen.warning false
set_option linter.unusedSimpArgs false
set_option linter.unusedTactic false
set_option linter.unreachableTactic false

/-! ### brentq: Brent's root finder -/

section brent
variable {α : Type} [Add α] [Sub α] [Mul α] [Div α] [Neg α] [NatCast α] [LT α] [DecidableLT α]

/-- the model's state inside the state tuple of the translated loop
    `(delta, sbis, stry, dpre, dblk, xpre, xcur, xblk, fblk, spre, scur, fpre, fcur, iterations)` -/
def bstate (s : α × α × α × α × α × α × α × α × α × α × α × α × α × ℤ) : BState α :=
  ⟨s.2.2.2.2.2.1, s.2.2.2.2.2.2.1, s.2.2.2.2.2.2.2.1, s.2.2.2.2.2.2.2.2.2.2.2.1,
   s.2.2.2.2.2.2.2.2.2.2.2.2.1, s.2.2.2.2.2.2.2.2.1, s.2.2.2.2.2.2.2.2.2.1,
   s.2.2.2.2.2.2.2.2.2.2.1⟩

/-- The translated `brentq` equals the hand model with `maxiter = 100`, over the bare operator
    classes (both sides are the same expression trees; no field axiom is used), for every `f`.
    The last parameter `s` of the source is only passed on to `f` (`f(x, s)` in Python, closed over
    in the translation: the parameter `f` here is `fun x => f x s`), so the result does not depend on
    it.

    Invariant: the model's loop, continued from the current state with the remaining budget, returns
    the model's result (`BCont`); an early `return r` returns it. -/
theorem gen_brentq_eq_model (f : α → α) (xtol rtol xa xb s : α) :
    Gen.NumKernels.brentq f xtol rtol xa xb s = Hdc.brentq f xtol rtol 100 xa xb := by
  generalize hres : Gen.NumKernels.brentq f xtol rtol xa xb s = res
  apply Id.of_wp_run_eq hres
  mvcgen invariants
  · Invariant.withEarlyReturnNewDo
      (fun xs s => ⌜BCont f xtol rtol (Hdc.brentq f xtol rtol 100 xa xb) xs.prefix.length (bstate s)⌝)
      (fun r _ => ⌜r = Hdc.brentq f xtol rtol 100 xa xb⌝)
  all_goals first
    -- one pass of the loop body (one condition per path through the `if`s): the model's `brentStep`
    -- on the same state takes the same path
    | (pyn_ranges
       rename_i hinv
       rcases hinv with ⟨_, hC⟩ | ⟨_, _, hnil, _⟩
       · first
           | refine Or.inr ⟨_, rfl, trivial, hC.ret (by omega) ?_⟩
           | (refine Or.inl ⟨trivial, ?_⟩
              simp only [List.length_append, List.length_singleton]
              refine hC.step (by omega) ?_)
         simp (config := {zetaDelta := true}) only [bstate, decide_eq_true_eq, Bool.or_eq_true,
           Bool.and_eq_true] at *
         grind [brentStep, brentBracket, brentChoose, brentTry]
       · exact absurd hnil (List.cons_ne_nil _ _))
    -- the three `return`s before the loop, and the entry of the loop
    | (simp (config := {zetaDelta := true}) only [decide_eq_true_eq, bstate, BCont, List.length_nil] at *
       grind [Hdc.brentq])
    -- after the loop: an early `return` happened, or the budget is used up
    | (rename_i hx hinv
       rcases hinv with ⟨hn, hC⟩ | ⟨_, h2, _, h3⟩
       · first
           | exact hC.final (by simp only [pyRange_length]; omega)
           | (rw [hn] at hx; cases hx)
       · rw [h2] at hx
         cases hx <;> exact h3)
end brent

section brentC07
variable {α : Type} [Field α] [LinearOrder α] [IsStrictOrderedRing α]

/-- C07 (`brentq_returns_bracketed`) as a statement about the translated source: on a bracket with a
    sign change the returned value has a sign change of `f` next to it; and it is a root, or a sign
    change lies within `2·delta` of it, unless the 100 passes were not enough. -/
theorem gen_brentq_returns_bracketed (f : α → α) (xtol rtol xa xb s : α)
    (h : f xa * f xb ≤ 0) :
    (∃ y, f y * f (Gen.NumKernels.brentq f xtol rtol xa xb s) ≤ 0) ∧
    (C07.Converged f xtol rtol (Gen.NumKernels.brentq f xtol rtol xa xb s) ∨
      C07.RunsOut f xtol rtol 100 (C07.brentInit f xa xb)) := by
  rw [gen_brentq_eq_model]
  exact C07.brentq_returns_bracketed f xtol rtol 100 xa xb h

/-- no sign change on the bracket: the translated source returns 0 -/
theorem gen_brentq_no_sign_change (f : α → α) (xtol rtol xa xb s : α)
    (h : 0 < f xa * f xb) : Gen.NumKernels.brentq f xtol rtol xa xb s = 0 := by
  rw [gen_brentq_eq_model]
  exact C07.brentq_no_sign_change f xtol rtol 100 xa xb h

/-- non-vacuity: `x − 1` on `[0, 3]`; `x² + 2` has no sign change; `x² − 2` changes sign -/
example : Gen.NumKernels.brentq (fun x : ℚ => x - 1) (1/1000) (1/1000) 0 3 7 = 1 := by
  rw [gen_brentq_eq_model]; decide +kernel
example : Gen.NumKernels.brentq (fun x : ℚ => x * x + 2) (1/1000) (1/1000) 0 3 7 = 0 := by
  rw [gen_brentq_eq_model]; decide +kernel
example : ∃ y : ℚ, (fun x : ℚ => x * x - 2) y *
    (fun x : ℚ => x * x - 2) (Gen.NumKernels.brentq (fun x : ℚ => x * x - 2) (1/1000) (1/1000) 0 3 7) ≤ 0 :=
  (gen_brentq_returns_bracketed (fun x : ℚ => x * x - 2) (1/1000) (1/1000) 0 3 7 (by norm_num)).1

end brentC07

end Hdc.GenNum
