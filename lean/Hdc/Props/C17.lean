import Hdc.Model.Discrete
/-
C17  Rolling sum and grouped mean reduce exactly the valid cells.
-/
namespace Hdc.C17

/-- the window ending at `ii` -/
def window (xx : List Int) (w ii : Nat) : List Int := (xx.drop (ii + 1 - w)).take w

/-- a series with explicit gaps, and its encoding with a sentinel -/
def enc (nd : Int) (xs : List (Option Int)) : List Int := xs.map fun o => o.getD nd

/-- no valid value collides with the sentinel -/
def Clean (nd : Int) (xs : List (Option Int)) : Prop := ∀ v, some v ∈ xs → v ≠ nd

/-- abstract rolling sum on gappy series: `none` = incomplete window or no valid cell -/
def rollingOpt (xs : List (Option Int)) (w : Nat) : List (Option Int) :=
  (List.range xs.length).map fun ii =>
    if ii + 1 < w then none
    else
      let vals := (((xs.drop (ii + 1 - w)).take w).filterMap id)
      if vals.length = 0 then none else some vals.sum

/-- abstract grouped mean: per position (sum, count) of the valid cells carrying the same label -/
def grpOpt (xs : List (Option Int)) (groups : List Int) (g : Int) : Int × Nat :=
  let vals := ((xs.zip groups).filterMap fun (o, k) => if k = g then o else none)
  (vals.sum, vals.length)

-- THEOREMS TO PROVE (statements fixed; 1 ≤ w ≤ xx.length is the kernel's contract)
-- theorem rolling_length (xx : List Int) (w : Nat) (nd : Int) : (rollingSum xx w nd).length = xx.length
-- theorem rollingAcc_length (xx : List Int) (w : Nat) (nd : Int) (hw : 1 ≤ w) (hw2 : w ≤ xx.length) :
--     (rollingSumAcc xx w nd).length = xx.length - (w - 1)
-- theorem rolling_all_valid (xx : List Int) (w ii : Nat) (nd : Int) (hw : 1 ≤ w) (h1 : w ≤ ii + 1) (h2 : ii < xx.length)
--     (hv : ∀ v ∈ window xx w ii, v ≠ nd) : (rollingSum xx w nd)[ii]? = some (window xx w ii).sum
-- theorem rolling_all_nodata (xx : List Int) (w ii : Nat) (nd : Int) (hw : 1 ≤ w) (h1 : w ≤ ii + 1) (h2 : ii < xx.length)
--     (hv : ∀ v ∈ window xx w ii, v = nd) : (rollingSum xx w nd)[ii]? = some nd
-- theorem rolling_mixed (xx : List Int) (w ii : Nat) (nd : Int) (hw : 1 ≤ w) (h1 : w ≤ ii + 1) (h2 : ii < xx.length) :
--     (rollingSum xx w nd)[ii]? = some nd ∨ (rollingSum xx w nd)[ii]? = some ((window xx w ii).filter (· ≠ nd)).sum
-- theorem rolling_refines_opt (xs : List (Option Int)) (w : Nat) (nd : Int) (hc : Clean nd xs) :
--     rollingSum (enc nd xs) w nd = enc nd (rollingOpt xs w)
--   (consequence: two sentinels nd, nd' both Clean give outputs that differ only by echoing the sentinel)
-- theorem rolling_sentinel_irrelevant (xs : List (Option Int)) (w : Nat) (nd nd' : Int) (hc : Clean nd xs) (hc' : Clean nd' xs) :
--     ∃ r : List (Option Int), rollingSum (enc nd xs) w nd = enc nd r ∧ rollingSum (enc nd' xs) w nd' = enc nd' r
-- /-- the pinned tree's loop amalgamated the sentinel with data (regression witness, F6) -/
-- theorem rollingPinned_amalgam : (rollingSumPinned [1, -9999, 5, 7, 2] 2 (-9999))[2]? = some (-9994)
-- theorem meanGrp_spec (xs : List (Option Int)) (groups : List Int) (ng : Nat) (nd : Int) (hc : Clean nd xs)
--     (hl : groups.length = xs.length) (hg : ∀ k ∈ groups, 0 ≤ k ∧ k < (ng : Int)) :
--     meanGrp (enc nd xs) groups ng nd = groups.map fun k => some (grpOpt xs groups k)
-- theorem meanGrp_all_written (xx groups : List Int) (ng : Nat) (nd : Int) (hg : ∀ k ∈ groups, 0 ≤ k ∧ k < (ng : Int)) :
--     ∀ o ∈ meanGrp xx groups ng nd, o ≠ none

end Hdc.C17
