import Hdc.Model.Discrete
import Hdc.Lemmas.Discrete
/-
C17  Rolling sum and grouped mean reduce exactly the valid cells.
-/
namespace Hdc.C17
open Hdc.Discrete

/-- the window ending at `ii` -/
def window (xx : List Int) (w ii : Nat) : List Int := (xx.drop (ii + 1 - w)).take w

/-- a series with explicit gaps, and its encoding with a sentinel -/
def enc (nd : Int) (xs : List (Option Int)) : List Int := xs.map fun o => o.getD nd

/-- no valid value collides with the sentinel -/
def Clean (nd : Int) (xs : List (Option Int)) : Prop := ∀ v, some v ∈ xs → v ≠ nd

/-- abstract rolling sum on gappy series: `none` = incomplete window or no valid cell -/
def rollingOpt (xs : List (Option Int)) (w : Nat) : List (Option Int) :=
  (List.range xs.length).map fun ii =>
    if ii + 1 < w then none
    else
      let vals := (((xs.drop (ii + 1 - w)).take w).filterMap id)
      if vals.length = 0 then none else some vals.sum

/-- abstract grouped mean: per position (sum, count) of the valid cells carrying the same label -/
def grpOpt (xs : List (Option Int)) (groups : List Int) (g : Int) : Int × Nat :=
  let vals := ((xs.zip groups).filterMap fun (o, k) => if k = g then o else none)
  (vals.sum, vals.length)

-- THEOREMS (statements fixed; 1 ≤ w ≤ xx.length is the kernel's contract)

theorem rolling_length (xx : List Int) (w : Nat) (nd : Int) : (rollingSum xx w nd).length = xx.length := by
  simp [rollingSum]

theorem rollingAcc_length (xx : List Int) (w : Nat) (nd : Int) (hw : 1 ≤ w) (hw2 : w ≤ xx.length) :
    (rollingSumAcc xx w nd).length = xx.length - (w - 1) := by
  have _ := hw; have _ := hw2
  simp [rollingSumAcc, rolling_length]

/-- the cell `ii` of the output, for a complete window -/
theorem rolling_get (xx : List Int) (w ii : Nat) (nd : Int) (h1 : w ≤ ii + 1) (h2 : ii < xx.length) :
    (rollingSum xx w nd)[ii]? =
      some (if ((window xx w ii).filter (· ≠ nd)).length = 0 then nd
            else ((window xx w ii).filter (· ≠ nd)).sum) := by
  have h3 : ¬ (ii + 1 < w) := by omega
  simp only [rollingSum, window, List.getElem?_map, List.getElem?_range h2, Option.map_some, h3,
    if_false, foldl_add_eq_sum, Int.zero_add]
  rfl

/-- an incomplete window yields the sentinel -/
theorem rolling_get_incomplete (xx : List Int) (w ii : Nat) (nd : Int) (h1 : ii + 1 < w) (h2 : ii < xx.length) :
    (rollingSum xx w nd)[ii]? = some nd := by
  simp [rollingSum, h2, h1]

theorem window_length (xx : List Int) (w ii : Nat) (h1 : w ≤ ii + 1) (h2 : ii < xx.length) :
    (window xx w ii).length = w := by
  simp only [window, List.length_take, List.length_drop]; omega

theorem rolling_all_valid (xx : List Int) (w ii : Nat) (nd : Int) (hw : 1 ≤ w) (h1 : w ≤ ii + 1) (h2 : ii < xx.length)
    (hv : ∀ v ∈ window xx w ii, v ≠ nd) : (rollingSum xx w nd)[ii]? = some (window xx w ii).sum := by
  rw [rolling_get xx w ii nd h1 h2]
  have hf : (window xx w ii).filter (· ≠ nd) = window xx w ii := by
    rw [List.filter_eq_self]; intro v hv'; simpa using hv v hv'
  rw [hf, window_length xx w ii h1 h2]
  have : ¬ (w = 0) := by omega
  simp [this]

theorem rolling_all_nodata (xx : List Int) (w ii : Nat) (nd : Int) (hw : 1 ≤ w) (h1 : w ≤ ii + 1) (h2 : ii < xx.length)
    (hv : ∀ v ∈ window xx w ii, v = nd) : (rollingSum xx w nd)[ii]? = some nd := by
  have _ := hw
  rw [rolling_get xx w ii nd h1 h2]
  have hf : (window xx w ii).filter (· ≠ nd) = [] := by
    rw [List.filter_eq_nil_iff]; intro v hv'; simpa using hv v hv'
  rw [hf]; rfl

theorem rolling_mixed (xx : List Int) (w ii : Nat) (nd : Int) (hw : 1 ≤ w) (h1 : w ≤ ii + 1) (h2 : ii < xx.length) :
    (rollingSum xx w nd)[ii]? = some nd ∨ (rollingSum xx w nd)[ii]? = some ((window xx w ii).filter (· ≠ nd)).sum := by
  have _ := hw
  rw [rolling_get xx w ii nd h1 h2]
  split
  · exact Or.inl rfl
  · exact Or.inr rfl

/-- sharper form of `rolling_mixed`: the sentinel is produced exactly when no cell is valid -/
theorem rolling_mixed_iff (xx : List Int) (w ii : Nat) (nd : Int) (h1 : w ≤ ii + 1) (h2 : ii < xx.length) :
    ((∀ v ∈ window xx w ii, v = nd) → (rollingSum xx w nd)[ii]? = some nd) ∧
    ((∃ v ∈ window xx w ii, v ≠ nd) →
      (rollingSum xx w nd)[ii]? = some ((window xx w ii).filter (· ≠ nd)).sum) := by
  rw [rolling_get xx w ii nd h1 h2]
  constructor
  · intro hv
    have hf : (window xx w ii).filter (· ≠ nd) = [] := by
      rw [List.filter_eq_nil_iff]; intro v hv'; simpa using hv v hv'
    rw [hf]; rfl
  · rintro ⟨v, hv, hne⟩
    have hm : v ∈ (window xx w ii).filter (· ≠ nd) := by
      rw [List.mem_filter]; exact ⟨hv, by simpa using hne⟩
    have : ¬ (((window xx w ii).filter (· ≠ nd)).length = 0) := by
      intro h0
      rw [List.length_eq_zero_iff] at h0
      rw [h0] at hm; cases hm
    rw [if_neg this]

theorem rolling_refines_opt (xs : List (Option Int)) (w : Nat) (nd : Int) (hc : Clean nd xs) :
    rollingSum (enc nd xs) w nd = enc nd (rollingOpt xs w) := by
  unfold rollingSum rollingOpt enc
  rw [List.length_map, List.map_map]
  apply List.map_congr_left
  intro ii _
  simp only [Function.comp]
  by_cases hlt : ii + 1 < w
  · simp [hlt]
  · simp only [hlt, if_false]
    have hcl : ∀ v, some v ∈ (xs.drop (ii + 1 - w)).take w → v ≠ nd :=
      fun v hv => hc v (List.mem_of_mem_drop (List.mem_of_mem_take hv))
    have hf := filter_enc nd _ hcl
    rw [← List.map_drop, ← List.map_take, hf, foldl_add_eq_sum, Int.zero_add]
    split <;> rfl

theorem rolling_sentinel_irrelevant (xs : List (Option Int)) (w : Nat) (nd nd' : Int) (hc : Clean nd xs) (hc' : Clean nd' xs) :
    ∃ r : List (Option Int), rollingSum (enc nd xs) w nd = enc nd r ∧ rollingSum (enc nd' xs) w nd' = enc nd' r :=
  ⟨rollingOpt xs w, rolling_refines_opt xs w nd hc, rolling_refines_opt xs w nd' hc'⟩

/-- the pinned tree's loop amalgamated the sentinel with data (regression witness, F6) -/
theorem rollingPinned_amalgam : (rollingSumPinned [1, -9999, 5, 7, 2] 2 (-9999))[2]? = some (-9994) := by decide

/-- the repaired loop on the same input gives the sum of the valid cell -/
theorem rolling_repaired_witness : (rollingSum [1, -9999, 5, 7, 2] 2 (-9999))[2]? = some 5 := by decide

theorem grpStats_enc (xs : List (Option Int)) (groups : List Int) (nd g : Int) (hc : Clean nd xs) :
    grpStats (enc nd xs) groups nd g = grpOpt xs groups g := by
  unfold grpStats grpOpt enc
  rw [foldl_sumCount0]
  have h := filter_enc_zip nd g xs groups hc
  have hl := congrArg List.length h
  rw [List.length_map] at hl
  simp only [h, hl]

theorem meanGrp_spec (xs : List (Option Int)) (groups : List Int) (ng : Nat) (nd : Int) (hc : Clean nd xs)
    (hl : groups.length = xs.length) (hg : ∀ k ∈ groups, 0 ≤ k ∧ k < (ng : Int)) :
    meanGrp (enc nd xs) groups ng nd = groups.map fun k => some (grpOpt xs groups k) := by
  have _ := hl
  unfold meanGrp
  apply List.map_congr_left
  intro k hk
  rw [if_pos (hg k hk), grpStats_enc xs groups nd k hc]

theorem meanGrp_all_written (xx groups : List Int) (ng : Nat) (nd : Int) (hg : ∀ k ∈ groups, 0 ≤ k ∧ k < (ng : Int)) :
    ∀ o ∈ meanGrp xx groups ng nd, o ≠ none := by
  intro o ho
  simp only [meanGrp, List.mem_map] at ho
  obtain ⟨k, hk, rfl⟩ := ho
  rw [if_pos (hg k hk)]; simp

theorem meanGrp_length (xx groups : List Int) (ng : Nat) (nd : Int) :
    (meanGrp xx groups ng nd).length = groups.length := by
  simp [meanGrp]

-- non-vacuity
example : rollingSum [1, -9999, 5, 7, 2] 2 (-9999) = [-9999, 1, 5, 12, 9] := by decide
example : rollingSumAcc [1, -9999, 5, 7, 2] 2 (-9999) = [1, 5, 12, 9] := by decide
example : rollingSum [-9999, -9999, 5] 2 (-9999) = [-9999, -9999, 5] := by decide
example : Clean (-9999) [some 1, none, some 5, some 7, some 2] := by
  intro v hv; simp at hv; omega
example : enc (-9999) [some 1, none, some 5, some 7, some 2] = [1, -9999, 5, 7, 2] := by decide
example : rollingOpt [some 1, none, some 5, some 7, some 2] 2 = [none, some 1, some 5, some 12, some 9] := by decide
example : meanGrp [10, -1, 30, 40] [0, 1, 0, 1] 2 (-1) = [some (40, 2), some (40, 1), some (40, 2), some (40, 1)] := by decide
example : meanGrp [10, 20] [0, 5] 2 (-1) = [some (10, 1), none] := by decide
example : grpOpt [some 10, none, some 30, some 40] [0, 1, 0, 1] 1 = (40, 1) := by decide

end Hdc.C17
