import Hdc.Gen.SafeGammastd
import Hdc.Gen.NumGammastd
import Hdc.Lemmas.GenNum
import Hdc.PyNpS
import Hdc.Props.SafeGammafit
import Std.Tactic.Do
/-
SafeGammastd  Safety of `hdc/algo/ops/stats.py::gammastd`, proved FROM THE SOURCE: `Hdc.Gen.Safe.gammastd`
(Hdc/Gen/SafeGammastd.lean) is the statement-by-statement translation plus the flag `bad`, set by
    `decide (n_valid = 0)`                 the scalar division `n_zero / n_valid` (Python ints), guarded by `if n_valid == 0: return`
    `badSlice x.size cal_start cal_stop`   the slice `x[cal_start:cal_stop]` handed to `gammafit` (flagged unless
                                           `0 ≤ cal_start ≤ cal_stop ≤ len x`; NumPy would wrap / clamp silently)
    `(Safe.gammafit …).2`                  the call of `gammafit`
    `oob x.size ix`, `oob y.size ix`       the subscripts `x[ix]`, `y[ix]` of the second loop (`ix in range(len x)`, `y = np.full(len x, …)`)
    `eqv beta 0`                           the scalar division `x[ix] / beta`, guarded by `if alpha == 0 or beta == 0: return`.
(`for val in x` iterates inside the array; `np.full_like` / `np.full` allocate: no check.)

  safe_gammastd_fst   (Safe.gammastd …).1 = Gen.NumKernels.gammastd …       every carrier, every input
  safe_gammastd_ok    the flag is false provided the calibration window is a genuine window of the series WHEN THE FIT IS REQUESTED:
                          a = 0 → b = 0 → 0 ≤ cal_start ≤ cal_stop ≤ len x
                      (nothing is required when `a`, `b` are supplied; every other check is guarded by the source itself)
  `example`s          windows outside the hypothesis with the flag set
-/
namespace Hdc.SafeGammastd
open Hdc Hdc.Gen.NumKernels Hdc.GenNum Hdc.SafeL Hdc.SafeSimN Hdc.SafeGammafit Std.Do

set_option mvcgen.warning false
set_option linter.unusedSimpArgs false
set_option linter.unusedTactic false
set_option linter.unreachableTactic false
set_option linter.unusedSectionVars false

/-- (i) the instrumented program is the translated source plus a flag -/
theorem safe_gammastd_fst {α : Type} [Add α] [Sub α] [Mul α] [Div α] [Neg α] [NatCast α] [LT α] [DecidableLT α]
    [IntCast α] (F : GamFns α) (digamma : α → α) (xtol rtol : α) (x : Array α) (nodata : α)
    (cal_start cal_stop : Int) (a b : α) :
    (Gen.Safe.gammastd F digamma xtol rtol x nodata cal_start cal_stop a b).1
      = Gen.NumKernels.gammastd F digamma xtol rtol x nodata cal_start cal_stop a b := by
  unfold Gen.Safe.gammastd Gen.NumKernels.gammastd
  simp only [safe_gammafit_fst]
  safe_sim

variable {α : Type} [Field α] [LinearOrder α] [IsStrictOrderedRing α]

/-- (ii) under the contract (a genuine calibration window whenever the parameters are to be fitted) the flag is false -/
theorem safe_gammastd_ok (F : GamFns α) (digamma : α → α) (xtol rtol : α) (x : Array α) (nodata : α)
    (cs ce : Int) (a b : α) (hcal : a = 0 → b = 0 → 0 ≤ cs ∧ cs ≤ ce ∧ ce ≤ x.size) :
    (Gen.Safe.gammastd F digamma xtol rtol x nodata cs ce a b).2 = false := by
  generalize hres : Gen.Safe.gammastd F digamma xtol rtol x nodata cs ce a b = res
  apply Id.of_wp_run_eq hres
  mvcgen invariants
  · ⇓⟨xs, s⟩ => ⌜True⌝
  · ⇓⟨xs, s⟩ => ⌜s.1 = false ∧ s.2.size = x.size⌝
  · ⇓⟨xs, s⟩ => ⌜s.1 = false ∧ s.2.size = x.size⌝
  all_goals
    pyn_ranges
    simp (config := {zetaDelta := true}) only [decide_eq_true_eq, eqv_iff, nat_zero, Bool.or_eq_true,
      Bool.and_eq_true, not_or, size_wr, size_npFull, Int.toNat_natCast, List.length_append, List.length_singleton,
      List.length_nil, safe_gammafit_ok, Bool.or_false, Bool.false_or, Bool.or_eq_false_iff, decide_eq_false_iff_not,
      eqv_false_iff, badSlice_eq_false_iff, true_and, and_true, ne_eq, not_false_eq_true] at *
  all_goals first
    | trivial
    | assumption
    | exact ⟨by assumption, hcal (‹a = 0 ∧ b = 0›).1 (‹a = 0 ∧ b = 0›).2⟩
    | (obtain ⟨hb0, hsz⟩ := ‹_ = false ∧ _ = x.size›
       simp (disch := omega) only [hb0, hsz, oob_false, true_and, and_true, and_self]
       first | done | assumption | exact (‹¬ _ = (0 : α) ∧ ¬ _ = (0 : α)›).2)


/-! ### Non-vacuity and sharpness (ℚ, the toy instance of Hdc/Props/SafeGammafit.lean) -/

/-- in contract: the window is the whole series -/
example : Gen.Safe.gammastd Gq dgq (1 / 1000) (1 / 1000) #[1, 2, -1, 3] (-9999) 0 4 0 0
    = (#[-1 / 16, -1 / 8, -9999, -3 / 16], false) := by decide +kernel
/-- `cal_stop > len x` (NumPy clamps the slice; same values, flag set), `cal_start < 0` (wraps), `cal_start > cal_stop` (empty) -/
example : Gen.Safe.gammastd Gq dgq (1 / 1000) (1 / 1000) #[1, 2, -1, 3] (-9999) 0 5 0 0
    = (#[-1 / 16, -1 / 8, -9999, -3 / 16], true) := by decide +kernel
example : (Gen.Safe.gammastd Gq dgq (1 / 1000) (1 / 1000) #[1, 2, -1, 3] (-9999) (-1) 4 0 0).2 = true := by
  decide +kernel
example : (Gen.Safe.gammastd Gq dgq (1 / 1000) (1 / 1000) #[1, 2, -1, 3] (-9999) 3 2 0 0).2 = true := by
  decide +kernel
/-- with supplied parameters the window is not looked at -/
example : (Gen.Safe.gammastd Gq dgq (1 / 1000) (1 / 1000) #[1, 2, -1, 3] (-9999) 0 5 2 3).2 = false :=
  safe_gammastd_ok _ _ _ _ _ _ _ _ _ _ (by norm_num)

end Hdc.SafeGammastd
