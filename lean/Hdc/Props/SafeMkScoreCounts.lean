import Hdc.Lemmas.SafeSim
import Hdc.Lemmas.SafeBase
import Hdc.Gen.SafeMkScoreCounts
import Hdc.Gen.KMkScoreCounts
import Std.Tactic.Do
/-
SafeMkScoreCounts  Memory safety of the pair loop of `ops/stats.py::mk_score` from the source (instrumented translation
Hdc/Gen/SafeMkScoreCounts.lean): `for k in range(n - 1): for kk in range(k + 1, n):` reads `x[kk]`, `x[k]`.
-/
namespace Hdc.SafeProps
open Hdc Hdc.Gen Hdc.Gen.Kernels Hdc.SafeSim Hdc.SafeLemmas Hdc.GenKernels Std.Do

set_option mvcgen.warning false
set_option linter.unusedSimpArgs false
set_option linter.unusedTactic false
set_option linter.unreachableTactic false

/-- (i) the instrumented program IS the translated `mk_score_counts` plus a flag -/
theorem safe_mk_score_counts_fst (x : Array Int) :
    (Safe.mk_score_counts x).1 = Kernels.mk_score_counts x := by
  unfold Safe.mk_score_counts Kernels.mk_score_counts
  safe_sim

/-- (ii) no subscript leaves the array - for EVERY input (any length, also 0 and 1): no safety contract.
    (`range(k + 1, n)` -> `range(k + 1, n + 1)` or `x[k]` -> `x[k - n - 1]` in the source break it; `range(n - 1)` -> `range(n)` does not -
    the extra `k` has an empty inner range -, see the report.) -/
theorem safe_mk_score_counts_ok (x : Array Int) : (Safe.mk_score_counts x).2 = false := by
  generalize hres : Safe.mk_score_counts x = res
  apply Id.of_wp_run_eq hres
  mvcgen invariants
  · ⇓⟨xs, s⟩ => ⌜s.1 = false⌝
  · ⇓⟨xs, s⟩ => ⌜s.1 = false⌝
  safe_vcs []

/-- non-vacuity: concordant / discordant pairs and the flag -/
example : Safe.mk_score_counts #[1, 3, 2, 2] = ((3, 2), false) := by decide +kernel
example : (Safe.mk_score_counts #[]).2 = false := by decide +kernel

end Hdc.SafeProps
