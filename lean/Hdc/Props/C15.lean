import Hdc.Model.Stats
import Hdc.Lemmas.StatsBasic
import Hdc.Lemmas.StatsAC
import Mathlib.Algebra.Order.Field.Basic
import Mathlib.Algebra.Order.Ring.Abs
import Mathlib.Data.Sign.Basic
import Mathlib.Tactic.Ring
import Mathlib.Tactic.Linarith
import Mathlib.Tactic.NormNum
import Mathlib.Tactic.FieldSimp
import Mathlib.Algebra.Order.Field.Rat
import Mathlib.Analysis.Real.Sqrt
/-
C15  Lag-1 autocorrelation (`autocorr1d rsqrt eps data`, `data : List (Option α)`, `none` = missing).

The value is the Pearson correlation between X = data[:-1] and Y = data[1:], where the missing
cells of each vector are replaced by the mean of the valid cells OF THAT VECTOR; it is 0 when there
is no valid pair or a (scaled) variance is below `eps`; it always lies in [-1, 1]; it is invariant
under positive affine maps of the valid cells.

Specification side (written without reference to the accumulator loop):
  X data = data.dropLast, Y data = data.tail,
  valid v  = the valid cells of v,            cnt v = their number,
  mean v   = Σ valid v / cnt v,               fill v = v with gaps replaced by mean v,
  cov U V  = Σᵢ (fill U i − mean U)(fill V i − mean V),
  var U    = Σᵢ (fill U i − mean U)²,
  pairs U V = the pairs (uᵢ, vᵢ) with both cells valid,   nPairs = their number,
  scaledCov U V = cnt U · cnt V · cov U V,     scaledVar U = (cnt U)² · var U,
  EpsBranch eps data  :⇔ scaledVar X < eps ∨ scaledVar Y < eps,
  IsRsqrt rsqrt       :⇔ ∀ x > 0, rsqrt x > 0 ∧ rsqrt x · rsqrt x · x = 1      (the hypothesis `hr`).

THEOREMS (all proved below):

  acAccum_spec      : acAccum data ACSums.zero = ⟨ Σ_pairs x·y, Σ_pairs x, Σ_pairs y, #pairs,
                        Σ valid X, Σ (valid X)², #valid X, Σ valid Y, Σ (valid Y)², #valid Y ⟩
  cov_eq_pairs      : cov U V = Σ_{pairs U V} (x − mean U)(y − mean V)       (filled cells contribute 0)
  var_eq_valid      : var U = Σ_{valid U} (x − mean U)²
  autocorr_eq_spec  : autocorr1d rsqrt eps data =
                        if nPairs X Y = 0 then 0 else if EpsBranch eps data then 0
                        else scaledCov X Y · rsqrt (scaledVar X) · rsqrt (scaledVar Y)
  autocorr_num_den  : nPairs X Y ≠ 0 → ¬EpsBranch eps data →
                        autocorr1d … = scaledCov X Y · rsqrt (scaledVar X) · rsqrt (scaledVar Y)
  cov_sq_le         : cov U V ² ≤ var U · var V                                  (Cauchy–Schwarz)
  autocorr_sq       : IsRsqrt rsqrt → nPairs ≠ 0 → ¬EpsBranch → autocorr1d² · (var X · var Y) = cov X Y ²
  autocorr_sign     : IsRsqrt rsqrt → nPairs ≠ 0 → ¬EpsBranch → sign (autocorr1d …) = sign (cov X Y)
  autocorr_pearson  : IsRsqrt rsqrt → nPairs ≠ 0 → ¬EpsBranch → 0 < s → s·s = var X · var Y →
                        autocorr1d … = cov X Y / s           (s = sqrt(vX·vY): the Pearson correlation)
  autocorr_range    : IsRsqrt rsqrt → −1 ≤ autocorr1d rsqrt eps data ≤ 1      (every eps, every data)
  autocorr_degenerate_nopair / _eps / _constX / _constY / _const, and the bundle autocorr_degenerate
  scaledVar_amap    : scaledVar (X (amap a b data)) = a² · scaledVar (X data)   (same for Y)
  autocorr_affine   : 0 < a → (∀ x > 0, rsqrt (a²·x) = rsqrt x / a) →
                        (EpsBranch eps (amap a b data) ↔ EpsBranch eps data) →
                        autocorr1d rsqrt eps (amap a b data) = autocorr1d rsqrt eps data
  autocorr_affine'  : the same with "neither run takes the eps-branch" as hypothesis
  autocorr_encoding : the result is a function of the `List (Option α)` only (remark, see below)

None of autocorr_sq / _sign / _pearson / _range needs an assumption on `eps` (if a scaled variance
is 0 the numerator is 0 by Cauchy–Schwarz, so the value is 0 whatever `rsqrt 0` is), and
autocorr_affine needs neither `IsRsqrt` nor an assumption on `eps`.

Remarks on the model (checked against the algebra, nothing wrong found):
  * `a = nx·ny·sxy − ny·sx·sy_ − nx·sy·sx_ + nxy·sx·sy` is exactly nx·ny·Σ_pairs (x − mX)(y − mY)
    with mX = sx/nx the mean over ALL valid cells of X (not only the paired ones); `vx` is exactly
    nx²·Σ_valid (x − mX)²  (`StatsAC.numA_eq`, `StatsAC.denV_eq`).
  * the `eps` test is applied to the SCALED variances nx²·vX, ny²·vY, so it is not invariant under
    x ↦ a·x + b (they scale by a²): a run can be pushed into / out of the eps-branch by rescaling.
    This is why `autocorr_affine` carries the hypothesis on `EpsBranch`.
  * for eps ≤ 0 the model can evaluate `rsqrt 0`; over a field the product is still 0 (numerator 0),
    in floating point it would be 0·inf.  Not reachable with eps = 1e-8.
-/
namespace Hdc.C15

variable {α : Type} [Field α] [LinearOrder α] [IsStrictOrderedRing α]

/-! ### Specification -/

/-- the lagged vectors: X = data[:-1], Y = data[1:] -/
def X (data : List (Option α)) : List (Option α) := data.dropLast
def Y (data : List (Option α)) : List (Option α) := data.tail

/-- the valid cells of a vector -/
def valid (v : List (Option α)) : List α := v.filterMap id

/-- number of valid cells -/
def cnt (v : List (Option α)) : ℕ := (valid v).length

/-- mean of the valid cells -/
def mean (v : List (Option α)) : α := (valid v).sum / (cnt v : α)

/-- the vector with its gaps filled by the mean of its own valid cells -/
def fill (v : List (Option α)) : List α := v.map fun o => o.getD (mean v)

/-- covariance sum of the mean-filled vectors -/
def cov (U V : List (Option α)) : α :=
  (List.zipWith (fun x y => (x - mean U) * (y - mean V)) (fill U) (fill V)).sum

/-- variance sum of the mean-filled vector -/
def var (U : List (Option α)) : α := ((fill U).map fun x => (x - mean U) ^ 2).sum

/-- the pairs with both cells valid -/
def pairs (U V : List (Option α)) : List (α × α) :=
  (U.zip V).filterMap fun p =>
    match p with
    | (some x, some y) => some (x, y)
    | _ => none

def nPairs (U V : List (Option α)) : ℕ := (pairs U V).length

/-- `nx · ny · cov` — the numerator the code works with -/
def scaledCov (U V : List (Option α)) : α := (cnt U : α) * (cnt V : α) * cov U V

/-- `nx² · var` — the quantity the code compares with `eps` -/
def scaledVar (U : List (Option α)) : α := (cnt U : α) ^ 2 * var U

/-- the run returns 0 because a scaled variance is below `eps` -/
def EpsBranch (eps : α) (data : List (Option α)) : Prop :=
  scaledVar (X data) < eps ∨ scaledVar (Y data) < eps

instance (eps : α) (data : List (Option α)) : Decidable (EpsBranch eps data) := by
  unfold EpsBranch; infer_instance

/-- the hypothesis `hr`: `rsqrt` is `x ↦ x^(-1/2)` on the positive numbers -/
def IsRsqrt (rsqrt : α → α) : Prop := ∀ x, 0 < x → 0 < rsqrt x ∧ rsqrt x * rsqrt x * x = 1

/-- the affine map `x ↦ a·x + b` applied to the valid cells -/
def amap (a b : α) (data : List (Option α)) : List (Option α) :=
  data.map (Option.map fun x => a * x + b)

set_option linter.unusedSectionVars false

/-! ### Bridge to the lemma file -/

theorem pairs_eq (U V : List (Option α)) : pairs U V = StatsAC.both U V := by
  unfold pairs StatsAC.both
  congr 1

theorem valid_eq (v : List (Option α)) : valid v = v.reduceOption := rfl
theorem cnt_eq (v : List (Option α)) : cnt v = StatsAC.cntV v := rfl
theorem mean_eq (v : List (Option α)) : mean v = StatsAC.sumV v / (StatsAC.cntV v : α) := rfl

theorem scaledVar_eq (U : List (Option α)) : scaledVar U = StatsAC.denV U := by
  by_cases h : StatsAC.cntV U = 0
  · simp [scaledVar, StatsAC.denV, cnt_eq, h]
  · rw [StatsAC.denV_eq U h]; rfl

theorem scaledCov_eq (U V : List (Option α)) (hU : cnt U ≠ 0) (hV : cnt V ≠ 0) :
    scaledCov U V = StatsAC.numA U V := by
  rw [StatsAC.numA_eq U V hU hV]; rfl

theorem cnt_ne_zero_of_pairs (U V : List (Option α)) (h : nPairs U V ≠ 0) :
    cnt U ≠ 0 ∧ cnt V ≠ 0 := by
  unfold nPairs at h; rw [pairs_eq] at h
  exact StatsAC.cntV_ne_zero_of_both U V h

/-! ### 1. the accumulators -/

theorem acAccum_spec (data : List (Option α)) :
    acAccum data ACSums.zero =
      { sxy := ((pairs (X data) (Y data)).map fun p => p.1 * p.2).sum
        sx_ := ((pairs (X data) (Y data)).map Prod.fst).sum
        sy_ := ((pairs (X data) (Y data)).map Prod.snd).sum
        nxy := nPairs (X data) (Y data)
        sx := (valid (X data)).sum
        sxx := ((valid (X data)).map fun x => x * x).sum
        nx := cnt (X data)
        sy := (valid (Y data)).sum
        syy := ((valid (Y data)).map fun y => y * y).sum
        ny := cnt (Y data) } := by
  rw [StatsAC.acAccum_eq]
  simp only [ACSums.zero, Stats.nat_zero, zero_add, nPairs, pairs_eq, valid_eq, cnt, X, Y]

/-! ### 2. numerator / denominator: the value is the mean-filled Pearson correlation -/

/-- filled cells contribute nothing to the covariance sum -/
theorem cov_eq_pairs (U V : List (Option α)) :
    cov U V = ((pairs U V).map fun p => (p.1 - mean U) * (p.2 - mean V)).sum := by
  rw [pairs_eq]; exact StatsAC.sum_fill_cov (mean U) (mean V) U V

/-- filled cells contribute nothing to the variance sum -/
theorem var_eq_valid (U : List (Option α)) :
    var U = ((valid U).map fun x => (x - mean U) ^ 2).sum :=
  StatsAC.sum_fill_var (mean U) U

/-- complete description of the model in terms of the specification quantities -/
theorem autocorr_eq_spec (rsqrt : α → α) (eps : α) (data : List (Option α)) :
    autocorr1d rsqrt eps data =
      if nPairs (X data) (Y data) = 0 then 0
      else if EpsBranch eps data then 0
      else scaledCov (X data) (Y data) * rsqrt (scaledVar (X data)) * rsqrt (scaledVar (Y data)) := by
  rw [StatsAC.autocorr1d_eq]
  by_cases h : nPairs (X data) (Y data) = 0
  · have h' : (StatsAC.both data.dropLast data.tail).length = 0 := by
      rw [← pairs_eq]; exact h
    rw [if_pos h, if_pos h']
  · have h' : ¬ (StatsAC.both data.dropLast data.tail).length = 0 := by
      rw [← pairs_eq]; exact h
    obtain ⟨hx, hy⟩ := cnt_ne_zero_of_pairs _ _ h
    rw [if_neg h, if_neg h', scaledCov_eq _ _ hx hy]
    simp only [EpsBranch, scaledVar_eq, X, Y]

theorem autocorr_num_den (rsqrt : α → α) (eps : α) (data : List (Option α))
    (hn : nPairs (X data) (Y data) ≠ 0) (he : ¬ EpsBranch eps data) :
    autocorr1d rsqrt eps data =
      scaledCov (X data) (Y data) * rsqrt (scaledVar (X data)) * rsqrt (scaledVar (Y data)) := by
  rw [autocorr_eq_spec, if_neg hn, if_neg he]

theorem var_nonneg (U : List (Option α)) : 0 ≤ var U := by
  refine List.sum_nonneg ?_
  simp only [List.mem_map]
  rintro _ ⟨x, _, rfl⟩
  exact sq_nonneg _

theorem scaledVar_nonneg (U : List (Option α)) : 0 ≤ scaledVar U :=
  mul_nonneg (sq_nonneg _) (var_nonneg U)

/-- Cauchy–Schwarz for the mean-filled vectors -/
theorem cov_sq_le (U V : List (Option α)) : cov U V ^ 2 ≤ var U * var V := by
  have h := StatsAC.cauchy_schwarz_zipWith ((fill U).map fun x => x - mean U)
    ((fill V).map fun y => y - mean V)
  rw [List.zipWith_map, List.map_map, List.map_map] at h
  exact h

theorem scaledCov_sq_le (U V : List (Option α)) :
    scaledCov U V ^ 2 ≤ scaledVar U * scaledVar V := by
  have h := cov_sq_le U V
  have hn : (0 : α) ≤ ((cnt U : α) * (cnt V : α)) ^ 2 := sq_nonneg _
  calc scaledCov U V ^ 2 = ((cnt U : α) * (cnt V : α)) ^ 2 * cov U V ^ 2 := by
        unfold scaledCov; ring
    _ ≤ ((cnt U : α) * (cnt V : α)) ^ 2 * (var U * var V) := mul_le_mul_of_nonneg_left h hn
    _ = scaledVar U * scaledVar V := by unfold scaledVar; ring

/-- the three facts about the non-degenerate value, in scaled form -/
theorem autocorr_scaled_facts (rsqrt : α → α) (hr : IsRsqrt rsqrt) (eps : α)
    (data : List (Option α)) (hn : nPairs (X data) (Y data) ≠ 0) (he : ¬ EpsBranch eps data) :
    autocorr1d rsqrt eps data ^ 2 * (scaledVar (X data) * scaledVar (Y data))
        = scaledCov (X data) (Y data) ^ 2 ∧
    autocorr1d rsqrt eps data ^ 2 ≤ 1 ∧
    SignType.sign (autocorr1d rsqrt eps data) = SignType.sign (scaledCov (X data) (Y data)) := by
  rw [autocorr_num_den rsqrt eps data hn he]
  exact StatsAC.value_facts rsqrt hr _ _ _ (scaledVar_nonneg _) (scaledVar_nonneg _)
    (scaledCov_sq_le _ _)

/-- squared identity: `r² · (vX · vY) = cov²` -/
theorem autocorr_sq (rsqrt : α → α) (hr : IsRsqrt rsqrt) (eps : α) (data : List (Option α))
    (hn : nPairs (X data) (Y data) ≠ 0) (he : ¬ EpsBranch eps data) :
    autocorr1d rsqrt eps data ^ 2 * (var (X data) * var (Y data)) = cov (X data) (Y data) ^ 2 := by
  obtain ⟨hx, hy⟩ := cnt_ne_zero_of_pairs _ _ hn
  have hx' : (cnt (X data) : α) ≠ 0 := Nat.cast_ne_zero.2 hx
  have hy' : (cnt (Y data) : α) ≠ 0 := Nat.cast_ne_zero.2 hy
  have h := (autocorr_scaled_facts rsqrt hr eps data hn he).1
  unfold scaledVar scaledCov at h
  have hk : ((cnt (X data) : α) * (cnt (Y data) : α)) ^ 2 ≠ 0 := pow_ne_zero _ (mul_ne_zero hx' hy')
  apply mul_left_cancel₀ hk
  linear_combination h

/-- the sign of the value is the sign of the covariance -/
theorem autocorr_sign (rsqrt : α → α) (hr : IsRsqrt rsqrt) (eps : α) (data : List (Option α))
    (hn : nPairs (X data) (Y data) ≠ 0) (he : ¬ EpsBranch eps data) :
    SignType.sign (autocorr1d rsqrt eps data) = SignType.sign (cov (X data) (Y data)) := by
  obtain ⟨hx, hy⟩ := cnt_ne_zero_of_pairs _ _ hn
  have hx' : (0 : α) < (cnt (X data) : α) := Nat.cast_pos.2 (Nat.pos_of_ne_zero hx)
  have hy' : (0 : α) < (cnt (Y data) : α) := Nat.cast_pos.2 (Nat.pos_of_ne_zero hy)
  rw [(autocorr_scaled_facts rsqrt hr eps data hn he).2.2]
  unfold scaledCov
  rw [sign_mul, sign_pos (mul_pos hx' hy'), one_mul]

/-- with any square root `s` of `vX · vY`: the value is `cov / s`, the Pearson correlation of the
    mean-filled vectors -/
theorem autocorr_pearson (rsqrt : α → α) (hr : IsRsqrt rsqrt) (eps : α) (data : List (Option α))
    (hn : nPairs (X data) (Y data) ≠ 0) (he : ¬ EpsBranch eps data)
    (s : α) (hs : 0 < s) (hss : s * s = var (X data) * var (Y data)) :
    autocorr1d rsqrt eps data = cov (X data) (Y data) / s := by
  have hsq := autocorr_sq rsqrt hr eps data hn he
  have hsg := autocorr_sign rsqrt hr eps data hn he
  rw [← hss] at hsq
  rw [eq_div_iff hs.ne']
  set r := autocorr1d rsqrt eps data
  set c := cov (X data) (Y data)
  have h2 : (r * s) ^ 2 = c ^ 2 := by rw [← hsq]; ring
  have hsg' : SignType.sign (r * s) = SignType.sign c := by
    rw [sign_mul, sign_pos hs, mul_one, hsg]
  rcases sq_eq_sq_iff_eq_or_eq_neg.1 h2 with h | h
  · exact h
  · -- r·s = −c together with equal signs forces both to be 0
    rw [h, Left.sign_neg] at hsg'
    have hc : c = 0 := by
      rcases lt_trichotomy c 0 with hc | hc | hc
      · rw [sign_neg hc] at hsg'; exact absurd hsg' (by decide)
      · exact hc
      · rw [sign_pos hc] at hsg'; exact absurd hsg' (by decide)
    rw [h, hc, neg_zero]

/-! ### 3. range -/

theorem autocorr_range (rsqrt : α → α) (hr : IsRsqrt rsqrt) (eps : α) (data : List (Option α)) :
    -1 ≤ autocorr1d rsqrt eps data ∧ autocorr1d rsqrt eps data ≤ 1 := by
  by_cases hn : nPairs (X data) (Y data) = 0
  · rw [autocorr_eq_spec, if_pos hn]; constructor <;> norm_num
  by_cases he : EpsBranch eps data
  · rw [autocorr_eq_spec, if_neg hn, if_pos he]; constructor <;> norm_num
  have h := (autocorr_scaled_facts rsqrt hr eps data hn he).2.1
  rw [sq_le_one_iff_abs_le_one] at h
  exact abs_le.1 h

/-! ### 4. degenerate inputs -/

theorem autocorr_degenerate_nopair (rsqrt : α → α) (eps : α) (data : List (Option α))
    (h : nPairs (X data) (Y data) = 0) : autocorr1d rsqrt eps data = 0 := by
  rw [autocorr_eq_spec, if_pos h]

theorem autocorr_degenerate_eps (rsqrt : α → α) (eps : α) (data : List (Option α))
    (h : EpsBranch eps data) : autocorr1d rsqrt eps data = 0 := by
  rw [autocorr_eq_spec, if_pos h]; split_ifs <;> rfl

theorem scaledVar_const (U : List (Option α)) (c : α) (h : ∀ x ∈ valid U, x = c) :
    scaledVar U = 0 := by
  rw [scaledVar_eq]; exact StatsAC.denV_const U c h

theorem autocorr_degenerate_constX (rsqrt : α → α) (eps : α) (heps : 0 < eps)
    (data : List (Option α)) (c : α) (h : ∀ x ∈ valid (X data), x = c) :
    autocorr1d rsqrt eps data = 0 :=
  autocorr_degenerate_eps rsqrt eps data (Or.inl (by rw [scaledVar_const _ c h]; exact heps))

theorem autocorr_degenerate_constY (rsqrt : α → α) (eps : α) (heps : 0 < eps)
    (data : List (Option α)) (c : α) (h : ∀ y ∈ valid (Y data), y = c) :
    autocorr1d rsqrt eps data = 0 :=
  autocorr_degenerate_eps rsqrt eps data (Or.inr (by rw [scaledVar_const _ c h]; exact heps))

/-- all valid cells of the series equal -/
theorem autocorr_degenerate_const (rsqrt : α → α) (eps : α) (heps : 0 < eps)
    (data : List (Option α)) (c : α) (h : ∀ x, some x ∈ data → x = c) :
    autocorr1d rsqrt eps data = 0 := by
  refine autocorr_degenerate_constX rsqrt eps heps data c (fun x hx => h x ?_)
  rw [valid_eq, List.reduceOption_mem_iff] at hx
  exact List.dropLast_subset _ hx

/-- short series have no pair -/
theorem nPairs_short (data : List (Option α)) (h : data.length ≤ 1) :
    nPairs (X data) (Y data) = 0 := by
  match data, h with
  | [], _ => rfl
  | [_], _ => rfl

/-- the bundle -/
theorem autocorr_degenerate (rsqrt : α → α) (eps : α) (data : List (Option α)) :
    (nPairs (X data) (Y data) = 0 → autocorr1d rsqrt eps data = 0) ∧
    (scaledVar (X data) < eps ∨ scaledVar (Y data) < eps → autocorr1d rsqrt eps data = 0) ∧
    (0 < eps → ∀ c, (∀ x ∈ valid (X data), x = c) → autocorr1d rsqrt eps data = 0) ∧
    (0 < eps → ∀ c, (∀ y ∈ valid (Y data), y = c) → autocorr1d rsqrt eps data = 0) ∧
    (data.length ≤ 1 → autocorr1d rsqrt eps data = 0) :=
  ⟨autocorr_degenerate_nopair rsqrt eps data,
   autocorr_degenerate_eps rsqrt eps data,
   fun heps c h => autocorr_degenerate_constX rsqrt eps heps data c h,
   fun heps c h => autocorr_degenerate_constY rsqrt eps heps data c h,
   fun h => autocorr_degenerate_nopair rsqrt eps data (nPairs_short data h)⟩

/-! ### 5. affine invariance -/

theorem X_amap (a b : α) (data : List (Option α)) :
    X (amap a b data) = (X data).map (Option.map fun x => a * x + b) := by
  simp [X, amap, List.map_dropLast]

theorem Y_amap (a b : α) (data : List (Option α)) :
    Y (amap a b data) = (Y data).map (Option.map fun x => a * x + b) := by
  simp [Y, amap, List.map_tail]

theorem scaledVar_amap (a b : α) (data : List (Option α)) :
    scaledVar (X (amap a b data)) = a ^ 2 * scaledVar (X data) ∧
    scaledVar (Y (amap a b data)) = a ^ 2 * scaledVar (Y data) := by
  rw [X_amap, Y_amap]
  simp only [scaledVar_eq, StatsAC.denV_affine, and_self]

theorem nPairs_amap (a b : α) (data : List (Option α)) :
    nPairs (X (amap a b data)) (Y (amap a b data)) = nPairs (X data) (Y data) := by
  rw [X_amap, Y_amap]
  simp only [nPairs, pairs_eq, StatsAC.both_map, List.length_map]

theorem autocorr_affine (rsqrt : α → α) (eps : α) (data : List (Option α)) (a b : α)
    (ha : 0 < a) (hh : ∀ x, 0 < x → rsqrt (a ^ 2 * x) = rsqrt x / a)
    (hb : EpsBranch eps (amap a b data) ↔ EpsBranch eps data) :
    autocorr1d rsqrt eps (amap a b data) = autocorr1d rsqrt eps data := by
  rw [autocorr_eq_spec rsqrt eps (amap a b data), autocorr_eq_spec rsqrt eps data, nPairs_amap]
  by_cases hn : nPairs (X data) (Y data) = 0
  · simp only [if_pos hn]
  simp only [if_neg hn]
  by_cases he : EpsBranch eps data
  · rw [if_pos he, if_pos (hb.2 he)]
  rw [if_neg he, if_neg (fun h => he (hb.1 h))]
  obtain ⟨hx, hy⟩ := cnt_ne_zero_of_pairs _ _ hn
  have hn' : nPairs (X (amap a b data)) (Y (amap a b data)) ≠ 0 := by rw [nPairs_amap]; exact hn
  obtain ⟨hx', hy'⟩ := cnt_ne_zero_of_pairs _ _ hn'
  have hA : scaledCov (X (amap a b data)) (Y (amap a b data))
      = a ^ 2 * scaledCov (X data) (Y data) := by
    rw [scaledCov_eq _ _ hx' hy', scaledCov_eq _ _ hx hy, X_amap, Y_amap, StatsAC.numA_affine]
  rw [hA, (scaledVar_amap a b data).1, (scaledVar_amap a b data).2]
  have hCS := scaledCov_sq_le (X data) (Y data)
  by_cases h0 : scaledVar (X data) * scaledVar (Y data) = 0
  · have hA0 : scaledCov (X data) (Y data) = 0 := by
      have : scaledCov (X data) (Y data) ^ 2 = 0 := le_antisymm (h0 ▸ hCS) (sq_nonneg _)
      exact (pow_eq_zero_iff two_ne_zero).1 this
    rw [hA0]; ring
  · have hvx : 0 < scaledVar (X data) :=
      lt_of_le_of_ne (scaledVar_nonneg _) (fun h => h0 (by rw [← h, zero_mul]))
    have hvy : 0 < scaledVar (Y data) :=
      lt_of_le_of_ne (scaledVar_nonneg _) (fun h => h0 (by rw [← h, mul_zero]))
    rw [hh _ hvx, hh _ hvy]
    field_simp

/-- the form asked for: neither run takes the eps-branch -/
theorem autocorr_affine' (rsqrt : α → α) (eps : α) (data : List (Option α)) (a b : α)
    (ha : 0 < a) (hh : ∀ x, 0 < x → rsqrt (a ^ 2 * x) = rsqrt x / a)
    (h1 : ¬ EpsBranch eps data) (h2 : ¬ EpsBranch eps (amap a b data)) :
    autocorr1d rsqrt eps (amap a b data) = autocorr1d rsqrt eps data :=
  autocorr_affine rsqrt eps data a b ha hh ⟨fun h => absurd h h2, fun h => absurd h h1⟩

/-! ### 6. encoding (remark)

`autocorr1d` takes a `List (Option α)` and nothing else, so its value cannot depend on how the
caller encoded missing cells: the int path (`nodata` sentinel) and the float path (NaN) of the
Python source both decode their input to this list (`none` = missing) before the model applies.
The correspondence of the two decoders to the Python code is checked on the Python side (harness);
on the Lean side the statement is the congruence below. -/
theorem autocorr_encoding {β : Type} (rsqrt : α → α) (eps : α) (enc₁ enc₂ : β → Option α)
    (raw₁ raw₂ : List β) (h : raw₁.map enc₁ = raw₂.map enc₂) :
    autocorr1d rsqrt eps (raw₁.map enc₁) = autocorr1d rsqrt eps (raw₂.map enc₂) := by
  rw [h]

/-! ### Non-vacuity

`IsRsqrt` cannot be met by a function ℚ → ℚ (it would give a rational square root of 2), so the
examples come in two groups: concrete rational data on which every specification quantity and
the branch conditions are evaluated (`rsqrt` arbitrary), and the real numbers with
`rsqrt x = (√x)⁻¹`, where `IsRsqrt`, the homogeneity hypothesis of `autocorr_affine` and all
hypotheses of `autocorr_pearson` are met simultaneously. -/

/-- a series with a gap: X = [1, 2, –, 4], Y = [2, –, 4, 3] -/
def d1 : List (Option ℚ) := [some 1, some 2, none, some 4, some 3]

example : X d1 = [some 1, some 2, none, some 4] := rfl
example : Y d1 = [some 2, none, some 4, some 3] := rfl
example : valid (X d1) = [1, 2, 4] := rfl
example : valid (Y d1) = [2, 4, 3] := rfl
example : pairs (X d1) (Y d1) = [(1, 2), (4, 3)] := rfl
example : nPairs (X d1) (Y d1) = 2 := rfl
section
local macro "ev" : tactic =>
  `(tactic| norm_num [scaledCov, scaledVar, cov, var, fill, mean, valid, cnt, List.filterMap_cons,
      X, Y, d1])

example : mean (X d1) = 7 / 3 := by ev
example : mean (Y d1) = 3 := by ev
example : fill (X d1) = [1, 2, 7 / 3, 4] := by ev
example : fill (Y d1) = [2, 3, 4, 3] := by ev
example : cov (X d1) (Y d1) = 4 / 3 := by ev
example : var (X d1) = 14 / 3 := by ev
example : var (Y d1) = 2 := by ev
theorem d1_scaledCov : scaledCov (X d1) (Y d1) = 12 := by ev
theorem d1_scaledVarX : scaledVar (X d1) = 42 := by ev
theorem d1_scaledVarY : scaledVar (Y d1) = 18 := by ev
end

theorem d1_nondegenerate : nPairs (X d1) (Y d1) ≠ 0 ∧ ¬ EpsBranch (1 / 10 ^ 8) d1 := by
  refine ⟨by decide, ?_⟩
  unfold EpsBranch
  rw [d1_scaledVarX, d1_scaledVarY]
  norm_num

/-- the non-degenerate branch on concrete data, for every `rsqrt` -/
example (rsqrt : ℚ → ℚ) :
    autocorr1d rsqrt (1 / 10 ^ 8) d1 = 12 * rsqrt 42 * rsqrt 18 := by
  rw [autocorr_num_den rsqrt _ d1 d1_nondegenerate.1 d1_nondegenerate.2,
    d1_scaledCov, d1_scaledVarX, d1_scaledVarY]

/-- the degenerate branches on concrete data -/
example (rsqrt : ℚ → ℚ) : autocorr1d rsqrt (1 / 10 ^ 8) [some 5, none, some 7] = 0 :=
  autocorr_degenerate_nopair rsqrt _ _ (by decide)
example (rsqrt : ℚ → ℚ) : autocorr1d rsqrt (1 / 10 ^ 8) [some 5, some 5, none, some 5] = 0 :=
  autocorr_degenerate_const rsqrt _ (by norm_num) _ 5 (by
    intro x hx
    simp only [List.mem_cons, Option.some.injEq, reduceCtorEq, List.not_mem_nil, or_false,
      false_or] at hx
    rcases hx with rfl | rfl | rfl <;> rfl)

/-- the real inverse square root -/
noncomputable def rsqrtR (x : ℝ) : ℝ := (Real.sqrt x)⁻¹

/-- `hr` is satisfiable -/
theorem isRsqrt_rsqrtR : IsRsqrt rsqrtR := by
  intro x hx
  have h : 0 < Real.sqrt x := Real.sqrt_pos.2 hx
  refine ⟨inv_pos.2 h, ?_⟩
  unfold rsqrtR
  have h2 : Real.sqrt x * Real.sqrt x = x := Real.mul_self_sqrt hx.le
  field_simp
  linarith

/-- the homogeneity hypothesis `hh` of `autocorr_affine` is satisfiable (every a > 0) -/
theorem rsqrtR_homogeneous (a : ℝ) (ha : 0 < a) :
    ∀ x, 0 < x → rsqrtR (a ^ 2 * x) = rsqrtR x / a := by
  intro x _
  unfold rsqrtR
  rw [Real.sqrt_mul (sq_nonneg a), Real.sqrt_sq ha.le, mul_inv, div_eq_inv_mul]

/-- a full series over ℝ -/
def d2 : List (Option ℝ) := [some 1, some 2, some 4]

section
local macro "ev" : tactic =>
  `(tactic| norm_num [scaledCov, scaledVar, cov, var, fill, mean, valid, cnt, List.filterMap_cons,
      X, Y, d2])

theorem d2_cov : cov (X d2) (Y d2) = 1 := by ev
theorem d2_varX : var (X d2) = 1 / 2 := by ev
theorem d2_varY : var (Y d2) = 2 := by ev
theorem d2_scaledVarX : scaledVar (X d2) = 2 := by ev
theorem d2_scaledVarY : scaledVar (Y d2) = 8 := by ev
end

theorem d2_nondegenerate : nPairs (X d2) (Y d2) ≠ 0 ∧ ¬ EpsBranch (1 / 10 ^ 8) d2 := by
  refine ⟨by simp [nPairs, pairs, X, Y, d2], ?_⟩
  unfold EpsBranch
  rw [d2_scaledVarX, d2_scaledVarY]
  norm_num

/-- all hypotheses of `autocorr_pearson` hold together: X = [1,2], Y = [2,4] are perfectly
    correlated and the model returns exactly 1 -/
example : autocorr1d rsqrtR (1 / 10 ^ 8) d2 = 1 := by
  rw [autocorr_pearson rsqrtR isRsqrt_rsqrtR _ d2 d2_nondegenerate.1 d2_nondegenerate.2 1
    one_pos (by rw [d2_varX, d2_varY]; norm_num), d2_cov]
  norm_num

/-- the range statement, met with equality at the upper end -/
example : autocorr1d rsqrtR (1 / 10 ^ 8) d2 ≤ 1 :=
  (autocorr_range rsqrtR isRsqrt_rsqrtR _ d2).2

/-- all hypotheses of `autocorr_affine'` hold together (a = 3, b = −7) -/
example : autocorr1d rsqrtR (1 / 10 ^ 8) (amap 3 (-7) d2) = autocorr1d rsqrtR (1 / 10 ^ 8) d2 := by
  refine autocorr_affine' rsqrtR _ d2 3 (-7) (by norm_num) (rsqrtR_homogeneous 3 (by norm_num))
    d2_nondegenerate.2 ?_
  unfold EpsBranch
  rw [(scaledVar_amap 3 (-7) d2).1, (scaledVar_amap 3 (-7) d2).2, d2_scaledVarX, d2_scaledVarY]
  norm_num

end Hdc.C15
