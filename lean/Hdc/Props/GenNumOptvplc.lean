import Hdc.Lemmas.GenNum
import Hdc.Gen.NumWs2doptvplc
import Hdc.Lemmas.GenNumOptvp
import Std.Tactic.Do
/-
GenNumOptvplc  The GENERATED translation of `hdc/algo/ops/ws2doptvplc.py::ws2doptvplc` (Hdc/Gen/NumWs2doptvplc.lean, an
imperative `Id.run do` program over an abstract carrier `α`, regenerated from the Python source by
harness/py2lean_optvp.py) computes the hand model `Hdc.optvplc`.

  gen_ws2doptvplc_eq_model                      = Hdc.optvplc (curve rounded, λ) / pass-through
  gen_ws2doptvplc_some, gen_ws2doptvplc_none    the same as equations between the returned arrays

The two things of the source that are outside the carrier conventions are PARAMETERS of the generated program, and the
theorem holds for every value of them: `np.arange` (`arange : α → α → α → Array α`; the model takes the three grids
as lists: they are `arange (-2) 1.2 0.2`, `arange 0 3.2 0.2`, `arange (-1) 1.2 0.2`) and the comparison `lc <= 0.5`
(`le : α → α → Bool`; the model takes the two tests `lc > 0.5`, `lc <= 0.5` as independent Booleans, so that the NaN
case - neither holds - is covered: third grid).  The float literals 0.5, 1.2, 0.2, 3.2 are parameters as everywhere.

Method: as for ws2doptvp (Hdc/Props/GenNumOptvp.lean).  The verification-condition generator inlines the code after
the `if lc > 0.5 … elif … else …` into each of its three branches, so every loop after it occurs three times; the copies
take the same invariants, stated over the grid of their branch (`g1`, `g2`, `g3`).
-/
namespace Hdc.GenNum
open Hdc Hdc.Gen.NumKernels Std.Do
open Hdc.Ws2dGen (av Holds)
open Hdc.Ws2d (fnl)

set_option mvcgen.warning false
set_option linter.unusedSimpArgs false
set_option linter.unusedTactic false
set_option linter.unreachableTactic false

section optvplc
variable {α : Type} [Field α] [LinearOrder α] [IsStrictOrderedRing α]

set_option maxHeartbeats 1600000 in
/-- The translated `ws2doptvplc` equals the hand model `Hdc.optvplc` (missing-cell test `x == nodata`), for every
    `arange` and every `le`: the grid is `arange(-2, 1.2, 0.2)` when `lc > 0.5`, `arange(0, 3.2, 0.2)` when `lc <= 0.5`,
    `arange(-1, 1.2, 0.2)` otherwise; then as `ws2doptvp`.

    Hypotheses: the shapes the gufunc signature `(n),(),(),() -> (n),()` guarantees (`out` has the length of `y`, `lopt`
    is a one-cell buffer); and, only when at least two cells are valid: `3 ≤ len(y)` (what the translated `ws2d` needs)
    and at least 2 points in the selected grid (with NumPy's `arange` the grids have 16, 16 and 11 points). -/
theorem gen_ws2doptvplc_eq_model (F : VFns α) (rnd : α → α) (le : α → α → Bool)
    (arange : α → α → α → Array α) (c0_5 c1_2 c0_2 c3_2 : α) (y : List α) (nodata p lc : α)
    (out0 lopt0 : Array α) (ho : out0.size = y.length) (hl : lopt0.size = 1)
    (hc : 1 < countValid (missNd nodata) y → 3 ≤ y.length ∧
      2 ≤ (if decide (c0_5 < lc) then (arange (-(nat 2)) c1_2 c0_2).toList
           else if le lc c0_5 then (arange (nat 0) c3_2 c0_2).toList
           else (arange (-(nat 1)) c1_2 c0_2).toList).length) :
    match Hdc.optvplc F (fun x => eqv x nodata) y p (decide (c0_5 < lc)) (le lc c0_5)
        (arange (-(nat 2)) c1_2 c0_2).toList (arange (nat 0) c3_2 c0_2).toList
        (arange (-(nat 1)) c1_2 c0_2).toList with
    | some (z, lo) =>
      (Gen.NumKernels.ws2doptvplc F rnd le arange c0_5 c1_2 c0_2 c3_2 y.toArray nodata p lc out0
          lopt0).1.toList = z.map rnd ∧
      (Gen.NumKernels.ws2doptvplc F rnd le arange c0_5 c1_2 c0_2 c3_2 y.toArray nodata p lc out0
          lopt0).2.toList = [lo]
    | none =>
      (Gen.NumKernels.ws2doptvplc F rnd le arange c0_5 c1_2 c0_2 c3_2 y.toArray nodata p lc out0
          lopt0).1.toList = y ∧
      (Gen.NumKernels.ws2doptvplc F rnd le arange c0_5 c1_2 c0_2 c3_2 y.toArray nodata p lc out0
          lopt0).2.toList = [0] := by
  -- the three grids as lists
  obtain ⟨g1, hg1⟩ : ∃ g : List α, arange (-(nat 2)) c1_2 c0_2 = g.toArray :=
    ⟨_, Array.toArray_toList.symm⟩
  obtain ⟨g2, hg2⟩ : ∃ g : List α, arange (nat 0) c3_2 c0_2 = g.toArray :=
    ⟨_, Array.toArray_toList.symm⟩
  obtain ⟨g3, hg3⟩ : ∃ g : List α, arange (-(nat 1)) c1_2 c0_2 = g.toArray :=
    ⟨_, Array.toArray_toList.symm⟩
  generalize hres : Gen.NumKernels.ws2doptvplc F rnd le arange c0_5 c1_2 c0_2 c3_2 y.toArray nodata p lc
    out0 lopt0 = res
  apply Id.of_wp_run_eq hres
  mvcgen
  -- weights loop, state `(w, n)`
  case inv1 => exact ⇓⟨xs, s⟩ => ⌜WInv nodata y xs.prefix.length s.1 s.2⌝
  -- λ grid, state `(i, j, fits, pens, z, znew, diff1, wa, ww, lmda, z_tmp, w_tmp, y_tmp, z2)`
  case inv2 =>
    exact ⇓⟨xs, s⟩ => ⌜SweepP F (weightsOf (missNd nodata) y) y p g1 xs.prefix.length s.2.2.1
      s.2.2.2.1 s.2.2.2.2.1 s.2.2.2.2.2.1 s.2.2.2.2.2.2.1 s.2.2.2.2.2.2.2.1 s.2.2.2.2.2.2.2.2.1⌝
  case inv14 =>
    exact ⇓⟨xs, s⟩ => ⌜SweepP F (weightsOf (missNd nodata) y) y p g2 xs.prefix.length s.2.2.1
      s.2.2.2.1 s.2.2.2.2.1 s.2.2.2.2.2.1 s.2.2.2.2.2.2.1 s.2.2.2.2.2.2.2.1 s.2.2.2.2.2.2.2.2.1⌝
  case inv26 =>
    exact ⇓⟨xs, s⟩ => ⌜SweepP F (weightsOf (missNd nodata) y) y p g3 xs.prefix.length s.2.2.1
      s.2.2.2.1 s.2.2.2.2.1 s.2.2.2.2.2.1 s.2.2.2.2.2.2.1 s.2.2.2.2.2.2.2.1 s.2.2.2.2.2.2.2.2.1⌝
  -- re-weighting loop, state `(i, j, z, znew, wa, ww, z_tmp, y_tmp)`
  case inv3 | inv15 | inv27 =>
    py_name z as z0; py_name lmda as lam
    exact ⇓⟨xs, s⟩ => ⌜IInv y (weightsOf (missNd nodata) y) lam p
      (irls y (weightsOf (missNd nodata) y) lam p 10 z0.toList (zerosLike y)) xs.prefix.length
      s.2.2.1 s.2.2.2.1 s.2.2.2.2.1 s.2.2.2.2.2.1⌝
  -- `wa[j] = …; ww[j] = w[j] * wa[j]`, state `(j, wa, ww, z_tmp, y_tmp)`
  case inv4 | inv16 | inv28 | inv12 | inv24 | inv36 =>
    py_name z as zc
    exact ⇓⟨xs, s⟩ => ⌜AWInv p (weightsOf (missNd nodata) y) y zc.toList xs.prefix.length s.2.1 s.2.2.1⌝
  -- `z_tmp += abs(znew[j] - z[j])`, state `(j, z_tmp)`
  case inv5 | inv17 | inv29 | inv13 | inv25 | inv37 =>
    py_name z as zc; py_name znew as zn
    exact ⇓⟨xs, s⟩ => ⌜L1Inv zn.toList zc.toList xs.prefix.length s.2⌝
  -- `fits[lix] += …`, state `(i, fits, z_tmp, w_tmp, y_tmp)`
  case inv6 | inv18 | inv30 =>
    py_name fits as fits0; py_name cur as k; py_name z as zc
    exact ⇓⟨xs, s⟩ => ⌜AccInv fits0 s.2.1 k.toNat (fitTerms (weightsOf (missNd nodata) y) y zc.toList)
      xs.prefix.length⌝
  -- `diff1[i] = z[i+1] - z[i]`, state `(i, diff1, z_tmp, z2)`
  case inv7 | inv19 | inv31 =>
    py_name z as zc
    exact ⇓⟨xs, s⟩ => ⌜Holds (y.length - 1) (fnl (diffs zc.toList)) xs.prefix.length s.2.1⌝
  -- `pens[lix] += …`, state `(i, pens, z_tmp, z2)`
  case inv8 | inv20 | inv32 =>
    py_name pens as pens0; py_name cur as k; py_name z as zc
    exact ⇓⟨xs, s⟩ => ⌜AccInv pens0 s.2.1 k.toNat (penTerms zc.toList) xs.prefix.length⌝
  -- V-curve, state `(i, lamids, v, l1, l2, fit1, fit2, pen1, pen2)`
  case inv9 =>
    exact ⇓⟨xs, s⟩ => ⌜VInvG F g1 (fG F (weightsOf (missNd nodata) y) y p g1)
      (pG F (weightsOf (missNd nodata) y) y p g1) xs.prefix.length s.2.1 s.2.2.1⌝
  case inv21 =>
    exact ⇓⟨xs, s⟩ => ⌜VInvG F g2 (fG F (weightsOf (missNd nodata) y) y p g2)
      (pG F (weightsOf (missNd nodata) y) y p g2) xs.prefix.length s.2.1 s.2.2.1⌝
  case inv33 =>
    exact ⇓⟨xs, s⟩ => ⌜VInvG F g3 (fG F (weightsOf (missNd nodata) y) y p g3)
      (pG F (weightsOf (missNd nodata) y) y p g3) xs.prefix.length s.2.1 s.2.2.1⌝
  -- first strict minimum, state `(i, k, vmin)`
  case inv10 =>
    exact ⇓⟨xs, s⟩ => ⌜ArgInvG F g1 (fG F (weightsOf (missNd nodata) y) y p g1)
      (pG F (weightsOf (missNd nodata) y) y p g1) xs.prefix.length s.2.1 s.2.2⌝
  case inv22 =>
    exact ⇓⟨xs, s⟩ => ⌜ArgInvG F g2 (fG F (weightsOf (missNd nodata) y) y p g2)
      (pG F (weightsOf (missNd nodata) y) y p g2) xs.prefix.length s.2.1 s.2.2⌝
  case inv34 =>
    exact ⇓⟨xs, s⟩ => ⌜ArgInvG F g3 (fG F (weightsOf (missNd nodata) y) y p g3)
      (pG F (weightsOf (missNd nodata) y) y p g3) xs.prefix.length s.2.1 s.2.2⌝
  -- final re-weighting loop; λ is `lopt[0]`
  case inv11 | inv23 | inv35 =>
    py_name z as z0; py_name lopt as lo
    exact ⇓⟨xs, s⟩ => ⌜IInv y (weightsOf (missNd nodata) y) (rd lo 0) p
      (irls y (weightsOf (missNd nodata) y) (rd lo 0) p 10 z0.toList (zerosLike y)) xs.prefix.length
      s.2.2.1 s.2.2.2.1 s.2.2.2.2.1 s.2.2.2.2.2.1⌝
  all_goals
    pyn_ranges
    simp (config := {zetaDelta := true}) only [List.size_toArray, List.length_append,
      List.length_singleton, List.length_nil, pyRange_length, decide_eq_true_eq, gt_iff_lt,
      Int.toNat_natCast, Int.sub_zero, show Int.toNat 10 = 10 from rfl,
      rd_wr_zero lopt0 _ (by omega), hg1, hg2, hg3, List.toList_toArray, SPred.down_pure] at *
  all_goals first
    -- weights loop: nodata cell / valid cell / entry
    | exact (‹WInv _ _ _ _ _›).step_miss (by omega) ‹eqv _ _ = true› (by omega)
    | exact (‹WInv _ _ _ _ _›).step_valid (by omega) ‹¬ eqv _ _ = true› (by omega)
    | exact WInv.init nodata y
    -- fewer than two valid cells: pass-through
    | (have hnot := ‹¬ (1 : ℤ) < _›
       obtain ⟨hw, hn⟩ := (‹WInv _ _ _ _ _›).final (by omega)
       rw [optvplc_invalid F (missNd nodata) y p _ _ _ _ _ (by omega)]
       exact ⟨passthrough_eq ho rfl rfl, by rw [wr_single _ _ hl]; simp [nat]⟩)
    | skip
  -- everything else happens after the weights loop and after the choice of the grid: `w` is the model's weight
  -- vector, the `if`s of the model take the branch of the source
  all_goals
    obtain ⟨hw, hn⟩ := (‹WInv _ _ _ _ _›).final (by omega)
    have hwl : (weightsOf (missNd nodata) y).length = y.length := by simp
    have hc' := hc (by omega)
    first
      | (have hb : c0_5 < lc := by assumption
         simp only [hb, decide_true, if_true] at hc' ⊢)
      | (have hb : ¬ c0_5 < lc := by assumption
         have hb2 : le lc c0_5 = true := by assumption
         simp only [hb, hb2, decide_false, if_false, if_true, Bool.false_eq_true] at hc' ⊢)
      | (have hb : ¬ c0_5 < lc := by assumption
         have hb2 : le lc c0_5 = false := Bool.eq_false_iff.2 (by assumption)
         simp only [hb, hb2, decide_false, if_false, Bool.false_eq_true] at hc' ⊢)
    obtain ⟨h3, h2⟩ := hc'
    simp only [hw] at *
  optvp_loops hwl h3 h2
  -- after the final re-weighting loop: `z = ws2d(y, lopt[0], ww)`; `np.round(z, 0, out)`
  all_goals
    have hI := ‹IInv _ _ _ _ _ 10 _ _ _ _›
    obtain ⟨hlo, hz⟩ := final_fit ‹ArgInvG _ _ _ _ _ _ _› (by omega) ‹VInvG _ _ _ _ _ _ _› (by omega)
      ‹SweepP _ _ _ _ _ _ _ _ _ _ _ _ _› hwl h3 hI
    first
      | rw [optvplc_valid F (missNd nodata) y p true _ _ _ _ (by omega) h2]
      | rw [optvplc_valid F (missNd nodata) y p false true _ _ _ (by omega) h2]
      | rw [optvplc_valid F (missNd nodata) y p false false _ _ _ (by omega) h2]
    exact ⟨by rw [round_out rnd ho hI.wsz h3, hz]; rfl, by rw [wr_single _ _ hl, hlo]; rfl⟩

/-- the same, as an equation between the returned pair of arrays: the model selects a λ -/
theorem gen_ws2doptvplc_some (F : VFns α) (rnd : α → α) (le : α → α → Bool)
    (arange : α → α → α → Array α) (c0_5 c1_2 c0_2 c3_2 : α) (y : List α) (nodata p lc : α)
    (out0 lopt0 : Array α) (ho : out0.size = y.length) (hl : lopt0.size = 1) (h3 : 3 ≤ y.length)
    (h2 : 2 ≤ (if decide (c0_5 < lc) then (arange (-(nat 2)) c1_2 c0_2).toList
           else if le lc c0_5 then (arange (nat 0) c3_2 c0_2).toList
           else (arange (-(nat 1)) c1_2 c0_2).toList).length)
    (z : List α) (lo : α)
    (hm : Hdc.optvplc F (fun x => eqv x nodata) y p (decide (c0_5 < lc)) (le lc c0_5)
        (arange (-(nat 2)) c1_2 c0_2).toList (arange (nat 0) c3_2 c0_2).toList
        (arange (-(nat 1)) c1_2 c0_2).toList = some (z, lo)) :
    Gen.NumKernels.ws2doptvplc F rnd le arange c0_5 c1_2 c0_2 c3_2 y.toArray nodata p lc out0 lopt0
      = ((z.map rnd).toArray, #[lo]) := by
  have h := gen_ws2doptvplc_eq_model F rnd le arange c0_5 c1_2 c0_2 c3_2 y nodata p lc out0 lopt0 ho hl
    (fun _ => ⟨h3, h2⟩)
  rw [hm] at h
  dsimp only at h
  apply Prod.ext <;> apply Array.toList_inj.1
  · exact h.1
  · exact h.2

/-- … the model passes the input through (fewer than two valid cells): no condition on `len(y)` or on the grids -/
theorem gen_ws2doptvplc_none (F : VFns α) (rnd : α → α) (le : α → α → Bool)
    (arange : α → α → α → Array α) (c0_5 c1_2 c0_2 c3_2 : α) (y : List α) (nodata p lc : α)
    (out0 lopt0 : Array α) (ho : out0.size = y.length) (hl : lopt0.size = 1)
    (hv : ¬ 1 < countValid (missNd nodata) y) :
    Gen.NumKernels.ws2doptvplc F rnd le arange c0_5 c1_2 c0_2 c3_2 y.toArray nodata p lc out0 lopt0
      = (y.toArray, #[0]) := by
  have h := gen_ws2doptvplc_eq_model F rnd le arange c0_5 c1_2 c0_2 c3_2 y nodata p lc out0 lopt0 ho hl
    (fun h => absurd h hv)
  rw [optvplc_invalid F (missNd nodata) y p _ _ _ _ _ hv] at h
  dsimp only at h
  apply Prod.ext <;> apply Array.toList_inj.1
  · exact h.1
  · exact h.2

/-- a toy instance of the transcendental functions over ℚ (`10 ** x := x + 3`, positive on the grids; `ln 10 := 1`) -/
def FqL : VFns ℚ := ⟨fun x => x, fun x => x, fun x => x + 3, 1⟩

/-- a toy `arange` (three points from the start value) -/
def arQ : ℚ → ℚ → ℚ → Array ℚ := fun a _ c => #[a, a + c, a + 2 * c]

/-- non-vacuity, `lc = 0.7 > 0.5`: first grid (`-2, -1.8, -1.6`) -/
example :
    Gen.NumKernels.ws2doptvplc FqL (fun v => v) (fun a b => decide (a ≤ b)) arQ (1 / 2) (6 / 5) (1 / 5)
        (16 / 5) [1, 2, 4, 3, 5].toArray (-1) (9 / 10) (7 / 10) #[0, 0, 0, 0, 0] #[9]
      = (#[14543 / 8745, 23483 / 8745, 969 / 265, 39118 / 8745, 46078 / 8745], #[13 / 10]) := by
  rw [gen_ws2doptvplc_some FqL (fun v => v) (fun a b => decide (a ≤ b)) arQ (1 / 2) (6 / 5) (1 / 5) (16 / 5)
    [1, 2, 4, 3, 5] (-1) (9 / 10) (7 / 10) #[0, 0, 0, 0, 0] #[9] rfl rfl (by decide) (by decide +kernel)
    [14543 / 8745, 23483 / 8745, 969 / 265, 39118 / 8745, 46078 / 8745] (13 / 10) (by decide +kernel)]
  rfl

/-- `lc = 0.3 <= 0.5`: second grid (`0, 0.2, 0.4`); one nodata cell -/
example :
    Gen.NumKernels.ws2doptvplc FqL (fun v => v) (fun a b => decide (a ≤ b)) arQ (1 / 2) (6 / 5) (1 / 5)
        (16 / 5) [1, 2, -1, 3, 5].toArray (-1) (9 / 10) (3 / 10) #[0, 0, 0, 0, 0] #[9]
      = (#[17451 / 17506, 17242 / 8753, 25766 / 8753, 34377 / 8753, 86309 / 17506], #[33 / 10]) := by
  rw [gen_ws2doptvplc_some FqL (fun v => v) (fun a b => decide (a ≤ b)) arQ (1 / 2) (6 / 5) (1 / 5) (16 / 5)
    [1, 2, -1, 3, 5] (-1) (9 / 10) (3 / 10) #[0, 0, 0, 0, 0] #[9] rfl rfl (by decide) (by decide +kernel)
    [17451 / 17506, 17242 / 8753, 25766 / 8753, 34377 / 8753, 86309 / 17506] (33 / 10)
    (by decide +kernel)]
  rfl

/-- a carrier on which neither `lc > 0.5` nor `lc <= 0.5` holds (`le` constantly false, as for NaN): third grid
    (`-1, -0.8, -0.6`) -/
example :
    Gen.NumKernels.ws2doptvplc FqL (fun v => v) (fun _ _ => false) arQ (1 / 2) (6 / 5) (1 / 5)
        (16 / 5) [1, 2, -1, 3, 5].toArray (-1) (9 / 10) (3 / 10) #[0, 0, 0, 0, 0] #[9]
      = (#[81249 / 81364, 80053 / 40682, 59752 / 20341, 159513 / 40682, 401231 / 81364],
          #[23 / 10]) := by
  rw [gen_ws2doptvplc_some FqL (fun v => v) (fun _ _ => false) arQ (1 / 2) (6 / 5) (1 / 5) (16 / 5)
    [1, 2, -1, 3, 5] (-1) (9 / 10) (3 / 10) #[0, 0, 0, 0, 0] #[9] rfl rfl (by decide) (by decide +kernel)
    [81249 / 81364, 80053 / 40682, 59752 / 20341, 159513 / 40682, 401231 / 81364] (23 / 10)
    (by decide +kernel)]
  rfl

/-- a single valid cell: pass-through, `lopt = 0` -/
example :
    Gen.NumKernels.ws2doptvplc FqL (fun v => v) (fun a b => decide (a ≤ b)) arQ (1 / 2) (6 / 5) (1 / 5)
        (16 / 5) [1, -1, -1, -1, -1].toArray (-1) (9 / 10) (3 / 10) #[7, 7, 7, 7, 7] #[9]
      = (#[1, -1, -1, -1, -1], #[0]) := by
  rw [gen_ws2doptvplc_none FqL (fun v => v) (fun a b => decide (a ≤ b)) arQ (1 / 2) (6 / 5) (1 / 5) (16 / 5)
    [1, -1, -1, -1, -1] (-1) (9 / 10) (3 / 10) #[7, 7, 7, 7, 7] #[9] rfl rfl (by decide +kernel)]

end optvplc

end Hdc.GenNum
