import Hdc.Gen.SafeWs2doptvplc
import Hdc.Gen.NumWs2doptvplc
import Hdc.Lemmas.SafeOptvp
import Hdc.Lemmas.SafeSimN
import Std.Tactic.Do
import Mathlib.Tactic.CasesM
/-
SafeWs2doptvplc  Safety of `hdc/algo/ops/ws2doptvplc.py::ws2doptvplc`, proved FROM THE SOURCE: `Hdc.Gen.Safe.ws2doptvplc`
(Hdc/Gen/SafeWs2doptvplc.lean, written by harness/py2lean_optvp.py) is the statement-by-statement translation plus the
flag `bad`, set by the same checks as for `ws2doptvp` (Hdc/Props/SafeWs2doptvp.lean): `oob` for every subscript, the divisor
`log(10) * llastep`, the flag of every call of the instrumented `ws2d`, `badSlice` for `znew[0:m]`, `z[0:m]`, and the shape
checks `lenDiff` / `badStoreLen` of the slice stores and of `np.round(z, 0, out)`.  The grid `llas` is
`np.arange(a, b, c, dtype=float64)`, a PARAMETER `arange` of the translation (no check; `lc > 0.5`, `lc <= 0.5` are
comparisons of scalars: no check): the contract states what is needed of the value `arange a b c` actually used.

  safe_ws2doptvplc_fst   (Safe.ws2doptvplc …).1 = Gen.NumKernels.ws2doptvplc …       every carrier, every input
  `example`s             the flag evaluated over ℚ on inputs inside / outside the intended contract (shapes of `out`, `lopt`;
                         when two cells are valid: `3 ≤ len y`, `0 < p < 1`, `10^l > 0`, `log 10 ≠ 0`, the selected grid has
                         2 entries with `llas[1] ≠ llas[0]`).  The theorem "under the contract the flag is false" is NOT
                         proved in this file (the proof of `ws2doptvp` transfers but was not completed in the time box).
-/
namespace Hdc.SafeWs2doptvplc
open Hdc Hdc.Gen.NumKernels Hdc.GenNum Hdc.SafeL Hdc.SafeOptv Hdc.SafeOptvp Hdc.SafeSimN Std.Do
open Hdc.Ws2dGen (av Holds)
open Hdc.Ws2d (fnl)

set_option mvcgen.warning false
set_option linter.unusedSimpArgs false
set_option linter.unusedTactic false
set_option linter.unreachableTactic false
set_option linter.unusedSectionVars false

/-- (i) the instrumented program is the translated source plus a flag -/
theorem safe_ws2doptvplc_fst {α : Type} [Add α] [Sub α] [Mul α] [Div α] [Neg α] [NatCast α] [LT α] [DecidableLT α]
    (F : VFns α) (rnd : α → α) (le : α → α → Bool) (arange : α → α → α → Array α) (c0_5 c1_2 c0_2 c3_2 : α)
    (y : Array α) (nodata p lc : α) (out lopt : Array α) :
    (Gen.Safe.ws2doptvplc F rnd le arange c0_5 c1_2 c0_2 c3_2 y nodata p lc out lopt).1
      = Gen.NumKernels.ws2doptvplc F rnd le arange c0_5 c1_2 c0_2 c3_2 y nodata p lc out lopt := by
  unfold Gen.Safe.ws2doptvplc Gen.NumKernels.ws2doptvplc
  simp only [SafeWs2d.safe_ws2d_fst]
  safe_sim

/-! ### Non-vacuity and sharpness (ℚ; toy functions `log = sqrt = id`, `10^l = l² + 1`, `log 10 = 1`; `round = id`; the toy
`arange` returns `g1` for the argument triple of `lc > 0.5`, `g2` for `lc <= 0.5`, `g3` for the third branch) -/

private def Fq : VFns ℚ := ⟨fun v => v, fun v => v, fun l => l * l + 1, 1⟩
private def ar (g1 g2 g3 : Array ℚ) : ℚ → ℚ → ℚ → Array ℚ :=
  fun a _ _ => if a = -2 then g1 else if a = 0 then g2 else g3
private def leq : ℚ → ℚ → Bool := fun a b => decide (a ≤ b)
private def lv (F : VFns ℚ) (le : ℚ → ℚ → Bool) (g1 g2 g3 y : Array ℚ) (p lc : ℚ) (out lopt : Array ℚ) : Bool :=
  (Gen.Safe.ws2doptvplc F (fun v => v) le (ar g1 g2 g3) (1 / 2) (6 / 5) (1 / 5) (16 / 5) y (-3000) p lc out lopt).2

/-- inside the intended contract: 5 cells, one of them `nodata`, `lc = 3/5 > 0.5` selects the first grid (3 entries) -/
example : lv Fq leq #[0, 1, 2] #[] #[] #[1, 2, -3000, 3, 5] (9 / 10) (3 / 5) #[0, 0, 0, 0, 0] #[0] = false := by
  decide +kernel
/-- fewer than two valid cells: only the shapes of `out`, `lopt` matter -/
example : lv Fq leq #[] #[] #[] #[-3000, 2, -3000] (9 / 10) (3 / 5) #[0, 0, 0] #[0] = false := by decide +kernel
/-- the other two branches of the grid selection, inside the contract (flag evaluated) -/
example : lv Fq leq #[] #[0, 1, 2] #[] #[1, 2, -3000, 3, 5] (9 / 10) (2 / 5) #[0, 0, 0, 0, 0] #[0] = false := by decide +kernel
example : lv Fq (fun _ _ => false) #[] #[] #[0, 1, 2] #[1, 2, -3000, 3, 5] (9 / 10) (2 / 5) #[0, 0, 0, 0, 0] #[0] = false := by
  decide +kernel
/-- the selected grid needs 2 entries with `llas[1] ≠ llas[0]`: `lc > 0.5` with a one-entry first grid; `lc <= 0.5` with `llas[1] = llas[0]` in the second
    grid; neither test true with a one-entry third grid (the other two grids are fine each time) -/
example : lv Fq leq #[0] #[0, 1, 2] #[0, 1, 2] #[1, 2, -3000, 3, 5] (9 / 10) (3 / 5) #[0, 0, 0, 0, 0] #[0] = true := by
  decide +kernel
example : lv Fq leq #[0, 1, 2] #[1, 1, 2] #[0, 1, 2] #[1, 2, -3000, 3, 5] (9 / 10) (2 / 5) #[0, 0, 0, 0, 0] #[0] = true := by
  decide +kernel
example : lv Fq (fun _ _ => false) #[0, 1, 2] #[0, 1, 2] #[0] #[1, 2, -3000, 3, 5] (9 / 10) (2 / 5) #[0, 0, 0, 0, 0] #[0]
    = true := by decide +kernel
/-- `len out = len y` (both branches), `lopt` has a cell -/
example : lv Fq leq #[0, 1, 2] #[] #[] #[1, 2, -3000, 3, 5] (9 / 10) (3 / 5) #[0, 0, 0, 0] #[0] = true := by decide +kernel
example : lv Fq leq #[0, 1, 2] #[] #[] #[-3000, 2, -3000] (9 / 10) (3 / 5) #[0, 0] #[0] = true := by decide +kernel
example : lv Fq leq #[0, 1, 2] #[] #[] #[1, 2, -3000, 3, 5] (9 / 10) (3 / 5) #[0, 0, 0, 0, 0] #[] = true := by decide +kernel
/-- `0 < p`, `p < 1` -/
example : lv Fq leq #[0, 1, 2] #[] #[] #[1, 2, -3000, 3, 5] 0 (3 / 5) #[0, 0, 0, 0, 0] #[0] = true := by decide +kernel
example : lv Fq leq #[0, 1, 2] #[] #[] #[1, 2, -3000, 3, 5] 1 (3 / 5) #[0, 0, 0, 0, 0] #[0] = true := by decide +kernel
/-- `log(10) ≠ 0` and `10^l > 0` are facts about the float functions; with other parameters the flag is set -/
example : lv ⟨fun v => v, fun v => v, fun l => l * l + 1, 0⟩ leq #[0, 1, 2] #[] #[] #[1, 2, -3000, 3, 5] (9 / 10) (3 / 5)
    #[0, 0, 0, 0, 0] #[0] = true := by decide +kernel
example : lv ⟨fun v => v, fun v => v, fun _ => 0, 1⟩ leq #[0, 1, 2] #[] #[] #[1, 2, -3000, 3, 5] (9 / 10) (3 / 5)
    #[0, 0, 0, 0, 0] #[0] = true := by decide +kernel
/-- `3 ≤ len y`: with two cells (both valid) the smoother wraps its indices but no divisor vanishes on this input -/
example : lv Fq leq #[0, 1, 2] #[] #[] #[1, 2] (9 / 10) (3 / 5) #[0, 0] #[0] = false := by decide +kernel

end Hdc.SafeWs2doptvplc
