import Hdc.Gen.GlueAutocorrAcc
import Hdc.Lemmas.GenGlue
import Hdc.Model.AccPx
/-
GenGlueAutocorrAcc  The GENERATED translation of the accessor `PixelAlgorithms.autocorr` (Hdc/Gen/GlueAutocorrAcc.lean) equals the
decision model (Hdc/Model/AccPx.lean): `dims[0] == "time"` -> `autocorr_tyx` on the data with the nodata attribute (dask: time
re-chunked to ONE chunk iff there is more than one, `map_blocks` with dtype float32 and drop_axis=0), result dims = dims[1:], coords
without time; otherwise `apply_ufunc(autocorr, xx, nodata, core dim time, float32)`.  A missing nodata attribute only warns.
-/
namespace Hdc.GenGluePx
open Hdc Hdc.PyGlue Hdc.Gen.Glue Hdc.GenGlue

variable {Obj V Arr Data Coords Dims Res : Type} [Inhabited Data]

theorem gen_autocorr_acc_eq_model (obj : Obj) (an : Obj → Option V) (fd : Obj → String) (isdask : Obj → Bool)
    (nch : Obj → Int) (rechunk : Obj → Obj) (data_of : Obj → Arr) (mb : Arr → Option V → String → Int → Data)
    (call : Arr → Option V → Data) (cwt : Obj → Coords) (dt : Obj → Dims) (mkda : Data → Dims → Coords → Res)
    (ap : Obj → Option V → List String → Res) :
    autocorr_acc obj an fd isdask nch rechunk data_of mb call cwt dt mkda ap
      = .ok (match (autocorrPlan (fd obj) (isdask obj) (nch obj) (an obj)).1 with
             | .tyxEager nd => mkda (call (data_of obj) nd) (dt obj) (cwt obj)
             | .tyxDask r nd =>
               let xx := if r then rechunk obj else obj
               mkda (mb (data_of xx) nd "float32" 0) (dt xx) (cwt xx)
             | .ufunc nd => ap obj nd ["float32"],
             (autocorrPlan (fd obj) (isdask obj) (nch obj) (an obj)).2) := by
  unfold autocorr_acc autocorrPlan
  by_cases h1 : fd obj = "time" <;> cases h2 : isdask obj <;> by_cases h3 : nch obj = 1 <;> cases h4 : an obj <;>
    simp only [h1, h2, h3, h4] <;> glue_eval <;> first | rfl | simp [h1, h2, h3, h4]

/-- time first, eager: the kernel on the data with the nodata ATTRIBUTE; dims[1:], coords without time -/
theorem gen_autocorr_acc_tyx_eager (obj : Obj) (an : Obj → Option V) (fd : Obj → String) (isdask : Obj → Bool)
    (nch : Obj → Int) (rechunk : Obj → Obj) (data_of : Obj → Arr) (mb : Arr → Option V → String → Int → Data)
    (call : Arr → Option V → Data) (cwt : Obj → Coords) (dt : Obj → Dims) (mkda : Data → Dims → Coords → Res)
    (ap : Obj → Option V → List String → Res) (h1 : fd obj = "time") (h2 : isdask obj = false) :
    autocorr_acc obj an fd isdask nch rechunk data_of mb call cwt dt mkda ap
      = .ok (mkda (call (data_of obj) (an obj)) (dt obj) (cwt obj), (an obj).isNone) := by
  rw [gen_autocorr_acc_eq_model]; simp [autocorrPlan, h1, h2]

/-- time first, dask with SEVERAL time chunks: re-chunked first; everything downstream reads the re-chunked object -/
theorem gen_autocorr_acc_tyx_dask_rechunk (obj : Obj) (an : Obj → Option V) (fd : Obj → String) (isdask : Obj → Bool)
    (nch : Obj → Int) (rechunk : Obj → Obj) (data_of : Obj → Arr) (mb : Arr → Option V → String → Int → Data)
    (call : Arr → Option V → Data) (cwt : Obj → Coords) (dt : Obj → Dims) (mkda : Data → Dims → Coords → Res)
    (ap : Obj → Option V → List String → Res) (h1 : fd obj = "time") (h2 : isdask obj = true) (h3 : nch obj ≠ 1) :
    autocorr_acc obj an fd isdask nch rechunk data_of mb call cwt dt mkda ap
      = .ok (mkda (mb (data_of (rechunk obj)) (an obj) "float32" 0) (dt (rechunk obj)) (cwt (rechunk obj)), (an obj).isNone) := by
  rw [gen_autocorr_acc_eq_model]; simp [autocorrPlan, h1, h2, h3]

/-- time first, dask with ONE time chunk: no re-chunking -/
theorem gen_autocorr_acc_tyx_dask_single (obj : Obj) (an : Obj → Option V) (fd : Obj → String) (isdask : Obj → Bool)
    (nch : Obj → Int) (rechunk : Obj → Obj) (data_of : Obj → Arr) (mb : Arr → Option V → String → Int → Data)
    (call : Arr → Option V → Data) (cwt : Obj → Coords) (dt : Obj → Dims) (mkda : Data → Dims → Coords → Res)
    (ap : Obj → Option V → List String → Res) (h1 : fd obj = "time") (h2 : isdask obj = true) (h3 : nch obj = 1) :
    autocorr_acc obj an fd isdask nch rechunk data_of mb call cwt dt mkda ap
      = .ok (mkda (mb (data_of obj) (an obj) "float32" 0) (dt obj) (cwt obj), (an obj).isNone) := by
  rw [gen_autocorr_acc_eq_model]; simp [autocorrPlan, h1, h2, h3]

/-- time NOT first: apply_ufunc over the core dimension time, float32 -/
theorem gen_autocorr_acc_ufunc (obj : Obj) (an : Obj → Option V) (fd : Obj → String) (isdask : Obj → Bool)
    (nch : Obj → Int) (rechunk : Obj → Obj) (data_of : Obj → Arr) (mb : Arr → Option V → String → Int → Data)
    (call : Arr → Option V → Data) (cwt : Obj → Coords) (dt : Obj → Dims) (mkda : Data → Dims → Coords → Res)
    (ap : Obj → Option V → List String → Res) (h1 : fd obj ≠ "time") :
    autocorr_acc obj an fd isdask nch rechunk data_of mb call cwt dt mkda ap
      = .ok (ap obj (an obj) ["float32"], (an obj).isNone) := by
  rw [gen_autocorr_acc_eq_model]; simp [autocorrPlan, h1]

-- non-vacuity (dask, three time chunks, nodata attribute present: re-chunked, no warning)
example : autocorr_acc (Obj := String) (V := Int) (Arr := String) (Data := String × Option Int × String × Int) (Coords := String)
    (Dims := String) (Res := (String × Option Int × String × Int) × String × String)
    "x" (fun _ => some 0) (fun _ => "time") (fun _ => true) (fun _ => 3) (fun o => o ++ "1") (fun o => o ++ ".data")
    (fun a nd d ax => (a, nd, d, ax)) (fun a nd => (a, nd, "", -1)) (fun o => o ++ ".coords-time") (fun o => o ++ ".dims[1:]")
    (fun d dm c => (d, dm, c)) (fun o nd _ => ((o, nd, "", -1), "", ""))
    = .ok ((("x1.data", some 0, "float32", 0), "x1.dims[1:]", "x1.coords-time"), false) := by
  rw [gen_autocorr_acc_eq_model]; rfl

end Hdc.GenGluePx
