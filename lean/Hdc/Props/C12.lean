import Hdc.Gen.Effects
import Hdc.Lemmas.ConcLazy
import Hdc.Lemmas.ConcPrange
/-
C12  Results do not depend on the schedule: threads, interleavings, chunking, layout.

The effect summaries `Hdc.Gen.Effects.lazyProg` and `Hdc.Gen.Effects.prangeSummary` are GENERATED from
the Python source on every verification run.  The semantics and the decidable predicates live in
Hdc/Lemmas/ConcLazy.lean and Hdc/Lemmas/ConcPrange.lean; the theorems there are generic (every program /
summary that satisfies the predicate, every number of threads, every schedule of every length); here
the generated instances are discharged by `decide`, so a change of the source that alters a summary
in an unsafe way makes this file fail to compile.

Formal statements (namespace Hdc.C12)

Part A — lazy initialisation of the compiled kernel (`lazycompile`)
  semantics          Hdc.Conc.step / run : one atomic instruction of the scheduled thread per step,
                     schedule = List (thread × adversary bit); runNat / runFin for List ℕ / List (Fin N)
  predicate          Hdc.Conc.SafeLazyInit prog : Bool
                       = noStoreOther prog && forwardJumps prog && absRun prog prog.length 0 false
  lazy_init_safe        SafeLazyInit prog → ∀ N sched i v, (run prog N sched).call i = some v → v = compiled
  lazy_cache_monotone   SafeLazyInit prog → cache ∈ {none, compiled} ∧ (cache = compiled → stays compiled)
  lazy_cache_never_reset  SafeLazyInit prog → cache ≠ none → cache = compiled after any continuation
  lazy_all_terminate    SafeLazyInit prog → every thread i < N scheduled ≥ length times → all finished
  lazyProg_safe         SafeLazyInit lazyProg = true                                   (decide)
  lazycompile_calls_compiled, lazycompile_calls_compiled_nat, lazycompile_calls_compiled_fin,
  lazycompile_cache_monotone, lazycompile_terminates     the corollaries for the generated program
  placeholder_not_safe, placeholder_sees_other   [loadTest 3, storeOther, storeCompiled, loadCall]:
                        rejected, and 2 threads + schedule [0,0,1,1] call `other`
  bare_call_not_safe, bare_call_sees_none        [loadCall]: rejected, the call sees `none`
  reset_not_safe, reset_sees_none                [storeOther, loadTest 3, storeCompiled, loadCall]:
                        rejected, 2 threads: thread 0 calls `none`
  backward_jump_not_safe                         a loop `loadTest 0` is rejected

Part B — the parallel row loop (`numba.prange`) of ws2doptvplc
  semantics          Hdc.Conc.Action / execEv / exec : atomic actions that read cells and write cells
                     with values computed from what was read and the iteration's private state;
                     IsInterleaving iters nr evs : evs is an order-preserving merge of the iterations
                     Touches / IterConforms : an iteration stays within the summary
  predicate          Hdc.Conc.RowLocal s : Bool   (characterised by Hdc.Conc.rowLocal_iff)
  rowlocal_disjoint             RowLocal s → r ≠ r' → write-set(r) ∩ (read-set(r') ∪ write-set(r')) = ∅
  prange_schedule_independent   RowLocal s → conforming iterations → ∀ interleaving evs,
                                   exec st evs = exec st (seqEvents iters nr)
  prange_any_two_schedules_agree
  prange_row_order_irrelevant   rows executed one after the other in any order (any permutation)
  prange_threads_independent    T threads, rows dealt out in any way, any merge of the threads
  prangeSummary_rowLocal        RowLocal prangeSummary = true                              (decide)
  ws2doptvplc_prange_schedule_independent, ws2doptvplc_prange_threads_independent,
  ws2doptvplc_prange_disjoint   corollaries for the generated summary
  hoisted_not_rowLocal, hoisted_conforms, hoisted_interleavings, hoisted_schedules_differ
                                `xx` hoisted out of the loop: rejected; conforming iterations whose two
                                interleavings end in different stores
  unindexed_write_not_rowLocal, mixed_axis_not_rowLocal, shadowed_not_rowLocal   further rejected summaries

Part C — pixel maps (the accessor applies one kernel per pixel series)
  map_perm               cube ~ cube' → mapPixels f cube ~ mapPixels f cube'
  map_reindex            gathering pixels by any index function commutes with mapPixels
  map_chunks             (chunks.map (mapPixels f)).flatten = mapPixels f chunks.flatten
  map_split              mapPixels f (take k) ++ mapPixels f (drop k) = mapPixels f
  map_pixel_local        cube[i]? = cube'[i]? → results agree at i
  zonal_time_separable   per-time-step reductions are invariant under chunking of the time axis
-/
namespace Hdc.C12
open Hdc.Effects Hdc.Conc Hdc.Gen.Effects

/-! ## Part A -/

theorem lazy_init_safe {prog : List Instr} (h : SafeLazyInit prog = true) (N : Nat)
    (sched : List (Nat × Bool)) (i : Nat) (v : Val) (hv : (run prog N sched).call i = some v) :
    v = Val.compiled := Hdc.Conc.lazy_init_safe h N sched i v hv

theorem lazy_cache_monotone {prog : List Instr} (h : SafeLazyInit prog = true) (N : Nat)
    (sched more : List (Nat × Bool)) :
    ((run prog N sched).cache = Val.none ∨ (run prog N sched).cache = Val.compiled) ∧
    ((run prog N sched).cache = Val.compiled → (run prog N (sched ++ more)).cache = Val.compiled) :=
  Hdc.Conc.lazy_cache_monotone h N sched more

theorem lazy_cache_never_reset {prog : List Instr} (h : SafeLazyInit prog = true) (N : Nat)
    (sched more : List (Nat × Bool)) (hc : (run prog N sched).cache ≠ Val.none) :
    (run prog N (sched ++ more)).cache = Val.compiled :=
  Hdc.Conc.lazy_cache_never_reset h N sched more hc

theorem lazy_all_terminate {prog : List Instr} (h : SafeLazyInit prog = true) (N : Nat)
    (sched : List (Nat × Bool)) (hfair : ∀ i, i < N → prog.length ≤ turns i sched) :
    ∀ i, i < N → finished prog (run prog N sched) i :=
  Hdc.Conc.lazy_all_terminate h N sched hfair

/-- A4: the generated program passes -/
theorem lazyProg_safe : SafeLazyInit lazyProg = true := by decide

theorem lazycompile_calls_compiled (N : Nat) (sched : List (Nat × Bool)) (i : Nat) (v : Val)
    (hv : (run lazyProg N sched).call i = some v) : v = Val.compiled :=
  lazy_init_safe lazyProg_safe N sched i v hv

theorem lazycompile_calls_compiled_nat (N : Nat) (sched : List Nat) (i : Nat) (v : Val)
    (hv : (runNat lazyProg N sched).call i = some v) : v = Val.compiled :=
  lazy_init_safe lazyProg_safe N _ i v hv

theorem lazycompile_calls_compiled_fin (N : Nat) (sched : List (Fin N)) (i : Fin N) (v : Val)
    (hv : (runFin lazyProg N sched).call i = some v) : v = Val.compiled :=
  lazy_init_safe lazyProg_safe N _ i v hv

/-- never "NoneType is not callable", never a placeholder -/
theorem lazycompile_never_none (N : Nat) (sched : List (Nat × Bool)) (i : Nat) :
    (run lazyProg N sched).call i ≠ some Val.none ∧ (run lazyProg N sched).call i ≠ some Val.other := by
  constructor <;> intro h <;> have := lazycompile_calls_compiled N sched i _ h <;> cases this

theorem lazycompile_cache_monotone (N : Nat) (sched more : List (Nat × Bool)) :
    ((run lazyProg N sched).cache = Val.none ∨ (run lazyProg N sched).cache = Val.compiled) ∧
    ((run lazyProg N sched).cache = Val.compiled →
      (run lazyProg N (sched ++ more)).cache = Val.compiled) :=
  lazy_cache_monotone lazyProg_safe N sched more

theorem lazycompile_terminates (N : Nat) (sched : List (Nat × Bool))
    (hfair : ∀ i, i < N → 3 ≤ turns i sched) : ∀ i, i < N → finished lazyProg (run lazyProg N sched) i :=
  lazy_all_terminate lazyProg_safe N sched hfair

/-! ### A5: programs that are rejected, with the schedules that break them -/

/-- a placeholder is published before compiling -/
def placeholderProg : List Instr := [.loadTest 3, .storeOther, .storeCompiled, .loadCall]

theorem placeholder_not_safe : SafeLazyInit placeholderProg = false := by decide

/-- thread 0 tests and publishes the placeholder; thread 1 tests, skips and calls it -/
theorem placeholder_sees_other :
    (runNat placeholderProg 2 [0, 0, 1, 1]).call 1 = some Val.other := by decide

theorem bare_call_not_safe : SafeLazyInit [.loadCall] = false := by decide

theorem bare_call_sees_none : (runNat [.loadCall] 1 [0]).call 0 = some Val.none := by decide

/-- the cache is reset at the start of every call -/
def resetProg : List Instr := [.storeOther, .loadTest 3, .storeCompiled, .loadCall]

theorem reset_not_safe : SafeLazyInit resetProg = false := by decide

/-- thread 0 resets, tests, compiles; thread 1 resets; thread 0 calls `None` -/
theorem reset_sees_none :
    (run resetProg 2 [(0, false), (0, false), (0, false), (1, false), (0, false)]).call 0
      = some Val.none := by decide

theorem backward_jump_not_safe : SafeLazyInit [.loadTest 0, .storeCompiled, .loadCall] = false := by
  decide

/-- the store is skipped: the call is reached with the cell still empty -/
theorem unguarded_not_safe : SafeLazyInit [.loadTest 1, .loadCall] = false := by decide

/-! ## Part B -/

theorem rowlocal_disjoint {V P : Type} {s : Summary} (h : RowLocal s = true) {r r' : Nat}
    (hne : r ≠ r') (acts acts' : List (Action V P)) (hc : IterConforms s r acts)
    (hc' : IterConforms s r' acts') :
    ∀ a ∈ acts, ∀ a' ∈ acts', ∀ l ∈ a.writes, l ∉ a'.reads ∧ l ∉ a'.writes :=
  Hdc.Conc.rowlocal_disjoint h hne acts acts' hc hc'

theorem prange_schedule_independent {V P : Type} {s : Summary} (h : RowLocal s = true)
    (iters : Nat → List (Action V P)) (nr : Nat) (hc : ∀ r, r < nr → IterConforms s r (iters r))
    (evs : List (Nat × Action V P)) (hi : IsInterleaving iters nr evs) (st : PState V P) :
    exec st evs = exec st (seqEvents iters nr) :=
  Hdc.Conc.prange_schedule_independent h iters nr hc evs hi st

theorem prange_any_two_schedules_agree {V P : Type} {s : Summary} (h : RowLocal s = true)
    (iters : Nat → List (Action V P)) (nr : Nat) (hc : ∀ r, r < nr → IterConforms s r (iters r))
    (evs evs' : List (Nat × Action V P)) (hi : IsInterleaving iters nr evs)
    (hi' : IsInterleaving iters nr evs') (st : PState V P) :
    (exec st evs).store = (exec st evs').store :=
  Hdc.Conc.prange_any_two_schedules_agree h iters nr hc evs evs' hi hi' st

theorem prange_row_order_irrelevant {V P : Type} {s : Summary} (h : RowLocal s = true)
    (iters : Nat → List (Action V P)) (nr : Nat) (hc : ∀ r, r < nr → IterConforms s r (iters r))
    (rows : List Nat) (hnd : rows.Nodup) (hmem : ∀ r, r ∈ rows ↔ r < nr) (st : PState V P) :
    exec st (chunkEvents iters rows) = exec st (seqEvents iters nr) :=
  Hdc.Conc.prange_row_order_irrelevant h iters nr hc rows hnd hmem st

theorem prange_threads_independent {V P : Type} {s : Summary} (h : RowLocal s = true)
    (iters : Nat → List (Action V P)) (nr : Nat) (hc : ∀ r, r < nr → IterConforms s r (iters r))
    (T : Nat) (assign : Nat → List Nat) (hd : IsDeal nr T assign)
    (tevs : List (Nat × (Nat × Action V P))) (hm : IsThreadMerge iters T assign tevs)
    (st : PState V P) : exec st (tevs.map (·.2)) = exec st (seqEvents iters nr) :=
  Hdc.Conc.prange_threads_independent h iters nr hc T assign hd tevs hm st

/-- B3: the generated summary passes -/
theorem prangeSummary_rowLocal : RowLocal prangeSummary = true := by decide

theorem ws2doptvplc_prange_schedule_independent {V P : Type} (iters : Nat → List (Action V P))
    (nr : Nat) (hc : ∀ r, r < nr → IterConforms prangeSummary r (iters r))
    (evs : List (Nat × Action V P)) (hi : IsInterleaving iters nr evs) (st : PState V P) :
    exec st evs = exec st (seqEvents iters nr) :=
  prange_schedule_independent prangeSummary_rowLocal iters nr hc evs hi st

theorem ws2doptvplc_prange_threads_independent {V P : Type} (iters : Nat → List (Action V P))
    (nr : Nat) (hc : ∀ r, r < nr → IterConforms prangeSummary r (iters r))
    (T : Nat) (assign : Nat → List Nat) (hd : IsDeal nr T assign)
    (tevs : List (Nat × (Nat × Action V P))) (hm : IsThreadMerge iters T assign tevs)
    (st : PState V P) : exec st (tevs.map (·.2)) = exec st (seqEvents iters nr) :=
  prange_threads_independent prangeSummary_rowLocal iters nr hc T assign hd tevs hm st

theorem ws2doptvplc_prange_disjoint {V P : Type} {r r' : Nat} (hne : r ≠ r')
    (acts acts' : List (Action V P)) (hc : IterConforms prangeSummary r acts)
    (hc' : IterConforms prangeSummary r' acts') :
    ∀ a ∈ acts, ∀ a' ∈ acts', ∀ l ∈ a.writes, l ∉ a'.reads ∧ l ∉ a'.writes :=
  rowlocal_disjoint prangeSummary_rowLocal hne acts acts' hc hc'

/-! ### B4: summaries that are rejected -/

/-- the scratch array `xx` allocated once before the loop instead of once per row -/
def hoistedSummary : Summary :=
  { prangeSummary with
    shared := prangeSummary.shared ++ ["xx"],
    priv := prangeSummary.priv.filter (· ≠ "xx") }

theorem hoisted_not_rowLocal : RowLocal hoistedSummary = false := by decide

/-- `xx[0] = tyx[0, r]` -/
def loadAct (r : Nat) : Action Nat Unit :=
  { reads := [("tyx", [0, r])], writes := [("xx", [0])], compute := fun vs p => (vs, p) }
/-- `zz[0, r] = xx[0]` -/
def storeAct (r : Nat) : Action Nat Unit :=
  { reads := [("xx", [0])], writes := [("zz", [0, r])], compute := fun vs p => (vs, p) }

/-- row `r`:  `xx[0] = tyx[0, r]` ; `zz[0, r] = xx[0]` -/
def hoistedIter (r : Nat) : List (Action Nat Unit) := [loadAct r, storeAct r]

def hoistedInit : PState Nat Unit :=
  { store := fun l => if l.1 = "tyx" then 10 + l.2.getD 1 0 else 0, priv := fun _ => () }

/-- both rows load `xx` first, then both store it -/
def hoistedRace : List (Nat × Action Nat Unit) :=
  [(0, loadAct 0), (1, loadAct 1), (0, storeAct 0), (1, storeAct 1)]

theorem hoisted_conforms (r : Nat) : IterConforms hoistedSummary r (hoistedIter r) := by
  intro a ha
  simp only [hoistedIter, List.mem_cons, List.not_mem_nil, or_false] at ha
  have hsh : ∀ x ∈ ["tyx", "xx", "zz"], x ∈ hoistedSummary.shared := by decide
  rcases ha with rfl | rfl
  · constructor
    · intro l hl
      simp only [loadAct, List.mem_cons, List.not_mem_nil, or_false] at hl
      subst hl
      exact Or.inr ⟨hsh _ (by simp), ⟨"tyx", false, some 1⟩, by decide, rfl, by simp, by simp⟩
    · intro l hl
      simp only [loadAct, List.mem_cons, List.not_mem_nil, or_false] at hl
      subst hl
      exact Or.inr ⟨hsh _ (by simp), ⟨"xx", true, none⟩, by decide, rfl, by simp, by simp⟩
  · constructor
    · intro l hl
      simp only [storeAct, List.mem_cons, List.not_mem_nil, or_false] at hl
      subst hl
      exact Or.inr ⟨hsh _ (by simp), ⟨"xx", true, none⟩, by decide, rfl, by simp, by simp⟩
    · intro l hl
      simp only [storeAct, List.mem_cons, List.not_mem_nil, or_false] at hl
      subst hl
      exact Or.inr ⟨hsh _ (by simp), ⟨"zz", true, some 1⟩, by decide, rfl, by simp, by simp⟩

theorem hoisted_interleavings :
    IsInterleaving hoistedIter 2 hoistedRace ∧ IsInterleaving hoistedIter 2 (seqEvents hoistedIter 2) := by
  refine ⟨⟨?_, ?_⟩, seqEvents_isInterleaving _ _⟩
  · intro e he
    simp only [hoistedRace, List.mem_cons, List.not_mem_nil, or_false] at he
    rcases he with rfl | rfl | rfl | rfl <;> decide
  · intro r hr
    have : r = 0 ∨ r = 1 := by omega
    rcases this with rfl | rfl <;> rfl

/-- the two interleavings of conforming iterations leave different values in `zz[0, 0]` -/
theorem hoisted_schedules_differ :
    (exec hoistedInit (seqEvents hoistedIter 2)).store ("zz", [0, 0]) = 10 ∧
    (exec hoistedInit hoistedRace).store ("zz", [0, 0]) = 11 := by decide

/-- a shared cell written without the row index -/
theorem unindexed_write_not_rowLocal :
    RowLocal { prangeSummary with accesses := prangeSummary.accesses ++ [⟨"zz", true, none⟩] } = false := by
  decide

/-- written along axis 1, read along axis 0 -/
theorem mixed_axis_not_rowLocal :
    RowLocal { prangeSummary with accesses := prangeSummary.accesses ++ [⟨"zz", false, some 0⟩] } = false := by
  decide

/-- reading a neighbouring row of an array that is written -/
theorem neighbour_read_not_rowLocal :
    RowLocal { prangeSummary with accesses := prangeSummary.accesses ++ [⟨"zz", false, none⟩] } = false := by
  decide

/-- one name for a shared and a per-iteration array -/
theorem shadowed_not_rowLocal :
    RowLocal { prangeSummary with priv := prangeSummary.priv ++ ["zz"] } = false := by decide

/-! ## Part C -/

/-- the accessor applies the per-pixel kernel `f` to every pixel series of the cube -/
def mapPixels {α β : Type} (f : α → β) (cube : List α) : List β := cube.map f

/-- C1: permuting the pixels permutes the results -/
theorem map_perm {α β : Type} (f : α → β) {cube cube' : List α} (h : cube.Perm cube') :
    (mapPixels f cube).Perm (mapPixels f cube') := h.map f

/-- gather pixels by an index function (a permutation, a transposition of the layout, a selection) -/
def reindex {α : Type} (cube : List α) {n : Nat} (σ : Fin n → Fin cube.length) : List α :=
  List.ofFn fun i => cube[σ i]

/-- C1: reindexing commutes with the pixel map -/
theorem map_reindex {α β : Type} (f : α → β) (cube : List α) {n : Nat} (σ : Fin n → Fin cube.length) :
    mapPixels f (reindex cube σ) =
      reindex (mapPixels f cube) (fun i => (σ i).cast (List.length_map f).symm) := by
  apply List.ext_getElem
  · simp [mapPixels, reindex]
  · intro i h1 h2
    simp [mapPixels, reindex]

/-- C2: processing chunk by chunk and concatenating = processing the whole cube -/
theorem map_chunks {α β : Type} (f : α → β) (chunks : List (List α)) :
    (chunks.map (mapPixels f)).flatten = mapPixels f chunks.flatten := by
  show (chunks.map (List.map f)).flatten = chunks.flatten.map f
  simp [List.map_flatten]

theorem map_split {α β : Type} (f : α → β) (cube : List α) (k : Nat) :
    mapPixels f (cube.take k) ++ mapPixels f (cube.drop k) = mapPixels f cube := by
  simp [mapPixels]

/-- C3: the result of pixel `i` depends on pixel `i` only -/
theorem map_pixel_local {α β : Type} (f : α → β) (cube cube' : List α) (i : Nat)
    (h : cube[i]? = cube'[i]?) : (mapPixels f cube)[i]? = (mapPixels f cube')[i]? := by
  simp [mapPixels, h]

theorem map_length {α β : Type} (f : α → β) (cube : List α) : (mapPixels f cube).length = cube.length := by
  simp [mapPixels]

/-- C4: a reduction computed per time step is invariant under chunking of the time axis -/
theorem zonal_time_separable {α β : Type} (g : α → β) (timeChunks : List (List α)) :
    (timeChunks.map fun steps => steps.map g).flatten = timeChunks.flatten.map g := by
  simp [List.map_flatten]

end Hdc.C12
