import Hdc.Lemmas.GenNumMkSens
import Hdc.Gen.NumMkSens
import Std.Tactic.Do
/-
GenNumMkSens  The GENERATED translation of `ops/stats.py::mk_sens_slope` (Hdc/Gen/NumMkSens.lean, harness/py2lean_stats.py)
returns the model's Theil-Sen slope `Hdc.sensSlope` (median of `Hdc.slopesFrom`, all pairwise slopes in the source's
order) and the intercept `median(x) - (n - 1) / 2 * slope`.

EXTERNAL: `np.nanmedian` is mapped to `PyNpT.npMedian` = the model's own `Hdc.median` (median by sorting; the carrier has no
NaN, so `nanmedian` = `median`): the refinement is modulo this identification.  What is translated and proved is the
filling of the slope buffer `d`: `nd = int(n * (n - 1) / 2)` (-> `Int.tdiv`), `d = np.ones(nd)`, the double loop with the
running index `ix`, the divided differences `(x[j] - x[i]) / (j - i)`.
-/
namespace Hdc.GenNumMk
open Hdc Hdc.Gen.NumKernels Hdc.PyNpT Hdc.GenNum Std.Do
open Hdc.Ws2d (fnl)

set_option mvcgen.warning false
set_option linter.unusedSimpArgs false
set_option linter.unusedTactic false
set_option linter.unreachableTactic false

variable {α : Type} [Field α] [LinearOrder α] [IsStrictOrderedRing α]

/-- The translated `mk_sens_slope` equals the model, for every series over a linearly ordered field (for the empty series
    both medians are the default 0).  No hypothesis.  The intercept has no separate model function: it is stated through
    `Hdc.median` and `Hdc.sensSlope`. -/
theorem gen_mk_sens_slope_eq_model (x : List α) :
    Gen.NumKernels.mk_sens_slope x.toArray
      = (Hdc.sensSlope x, Hdc.median x - (((x.length : ℤ) - 1 : ℤ) : α) / nat 2 * Hdc.sensSlope x) := by
  generalize hres : Gen.NumKernels.mk_sens_slope x.toArray = res
  apply Id.of_wp_run_eq hres
  mvcgen invariants
  · ⇓⟨xs, s⟩ => ⌜SInv x (slopesFrom 0 (x.drop xs.prefix.length)) s.2 s.1⌝
  · ⇓⟨xs, s⟩ => by
      py_name cur as i
      exact ⌜SInv x ((rowOf x i.toNat).drop xs.prefix.length ++ slopesFrom 0 (x.drop (i.toNat + 1))) s.2 s.1⌝
  all_goals
    pyn_ranges
    simp (config := {zetaDelta := true}) only [List.size_toArray, List.length_append,
      List.length_singleton, List.length_nil, pyRange_length,
      Int.sub_zero, Int.zero_add, Int.toNat_natCast] at *
    py_subst_ranges
    try simp only [Int.toNat_natCast] at *
  all_goals first
    -- `d[ix] = (x[j] - x[i]) / (j - i); ix += 1`
    | exact (‹SInv _ _ _ _›).step (by omega) rfl (by omega) (by push_cast; ring)
    -- entry / exit of the inner loop
    | exact (‹SInv _ _ _ _›).enter (by omega)
    | exact (‹SInv _ _ _ _›).exit (by omega)
    -- `d = np.ones(nd)`
    | exact SInv.init x
    -- the two medians
    | (have hd := (‹SInv _ _ _ _›).final (by omega)
       simp only [npMedian, hd, sensSlope])

/-- the slope alone -/
theorem gen_mk_sens_slope_fst (x : List α) :
    (Gen.NumKernels.mk_sens_slope x.toArray).1 = Hdc.sensSlope x := by
  rw [gen_mk_sens_slope_eq_model]

/-! ### Non-vacuity: slopes 2, 1/2, 5/3, −1, 3/2, 4; median (3/2 + 5/3) / 2; intercept 5/2 − 3/2 · 19/12 -/

example : Gen.NumKernels.mk_sens_slope ([1, 3, 2, 6] : List ℚ).toArray = (19 / 12, 1 / 8) := by
  rw [gen_mk_sens_slope_eq_model]
  have h : slopesFrom 0 ([1, 3, 2, 6] : List ℚ) = [2, 1 / 2, 5 / 3, -1, 3 / 2, 4] := by
    norm_num [slopesFrom, List.zipIdx, nat]
  have hs : sensSlope ([1, 3, 2, 6] : List ℚ) = 19 / 12 := by
    unfold sensSlope
    rw [h, Stats.median_of_sorted _ [-1, 1 / 2, 3 / 2, 5 / 3, 2, 4] (by decide +kernel) (by decide +kernel)]
    norm_num
  have hm : median ([1, 3, 2, 6] : List ℚ) = 5 / 2 := by
    rw [Stats.median_of_sorted _ [1, 2, 3, 6] (by decide +kernel) (by decide +kernel)]
    norm_num
  rw [hs, hm]
  norm_num [nat]

end Hdc.GenNumMk
