import Hdc.Lemmas.GenNumWcvTac
import Hdc.Gen.NumWs2dwcv
import Std.Tactic.Do
/-
GenNumWcv  The GENERATED translation of `hdc/algo/ops/ws2dwcv.py::ws2dwcv` (Hdc/Gen/NumWs2dwcv.lean, an imperative
`Id.run do` program over an abstract carrier `α`, written by harness/py2lean_wcv.py from the Python source, NumPy
idioms through the combinators of Hdc/PyNpW.lean) computes the hand model `Hdc.wcv` — the WHOLE function, both
`robust = False` and `robust = True`:

  gen_ws2dwcv_eq_model   ws2dwcv G cos isnan isinf rnd pi y nodata llas robust out lopt
                           = wcvOut rnd y (wcv G (x == nodata or isnan x or isinf x) y llas robust)

where `wcvOut` is what a caller sees: `some (y, [0])` for the pass-through (`n <= 4`), `some (round(z), [λ])` for a fit,
and `none` when the source reads the local `y_temp` before it is bound (Python: UnboundLocalError; model: `.unbound`;
the translator tracks it with the flags `y_temp_set` / `unbound`).

Hypotheses (all inputs otherwise: every `y`, `llas` — also empty —, `nodata`, `robust`, every `out` buffer):
  * `hG`: the model's eigenvalue table is the source's expression `-2 + 2 cos(i π / m)` (the model abstracts it as
    `G.eig i m`; `cos`, `π` are parameters of the translation);
  * `hl`: `lopt` is a one-cell buffer (the `()` output of the gufunc; with an empty buffer `lopt[0] = …` writes nothing).
`np.median`, `np.max`, `np.min` are the model's `median` / `maxL` / `minL` by DEFINITION of the combinators
`npMedian` / `npMax` / `npMin` (Hdc/PyNpW.lean): the theorem is modulo "NumPy's functions compute these".

Method: `mvcgen` (Std.Do) with one invariant per loop — `OuterInv` for `for it in range(r_its)` (the model's chain of
`gstep`s, or "the source has failed and `unbound` is up"), `SweepOk` for `for s in lambda_range` (the model's
`gcvSweep` over the λ values seen so far) —, both in Hdc/Lemmas/GenNumWcv.lean; the verification conditions are
dispatched by shape with the tactic macros of Hdc/Lemmas/GenNumWcvTac.lean (shared with GenNumWcvp.lean); variables
of the source are picked up by name (`py_name`), program expressions are moved to the list level by rewriting
(`toList_npMap`, …) and identified with the model's functions by the idiom lemmas (`weights_np`, `clean_np`, `deigs_np`,
`gamma_np`, `score_np`, `mad_np`, `rnew_np`, …).  `mvcgen` duplicates the loops along `if not robust` and `if it > 1`
(6 invariants, 51 conditions).
-/
namespace Hdc.GenNum
open Hdc Hdc.Gen.NumKernels Hdc.PyNpW Hdc.Smooth Std.Do

set_option mvcgen.warning false
set_option linter.unusedSimpArgs false
set_option linter.unusedTactic false
set_option linter.unreachableTactic false
set_option linter.unusedVariables false

section wcv
variable {α : Type} [Field α] [LinearOrder α] [IsStrictOrderedRing α]

set_option maxHeartbeats 1000000 in
/-- The translated `ws2dwcv` equals the hand model `Hdc.wcv` (missing-cell test
    `x == nodata or isnan x or isinf x`), as the pair of arrays `(out, lopt)` a caller sees; `none` = the
    source's unbound-variable failure. -/
theorem gen_ws2dwcv_eq_model (G : GFns α) (cos : α → α) (isnan isinf : α → Bool) (rnd : α → α) (pi : α)
    (y llas : List α) (nodata : α) (robust : Bool) (out0 lopt0 : Array α)
    (hG : ∀ i m : ℕ, G.eig i m = -2 + 2 * cos ((i : α) * pi / (m : α))) (hl : lopt0.size = 1) :
    Gen.NumKernels.ws2dwcv G cos isnan isinf rnd pi y.toArray nodata llas.toArray robust out0 lopt0 =
      wcvOut rnd y (wcv G (missG nodata isnan isinf) y llas robust) := by
  generalize hres : Gen.NumKernels.ws2dwcv G cos isnan isinf rnd pi y.toArray nodata llas.toArray robust out0 lopt0 = res
  apply Id.of_wp_run_eq hres
  mvcgen invariants
  · outer_inv
  · sweep_inv
  · sweep_inv
  · outer_inv
  · sweep_inv
  · sweep_inv
  all_goals wcv_setup
  all_goals first
    -- the pass-through branch `n <= 4`
    | (have h4 : ¬ 4 < countValid (missG nodata isnan isinf) y := by
         rw [← four_lt_n_iff, ← hna]
         intro h
         exact ‹¬ decide (_ < _) = true› (decide_eq_true h)
       rw [wcv_unfold, if_neg h4]
       simp [wcvOut, wr_one _ _ hl, ya])
    | wcv_setup_y
  all_goals try wcv_vc_absurd
  all_goals first
    | wcv_vc_init
    | wcv_vc_sweep_init
    | wcv_vc_sweep_step
    | wcv_vc_plain
    -- after the loop: `lopt[0] = robust_gcv[k, 1]`, the final fit with `robust_weights`, rounding
    | (first
         | (have hnr : ¬ robust = true := by assumption
            obtain rfl : robust = false := by simpa using hnr)
         | (have hr : robust = true := by assumption
            subst hr)
       have hinv := ‹OuterInv _ _ _ _ _ _ _ _ _ _ _ _ _ _ _ _ _›
       first
         | rw [show (pyRange 0 1).length = (if false = true then 4 else 1) by simp [pyRange_length]] at hinv
         | rw [show (pyRange 0 4).length = (if true = true then 4 else 1) by simp [pyRange_length]] at hinv
       rcases OuterInv.result _ y llas _ rnd h4 hinv ya hya with ⟨hu, hr⟩ | ⟨hu, hs, hr⟩
       · simp only [hr, hu, if_true]
       · first
           | (rw [hr]
              simp [hu, wr_one _ _ hl, rd_single]
              exact ⟨rfl, rfl⟩)
           | (exfalso
              py_name robust_weights_set as rws
              have h2 := ‹(!rws) = true›
              rw [Bool.not_eq_true'] at h2
              exact Bool.noConfusion (hs.symm.trans h2)))
    | wcv_vc_unset
    | wcv_vc_robust

end wcv

/-! ### non-vacuity: concrete rational inputs (toy transcendental functions) -/

/-- a toy cosine over ℚ -/
def cosq (x : ℚ) : ℚ := 1 - x * x / 2

/-- toy `GFns` over ℚ: `sqrt x = x`, `x ** 0.5 = x`, `10 ** x = x + 1`, `big = 10⁶`, `c1 = 3/2`, `c2 = 5`;
    the MAD threshold `madtol = 1000` is so large that the robust weights are always kept -/
def Gq : GFns ℚ :=
  ⟨fun i m => -2 + 2 * cosq ((i : ℚ) * 3 / (m : ℚ)), 1 / 1000, fun x => x, fun x => x, fun x => x + 1, 1000000,
    3 / 2, 5, 1000⟩

/-- … and one with `sqrt x = 1`, `c1 = 1`, `c2 = 2`, `madtol = 1/1000`, with which the robust loop does re-weight -/
def Gr : GFns ℚ :=
  ⟨fun i m => -2 + 2 * cosq ((i : ℚ) * 3 / (m : ℚ)), 1 / 1000, fun _ => 1, fun x => x, fun x => x + 1, 1000000,
    1, 2, 1 / 1000⟩

theorem hGq : ∀ i m : ℕ, Gq.eig i m = -2 + 2 * cosq ((i : ℚ) * 3 / (m : ℚ)) := fun _ _ => rfl
theorem hGr : ∀ i m : ℕ, Gr.eig i m = -2 + 2 * cosq ((i : ℚ) * 3 / (m : ℚ)) := fun _ _ => rfl

/-- `robust = False`: six valid cells, two grid points; the buffers start with garbage -/
example :
    Gen.NumKernels.ws2dwcv Gq cosq (fun _ => false) (fun _ => false) (fun v => v) 3
        [1, 5, 2, 8, 3, 4].toArray (-1) [0, 1].toArray false #[] #[9]
      = some (#[10075 / 5017, 16735 / 5017, 20866 / 5017, 24114 / 5017, 22709 / 5017, 20892 / 5017], #[2]) := by
  rw [gen_ws2dwcv_eq_model _ _ _ _ _ _ _ _ _ _ _ _ hGq rfl]
  decide +kernel

/-- `robust = True` (re-weighting in every iteration).  The model's `median` sorts with `List.mergeSort`
    (well-founded recursion), which the kernel cannot evaluate, so this instance is stated against the model;
    `#eval` gives `some (#[1, 4, 6, 8, 10], #[1])` for both sides. -/
example :
    Gen.NumKernels.ws2dwcv Gr cosq (fun _ => false) (fun _ => false) (fun v => (Rat.floor v : ℚ)) 3
        [1, 5, 2, 8, 3].toArray (-1) [0].toArray true #[] #[9]
      = wcvOut (fun v => (Rat.floor v : ℚ)) [1, 5, 2, 8, 3]
          (wcv Gr (missG (-1) (fun _ => false) (fun _ => false)) [1, 5, 2, 8, 3] [0] true) :=
  gen_ws2dwcv_eq_model _ _ _ _ _ _ _ _ _ _ _ _ hGr rfl

/-- four valid cells: pass-through, `lopt = 0` -/
example :
    Gen.NumKernels.ws2dwcv Gq cosq (fun _ => false) (fun _ => false) (fun v => v) 3
        [1, 5, -1, -1, 8, 3, -1].toArray (-1) [0, 1].toArray true #[7] #[9]
      = some (#[1, 5, -1, -1, 8, 3, -1], #[0]) := by
  rw [gen_ws2dwcv_eq_model _ _ _ _ _ _ _ _ _ _ _ _ hGq rfl]
  decide +kernel

/-- `robust = True` and no GCV score below the initial best (`big = 0`): the source reads the unbound
    `y_temp` (UnboundLocalError in Python; the model says `.unbound`): no result -/
example :
    Gen.NumKernels.ws2dwcv { Gq with big := 0 } cosq (fun _ => false) (fun _ => false) (fun v => v) 3
        [1, 5, 2, 8, 3, 4].toArray (-1) [0, 1].toArray true #[] #[9] = none := by
  rw [gen_ws2dwcv_eq_model _ _ _ _ _ _ _ _ _ _ _ _ (fun _ _ => rfl) rfl]
  decide +kernel

end Hdc.GenNum
