import Hdc.Gen.SafeWs2doptvpCore
import Hdc.Gen.NumWs2doptvpCore
import Hdc.Lemmas.SafeOptvp
import Hdc.Lemmas.SafeSimN
import Std.Tactic.Do
import Mathlib.Tactic.CasesM
/-
SafeWs2doptvpCore  Safety of `hdc/algo/ops/ws2doptvp.py::_ws2doptvp`, proved FROM THE SOURCE: `Hdc.Gen.Safe.ws2doptvpCore`
(Hdc/Gen/SafeWs2doptvpCore.lean, written by harness/py2lean_optvp.py) is the statement-by-statement translation plus the
flag `bad`, set by
  * `oob a.size i`         every subscript: `llas[lix]`; `y[j]`, `z[j]`, `wa[j]`, `w[j]`, `ww[j]`, `znew[j]` (both copies of the
                           re-weighting loop); `w[i]`, `y[i]`, `z[i]`, `fits[lix]`, `z[i+1]`, `diff1[i]`, `diff1[i+1]`, `pens[lix]`;
                           `llas[1]`, `llas[0]`, `llas[i]`, `llas[i+1]`, `fits[i]`, `fits[i+1]`, `pens[i]`, `pens[i+1]`, `v[i]`,
                           `lamids[i]`; `v[k]`, `v[i]`, `lamids[k]`
  * `eqv (log(10) * llastep) 0`   the only scalar division with a non-literal divisor (`/ 2` is not instrumented)
  * `(Safe.ws2d …).2`      every call of the instrumented smoother (up to `10 * len(llas) + 11`), with the re-weighted weights
  * `badSlice a.size 0 m`  the slices with explicit bounds `znew[0:m]`, `z[0:m]` (read and store)
  * `lenDiff` / `badStoreLen`   the stores `znew[:] = ws2d(…)`, `znew[0:m] = ws2d(…)`, `z[0:m] = znew[0:m]`: the source must have
                           exactly the cells of the target slice (Hdc/PySafeV.lean)
(`z[:] = 0.0` is a fill of the whole array: no check.)

  safe_ws2doptvpCore_fst   (Safe.ws2doptvpCore …).1 = Gen.NumKernels.ws2doptvpCore …     every carrier, every input
  safe_ws2doptvpCore_ok    under `Contract` the flag is false
  `example`s               for every hypothesis an input over ℚ outside it where the flag is true (for `3 ≤ len y`: one cell is
                           flagged; at 2 cells the flag is false on the inputs tried, as for `ws2d` and `ws2doptv`)
-/
namespace Hdc.SafeWs2doptvpCore
open Hdc Hdc.Gen.NumKernels Hdc.GenNum Hdc.SafeL Hdc.SafeOptv Hdc.SafeOptvp Hdc.SafeSimN Std.Do
open Hdc.Ws2dGen (av Holds)
open Hdc.Ws2d (fnl)

set_option mvcgen.warning false
set_option linter.unusedSimpArgs false
set_option linter.unusedTactic false
set_option linter.unreachableTactic false
set_option linter.unusedSectionVars false

/-- (i) the instrumented program is the translated source plus a flag -/
theorem safe_ws2doptvpCore_fst {α : Type} [Add α] [Sub α] [Mul α] [Div α] [Neg α] [NatCast α] [LT α] [DecidableLT α]
    (F : VFns α) (y w : Array α) (p : α) (llas : Array α) :
    (Gen.Safe.ws2doptvpCore F y w p llas).1 = Gen.NumKernels.ws2doptvpCore F y w p llas := by
  unfold Gen.Safe.ws2doptvpCore Gen.NumKernels.ws2doptvpCore
  simp only [SafeWs2d.safe_ws2d_fst]
  safe_sim

variable {α : Type} [Field α] [LinearOrder α] [IsStrictOrderedRing α]

/-- the contract of `_ws2doptvp`: at least 3 observations (what `ws2d` needs), a weight for each of them, none negative, two
    positive (a longer `w` is harmless: only its first `len y` cells are read); at least 2 grid entries with
    `llas[1] ≠ llas[0]`; `0 < p < 1` (the re-weighting multiplies each weight by `p` or `1 - p`: both factors must be
    positive, otherwise the re-weighted vector can lose its two positive entries / get a negative one); and the float functions
    the translation takes as parameters behave like `10^·` (positive) and `log(10)` (non-zero). -/
structure Contract (F : VFns α) (y w llas : List α) (p : α) : Prop where
  len : 3 ≤ y.length
  wlen : y.length ≤ w.length
  w_nonneg : ∀ i < y.length, 0 ≤ fnl w i
  two_pos : ∃ i j, i < j ∧ j < y.length ∧ 0 < fnl w i ∧ 0 < fnl w j
  grid : 2 ≤ llas.length
  step : fnl llas 1 ≠ fnl llas 0
  p_pos : 0 < p
  p_lt : p < 1
  pow10_pos : ∀ l, 0 < F.pow10 l
  ln10 : F.ln10 ≠ 0

set_option maxHeartbeats 2000000 in
/-- (ii) under the contract the flag is false.  One invariant per loop: the flag is still false, the sizes of the arrays the
    loop writes, and for the re-weighting loops `Rew` (Hdc/Lemmas/SafeOptvp.lean): `ww` is `w` times positive factors, hence a
    weight vector `ws2d` accepts. -/
theorem safe_ws2doptvpCore_ok (F : VFns α) (y w llas : List α) (p : α) (hc : Contract F y w llas p) :
    (Gen.Safe.ws2doptvpCore F y.toArray w.toArray p llas.toArray).2 = false := by
  obtain ⟨h3, hwl, hwn, hwp, h2, hstep, hp0, hp1, hpow, hln⟩ := hc
  have hW : WOK w y.length := ⟨hwl, hwn, hwp⟩
  have hp1' := p1_pos hp1
  generalize hres : Gen.Safe.ws2doptvpCore F y.toArray w.toArray p llas.toArray = res
  apply Id.of_wp_run_eq hres
  mvcgen invariants
  -- λ grid, state `(bad, lmda, z_tmp, w_tmp, y_tmp, z2, i, j, fits, pens, z, znew, diff1, wa, ww)`
  · ⇓⟨xs, s⟩ => ⌜s.1 = false ∧ s.2.2.2.2.2.2.2.2.1.size = llas.length ∧
      s.2.2.2.2.2.2.2.2.2.1.size = llas.length ∧ s.2.2.2.2.2.2.2.2.2.2.1.size = y.length ∧ s.2.2.2.2.2.2.2.2.2.2.2.1.size = y.length ∧
      s.2.2.2.2.2.2.2.2.2.2.2.2.1.size = y.length - 1 ∧ s.2.2.2.2.2.2.2.2.2.2.2.2.2.1.size = y.length ∧ s.2.2.2.2.2.2.2.2.2.2.2.2.2.2.size = y.length⌝
  -- re-weighting loop with `break`, state `(bad, z_tmp, y_tmp, i, j, z, znew, wa, ww)`: `ww` is re-weighted once a pass has run
  · ⇓⟨xs, s⟩ => ⌜s.1 = false ∧ s.2.2.2.2.2.1.size = y.length ∧ s.2.2.2.2.2.2.1.size = y.length ∧
      s.2.2.2.2.2.2.2.1.size = y.length ∧ s.2.2.2.2.2.2.2.2.size = y.length ∧ (0 < xs.prefix.length → Rew w y.length s.2.2.2.2.2.2.2.2)⌝
  -- `wa[j] = …; ww[j] = w[j] * wa[j]`, state `(bad, z_tmp, y_tmp, j, wa, ww)`
  · ⇓⟨xs, s⟩ => ⌜s.1 = false ∧ s.2.2.2.2.1.size = y.length ∧ s.2.2.2.2.2.size = y.length ∧ Rew w xs.prefix.length s.2.2.2.2.2⌝
  -- `z_tmp += abs(znew[j] - z[j])`, state `(bad, z_tmp, j)`
  · ⇓⟨xs, s⟩ => ⌜s.1 = false⌝
  -- `fits[lix] += …`, state `(bad, z_tmp, w_tmp, y_tmp, i, fits)`
  · ⇓⟨xs, s⟩ => ⌜s.1 = false ∧ s.2.2.2.2.2.size = llas.length⌝
  -- `diff1[i] = z[i+1] - z[i]`, state `(bad, z_tmp, z2, i, diff1)`
  · ⇓⟨xs, s⟩ => ⌜s.1 = false ∧ s.2.2.2.2.size = y.length - 1⌝
  -- `pens[lix] += …`, state `(bad, z_tmp, z2, i, pens)`
  · ⇓⟨xs, s⟩ => ⌜s.1 = false ∧ s.2.2.2.2.size = llas.length⌝
  -- V-curve, state `(bad, l1, l2, fit1, fit2, pen1, pen2, i, lamids, v)`
  · ⇓⟨xs, s⟩ => ⌜s.1 = false ∧ s.2.2.2.2.2.2.2.2.1.size = llas.length - 1 ∧ s.2.2.2.2.2.2.2.2.2.size = llas.length - 1⌝
  -- first strict minimum, state `(bad, i, k, vmin)`
  · ⇓⟨xs, s⟩ => ⌜s.1 = false ∧ 0 ≤ s.2.2.1 ∧ s.2.2.1 < (llas.length : ℤ) - 1⌝
  -- final re-weighting loop (same three states)
  · ⇓⟨xs, s⟩ => ⌜s.1 = false ∧ s.2.2.2.2.2.1.size = y.length ∧ s.2.2.2.2.2.2.1.size = y.length ∧
      s.2.2.2.2.2.2.2.1.size = y.length ∧ s.2.2.2.2.2.2.2.2.size = y.length ∧ (0 < xs.prefix.length → Rew w y.length s.2.2.2.2.2.2.2.2)⌝
  · ⇓⟨xs, s⟩ => ⌜s.1 = false ∧ s.2.2.2.2.1.size = y.length ∧ s.2.2.2.2.2.size = y.length ∧ Rew w xs.prefix.length s.2.2.2.2.2⌝
  · ⇓⟨xs, s⟩ => ⌜s.1 = false⌝
  all_goals
    pyn_ranges
    simp (config := {zetaDelta := true}) only [List.size_toArray, List.length_append,
      List.length_singleton, List.length_nil, pyRange_length, decide_eq_true_eq, gt_iff_lt,
      Int.toNat_natCast, Int.sub_zero, show Int.toNat 10 = 10 from rfl] at *
  all_goals try casesm* _ ∧ _
  all_goals
    have hdiv : eqv (F.ln10 * (rd llas.toArray 1 - rd llas.toArray 0)) (nat 0) = false := by
      rw [rd_of_eq _ 1 1 rfl, rd_of_eq _ 0 0 rfl, av_list, av_list]
      exact eqv_zero_false _ (mul_ne_zero hln (sub_ne_zero.2 hstep))
  all_goals try (have hR := ‹0 < 10 → Rew _ _ _› (by omega))
  all_goals (repeat' apply And.intro)
  all_goals first
    | exact Rew.init _ _
    | exact Rew.step ‹Rew _ _ _› (by omega) (by omega) (by omega) hp0
    | exact Rew.step ‹Rew _ _ _› (by omega) (by omega) (by omega) hp1'
    | skip
  all_goals try simp only [Bool.or_false, Bool.false_or, *]
  all_goals try simp (disch := first | omega | assumption | exact hpow _) only [*, size_wr, Array.size_replicate,
          ws2d_call_size, List.size_toArray, oob_false, hdiv, Bool.or_false, Bool.false_or, badSlice_false,
          badStoreLen_false, lenDiff_false, size_npSlice_setSlice, size_npSlice_full, size_npFillSlice_full, PyNpV.size_npSetSlice_full,
          Rew.call_ok _ h3 hW, Int.toNat_natCast, implies_true]
  all_goals omega

/-! ### Non-vacuity and sharpness (ℚ; toy functions `log = sqrt = id`, `10^l = l² + 1`, `log 10 = 1`) -/

private def Fq : VFns ℚ := ⟨fun v => v, fun v => v, fun l => l * l + 1, 1⟩
private def cv (F : VFns ℚ) (y w : Array ℚ) (p : ℚ) (llas : Array ℚ) : Bool := (Gen.Safe.ws2doptvpCore F y w p llas).2

/-- an instance of the contract: 5 cells, one of weight 0, a grid of 3, `p = 9/10` -/
example : cv Fq #[1, 2, 4, 3, 5] #[1, 1, 0, 1, 1] (9 / 10) #[0, 1, 2] = false :=
  safe_ws2doptvpCore_ok Fq [1, 2, 4, 3, 5] [1, 1, 0, 1, 1] [0, 1, 2] (9 / 10)
    ⟨by decide, by decide, by decide +kernel, ⟨0, 1, by decide +kernel⟩, by decide, by decide +kernel, by norm_num, by norm_num,
      fun l => by show (0 : ℚ) < l * l + 1; linarith [mul_self_nonneg l], by decide⟩
/-- `len y ≤ len w`: a weight vector that is too short (`w[4]` out of range) -/
example : cv Fq #[1, 2, 4, 3, 5] #[1, 1, 0, 1] (9 / 10) #[0, 1, 2] = true := by decide +kernel
/-- `w ≥ 0`: `w[0] = -2` with `p = 1/2`, `10^0 = 1`: the first pivot of the first call of `ws2d` is `-2 * 1/2 + 1 = 0` -/
example : cv Fq #[1, 2, 4, 3, 5] #[-2, 1, 1, 1, 1] (1 / 2) #[0, 1, 2] = true := by decide +kernel
/-- two positive weights: a single one -/
example : cv Fq #[1, 2, 4, 3, 5] #[0, 0, 0, 1, 0] (9 / 10) #[0, 1, 2] = true := by decide +kernel
/-- `2 ≤ len llas`: a grid of one entry (`llas[1]`, `v[0]` out of range) -/
example : cv Fq #[1, 2, 4, 3, 5] #[1, 1, 0, 1, 1] (9 / 10) #[0] = true := by decide +kernel
/-- `llas[1] ≠ llas[0]`: the V-curve divides by `log(10) * (llas[1] - llas[0])` -/
example : cv Fq #[1, 2, 4, 3, 5] #[1, 1, 0, 1, 1] (9 / 10) #[1, 1, 2] = true := by decide +kernel
/-- `0 < p`: with `p = 0` every cell above the curve gets weight 0 (all of them in the first pass) -/
example : cv Fq #[1, 2, 4, 3, 5] #[1, 1, 0, 1, 1] 0 #[0, 1, 2] = true := by decide +kernel
/-- `p < 1`: with `p = 1` every cell not above the curve gets weight 0 -/
example : cv Fq #[1, 2, 4, 3, 5] #[1, 1, 0, 1, 1] 1 #[0, 1, 2] = true := by decide +kernel
/-- `log(10) ≠ 0` and `10^l > 0` are facts about the float functions; with other parameters the flag is set -/
example : cv ⟨fun v => v, fun v => v, fun l => l * l + 1, 0⟩ #[1, 2, 4, 3, 5] #[1, 1, 0, 1, 1] (9 / 10) #[0, 1, 2] = true := by
  decide +kernel
example : cv ⟨fun v => v, fun v => v, fun _ => 0, 1⟩ #[1, 2, 4, 3, 5] #[1, 1, 0, 1, 1] (9 / 10) #[0, 1, 2] = true := by
  decide +kernel
/-- `3 ≤ len y`: one cell is flagged (`llas`-independent: `ws2d` itself is flagged); with two cells (both of positive weight,
    the only way to keep the other hypotheses) the smoother wraps its indices but no divisor vanishes on this input -/
example : cv Fq #[1] #[1] (9 / 10) #[0, 1, 2] = true := by decide +kernel
example : cv Fq #[1, 2] #[1, 1] (9 / 10) #[0, 1, 2] = false := by decide +kernel

end Hdc.SafeWs2doptvpCore
