import Hdc.Lemmas.StatsTI
import Mathlib.Tactic.NormNum
import Mathlib.Tactic.IntervalCases
/-
C20  Temporal interpolation (`ops/tinterpolate.py`; model `scatterMarks`, `setLast`, `runMeans`,
`tinterp` in Hdc/Model/Stats.lean).

Python: temp = template.copy(); w = template.copy(); walk the template, at each nonzero cell put
the next observation; temp[-1] = x[-1]; z = ws2d(temp, 1e-5, w); for each maximal run of equal
consecutive labels the band is round(sum of z over the run / run length).  The model returns the
pair (sum, run length) per run; rounding is outside the model.

Formal statements (α any linearly ordered field; `fn l i` = `l[i]`, 0 outside; `rank t i` =
number of nonzero template cells strictly before `i`; `runs labels` = maximal runs of equal
consecutive labels = `labels.splitBy (· == ·)`; `spanSums f s ks` = for consecutive spans of
lengths `ks` starting at `s` the pairs `(Σ_{i in span} f i, length)`):

Contract x t labels :  every cell of t is 0 or 1;  t.count 1 = x.length;
                       t.length = labels.length;  4 ≤ t.length

 1. scatterMarks_length      (scatterMarks t x).length = t.length                    (unconditional)
    scatterMarks_spec        Contract → for i < t.length:
                               (scatterMarks t x)[i] = if t[i] = 0 then 0 else x[rank t i]
                             (with rank_lt : t[i] ≠ 0 → rank t i < x.length)
    scatterMarks_spec_general  no contract: (scatterMarks t x)[i]? =
                               t[i]?.map (fun v => if v = 0 then 0 else x.getD (rank t i) v)
                             (a mark beyond the last observation keeps its template value)
    temp_spec                Contract → at every mark i the vector handed to the smoother,
                             setLast (scatterMarks t x) x[-1], holds x[rank t i]  (incl. the last cell)
 2. runMeans_spec            labels.length ≤ z.length →
                               runMeans (labels.zip z) none =
                                 (((runs labels).map length).splitLengths z).map (c ↦ (c.sum, c.length))
    runMeans_spec_sum        … = spanSums (fn z) 0 ((runs labels).map length)
    runMeans_entry           j < (runs labels).length → entry j =
                               (Σ_{i ∈ [runStart j, runStart j + runLen j)} z_i , runLen j)
    runMeans_length          number of entries = (runs labels).length
    runMeans_counts          the counts are the run lengths, in order
    runMeans_counts_sum      Σ counts = labels.length
    runMeans_truncate        in general `zip` truncates: labels may be replaced by
                             labels.take z.length
    runs_flatten, runs_ne_nil, runs_const, runs_adjacent_ne : `runs` really are the maximal runs
    tinterp_length, tinterp_counts   t.length = labels.length → one output entry per run, the
                             counts are the run lengths
    runs_length_distinct, tinterp_length_distinct   ContiguousLabels labels →
                             number of runs (output entries) = number of distinct labels
    contiguous_of_sorted     non-decreasing labels are contiguous
 3. tinterp_const            Contract, 2 ≤ x.length, 0 < lam, all observations = c →
                               tinterp lam x t labels = (runs labels).map (r ↦ (|r|·c, |r|))
 4. tinterp_curve            Contract, 2 ≤ x.length, 0 < lam, x[rank t i] = a + b·i at every mark i →
                               the daily curve is z_i = a + b·i for every day i < t.length
    tinterp_linear           same hypotheses →
                               tinterp lam x t labels = spanSums (i ↦ a + b·i) 0 ((runs labels).map length)
    tinterp_linear_entry     entry j = (Σ_{i ∈ run j} (a + b·i), runLen j)
    tinterp_linear_mean      entry j = (k·(a + b·(s + (k−1)/2)), k), s = runStart j, k = runLen j:
                             the period mean is the line at the midpoint of the period
 5. tinterp_inputs_unchanged the model is a pure function; the weights passed to the smoother are
                             the ORIGINAL template, not the vector the observations were written to
                             (definitional).  Whether the Python routine mutates its arguments is
                             checked on the Python side.

Remarks.
 * "labels form contiguous runs" (`ContiguousLabels`) is part of the informal contract but no
   statement about values needs it: code and model work on maximal runs of equal CONSECUTIVE
   labels.  It is kept out of `Contract` and only used to identify the number of runs with the
   number of distinct labels.
 * `hline` is stated with `x[rank t i]? = some _`, i.e. it includes that the observation exists.
 * `temp[-1] = x[-1]`: if the last template cell is a mark, its rank is x.length − 1 under the
   contract, so the overwrite changes nothing; otherwise its weight is 0 and the smoother never
   looks at it (C06core.ws2d_affine only reads cells with nonzero weight).
-/
namespace Hdc.C20
open Hdc.C01 (fn InContract)

set_option linter.unusedSectionVars false

variable {α : Type} [Field α] [LinearOrder α] [IsStrictOrderedRing α]

/-! ### Specification side (independent of the model code) -/

/-- number of marks (nonzero template cells) strictly before position `i` -/
def rank (t : List α) (i : ℕ) : ℕ := (t.take i).countP (fun v => decide (v ≠ 0))

/-- maximal runs of equal consecutive labels -/
def runs (labels : List Int) : List (List Int) := labels.splitBy (· == ·)

/-- length of run `j` (0 if there is no such run) -/
def runLen (labels : List Int) (j : ℕ) : ℕ := ((runs labels).map List.length).getD j 0

/-- first day of run `j` -/
def runStart (labels : List Int) (j : ℕ) : ℕ := (((runs labels).map List.length).take j).sum

/-- for consecutive spans of lengths `ks` starting at day `s`: (Σ of `f` over the span, length) -/
def spanSums (f : ℕ → α) : ℕ → List ℕ → List (α × ℕ)
  | _, [] => []
  | s, k :: ks => (∑ i ∈ Finset.Ico s (s + k), f i, k) :: spanSums f (s + k) ks

/-- each label value occupies one contiguous block: a label never comes back after a different
    label has intervened (not needed by any statement about values below) -/
def ContiguousLabels (labels : List Int) : Prop :=
  ∀ (l₁ l₂ l₃ : List Int) (u v : Int), labels = l₁ ++ u :: l₂ ++ v :: l₃ → u ∈ l₃ → v = u

/-- the contract of `tinterpolate` -/
structure Contract (x t : List α) (labels : List Int) : Prop where
  bin : ∀ v ∈ t, v = 0 ∨ v = 1
  ones : t.count 1 = x.length
  len : t.length = labels.length
  four : 4 ≤ t.length

/-! ### Bridge to the lemma file -/

theorem rank_eq (t : List α) (i : ℕ) : rank t i = Stats.marksBefore t i := rfl

theorem spanSums_eq (f : ℕ → α) (s : ℕ) (ks : List ℕ) : spanSums f s ks = Stats.spanSums f s ks := by
  induction ks generalizing s with
  | nil => rfl
  | cons k ks ih => rw [spanSums, Stats.spanSums, ih]

variable {x t : List α} {labels : List Int} {lam : α}

/-! ### `runs` are the maximal runs -/

theorem runs_flatten (labels : List Int) : (runs labels).flatten = labels :=
  List.flatten_splitBy _ _

theorem runs_ne_nil (labels : List Int) : ∀ r ∈ runs labels, r ≠ [] :=
  fun _ hr => List.ne_nil_of_mem_splitBy hr

/-- inside a run neighbouring labels are equal (hence all are) -/
theorem runs_const (labels : List Int) : ∀ r ∈ runs labels, r.IsChain (· = ·) := by
  intro r hr
  have := List.isChain_of_mem_splitBy hr
  exact this.imp (fun _ _ h => by simpa using h)

/-- maximality: the last label of a run differs from the first label of the next run -/
theorem runs_adjacent_ne (labels : List Int) :
    (runs labels).IsChain fun r r' => ∃ h h', r.getLast h ≠ r'.head h' := by
  have := List.isChain_getLast_head_splitBy (· == ·) labels
  exact this.imp (fun _ _ ⟨h, h', hne⟩ => ⟨h, h', by simpa using hne⟩)

theorem runs_length_sum (labels : List Int) : ((runs labels).map List.length).sum = labels.length :=
  Stats.sum_length_splitBy _ _

/-- with contiguous labels the number of runs is the number of distinct labels -/
theorem runs_length_distinct (labels : List Int) (h : ContiguousLabels labels) :
    (runs labels).length = labels.toFinset.card :=
  Stats.length_splitBy_eq_card labels h

/-- non-decreasing labels (period numbers) are contiguous -/
theorem contiguous_of_sorted (labels : List Int) (h : labels.Pairwise (· ≤ ·)) :
    ContiguousLabels labels := by
  intro l₁ l₂ l₃ u v hl hu
  subst hl
  rw [List.pairwise_append] at h
  obtain ⟨_, h2, h3⟩ := h
  have huv : u ≤ v := h3 u (by simp) v (by simp)
  have hvu : v ≤ u := (List.pairwise_cons.1 h2).1 u hu
  exact le_antisymm hvu huv

/-! ### 1. scattering the observations -/

theorem scatterMarks_length (t x : List α) : (scatterMarks t x).length = t.length :=
  Stats.scatterMarks_length t x

/-- without any contract -/
theorem scatterMarks_spec_general (t x : List α) (i : ℕ) :
    (scatterMarks t x)[i]? =
      t[i]?.map (fun v => if v = 0 then 0 else x.getD (rank t i) v) :=
  Stats.scatterMarks_getElem? t x i

theorem rank_lt (h : Contract x t labels) (i : ℕ) (hi : i < t.length) (hm : t[i] ≠ 0) :
    rank t i < x.length := by
  rw [← h.ones, ← Stats.countP_ne_zero_of_bin t h.bin]
  exact Stats.marksBefore_lt_of_mark t i hi hm

theorem scatterMarks_spec (h : Contract x t labels) (i : ℕ) (hi : i < t.length) :
    (scatterMarks t x)[i]'(by rw [scatterMarks_length]; exact hi) =
      if hm : t[i] = 0 then 0 else x[rank t i]'(rank_lt h i hi hm) := by
  rw [List.getElem_eq_iff, scatterMarks_spec_general, List.getElem?_eq_getElem hi, Option.map_some]
  congr 1
  by_cases hm : t[i] = 0
  · rw [if_pos hm, dif_pos hm]
  · rw [if_neg hm, dif_neg hm, List.getD_eq_getElem?_getD,
      List.getElem?_eq_getElem (rank_lt h i hi hm), Option.getD_some]

/-- the vector handed to the smoother: at every mark (the last cell included) it holds the
    observation belonging to that mark -/
theorem temp_spec (h : Contract x t labels) (i : ℕ) (hi : i < t.length) (hm : t[i] ≠ 0) :
    fn (setLast (scatterMarks t x) (x.getLastD (nat 0))) i = x[rank t i]'(rank_lt h i hi hm) :=
  Stats.temp_at_mark t x h.bin h.ones i hi hm _ (List.getElem?_eq_getElem _)

/-! ### 2. run sums -/

theorem runMeans_spec (labels : List Int) (z : List α) (hz : labels.length ≤ z.length) :
    runMeans (labels.zip z) none =
      (((runs labels).map List.length).splitLengths z).map (fun c => (c.sum, c.length)) :=
  Stats.runMeans_none labels z hz

theorem runMeans_spec_sum (labels : List Int) (z : List α) (hz : labels.length ≤ z.length) :
    runMeans (labels.zip z) none = spanSums (fn z) 0 ((runs labels).map List.length) := by
  rw [spanSums_eq]; exact Stats.runMeans_spanSums labels z hz

theorem spanSums_getElem? (f : ℕ → α) (s : ℕ) (ks : List ℕ) (j : ℕ) :
    (spanSums f s ks)[j]? = ks[j]?.map (fun k =>
      (∑ i ∈ Finset.Ico (s + (ks.take j).sum) (s + (ks.take j).sum + k), f i, k)) := by
  rw [spanSums_eq]; exact Stats.spanSums_getElem? f s ks j

theorem spanSums_runs_entry (f : ℕ → α) (labels : List Int) (j : ℕ) (hj : j < (runs labels).length) :
    (spanSums f 0 ((runs labels).map List.length))[j]? =
      some (∑ i ∈ Finset.Ico (runStart labels j) (runStart labels j + runLen labels j), f i,
        runLen labels j) := by
  have hj' : j < ((runs labels).map List.length).length := by simpa using hj
  rw [spanSums_getElem?, List.getElem?_eq_getElem hj', Option.map_some, zero_add]
  have : runLen labels j = ((runs labels).map List.length)[j] := by
    unfold runLen; rw [List.getD_eq_getElem?_getD, List.getElem?_eq_getElem hj', Option.getD_some]
  rw [this]; rfl

theorem runMeans_entry (labels : List Int) (z : List α) (hz : labels.length ≤ z.length) (j : ℕ)
    (hj : j < (runs labels).length) :
    (runMeans (labels.zip z) none)[j]? =
      some (∑ i ∈ Finset.Ico (runStart labels j) (runStart labels j + runLen labels j), fn z i,
        runLen labels j) := by
  rw [runMeans_spec_sum labels z hz, spanSums_runs_entry _ _ _ hj]

theorem runMeans_length (labels : List Int) (z : List α) (hz : labels.length ≤ z.length) :
    (runMeans (labels.zip z) none).length = (runs labels).length := by
  rw [runMeans_spec_sum labels z hz, spanSums_eq, Stats.spanSums_length, List.length_map]

theorem runMeans_counts (labels : List Int) (z : List α) (hz : labels.length ≤ z.length) :
    (runMeans (labels.zip z) none).map Prod.snd = (runs labels).map List.length := by
  rw [runMeans_spec_sum labels z hz, spanSums_eq, Stats.spanSums_snd]

theorem runMeans_counts_sum (labels : List Int) (z : List α) (hz : labels.length ≤ z.length) :
    ((runMeans (labels.zip z) none).map Prod.snd).sum = labels.length := by
  rw [runMeans_counts labels z hz, runs_length_sum]

/-- `zip` truncates to the shorter list -/
theorem runMeans_truncate (labels : List Int) (z : List α) :
    runMeans (labels.zip z) none = runMeans ((labels.take z.length).zip z) none := by
  congr 1
  induction labels generalizing z with
  | nil => simp
  | cons a l ih =>
    cases z with
    | nil => simp
    | cons y ys => simp [← ih ys]

/-- the output of `tinterp` has one entry per run, the counts are the run lengths (no hypothesis
    besides equal lengths of template and labels) -/
theorem tinterp_length (lam : α) (x t : List α) (labels : List Int) (hlen : t.length = labels.length) :
    (tinterp lam x t labels).length = (runs labels).length :=
  runMeans_length labels _ (by rw [Stats.tinterp_z_length, hlen])

theorem tinterp_counts (lam : α) (x t : List α) (labels : List Int) (hlen : t.length = labels.length) :
    (tinterp lam x t labels).map Prod.snd = (runs labels).map List.length :=
  runMeans_counts labels _ (by rw [Stats.tinterp_z_length, hlen])

/-- with contiguous labels: one output entry per distinct label -/
theorem tinterp_length_distinct (lam : α) (x t : List α) (labels : List Int)
    (hlen : t.length = labels.length) (h : ContiguousLabels labels) :
    (tinterp lam x t labels).length = labels.toFinset.card := by
  rw [tinterp_length lam x t labels hlen, runs_length_distinct labels h]

/-! ### 4. observations on a straight line in day number -/

theorem tinterp_curve (h : Contract x t labels) (h2 : 2 ≤ x.length) (hlam : 0 < lam) (a b : α)
    (hline : ∀ i (hi : i < t.length), t[i] ≠ 0 → x[rank t i]? = some (a + b * (i : α))) :
    ∀ i < t.length,
      fn (ws2d (setLast (scatterMarks t x) (x.getLastD (nat 0))) lam t) i = a + b * (i : α) :=
  Stats.tinterp_curve lam t x h.bin h.ones h.four h2 hlam a b hline

theorem tinterp_linear (h : Contract x t labels) (h2 : 2 ≤ x.length) (hlam : 0 < lam) (a b : α)
    (hline : ∀ i (hi : i < t.length), t[i] ≠ 0 → x[rank t i]? = some (a + b * (i : α))) :
    tinterp lam x t labels =
      spanSums (fun i => a + b * (i : α)) 0 ((runs labels).map List.length) := by
  rw [spanSums_eq]
  exact Stats.tinterp_spanSums lam x t labels h.bin h.ones h.len h.four h2 hlam a b hline

theorem tinterp_linear_entry (h : Contract x t labels) (h2 : 2 ≤ x.length) (hlam : 0 < lam)
    (a b : α)
    (hline : ∀ i (hi : i < t.length), t[i] ≠ 0 → x[rank t i]? = some (a + b * (i : α)))
    (j : ℕ) (hj : j < (runs labels).length) :
    (tinterp lam x t labels)[j]? =
      some (∑ i ∈ Finset.Ico (runStart labels j) (runStart labels j + runLen labels j),
        (a + b * (i : α)), runLen labels j) := by
  rw [tinterp_linear h h2 hlam a b hline, spanSums_runs_entry _ _ _ hj]

/-- the period mean of a line is the line at the midpoint of the period -/
theorem tinterp_linear_mean (h : Contract x t labels) (h2 : 2 ≤ x.length) (hlam : 0 < lam)
    (a b : α)
    (hline : ∀ i (hi : i < t.length), t[i] ≠ 0 → x[rank t i]? = some (a + b * (i : α)))
    (j : ℕ) (hj : j < (runs labels).length) :
    (tinterp lam x t labels)[j]? =
      some ((runLen labels j : α) *
          (a + b * ((runStart labels j : α) + ((runLen labels j : α) - 1) / 2)),
        runLen labels j) := by
  rw [tinterp_linear_entry h h2 hlam a b hline j hj, Stats.sum_Ico_affine]

/-! ### 3. constant observations -/

theorem spanSums_const (c : α) (s : ℕ) (ks : List ℕ) :
    spanSums (fun _ => c) s ks = ks.map (fun (k : ℕ) => ((k : α) * c, k)) := by
  induction ks generalizing s with
  | nil => rfl
  | cons k ks ih => rw [spanSums, ih, Stats.sum_Ico_const, List.map_cons]

theorem tinterp_const (h : Contract x t labels) (h2 : 2 ≤ x.length) (hlam : 0 < lam) (c : α)
    (hc : ∀ v ∈ x, v = c) :
    tinterp lam x t labels = (runs labels).map (fun r => ((r.length : α) * c, r.length)) := by
  have hline : ∀ i (hi : i < t.length), t[i] ≠ 0 →
      x[rank t i]? = some (c + 0 * (i : α)) := by
    intro i hi hm
    have hr := rank_lt h i hi hm
    rw [List.getElem?_eq_getElem hr, hc _ (List.getElem_mem hr)]
    simp
  rw [tinterp_linear h h2 hlam c 0 hline]
  have : (fun i : ℕ => c + 0 * (i : α)) = fun _ => c := by funext i; simp
  rw [this, spanSums_const, List.map_map]
  rfl

/-! ### 5. purity -/

/-- The model is a pure function of `(lam, x, template, labels)`: it returns a new list and neither
    `template` nor `labels` is part of the output.  The one thing that can be said inside the model
    is that the weights of the smoother are the ORIGINAL template, not the vector into which the
    observations were written (the source works on two copies `temp`, `w`).  That the Python
    routine leaves its argument arrays untouched is checked on the Python side. -/
theorem tinterp_inputs_unchanged (lam : α) (x t : List α) (labels : List Int) :
    tinterp lam x t labels =
      runMeans (labels.zip (ws2d (setLast (scatterMarks t x) (x.getLastD (nat 0))) lam t)) none :=
  rfl

/-! ### Non-vacuity -/

/-- six days, marks on days 0, 3, 5 (the last cell is a mark), two periods of three days -/
theorem ex_contract : Contract (α := ℚ) [2, 5, 7] [1, 0, 0, 1, 0, 1] [7, 7, 7, 8, 8, 8] where
  bin := by simp
  ones := by simp
  len := by decide
  four := by decide

/-- the observations 2, 5, 7 lie on the line 2 + i at the marks i = 0, 3, 5 -/
theorem ex_line : ∀ i (hi : i < ([1, 0, 0, 1, 0, 1] : List ℚ).length),
    ([1, 0, 0, 1, 0, 1] : List ℚ)[i] ≠ 0 →
      ([2, 5, 7] : List ℚ)[rank ([1, 0, 0, 1, 0, 1] : List ℚ) i]? = some (2 + 1 * (i : ℚ)) := by
  intro i hi hm
  simp only [List.length_cons, List.length_nil] at hi
  interval_cases i <;> simp [rank] at hm ⊢ <;> norm_num

/-- `tinterp_linear` applied: period sums 2+3+4 and 5+6+7 -/
example (lam : ℚ) (hlam : 0 < lam) :
    tinterp lam [2, 5, 7] [1, 0, 0, 1, 0, 1] [7, 7, 7, 8, 8, 8] = [(9, 3), (18, 3)] := by
  rw [tinterp_linear ex_contract (by decide) hlam 2 1 ex_line]
  have : runs [7, 7, 7, 8, 8, 8] = [[7, 7, 7], [8, 8, 8]] := by decide
  rw [this]
  simp [spanSums, Finset.sum_Ico_eq_sum_range, Finset.sum_range_succ]
  norm_num

/-- constant observations, last template cell NOT a mark (so `temp[-1] = x[-1]` writes into a
    cell of weight 0), three periods of lengths 2, 3, 1 -/
theorem ex_contract' : Contract (α := ℚ) [4, 4, 4] [1, 0, 1, 0, 1, 0] [1, 1, 2, 2, 2, 3] where
  bin := by simp
  ones := by simp
  len := by decide
  four := by decide

example (lam : ℚ) (hlam : 0 < lam) :
    tinterp lam [4, 4, 4] [1, 0, 1, 0, 1, 0] [1, 1, 2, 2, 2, 3] = [(8, 2), (12, 3), (4, 1)] := by
  rw [tinterp_const ex_contract' (by decide) hlam 4 (by simp)]
  have : runs [1, 1, 2, 2, 2, 3] = [[1, 1], [2, 2, 2], [3]] := by decide
  rw [this]
  norm_num

example : ContiguousLabels [7, 7, 7, 8, 8, 8] :=
  contiguous_of_sorted _ (by decide)

end Hdc.C20
