import Hdc.Model.Discrete
/-
C19  Iterative aggregation yields exactly the complete trailing windows.
A window is the slice [jj, ii) of the axis; its last step has index ii - 1.
-/
namespace Hdc.C19

/-- every window produced has its end index in `(endIx, b]` and spans `n` steps -/
theorem iterWindows_mem' (n endIx b jj ii : Nat) :
    (jj, ii) ∈ iterWindows n endIx b ↔ (ii = jj + n ∧ n ≤ ii ∧ endIx < ii ∧ ii ≤ b) := by
  induction b with
  | zero => simp [iterWindows]; omega
  | succ b ih =>
    unfold iterWindows
    split
    · simp; omega
    · split
      · simp only [List.mem_cons, Prod.mk.injEq, ih]; omega
      · rw [ih]; omega

/-- exactly the windows of n steps that fit inside the axis and whose last step index ii-1 lies in [endIx, b-1] -/
theorem iterWindows_mem (n endIx b jj ii : Nat) (hn : 0 < n) :
    (jj, ii) ∈ iterWindows n endIx b ↔ (ii = jj + n ∧ endIx < ii ∧ ii ≤ b) := by
  have _ := hn
  rw [iterWindows_mem']; omega

/-- newest first, no repetition -/
theorem iterWindows_sorted (n endIx b : Nat) : (iterWindows n endIx b).Pairwise (fun p q => q.2 < p.2) := by
  induction b with
  | zero => simp [iterWindows]
  | succ b ih =>
    unfold iterWindows
    split
    · exact List.Pairwise.nil
    · split
      · refine List.Pairwise.cons ?_ ih
        rintro ⟨jj, ii⟩ hq
        have := (iterWindows_mem' n endIx b jj ii).1 hq
        simp only; omega
      · exact ih

theorem iterWindows_size (n endIx b : Nat) : ∀ p ∈ iterWindows n endIx b, p.2 - p.1 = n ∧ p.1 < p.2 ∨ n = 0 := by
  rintro ⟨jj, ii⟩ hp
  have := (iterWindows_mem' n endIx b jj ii).1 hp
  simp only; omega

/-- a label that cannot be located (get_indexer = -1) raises ValueError -/
theorem iterAgg_unlocatable_begin (size n : Nat) (e : Option Int) : iterAgg size n (some (-1)) e = .error .valueError := by
  cases e with
  | none => simp [iterAgg]
  | some r => by_cases h : r < 0 <;> simp [iterAgg, h]

theorem iterAgg_unlocatable_end (size n : Nat) (b : Option Int) (hb : b ≠ some (-1)) : iterAgg size n b (some (-1)) = .error .valueError := by
  cases b with
  | none => simp [iterAgg]
  | some r =>
    have h : ¬ (r + 1 = 0) := by
      intro h; apply hb; congr 1; omega
    simp [iterAgg, h]

/-- located labels never raise, and give the windows whose last step lies between end and begin inclusive -/
theorem iterAgg_located (size n : Nat) (bi ei : Nat) :
    iterAgg size n (some bi) (some ei) = .ok (iterWindows n ei (bi + 1)) := by
  have h1 : ¬ ((bi : Int) + 1 = 0) := by omega
  have h2 : ¬ ((ei : Int) < 0) := by omega
  have h3 : ((bi : Int) + 1).toNat = bi + 1 := by omega
  simp [iterAgg, h1, h2, h3]

theorem iterAgg_defaults (size n : Nat) : iterAgg size n none none = .ok (iterWindows n 0 size) := by
  simp [iterAgg]

/-- windows never reach outside the axis when begin defaults to `size` -/
theorem iterAgg_defaults_in_range (size n : Nat) :
    ∀ p ∈ iterWindows n 0 size, p.1 + n = p.2 ∧ p.2 ≤ size := by
  rintro ⟨jj, ii⟩ hp
  have := (iterWindows_mem' n 0 size jj ii).1 hp
  simp only; omega

/-- the number of windows: one per admissible end index -/
theorem iterWindows_length (n endIx b : Nat) :
    (iterWindows n endIx b).length = b - max endIx (n - 1) := by
  induction b with
  | zero => simp [iterWindows]
  | succ b ih =>
    unfold iterWindows
    split
    · simp; omega
    · split
      · simp only [List.length_cons, ih]; omega
      · rw [ih]; omega

-- non-vacuity
example : iterAgg 5 2 none none = .ok [(3,5),(2,4),(1,3),(0,2)] := rfl
example : iterAgg 5 2 (some 3) (some 1) = .ok [(2,4),(1,3),(0,2)] := rfl
example : (1, 3) ∈ iterWindows 2 0 5 := by decide
example : iterAgg 5 2 (some (-1)) none = .error .valueError := rfl

end Hdc.C19
