import Hdc.Model.Discrete
/-
C19  Iterative aggregation yields exactly the complete trailing windows.
A window is the slice [jj, ii) of the axis; its last step has index ii - 1.
-/
namespace Hdc.C19

-- THEOREMS TO PROVE (statements fixed)
-- /-- exactly the windows of n steps that fit inside the axis and whose last step index ii-1 lies in [endIx, b-1] -/
-- theorem iterWindows_mem (n endIx b jj ii : Nat) (hn : 0 < n) :
--     (jj, ii) ∈ iterWindows n endIx b ↔ (ii = jj + n ∧ endIx < ii ∧ ii ≤ b)
-- /-- newest first, no repetition -/
-- theorem iterWindows_sorted (n endIx b : Nat) : (iterWindows n endIx b).Pairwise (fun p q => q.2 < p.2)
-- theorem iterWindows_size (n endIx b : Nat) : ∀ p ∈ iterWindows n endIx b, p.2 - p.1 = n ∧ p.1 < p.2 ∨ n = 0
-- /-- a label that cannot be located (get_indexer = -1) raises ValueError -/
-- theorem iterAgg_unlocatable_begin (size n : Nat) (e : Option Int) : iterAgg size n (some (-1)) e = .error .valueError
-- theorem iterAgg_unlocatable_end (size n : Nat) (b : Option Int) (hb : b ≠ some (-1)) : iterAgg size n b (some (-1)) = .error .valueError
-- /-- located labels never raise, and give the windows whose last step lies between end and begin inclusive -/
-- theorem iterAgg_located (size n : Nat) (bi ei : Nat) :
--     iterAgg size n (some bi) (some ei) = .ok (iterWindows n ei (bi + 1))
-- theorem iterAgg_defaults (size n : Nat) : iterAgg size n none none = .ok (iterWindows n 0 size)
-- example: iterAgg 5 2 none none = .ok [(3,5),(2,4),(1,3),(0,2)] by decide/rfl

end Hdc.C19
