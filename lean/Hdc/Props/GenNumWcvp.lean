import Hdc.Lemmas.GenNumWcvTac
import Hdc.Gen.NumWs2dwcvp
import Std.Tactic.Do
/-
GenNumWcvp  The GENERATED translation of `hdc/algo/ops/ws2dwcvp.py::ws2dwcvp` (Hdc/Gen/NumWs2dwcvp.lean, written by
harness/py2lean_wcv.py) computes the hand model `Hdc.wcvp` — the whole function: the λ selection shared with ws2dwcv
(robust loop, loop over the λ grid), then the asymmetric re-weighting loop `for _ in range(10)` with its `break`, the
final fit and the rounding:

  gen_ws2dwcvp_eq_model  ws2dwcvp G cos isnan isinf rnd pi y nodata p llas robust out lopt
                           = wcvOut rnd y (wcvp G (x == nodata or isnan x or isinf x) y p llas robust)

Hypotheses and conventions as in GenNumWcv.lean (`hG`: eigenvalue table = the source's expression; `hl`: `lopt` is a
one-cell buffer; every `y`, `p`, `llas`, `nodata`, `robust`, `out`).

Invariants: `OuterInv`, `SweepOk` as for ws2dwcv, and `IrlsOk` for the re-weighting loop (the model's `irls`,
continued from the current `(z, ww)` with the remaining passes, returns what it returns from the zero curve; at a
`break` the remaining budget is 0) — Hdc/Lemmas/GenNumWcv.lean.  10 invariants, 67 conditions; those of the λ
selection are discharged by the same tactic macros as for ws2dwcv (Hdc/Lemmas/GenNumWcvTac.lean).
-/
namespace Hdc.GenNum
open Hdc Hdc.Gen.NumKernels Hdc.PyNpW Hdc.Smooth Std.Do

set_option mvcgen.warning false
set_option linter.unusedSimpArgs false
set_option linter.unusedTactic false
set_option linter.unreachableTactic false
set_option linter.unusedVariables false

section wcvp
variable {α : Type} [Field α] [LinearOrder α] [IsStrictOrderedRing α]

set_option hygiene false in
/-- after the robust loop: fix `robust`, and read off the model's λ selection from the loop invariant -/
local macro "wcvp_post" : tactic => `(tactic| (
  first
    | (have hnr : ¬ robust = true := by assumption
       have hrob : robust = false := by simpa using hnr)
    | (have hrob : robust = true := by assumption)
  have hinv := ‹OuterInv _ _ _ _ _ _ _ _ _ _ _ _ _ _ _ _ _›
  first
    | rw [show (pyRange 0 1).length = (if robust = true then 4 else 1) by
        rw [hrob]; simp [pyRange_length]] at hinv
    | rw [show (pyRange 0 4).length = (if robust = true then 4 else 1) by
        rw [hrob]; simp [pyRange_length]] at hinv
  have hfin := OuterInv.final _ y llas _ h4 hinv))

set_option hygiene false in
/-- one pass of the re-weighting loop (`robust_weights` is bound): the new weights `ww`, the new curve
    `znew`, the distance `z_tmp` are the model's -/
local macro "wcvp_pass" : tactic => `(tactic| (
  obtain ⟨hb, hI⟩ := hF hu
  refine ⟨hb, ?_⟩
  py_name ww as wwn; py_name wa as wa3; py_name wa as wa2; py_name wa as wa1; py_name envelope as env
  py_name znew as zn2; py_name znew as zn1; py_name z as zs; py_name z_tmp as zt
  py_name robust_weights as rwts; py_name pref as pre; py_name robust_gcv as rg
  obtain ⟨k, hk⟩ : ∃ k, 10 - pre.length = k + 1 := ⟨9 - pre.length, by omega⟩
  rw [hk] at hI
  have hzs : zs.size = (cleanOf (missG nodata isnan isinf) y).length := hI.zlen
  have hzn1 : zn1.size = (cleanOf (missG nodata isnan isinf) y).length := hI.nlen
  have hwa1 : wa1.size = (cleanOf (missG nodata isnan isinf) y).length := hI.alen
  have hw : rwts.toList.length = (cleanOf (missG nodata isnan isinf) y).length := by
    simpa using hrsz.trans hlen.symm
  have hwa3 : wa3.size = (cleanOf (missG nodata isnan isinf) y).length := by
    simp only [wa3, wa2, env, size_npMaskSet, size_npMap, size_npMap2, hwa1, hzs, hysz, hlen]
    simp
  have hww : wwn.toList = asymW p rwts.toList (cleanOf (missG nodata isnan isinf) y) zs.toList := by
    simp only [wwn, wa3, wa2, env, toList_npMap2, toList_npMaskSet, toList_npMap, hya]
    exact asym_np p _ _ _ _ (by simpa using hzs) (by simpa using hwa1)
  have hwwsz : wwn.size = ya.size := by
    have := congrArg List.length hww
    rw [asymW_length, hw] at this
    simp only [Array.length_toList, hzs, hlen, Nat.min_self] at this
    rw [this, hysz]
  have hzn2 : zn2 = (ws2d (cleanOf (missG nodata isnan isinf) y)
      (rd (rdA rg (if robust = true then 1 else 0)) 1)
      (asymW p rwts.toList (cleanOf (missG nodata isnan isinf) y) zs.toList)).toArray := by
    rw [show zn2 = npSetSlice zn1 0 ma (Gen.Ws2d.ws2d ya _ wwn) from rfl,
      npSetSlice_full _ _ _ (by rw [hma, hzn1, hlen])
        (by rw [gen_ws2d_sizeW _ _ _ hwwsz (by omega), hysz, hzn1, hlen]),
      rd_wr_zero _ _ (by omega), gen_ws2d_arrW _ _ _ hwwsz (by omega), hya, hww]
    simp [hrob]
  have hzt : zt = l1dist zn2.toList zs.toList := by
    simp only [zt, npSum, toList_npMap, toList_npMap2]
    exact l1dist_np _ _))

set_option maxHeartbeats 4000000 in
/-- The translated `ws2dwcvp` equals the hand model `Hdc.wcvp`, as the pair of arrays `(out, lopt)` a caller
    sees; `none` = the source's unbound-variable failure. -/
theorem gen_ws2dwcvp_eq_model (G : GFns α) (cos : α → α) (isnan isinf : α → Bool) (rnd : α → α) (pi : α)
    (y llas : List α) (nodata p : α) (robust : Bool) (out0 lopt0 : Array α)
    (hG : ∀ i m : ℕ, G.eig i m = -2 + 2 * cos ((i : α) * pi / (m : α))) (hl : lopt0.size = 1) :
    Gen.NumKernels.ws2dwcvp G cos isnan isinf rnd pi y.toArray nodata p llas.toArray robust out0 lopt0 =
      wcvOut rnd y (wcvp G (missG nodata isnan isinf) y p llas robust) := by
  generalize hres : Gen.NumKernels.ws2dwcvp G cos isnan isinf rnd pi y.toArray nodata p llas.toArray robust out0 lopt0 = res
  apply Id.of_wp_run_eq hres
  mvcgen invariants
  · outer_inv
  · sweep_inv
  · sweep_inv
  · irls_inv
  · irls_inv
  · outer_inv
  · sweep_inv
  · sweep_inv
  · irls_inv
  · irls_inv
  all_goals wcv_setup
  all_goals first
    -- the pass-through branch `n <= 4`
    | (have h4 : ¬ 4 < countValid (missG nodata isnan isinf) y := by
         rw [← four_lt_n_iff, ← hna]
         intro h
         exact ‹¬ decide (_ < _) = true› (decide_eq_true h)
       rw [wcvp_unfold, if_neg h4]
       simp [wcvOut, wr_one _ _ hl, ya])
    | wcv_setup_y
  all_goals try wcv_vc_absurd
  all_goals first
    | wcv_vc_init
    | wcv_vc_sweep_init
    | wcv_vc_sweep_step
    | wcv_vc_plain
    | wcv_vc_unset
    | wcv_vc_robust
    -- entry of the re-weighting loop: `z[:] = 0.0`
    | (wcvp_post
       refine ⟨fun h => h, fun hu => ?_⟩
       rcases hfin with ⟨hu', -⟩ | ⟨-, hset, hrsz, hzsz, hsel⟩
       · exact absurd hu (by rw [hu']; decide)
       · exact ⟨hu, IrlsOk.init _ _ _ _ _ _ ma.toNat (by rw [hma, hlen]; simp) (hzsz.trans hlen.symm)⟩)
    -- one pass of the re-weighting loop
    | (wcvp_post
       obtain ⟨hT, hF⟩ := ‹(_ = true → _ = true) ∧ (_ = false → _ ∧ IrlsOk _ _ _ _ _ _ _ _ _)›
       refine ⟨fun h => ?_, fun hu => ?_⟩
       · first
           | trivial
           | exact hT h
       · rcases hfin with ⟨hu', -⟩ | ⟨-, hset, hrsz, hzsz, hsel⟩
         · exact absurd hu (by rw [hu']; decide)
         · py_name robust_weights_set as rws
           first
             -- `robust_weights` unbound: impossible after the robust loop
             | (exfalso
                have h2 := ‹(!rws) = true›
                rw [Bool.not_eq_true'] at h2
                exact Bool.noConfusion (hset.symm.trans h2))
             -- the pass reproduces the curve: `break`
             | (wcvp_pass
                rw [show 10 - (pyRange 0 10).length = 0 by simp [pyRange_length]]
                exact hI.stop hw hww hzn2 hwa3 (by rw [← hzt]; exact ‹eqv zt (nat 0) = true›))
             -- otherwise `z[0:m] = znew[0:m]`
             | (wcvp_pass
                have hz' : npSetSlice zs 0 ma (npSlice zn2 0 ma) = zn2 := by
                  have hzn2sz : zn2.size = zs.size := by
                    rw [hzn2, List.size_toArray, C01.ws2d_length _ _ _ (by
                      rw [asymW_length, hw]; simp [hzs]), hzs]
                  rw [npSlice_full _ _ (by rw [hma, hzn2sz, hzs, hlen]),
                    npSetSlice_full _ _ _ (by rw [hma, hzs, hlen]) hzn2sz]
                py_name cur as cu
                rw [hz', show 10 - (pre ++ [cu]).length = k by
                  simp only [List.length_append, List.length_singleton]; omega]
                exact hI.step hw hww hzn2 hwa3 (by rw [← hzt]; exact ‹¬ eqv zt (nat 0) = true›)))
    -- after the loop: the final fit with the last weights, rounding
    | (wcvp_post
       obtain ⟨hT, hF⟩ := ‹(_ = true → _ = true) ∧ (_ = false → _ ∧ IrlsOk _ _ _ _ _ _ _ _ _)›
       rcases hfin with ⟨hu', hsel⟩ | ⟨hu', hset, hrsz, hzsz, hsel⟩
       · rw [wcvp_unfold, if_pos h4, hsel, hT hu']
         rfl
       · obtain ⟨hb, hI⟩ := hF hu'
         rw [show 10 - (pyRange 0 10).length = 0 by simp [pyRange_length]] at hI
         obtain ⟨hex, hwsz⟩ := hI.final
         rw [wcvp_unfold, if_pos h4, hsel, outOf_some, hex, hb, rd_wr_zero _ _ (by omega),
           gen_ws2d_arrW _ _ _ (by rw [hwsz, hysz, hlen]) (by omega), hya, wr_one _ _ hl]
         simp [wcvOut, hrob]
         try first
           | rfl
           | exact ⟨rfl, rfl⟩)

end wcvp

/-! ### non-vacuity: concrete rational inputs (toy transcendental functions) -/

/-- a toy cosine over ℚ -/
def cosqp (x : ℚ) : ℚ := 1 - x * x / 2

/-- toy `GFns` over ℚ: `sqrt x = x`, `x ** 0.5 = x`, `10 ** x = x + 1`, `big = 10⁶` -/
def Gqp : GFns ℚ :=
  ⟨fun i m => -2 + 2 * cosqp ((i : ℚ) * 3 / (m : ℚ)), 1 / 1000, fun x => x, fun x => x, fun x => x + 1, 1000000,
    3 / 2, 5, 1000⟩

theorem hGqp : ∀ i m : ℕ, Gqp.eig i m = -2 + 2 * cosqp ((i : ℚ) * 3 / (m : ℚ)) := fun _ _ => rfl

/-- `robust = False`, `p = 9/10`: six valid cells, two grid points; the buffers start with garbage -/
example :
    Gen.NumKernels.ws2dwcvp Gqp cosqp (fun _ => false) (fun _ => false) (fun v => v) 3
        [1, 5, 2, 8, 3, 4].toArray (-1) (9 / 10) [0, 1].toArray false #[] #[9]
      = some (#[66554629 / 17720169, 86412385 / 17720169, 103828418 / 17720169, 117345812 / 17720169,
          122088247 / 17720169, 124166396 / 17720169], #[2]) := by
  rw [gen_ws2dwcvp_eq_model _ _ _ _ _ _ _ _ _ _ _ _ _ hGqp rfl]
  decide +kernel

/-- four valid cells: pass-through, `lopt = 0` -/
example :
    Gen.NumKernels.ws2dwcvp Gqp cosqp (fun _ => false) (fun _ => false) (fun v => v) 3
        [1, 5, -1, -1, 8, 3, -1].toArray (-1) (9 / 10) [0, 1].toArray true #[7] #[9]
      = some (#[1, 5, -1, -1, 8, 3, -1], #[0]) := by
  rw [gen_ws2dwcvp_eq_model _ _ _ _ _ _ _ _ _ _ _ _ _ hGqp rfl]
  decide +kernel

/-- `robust = True` and no GCV score below the initial best (`big = 0`): the source reads the unbound
    `y_temp`: no result -/
example :
    Gen.NumKernels.ws2dwcvp { Gqp with big := 0 } cosqp (fun _ => false) (fun _ => false) (fun v => v) 3
        [1, 5, 2, 8, 3, 4].toArray (-1) (9 / 10) [0, 1].toArray true #[] #[9] = none := by
  rw [gen_ws2dwcvp_eq_model _ _ _ _ _ _ _ _ _ _ _ _ _ (fun _ _ => rfl) rfl]
  decide +kernel

/-- `robust = True` (stated against the model: its `median` sorts with `List.mergeSort`, which the kernel
    cannot evaluate; `#eval` agrees on both sides) -/
example :
    Gen.NumKernels.ws2dwcvp Gqp cosqp (fun _ => false) (fun _ => false) (fun v => v) 3
        [1, 5, 2, -1, 8, 3, 4].toArray (-1) (9 / 10) [0, 1].toArray true #[] #[9]
      = wcvOut (fun v => v) [1, 5, 2, -1, 8, 3, 4]
          (wcvp Gqp (missG (-1) (fun _ => false) (fun _ => false)) [1, 5, 2, -1, 8, 3, 4] (9 / 10) [0, 1] true) :=
  gen_ws2dwcvp_eq_model _ _ _ _ _ _ _ _ _ _ _ _ _ hGqp rfl

end Hdc.GenNum
