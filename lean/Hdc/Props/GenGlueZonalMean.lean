import Hdc.Gen.GlueZonalMean
import Hdc.Lemmas.GenGlue
import Hdc.Model.AccPx
/-
GenGlueZonalMean  The GENERATED translation of the accessor `ZonalStatistics.mean` (Hdc/Gen/GlueZonalMean.lean) equals the decision
model (Hdc/Model/AccPx.lean): the four validation errors in order; NaN cells replaced by the nodata attribute BEFORE anything else
is read; both branches call `do_mean` with the same five arguments and `out_dtype=np.dtype(dtype).type`; the dask key carries the
content token iff `name` is a str; dims = (first dim, dim_name, "stat"), stat coordinate ["mean", "valid"], zone coordinate
`zone_ids`, `num_zones = len(zone_ids)`.
-/
namespace Hdc.GenGluePx
open Hdc Hdc.PyGlue Hdc.Gen.Glue Hdc.GenGlue

variable {Z DT Obj Attrs Coords Arr ZArr Tok Chunks V ZV Data Res : Type} [Inhabited Data]

/-- the five positional arguments + `out_dtype` of the `do_mean` call, read off the NaN-filled object -/
def zonalCallOf (fill : Obj → Obj) (npdt : DT → DT) (data_of : Obj → Arr) (zdata : ZArr) (nd_of : Obj → V) (znd : ZV)
    (obj : Obj) (zone_ids : List Z) (dtype : DT) : ZonalCall Arr ZArr V ZV DT :=
  { data := data_of (fill obj), zones := zdata, numZones := (zone_ids.length : Int), nodata := nd_of (fill obj),
    zonesNodata := znd, outDtype := npdt dtype }

theorem gen_zonal_mean_acc_eq_model (obj : Obj) (isds hasnd : Obj → Bool) (zda zhn : Bool) (fill : Obj → Obj)
    (attrs : Obj → Attrs) (fd : Obj → String) (mkc : String → Obj → String → List Z → String → List String → Coords)
    (npdt : DT → DT) (isdask : Obj → Bool) (data_of : Obj → Arr) (zdata : ZArr) (tok : Arr → ZArr → DT → Tok)
    (nwt : Option String → Tok → String) (mkch : Arr → Int → Chunks) (nd_of : Obj → V) (znd : ZV)
    (mb : Arr → ZArr → Int → V → ZV → Chunks → DT → Option String → Data) (call : Arr → ZArr → Int → V → ZV → DT → Data)
    (mkda : Data → String × String × String → Coords → Attrs → Option String → Res)
    (zone_ids : List Z) (dtype : DT) (dim_name : String) (name : Option String) :
    zonal_mean_acc obj isds hasnd zda zhn fill attrs fd mkc npdt isdask data_of zdata tok nwt mkch nd_of znd mb call mkda
        zone_ids dtype dim_name name
      = (zonalMeanChecks (isds obj) (hasnd obj) zda zhn).map fun _ =>
          let xx := fill obj
          let c := zonalCallOf fill npdt data_of zdata nd_of znd obj zone_ids dtype
          let data := if isdask xx
            then mb c.data c.zones c.numZones c.nodata c.zonesNodata (mkch c.data c.numZones) c.outDtype
                   (zonalDaskName name fun n => nwt n (tok c.data c.zones c.outDtype))
            else call c.data c.zones c.numZones c.nodata c.zonesNodata c.outDtype
          mkda data (zonalDims (fd xx) dim_name) (mkc (fd xx) xx dim_name zone_ids "stat" zonalStatCoord) (attrs xx) name := by
  unfold zonal_mean_acc zonalMeanChecks
  cases h1 : isds obj <;> cases h2 : hasnd obj <;> cases zda <;> cases zhn <;> cases h5 : isdask (fill obj) <;> cases name
  all_goals simp only [h1, h2, zonalCallOf, zonalDaskName, zonalDims, zonalStatCoord, len, Except.map]
  all_goals try glue_eval
  all_goals try simp only [h5]
  all_goals try glue_eval
  all_goals try rfl

/-- the validations, in order -/
theorem gen_zonal_mean_acc_checks_order :
    zonalMeanChecks true false false false = .error .notImplementedError
    ∧ (∀ b c, zonalMeanChecks false false b c = .error .valueError)
    ∧ (∀ c, zonalMeanChecks false true false c = .error .valueError)
    ∧ zonalMeanChecks false true true false = .error .valueError
    ∧ zonalMeanChecks false true true true = .ok () := by
  refine ⟨rfl, ?_, ?_, rfl, rfl⟩
  · intro b c; rfl
  · intro c; rfl

/-- C12: when `da.map_blocks(do_mean, a.., chunks, out_dtype, name)` computes what `do_mean(a.., out_dtype)` computes, the accessor's
    result does not depend on whether the input is a dask collection -/
theorem gen_zonal_mean_acc_dask_eq_eager (obj : Obj) (isds hasnd : Obj → Bool) (zda zhn : Bool) (fill : Obj → Obj)
    (attrs : Obj → Attrs) (fd : Obj → String) (mkc : String → Obj → String → List Z → String → List String → Coords)
    (npdt : DT → DT) (data_of : Obj → Arr) (zdata : ZArr) (tok : Arr → ZArr → DT → Tok)
    (nwt : Option String → Tok → String) (mkch : Arr → Int → Chunks) (nd_of : Obj → V) (znd : ZV)
    (call : Arr → ZArr → Int → V → ZV → DT → Data)
    (mkda : Data → String × String × String → Coords → Attrs → Option String → Res)
    (zone_ids : List Z) (dtype : DT) (dim_name : String) (name : Option String) :
    zonal_mean_acc obj isds hasnd zda zhn fill attrs fd mkc npdt (fun _ => true) data_of zdata tok nwt mkch nd_of znd
        (fun a b k n1 n2 _ d _ => call a b k n1 n2 d) call mkda zone_ids dtype dim_name name
      = zonal_mean_acc obj isds hasnd zda zhn fill attrs fd mkc npdt (fun _ => false) data_of zdata tok nwt mkch nd_of znd
        (fun a b k n1 n2 _ d _ => call a b k n1 n2 d) call mkda zone_ids dtype dim_name name := by
  rw [gen_zonal_mean_acc_eq_model, gen_zonal_mean_acc_eq_model]
  rfl

/-- the dask key: token appended iff a name was given -/
theorem zonalDaskName_some (n : String) (f : Option String → String) : zonalDaskName (some n) f = some (f (some n)) := rfl
theorem zonalDaskName_none (f : Option String → String) : zonalDaskName none f = none := rfl

-- non-vacuity: everything recorded symbolically (dask branch, named)
example : zonal_mean_acc (Z := Int) (DT := String) (Obj := String) (Attrs := String) (Coords := String × List Int × String × List String)
    (Arr := String) (ZArr := String) (Tok := String) (Chunks := Int) (V := String) (ZV := String)
    (Data := String × Option String) (Res := (String × Option String) × (String × String × String) × Option String)
    "x" (fun _ => false) (fun _ => true) true true (fun o => o ++ "'") (fun _ => "attrs") (fun _ => "time")
    (fun a _ n z k s => (a ++ n, z, k, s)) (fun d => d ++ "_t") (fun _ => true) (fun o => o ++ ".data") "z.data"
    (fun a b d => a ++ b ++ d) (fun n t => (n.getD "") ++ "-" ++ t) (fun _ k => k) (fun o => o ++ ".nodata") "z.nodata"
    (fun a _ _ n1 _ _ d nm => (a ++ n1 ++ d, nm)) (fun a _ _ n1 _ d => (a ++ n1 ++ d, none))
    (fun data dims _ _ nm => (data, dims, nm)) [0, 1, 2] "f4" "zones" (some "nm")
    = .ok (("x'.datax'.nodataf4_t", some "nm-x'.dataz.dataf4_t"), ("time", "zones", "stat"), some "nm") := by
  rw [gen_zonal_mean_acc_eq_model]; rfl

end Hdc.GenGluePx
