import Hdc.Props.TypesCommon
/-
Type-level theorems of the compiled kernel `ws2dwcv` (see Hdc/Props/TypesCommon.lean for the families, the whitelists and
their justification).  One module per kernel, so that a change to the typing / decorator of one kernel breaks the obligations
of the properties anchored at that kernel only.
-/
namespace Hdc.Props.Types
open Hdc.Types Hdc.Gen.Types

gufunc_family ws2dwcv documented prod [[.f64, .f32, .i16], sc, [.f64], [.b]]

end Hdc.Props.Types
