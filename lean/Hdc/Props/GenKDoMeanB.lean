import Hdc.Lemmas.GenKDoMeanB
import Hdc.Gen.KDoMean
import Std.Tactic.Do
/-
GenKDoMeanB  `Gen.Kernels.do_mean` = `Hdc.zonalMean` under a BOUNDED exactness of the floating addition.

Hdc/Props/GenKDoMean.lean assumes `hadd : ∀ a b, F.add (F.lit a) (F.lit b) = F.lit (a + b)`: float addition exact on ALL
integers, which no floating type of finite precision satisfies.  Here the hypothesis is what the float64 accumulator
`sums` provides,

    haddB : ∀ a b, |a| ≤ B → |b| ≤ B → |a + b| ≤ B → F.add (F.lit a) (F.lit b) = F.lit (a + b)        (B = 2^53 for float64)

and in exchange the data must keep every `sums[z]` within that range:

    hB : in every time step `tix < T`, for every zone `k < num_zones`, the absolute values of the cells counted for the
         zone sum to at most B (`Hdc.zoneAbsSum (time step tix) zones nodata z_nodata k ≤ B`, Hdc/Model/RoundAcc.lean).

`|n| ≤ B` is written `n.natAbs ≤ B`.  The proof is the one of GenKDoMean.lean with the step `sums[z_idx] += pix` taken from
Hdc/Lemmas/GenKDoMeanB.lean (`ZAcc.cellB`); the invariants are unchanged.

What stays idealised (as in GenKDoMean.lean): the result cells are of the SAME abstract type `β` as the accumulator and
hold the unevaluated quotient `F.div (F.lit sum) (F.lit count)` and `F.lit count`: neither the division nor the store into
the `out_dtype` array (float32 by default: a count above 2^24, or a mean that is not a float32 number, is rounded by that
store) is modelled.  The int64 counter `counts` is exact (Int) - it would need 2^63 cells per zone to overflow.
-/
namespace Hdc.GenKDoMean
open Hdc Hdc.Gen.Kernels Hdc.PyNpT Hdc.GenKernels Std.Do

set_option mvcgen.warning false
set_option linter.unusedSimpArgs false
set_option linter.unusedTactic false
set_option linter.unreachableTactic false

variable {β : Type}

/-- The translated `do_mean` returns, for every time step and every zone, `[mean, count]` given by the model's exact
    `(sum, count)` (as `gen_do_mean_eq_model`).

    Hypotheses: `haddB`, additions of integers are exact in the accumulator type AS LONG AS operands and result stay within
    `B`; `hB`, per time step and zone the absolute values of the counted cells sum to at most `B` (so every partial sum does,
    in any order of the cells); `hp`, `hz`, `hlab` as in `gen_do_mean_eq_model`. -/
theorem gen_do_mean_eq_model_B (F : FloatOps β) (B : ℕ)
    (haddB : ∀ a b : Int, a.natAbs ≤ B → b.natAbs ≤ B → (a + b).natAbs ≤ B →
      F.add (F.lit a) (F.lit b) = F.lit (a + b))
    (pixels zones : List Int) (t nr nc nz : Nat) (nd znd : Int)
    (hp : pixels.length = t * (nr * nc)) (hz : zones.length = nr * nc)
    (hlab : ∀ z ∈ zones, z = znd ∨ 0 ≤ z)
    (hB : ∀ tix < t, ∀ k < nz,
      zoneAbsSum ((pixels.drop (tix * (nr * nc))).take (nr * nc)) zones nd znd (k : ℕ) ≤ B) :
    (Gen.Kernels.do_mean F pixels.toArray t nr nc zones.toArray nr nc nz nd znd).toList
      = (List.range t).flatMap fun tix =>
          (Hdc.zonalMean ((pixels.drop (tix * (nr * nc))).take (nr * nc)) zones nz nd znd).flatMap
            fun sc => [F.quot F.nan sc.1 sc.2, F.lit (sc.2 : ℕ)] := by
  show _ = zdone F pixels zones (nr * nc) nz nd znd t
  replace hB : ∀ tix < t, ∀ k < nz, zasum nd znd (k : ℕ) (cells pixels zones (nr * nc) tix) ≤ B := hB
  generalize hres : Gen.Kernels.do_mean F pixels.toArray t nr nc zones.toArray nr nc nz nd znd = res
  apply Id.of_wp_run_eq hres
  mvcgen invariants
  -- time steps, state `(pix, z_idx, result, sums, counts)`
  · ⇓⟨xs, s⟩ => ⌜ROut F pixels zones t (nr * nc) nz nd znd xs.prefix.length s.2.2.1 s.2.2.2.1 s.2.2.2.2⌝
  -- rows, state `(pix, z_idx, sums, counts)`
  · ⇓⟨xs, s⟩ => by
      py_name cur as tix
      exact ⌜ZAcc F nd znd nz ((cells pixels zones (nr * nc) tix.toNat).take (xs.prefix.length * nc))
        s.2.2.1 s.2.2.2⌝
  -- columns, same state
  · ⇓⟨xs, s⟩ => by
      py_name cur as rw; py_name cur as tix
      exact ⌜ZAcc F nd znd nz
        ((cells pixels zones (nr * nc) tix.toNat).take (rw.toNat * nc + xs.prefix.length)) s.2.2.1 s.2.2.2⌝
  -- zones of the output, state `result`
  · ⇓⟨xs, s⟩ => by
      py_name cur as tix
      exact ⌜RIn F pixels zones t (nr * nc) nz nd znd tix.toNat xs.prefix.length s⌝
  all_goals
    py_ranges
    simp (config := {zetaDelta := true}) only [List.size_toArray,
      List.length_append, List.length_singleton, List.length_nil, pyRange_length,
      decide_eq_true_eq, Bool.and_eq_true, not_lt, Int.zero_add, Int.sub_zero, Int.toNat_natCast,
      Nat.zero_mul, Nat.add_zero, List.take_zero] at *
    py_subst_ranges
    try simp only [Int.toNat_natCast] at *
  all_goals first
    -- one cell: counted (`sums[z_idx] += pix; counts[z_idx] += 1`) / not counted
    | exact (ZAcc.cellB haddB hB hlab hp hz (by omega) (by omega) (by omega)
        ‹ZAcc _ _ _ _ (List.take (_ + _) _) _ _› rfl rfl).1 ‹_›
    | exact (ZAcc.cellB haddB hB hlab hp hz (by omega) (by omega) (by omega)
        ‹ZAcc _ _ _ _ (List.take (_ + _) _) _ _› rfl rfl).2 ‹_›
    -- entry of the loop over the columns
    | assumption
    -- exit of the loop over the columns: one more row
    | exact (‹ZAcc _ _ _ _ (List.take (_ + _) _) _ _›).cast (congrArg (fun n => List.take n _) (by ring))
    -- `sums[:] = 0; counts[:] = 0`
    | exact ZAcc.init F nd znd (‹ROut _ _ _ _ _ _ _ _ _ _ _ _›).ssize (‹ROut _ _ _ _ _ _ _ _ _ _ _ _›).csize
    -- one zone of the output: the mean or NaN, and the count
    | exact (‹RIn _ _ _ _ _ _ _ _ _ _ _›).step (by omega) (by omega) ‹ZAcc _ _ _ _ _ _ _› rfl rfl
        (by split <;> first | rfl | omega) rfl
    -- entry and exit of the loop over the zones
    | exact (‹ROut _ _ _ _ _ _ _ _ _ _ _ _›).enter
    | exact (‹RIn _ _ _ _ _ _ _ _ _ _ _›).exit (‹ZAcc _ _ _ _ _ _ _›).ssize (‹ZAcc _ _ _ _ _ _ _›).csize
    -- the allocations before the loops; the result after them
    | exact ROut.init F pixels zones t (nr * nc) nz nd znd
    | exact (‹ROut _ _ _ _ _ _ _ _ _ _ _ _›).final


/-- a sufficient condition: `Y·X` cells per time step of absolute value ≤ `M` with `Y·X·M ≤ B` -/
theorem zoneAbsSum_le (pix zones : List Int) (nd znd k : Int) (M : ℕ)
    (hM : ∀ x ∈ pix, x ≠ nd → x.natAbs ≤ M) : zoneAbsSum pix zones nd znd k ≤ pix.length * M := by
  unfold zoneAbsSum
  have key : ∀ l : List (Int × Int), (∀ p ∈ l, p.1.natAbs ≤ M) → (l.map fun p => p.1.natAbs).sum ≤ l.length * M := by
    intro l hl
    induction l with
    | nil => simp
    | cons p ps ih =>
      have := hl p (by simp)
      have := ih (fun q hq => hl q (by simp [hq]))
      simp only [List.map_cons, List.sum_cons, List.length_cons, Nat.add_mul, Nat.one_mul]
      omega
  refine Nat.le_trans (key _ ?_) (Nat.mul_le_mul_right M ?_)
  · intro p hp
    rw [List.mem_filter] at hp
    obtain ⟨v, z⟩ := p
    have hv : v ≠ nd := by have := hp.2; simp at this; exact this.1
    exact hM v (List.of_mem_zip hp.1).1 hv
  · refine Nat.le_trans (List.length_filter_le _ _) ?_
    rw [List.length_zip]; exact Nat.min_le_left _ _

/-- float64 accumulator, rasters of `Y·X` cells of absolute value ≤ `M` with `Y·X·M ≤ 2^53` (every int16 raster of up to
    2^38 cells, every int32 raster of up to 2^22 cells): the conclusion of `gen_do_mean_eq_model`. -/
theorem gen_do_mean_eq_model_f64 (F : FloatOps β)
    (haddB : ∀ a b : Int, a.natAbs ≤ B64 → b.natAbs ≤ B64 → (a + b).natAbs ≤ B64 →
      F.add (F.lit a) (F.lit b) = F.lit (a + b))
    (pixels zones : List Int) (t nr nc nz : Nat) (nd znd : Int) (M : ℕ)
    (hp : pixels.length = t * (nr * nc)) (hz : zones.length = nr * nc)
    (hlab : ∀ z ∈ zones, z = znd ∨ 0 ≤ z)
    (hM : ∀ x ∈ pixels, x ≠ nd → x.natAbs ≤ M) (hn : nr * nc * M ≤ 2 ^ 53) :
    (Gen.Kernels.do_mean F pixels.toArray t nr nc zones.toArray nr nc nz nd znd).toList
      = (List.range t).flatMap fun tix =>
          (Hdc.zonalMean ((pixels.drop (tix * (nr * nc))).take (nr * nc)) zones nz nd znd).flatMap
            fun sc => [F.quot F.nan sc.1 sc.2, F.lit (sc.2 : ℕ)] := by
  refine gen_do_mean_eq_model_B F B64 haddB pixels zones t nr nc nz nd znd hp hz hlab (fun tix _ k _ => ?_)
  refine Nat.le_trans (zoneAbsSum_le _ zones nd znd _ M
    (fun x hx => hM x (List.mem_of_mem_drop (List.mem_of_mem_take hx)))) (Nat.le_trans ?_ hn)
  exact Nat.mul_le_mul_right M (by rw [List.length_take]; exact Nat.min_le_left _ _)

/-- **The old theorem is the special case "B = ∞".**  An unconditional `hadd` is a bounded one for EVERY `B`; any `B` above the
    data's `zoneAbsSum`s (here `Y·X · Σ|x|`) discharges `hB`.  So `gen_do_mean_eq_model` of Hdc/Props/GenKDoMean.lean
    follows from the bounded theorem: -/
theorem gen_do_mean_eq_model_of_unbounded (F : FloatOps β)
    (hadd : ∀ a b : Int, F.add (F.lit a) (F.lit b) = F.lit (a + b))
    (pixels zones : List Int) (t nr nc nz : Nat) (nd znd : Int)
    (hp : pixels.length = t * (nr * nc)) (hz : zones.length = nr * nc)
    (hlab : ∀ z ∈ zones, z = znd ∨ 0 ≤ z) :
    (Gen.Kernels.do_mean F pixels.toArray t nr nc zones.toArray nr nc nz nd znd).toList
      = (List.range t).flatMap fun tix =>
          (Hdc.zonalMean ((pixels.drop (tix * (nr * nc))).take (nr * nc)) zones nz nd znd).flatMap
            fun sc => [F.quot F.nan sc.1 sc.2, F.lit (sc.2 : ℕ)] := by
  let M : ℕ := (pixels.map Int.natAbs).sum
  have key : ∀ l : List Int, ∀ x ∈ l, x.natAbs ≤ (l.map Int.natAbs).sum := by
    intro l
    induction l with
    | nil => simp
    | cons y ys ih =>
      intro x hx
      rcases List.mem_cons.mp hx with rfl | hx
      · simp
      · have := ih x hx; simp only [List.map_cons, List.sum_cons]; omega
  refine gen_do_mean_eq_model_B F (nr * nc * M) (fun a b _ _ _ => hadd a b) pixels zones t nr nc nz nd znd hp hz hlab
    (fun tix _ k _ => ?_)
  refine Nat.le_trans (zoneAbsSum_le _ zones nd znd _ M
    (fun x hx _ => key pixels x (List.mem_of_mem_drop (List.mem_of_mem_take hx)))) ?_
  exact Nat.mul_le_mul_right M (by rw [List.length_take]; exact Nat.min_le_left _ _)

/-! ### Non-vacuity, and the hypotheses are needed -/

/-- a float type that ROUNDS (`FloatOps.pairR toy`: additions exact up to 4, above only even values), two time steps of a
    1 × 3 raster, zones `[0, 0, 1]`; within the bound (zone 0: 1 + 2, 2 + 2; zone 1: 4, 3) the exact (sum, count) pairs -/
example : (Gen.Kernels.do_mean (FloatOps.pairR IntRound.toy) [1, 2, 4, 2, -2, -3].toArray ((2 : ℕ) : ℤ) ((1 : ℕ) : ℤ)
      ((3 : ℕ) : ℤ) [0, 0, 1].toArray ((1 : ℕ) : ℤ) ((3 : ℕ) : ℤ) ((2 : ℕ) : ℤ) (-1) (-9)).toList
    = [(3, 2), (2, 1), (4, 1), (1, 1), (0, 2), (2, 1), (-3, 1), (1, 1)] := by
  rw [gen_do_mean_eq_model_B (FloatOps.pairR IntRound.toy) 4 (FloatOps.pairR_hadd IntRound.toy) _ _ 2 1 3 2 (-1) (-9)
    (by decide) (by decide) (by decide)
    (by intro tix ht k hk
        obtain rfl | rfl : tix = 0 ∨ tix = 1 := by omega
        all_goals obtain rfl | rfl : k = 0 ∨ k = 1 := by omega
        all_goals decide)]
  decide

/-- `hB` is needed: the same float type, a zone whose absolute values sum to 5 > 4 (cells 3 and 2): the program returns
    the ROUNDED sum 4, the model's exact sum is 5.  (`haddB` holds for `pairR toy` with B = 4, so only `hB` fails.)
    Note that the SIGNED sum may well be small: cells 3, 2, −4 have the sum 1 but the accumulator passes through 5. -/
theorem do_mean_bound_needed :
    (Gen.Kernels.do_mean (FloatOps.pairR IntRound.toy) #[3, 2] 1 1 2 #[0, 0] 1 2 1 (-1) (-9)).toList
      = [(4, 2), (2, 1)] ∧
    Hdc.zonalMean [3, 2] [0, 0] 1 (-1) (-9) = [(5, 2)] ∧
    zoneAbsSum [3, 2] [0, 0] (-1) (-9) 0 = 5 ∧
    (Gen.Kernels.do_mean (FloatOps.pairR IntRound.toy) #[3, 2, -4] 1 1 3 #[0, 0, 0] 1 3 1 (-1) (-9)).toList
      = [(0, 3), (3, 1)] ∧
    Hdc.zonalMean [3, 2, -4] [0, 0, 0] 1 (-1) (-9) = [(1, 3)] := by
  decide +kernel

/-- `haddB` is needed: with B = 6 the data of `do_mean_bound_needed` satisfies `hB` (5 ≤ 6), but the float type `pairR toy` is
    exact only up to 4 - `haddB` fails at 3 + 2 - and program and model differ (4 vs 5, see `do_mean_bound_needed`) -/
theorem do_mean_haddB_needed :
    (∀ tix < 1, ∀ k < 1, zoneAbsSum (([3, 2].drop (tix * (1 * 2))).take (1 * 2)) [0, 0] (-1) (-9) (k : ℕ) ≤ 6) ∧
    ¬ (∀ a b : Int, a.natAbs ≤ 6 → b.natAbs ≤ 6 → (a + b).natAbs ≤ 6 →
      (FloatOps.pairR IntRound.toy).add ((FloatOps.pairR IntRound.toy).lit a) ((FloatOps.pairR IntRound.toy).lit b)
        = (FloatOps.pairR IntRound.toy).lit (a + b)) := by
  refine ⟨fun tix ht k hk => ?_, fun h => absurd (h 3 2 (by decide) (by decide) (by decide)) (by decide)⟩
  obtain rfl : tix = 0 := by omega
  obtain rfl : k = 0 := by omega
  decide

/-- binary64 on the integers (`pairR IntRound.f64`): two cells 2^53 and 1 in one zone, the `+ 1` is lost -/
theorem do_mean_f64_witness :
    (Gen.Kernels.do_mean (FloatOps.pairR IntRound.f64) #[9007199254740992, 1] 1 1 2 #[0, 0] 1 2 1 (-1) (-9)).toList
      = [(9007199254740992, 2), (2, 1)] ∧
    Hdc.zonalMean [9007199254740992, 1] [0, 0] 1 (-1) (-9) = [(9007199254740993, 2)] := by
  decide +kernel

end Hdc.GenKDoMean
