import Hdc.Lemmas.SafeSim
import Hdc.Lemmas.SafeNp
import Hdc.Gen.SafeMeanGrp
import Hdc.Gen.KMeanGrp
import Std.Tactic.Do
/-
SafeMeanGrp  Memory safety of `ops/stats.py::mean_grp` from the source (instrumented translation Hdc/Gen/SafeMeanGrp.lean,
written by harness/py2lean_stats.py).  The kernel has no scalar subscripts: per group it builds the mask
`grp_ix = groups == grp` (as long as `groups`), gathers `pix = xx[grp_ix]`, iterates over `pix`, and scatters
`yy[grp_ix] = avg`.  Flagged: a mask whose length differs from the array it selects from (NumPy raises IndexError; Numba does
not check), and the true division `avg / n` with `n = 0`.
-/
namespace Hdc.SafeProps
open Hdc Hdc.Gen Hdc.Gen.Kernels Hdc.PyNpT Hdc.SafeSim Hdc.SafeLemmas Hdc.GenKernels Std.Do

set_option mvcgen.warning false
set_option linter.unusedSimpArgs false
set_option linter.unusedTactic false
set_option linter.unreachableTactic false

variable {β : Type}

/-- (i) the instrumented program IS the translated `mean_grp` plus a flag -/
theorem safe_mean_grp_fst (F : FloatOps β) (xx groups : Array Int) (num_groups nodata : Int) (yy : Array β) :
    (Safe.mean_grp F xx groups num_groups nodata yy).1 = Kernels.mean_grp F xx groups num_groups nodata yy := by
  unfold Safe.mean_grp Kernels.mean_grp
  safe_sim

/-- (ii) the flag stays down if - as soon as there is a group to process - `groups`, `xx` and `yy` have the same length.
    NOT needed for memory safety: anything about the group ids (an id outside `0 .. num_groups-1` matches no mask and its
    cell of `yy` is left alone), about `num_groups` (≤ 0: no iteration), about nodata.  The division `avg / n` is never by 0
    (it sits in the `else` of `if n == 0`).
    Invariant of the loop over the groups (state `(bad, yy, grp_ix, pix, n, avg)`): flag down, `yy` keeps its length;
    the loop over `pix` does not subscript. -/
theorem safe_mean_grp_ok (F : FloatOps β) (xx groups : Array Int) (num_groups nodata : Int) (yy : Array β)
    (hlen : 0 < num_groups → groups.size = xx.size ∧ groups.size = yy.size) :
    (Safe.mean_grp F xx groups num_groups nodata yy).2 = false := by
  generalize hres : Safe.mean_grp F xx groups num_groups nodata yy = res
  apply Id.of_wp_run_eq hres
  mvcgen invariants
  · ⇓⟨xs, s⟩ => ⌜s.1 = false ∧ s.2.1.size = yy.size⌝
  · ⇓⟨xs, s⟩ => ⌜True⌝
  safe_vcs [size_npEqMask, size_npMaskSet]

/-- the contract is exact: the flag is up IF AND ONLY IF there is a group to process and the three lengths are not equal -/
theorem safe_mean_grp_flag (F : FloatOps β) (xx groups : Array Int) (num_groups nodata : Int) (yy : Array β) :
    (Safe.mean_grp F xx groups num_groups nodata yy).2 = true
      ↔ (0 < num_groups ∧ ¬ (groups.size = xx.size ∧ groups.size = yy.size)) := by
  generalize hres : Safe.mean_grp F xx groups num_groups nodata yy = res
  apply Id.of_wp_run_eq hres
  mvcgen invariants
  · ⇓⟨xs, s⟩ => ⌜s.2.1.size = yy.size
      ∧ (s.1 = true ↔ (0 < xs.prefix.length ∧ ¬ (groups.size = xx.size ∧ groups.size = yy.size)))⌝
  · ⇓⟨xs, s⟩ => ⌜True⌝
  safe_vcs_iff [size_npEqMask, size_npMaskSet]

/-- the documented contract: one label and one output cell per data cell -/
theorem safe_mean_grp_ok' (F : FloatOps β) (xx groups : Array Int) (num_groups nodata : Int) (yy : Array β)
    (hx : groups.size = xx.size) (hy : yy.size = xx.size) :
    (Safe.mean_grp F xx groups num_groups nodata yy).2 = false :=
  safe_mean_grp_ok F xx groups num_groups nodata yy fun _ => ⟨hx, by omega⟩

/-! ### outside the contract the flag goes up (division kept as a pair, `FloatOps.pair`) -/

/-- `groups` shorter than `xx`: the mask of `xx[grp_ix]` has the wrong length -/
example : (Safe.mean_grp FloatOps.pair #[4, 5, 6] #[0, 1] 2 (-1) #[(0, 0), (0, 0)]).2 = true := by decide +kernel
/-- `yy` shorter than `groups`: the mask of `yy[grp_ix] = avg` has the wrong length -/
example : (Safe.mean_grp FloatOps.pair #[4, 5, 6] #[0, 1, 1] 2 (-1) #[(0, 0), (0, 0)]).2 = true := by decide +kernel
/-- the same inconsistent lengths without a group to process: nothing is accessed -/
example : (Safe.mean_grp FloatOps.pair #[4, 5, 6] #[0, 1] 0 (-1) #[(0, 0)]).2 = false := by decide +kernel
/-- in contract, with ids outside `0 .. num_groups-1` (7 and -3): flag down, their cells keep the buffer content -/
example : Safe.mean_grp FloatOps.pair #[4, -1, 6, 3, 8] #[0, 0, 0, 7, -3] 2 (-1) #[(9, 9), (9, 9), (9, 9), (9, 9), (9, 9)]
    = (#[(10, 2), (10, 2), (10, 2), (9, 9), (9, 9)], false) := by decide +kernel

end Hdc.SafeProps
