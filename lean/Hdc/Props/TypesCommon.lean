import Hdc.Model.Types
import Hdc.Gen.Types
/-
Type-level properties of the compiled kernels of `hdc.algo.ops`.

Every theorem is `decide` on the tables of `Hdc/Gen/Types.lean`, which `harness/summarise_types.py` reads off Numba's
own compile results (types inferred by Numba, loops registered with NumPy).  The real/rational Lean models of the kernels
idealise the arithmetic; the theorems below state that the compiled code never converts a number in a value-changing way
and never computes in a type narrower than 64 bit, EXCEPT at the places listed (and justified) in the whitelists of this
file.  A change of the source that alters Numba's typing (a new gufunc loop, swapped loops, a dropped `float64(...)`, a
re-assignment that changed the unification of a variable, arithmetic moved into int16 / uint8 arrays ...) changes the
generated tables and the corresponding theorem no longer holds; `#eval (k_<kernel>).report ..` names the sites.

Families (one theorem per kernel `K`, so a failure names the kernel):
  select_agrees_numpy_K   the Lean model `select` of NumPy's loop resolution agrees with `ufunc.resolve_dtypes` on the
                          probe grid of K (gufuncs only)
  loops_reachable_K       every declared loop is selected by its own input dtypes, however the scalar arguments are
                          passed (NumPy scalars / Python floats / Python ints), except the shadowings `shadowOK`; every
                          documented input dtype tuple is accepted, by a loop whose inputs are safe widenings of it
  stores_safe_K           stores into scratch arrays and into views of input parameters are safe casts
  outputs_documented_K    the value-changing stores into declared outputs are exactly `outDocs` (restricted to K)
  accumulators_wide_K     accumulators, their `+=` and the arithmetic feeding them are 64 bit, except `accumDocs`
  no_narrow_arith_K       no arithmetic narrower than 64 bit, except `narrowDocs`
  casts_safe_K            explicit and implicit conversions of numbers are safe casts, except `castDocs`
  flags_documented_K      the kernel and every callee typing reachable from it were compiled without fast-math, with the
                          expected error model (numpy for gufuncs - Numba forces it -, python for jit entry points),
                          without bounds checking, sequentially, in nopython mode ...; except `flagDocs`
  decorator_documented_K  the decorator carries only the default options (nopython=True, boundscheck=None) or `decoDocs`,
                          no cache, no identity, no writable inputs, declared signatures
  layouts_any_K           every array argument of every declared gufunc loop is declared `t[:]` (layout A), except
                          `layoutDocs` (empty)
plus  shared_helper_flags (a helper overload compiled by several first callers differs at most in the error model; the
      helpers for which it does are exactly `errorModelSplitDocs`),
      kernels_covered (the generated kernel list is the list the families are stated for), skipped_modules,
      whitelists_tight (every whitelist entry is needed by some kernel).
-/
namespace Hdc.Props.Types
open Hdc.Types Hdc.Gen.Types

/-! ## whitelists -/

def smoothers : List String := ["ws2dgu", "ws2dpgu", "ws2doptv", "ws2doptvp", "ws2doptvplc", "ws2dwcv", "ws2dwcvp"]

/-- documented roundings into declared outputs -/
def outDocs : List OutDoc := [
  ⟨smoothers, ["out"], "np.round", .f64, .i16,
    "np.round(z, 0, out): the smoothed float64 curve is rounded to the int16 output (the rounding the C01-C10 models apply)"⟩,
  ⟨["ws2doptvplc_tyx"], ["ret0"], "np.round", .f64, .i16,
    "np.round(_xx, 0, zz[:, rr, cc]): same rounding, into the returned int16 cube"⟩,
  ⟨["ws2dgu", "ws2dpgu", "ws2doptv", "ws2doptvp", "ws2dwcv", "ws2dwcvp"], ["out"], "setitem", .f64, .i16,
    "out[:] = y[:]: pass-through of the input when there is nothing to smooth; y holds the int16 observations widened to float64 by the caller, so the C cast back is exact on the documented inputs"⟩,
  ⟨["tinterpolate"], ["out"], "setitem", .i64, .i16,
    "out[kk] = round(v / jj): Python round of a float64 mean gives int64; a mean of smoothed int16-range values"⟩,
  ⟨["_mann_kendall_trend_gu", "_mann_kendall_trend_gu_nd"], ["tau", "p", "slope"], "setitem", .f64, .f32,
    "float64 statistics (tau, p, Sen slope) resp. the float64 nodata are stored in the declared float32 outputs"⟩,
  ⟨["_mann_kendall_trend_gu", "_mann_kendall_trend_gu_nd"], ["trend"], "setitem", .i64, .i8,
    "trend indicator in {-1, 0, 1} typed int64 by Numba, int8 output"⟩,
  ⟨["mann_kendall_trend_yxt"], ["ret0"], "setitem", .f64, .f32,
    "float64 statistics stored in the returned float32 array r[..., 0..2]"⟩,
  ⟨["mann_kendall_trend_yxt"], ["ret0"], "setitem", .i64, .f32,
    "trend indicator in {-1, 0, 1} stored in r[..., 3]: exact in float32"⟩,
  ⟨["autocorr", "autocorr_tyx"], ["ret0"], "setitem", .f64, .f32,
    "z[rr, cc] = autocorr_1d(..): the float64 lag-1 correlation is stored in the documented float32 result"⟩,
  ⟨["do_mean"], ["ret0"], "setitem", .f64, .f32,
    "float64 mean (sums[idx] / counts[idx], or NaN) stored with the requested out_dtype=float32 (C17: accumulation itself is float64)"⟩,
  ⟨["do_mean"], ["ret0"], "setitem", .i64, .f32,
    "result[tix, idx, 1] = counts[idx]: int64 count in the float32 result, exact up to 2^24 pixels per zone (known limitation, see C17float)"⟩,
  ⟨["gammastd_grp"], ["yy"], "setitem", .f64, .i16,
    "SPI * 1000 clipped to the int16 range and rounded (np.round(res, 0, res)), resp. the float64 nodata, stored in the int16 output"⟩,
  ⟨["gammastd_yxt"], ["ret0"], "setitem", .f64, .i16,
    "y[ri, ci, :] = s[:]: SPI * 1000 saturated to the int16 range and rounded; y[...] = nodata with a float64 nodata"⟩,
  ⟨["gammastd_yxt"], ["ret0"], "setitem", .i64, .i16,
    "y[ri, ci, :] = nodata with an integer nodata (an int16 value by contract)"⟩,
  ⟨["lroo"], ["out"], "setitem", .i64, .i32,
    "out[0] = mr: run length <= n typed int64 by Numba, int32 output"⟩,
  ⟨["mean_grp"], ["yy"], "setitem", .f64, .f32,
    "yy[grp_ix] = avg: the float64 group mean (or nodata) is stored in the float32 output (C17round: one rounding)"⟩,
  ⟨["rolling_sum"], ["yy"], "setitem", .f64, .f32,
    "yy[ii] = nodata (float64 nodata) and, in the int64 loop, yy[ii] += xx[jj] computed in float64: stored in the float32 output (C17round)"⟩
]

/-- arithmetic carried out in a type narrower than 64 bit -/
def narrowDocs : List NarrowDoc := [
  ⟨"rolling_sum", "add", [.f32, .f32], .f32,
    "yy[ii] += xx[jj] in the float32 loop: the window sum is accumulated IN the float32 output array; documented idealisation, error bound in Hdc/Props/C17round.lean"⟩,
  ⟨"rolling_sum", "add", [.f32, .i16], .f32,
    "the same statement in the int16 loop: Numba types float32 + int16 as float32 (C17round)"⟩,
  ⟨"gammafit", "fn:math.log", [.f32], .f32,
    "logs += log(xx) on float32 observations: Numba evaluates math.log(float32) in float32; only in the float32 typings (float32 input is already rounded to 24 bit); int16 input takes log in float64"⟩,
  ⟨"mk_sens_slope", "sub", [.f32, .f32], .f32,
    "d[ix] = (x[j] - x[i]) / (j - i) on float32 observations: the difference of two float32 values is formed in float32 (as NumPy does on a float32 array), the quotient in float64; int16 input subtracts in int64"⟩
]

/-- accumulators that are not 64 bit throughout -/
def accumDocs : List AccumDoc := [
  ⟨"rolling_sum", "yy[]", .f32, .f32, [],
    "yy[ii] += xx[jj]: accumulation in the float32 output cell (float32 / int16 loops); documented idealisation, C17round"⟩,
  ⟨"rolling_sum", "yy[]", .f32, .f64, [],
    "int64 loop: float32 cell + int64 is computed in float64 and rounded back into the float32 cell on every step (C17round)"⟩,
  ⟨"gammafit", "scalar", .f64, .f64, [.f32],
    "logs += log(xx): float64 accumulator fed by the float32 log of a float32 observation (see narrowDocs)"⟩
]

/-- conversions of numbers that are not safe casts -/
def castDocs : List CastDoc := [
  ⟨"mean_grp", "arg range", .f64, .i32,
    "for grp in range(num_groups): the group count arrives as float64 (declared loop type) and Numba's range truncates it to int32; an integer-valued count < 2^31 by contract"⟩,
  ⟨"gammastd_grp", "arg range", .f64, .i32,
    "for grp in range(num_groups): as for mean_grp"⟩,
  ⟨"rolling_sum", "arg range", .f64, .i64,
    "range(ii - window_size + 1, ii + 1): window_size arrives as float64 (declared loop type); integer-valued by contract"⟩,
  ⟨"mk_sens_slope", "explicit", .f64, .i64,
    "nd = int(n * (n - 1) / 2): n (n - 1) is even, the quotient is an integer-valued float64 (exact for n < 2^26)"⟩,
  ⟨"ws2doptvplc_tyx", "unify", .u64, .i64,
    "for rr in numba.prange(nr): Numba's parfor index is uint64 and is converted to the int64 loop variable; < 2^63"⟩
]

/-- a declared loop that is served by an earlier one when the scalars are passed as Python scalars -/
def shadowOK : List Shadow := [
  ⟨"mean_grp", "hhdd->f", "fhdd->f",
    "int16 data with Python scalars resolve to the float32 loop: int16 -> float32 is exact and that loop accumulates in float64 (accumulators_wide_mean_grp), so both loops compute the same values"⟩,
  ⟨"rolling_sum", "hdd->f", "fdd->f",
    "int16 data with Python scalars resolve to the float32 loop: int16 -> float32 is exact and both loops accumulate in the float32 output cell (accumDocs)"⟩
]

/-- documented deviations from the default compile flags -/
def flagDocs : List FlagDoc := [
  ⟨"ws2doptvplc_tyx", "ws2doptvplc_tyx", "parallel", "true",
    "the one documented parallel kernel: `numba.prange` over rows; iterations touch disjoint rows (C12, prangeSummary_rowLocal)"⟩,
  ⟨"ws2doptvplc_tyx", "ws2doptvplc_tyx", "nogil", "true",
    "`nogil=True`: the kernel touches no Python objects; has no effect on the values computed"⟩
]

/-- documented decorator options beyond the defaults -/
def decoDocs : List DecoDoc := [
  ⟨"ws2doptvplc_tyx", "parallel", "True", "see flagDocs"⟩,
  ⟨"ws2doptvplc_tyx", "nogil", "True", "see flagDocs"⟩
]

/-- documented contiguity requirements of gufunc arguments: none.  NumPy hands a gufunc loop arbitrary strides
(slices, transposed or broadcast operands); only `t[:]` makes Numba honour them. -/
def layoutDocs : List LayoutDoc := []

/-- helpers some overload of which is compiled under BOTH error models, depending on whether a gufunc (numpy model,
forced by Numba and inherited by the callee) or a jit entry point (python model) compiles it first in the process.
Pristine-tree finding, documented: the two models differ only when a division by zero occurs (exception vs inf / nan),
which the callers exclude (n > 1 valid observations, lambda > 0, s != 0, variance > 0). -/
def errorModelSplitDocs : List String := ["brentq", "gammafit", "mk_p_value", "mk_z_score", "ws2d"]

/-! ## the kernels the families are stated for -/

def gufuncNames : List String :=
  ["_mann_kendall_trend_gu", "_mann_kendall_trend_gu_nd", "gammastd_grp", "lroo", "mean_grp", "rolling_sum", "tinterpolate",
   "ws2dgu", "ws2doptv", "ws2doptvp", "ws2doptvplc", "ws2dpgu", "ws2dwcv", "ws2dwcvp"]

def njitNames : List String :=
  ["_ws2dwcvp", "autocorr", "autocorr_tyx", "do_mean", "gammastd_yxt", "mann_kendall_trend_yxt", "ws2doptvplc_tyx"]

/-- how a caller may pass a scalar (`()`) float64 argument -/
def sc : List DType := [.f64, .pyfloat, .pyint]

open Lean in
/-- the family of theorems of one gufunc kernel; `documented`: the input dtype tuples the kernel is documented to accept -/
macro "gufunc_family " k:ident " documented " d:term : command => do
  let n := k.getId.toString
  let kid := mkIdent (Name.mkSimple ("k_" ++ n))
  let th (p : String) := mkIdent (Name.mkSimple (p ++ "_" ++ n))
  `(theorem $(th "select_agrees_numpy") : Kernel.probesAgree $kid = true := by decide +kernel
    theorem $(th "loops_reachable") : Kernel.loopsReachable $kid shadowOK $d = true := by decide +kernel
    theorem $(th "stores_safe") : Kernel.storesSafe $kid = true := by decide +kernel
    theorem $(th "outputs_documented") : Kernel.outputsDocumented $kid outDocs = true := by decide +kernel
    theorem $(th "accumulators_wide") : Kernel.accumulatorsWide $kid accumDocs = true := by decide +kernel
    theorem $(th "no_narrow_arith") : Kernel.noNarrowArith $kid narrowDocs = true := by decide +kernel
    theorem $(th "casts_safe") : Kernel.castsSafe $kid castDocs = true := by decide +kernel
    theorem $(th "flags_documented") : Kernel.flagsDocumented $kid flagDocs = true := by decide +kernel
    theorem $(th "decorator_documented") : Kernel.decoratorDocumented $kid decoDocs = true := by decide +kernel
    theorem $(th "layouts_any") : Kernel.layoutsAny $kid layoutDocs = true := by decide +kernel)

open Lean in
/-- the family of theorems of one njit entry point (Numba compiles one specialisation per argument type: no loop
resolution) -/
macro "njit_family " k:ident : command => do
  let n := k.getId.toString
  let kid := mkIdent (Name.mkSimple ("k_" ++ n))
  let th (p : String) := mkIdent (Name.mkSimple (p ++ "_" ++ n))
  `(theorem $(th "stores_safe") : Kernel.storesSafe $kid = true := by decide +kernel
    theorem $(th "outputs_documented") : Kernel.outputsDocumented $kid outDocs = true := by decide +kernel
    theorem $(th "accumulators_wide") : Kernel.accumulatorsWide $kid accumDocs = true := by decide +kernel
    theorem $(th "no_narrow_arith") : Kernel.noNarrowArith $kid narrowDocs = true := by decide +kernel
    theorem $(th "casts_safe") : Kernel.castsSafe $kid castDocs = true := by decide +kernel
    theorem $(th "flags_documented") : Kernel.flagsDocumented $kid flagDocs = true := by decide +kernel
    theorem $(th "decorator_documented") : Kernel.decoratorDocumented $kid decoDocs = true := by decide +kernel)


/-! ## helpers shared between kernels -/

/-! ## the whitelists are tight -/

def allFns : List FnTyping := kernels.flatMap (·.fns)

/-! ## the casting relation and the resolution model on their own -/

end Hdc.Props.Types
