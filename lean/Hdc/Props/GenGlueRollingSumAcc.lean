import Hdc.Gen.GlueRollingSumAcc
import Hdc.Lemmas.GenGlue
import Hdc.Model.AccPx
/-
GenGlueRollingSumAcc  The GENERATED translation of the accessor `RollingWindowAlgos.sum` (Hdc/Gen/GlueRollingSumAcc.lean): the nodata
ARGUMENT wins over the attribute, neither -> ValueError; the kernel is called with (window_size, nodata) in this order along
`dimension`; the result is trimmed by exactly `window_size - 1` leading cells (per pixel, on the list of cells along `dimension`).
-/
namespace Hdc.GenGluePx
open Hdc Hdc.PyGlue Hdc.Gen.Glue Hdc.GenGlue

variable {V C : Type}

theorem gen_rolling_sum_acc_eq_model (an : Option V) (ap : Int → Option V → List C) (ws : Int) (nd : Option V) :
    rolling_sum_acc an ap ws nd
      = (rollingSumNodata nd an).map fun v => slice (ap ws (some v)) (some (ws - 1)) none := by
  unfold rolling_sum_acc rollingSumNodata resolveNodata
  rcases nd with _ | v <;> rcases an with _ | w <;> rfl

/-- for a window of at least one cell the slice `[..., window_size - 1:]` drops exactly the first `window_size - 1` cells -/
theorem slice_from_eq_trimLeading (cells : List C) (ws : Int) (h : 1 ≤ ws) :
    slice cells (some (ws - 1)) none = trimLeading cells ws := by
  unfold slice trimLeading
  have h0 : ¬ (ws - 1 < 0) := by omega
  simp only [h0, if_false]
  by_cases hle : ws - 1 ≤ (cells.length : Int)
  · have : (min (ws - 1) (cells.length : Int)).toNat = (ws - 1).toNat := by rw [Int.min_eq_left hle]
    rw [this, List.take_of_length_le (by simp)]
  · have h1 : (min (ws - 1) (cells.length : Int)).toNat = cells.length := by
      rw [Int.min_eq_right (by omega)]; simp
    rw [h1, List.drop_of_length_le (Nat.le_refl _), List.drop_of_length_le (by omega)]
    simp

/-- the nodata argument wins over the attribute -/
theorem gen_rolling_sum_acc_arg (an : Option V) (ap : Int → Option V → List C) (ws : Int) (v : V) (h : 1 ≤ ws) :
    rolling_sum_acc an ap ws (some v) = .ok (trimLeading (ap ws (some v)) ws) := by
  rw [gen_rolling_sum_acc_eq_model, ← slice_from_eq_trimLeading _ _ h]; rfl

/-- without an argument the attribute is used -/
theorem gen_rolling_sum_acc_attr (ap : Int → Option V → List C) (ws : Int) (w : V) (h : 1 ≤ ws) :
    rolling_sum_acc (some w) ap ws none = .ok (trimLeading (ap ws (some w)) ws) := by
  rw [gen_rolling_sum_acc_eq_model, ← slice_from_eq_trimLeading _ _ h]; rfl

/-- neither: ValueError, the kernel is not called -/
theorem gen_rolling_sum_acc_no_nodata (ap : Int → Option V → List C) (ws : Int) :
    rolling_sum_acc (none : Option V) ap ws none = .error .valueError := by
  rw [gen_rolling_sum_acc_eq_model]; rfl

/-- output length: the kernel returns `n` cells, the accessor `n - window_size + 1` (none when the window is longer than the axis) -/
theorem gen_rolling_sum_acc_length (an : Option V) (ap : Int → Option V → List C) (ws : Int) (nd : Option V) (out : List C)
    (h : 1 ≤ ws) (hok : rolling_sum_acc an ap ws nd = .ok out) :
    ∃ v, rollingSumNodata nd an = .ok v ∧ (out.length : Int) = max 0 (((ap ws (some v)).length : Int) - ws + 1) := by
  rw [gen_rolling_sum_acc_eq_model] at hok
  rcases hv : rollingSumNodata nd an with e | v
  · rw [hv] at hok; cases hok
  · rw [hv] at hok
    refine ⟨v, rfl, ?_⟩
    have : out = trimLeading (ap ws (some v)) ws := by
      rw [← slice_from_eq_trimLeading _ _ h]; injection hok with hok; exact hok.symm
    rw [this, trimLeading, List.length_drop]
    omega

-- non-vacuity: a kernel returning as many cells as the axis has (here 5), window 3: 3 cells remain, the argument wins
example : rolling_sum_acc (V := Int) (C := Int × Option Int) (some 7)
    (fun w nd => [(w, nd), (w + 1, nd), (w + 2, nd), (w + 3, nd), (w + 4, nd)]) 3 (some (-1))
    = .ok [(5, some (-1)), (6, some (-1)), (7, some (-1))] := rfl
-- `1 ≤ window_size` is needed: for window_size = 0 the slice `[..., -1:]` keeps only the LAST cell (not all 5 + 1)
example : rolling_sum_acc (V := Int) (C := Int) (some 7) (fun _ _ => [10, 11, 12, 13, 14]) 0 none = .ok [14] := rfl
example : trimLeading [10, 11, 12, 13, 14] (0 : Int) = [10, 11, 12, 13, 14] := rfl

end Hdc.GenGluePx
