import Hdc.Gen.GlueWrappers
/-
GenGlueWrappers  The one-line generator wrappers `iteragg.sum / mean / full` and the accessor registry `HDC.__init__`, as the
summariser (harness/summarise_wrappers.py) reads them from the current source (Hdc/Gen/GlueWrappers.lean, data only), against the
documented table.  C19's statement is about "the NaN-skipping sum, NaN-skipping mean, or the stacked slices": which reduction each
wrapper hands to the translated `_iteragg` (Props/GenGlueIteragg.lean) is fixed here; every argument is forwarded in the order
`_iteragg` takes them; the defaults are those of the documentation.
-/
namespace Hdc.GenGlueWrappers
open Hdc.Gen.GlueWrappers

/-- a wrapper forwards its own parameters, in order, into the slots of `_iteragg` after the reduction -/
def Forwards (w : Wrapper) : Prop := w.forwarded = w.params ∧ "func" :: w.forwarded = iteraggParams

instance (w : Wrapper) : Decidable (Forwards w) := by unfold Forwards; infer_instance

/-- the reduction each wrapper passes: NaN-skipping sum, NaN-skipping mean, none (the stacked slices) -/
theorem wrappers_reductions :
    wrappers.map (fun w => (w.name, w.reduction)) = [("sum", "np.nansum"), ("mean", "np.nanmean"), ("full", "None")] := by decide

/-- every wrapper forwards n, dim, begin, end, method unchanged and in `_iteragg`'s order -/
theorem wrappers_forward : ∀ w ∈ wrappers, Forwards w := by decide

/-- the documented defaults: the whole axis (`n = None`), along `time`, no begin / end, exact label matching -/
theorem wrappers_defaults :
    ∀ w ∈ wrappers, w.params = ["n", "dim", "begin", "end", "method"] ∧ w.defaults = ["None", "'time'", "None", "None", "None"] := by decide

/-- the three wrappers differ ONLY in the reduction -/
theorem wrappers_differ_only_in_reduction :
    ∀ w ∈ wrappers, ∀ v ∈ wrappers, w.forwarded = v.forwarded ∧ w.params = v.params ∧ w.defaults = v.defaults := by decide

/-- `DataArray.hdc.<attr>` is the documented accessor class, each constructed on the wrapped object -/
theorem registry_documented :
    registry = [("algo", "PixelAlgorithms"), ("anom", "Anomalies"), ("iteragg", "IterativeAggregation"),
                ("rolling", "RollingWindowAlgos"), ("whit", "WhittakerSmoother"), ("zonal", "ZonalStatistics")] := by decide

/-- the registry is installed under the name `hdc` for Datasets and DataArrays -/
theorem registry_decorators :
    registryDecorators = ["xarray.register_dataset_accessor('hdc')", "xarray.register_dataarray_accessor('hdc')"] := by decide

/-- no attribute is bound twice (a later binding would silently win) -/
theorem registry_nodup : (registry.map (·.1)).Nodup := by decide

/-- negative example: a wrapper that swaps two forwarded arguments is rejected by `Forwards` -/
example : ¬ Forwards ⟨"sum", "np.nansum", ["n", "dim", "end", "begin", "method"], ["n", "dim", "begin", "end", "method"], []⟩ := by decide

end Hdc.GenGlueWrappers
