import Hdc.Model.Discrete
import Hdc.Lemmas.DiscreteRuns
/-
C18  Run-length statistics equal the longest / current run of ones.
-/
namespace Hdc.C18

/-- cells `i … i+len-1` exist and are all 1 -/
def IsRun (data : List Nat) (i len : Nat) : Prop :=
  i + len ≤ data.length ∧ ∀ k, k < len → data[i + k]? = some 1

/-- length of the leading run of ones (on a newest-first series: the current run) -/
def leadingRun (s : List Nat) : Nat := (s.takeWhile fun x => x = 1).length

/-- stored (time, value) pairs in chronological order (oldest first) -/
def chrono (ps : List (Int × Nat)) : List Nat := ((sortDesc ps).reverse).map (·.2)

-- THEOREMS (statements fixed)

theorem isRun_iff (data : List Nat) (i len : Nat) : IsRun data i len ↔ Discrete.IsRun data i len := Iff.rfl
theorem leadingRun_eq (s : List Nat) : leadingRun s = Discrete.leadingRun s := rfl

theorem lroo_upper (data : List Nat) : ∀ i len, IsRun data i len → len ≤ max (lroo data) 1 :=
  fun i len h => Discrete.lroo_upper' data i len h

theorem lroo_attained (data : List Nat) (h : 2 ≤ lroo data) : ∃ i, IsRun data i (lroo data) :=
  Discrete.lroo_attained' data h

theorem lroo_ne_one (data : List Nat) : lroo data ≠ 1 := by
  unfold lroo
  simp only
  split <;> omega

theorem lroo_le_length (data : List Nat) : lroo data ≤ data.length := by
  by_cases h : 2 ≤ lroo data
  · obtain ⟨i, hi, _⟩ := lroo_attained data h
    omega
  · have := lroo_ne_one data
    omega

theorem lroo_fits_int32 (data : List Nat) (h : data.length < 2 ^ 31) : wrapS 32 (lroo data) = (lroo data : Int) := by
  have hl := lroo_le_length data
  have h1 : lroo data % 2 ^ 32 = lroo data := Nat.mod_eq_of_lt (by omega)
  have h2 : lroo data < 2 ^ (32 - 1) := by omega
  simp only [wrapS, h1, h2, if_true]

/-- the uint8 output of the pinned tree wrapped: witness kept as a regression fact -/
theorem lroo_uint8_wrapped : wrapU 8 (lroo (List.replicate 300 1)) = 44 ∧ wrapU 8 (lroo (List.replicate 256 1)) = 0 := by
  decide +kernel

theorem crooSorted_eq (s : List Nat) (hbin : ∀ x ∈ s, x = 0 ∨ x = 1) : crooSorted s = leadingRun s :=
  Discrete.crooSorted_eq' s hbin

theorem croo_perm_invariant (ps qs : List (Int × Nat)) (h : ps.Perm qs) (hd : (ps.map (·.1)).Nodup) : croo ps = croo qs := by
  unfold croo
  rw [Discrete.sortDesc_perm_invariant ps qs h hd]

theorem croo_le_lroo (ps : List (Int × Nat)) (hbin : ∀ p ∈ ps, p.2 = 0 ∨ p.2 = 1) : croo ps ≤ max (lroo (chrono ps)) 1 := by
  have hb : ∀ x ∈ (sortDesc ps).map (·.2), x = 0 ∨ x = 1 := by
    intro x hx
    obtain ⟨p, hp, rfl⟩ := List.mem_map.1 hx
    exact hbin p ((Discrete.sortDesc_perm ps).subset hp)
  have hc : chrono ps = ((sortDesc ps).map (·.2)).reverse := by
    simp [chrono, List.map_reverse]
  unfold croo
  rw [crooSorted_eq _ hb, hc]
  exact lroo_upper _ _ _
    (Discrete.isRun_reverse _ _ (Discrete.isRun_leadingRun _))

/-- the current run is exactly the trailing run of the chronological series -/
theorem croo_is_trailing_run (ps : List (Int × Nat)) (hbin : ∀ p ∈ ps, p.2 = 0 ∨ p.2 = 1) :
    IsRun (chrono ps) ((chrono ps).length - croo ps) (croo ps) := by
  have hb : ∀ x ∈ (sortDesc ps).map (·.2), x = 0 ∨ x = 1 := by
    intro x hx
    obtain ⟨p, hp, rfl⟩ := List.mem_map.1 hx
    exact hbin p ((Discrete.sortDesc_perm ps).subset hp)
  have hc : chrono ps = ((sortDesc ps).map (·.2)).reverse := by
    simp [chrono, List.map_reverse]
  unfold croo
  rw [crooSorted_eq _ hb, hc, List.length_reverse]
  exact Discrete.isRun_reverse _ _ (Discrete.isRun_leadingRun _)

/-- the sort really sorts: descending time, and a permutation of the input -/
theorem sortDesc_spec (ps : List (Int × Nat)) (hd : (ps.map (·.1)).Nodup) :
    (sortDesc ps).Perm ps ∧ (sortDesc ps).Pairwise (fun a b => b.1 < a.1) :=
  ⟨Discrete.sortDesc_perm ps, Discrete.sortDesc_sorted ps hd⟩

-- non-vacuity: a series with two runs (lengths 2 and 3)
example : lroo [1, 1, 0, 1, 1, 1, 0, 1] = 3 := by decide
example : IsRun [1, 1, 0, 1, 1, 1, 0, 1] 3 3 := by
  refine ⟨by decide, ?_⟩
  intro k hk
  have : k = 0 ∨ k = 1 ∨ k = 2 := by omega
  rcases this with rfl | rfl | rfl <;> rfl
example : IsRun [1, 1, 0, 1, 1, 1, 0, 1] 0 2 := by
  refine ⟨by decide, ?_⟩
  intro k hk
  have : k = 0 ∨ k = 1 := by omega
  rcases this with rfl | rfl <;> rfl
-- isolated ones only: no run of length ≥ 2, output 0 (never 1)
example : lroo [1, 0, 1, 0, 0, 1] = 0 := by decide
example : lroo [0, 0, 0] = 0 := by decide
example : crooSorted [1, 1, 1, 0, 1] = 3 := by decide
example : leadingRun [1, 1, 1, 0, 1] = 3 := by decide
-- a permutation pair for croo: times 10,20,30,40 stored out of order; newest-first values 1,1,0,1
example : croo [(10, 1), (20, 0), (30, 1), (40, 1)] = 2 := by decide
example : croo [(30, 1), (10, 1), (40, 1), (20, 0)] = 2 := by decide
example : [(10, 1), (20, 0), (30, 1), (40, 1)].Perm [(30, 1), ((10 : Int), (1 : Nat)), (40, 1), (20, 0)] := by decide
example : chrono [(30, 1), (10, 1), (40, 1), (20, 0)] = [1, 0, 1, 1] := by decide
-- duplicate timestamps: the hypothesis `Nodup` of `croo_perm_invariant` is needed
example : croo [(1, 1), (1, 0)] ≠ croo [(1, 0), (1, 1)] := by decide

end Hdc.C18
