import Hdc.Model.Discrete
/-
C18  Run-length statistics equal the longest / current run of ones.
-/
namespace Hdc.C18

/-- cells `i … i+len-1` exist and are all 1 -/
def IsRun (data : List Nat) (i len : Nat) : Prop :=
  i + len ≤ data.length ∧ ∀ k, k < len → data[i + k]? = some 1

/-- length of the leading run of ones (on a newest-first series: the current run) -/
def leadingRun (s : List Nat) : Nat := (s.takeWhile fun x => x = 1).length

/-- stored (time, value) pairs in chronological order (oldest first) -/
def chrono (ps : List (Int × Nat)) : List Nat := ((sortDesc ps).reverse).map (·.2)

-- THEOREMS TO PROVE (statements fixed)
-- theorem lroo_upper (data : List Nat) : ∀ i len, IsRun data i len → len ≤ max (lroo data) 1
-- theorem lroo_attained (data : List Nat) (h : 2 ≤ lroo data) : ∃ i, IsRun data i (lroo data)
-- theorem lroo_ne_one (data : List Nat) : lroo data ≠ 1
-- theorem lroo_le_length (data : List Nat) : lroo data ≤ data.length
-- theorem lroo_fits_int32 (data : List Nat) (h : data.length < 2 ^ 31) : wrapS 32 (lroo data) = (lroo data : Int)
-- /-- the uint8 output of the pinned tree wrapped: witness kept as a regression fact -/
-- theorem lroo_uint8_wrapped : wrapU 8 (lroo (List.replicate 300 1)) = 44 ∧ wrapU 8 (lroo (List.replicate 256 1)) = 0
-- theorem crooSorted_eq (s : List Nat) (hbin : ∀ x ∈ s, x = 0 ∨ x = 1) : crooSorted s = leadingRun s
-- theorem croo_perm_invariant (ps qs : List (Int × Nat)) (h : ps.Perm qs) (hd : (ps.map (·.1)).Nodup) : croo ps = croo qs
-- theorem croo_le_lroo (ps : List (Int × Nat)) (hbin : ∀ p ∈ ps, p.2 = 0 ∨ p.2 = 1) : croo ps ≤ max (lroo (chrono ps)) 1
-- non-vacuity examples: a concrete series with two runs; a concrete permutation pair for croo.

end Hdc.C18
