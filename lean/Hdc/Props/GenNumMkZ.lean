import Hdc.Gen.NumMkZ
import Std.Tactic.Do
/-
GenNumMkZ  The GENERATED translation of `ops/stats.py::mk_z_score` (Hdc/Gen/NumMkZ.lean, harness/py2lean_stats.py) is the
hand model `Hdc.mkZ`.  `sqrt` and the conversion of the integer score are the fields `F.sqrt`, `F.ofInt` of the model's
parameter record `F : MKFns α` on both sides (the refinement is modulo these externals).
-/
namespace Hdc.GenNumMk
open Hdc Hdc.Gen.NumKernels Std.Do

set_option mvcgen.warning false
set_option linter.unusedSectionVars false

section
variable {α : Type} [Add α] [Sub α] [Mul α] [Div α] [Neg α] [NatCast α] [LT α] [DecidableLT α]

/-- The translated `mk_z_score` equals the model: every `F`, every score `s`, every variance `vs`; over the bare
    operator classes (both sides are the same expression trees: no field axiom is used).  No hypothesis. -/
theorem gen_mk_z_score_eq_model (F : MKFns α) (s : Int) (vs : α) :
    Gen.NumKernels.mk_z_score F s vs = Hdc.mkZ F s vs := by
  generalize hres : Gen.NumKernels.mk_z_score F s vs = res
  apply Id.of_wp_run_eq hres
  mvcgen
  all_goals
    simp only [decide_eq_true_eq, gt_iff_lt] at *
    simp only [mkZ, *, if_true, if_false]

end

/-! ### Non-vacuity (Rat, `sqrt` replaced by the identity) -/

example : Gen.NumKernels.mk_z_score (⟨id, id, 1 / 2, 2, fun i => (i : Rat)⟩ : MKFns Rat) 7 4 = 3 / 2 := by
  rw [gen_mk_z_score_eq_model]; decide +kernel
example : Gen.NumKernels.mk_z_score (⟨id, id, 1 / 2, 2, fun i => (i : Rat)⟩ : MKFns Rat) (-7) 4 = -3 / 2 := by
  rw [gen_mk_z_score_eq_model]; decide +kernel
example : Gen.NumKernels.mk_z_score (⟨id, id, 1 / 2, 2, fun i => (i : Rat)⟩ : MKFns Rat) 0 4 = 0 := by
  rw [gen_mk_z_score_eq_model]; decide +kernel

end Hdc.GenNumMk
