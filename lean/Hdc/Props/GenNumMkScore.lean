import Hdc.Lemmas.GenNumMkScore
import Hdc.Gen.NumMkScore
import Std.Tactic.Do
/-
GenNumMkScore  The GENERATED translation of the WHOLE `ops/stats.py::mk_score` over the floating carrier
(Hdc/Gen/NumMkScore.lean, harness/py2lean_stats.py) returns the model's score `Hdc.mkS` and Kendall's tau `Hdc.mkTau`.
(The integer translation `Gen.Kernels.mk_score_counts`, GenKMk, is cut before `tau` and works on `Array Int`;
`mann_kendall_trend_1d` calls this one.)  The literal `0.5` is `F.half`; the conversion of the integers `s`, `n`, `n - 1`
to the floating type is `F.ofInt` in the generated program, while the model converts `s` with `F.ofInt` and the lengths
with the canonical cast `nat`: the theorem assumes `hof`, `F.ofInt` agrees with the canonical cast on the naturals.
-/
namespace Hdc.GenNumMk
open Hdc Hdc.Gen.NumKernels Hdc.PyNpT Hdc.GenNum Std.Do
open Hdc.Ws2d (fnl)

set_option mvcgen.warning false
set_option linter.unusedSimpArgs false
set_option linter.unusedTactic false
set_option linter.unreachableTactic false

variable {α : Type} [Field α] [LinearOrder α]

/-- The translated `mk_score` returns `(S, tau)` of the model, for any series (including the empty and the one-element
    one, where the source divides by 0 and so does the model: `x / 0 = 0` in a field).
    Hypothesis `hof`: on the naturals the int -> float conversion `F.ofInt` is the canonical cast (needed for `tau` only:
    the model writes the lengths `n`, `n - 1` with `nat`, the source converts them like `s`). -/
theorem gen_mk_score_eq_model (F : MKFns α) (hof : ∀ k : ℕ, F.ofInt (k : ℤ) = (k : α)) (x : List α) :
    Gen.NumKernels.mk_score F x.toArray = (Hdc.mkS x, Hdc.mkTau F.half x F.ofInt) := by
  generalize hres : Gen.NumKernels.mk_score F x.toArray = res
  apply Id.of_wp_run_eq hres
  mvcgen invariants
  -- outer loop, after `p` rows: everything the rows `< p` contribute
  · ⇓⟨xs, s⟩ => ⌜s = ((preA x xs.prefix.length : Int), (preB x xs.prefix.length : Int))⌝
  -- inner loop in row `k`, after `q` partners
  · ⇓⟨xs, s⟩ => by
      py_name cur as k
      exact ⌜s = ((preA x k.toNat + above x k.toNat xs.prefix.length : Int),
        (preB x k.toNat + below x k.toNat xs.prefix.length : Int))⌝
  all_goals
    pyn_ranges
    simp (config := {zetaDelta := true}) only [List.size_toArray, List.length_append,
      List.length_singleton, List.length_nil, pyRange_length, decide_eq_true_eq, gt_iff_lt,
      Prod.mk.injEq] at *
  all_goals first
    -- one iteration of the inner loop (one condition per combination of the two `if`s)
    | (py_name cur as kk; py_name cur as k
       simp (disch := omega) only [rd_nonneg, av_toArray] at *
       subst_vars
       rw [above_step x _ _ kk.toNat (by omega) (by omega),
         below_step x _ _ kk.toNat (by omega) (by omega)]
       constructor <;> split <;> first | omega | contradiction | exact (not_both (α := α) ‹_› ‹_›).elim)
    -- entry of the inner loop; exit of the inner loop: one more row counted
    | (py_name cur as k; py_name pref as pref
       have hk : k.toNat = pref.length := by omega
       have hq : ((x.length : ℤ) - (k + 1)).toNat = x.length - (pref.length + 1) := by omega
       subst_vars
       simp only [hk, hq, preA, preB, above_zero, below_zero, Nat.cast_zero, add_zero,
         Nat.cast_add, and_self])
    -- exit of the outer loop (it stops one row early: the last row has no partner), `s` and `tau`
    | (have hq : ((x.length : ℤ) - 1 - 0).toNat = x.length - 1 := by omega
       subst_vars
       have hs : ((preA x (x.length - 1) : ℤ) - (preB x (x.length - 1) : ℤ)) = mkS x := by
         rw [mkS, mkCounts_eq_pre x]
       rw [hq, hs, tau_eq F hof]
       exact ⟨rfl, rfl⟩)

/-! ### Non-vacuity: concrete rational inputs -/

/-- 4 concordant, 1 discordant pair, one tie: S = 3, tau = 3 / (0.5 · 4 · 3) -/
example : Gen.NumKernels.mk_score (⟨id, id, 1 / 2, 2, fun i => (i : ℚ)⟩ : MKFns ℚ) [1, 3, 2, 3].toArray
    = (3, 1 / 2) := by
  rw [gen_mk_score_eq_model _ (fun _ => Int.cast_natCast _)]; decide +kernel

example : Gen.NumKernels.mk_score (⟨id, id, 1 / 2, 2, fun i => (i : ℚ)⟩ : MKFns ℚ) ([] : List ℚ).toArray
    = (0, 0) := by
  rw [gen_mk_score_eq_model _ (fun _ => Int.cast_natCast _)]; decide +kernel

end Hdc.GenNumMk
