import Hdc.Gen.SafeWs2dgu
import Hdc.Gen.NumWs2dgu
import Hdc.Lemmas.SafeFixed
import Hdc.Lemmas.SafeSimN
import Std.Tactic.Do
/-
SafeWs2dgu  Safety of `hdc/algo/ops/ws2dgu.py::ws2dgu`, proved FROM THE SOURCE: `Hdc.Gen.Safe.ws2dgu` (Hdc/Gen/SafeWs2dgu.lean,
written by the instrumentation mode of harness/py2lean_fixed.py) is the statement-by-statement translation plus the flag `bad`.
The kernel is written with NumPy vector idioms: it has no subscript and no scalar division of its own; the flag is set by
  * `lenDiffer (w == 0).size y.size`     `np.where(w == 0, 0.0, y)`: condition and alternative of different lengths
  * `(Safe.ws2d y lmda w).2`             the call of the instrumented smoother (its subscripts and its 9 divisions by pivots)
  * `lenDiffer z.size out.size`          `np.round(z, 0, out)`: NumPy raises when `z` does not fit the buffer
  * `lenDiffer y.size out.size`          `out[:] = y[:]` on the two pass-through paths.

  safe_ws2dgu_fst   (Safe.ws2dgu …).1 = Gen.NumKernels.ws2dgu …       every carrier, every input
  safe_ws2dgu_ok    the flag is false under the contract
                        out.size = len y        the gufunc layout `(n),(),() -> (n)`
                        len y ≠ 2               `ws2d` needs 3 cells; with ≤ 1 cell the smoother is never called
                        0 ≤ λ                   the source tests `lmda != 0.0`, which does NOT give `λ > 0`: for `λ < 0` a pivot of the
                                                elimination can vanish (`w₀ + λ = 0` at λ = -1): the flag is true, see the examples
  `example`s        for `out.size` and `0 ≤ λ` an input over ℚ outside the hypothesis with the flag true.  For `len y ≠ 2` NO such
                    input exists as far as we can tell: with two cells every subscript of `ws2d` wraps inside `[-2, 2)` and the four
                    pivots stayed positive on every (λ, weights) tried (the result is not the least-squares curve, which is the
                    finding of GenNumGu; it is not a fault that raises): the hypothesis is there because `safe_ws2d_ok` is proved for
                    n ≥ 3 (same situation as `3 ≤ len y` in SafeWs2doptv.lean).
-/
namespace Hdc.SafeWs2dgu
open Hdc Hdc.Gen.NumKernels Hdc.GenNum Hdc.Smooth Hdc.SafeL Hdc.SafeOptv Hdc.SafeFixed Hdc.SafeSimN Std.Do Hdc.PyNpF

set_option mvcgen.warning false
set_option linter.unusedSimpArgs false
set_option linter.unusedTactic false
set_option linter.unreachableTactic false
set_option linter.unusedSectionVars false

/-- (i) the instrumented program is the translated source plus a flag -/
theorem safe_ws2dgu_fst {α : Type} [Add α] [Sub α] [Mul α] [Div α] [Neg α] [NatCast α] [LT α] [DecidableLT α]
    (rnd : α → α) (isnan isinf : α → Bool) (y : Array α) (lam nodata : α) (out : Array α) :
    (Gen.Safe.ws2dgu rnd isnan isinf y lam nodata out).1 = Gen.NumKernels.ws2dgu rnd isnan isinf y lam nodata out := by
  unfold Gen.Safe.ws2dgu Gen.NumKernels.ws2dgu
  simp only [SafeWs2d.safe_ws2d_fst]
  safe_sim

variable {α : Type} [Field α] [LinearOrder α] [IsStrictOrderedRing α]

/-- (ii) under the contract the flag is false -/
theorem safe_ws2dgu_ok (rnd : α → α) (isnan isinf : α → Bool) (y : List α) (lam nodata : α)
    (out0 : Array α) (hout : out0.size = y.length) (h2 : y.length ≠ 2) (hlam : 0 ≤ lam) :
    (Gen.Safe.ws2dgu rnd isnan isinf y.toArray lam nodata out0).2 = false := by
  generalize hres : Gen.Safe.ws2dgu rnd isnan isinf y.toArray lam nodata out0 = res
  apply Id.of_wp_run_eq hres
  mvcgen
  -- every combinator is the list operation it stands for; `w`, `n > 1`, the cleaned `y` are the model's
  all_goals
    simp (config := {zetaDelta := true}) only [npComp_eq, npBoolToNum_eq, npZipAA_eq, npZipSA_eq,
      npZipAS_eq, npMap_eq, npSum_eq, npWhereSA_eq, npWhereAS_eq, npWhereSS_eq, List.toList_toArray,
      weights_eq, sum_weights, clean_eq, decide_eq_true_eq, one_lt_count, Bool.not_eq_true',
      Bool.not_eq_false] at *
  all_goals first
    -- the fit: the call of the smoother is inside its contract, `z` has the length of the buffer
    | (have hc := ‹1 < countValid _ y›
       have h3 := three_le_of_count _ y hc h2
       simp only [ws2d_clean_ok _ y lam h3 (lam_pos_of lam ‹eqv lam _ = false› hlam) hc, ws2d_call_size,
         List.size_toArray, List.length_map, weightsOf_length, cleanOf_length, hout, lenDiffer_self, Bool.or_false])
    -- the two pass-through paths: `out[:] = y[:]`
    | simp only [List.size_toArray, hout, lenDiffer_self, Bool.or_false]

/-! ### Non-vacuity and sharpness (ℚ; `round` = identity, no NaN / ∞) -/

private def gu (y : Array ℚ) (lam : ℚ) (out : Array ℚ) : Array ℚ × Bool :=
  Gen.Safe.ws2dgu (fun v => v) (fun _ => false) (fun _ => false) y lam (-1) out

/-- in contract: five cells, one of them `nodata`; the flag is false by the theorem and the curve is the one of GenNumGu -/
example : (gu #[1, -1, 4, 3, 5] 2 #[7, 7, 7, 7, 7]).2 = false :=
  safe_ws2dgu_ok _ _ _ [1, -1, 4, 3, 5] _ _ _ (by rfl) (by decide) (by norm_num)
example : gu #[1, -1, 4, 3, 5] 2 #[7, 7, 7, 7, 7]
    = (#[279 / 233, 519 / 233, 736 / 233, 907 / 233, 1107 / 233], false) := by decide +kernel
/-- the minimum length 3, and the pass-through paths (λ = 0; a single valid cell) -/
example : (gu #[1, 2, 4] 2 #[0, 0, 0]).2 = false :=
  safe_ws2dgu_ok _ _ _ [1, 2, 4] _ _ _ (by rfl) (by decide) (by norm_num)
example : (gu #[1, 2, 3] 0 #[0, 0, 0]).2 = false := safe_ws2dgu_ok _ _ _ [1, 2, 3] _ _ _ (by rfl) (by decide) (by norm_num)
example : (gu #[1, -1, -1, -1] 2 #[0, 0, 0, 0]).2 = false :=
  safe_ws2dgu_ok _ _ _ [1, -1, -1, -1] _ _ _ (by rfl) (by decide) (by norm_num)
/-- `out.size = len y`: a buffer of another length, on each of the three paths (`np.round(z, 0, out)`, `out[:] = y[:]` twice) -/
example : (gu #[1, -1, 4, 3, 5] 2 #[7, 7, 7]).2 = true := by decide +kernel
example : (gu #[1, -1, -1, -1, -1] 2 #[7, 7, 7]).2 = true := by decide +kernel
example : (gu #[1, -1, 4, 3, 5] 0 #[7, 7, 7]).2 = true := by decide +kernel
/-- `0 ≤ λ`: the guard `lmda != 0.0` lets a negative λ through; at λ = -1 the first pivot `w₀ + λ` is zero -/
example : (gu #[1, 2, 4, 3, 5] (-1) #[0, 0, 0, 0, 0]).2 = true := by decide +kernel
/-- `len y ≠ 2`: two valid cells; the flag stays false (all subscripts of `ws2d` wrap inside the arrays, no pivot vanishes) -/
example : (gu #[1, 2] 2 #[0, 0]).2 = false := by decide +kernel
example : (gu #[1, 2] (1 / 100) #[0, 0]).2 = false := by decide +kernel
example : (gu #[1, 2] 1000 #[0, 0]).2 = false := by decide +kernel

end Hdc.SafeWs2dgu
