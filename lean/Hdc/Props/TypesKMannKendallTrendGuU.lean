import Hdc.Props.TypesCommon
/-
Type-level theorems of the compiled kernel `_mann_kendall_trend_gu` (see Hdc/Props/TypesCommon.lean for the families, the whitelists and
their justification).  One module per kernel, so that a change to the typing / decorator of one kernel breaks the obligations
of the properties anchored at that kernel only.
-/
namespace Hdc.Props.Types
open Hdc.Types Hdc.Gen.Types

gufunc_family _mann_kendall_trend_gu documented [[.i16], [.f32]]

end Hdc.Props.Types
