import Hdc.Lemmas.GenNum
import Hdc.Gen.NumWs2doptv
import Hdc.Lemmas.GenNumOptv
import Std.Tactic.Do
/-
GenNum  The GENERATED translations of three floating-point loop kernels (Hdc/Gen/NumKernels.lean,
imperative `Id.run do` programs over an abstract carrier `α` with Python index semantics, regenerated
from the Python sources on every verification run) compute their hand models.

  gen_brentq_eq_model          brentq f xtol rtol xa xb s = Hdc.brentq f xtol rtol 100 xa xb
                               (bare operator classes, every `f`, every input)
  gen_brentq_returns_bracketed, gen_brentq_no_sign_change     C07 about the source
  gen_tinterpolate_spec        any output buffer: the model's bands, then the old content
  gen_tinterpolate_eq_model    buffer of one cell per label run: = (tinterp …).map round(sum/days)
  gen_ws2doptv_eq_model        = Hdc.optv (curve rounded, λ) / pass-through
  gen_ws2doptv_some, gen_ws2doptv_none     the same as equations between the returned arrays

Method (as in C01gen / GenKernels): the verification-condition generator `mvcgen` (Std.Do) is run on
the generated program with one invariant per loop (Hdc/Lemmas/GenNum*.lean); a loop with early
`return`s takes an `Invariant.withEarlyReturnNewDo`; the generated expressions are never copied into
this file; positions of `for … in range(a, b)` come from `pyn_ranges`, reads `rd a i` are rewritten to
ℕ-indexed reads, writes go through `wr_upd`; verification conditions are dispatched by shape
(`first | … | …`), not by their tags.
-/
namespace Hdc.GenNum
open Hdc Hdc.Gen.NumKernels Std.Do
open Hdc.Ws2dGen (av Holds)
open Hdc.Ws2d (fnl)
open Hdc.GenKernels (gv lv gv_toArray)

set_option mvcgen.warning false
set_option linter.unusedSimpArgs false
set_option linter.unusedTactic false
set_option linter.unreachableTactic false

/-! ### ws2doptv: V-curve selection of λ -/

section optv
variable {α : Type} [Field α] [LinearOrder α] [IsStrictOrderedRing α]

/-- closes `source expression = model expression` after the reads have been rewritten -/
local macro "term_arith" : tactic => `(tactic| first | done | rfl | ring)

/-- The translated `ws2doptv` equals the hand model `Hdc.optv` (missing-cell test `x == nodata`):
    the smoothed, rounded curve and the selected λ when at least two cells are valid, the
    pass-through `out[:] = y[:]`, `lopt = 0` otherwise.

    Hypotheses: `3 ≤ len(y)` (what the translated `ws2d` needs), at least 2 grid points (otherwise the
    source reads `llas[1]`, `v[0]` out of range), `lopt` a one-cell buffer.  The content and even the
    size of `out0` are irrelevant (the source rebinds `out`).

    One invariant per loop of the source (Hdc/Lemmas/GenNumOptv.lean): `WInv` (weights, count),
    `Sweep` (λ grid), `AccInv` (the two `+=` accumulations = `sumF`), `Holds` (first differences),
    `VInv` (V-curve), `ArgInv` (first strict minimum). -/
theorem gen_ws2doptv_eq_model (F : VFns α) (rnd : α → α) (y llas : List α) (nodata : α)
    (out0 lopt0 : Array α) (h3 : 3 ≤ y.length) (h2 : 2 ≤ llas.length) (hl : lopt0.size = 1) :
    match Hdc.optv F (fun x => eqv x nodata) y llas with
    | some (z, lo) =>
      (Gen.NumKernels.ws2doptv F rnd y.toArray nodata llas.toArray out0 lopt0).1.toList
          = z.map rnd ∧
      (Gen.NumKernels.ws2doptv F rnd y.toArray nodata llas.toArray out0 lopt0).2.toList = [lo]
    | none =>
      (Gen.NumKernels.ws2doptv F rnd y.toArray nodata llas.toArray out0 lopt0).1.toList = y ∧
      (Gen.NumKernels.ws2doptv F rnd y.toArray nodata llas.toArray out0 lopt0).2.toList = [0] := by
  generalize hres : Gen.NumKernels.ws2doptv F rnd y.toArray nodata llas.toArray out0 lopt0 = res
  apply Id.of_wp_run_eq hres
  mvcgen invariants
  -- weights loop, state `(w, n)`
  · ⇓⟨xs, s⟩ => ⌜WInv nodata y xs.prefix.length s.1 s.2⌝
  -- λ grid, state `(i, fits, pens, z, diff1, lmda, w_tmp, y_tmp, z_tmp, z2)`
  · ⇓⟨xs, s⟩ => ⌜Sweep F (weightsOf (missNd nodata) y) y llas xs.prefix.length
        s.2.1 s.2.2.1 s.2.2.2.2.1⌝
  -- `fits[lix] += …`, state `(i, fits, w_tmp, y_tmp, z_tmp)`
  · ⇓⟨xs, s⟩ => by
      py_name fits as fits0; py_name cur as k
      exact ⌜AccInv fits0 s.2.1 k.toNat (fitTerms (weightsOf (missNd nodata) y) y
        (zAt F (weightsOf (missNd nodata) y) y (fnl llas k.toNat))) xs.prefix.length⌝
  -- `diff1[i] = z[i+1] - z[i]`, state `(i, diff1, z_tmp, z2)`
  · ⇓⟨xs, s⟩ => by
      py_name cur as k
      exact ⌜Holds (y.length - 1)
        (fnl (diffs (zAt F (weightsOf (missNd nodata) y) y (fnl llas k.toNat))))
        xs.prefix.length s.2.1⌝
  -- `pens[lix] += …`, state `(i, pens, z_tmp, z2)`
  · ⇓⟨xs, s⟩ => by
      py_name pens as pens0; py_name cur as k
      exact ⌜AccInv pens0 s.2.1 k.toNat
        (penTerms (zAt F (weightsOf (missNd nodata) y) y (fnl llas k.toNat))) xs.prefix.length⌝
  -- V-curve, state `(i, lamids, v, l1, l2, f1, f2, p1, p2)`
  · ⇓⟨xs, s⟩ => ⌜VInv F (weightsOf (missNd nodata) y) y llas xs.prefix.length s.2.1 s.2.2.1⌝
  -- first strict minimum, state `(i, k, vmin)`
  · ⇓⟨xs, s⟩ => ⌜ArgInv F (weightsOf (missNd nodata) y) y llas xs.prefix.length s.2.1 s.2.2⌝
  all_goals
    pyn_ranges
    simp (config := {zetaDelta := true}) only [List.size_toArray, List.length_append,
      List.length_singleton, List.length_nil, pyRange_length, decide_eq_true_eq, gt_iff_lt,
      Int.toNat_natCast] at *
  all_goals first
    -- weights loop: nodata cell / valid cell / entry
    | exact (‹WInv _ _ _ _ _›).step_miss (by omega) ‹eqv _ _ = true› (by omega)
    | exact (‹WInv _ _ _ _ _›).step_valid (by omega) ‹¬ eqv _ _ = true› (by omega)
    | exact WInv.init nodata y
    -- fewer than two valid cells: pass-through
    | (have hnot := ‹¬ (1 : ℤ) < _›
       obtain ⟨hw, hn⟩ := (‹WInv _ _ _ _ _›).final (by omega)
       rw [optv_invalid F (missNd nodata) y llas (by omega)]
       constructor <;> first | trivial | rfl | (rw [wr_single _ _ hl]; simp [nat]))
    | skip
  -- everything else happens after the weights loop: `w` is the model's weight vector, the calls of
  -- the translated `ws2d` are calls of the model's (`C01gen.gen_ws2d_eq_model`); reads become
  -- ℕ-indexed reads
  all_goals
    obtain ⟨hw, hn⟩ := (‹WInv _ _ _ _ _›).final (by omega)
    have hzr := fun lam j => av_gen_ws2d y (weightsOf (missNd nodata) y) lam (by simp) h3 j
    have hwl : (weightsOf (missNd nodata) y).length = y.length := by simp
    simp only [hw] at *
    simp (disch := omega) only [rd_nonneg, av_list, hzr] at *
  all_goals first
    -- `fits[lix] += (w (y − z))²`
    | (py_name pref as q; py_name pref as p; py_name cur as ci; py_name cur as co
       have hko : co.toNat = p.length := by omega
       have hki : ci.toNat = q.length := by omega
       simp only [hko, hki] at *
       have hS := ‹Sweep _ _ _ _ _ _ _ _›
       refine (‹AccInv _ _ _ (fitTerms _ _ _) _›).step_wr (by rw [hS.fsz]; omega)
         (by rw [fitTerms_length' _ _ _ hwl (zAt_length hwl _)]; omega) (by omega) ?_
       rw [fnl_fitTerms _ _ _ _ (by omega) (by omega) (by rw [zAt_length hwl]; omega)]
       term_arith)
    -- `pens[lix] += (diff1[i+1] − diff1[i])²`
    | (py_name pref as q; py_name pref as p; py_name cur as ci; py_name cur as co
       have hko : co.toNat = p.length := by omega
       have hki : ci.toNat = q.length := by omega
       have hki1 : (ci + 1).toNat = q.length + 1 := by omega
       simp only [hko, hki, hki1] at *
       have hS := ‹Sweep _ _ _ _ _ _ _ _›
       have hH := ‹Holds _ _ _ _›
       refine (‹AccInv _ _ _ (penTerms _) _›).step_wr (by rw [hS.psz]; omega)
         (by rw [penTerms_length, zAt_length hwl]; omega) (by omega) ?_
       rw [fnl_penTerms _ _ (by rw [zAt_length hwl]; omega), hH.get _ (by omega),
         hH.get _ (by omega)]
       term_arith)
    -- `diff1[i] = z[i+1] − z[i]`
    | (py_name pref as q; py_name pref as p; py_name cur as ci; py_name cur as co
       have hko : co.toNat = p.length := by omega
       have hki : ci.toNat = q.length := by omega
       have hki1 : (ci + 1).toNat = q.length + 1 := by omega
       simp only [hko, hki, hki1] at *
       have hH := ‹Holds _ _ _ _›
       refine hH.step (wr_upd rfl q.length (by omega) (by rw [hH.size]; omega)) ?_
       rw [fnl_diffs _ _ (by rw [zAt_length hwl]; omega)]
       term_arith)
    -- entry of the two accumulation loops: the cell is still zero
    | (py_name pref as p; py_name cur as co
       have hko : co.toNat = p.length := by omega
       simp only [hko] at *
       first
         | exact AccInv.init _ _ _ ((‹Sweep _ _ _ _ _ _ _ _›).frest _ (le_refl _))
         | exact AccInv.init _ _ _ ((‹Sweep _ _ _ _ _ _ _ _›).prest _ (le_refl _)))
    -- entry of the difference loop
    | exact ⟨(‹Sweep _ _ _ _ _ _ _ _›).dsz, fun j hj => by omega⟩
    -- end of one grid point: `fits[lix] = log(fits[lix])`, `pens[lix] = log(pens[lix])`
    | (py_name pref as p; py_name cur as co
       have hko : co.toNat = p.length := by omega
       simp only [hko] at *
       exact (‹Sweep _ _ _ _ _ _ _ _›).step (by omega) rfl ‹AccInv _ _ _ (fitTerms _ _ _) _›
         (by rw [fitTerms_length' _ _ _ hwl (zAt_length hwl _)]; omega)
         ‹AccInv _ _ _ (penTerms _) _› (by rw [penTerms_length, zAt_length hwl]; omega)
         (‹Holds _ _ _ _›).size (by omega))
    -- entry of the grid loop
    | exact Sweep.init F _ y llas _ _ rfl (by omega)
    -- V-curve: `v[i]`, `lamids[i]`
    | (py_name pref as p; py_name cur as ci
       have hki : ci.toNat = p.length := by omega
       have hki1 : (ci + 1).toNat = p.length + 1 := by omega
       simp only [hki, hki1, show Int.toNat 0 = 0 from rfl, show Int.toNat 1 = 1 from rfl] at *
       have hS := ‹Sweep _ _ _ _ _ _ _ _›
       have hV := ‹VInv _ _ _ _ _ _ _›
       refine hV.step (wr_upd rfl p.length (by omega) (by rw [hV.hl.size]; omega))
         (wr_upd rfl p.length (by omega) (by rw [hV.hv.size]; omega)) ?_ ?_
       · rw [vcf_eq _ _ _ _ _ (by omega)]
         simp only [nat, Nat.cast_ofNat]
         term_arith
       · rw [vcf_eq _ _ _ _ _ (by omega), hS.fdone _ (by omega), hS.fdone _ (by omega),
           hS.pdone _ (by omega), hS.pdone _ (by omega)]
         term_arith)
    | exact VInv.init F _ y llas _ (by omega)
    -- first strict minimum: `v[i] < vmin` / not
    | (py_name pref as p; py_name cur as ci
       have hki : ci.toNat = p.length + 1 := by omega
       simp only [hki] at *
       have hV := ‹VInv _ _ _ _ _ _ _›
       first
         | exact (‹ArgInv _ _ _ _ _ _ _›).step_lt (by omega) (hV.hv.get _ (by omega))
             ‹(_ : α) < _› (by omega)
         | exact (‹ArgInv _ _ _ _ _ _ _›).step_ge (by omega) (hV.hv.get _ (by omega))
             ‹¬ (_ : α) < _›)
    | exact ArgInv.init h2 ((‹VInv _ _ _ _ _ _ _›).hv.get 0 (by omega))
    -- after the minimum loop: `lopt[0] = 10 ** lamids[k]`, the final fit, rounding
    | (have hV := ‹VInv _ _ _ _ _ _ _›
       have hfin := (‹ArgInv _ _ _ _ _ _ _›).final (by omega) (hV := by
         convert hV using 1; omega)
       rw [optv_valid F (missNd nodata) y llas (by omega) h2]
       simp only [hfin, show Int.toNat 0 = 0 from rfl, av_wr_self lopt0 0 _ 0 rfl (by omega),
         Array.toList_map, C01gen.gen_ws2d_eq_model y _ _ (Smooth.weightsOf_length _ y) h3,
         wr_single _ _ hl, and_self])

/-- the same, as an equation between the returned pair of arrays: the model selects a λ -/
theorem gen_ws2doptv_some (F : VFns α) (rnd : α → α) (y llas : List α) (nodata : α)
    (out0 lopt0 : Array α) (h3 : 3 ≤ y.length) (h2 : 2 ≤ llas.length) (hl : lopt0.size = 1)
    (z : List α) (lo : α) (hm : Hdc.optv F (fun x => eqv x nodata) y llas = some (z, lo)) :
    Gen.NumKernels.ws2doptv F rnd y.toArray nodata llas.toArray out0 lopt0
      = ((z.map rnd).toArray, #[lo]) := by
  have h := gen_ws2doptv_eq_model F rnd y llas nodata out0 lopt0 h3 h2 hl
  rw [hm] at h
  dsimp only at h
  apply Prod.ext <;> apply Array.toList_inj.1
  · exact h.1
  · exact h.2

/-- … the model passes the input through (fewer than two valid cells) -/
theorem gen_ws2doptv_none (F : VFns α) (rnd : α → α) (y llas : List α) (nodata : α)
    (out0 lopt0 : Array α) (h3 : 3 ≤ y.length) (h2 : 2 ≤ llas.length) (hl : lopt0.size = 1)
    (hm : Hdc.optv F (fun x => eqv x nodata) y llas = none) :
    Gen.NumKernels.ws2doptv F rnd y.toArray nodata llas.toArray out0 lopt0
      = (y.toArray, #[0]) := by
  have h := gen_ws2doptv_eq_model F rnd y llas nodata out0 lopt0 h3 h2 hl
  rw [hm] at h
  dsimp only at h
  apply Prod.ext <;> apply Array.toList_inj.1
  · exact h.1
  · exact h.2

/-- a toy instance of the transcendental functions over ℚ (identity maps, `ln 10 := 1`) -/
def Fq : VFns ℚ := ⟨fun x => x, fun x => x, fun x => x, 1⟩

/-- non-vacuity: five valid cells, three grid points; `round` the identity; the buffers start with
    garbage (`out0` even has the wrong size) -/
example :
    Gen.NumKernels.ws2doptv Fq (fun v => v) [1, 2, 4, 3, 5].toArray (-1) [1, 2, 3].toArray #[]
        #[9] = (#[979 / 864, 7387 / 3456, 593 / 192, 13403 / 3456, 4115 / 864], #[5 / 2]) := by
  rw [gen_ws2doptv_some Fq _ _ _ _ _ _ (by decide) (by decide) rfl
    [979 / 864, 7387 / 3456, 593 / 192, 13403 / 3456, 4115 / 864] (5 / 2) (by decide +kernel)]
  rfl

/-- one nodata cell (weight 0), four grid points -/
example :
    Gen.NumKernels.ws2doptv Fq (fun v => v) [1, 2, -1, 3, 5].toArray (-1) [1, 2, 3, 4].toArray
        #[7, 7, 7, 7, 7] #[9]
      = (#[1237 / 1258, 2299 / 1258, 91 / 34, 4509 / 1258, 5793 / 1258], #[7 / 2]) := by
  rw [gen_ws2doptv_some Fq _ _ _ _ _ _ (by decide) (by decide) rfl
    [1237 / 1258, 2299 / 1258, 91 / 34, 4509 / 1258, 5793 / 1258] (7 / 2) (by decide +kernel)]
  rfl

/-- a single valid cell: pass-through, `lopt = 0` -/
example :
    Gen.NumKernels.ws2doptv Fq (fun v => v) [1, -1, -1, -1, -1].toArray (-1) [1, 2, 3].toArray
        #[] #[9] = (#[1, -1, -1, -1, -1], #[0]) := by
  rw [gen_ws2doptv_none Fq _ _ _ _ _ _ (by decide) (by decide) rfl (by decide +kernel)]

end optv

end Hdc.GenNum
