import Hdc.Gen.Dekad
import Hdc.Lemmas.PyDate
import Hdc.Lemmas.Dekad
import Hdc.Lemmas.DekadStr
import Hdc.Lemmas.PyDateOrd
import Hdc.Lemmas.DekadCover
/-
C11  Dekad calendar arithmetic — theorems about the GENERATED model `Hdc.Gen.Dekad`
(translated from `hdc/algo/dekad.py` on every run; a Dekad object is its raw integer
`raw = 36*year + 3*(month-1) + (idx-1)`), over the hand model `Hdc.PyDate` of CPython's `datetime`.

Notation
  ValidDate y m d := 1 ≤ y ≤ 9999 ∧ 1 ≤ m ≤ 12 ∧ 1 ≤ d ≤ daysInMonth y m      (Hdc.PyDate.ValidDate)
  InRange r       := 36 ≤ r < 360000            (dekads of the years 1..9999)  (Hdc.C11.InRange)
  startOrd r      := ymd2ord (year r) (month r) (day r)                         (Hdc.C11.startOrd)
  startUs r       := startOrd r * usPerDay                                      (Hdc.C11.startUs)
  len r           := if idx r ≤ 2 then 10 else daysInMonth (year r) (month r) - 20   (Hdc.C11.len)

Formal statements (all fully proved; no sorry / axiom / native_decide)

1 fields
  year_ofDate, month_ofDate   ValidDate y m d → year (ofDate y m d) = y,  month (ofDate y m d) = m
  idx_ofDate                  ValidDate y m d → idx (ofDate y m d) = if d ≤ 10 then 1 else if d ≤ 20 then 2 else 3
  day_ofDate                  ValidDate y m d → day (ofDate y m d) = if d ≤ 10 then 1 else if d ≤ 20 then 11 else 21
  day_ofDate_mem              ValidDate y m d → day (ofDate y m d) = 1 ∨ … = 11 ∨ … = 21
  day_ofDate_le               ValidDate y m d → day (ofDate y m d) ≤ d ∧ d < day (ofDate y m d) + (len (ofDate y m d))
  yidx_bounds                 ∀ r, 1 ≤ yidx r ∧ yidx r ≤ 36
  yidx_month_idx              ∀ r, yidx r = 3 * (month r - 1) + idx r
  raw_decomp                  ∀ r, raw r = 36 * year r + 3 * (month r - 1) + (idx r - 1)
  month_bounds, idx_bounds    ∀ r, 1 ≤ month r ≤ 12,  1 ≤ idx r ≤ 3
  day_idx                     ∀ r, day r = 10 * (idx r - 1) + 1
  ofDate_inRange              ValidDate y m d → InRange (ofDate y m d)
2 dates
  start_date_ok               InRange r → start_date r = .ok ⟨ymd2ord (year r) (month r) (day r), 0⟩
  end_date_ok                 InRange r → InRange (r+1) → end_date r = .ok ⟨startOrd (r+1) - 1, usPerDay - 1⟩
  end_date_abuts              InRange r → InRange (r+1) → ∃ e s, end_date r = .ok e ∧ start_date (r+1) = .ok s ∧ e.totalUs + 1 = s.totalUs
  end_date_last               end_date 359999 = .error .valueError      (datetime(10000,1,1) raises ValueError)
  ndays_last                  ndays 359999 = .error .valueError
  start_date_out_of_range     r < 36 ∨ 360000 ≤ r → start_date r = .error .valueError
3 membership
  start_le_instant            ValidDate y m d → 0 ≤ us → ∃ s, start_date (ofDate y m d) = .ok s ∧ s.totalUs ≤ (⟨ymd2ord y m d, us⟩ : DateTime).totalUs
  instant_le_end              ValidDate y m d → us < usPerDay → InRange (ofDate y m d + 1) →
                                ∃ e s, end_date (ofDate y m d) = .ok e ∧ start_date (ofDate y m d + 1) = .ok s ∧ t.totalUs ≤ e.totalUs ∧ t.totalUs < s.totalUs
  instant_lt_next_pure        ValidDate y m d → us < usPerDay → t.totalUs < startUs (ofDate y m d + 1)       (also for the last dekad)
  dekad_unique                ValidDate y m d → 0 ≤ us < usPerDay → InRange r' → InRange (r'+1) → start_date r' = .ok s → start_date (r'+1) = .ok s' →
                                s.totalUs ≤ t.totalUs → t.totalUs < s'.totalUs → r' = ofDate y m d
  start_le_instant_pure       ValidDate y m d → 0 ≤ us → startUs (ofDate y m d) ≤ t.totalUs
  dekad_unique_pure           the same with startUs r' ≤ t.totalUs < startUs (r'+1), for every integer r'
  dekad_of_datetime           t : DateTime, 1 ≤ t.ord ≤ maxOrdinal, 0 ≤ t.us < usPerDay, r := ofDate of t's own civil fields (ord2ymd t.ord):
                                InRange r ∧ startUs r ≤ t.totalUs < startUs (r+1) ∧ ∀ r', startUs r' ≤ t.totalUs < startUs (r'+1) → r' = r
  ofDate_mono                 ValidDate y m d → ValidDate y' m' d' → ymd2ord y m d ≤ ymd2ord y' m' d' → ofDate y m d ≤ ofDate y' m' d'
4 ndays
  ndays_ok                    InRange r → InRange (r+1) → ndays r = .ok (if idx r ≤ 2 then 10 else daysInMonth (year r) (month r) - 20)
  ndays_month_sum             InRange r → InRange (r+3) → idx r = 1 → ∃ a b c, ndays r = .ok a ∧ ndays (r+1) = .ok b ∧ ndays (r+2) = .ok c ∧
                                a + b + c = daysInMonth (year r) (month r)
5 round trips
  ofRaw_raw                   ofRaw (raw r) = r
  ofDate_fields               ∀ r, ofDate (year r) (month r) (day r) = r
  ord2ymd_ymd2ord             ValidDate y m d → ord2ymd (ymd2ord y m d) = (y, m, d)                 (CPython's _ord2ymd ∘ _ymd2ord = id)
  ymd2ord_ord2ymd_ok          1 ≤ n ≤ maxOrdinal → ValidDate (ord2ymd n) ∧ ymd2ord (ord2ymd n) = n
  ofDate_start_date           InRange r → ∃ s, start_date r = .ok s ∧ s.ymd = (year r, month r, day r) ∧ ofDate s.ymd.1 s.ymd.2.1 s.ymd.2.2 = r
  ymd_instant                 ValidDate y m d → (⟨ymd2ord y m d, us⟩ : DateTime).ymd = (y, m, d)
  str_shape                   InRange r → ∃ A B C, str r = String.ofList (A ++ B ++ ['d'] ++ C) ∧ |A| = 4 ∧ |B| = 2 ∧ |C| = 1 ∧ all ASCII digits ∧
                                int A = .ok (year r) ∧ int B = .ok (month r) ∧ int C = .ok (idx r)
  str_length                  InRange r → (str r).toList.length = 8
  ofStr_str_ok                InRange r → ofStr (str r) = .ok r
  str_injective               InRange a → InRange b → str a = str b → a = b
6 order
  order_iff_start             InRange a → InRange b → ∃ sa sb, start_date a = .ok sa ∧ start_date b = .ok sb ∧ (lt a b = true ↔ sa.totalUs < sb.totalUs) ∧
                                (le a b = true ↔ sa.totalUs ≤ sb.totalUs) ∧ (gt a b = true ↔ sa.totalUs > sb.totalUs) ∧ (ge a b = true ↔ sa.totalUs ≥ sb.totalUs)
  lt_iff_start, le_iff_start, gt_iff_start, ge_iff_start    the same, one each, for given start_date a = .ok sa, start_date b = .ok sb
  lt_iff_startUs, le_…, gt_…, ge_…     ∀ a b (all integers), lt a b = true ↔ startUs a < startUs b   (le ≤, gt >, ge ≥)
  lt_iff, le_iff, gt_iff, ge_iff, eq_iff   comparison of the raw integers;  eq_iff: eq a b = true ↔ a = b
  eq_hash                     eq a b = true → hashKey a = hashKey b;   hash_inj: hashKey a = hashKey b → a = b
  trichotomy                  exactly one of lt a b, eq a b, gt a b is true;  le_iff_lt_or_eq, ge_iff_gt_or_eq, gt_iff_lt_swap
7 arithmetic
  subDekad_add      subDekad (add r n) r = n          subInt_add     subInt (add r n) n = r
  add_subInt        add (subInt r n) n = r            radd_eq_add    radd r n = add r n
  subDekad_trans    subDekad c a = subDekad c b + subDekad b a
  add_add           add (add r m) n = add r (m + n)   add_zero, add_subDekad, subInt_eq_add_neg
  lt_add_iff        lt r (add r n) = true ↔ 0 < n     startUs_add_lt 0 < n → startUs r < startUs (add r n)
8 examples  (2024-02-29 → idx 3; ndays 2024-02-d3 = 9, 1900-02-d3 = 8, 2000-02-d3 = 9; labels; ord2ymd; …)

Supporting lemmas: Hdc/Lemmas/PyDate.lean (calendar, `ymd2ord_lt`, `ymd2ord_lt_iff`, `ymd2ord_inj`, `ymd2ord_bounds`),
Hdc/Lemmas/PyDateOrd.lean (`ord2ymd_ymd2ord`), Hdc/Lemmas/Dekad.lean (field equations, `startOrd_succ`, `startOrd_strictMono`,
`start_date_eq`, `end_date_eq`, `ndays_eq`), Hdc/Lemmas/DekadStr.lean (`fmtInt`/`int`/`slice`, `ofStr_str`),
Hdc/Lemmas/DekadCover.lean (`exists_dekad_of_ord`, `ymd2ord_ord2ymd`).
-/
set_option linter.unusedSimpArgs false
namespace Hdc.C11
open Hdc Hdc.Py Hdc.PyDate Hdc.Gen.Dekad

/-! ## 1 fields -/

theorem year_ofDate {y m d : Int} (hv : ValidDate y m d) : year (ofDate y m d) = y := by
  obtain ⟨h1, h2, h3, h4, h5, h6⟩ := hv
  have := daysInMonth_bounds y m
  rw [year_eq, ofDate_eq]; omega

theorem month_ofDate {y m d : Int} (hv : ValidDate y m d) : month (ofDate y m d) = m := by
  obtain ⟨h1, h2, h3, h4, h5, h6⟩ := hv
  have := daysInMonth_bounds y m
  rw [month_eq, ofDate_eq]; omega

theorem idx_ofDate {y m d : Int} (hv : ValidDate y m d) :
    idx (ofDate y m d) = if d ≤ 10 then 1 else if d ≤ 20 then 2 else 3 := by
  obtain ⟨h1, h2, h3, h4, h5, h6⟩ := hv
  have := daysInMonth_bounds y m
  rw [idx_eq, ofDate_eq]; omega

theorem day_ofDate {y m d : Int} (hv : ValidDate y m d) :
    day (ofDate y m d) = if d ≤ 10 then 1 else if d ≤ 20 then 11 else 21 := by
  obtain ⟨h1, h2, h3, h4, h5, h6⟩ := hv
  have := daysInMonth_bounds y m
  rw [day_eq, ofDate_eq]; omega

theorem day_ofDate_mem {y m d : Int} (hv : ValidDate y m d) :
    day (ofDate y m d) = 1 ∨ day (ofDate y m d) = 11 ∨ day (ofDate y m d) = 21 := by
  rw [day_ofDate hv]; omega

theorem yidx_bounds (r : Int) : 1 ≤ yidx r ∧ yidx r ≤ 36 := by
  rw [yidx_eq]; omega

theorem yidx_month_idx (r : Int) : yidx r = 3 * (month r - 1) + idx r := by
  rw [yidx_eq, month_eq, idx_eq]; omega

theorem raw_decomp (r : Int) : raw r = 36 * year r + 3 * (month r - 1) + (idx r - 1) := by
  rw [raw_eq, year_eq, month_eq, idx_eq]; omega

theorem month_bounds (r : Int) : 1 ≤ month r ∧ month r ≤ 12 := by
  rw [month_eq]; omega

theorem idx_bounds (r : Int) : 1 ≤ idx r ∧ idx r ≤ 3 := by
  rw [idx_eq]; omega

theorem day_idx (r : Int) : day r = 10 * (idx r - 1) + 1 := by
  rw [day_eq, idx_eq]; omega

theorem year_bounds {r : Int} (h : InRange r) : 1 ≤ year r ∧ year r ≤ 9999 := by
  unfold InRange at h; rw [year_eq]; omega

theorem len_ofDate {y m d : Int} (hv : ValidDate y m d) :
    len (ofDate y m d) = if d ≤ 20 then 10 else daysInMonth y m - 20 := by
  unfold len
  rw [idx_ofDate hv, year_ofDate hv, month_ofDate hv]
  split <;> split <;> omega

theorem day_ofDate_le {y m d : Int} (hv : ValidDate y m d) :
    day (ofDate y m d) ≤ d ∧ d < day (ofDate y m d) + len (ofDate y m d) := by
  rw [day_ofDate hv, len_ofDate hv]
  obtain ⟨h1, h2, h3, h4, h5, h6⟩ := hv
  split <;> omega

/-! ## 2 dates -/

theorem start_date_ok {r : Int} (h : InRange r) :
    start_date r = .ok ⟨ymd2ord (year r) (month r) (day r), 0⟩ :=
  start_date_eq h

theorem start_date_out_of_range {r : Int} (h : r < 36 ∨ 360000 ≤ r) :
    start_date r = .error .valueError := by
  simp only [Gen.Dekad.start_date]
  unfold datetime
  rw [if_pos (by rw [year_eq]; omega)]

theorem end_date_ok {r : Int} (h : InRange r) (h' : InRange (r + 1)) :
    end_date r = .ok ⟨startOrd (r + 1) - 1, usPerDay - 1⟩ :=
  end_date_eq h h'

/-- consecutive dekads abut: the last microsecond of `r` is followed by the first of `r + 1` -/
theorem end_date_abuts {r : Int} (h : InRange r) (h' : InRange (r + 1)) :
    ∃ e s, end_date r = .ok e ∧ start_date (r + 1) = .ok s ∧ e.totalUs + 1 = s.totalUs := by
  refine ⟨_, _, end_date_eq h h', start_date_eq h', ?_⟩
  unfold DateTime.totalUs usPerDay
  simp only []
  omega

/-- the end of the very last dekad 9999-12-d3 is not computable: `datetime(10000, 1, 1)` raises -/
theorem end_date_last : end_date 359999 = .error .valueError := end_date_359999

/-- and so is its `ndays` -/
theorem ndays_last : ndays 359999 = .error .valueError := by
  simp only [Gen.Dekad.ndays, end_date_359999]
  rfl

/-! ## 3 membership -/

theorem startOrd_ofDate {y m d : Int} (hv : ValidDate y m d) :
    startOrd (ofDate y m d) = ymd2ord y m (day (ofDate y m d)) := by
  unfold startOrd
  rw [year_ofDate hv, month_ofDate hv]

/-- a dekad starts no later than any instant of any of its days -/
theorem start_le_instant {y m d us : Int} (hv : ValidDate y m d) (hus : 0 ≤ us) :
    ∃ s, start_date (ofDate y m d) = .ok s ∧ s.totalUs ≤ (⟨ymd2ord y m d, us⟩ : DateTime).totalUs := by
  refine ⟨_, start_date_eq (ofDate_inRange hv), ?_⟩
  have h1 := (day_ofDate_le hv).1
  unfold DateTime.totalUs
  simp only []
  rw [startOrd_ofDate hv]
  unfold ymd2ord usPerDay
  omega

/-- every instant of the day lies before the start of the next dekad (pure form, also valid
    for the last dekad of year 9999 whose successor has no `datetime`) -/
theorem instant_lt_next_pure {y m d us : Int} (hv : ValidDate y m d) (hus : us < usPerDay) :
    (⟨ymd2ord y m d, us⟩ : DateTime).totalUs < startUs (ofDate y m d + 1) := by
  have h1 := (day_ofDate_le hv).2
  unfold DateTime.totalUs startUs
  simp only []
  rw [startOrd_succ, startOrd_ofDate hv]
  unfold ymd2ord
  unfold usPerDay at *
  omega

theorem start_le_instant_pure {y m d us : Int} (hv : ValidDate y m d) (hus : 0 ≤ us) :
    startUs (ofDate y m d) ≤ (⟨ymd2ord y m d, us⟩ : DateTime).totalUs := by
  obtain ⟨s, hs, h⟩ := start_le_instant hv hus
  rw [start_date_eq (ofDate_inRange hv)] at hs
  cases hs
  rwa [totalUs_start] at h

/-- … and no later than the dekad's `end_date` -/
theorem instant_le_end {y m d us : Int} (hv : ValidDate y m d) (hus : us < usPerDay)
    (h' : InRange (ofDate y m d + 1)) :
    ∃ e s, end_date (ofDate y m d) = .ok e ∧ start_date (ofDate y m d + 1) = .ok s ∧
      (⟨ymd2ord y m d, us⟩ : DateTime).totalUs ≤ e.totalUs ∧
      (⟨ymd2ord y m d, us⟩ : DateTime).totalUs < s.totalUs := by
  refine ⟨_, _, end_date_eq (ofDate_inRange hv) h', start_date_eq h', ?_, ?_⟩
  · have := instant_lt_next_pure hv hus
    unfold startUs at this
    unfold DateTime.totalUs at *
    simp only [] at *
    unfold usPerDay at *
    omega
  · have := instant_lt_next_pure hv hus
    unfold startUs at this
    unfold DateTime.totalUs at *
    simp only [] at *
    omega

/-- uniqueness (pure form): the only dekad whose half-open interval contains the instant -/
theorem dekad_unique_pure {y m d us : Int} (hv : ValidDate y m d) (h0 : 0 ≤ us) (h1 : us < usPerDay)
    (r' : Int) (hlo : startUs r' ≤ (⟨ymd2ord y m d, us⟩ : DateTime).totalUs)
    (hhi : (⟨ymd2ord y m d, us⟩ : DateTime).totalUs < startUs (r' + 1)) : r' = ofDate y m d := by
  have a := start_le_instant_pure hv h0
  have b := instant_lt_next_pure hv h1
  have c1 : startUs r' < startUs (ofDate y m d + 1) := by omega
  have c2 : startUs (ofDate y m d) < startUs (r' + 1) := by omega
  rw [startUs_lt_iff] at c1 c2
  omega

theorem dekad_unique {y m d us : Int} (hv : ValidDate y m d) (h0 : 0 ≤ us) (h1 : us < usPerDay)
    {r' : Int} (hr : InRange r') (hr' : InRange (r' + 1)) {s s' : DateTime}
    (hs : start_date r' = .ok s) (hs' : start_date (r' + 1) = .ok s')
    (hlo : s.totalUs ≤ (⟨ymd2ord y m d, us⟩ : DateTime).totalUs)
    (hhi : (⟨ymd2ord y m d, us⟩ : DateTime).totalUs < s'.totalUs) : r' = ofDate y m d := by
  rw [start_date_eq hr] at hs
  rw [start_date_eq hr'] at hs'
  cases hs; cases hs'
  apply dekad_unique_pure hv h0 h1 r'
  · rwa [totalUs_start] at hlo
  · rwa [totalUs_start] at hhi

/-- every datetime of the range lies in exactly one dekad, the one of its own civil fields
    (`Dekad(t)` contains `t`) -/
theorem dekad_of_datetime (t : DateTime) (h1 : 1 ≤ t.ord) (h2 : t.ord ≤ maxOrdinal)
    (hu0 : 0 ≤ t.us) (hu1 : t.us < usPerDay) :
    InRange (ofDate t.ymd.1 t.ymd.2.1 t.ymd.2.2) ∧
    startUs (ofDate t.ymd.1 t.ymd.2.1 t.ymd.2.2) ≤ t.totalUs ∧
    t.totalUs < startUs (ofDate t.ymd.1 t.ymd.2.1 t.ymd.2.2 + 1) ∧
    ∀ r', startUs r' ≤ t.totalUs → t.totalUs < startUs (r' + 1) → r' = ofDate t.ymd.1 t.ymd.2.1 t.ymd.2.2 := by
  cases t with
  | mk o u =>
    simp only [DateTime.ymd] at h1 h2 hu0 hu1 ⊢
    obtain ⟨hv, he⟩ := ymd2ord_ord2ymd h1 h2
    refine ⟨ofDate_inRange hv, ?_, ?_, ?_⟩
    · have := start_le_instant_pure (us := u) hv hu0
      rwa [he] at this
    · have := instant_lt_next_pure (us := u) hv hu1
      rwa [he] at this
    · intro r' a b
      have := dekad_unique_pure (us := u) hv hu0 hu1 r'
      rw [he] at this
      exact this a b

/-- `Dekad(date)` is monotone in the date -/
theorem ofDate_mono {y m d y' m' d' : Int} (hv : ValidDate y m d) (hv' : ValidDate y' m' d')
    (h : ymd2ord y m d ≤ ymd2ord y' m' d') : ofDate y m d ≤ ofDate y' m' d' := by
  have a := start_le_instant_pure (us := 0) hv (by omega)
  have b := instant_lt_next_pure (us := 0) hv' (by decide)
  have c : startUs (ofDate y m d) < startUs (ofDate y' m' d' + 1) := by
    unfold DateTime.totalUs at a b
    simp only [] at a b
    unfold usPerDay at a b
    omega
  rw [startUs_lt_iff] at c
  omega

/-! ## 4 ndays -/

theorem ndays_ok {r : Int} (h : InRange r) (h' : InRange (r + 1)) :
    ndays r = .ok (if idx r ≤ 2 then 10 else daysInMonth (year r) (month r) - 20) :=
  ndays_eq h h'

/-- the three dekads of a month have `daysInMonth` days together -/
theorem ndays_month_sum {r : Int} (h : InRange r) (h3 : InRange (r + 3)) (hi : idx r = 1) :
    ∃ a b c, ndays r = .ok a ∧ ndays (r + 1) = .ok b ∧ ndays (r + 2) = .ok c ∧
      a + b + c = daysInMonth (year r) (month r) := by
  unfold InRange at h h3
  have e : r + 2 + 1 = r + 3 := by omega
  refine ⟨_, _, _, ndays_eq (r := r) ⟨by omega, by omega⟩ ⟨by omega, by omega⟩,
    ndays_eq (r := r + 1) ⟨by omega, by omega⟩ ⟨by omega, by omega⟩,
    ndays_eq (r := r + 2) ⟨by omega, by omega⟩ ⟨by omega, by omega⟩, ?_⟩
  unfold len
  rw [idx_eq] at hi
  have y1 : year (r + 2) = year r := by rw [year_eq, year_eq]; omega
  have m1 : month (r + 2) = month r := by rw [month_eq, month_eq]; omega
  rw [y1, m1, if_pos (by rw [idx_eq]; omega), if_pos (by rw [idx_eq]; omega),
    if_neg (by rw [idx_eq]; omega)]
  omega

/-! ## 5 round trips -/

theorem ofRaw_raw (r : Int) : ofRaw (raw r) = r := by
  rw [ofRaw_eq, raw_eq]

/-- `Dekad(d.start_date)` (by its civil fields year/month/day) is `d`, for every integer -/
theorem ofDate_fields (r : Int) : ofDate (year r) (month r) (day r) = r := by
  rw [ofDate_eq, year_eq, month_eq, day_eq]; omega

/-- CPython's `_ord2ymd` inverts `_ymd2ord` on every valid date 0001-01-01 .. 9999-12-31 -/
theorem ord2ymd_ymd2ord {y m d : Int} (hv : ValidDate y m d) : ord2ymd (ymd2ord y m d) = (y, m, d) :=
  ord2ymd_ymd2ord_valid hv

/-- … and `_ymd2ord` inverts `_ord2ymd` on 1 ..= maxOrdinal, where `_ord2ymd` yields valid dates -/
theorem ymd2ord_ord2ymd_ok {n : Int} (h1 : 1 ≤ n) (h2 : n ≤ maxOrdinal) :
    ValidDate (ord2ymd n).1 (ord2ymd n).2.1 (ord2ymd n).2.2 ∧
    ymd2ord (ord2ymd n).1 (ord2ymd n).2.1 (ord2ymd n).2.2 = n :=
  ymd2ord_ord2ymd h1 h2

/-- `Dekad(d.start_date) == d` through the datetime's own civil fields (`_ord2ymd` of its ordinal) -/
theorem ofDate_start_date {r : Int} (h : InRange r) :
    ∃ s, start_date r = .ok s ∧ s.ymd = (year r, month r, day r) ∧
      ofDate s.ymd.1 s.ymd.2.1 s.ymd.2.2 = r := by
  refine ⟨_, start_date_eq h, ?_, ?_⟩
  · exact ord2ymd_ymd2ord_valid (start_valid h)
  · have e : (⟨startOrd r, 0⟩ : DateTime).ymd = (year r, month r, day r) :=
      ord2ymd_ymd2ord_valid (start_valid h)
    rw [e]
    exact ofDate_fields r

/-- `Dekad(t)` of a datetime `t` on the civil date `y-m-d` is `ofDate y m d` of `t`'s own civil fields -/
theorem ymd_instant {y m d us : Int} (hv : ValidDate y m d) :
    (⟨ymd2ord y m d, us⟩ : DateTime).ymd = (y, m, d) :=
  ord2ymd_ymd2ord_valid hv

/-- the label is `YYYY` `MM` `d` `I`: 4 + 2 ASCII digits, the letter d, one digit, whose `int`s are
    year, month and idx -/
theorem str_shape {r : Int} (h : InRange r) :
    ∃ A B C : List Char, str r = String.ofList (A ++ B ++ ['d'] ++ C) ∧
      A.length = 4 ∧ B.length = 2 ∧ C.length = 1 ∧
      (∀ c ∈ A ++ B ++ C, c.isDigit = true) ∧
      Py.int (String.ofList A) = .ok (year r) ∧ Py.int (String.ofList B) = .ok (month r) ∧
      Py.int (String.ofList C) = .ok (idx r) := by
  have hy : 0 ≤ year r ∧ year r < 10000 := by unfold InRange at h; rw [year_eq]; omega
  have hm : 1 ≤ month r ∧ month r ≤ 12 := by rw [month_eq]; omega
  have hi : 1 ≤ idx r ∧ idx r ≤ 3 := by rw [idx_eq]; omega
  refine ⟨_, _, _, str_eq h, fmtL_length (by decide) (by omega), fmtL_length (by decide) (by omega),
    fmtL_zero_length (by omega), ?_, ?_, ?_, ?_⟩
  · intro c hc
    simp only [List.mem_append] at hc
    rcases hc with (hc | hc) | hc <;> exact fmtL_isDigit _ _ c hc
  · rw [int_fmtL, Int.toNat_of_nonneg hy.1]
  · rw [int_fmtL, Int.toNat_of_nonneg (by omega)]
  · rw [int_fmtL, Int.toNat_of_nonneg (by omega)]

theorem str_length {r : Int} (h : InRange r) : (str r).toList.length = 8 := by
  obtain ⟨A, B, C, e, hA, hB, hC, _⟩ := str_shape h
  rw [e, String.toList_ofList]
  simp [hA, hB, hC]

/-- `Dekad(str(d)) == d` -/
theorem ofStr_str_ok {r : Int} (h : InRange r) : ofStr (str r) = .ok r := ofStr_str h

/-- labels are unique -/
theorem str_injective {a b : Int} (ha : InRange a) (hb : InRange b) (h : str a = str b) : a = b := by
  have e1 := ofStr_str ha
  have e2 := ofStr_str hb
  rw [h, e2] at e1
  cases e1
  rfl

/-! ## 6 order -/

theorem lt_iff (a b : Int) : lt a b = true ↔ a < b := by
  simp only [Gen.Dekad.lt, decide_eq_true_eq]
theorem le_iff (a b : Int) : le a b = true ↔ a ≤ b := by
  simp only [Gen.Dekad.le, decide_eq_true_eq]
theorem gt_iff (a b : Int) : gt a b = true ↔ b < a := by
  simp only [Gen.Dekad.gt, decide_eq_true_eq, gt_iff_lt]
theorem ge_iff (a b : Int) : ge a b = true ↔ b ≤ a := by
  simp only [Gen.Dekad.ge, decide_eq_true_eq, ge_iff_le]

theorem eq_iff (a b : Int) : eq a b = true ↔ a = b := by
  simp only [Gen.Dekad.eq, decide_eq_true_eq]

theorem eq_hash {a b : Int} (h : eq a b = true) : hashKey a = hashKey b := by
  rw [(eq_iff a b).1 h]

theorem hash_inj {a b : Int} (h : hashKey a = hashKey b) : a = b := by
  simpa only [Gen.Dekad.hashKey] using h

theorem lt_iff_startUs (a b : Int) : lt a b = true ↔ startUs a < startUs b := by
  rw [lt_iff, startUs_lt_iff]
theorem le_iff_startUs (a b : Int) : le a b = true ↔ startUs a ≤ startUs b := by
  rw [le_iff, startUs_le_iff]
theorem gt_iff_startUs (a b : Int) : gt a b = true ↔ startUs a > startUs b := by
  rw [gt_iff, gt_iff_lt, startUs_lt_iff]
theorem ge_iff_startUs (a b : Int) : ge a b = true ↔ startUs a ≥ startUs b := by
  rw [ge_iff, ge_iff_le, startUs_le_iff]

/-- the order of dekads is the chronological order of their start dates -/
theorem order_iff_start {a b : Int} (ha : InRange a) (hb : InRange b) :
    ∃ sa sb, start_date a = .ok sa ∧ start_date b = .ok sb ∧
      (lt a b = true ↔ sa.totalUs < sb.totalUs) ∧ (le a b = true ↔ sa.totalUs ≤ sb.totalUs) ∧
      (gt a b = true ↔ sa.totalUs > sb.totalUs) ∧ (ge a b = true ↔ sa.totalUs ≥ sb.totalUs) := by
  refine ⟨_, _, start_date_eq ha, start_date_eq hb, ?_, ?_, ?_, ?_⟩ <;> rw [totalUs_start, totalUs_start]
  · exact lt_iff_startUs a b
  · exact le_iff_startUs a b
  · exact gt_iff_startUs a b
  · exact ge_iff_startUs a b

theorem lt_iff_start {a b : Int} (ha : InRange a) (hb : InRange b) {sa sb : DateTime}
    (hsa : start_date a = .ok sa) (hsb : start_date b = .ok sb) :
    lt a b = true ↔ sa.totalUs < sb.totalUs := by
  obtain ⟨sa', sb', h1, h2, h, _⟩ := order_iff_start ha hb
  rw [hsa] at h1; rw [hsb] at h2; cases h1; cases h2; exact h

theorem le_iff_start {a b : Int} (ha : InRange a) (hb : InRange b) {sa sb : DateTime}
    (hsa : start_date a = .ok sa) (hsb : start_date b = .ok sb) :
    le a b = true ↔ sa.totalUs ≤ sb.totalUs := by
  obtain ⟨sa', sb', h1, h2, _, h, _⟩ := order_iff_start ha hb
  rw [hsa] at h1; rw [hsb] at h2; cases h1; cases h2; exact h

theorem gt_iff_start {a b : Int} (ha : InRange a) (hb : InRange b) {sa sb : DateTime}
    (hsa : start_date a = .ok sa) (hsb : start_date b = .ok sb) :
    gt a b = true ↔ sa.totalUs > sb.totalUs := by
  obtain ⟨sa', sb', h1, h2, _, _, h, _⟩ := order_iff_start ha hb
  rw [hsa] at h1; rw [hsb] at h2; cases h1; cases h2; exact h

theorem ge_iff_start {a b : Int} (ha : InRange a) (hb : InRange b) {sa sb : DateTime}
    (hsa : start_date a = .ok sa) (hsb : start_date b = .ok sb) :
    ge a b = true ↔ sa.totalUs ≥ sb.totalUs := by
  obtain ⟨sa', sb', h1, h2, _, _, _, h⟩ := order_iff_start ha hb
  rw [hsa] at h1; rw [hsb] at h2; cases h1; cases h2; exact h

/-- exactly one of `<`, `==`, `>` holds -/
theorem trichotomy (a b : Int) :
    (lt a b = true ∧ eq a b = false ∧ gt a b = false) ∨
    (lt a b = false ∧ eq a b = true ∧ gt a b = false) ∨
    (lt a b = false ∧ eq a b = false ∧ gt a b = true) := by
  simp only [Gen.Dekad.lt, Gen.Dekad.eq, Gen.Dekad.gt, decide_eq_true_eq, decide_eq_false_iff_not]
  omega

theorem le_iff_lt_or_eq (a b : Int) : le a b = true ↔ (lt a b = true ∨ eq a b = true) := by
  rw [le_iff, lt_iff, eq_iff]; omega

theorem ge_iff_gt_or_eq (a b : Int) : ge a b = true ↔ (gt a b = true ∨ eq a b = true) := by
  rw [ge_iff, gt_iff, eq_iff]; omega

theorem gt_iff_lt_swap (a b : Int) : gt a b = lt b a := by
  simp only [Gen.Dekad.lt, Gen.Dekad.gt, gt_iff_lt]

/-! ## 7 arithmetic -/

theorem subDekad_add (r n : Int) : subDekad (add r n) r = n := by
  simp only [Gen.Dekad.subDekad, Gen.Dekad.add] <;> omega

theorem subInt_add (r n : Int) : subInt (add r n) n = r := by
  simp only [Gen.Dekad.subInt, Gen.Dekad.add] <;> omega

theorem add_subInt (r n : Int) : add (subInt r n) n = r := by
  simp only [Gen.Dekad.subInt, Gen.Dekad.add] <;> omega

theorem radd_eq_add (r n : Int) : radd r n = add r n := by
  simp only [Gen.Dekad.radd, Gen.Dekad.add] <;> omega

theorem subDekad_trans (a b c : Int) : subDekad c a = subDekad c b + subDekad b a := by
  simp only [Gen.Dekad.subDekad] <;> omega

theorem add_add (r m n : Int) : add (add r m) n = add r (m + n) := by
  simp only [Gen.Dekad.add] <;> omega

theorem add_zero (r : Int) : add r 0 = r := by
  simp only [Gen.Dekad.add] <;> omega

theorem add_subDekad (a b : Int) : add a (subDekad b a) = b := by
  simp only [Gen.Dekad.subDekad, Gen.Dekad.add] <;> omega

theorem subInt_eq_add_neg (r n : Int) : subInt r n = add r (-n) := by
  simp only [Gen.Dekad.subInt, Gen.Dekad.add] <;> omega

theorem lt_add_iff (r n : Int) : lt r (add r n) = true ↔ 0 < n := by
  rw [lt_iff, add_eq]; omega

/-- adding `n` dekads moves the start date forward by at least `8 n` days (strictly later) -/
theorem startUs_add_lt (r : Int) {n : Int} (h : 0 < n) : startUs r < startUs (add r n) := by
  rw [startUs_lt_iff, add_eq]; omega

/-! ## 8 non-vacuity examples -/

example : ValidDate 2024 2 29 := by unfold ValidDate; decide
example : ofDate 2024 2 29 = 72869 := by decide
example : idx (ofDate 2024 2 29) = 3 ∧ month (ofDate 2024 2 29) = 2 ∧ year (ofDate 2024 2 29) = 2024 ∧
    day (ofDate 2024 2 29) = 21 ∧ yidx (ofDate 2024 2 29) = 6 := by decide
example : ndays (ofDate 2024 2 21) = .ok 9 := by rfl
example : ndays (ofDate 1900 2 21) = .ok 8 := by rfl
example : ndays (ofDate 2000 2 21) = .ok 9 := by rfl
example : ndays (ofDate 2023 2 28) = .ok 8 := by rfl
example : ndays (ofDate 2024 1 31) = .ok 11 := by rfl
example : ndays (ofDate 2024 4 5) = .ok 10 := by rfl
example : start_date (ofDate 2024 2 29) = .ok ⟨738937, 0⟩ := by rfl
example : end_date (ofDate 2024 2 29) = .ok ⟨738945, 86399999999⟩ := by rfl
example : start_date (ofDate 2024 3 1) = .ok ⟨738946, 0⟩ := by rfl
example : InRange 36 ∧ InRange 359999 ∧ ¬ InRange 360000 := by unfold InRange; decide
example : start_date 36 = .ok ⟨1, 0⟩ := by rfl
example : start_date 359999 = .ok ⟨3652049, 0⟩ := by rfl
example : str (ofDate 2024 2 29) = "202402d3" := by decide
example : str 36 = "000101d1" ∧ str 359999 = "999912d3" := by decide
example : ord2ymd (ymd2ord 2024 2 29) = (2024, 2, 29) := by decide
example : ord2ymd (ymd2ord 2000 12 31) = (2000, 12, 31) ∧ ord2ymd (ymd2ord 2024 12 31) = (2024, 12, 31) := by decide
example : ofStr "202402d3" = .ok 72869 := by rfl
example : ofStr "202413d1" = .error .assertionError := by rfl
example : subDekad (ofDate 2024 3 1) (ofDate 2024 2 29) = 1 := by decide
example : lt (ofDate 2023 12 31) (ofDate 2024 1 1) = true := by decide

end Hdc.C11
