import Hdc.Lemmas.GenNum
import Hdc.Gen.NumTinterpolate
import Hdc.Lemmas.GenNumTI
import Std.Tactic.Do
/-
GenNum  The GENERATED translations of three floating-point loop kernels (Hdc/Gen/NumKernels.lean,
imperative `Id.run do` programs over an abstract carrier `α` with Python index semantics, regenerated
from the Python sources on every verification run) compute their hand models.

  gen_brentq_eq_model          brentq f xtol rtol xa xb s = Hdc.brentq f xtol rtol 100 xa xb
                               (bare operator classes, every `f`, every input)
  gen_brentq_returns_bracketed, gen_brentq_no_sign_change     C07 about the source
  gen_tinterpolate_spec        any output buffer: the model's bands, then the old content
  gen_tinterpolate_eq_model    buffer of one cell per label run: = (tinterp …).map round(sum/days)
  gen_ws2doptv_eq_model        = Hdc.optv (curve rounded, λ) / pass-through
  gen_ws2doptv_some, gen_ws2doptv_none     the same as equations between the returned arrays

Method (as in C01gen / GenKernels): the verification-condition generator `mvcgen` (Std.Do) is run on
the generated program with one invariant per loop (Hdc/Lemmas/GenNum*.lean); a loop with early
`return`s takes an `Invariant.withEarlyReturnNewDo`; the generated expressions are never copied into
this file; positions of `for … in range(a, b)` come from `pyn_ranges`, reads `rd a i` are rewritten to
ℕ-indexed reads, writes go through `wr_upd`; verification conditions are dispatched by shape
(`first | … | …`), not by their tags.
-/
namespace Hdc.GenNum
open Hdc Hdc.Gen.NumKernels Std.Do
open Hdc.Ws2dGen (av Holds)
open Hdc.Ws2d (fnl)
open Hdc.GenKernels (gv lv gv_toArray)

set_option mvcgen.warning false
set_option linter.unusedSimpArgs false
set_option linter.unusedTactic false
set_option linter.unreachableTactic false

/-! ### tinterpolate: scatter the observations, smooth, average per label run -/

section tinterpolate
variable {α : Type} [Field α] [LinearOrder α] [IsStrictOrderedRing α]

/-- the vector the model hands to the smoother -/
def tiTemp (x template : List α) : List α :=
  setLast (scatterMarks template x) (x.getLastD (nat 0))

/-- the daily curve of the translated source (a call of the translated `ws2d`) is the daily curve
    of the model (`Hdc.ws2d`): `C01gen.gen_ws2d_eq_model`, which needs at least 3 days -/
theorem ti_curve {t x : List α} {p : ℕ} {temp : Array α} {ii jj : ℤ} (lam : α)
    (h : Scat t x p temp ii jj) (hp : p = t.length) (h3 : 3 ≤ t.length) :
    (Gen.Ws2d.ws2d (wr temp (-1) (rd x.toArray (-1))) lam t.toArray).toList
      = Hdc.ws2d (tiTemp x t) lam t := by
  rw [h.final hp (by omega)]
  exact C01gen.gen_ws2d_eq_model _ t lam
    (by rw [Stats.setLast_length, Stats.scatterMarks_length])
    (by rw [Stats.setLast_length, Stats.scatterMarks_length]; exact h3)

/-- The translated `tinterpolate`, for an output buffer of ANY size: the buffer receives the model's
    values `round(sum / days)` run by run; if it is longer than the number of runs the cells beyond
    keep their content, if it is shorter the writes beyond its end are dropped (Python raises an
    IndexError there, Numba does not check).

    Contract used: `len(template) = len(labels) ≥ 3` (what the translated `ws2d` needs; the kernel's
    contract says ≥ 4 days), and at most `len(x)` nonzero template cells (otherwise the source
    reads `x[jj]` beyond the end of `x`). -/
theorem gen_tinterpolate_spec (rnd : α → α) (lam : α) (x template : List α) (labels : List Int)
    (out0 : Array α) (hlen : template.length = labels.length) (h3 : 3 ≤ template.length)
    (hm : nmarks template ≤ x.length) :
    (Gen.NumKernels.tinterpolate rnd lam x.toArray template.toArray labels.toArray out0).toList
      = ((Hdc.tinterp lam x template labels).map (band rnd)
          ++ out0.toList.drop (Hdc.tinterp lam x template labels).length).take out0.size := by
  generalize hres :
    Gen.NumKernels.tinterpolate rnd lam x.toArray template.toArray labels.toArray out0 = res
  apply Id.of_wp_run_eq hres
  mvcgen invariants
  -- state `(temp, ii, jj)`
  · ⇓⟨xs, s⟩ => ⌜Scat template x xs.prefix.length s.1 s.2.1 s.2.2⌝
  -- state `(out, ii, jj, kk, v)`
  · ⇓⟨xs, s⟩ => ⌜Runs labels (Hdc.ws2d (tiTemp x template) lam template) (band rnd) out0
        xs.prefix.length s.1 s.2.1 s.2.2.1 s.2.2.2.1 s.2.2.2.2⌝
  all_goals
    pyn_ranges
    simp (config := {zetaDelta := true}) only [List.size_toArray, List.length_append,
      List.length_singleton, List.length_nil, pyRange_length, decide_eq_true_eq] at *
  all_goals first
    -- scatter loop: a mark / no mark / entry
    | exact (‹Scat _ _ _ _ _ _›).step_mark (by omega) hm ‹(!eqv _ _) = true› (by omega)
    | exact (‹Scat _ _ _ _ _ _›).step_zero (by omega) ‹¬ (!eqv _ _) = true› (by omega)
    | exact Scat.init template x
    -- run-length loop: same label / new label
    | (py_name pref as pref
       have hS := ‹Scat _ _ _ _ _ _›
       have hR := ‹Runs _ _ _ _ _ _ _ _ _ _›
       have hz := ti_curve lam hS (by omega) h3
       have hzl := Stats.tinterp_z_length lam x template
       have hii := hR.hii
       have hc := ‹rdI labels.toArray _ = rdI labels.toArray _›
       rw [rdI_of_eq _ _ (pref.length + 1) (by omega), rdI_of_eq _ _ pref.length (by omega),
         gv_toArray, gv_toArray] at hc
       rw [rd_of_eq _ _ (pref.length + 1) (by omega), av_eq_fnl_toList, hz]
       exact hR.step_same (by omega) (by rw [tiTemp, hzl]; omega) hc)
    | (py_name pref as pref
       have hS := ‹Scat _ _ _ _ _ _›
       have hR := ‹Runs _ _ _ _ _ _ _ _ _ _›
       have hz := ti_curve lam hS (by omega) h3
       have hzl := Stats.tinterp_z_length lam x template
       have hii := hR.hii
       have hc := ‹¬ rdI labels.toArray _ = rdI labels.toArray _›
       rw [rdI_of_eq _ _ (pref.length + 1) (by omega), rdI_of_eq _ _ pref.length (by omega),
         gv_toArray, gv_toArray] at hc
       rw [rd_of_eq _ _ (pref.length + 1) (by omega), av_eq_fnl_toList, hz]
       exact hR.step_new (by omega) (by rw [tiTemp, hzl]; omega) hc)
    -- entry of the run-length loop (`v = z[0]`)
    | (have hS := ‹Scat _ _ _ _ _ _›
       have hz := ti_curve lam hS (by omega) h3
       have hzl := Stats.tinterp_z_length lam x template
       rw [rd_of_eq _ 0 0 rfl, av_eq_fnl_toList, hz]
       exact Runs.init labels _ _ out0 (by omega) (by rw [tiTemp, hzl]; omega))
    -- exit: the last run is written
    | (have hR := ‹Runs _ _ _ _ _ _ _ _ _ _›
       have hzl := Stats.tinterp_z_length lam x template
       have hf := hR.final (by omega) (by rw [tiTemp, hzl]; omega)
       exact toList_of_spec hf.1 hf.2)

/-- The translated `tinterpolate` equals the hand model, under the kernel's contract: the output
    buffer has one cell per maximal run of equal labels. -/
theorem gen_tinterpolate_eq_model (rnd : α → α) (lam : α) (x template : List α)
    (labels : List Int) (out0 : Array α) (hlen : template.length = labels.length)
    (h3 : 3 ≤ template.length) (hm : nmarks template ≤ x.length)
    (hl : out0.size = (labels.splitBy (· == ·)).length) :
    (Gen.NumKernels.tinterpolate rnd lam x.toArray template.toArray labels.toArray out0).toList
      = (Hdc.tinterp lam x template labels).map (fun (v, k) => rnd (v / (k : α))) := by
  rw [gen_tinterpolate_spec rnd lam x template labels out0 hlen h3 hm, hl,
    ← tinterp_length lam x template labels hlen, List.take_left' (by simp)]
  rfl

/-- non-vacuity: 6 days, marks on days 0, 3, 5, two label runs of 3 days, λ = 1, `round` the identity;
    the buffer starts with garbage -/
example : (Gen.NumKernels.tinterpolate (fun v => v) (1 : ℚ) [10, 20, 30].toArray
      [1, 0, 0, 1, 0, 1].toArray [1, 1, 1, 2, 2, 2].toArray #[7, 7]).toList
    = [4070 / 309, 2580 / 103] := by
  rw [gen_tinterpolate_eq_model _ _ _ _ _ _ (by decide) (by decide) (by decide +kernel) (by decide)]
  decide +kernel

/-- a buffer that is one cell too long keeps its last cell -/
example : (Gen.NumKernels.tinterpolate (fun v => v) (1 : ℚ) [10, 20, 30].toArray
      [1, 0, 0, 1, 0, 1].toArray [1, 1, 1, 2, 2, 2].toArray #[7, 7, 7]).toList
    = [4070 / 309, 2580 / 103, 7] := by
  rw [gen_tinterpolate_spec _ _ _ _ _ _ (by decide) (by decide) (by decide +kernel)]
  decide +kernel

end tinterpolate

end Hdc.GenNum
