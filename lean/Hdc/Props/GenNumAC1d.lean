import Hdc.Props.GenNumACInt
import Hdc.Props.GenNumACFloat
import Hdc.Gen.NumAutocorr1d
/-
GenNumAC1d  The GENERATED translation of the dispatcher `ops/autocorr.py::autocorr_1d(data, nodata=None)`
(Hdc/Gen/NumAutocorr1d.lean, written by harness/py2lean_ac.py) computes the hand model `Hdc.autocorr1d`.

`if nodata is None` is a test on the TYPE of the argument: Numba compiles one version of the function per argument-type
signature and prunes the dead branch.  The translator does the same: one Lean function per specialisation, the live branch
only (the dead one would not type-check: it passes a float array to the integer kernel, or an integer nodata to nothing).
   `autocorr_1d_none`  nodata omitted / None, float data     -> `autocorr_1d_float(data)`       missing = `isnan`
   `autocorr_1d_nd`    integer data and an integer nodata    -> `autocorr_1d_int(data, nodata)` missing = `== nodata`
`acDispatch` below packs the two as ONE function of the Boolean "is integer data with a nodata value"; both specialisations
return the model `Hdc.autocorr1d` applied to the series of optional cells.  The two combinations Numba also accepts are
outside this file: float data WITH a nodata value (the `assert data.dtype.kind in ("i", "u")` of `autocorr_1d_int` fails),
and integer data WITHOUT nodata (the float kernel on cast cells, no cell is NaN).
-/
namespace Hdc.GenNumAC1d
open Hdc Hdc.Gen.NumKernels

variable {α : Type} [Field α] [LinearOrder α] [IsStrictOrderedRing α]

/-- nodata omitted: the float kernel -/
theorem gen_autocorr_1d_none_eq_model (isnan : α → Bool) (rsqrt : α → α) (eps : α) (data : List α) :
    Gen.NumKernels.autocorr_1d_none isnan rsqrt eps data.toArray
      = Hdc.autocorr1d rsqrt eps (data.map fun v => if isnan v then none else some v) := by
  rw [← Hdc.GenNumACFloat.gen_autocorr_1d_float_eq_model]
  rfl

/-- integer data with an integer nodata: the integer kernel -/
theorem gen_autocorr_1d_nd_eq_model (rsqrt : α → α) (eps : α) (data : List Int) (nodata : Int) :
    Gen.NumKernels.autocorr_1d_nd rsqrt eps data.toArray nodata
      = Hdc.autocorr1d rsqrt eps (data.map fun v => if v = nodata then none else some (v : α)) := by
  rw [← Hdc.GenNumACInt.gen_autocorr_1d_int_eq_model]
  rfl

/-- the dispatcher as one function of the Boolean "integer data (with a nodata value)": which generated specialisation runs -/
def acDispatch (isnan : α → Bool) (rsqrt : α → α) (eps : α) (isInt : Bool) (dataF : List α) (dataI : List Int)
    (nodata : Int) : α :=
  if isInt then Gen.NumKernels.autocorr_1d_nd rsqrt eps dataI.toArray nodata
  else Gen.NumKernels.autocorr_1d_none isnan rsqrt eps dataF.toArray

/-- … and its model: the same `Hdc.autocorr1d`, on the cells that are valid for the branch taken -/
theorem acDispatch_eq_model (isnan : α → Bool) (rsqrt : α → α) (eps : α) (isInt : Bool) (dataF : List α)
    (dataI : List Int) (nodata : Int) :
    acDispatch isnan rsqrt eps isInt dataF dataI nodata
      = Hdc.autocorr1d rsqrt eps
          (if isInt then dataI.map fun v => if v = nodata then none else some (v : α)
           else dataF.map fun v => if isnan v then none else some v) := by
  cases isInt
  · simp only [acDispatch, Bool.false_eq_true, if_false, gen_autocorr_1d_none_eq_model]
  · simp only [acDispatch, if_true, gen_autocorr_1d_nd_eq_model]

/-! ### Non-vacuity -/

example : Gen.NumKernels.autocorr_1d_nd (fun v : ℚ => 1 / v) (1 / 100000000) [1, 2, -1, 4, 5].toArray (-1)
    = 10 / 441 := by
  rw [gen_autocorr_1d_nd_eq_model]; decide +kernel

example : Gen.NumKernels.autocorr_1d_none (fun v : ℚ => decide (v = -1)) (fun v => 1 / v) (1 / 100000000)
    [1, 2, -1, 4, 5].toArray = 10 / 441 := by
  rw [gen_autocorr_1d_none_eq_model]; decide +kernel

end Hdc.GenNumAC1d
