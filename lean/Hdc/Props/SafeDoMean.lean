import Hdc.Lemmas.SafeSim
import Hdc.Lemmas.SafeNp
import Hdc.Gen.SafeDoMean
import Hdc.Gen.KDoMean
import Std.Tactic.Do
/-
SafeDoMean  Memory safety of `ops/zonal.py::do_mean` from the source (instrumented translation Hdc/Gen/SafeDoMean.lean,
written by harness/py2lean_stats.py).  Subscripts: `pixels[tix, rw, cl]`, `z_pixels[rw, cl]`, `sums[z_idx]`, `counts[z_idx]`
(the zone label read from the raster is used as an index), `counts[idx]`, `sums[idx]`, `result[tix, idx, 0|1]`.  The n-d
arrays are passed flattened with their dimensions; an n-d subscript is flagged unless each index is inside ITS axis
(`-d ≤ i < d`) and the row-major position is inside the flat buffer.  The division `sums[idx] / counts[idx]` is flagged when
`counts[idx] = 0`.

What the flag says about zone labels: `sums[z_idx]` with `-num_zones ≤ z_idx < 0` is INSIDE Python's accepted range (the index
wraps to zone `num_zones + z_idx`): memory-safe, semantically wrong, flag down (`safe_do_mean_ok`, and the example below).  A
label `≥ num_zones` or `< -num_zones` (other than `z_nodata`, on a valid pixel) raises the flag: under Numba that store is
outside `sums` / `counts`.  The contract that excludes both is `safe_do_mean_ok_contract`: label = `z_nodata` or
`0 ≤ label < num_zones`.  (The docstring's "starting with 0 for the first zone and num_zones for the last zone" is off by one:
the label `num_zones` itself is out of range, see the example.)
-/
namespace Hdc.SafeProps
open Hdc Hdc.Gen Hdc.Gen.Kernels Hdc.PyNpT Hdc.SafeSim Hdc.SafeLemmas Hdc.GenKernels Std.Do

set_option mvcgen.warning false
set_option linter.unusedSimpArgs false
set_option linter.unusedTactic false
set_option linter.unreachableTactic false
set_option linter.unusedVariables false

variable {β : Type}

/-- (i) the instrumented program IS the translated `do_mean` plus a flag (any dimensions, also inconsistent ones) -/
theorem safe_do_mean_fst (F : FloatOps β) (pixels : Array Int) (d0 d1 d2 : Int) (z_pixels : Array Int)
    (e0 e1 num_zones nodata z_nodata : Int) :
    (Safe.do_mean F pixels d0 d1 d2 z_pixels e0 e1 num_zones nodata z_nodata).1
      = Kernels.do_mean F pixels d0 d1 d2 z_pixels e0 e1 num_zones nodata z_nodata := by
  unfold Safe.do_mean Kernels.do_mean
  safe_sim

/-- (ii) the flag stays down under
    * `hp`, `hzs`: the flat buffers hold (at least) the cells their shapes `(T, Y, X)` and `(ZY, ZX)` say;
    * `hY`, `hX`: the zone raster covers the pixel raster (`Y ≤ ZY`, `X ≤ ZX`; the documented contract is equality);
    * `hlab`: on every cell the kernel counts (pixel ≠ nodata, label ≠ z_nodata) the label is an index Python accepts on
      an array of `num_zones` cells: `-num_zones ≤ label < num_zones`.
    Nothing about `num_zones` itself (≤ 0: `hlab` then says that no cell is counted), nodata values, `T`, `Y`, `X` (also 0).
    Invariants: flag down and the sizes of `result` (T·num_zones·2), `sums`, `counts` (num_zones) are kept. -/
theorem safe_do_mean_ok (F : FloatOps β) (pixels z_pixels : Array Int) (T Y X ZY ZX : ℕ)
    (num_zones nodata z_nodata : Int)
    (hp : T * Y * X ≤ pixels.size) (hzs : ZY * ZX ≤ z_pixels.size) (hY : Y ≤ ZY) (hX : X ≤ ZX)
    (hlab : ∀ tix rw cl : ℕ, tix < T → rw < Y → cl < X →
      rd pixels (flat3 T Y X tix rw cl) ≠ nodata → rd z_pixels (flat2 ZY ZX rw cl) ≠ z_nodata →
        -num_zones ≤ rd z_pixels (flat2 ZY ZX rw cl) ∧ rd z_pixels (flat2 ZY ZX rw cl) < num_zones) :
    (Safe.do_mean F pixels T Y X z_pixels ZY ZX num_zones nodata z_nodata).2 = false := by
  have hp' : (T : Int) * Y * X ≤ pixels.size := by exact_mod_cast hp
  have hzs' : (ZY : Int) * ZX ≤ z_pixels.size := by exact_mod_cast hzs
  generalize hres : Safe.do_mean F pixels T Y X z_pixels ZY ZX num_zones nodata z_nodata = res
  apply Id.of_wp_run_eq hres
  mvcgen invariants
  -- time steps, state `(bad, pix, z_idx, result, sums, counts)`
  · ⇓⟨xs, s⟩ => ⌜s.1 = false ∧ s.2.2.2.1.size = ((T : Int) * num_zones * 2).toNat
      ∧ s.2.2.2.2.1.size = num_zones.toNat ∧ s.2.2.2.2.2.size = num_zones.toNat⌝
  -- rows, columns: state `(bad, pix, z_idx, sums, counts)`
  · ⇓⟨xs, s⟩ => ⌜s.1 = false ∧ s.2.2.2.1.size = num_zones.toNat ∧ s.2.2.2.2.size = num_zones.toNat⌝
  · ⇓⟨xs, s⟩ => ⌜s.1 = false ∧ s.2.2.2.1.size = num_zones.toNat ∧ s.2.2.2.2.size = num_zones.toNat⌝
  -- zones of the output: state `(bad, result)`
  · ⇓⟨xs, s⟩ => ⌜s.1 = false ∧ s.2.size = ((T : Int) * num_zones * 2).toNat⌝
  all_goals
    py_ranges
    try simp (config := {zetaDelta := true}) only [pyRange_length, decide_eq_true_eq, decide_eq_false_iff_not,
      not_lt, not_le, Bool.or_eq_false_iff, Bool.and_eq_true, Bool.false_or, ne_eq,
      oob_eq_false_iff, oobFlat_eq_false_iff, maskBad_eq_false_iff,
      size_wr, Array.size_map, size_wrG, size_npFull] at *
    py_subst_ranges
    try simp only [Int.zero_add] at *
  all_goals first
    -- one cell of the raster: `pixels[tix, rw, cl]`, `z_pixels[rw, cl]`, and (if counted) `sums[z_idx]`, `counts[z_idx]`
    | (py_name pref as pc; py_name pref as pr; py_name pref as pt
       have f3 := flat3_bound T Y X pt.length pr.length pc.length (by omega) (by omega) (by omega) (by omega)
         (by omega) (by omega)
       have f2 := flat2_bound ZY ZX pr.length pc.length (by omega) (by omega) (by omega) (by omega)
       have hl := hlab pt.length pr.length pc.length (by omega) (by omega) (by omega)
       rename_i hcond
       first
         | (have hl' := hl hcond.1 hcond.2
            (repeat' apply And.intro) <;> first | omega | simp_all)
         | ((repeat' apply And.intro) <;> first | omega | simp_all))
    -- one zone of the output: `counts[idx]`, `sums[idx]`, `result[tix, idx, 0]`, `result[tix, idx, 1]`, the division
    | (py_name pref as pz; py_name pref as pt
       have g0 := flat3_bound T num_zones 2 pt.length pz.length 0 (by omega) (by omega) (by omega) (by omega)
         (by omega) (by omega)
       have g1 := flat3_bound T num_zones 2 pt.length pz.length 1 (by omega) (by omega) (by omega) (by omega)
         (by omega) (by omega)
       (repeat' apply And.intro) <;> first | omega | simp_all)
    -- entries and exits of the loops
    | ((repeat' apply And.intro) <;> first | omega | simp_all)

/-- what the flag accepts, stated on the raster: consistent shapes and every label `z_nodata` or within Python's index
    range of `num_zones` cells - which includes the NEGATIVE labels `-num_zones .. -1` (they wrap around) -/
theorem safe_do_mean_ok_labels (F : FloatOps β) (pixels z_pixels : Array Int) (T Y X : ℕ)
    (num_zones nodata z_nodata : Int)
    (hp : pixels.size = T * Y * X) (hzs : z_pixels.size = Y * X)
    (hlab : ∀ z ∈ z_pixels.toList, z = z_nodata ∨ (-num_zones ≤ z ∧ z < num_zones)) :
    (Safe.do_mean F pixels T Y X z_pixels Y X num_zones nodata z_nodata).2 = false := by
  refine safe_do_mean_ok F pixels z_pixels T Y X Y X num_zones nodata z_nodata (by omega) (by omega)
    (Nat.le_refl _) (Nat.le_refl _) ?_
  intro tix rw cl _ hrw hcl _ hz
  have hzs' : (z_pixels.size : Int) = (Y : Int) * X := by exact_mod_cast hzs
  obtain ⟨b0, b1⟩ := flat2_bound Y X rw cl (by omega) (by omega) (by omega) (by omega)
  rcases hlab _ (rd_mem z_pixels (flat2 Y X rw cl) b0 (by omega)) with h | h
  · exact absurd h hz
  · exact h

/-- the kernel's contract (what the docstring means): consistent shapes, every label `z_nodata` or in `0 .. num_zones-1` -/
theorem safe_do_mean_ok_contract (F : FloatOps β) (pixels z_pixels : Array Int) (T Y X : ℕ)
    (num_zones nodata z_nodata : Int)
    (hp : pixels.size = T * Y * X) (hzs : z_pixels.size = Y * X)
    (hlab : ∀ z ∈ z_pixels.toList, z = z_nodata ∨ (0 ≤ z ∧ z < num_zones)) :
    (Safe.do_mean F pixels T Y X z_pixels Y X num_zones nodata z_nodata).2 = false :=
  safe_do_mean_ok_labels F pixels z_pixels T Y X num_zones nodata z_nodata hp hzs fun z hz =>
    (hlab z hz).imp id fun h => ⟨by omega, h.2⟩

/-! ### outside the contract the flag goes up; inside Python's range but outside the contract it does not
(division kept as a pair, `FloatOps.pair`: a mean is (sum, count); pixels of shape (2, 1, 3), zones (1, 3), 3 zones, nodata -1 / -9) -/

/-- in contract: result and flag -/
example : Safe.do_mean FloatOps.pair #[4, -1, 6, 1, 2, 3] 2 1 3 #[0, 0, 1] 1 3 3 (-1) (-9)
    = (#[(4, 1), (1, 1), (6, 1), (1, 1), (0, 0), (0, 1), (3, 2), (2, 1), (3, 1), (1, 1), (0, 0), (0, 1)], false) := by
  decide +kernel
/-- `hlab`, label = `num_zones` (the docstring's "num_zones for the last zone"): `sums[3]` on 3 cells, flag up -/
example : (Safe.do_mean FloatOps.pair #[4, -1, 6, 1, 2, 3] 2 1 3 #[0, 3, 1] 1 3 3 (-1) (-9)).2 = true := by decide +kernel
/-- `hlab`, label `< -num_zones`: flag up -/
example : (Safe.do_mean FloatOps.pair #[4, -1, 6, 1, 2, 3] 2 1 3 #[0, -4, 1] 1 3 3 (-1) (-9)).2 = true := by decide +kernel
/-- a NEGATIVE label within `-num_zones .. -1` (here -2, not `z_nodata`): flag DOWN - the store wraps around to zone
    `3 - 2 = 1`, whose second time step now reports (sum, count) = (5, 2) instead of (3, 1).  Memory-safe, semantically wrong:
    excluded by `safe_do_mean_ok_contract` (0 ≤ label), not by the flag. -/
example : Safe.do_mean FloatOps.pair #[4, -1, 6, 1, 2, 3] 2 1 3 #[0, -2, 1] 1 3 3 (-1) (-9)
    = (#[(4, 1), (1, 1), (6, 1), (1, 1), (0, 0), (0, 1), (1, 1), (1, 1), (5, 2), (2, 1), (0, 0), (0, 1)], false) := by
  decide +kernel
/-- an out-of-range label under pixels that are all nodata is never used as an index: flag down (why `hlab` is conditional) -/
example : (Safe.do_mean FloatOps.pair #[4, -1, 6, 1, -1, 3] 2 1 3 #[0, 3, 1] 1 3 3 (-1) (-9)).2 = false := by decide +kernel
/-- `hp`: the pixel buffer one cell short of T·Y·X -/
example : (Safe.do_mean FloatOps.pair #[4, -1, 6, 1, 2] 2 1 3 #[0, 0, 1] 1 3 3 (-1) (-9)).2 = true := by decide +kernel
/-- `hX`: zone raster narrower than the pixel raster (shape (1, 2) against (1, 3)) -/
example : (Safe.do_mean FloatOps.pair #[4, -1, 6, 1, 2, 3] 2 1 3 #[0, 0] 1 2 3 (-1) (-9)).2 = true := by decide +kernel
/-- `hY`: zone raster with fewer rows (pixels (1, 2, 1), zones (1, 1)) -/
example : (Safe.do_mean FloatOps.pair #[4, 5] 1 2 1 #[0] 1 1 3 (-1) (-9)).2 = true := by decide +kernel
/-- `hzs`: the zone buffer shorter than its stated shape (1, 3) -/
example : (Safe.do_mean FloatOps.pair #[4, -1, 6, 1, 2, 3] 2 1 3 #[0, 0] 1 3 3 (-1) (-9)).2 = true := by decide +kernel
/-- a zone raster LARGER than the pixel raster ((2, 4) against (1, 3)) is safe, as `hY`, `hX` say -/
example : (Safe.do_mean FloatOps.pair #[4, -1, 6, 1, 2, 3] 2 1 3 #[0, 0, 1, 7, 7, 7, 7, 7] 2 4 3 (-1) (-9)).2 = false := by
  decide +kernel

end Hdc.SafeProps
