import Hdc.Gen.GlueCroo
import Hdc.Lemmas.GenGluePx
import Hdc.Props.C18
/-
GenGlueCroo  The GENERATED per-pixel translation of the accessor `PixelAlgorithms.croo` (Hdc/Gen/GlueCroo.lean: the xarray
pipeline `sortby("time", ascending=False)`, `where(x == 1)`, `cumsum("time", skipna=False)`, `where(~isnull, 0)`, `argmax("time")`,
`+ isel(time=0)` on the trusted per-pixel semantics Hdc/PyXr.lean) equals the hand model `Hdc.croo` (Hdc/Model/Discrete.lean) on
every non-empty NaN-free series — any stored order, duplicate time keys included, any non-negative values — and hence (C18) is the
length of the run of ones ending at the latest time step when the values are 0 / 1.
-/
namespace Hdc.GenGluePx
open Hdc Hdc.PyGlue Hdc.PyXr Hdc.Gen.Glue Hdc.GenGlue

/-- REFINEMENT: on a non-empty NaN-free pixel series the translated pipeline returns the model's `croo`.
    Hypothesis `ps ≠ []`: on the empty series Python raises (`argmax` of an empty sequence, `gen_croo_empty`), the model says 0. -/
theorem gen_croo_eq_model (ps : List (Int × Nat)) (hne : ps ≠ []) :
    croo_acc true (liftSer ps) = .ok (some (croo ps)) := by
  have hS : sortDesc ps ≠ [] := by
    intro h
    have := (Discrete.sortDesc_perm ps).length_eq
    rw [h] at this
    exact hne (List.length_eq_zero_iff.1 this.symm)
  obtain ⟨p, S, hp⟩ := List.exists_cons_of_ne_nil hS
  unfold croo_acc
  glue_eval
  rw [sortbyTime_desc_liftSer, hp]
  have hcells := croo_cells (p :: S) (some 0)
  simp only [cumsumTime]
  rw [argmaxTime_of_cells _ _ (crooCum_ne_nil (some 0) p.2 (S.map (·.2))) hcells]
  have hisel : iselTime (liftSer (p :: S)) 0 = .ok (some p.2) := rfl
  glue_eval
  rw [hisel]
  glue_eval
  simp only [croo, crooSorted, hp, List.map_cons, List.headD_cons, addIdxVal, Option.map_some]

/-- no `time` dimension: MissingTimeError, whatever the data -/
theorem gen_croo_no_time (x : PxSer) : croo_acc false x = .error .missingTimeError := rfl

/-- the empty series: `argmax` raises ValueError (the model `croo [] = 0` does not apply) -/
theorem gen_croo_empty : croo_acc true [] = .error .valueError := rfl

/-- values 0 / 1: the result is the length of the run of ones at the newest end of the series -/
theorem gen_croo_eq_leading_run (ps : List (Int × Nat)) (hne : ps ≠ []) (hbin : ∀ p ∈ ps, p.2 = 0 ∨ p.2 = 1) :
    croo_acc true (liftSer ps) = .ok (some (C18.leadingRun ((sortDesc ps).map (·.2)))) := by
  rw [gen_croo_eq_model ps hne]
  have hb : ∀ x ∈ (sortDesc ps).map (·.2), x = 0 ∨ x = 1 := by
    intro x hx
    obtain ⟨p, hp, rfl⟩ := List.mem_map.1 hx
    exact hbin p ((Discrete.sortDesc_perm ps).subset hp)
  unfold croo
  rw [C18.crooSorted_eq _ hb]

/-- values 0 / 1: the result `n` is a run of ones occupying the LAST `n` cells of the chronological series -/
theorem gen_croo_is_trailing_run (ps : List (Int × Nat)) (hne : ps ≠ []) (hbin : ∀ p ∈ ps, p.2 = 0 ∨ p.2 = 1) :
    ∃ n, croo_acc true (liftSer ps) = .ok (some n) ∧ C18.IsRun (C18.chrono ps) ((C18.chrono ps).length - n) n :=
  ⟨croo ps, gen_croo_eq_model ps hne, C18.croo_is_trailing_run ps hbin⟩

/-- NaN at the newest time step: the result is NaN (the index found by `argmax` is added to a NaN) -/
theorem gen_croo_newest_nan (x : PxSer) (t : Int) (rest : PxSer) (h : sortbyTime x false = (t, none) :: rest) :
    croo_acc true x = .ok none := by
  unfold croo_acc
  glue_eval
  rw [h]
  obtain ⟨k, hk⟩ := argmaxTime_ok_of_head t 0
    ((whereNotnullElse (cumsumFrom false none (whereEq rest 1)) 0))
  have hcum : whereNotnullElse (cumsumTime (whereEq ((t, none) :: rest) 1) false) 0
      = (t, some 0) :: whereNotnullElse (cumsumFrom false none (whereEq rest 1)) 0 := rfl
  rw [hcum, hk]
  rfl

-- non-vacuity: stored out of order; newest-first values 1,1,0,1
example : croo_acc true (liftSer [(30, 1), (10, 1), (40, 1), (20, 0)]) = .ok (some 2) := by
  rw [gen_croo_eq_model _ (by simp)]; rfl
example : croo_acc true (liftSer [(30, 1), (10, 1), (40, 1), (20, 0)]) = .ok (some 2) := rfl
-- `ps ≠ []` is needed: program and model differ on the empty series
example : croo_acc true (liftSer []) = .error .valueError ∧ croo [] = 0 := ⟨rfl, rfl⟩
-- `hbin` is needed for the run statements: the value 2 at the newest step is ADDED to the index (result 2, no run of ones)
example : croo_acc true (liftSer [(1, 1), (2, 2)]) = .ok (some 2) ∧ C18.leadingRun ((sortDesc [(1, 1), (2, 2)]).map (·.2)) = 0 :=
  ⟨rfl, by decide⟩
-- NaN inside the series ends the run like a 0; NaN at the newest step gives NaN
example : croo_acc true [(1, some 1), (2, none), (3, some 1), (4, some 1)] = .ok (some 2) := rfl
example : croo_acc true [(1, some 1), (2, some 1), (3, none)] = .ok none := rfl
example : croo_acc true [(1, some 1), (3, none), (2, some 1)] = .ok none :=
  gen_croo_newest_nan _ 3 [(2, some 1), (1, some 1)] rfl
-- what the seeded regressions do to the pipeline (PyXr semantics): ascending order / skipna=True give other values
example : (do let xs := sortbyTime (liftSer [(1, 0), (2, 1)]) true
              let k ← argmaxTime (whereNotnullElse (cumsumTime (whereEq xs 1) false) 0)
              let v ← iselTime xs 0
              pure (addIdxVal k v)) = .ok (some 0) ∧ croo_acc true (liftSer [(1, 0), (2, 1)]) = .ok (some 1) := ⟨rfl, rfl⟩
example : (do let xs := sortbyTime (liftSer [(1, 1), (2, 0), (3, 1)]) false
              let k ← argmaxTime (whereNotnullElse (cumsumTime (whereEq xs 1) true) 0)
              let v ← iselTime xs 0
              pure (addIdxVal k v)) = .ok (some 3) ∧ croo_acc true (liftSer [(1, 1), (2, 0), (3, 1)]) = .ok (some 1) := ⟨rfl, rfl⟩

end Hdc.GenGluePx
