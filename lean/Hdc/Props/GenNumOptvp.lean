import Hdc.Lemmas.GenNum
import Hdc.Gen.NumWs2doptvp
import Hdc.Lemmas.GenNumOptvp
import Std.Tactic.Do
/-
GenNumOptvp  The GENERATED translation of `hdc/algo/ops/ws2doptvp.py::ws2doptvp` (Hdc/Gen/NumWs2doptvp.lean, an imperative
`Id.run do` program over an abstract carrier `α`, regenerated from the Python source by harness/py2lean_optvp.py)
computes the hand model `Hdc.optvp`.

  gen_ws2doptvp_eq_model                    = Hdc.optvp (curve rounded, λ) / pass-through
  gen_ws2doptvp_some, gen_ws2doptvp_none    the same as equations between the returned arrays

Method: `mvcgen` with one invariant per loop (Hdc/Lemmas/GenNumOptvp.lean, Hdc/Lemmas/GenNumOptv.lean); the verification
conditions of the loops shared with `_ws2doptvp` / `ws2doptvplc` are dispatched by shape by `optvp_loops`; the generated
expressions are never copied into this file (only the positions of the loop variables inside the state tuples of the
`for` loops appear).
-/
namespace Hdc.GenNum
open Hdc Hdc.Gen.NumKernels Std.Do
open Hdc.Ws2dGen (av Holds)
open Hdc.Ws2d (fnl)

set_option mvcgen.warning false
set_option linter.unusedSimpArgs false
set_option linter.unusedTactic false
set_option linter.unreachableTactic false

section optvp
variable {α : Type} [Field α] [LinearOrder α] [IsStrictOrderedRing α]

/-- The translated `ws2doptvp` equals the hand model `Hdc.optvp` (missing-cell test `x == nodata`): the rounded curve of
    the asymmetric fit at the λ selected on the V-curve of the warm-started sweep when at least two cells are valid, the
    pass-through `out[:] = y[:]`, `lopt = 0` otherwise.

    Hypotheses: the shapes the gufunc signature `(n),(),(),(m) -> (n),()` guarantees (`out` has the length of `y`,
    `lopt` is a one-cell buffer); and, only when at least two cells are valid (otherwise the source touches neither
    `ws2d` nor the grid): `3 ≤ len(y)` (what the translated `ws2d` needs) and at least 2 grid points (otherwise the
    source reads `llas[1]`, `v[0]` out of range).  The contents of `out0`, `lopt0` are irrelevant. -/
theorem gen_ws2doptvp_eq_model (F : VFns α) (rnd : α → α) (y llas : List α) (nodata p : α)
    (out0 lopt0 : Array α) (ho : out0.size = y.length) (hl : lopt0.size = 1)
    (hc : 1 < countValid (missNd nodata) y → 3 ≤ y.length ∧ 2 ≤ llas.length) :
    match Hdc.optvp F (fun x => eqv x nodata) y p llas with
    | some (z, lo) =>
      (Gen.NumKernels.ws2doptvp F rnd y.toArray nodata p llas.toArray out0 lopt0).1.toList
          = z.map rnd ∧
      (Gen.NumKernels.ws2doptvp F rnd y.toArray nodata p llas.toArray out0 lopt0).2.toList = [lo]
    | none =>
      (Gen.NumKernels.ws2doptvp F rnd y.toArray nodata p llas.toArray out0 lopt0).1.toList = y ∧
      (Gen.NumKernels.ws2doptvp F rnd y.toArray nodata p llas.toArray out0 lopt0).2.toList = [0] := by
  generalize hres : Gen.NumKernels.ws2doptvp F rnd y.toArray nodata p llas.toArray out0 lopt0 = res
  apply Id.of_wp_run_eq hres
  mvcgen invariants
  -- weights loop, state `(w, n)`
  · ⇓⟨xs, s⟩ => ⌜WInv nodata y xs.prefix.length s.1 s.2⌝
  -- λ grid, state `(i, j, fits, pens, z, znew, diff1, wa, ww, lmda, z_tmp, w_tmp, y_tmp, z2)`
  · ⇓⟨xs, s⟩ => ⌜SweepP F (weightsOf (missNd nodata) y) y p llas xs.prefix.length s.2.2.1 s.2.2.2.1
      s.2.2.2.2.1 s.2.2.2.2.2.1 s.2.2.2.2.2.2.1 s.2.2.2.2.2.2.2.1 s.2.2.2.2.2.2.2.2.1⌝
  -- re-weighting loop, state `(i, j, z, znew, wa, ww, z_tmp, y_tmp)`
  · ⇓⟨xs, s⟩ => by
      py_name z as z0; py_name lmda as lam
      exact ⌜IInv y (weightsOf (missNd nodata) y) lam p
        (irls y (weightsOf (missNd nodata) y) lam p 10 z0.toList (zerosLike y)) xs.prefix.length
        s.2.2.1 s.2.2.2.1 s.2.2.2.2.1 s.2.2.2.2.2.1⌝
  -- `wa[j] = …; ww[j] = w[j] * wa[j]`, state `(j, wa, ww, z_tmp, y_tmp)`
  · ⇓⟨xs, s⟩ => by
      py_name z as zc
      exact ⌜AWInv p (weightsOf (missNd nodata) y) y zc.toList xs.prefix.length s.2.1 s.2.2.1⌝
  -- `z_tmp += abs(znew[j] - z[j])`, state `(j, z_tmp)`
  · ⇓⟨xs, s⟩ => by
      py_name z as zc; py_name znew as zn
      exact ⌜L1Inv zn.toList zc.toList xs.prefix.length s.2⌝
  -- `fits[lix] += …`, state `(i, fits, z_tmp, w_tmp, y_tmp)`
  · ⇓⟨xs, s⟩ => by
      py_name fits as fits0; py_name cur as k; py_name z as zc
      exact ⌜AccInv fits0 s.2.1 k.toNat (fitTerms (weightsOf (missNd nodata) y) y zc.toList)
        xs.prefix.length⌝
  -- `diff1[i] = z[i+1] - z[i]`, state `(i, diff1, z_tmp, z2)`
  · ⇓⟨xs, s⟩ => by
      py_name z as zc
      exact ⌜Holds (y.length - 1) (fnl (diffs zc.toList)) xs.prefix.length s.2.1⌝
  -- `pens[lix] += …`, state `(i, pens, z_tmp, z2)`
  · ⇓⟨xs, s⟩ => by
      py_name pens as pens0; py_name cur as k; py_name z as zc
      exact ⌜AccInv pens0 s.2.1 k.toNat (penTerms zc.toList) xs.prefix.length⌝
  -- V-curve, state `(i, lamids, v, l1, l2, fit1, fit2, pen1, pen2)`
  · ⇓⟨xs, s⟩ => ⌜VInvG F llas (fG F (weightsOf (missNd nodata) y) y p llas)
      (pG F (weightsOf (missNd nodata) y) y p llas) xs.prefix.length s.2.1 s.2.2.1⌝
  -- first strict minimum, state `(i, k, vmin)`
  · ⇓⟨xs, s⟩ => ⌜ArgInvG F llas (fG F (weightsOf (missNd nodata) y) y p llas)
      (pG F (weightsOf (missNd nodata) y) y p llas) xs.prefix.length s.2.1 s.2.2⌝
  -- final re-weighting loop (same three states); λ is `lopt[0]`
  · ⇓⟨xs, s⟩ => by
      py_name z as z0; py_name lopt as lo
      exact ⌜IInv y (weightsOf (missNd nodata) y) (rd lo 0) p
        (irls y (weightsOf (missNd nodata) y) (rd lo 0) p 10 z0.toList (zerosLike y)) xs.prefix.length
        s.2.2.1 s.2.2.2.1 s.2.2.2.2.1 s.2.2.2.2.2.1⌝
  · ⇓⟨xs, s⟩ => by
      py_name z as zc
      exact ⌜AWInv p (weightsOf (missNd nodata) y) y zc.toList xs.prefix.length s.2.1 s.2.2.1⌝
  · ⇓⟨xs, s⟩ => by
      py_name z as zc; py_name znew as zn
      exact ⌜L1Inv zn.toList zc.toList xs.prefix.length s.2⌝
  all_goals
    pyn_ranges
    simp (config := {zetaDelta := true}) only [List.size_toArray, List.length_append,
      List.length_singleton, List.length_nil, pyRange_length, decide_eq_true_eq, gt_iff_lt,
      Int.toNat_natCast, Int.sub_zero, show Int.toNat 10 = 10 from rfl,
      rd_wr_zero lopt0 _ (by omega)] at *
  all_goals first
    -- weights loop: nodata cell / valid cell / entry
    | exact (‹WInv _ _ _ _ _›).step_miss (by omega) ‹eqv _ _ = true› (by omega)
    | exact (‹WInv _ _ _ _ _›).step_valid (by omega) ‹¬ eqv _ _ = true› (by omega)
    | exact WInv.init nodata y
    -- fewer than two valid cells: pass-through
    | (have hnot := ‹¬ (1 : ℤ) < _›
       obtain ⟨hw, hn⟩ := (‹WInv _ _ _ _ _›).final (by omega)
       rw [optvp_invalid F (missNd nodata) y p llas (by omega)]
       exact ⟨passthrough_eq ho rfl rfl, by rw [wr_single _ _ hl]; simp [nat]⟩)
    | skip
  -- everything else happens after the weights loop: `w` is the model's weight vector
  all_goals
    obtain ⟨hw, hn⟩ := (‹WInv _ _ _ _ _›).final (by omega)
    obtain ⟨h3, h2⟩ := hc (by omega)
    have hwl : (weightsOf (missNd nodata) y).length = y.length := by simp
    simp only [hw] at *
  optvp_loops hwl h3 h2
  -- after the final re-weighting loop: `z = ws2d(y, lopt[0], ww)`; `np.round(z, 0, out)`
  all_goals
    have hI := ‹IInv _ _ _ _ _ 10 _ _ _ _›
    obtain ⟨hlo, hz⟩ := final_fit ‹ArgInvG _ _ _ _ _ _ _› (by omega) ‹VInvG _ _ _ _ _ _ _› (by omega)
      ‹SweepP _ _ _ _ _ _ _ _ _ _ _ _ _› hwl h3 hI
    rw [optvp_valid F (missNd nodata) y p llas (by omega) h2]
    exact ⟨by rw [round_out rnd ho hI.wsz h3, hz], by rw [wr_single _ _ hl, hlo]⟩

/-- the same, as an equation between the returned pair of arrays: the model selects a λ -/
theorem gen_ws2doptvp_some (F : VFns α) (rnd : α → α) (y llas : List α) (nodata p : α)
    (out0 lopt0 : Array α) (ho : out0.size = y.length) (hl : lopt0.size = 1)
    (h3 : 3 ≤ y.length) (h2 : 2 ≤ llas.length)
    (z : List α) (lo : α) (hm : Hdc.optvp F (fun x => eqv x nodata) y p llas = some (z, lo)) :
    Gen.NumKernels.ws2doptvp F rnd y.toArray nodata p llas.toArray out0 lopt0
      = ((z.map rnd).toArray, #[lo]) := by
  have h := gen_ws2doptvp_eq_model F rnd y llas nodata p out0 lopt0 ho hl (fun _ => ⟨h3, h2⟩)
  rw [hm] at h
  dsimp only at h
  apply Prod.ext <;> apply Array.toList_inj.1
  · exact h.1
  · exact h.2

/-- … the model passes the input through (fewer than two valid cells): no condition on `len(y)` or on the grid -/
theorem gen_ws2doptvp_none (F : VFns α) (rnd : α → α) (y llas : List α) (nodata p : α)
    (out0 lopt0 : Array α) (ho : out0.size = y.length) (hl : lopt0.size = 1)
    (hv : ¬ 1 < countValid (missNd nodata) y) :
    Gen.NumKernels.ws2doptvp F rnd y.toArray nodata p llas.toArray out0 lopt0
      = (y.toArray, #[0]) := by
  have h := gen_ws2doptvp_eq_model F rnd y llas nodata p out0 lopt0 ho hl (fun h => absurd h hv)
  rw [optvp_invalid F (missNd nodata) y p llas hv] at h
  dsimp only at h
  apply Prod.ext <;> apply Array.toList_inj.1
  · exact h.1
  · exact h.2

/-- a toy instance of the transcendental functions over ℚ (identity maps, `ln 10 := 1`) -/
def FqP : VFns ℚ := ⟨fun x => x, fun x => x, fun x => x, 1⟩

/-- non-vacuity: five valid cells, three grid points, `p = 9/10`; `round` the identity; the buffers start with
    garbage -/
example :
    Gen.NumKernels.ws2doptvp FqP (fun v => v) [1, 2, 4, 3, 5].toArray (-1) (9 / 10) [1, 2, 3].toArray
        #[0, 0, 0, 0, 0] #[9]
      = (#[979721 / 566496, 764371 / 283248, 16359 / 4496, 1272419 / 283248, 3020905 / 566496],
          #[5 / 2]) := by
  rw [gen_ws2doptvp_some FqP (fun v => v) [1, 2, 4, 3, 5] [1, 2, 3] (-1) (9 / 10) #[0, 0, 0, 0, 0] #[9]
    rfl rfl (by decide) (by decide)
    [979721 / 566496, 764371 / 283248, 16359 / 4496, 1272419 / 283248, 3020905 / 566496] (5 / 2)
    (by decide +kernel)]
  rfl

/-- one nodata cell (weight 0), four grid points, `p = 1/10` -/
example :
    Gen.NumKernels.ws2doptvp FqP (fun v => v) [1, 2, -1, 3, 5].toArray (-1) (1 / 10)
        [0, 1, 2, 3].toArray #[7, 7, 7, 7, 7] #[9]
      = (#[45227 / 50402, 41402 / 25201, 60294 / 25201, 79753 / 25201, 200485 / 50402], #[5 / 2]) := by
  rw [gen_ws2doptvp_some FqP (fun v => v) [1, 2, -1, 3, 5] [0, 1, 2, 3] (-1) (1 / 10) #[7, 7, 7, 7, 7] #[9]
    rfl rfl (by decide) (by decide)
    [45227 / 50402, 41402 / 25201, 60294 / 25201, 79753 / 25201, 200485 / 50402] (5 / 2)
    (by decide +kernel)]
  rfl

/-- a single valid cell: pass-through, `lopt = 0` (a one-point grid is fine here) -/
example :
    Gen.NumKernels.ws2doptvp FqP (fun v => v) [1, -1, -1, -1, -1].toArray (-1) (1 / 10) [0].toArray
        #[7, 7, 7, 7, 7] #[9] = (#[1, -1, -1, -1, -1], #[0]) := by
  rw [gen_ws2doptvp_none FqP (fun v => v) [1, -1, -1, -1, -1] [0] (-1) (1 / 10) #[7, 7, 7, 7, 7] #[9]
    rfl rfl (by decide +kernel)]

end optvp

end Hdc.GenNum
