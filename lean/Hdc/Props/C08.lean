import Hdc.Props.C07
import Mathlib.Order.Monotone.Basic
/-
C08  SPI preserves ordering, saturates, never crashes.

FORMAL STATEMENTS (all proved below, namespace `Hdc.C08`)

 hypotheses on the special functions, always explicit:
     hG : ∀ a, Monotone (F.gammainc a)      hN : Monotone F.ndtri      hroot : ∀ xa xb s, 0 ≤ F.root xa xb s
 1. zeroProb_bounds        0 ≤ p0 ≤ 1  (derived, no hypothesis)
    calScale_pos           Fittable ∧ hroot → 0 < shape ∧ 0 < scale
    spiValue_monotone      Fittable → v ≤ w → spiValue v ≤ spiValue w
    gammastd_monotone      cells i, j both `some`: x_i ≤ x_j → value_i ≤ value_j
    gammastd_equal_inputs  x_i = x_j → cell_i = cell_j   (no hypothesis on F at all)
 2. spiScale_eq_clip       spiScale lo hi k v = min hi (max lo (v·k))   (for lo ≤ hi)
    spiScale_range         lo ≤ hi → lo ≤ spiScale lo hi k v ≤ hi
    spiScale_monotone      0 ≤ k → Monotone (spiScale lo hi k)
    spiCell_monotone       Monotone rnd, 0 ≤ k → v ≤ w → spiCell … (some v) ≤ spiCell … (some w)
    spiCell_range          Monotone rnd, lo ≤ hi → rnd lo ≤ spiCell … (some v) ≤ rnd hi   (saturation, no wrap)
    spi_index_monotone     end to end: the stored index is a non-decreasing function of the observation
 3. gammastd_length, gammastd_total (every cell is defined),
    gammastd_nodata_negative (nodata / negative cells are `none` in every branch),
    gammastd_valid_some (in a fittable series every valid cell is `some`),
    gammastd_unfittable (no valid cell, p0 > 0.9, no positive cell in the window, s = 0 or root = 0 → every cell `none`)
-/
set_option linter.unusedSectionVars false
set_option linter.unusedSimpArgs false
set_option linter.unusedVariables false
namespace Hdc.C08
open Hdc.Spi Hdc.C07 Finset

variable {α : Type} [Field α] [LinearOrder α] [IsStrictOrderedRing α]

/-! ## Specification-side definitions -/

/-- saturation of `t` to the interval `[lo, hi]` -/
def clip (lo hi t : α) : α := min hi (max lo t)

/-! ## 2. scaling, saturation, rounding -/

theorem spiScale_eq_clip (lo hi k v : α) : spiScale lo hi k v = clip lo hi (v * k) := by
  unfold spiScale clip
  simp only
  by_cases h1 : v * k < lo
  · rw [if_pos h1, max_eq_left (le_of_lt h1)]
    by_cases h2 : hi < lo
    · rw [if_pos h2, min_eq_left (le_of_lt h2)]
    · rw [if_neg h2, min_eq_right (not_lt.mp h2)]
  · rw [if_neg h1, max_eq_right (not_lt.mp h1)]
    by_cases h2 : hi < v * k
    · rw [if_pos h2, min_eq_left (le_of_lt h2)]
    · rw [if_neg h2, min_eq_right (not_lt.mp h2)]

theorem spiScale_range (lo hi k v : α) (h : lo ≤ hi) :
    lo ≤ spiScale lo hi k v ∧ spiScale lo hi k v ≤ hi := by
  rw [spiScale_eq_clip]
  unfold clip
  exact ⟨le_min h (le_max_left _ _), min_le_left _ _⟩

theorem spiScale_monotone (lo hi k : α) (hk : 0 ≤ k) : Monotone (spiScale lo hi k) := by
  intro v w hvw
  rw [spiScale_eq_clip, spiScale_eq_clip]
  unfold clip
  exact min_le_min (le_refl _) (max_le_max (le_refl _) (mul_le_mul_of_nonneg_right hvw hk))

theorem spiCell_monotone (rnd : α → α) (hr : Monotone rnd) (lo hi k nodata : α) (hk : 0 ≤ k)
    (v w : α) (hvw : v ≤ w) :
    spiCell rnd lo hi k nodata (some v) ≤ spiCell rnd lo hi k nodata (some w) := by
  unfold spiCell
  exact hr (spiScale_monotone lo hi k hk hvw)

/-- saturation: the stored value never leaves `[rnd lo, rnd hi]` (= `[lo, hi]` when the limits
    are fixed points of the rounding, as the integers −32768 and 32767 are) -/
theorem spiCell_range (rnd : α → α) (hr : Monotone rnd) (lo hi k nodata : α) (h : lo ≤ hi) (v : α) :
    rnd lo ≤ spiCell rnd lo hi k nodata (some v) ∧ spiCell rnd lo hi k nodata (some v) ≤ rnd hi := by
  unfold spiCell
  exact ⟨hr (spiScale_range lo hi k v h).1, hr (spiScale_range lo hi k v h).2⟩

theorem spiCell_range' (rnd : α → α) (hr : Monotone rnd) (lo hi k nodata : α) (h : lo ≤ hi)
    (hlo : rnd lo = lo) (hhi : rnd hi = hi) (v : α) :
    lo ≤ spiCell rnd lo hi k nodata (some v) ∧ spiCell rnd lo hi k nodata (some v) ≤ hi := by
  have := spiCell_range rnd hr lo hi k nodata h v
  rw [hlo, hhi] at this; exact this

theorem spiCell_none (rnd : α → α) (lo hi k nodata : α) :
    spiCell rnd lo hi k nodata none = nodata := rfl

/-! ## 1. order preservation of the standardisation -/

theorem nZero_le_nValid (x : List α) (nodata : α) : nZero x nodata ≤ nValid x nodata := by
  unfold nZero nValid
  rw [← List.countP_eq_length_filter, ← List.countP_eq_length_filter]
  apply List.countP_mono_left
  intro v _ hv
  simp only [decide_eq_true_eq] at hv ⊢
  exact ⟨hv.1, le_of_eq hv.2.symm⟩

/-- the probability of zero is a probability -/
theorem zeroProb_bounds (x : List α) (nodata : α) :
    0 ≤ zeroProb x nodata ∧ zeroProb x nodata ≤ 1 := by
  unfold zeroProb
  have h1 : (0 : α) ≤ (nZero x nodata : α) := Nat.cast_nonneg _
  have h2 : (0 : α) ≤ (nValid x nodata : α) := Nat.cast_nonneg _
  have h3 : (nZero x nodata : α) ≤ (nValid x nodata : α) := by
    exact_mod_cast nZero_le_nValid x nodata
  exact ⟨div_nonneg h1 h2, div_le_one_of_le₀ h3 h2⟩

theorem calScale_pos (F : GamFns α) (hroot : ∀ xa xb s, 0 ≤ F.root xa xb s) (x : List α)
    (nodata : α) (cs ce : ℕ) (hf : Fittable F x nodata cs ce) :
    0 < calShape F x cs ce ∧ 0 < calScale F x cs ce := by
  have ha : 0 < calShape F x cs ce :=
    lt_of_le_of_ne (by unfold calShape shapeOf; exact hroot _ _ _) (Ne.symm hf.2.2.2.2)
  exact ⟨ha, div_pos (calMean_pos x cs ce hf.2.2.1) ha⟩

theorem spiValue_monotone (F : GamFns α) (hG : ∀ a, Monotone (F.gammainc a)) (hN : Monotone F.ndtri)
    (hroot : ∀ xa xb s, 0 ≤ F.root xa xb s) (x : List α) (nodata : α) (cs ce : ℕ)
    (hf : Fittable F x nodata cs ce) : Monotone (spiValue F x nodata cs ce) := by
  intro v w hvw
  unfold spiValue
  apply hN
  have hb := (calScale_pos F hroot x nodata cs ce hf).2
  have hp := (zeroProb_bounds x nodata).2
  have hdiv : v / calScale F x cs ce ≤ w / calScale F x cs ce :=
    div_le_div_of_nonneg_right hvw (le_of_lt hb)
  have hg := hG (calShape F x cs ce) hdiv
  have h1 : 0 ≤ 1 - zeroProb x nodata := by linarith
  have := mul_le_mul_of_nonneg_left hg h1
  linarith

/-- what a `some` cell tells -/
theorem cell_some (F : GamFns α) (x : List α) (nodata : α) (cs ce : ℕ) (i : ℕ) (hi : i < x.length)
    (v : α) (h : (gammastd F x nodata cs ce)[i]? = some (some v)) :
    Fittable F x nodata cs ce ∧ x[i] ≠ nodata ∧ 0 ≤ x[i] ∧ v = spiValue F x nodata cs ce x[i] := by
  rw [gammastd_cell F x nodata cs ce i hi] at h
  split_ifs at h with hc
  · simp only [Option.some.injEq] at h
    exact ⟨hc.1, hc.2.1, hc.2.2, h.symm⟩
  · simp at h

/-- within one series the standardised value is a non-decreasing function of the observation -/
theorem gammastd_monotone (F : GamFns α) (hG : ∀ a, Monotone (F.gammainc a)) (hN : Monotone F.ndtri)
    (hroot : ∀ xa xb s, 0 ≤ F.root xa xb s) (x : List α) (nodata : α) (cs ce : ℕ)
    (i j : ℕ) (hi : i < x.length) (hj : j < x.length) (vi vj : α)
    (hvi : (gammastd F x nodata cs ce)[i]? = some (some vi))
    (hvj : (gammastd F x nodata cs ce)[j]? = some (some vj))
    (hle : x[i] ≤ x[j]) : vi ≤ vj := by
  obtain ⟨hf, _, _, rfl⟩ := cell_some F x nodata cs ce i hi vi hvi
  obtain ⟨_, _, _, rfl⟩ := cell_some F x nodata cs ce j hj vj hvj
  exact spiValue_monotone F hG hN hroot x nodata cs ce hf hle

/-- equal observations get equal cells (whatever the special functions are) -/
theorem gammastd_equal_inputs (F : GamFns α) (x : List α) (nodata : α) (cs ce : ℕ)
    (i j : ℕ) (hi : i < x.length) (hj : j < x.length) (heq : x[i] = x[j]) :
    (gammastd F x nodata cs ce)[i]? = (gammastd F x nodata cs ce)[j]? := by
  rw [gammastd_cell F x nodata cs ce i hi, gammastd_cell F x nodata cs ce j hj, heq]

/-- end to end: the stored int16 index is a non-decreasing function of the observation -/
theorem spi_index_monotone (F : GamFns α) (hG : ∀ a, Monotone (F.gammainc a))
    (hN : Monotone F.ndtri) (hroot : ∀ xa xb s, 0 ≤ F.root xa xb s) (rnd : α → α)
    (hr : Monotone rnd) (lo hi k nd16 : α) (hk : 0 ≤ k) (x : List α) (nodata : α) (cs ce : ℕ)
    (i j : ℕ) (hil : i < x.length) (hjl : j < x.length) (vi vj : α)
    (hvi : (gammastd F x nodata cs ce)[i]? = some (some vi))
    (hvj : (gammastd F x nodata cs ce)[j]? = some (some vj))
    (hle : x[i] ≤ x[j]) :
    spiCell rnd lo hi k nd16 (some vi) ≤ spiCell rnd lo hi k nd16 (some vj) :=
  spiCell_monotone rnd hr lo hi k nd16 hk vi vj
    (gammastd_monotone F hG hN hroot x nodata cs ce i j hil hjl vi vj hvi hvj hle)

/-! ## 3. totality -/

theorem gammastd_length (F : GamFns α) (x : List α) (nodata : α) (cs ce : ℕ) :
    (gammastd F x nodata cs ce).length = x.length :=
  Spi.gammastd_length F x nodata cs ce

/-- every cell of the output is defined, whatever the input -/
theorem gammastd_total (F : GamFns α) (x : List α) (nodata : α) (cs ce : ℕ) (k : ℕ)
    (hk : k < x.length) : ∃ c, (gammastd F x nodata cs ce)[k]? = some c :=
  ⟨_, gammastd_cell F x nodata cs ce k hk⟩

/-- nodata cells and negative cells are `none` in every branch -/
theorem gammastd_nodata_negative (F : GamFns α) (x : List α) (nodata : α) (cs ce : ℕ) (k : ℕ)
    (hk : k < x.length) (h : x[k] = nodata ∨ x[k] < 0) :
    (gammastd F x nodata cs ce)[k]? = some none := by
  rw [gammastd_cell F x nodata cs ce k hk, if_neg]
  rintro ⟨_, h1, h2⟩
  rcases h with h | h
  · exact h1 h
  · exact absurd h (not_lt.mpr h2)

/-- in a fittable series every valid cell gets a value -/
theorem gammastd_valid_some (F : GamFns α) (x : List α) (nodata : α) (cs ce : ℕ) (k : ℕ)
    (hk : k < x.length) (hf : Fittable F x nodata cs ce) (h1 : x[k] ≠ nodata) (h2 : 0 ≤ x[k]) :
    (gammastd F x nodata cs ce)[k]? = some (some (spiValue F x nodata cs ce x[k])) := by
  rw [gammastd_cell F x nodata cs ce k hk, if_pos ⟨hf, h1, h2⟩]

/-- the unfittable cases: every cell is `none` -/
theorem gammastd_unfittable (F : GamFns α) (x : List α) (nodata : α) (cs ce : ℕ)
    (h : nValid x nodata = 0 ∨ F.c09 < zeroProb x nodata ∨ (calCells x cs ce).card = 0 ∨
      calS F x cs ce = 0 ∨ calShape F x cs ce = 0) :
    ∀ c ∈ gammastd F x nodata cs ce, c = none := by
  rw [gammastd_all_nodata_iff]
  intro hf
  rcases h with h | h | h | h | h
  · exact hf.1 h
  · exact hf.2.1 h
  · exact hf.2.2.1 h
  · exact hf.2.2.2.1 h
  · exact hf.2.2.2.2 h

/-- "no positive value in the window" in elementary terms -/
theorem calCells_card_eq_zero_iff (x : List α) (cs ce : ℕ) :
    (calCells x cs ce).card = 0 ↔ ∀ k (hk : k < x.length), cs ≤ k → k < ce → ¬ 0 < x[k] := by
  rw [Finset.card_eq_zero]
  unfold calCells
  rw [Finset.filter_eq_empty_iff]
  constructor
  · intro h k hk h1 h2 h3
    apply h (Finset.mem_range.mpr hk)
    refine ⟨h1, h2, ?_⟩
    rw [List.getD_eq_getElem?_getD, List.getElem?_eq_getElem hk]; exact h3
  · intro h k hk
    have hk' := Finset.mem_range.mp hk
    rintro ⟨h1, h2, h3⟩
    apply h k hk' h1 h2
    rw [List.getD_eq_getElem?_getD, List.getElem?_eq_getElem hk'] at h3; exact h3

/-! ## Non-vacuity -/

/-- the hypotheses on the special functions are satisfiable … -/
example : (∀ a, Monotone (Fex.gammainc a)) ∧ Monotone Fex.ndtri ∧ ∀ xa xb s, 0 ≤ Fex.root xa xb s :=
  ⟨fun _ _ _ h => h, fun _ _ h => h, fun _ _ _ => by simp [Fex]⟩
/-- … on a series that is fittable and has several `some` cells -/
example : Fittable Fex xex (-9999) 0 5 := by decide +kernel
example : gammastd Fex xex (-9999) 0 5 = [some 1, some (7/3), some (1/3), none, none] := by
  decide +kernel
example : spiScale (-32768 : ℚ) 32767 1000 40 = 32767 := by decide +kernel
example : spiScale (-32768 : ℚ) 32767 1000 (-40) = -32768 := by decide +kernel
example : spiScale (-32768 : ℚ) 32767 1000 (3/2) = 1500 := by decide +kernel

end Hdc.C08
