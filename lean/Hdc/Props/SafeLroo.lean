import Hdc.Lemmas.SafeSim
import Hdc.Lemmas.SafeBase
import Hdc.Gen.SafeLroo
import Hdc.Gen.KLroo
import Std.Tactic.Do
/-
SafeLroo  Memory safety of `ops/lroo.py::lroo` from the source (instrumented translation Hdc/Gen/SafeLroo.lean).
The kernel reads `dots[ix]`, `dots[ix - 1]` for `ix` in `range(1, dots.size)` and stores its result in `out[0]`.
-/
namespace Hdc.SafeProps
open Hdc Hdc.Gen Hdc.Gen.Kernels Hdc.SafeSim Hdc.SafeLemmas Hdc.GenKernels Std.Do

set_option mvcgen.warning false
set_option linter.unusedSimpArgs false
set_option linter.unusedTactic false
set_option linter.unreachableTactic false

/-- (i) the instrumented program IS the translated `lroo` plus a flag -/
theorem safe_lroo_fst (data out : Array Int) : (Safe.lroo data out).1 = Kernels.lroo data out := by
  unfold Safe.lroo Kernels.lroo
  safe_sim

/-- (ii) no subscript leaves its array if the output buffer has a cell 0 (the gufunc layout `(n) -> ()` passes a buffer of
    one cell).  Nothing is assumed about `data` (any length, also empty; any values). -/
theorem safe_lroo_ok (data out : Array Int) (hout : 0 < out.size) : (Safe.lroo data out).2 = false := by
  generalize hres : Safe.lroo data out = res
  apply Id.of_wp_run_eq hres
  mvcgen invariants
  -- state `(bad, d, cr, mr)`
  · ⇓⟨xs, s⟩ => ⌜s.1 = false⌝
  safe_vcs []

/-- the contract is exact: the flag is up IF AND ONLY IF the output buffer is empty -/
theorem safe_lroo_flag (data out : Array Int) : (Safe.lroo data out).2 = true ↔ out.size = 0 := by
  generalize hres : Safe.lroo data out = res
  apply Id.of_wp_run_eq hres
  mvcgen invariants
  · ⇓⟨xs, s⟩ => ⌜s.1 = false⌝
  safe_vcs_iff []

/-! ### outside the contract the flag goes up -/

/-- an empty output buffer: `out[0]` is out of range -/
example : (Safe.lroo #[0, 1, 1, 0] #[]).2 = true := by decide +kernel
/-- in contract -/
example : Safe.lroo #[0, 1, 1, 0, 1, 1, 1] #[7] = (#[3], false) := by decide +kernel
example : Safe.lroo #[] #[7] = (#[0], false) := by decide +kernel

end Hdc.SafeProps
