import Hdc.Model.RoundAcc
/-
Validation of the stated assumption of Hdc/Props/C17round.lean (`IntRound.exact` for binary32 / binary64: integers of absolute
value up to 2^24 / 2^53 are represented exactly and sums within that range are exact) against Lean 4.33's kernel-reducible IEEE
model of `Float32` / `Float`, by `decide +kernel` on boundary samples.  These are TESTS of the assumption (a finite sample), kept in
their own module because the last one takes about half a minute in the kernel.
-/
namespace Hdc.C17round
open Hdc

/-! ### validation of the ASSUMPTION against Lean's IEEE model of `Float32` / `Float`

Lean 4.33 defines `Float32` / `Float` through a logical model of IEEE binary32 / binary64 (`Float32.Model`: the bit pattern),
which the kernel evaluates; the statements below are therefore theorems (`decide +kernel`), checked on the same model the
compiled code implements in hardware.  They validate SAMPLES of the assumption `IntRound.exact` for B = 2^24 / 2^53
and of the agreement of `rneInt 24` with binary32 addition; the assumption for ALL |n| ≤ B stays an assumption. -/

/-- `B32` cannot be larger: 2^24 + 1 is rounded to 2^24 (by the addition and by the conversion) -/
theorem f32_B_max : (Float32.ofNat 16777216 + Float32.ofNat 1 == Float32.ofNat 16777216) = true ∧
    (Float32.ofNat 16777217 == Float32.ofNat 16777216) = true := by
  constructor <;> decide +kernel

/-- exact cases at the boundary: 2^24 − 1 and 2^24 are distinct float32 values and the addition hits them exactly -/
theorem f32_exact_samples :
    (Float32.ofNat 16777214 + Float32.ofNat 1 == Float32.ofNat 16777215) = true ∧
    (Float32.ofNat 16777215 + Float32.ofNat 1 == Float32.ofNat 16777216) = true ∧
    (Float32.ofNat 16777214 == Float32.ofNat 16777215) = false ∧
    (Float32.ofNat 16777215 == Float32.ofNat 16777216) = false ∧
    (Float32.ofInt (-16777215) + Float32.ofInt (-1) == Float32.ofInt (-16777216)) = true ∧
    (Float32.ofInt (-16777215) == Float32.ofInt (-16777216)) = false ∧
    (Float32.ofNat 8388607 + Float32.ofNat 8388609 == Float32.ofNat 16777216) = true ∧
    (Float32.ofNat 32767 + Float32.ofNat 32767 == Float32.ofNat 65534) = true := by
  decide +kernel

/-- `B64` cannot be larger, and exact cases at its boundary -/
theorem f64_samples :
    (Float.ofNat 9007199254740992 + Float.ofNat 1 == Float.ofNat 9007199254740992) = true ∧
    (Float.ofNat 9007199254740991 + Float.ofNat 1 == Float.ofNat 9007199254740992) = true ∧
    (Float.ofNat 9007199254740990 + Float.ofNat 1 == Float.ofNat 9007199254740991) = true ∧
    (Float.ofNat 9007199254740991 == Float.ofNat 9007199254740992) = false ∧
    (Float.ofNat 9007199254740990 == Float.ofNat 9007199254740991) = false := by
  decide +kernel

/-- `rneInt 24` agrees with binary32 addition on sample operands on both sides of 2^24 (ties to even in both directions,
    negative values, the spacing 4 above 2^25) -/
theorem rne24_matches_Float32 :
    ([(16777216, 1), (16777216, 3), (16777218, 1), (16777218, 3), (16777215, 1), (30000000, 1), (29999998, 3),
      (-16777216, -1), (-16777216, -3), (33554432, 2), (33554432, 6), (33554436, 2), (33554432, 3), (12345678, 7654321),
      (16777216, -1), (100000000, 1), (100000000, 5), (32767, 32767)] : List (Int × Int)).all
      (fun p => Float32.ofInt p.1 + Float32.ofInt p.2 == Float32.ofInt (rneInt 24 (p.1 + p.2))) = true := by
  decide +kernel

/-- the values `rneInt 24` returns on these samples, for the record (so the agreement above is not an agreement of two
    conversions that round anyway) -/
theorem rne24_values :
    [rneInt 24 16777217, rneInt 24 16777219, rneInt 24 16777221, rneInt 24 30000001, rneInt 24 (-16777219),
      rneInt 24 33554434, rneInt 24 33554438, rneInt 24 33554435, rneInt 24 100000005]
    = [16777216, 16777220, 16777220, 30000000, -16777220, 33554432, 33554440, 33554436, 100000008] := by
  decide +kernel

set_option maxRecDepth 100000 in
/-- the audit's input on Lean's `Float32` itself: `acc = float32(0); 1000 × acc += 30000; 1000 × acc += 1` is 3.0e7 -/
theorem audit_Float32 :
    (Nat.repeat (· + Float32.ofNat 1) 1000 (Nat.repeat (· + Float32.ofNat 30000) 1000 (Float32.ofNat 0))
      == Float32.ofNat 30000000) = true := by
  decide +kernel

end Hdc.C17round
