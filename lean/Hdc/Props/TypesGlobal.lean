import Hdc.Props.TypesCommon
/-
Global type-level theorems (not tied to one kernel): the kernel list is the one the per-kernel families are stated for, the
skipped modules, completeness of the typing table, agreement of the compile flags of shared helpers, tightness of the whitelists,
facts about `safeCast`.  The per-kernel families live in Hdc/Props/TypesK*.lean.
-/
namespace Hdc.Props.Types
open Hdc.Types Hdc.Gen.Types

/-- the summariser found exactly these kernels (a new kernel needs its own family of theorems) -/
theorem kernels_covered :
    ((kernels.filter (·.gufunc)).map (·.name) = gufuncNames) ∧ ((kernels.filter (!·.gufunc)).map (·.name) = njitNames) := by
  decide +kernel


/-- `whit.py` is a legacy copy of the kernels that no module of the package imports -/
theorem skipped_modules : skippedModules = ["whit"] := by decide


/-- the generated list `typings` covers every typing a kernel uses -/
theorem typings_complete :
    kernels.all (fun k => k.fns.all (fun f => typings.any (fun g => g.fn == f.fn && g.sig == f.sig && g.flags == f.flags))) = true := by
  decide +kernel


/-- whichever kernel compiles a shared helper overload first, it is compiled with the same fast-math, bounds-check,
parallel, nogil, object-mode, NRT, rewrite and inlining flags: no flag of one kernel can leak into another kernel through
a helper - except the error model, for exactly the documented helpers -/
theorem shared_helper_flags :
    sharedAgree typings = true ∧ errorModelSplit typings = errorModelSplitDocs := by
  decide +kernel


/-- every whitelist entry is needed: it matches a record of some kernel (stale entries must be deleted) -/
theorem whitelists_tight :
    (narrowDocs.all (fun d => allFns.any (fun f => (narrowKeys f).contains (d.fn, d.op, d.args, d.res)))
    && accumDocs.all (fun d => allFns.any (fun f => (accumKeys f).contains (d.fn, d.target, d.varTy, d.opTy, d.feeds)))
    && castDocs.all (fun d => allFns.any (fun f => (castKeys f).contains (d.fn, d.kind, d.src, d.dst)))
    && flagDocs.all (fun w => kernels.any (fun k => k.flagDeviations.contains (w.kernel, w.fn, w.field, w.value)))
    && decoDocs.all (fun w => kernels.any (fun k => k.name == w.kernel && k.deco.options.contains (w.option, w.value)))
    && layoutDocs.all (fun w => kernels.any (fun k => k.contiguousArgs.contains (w.kernel, w.loop, w.pos)))
    && shadowOK.all (fun s => kernels.any (fun k => k.name == s.kernel && k.loops.any (fun l => l.npy == s.from &&
        callModes.any (fun m => (select k.loops (l.callWith m)).any (fun l' => l'.npy == s.to)))))) = true := by
  decide +kernel


/-- the casts the seeded defects exploit are not safe; the widenings the kernels rely on are -/
theorem safeCast_facts :
    safeCast .i16 .u8 = false ∧ safeCast .i64 .u8 = false ∧ safeCast .f64 .f32 = false ∧ safeCast .i32 .f32 = false
    ∧ safeCast .f64 .i16 = false ∧ safeCast .i16 .f32 = true ∧ safeCast .i16 .f64 = true ∧ safeCast .u8 .f64 = true
    ∧ safeCast .f32 .f64 = true ∧ safeCast .i32 .f64 = true ∧ safeCast .b .u8 = true := by decide


/-- `safeCast` is reflexive on the NumPy dtypes and transitive (it is an order: a chain of safe casts is safe) -/
theorem safeCast_preorder :
    let np : List DType := [.b, .u8, .u16, .u32, .u64, .i8, .i16, .i32, .i64, .f32, .f64]
    (np.all (fun x => safeCast x x)
      && np.all (fun x => np.all (fun y => np.all (fun z => !(safeCast x y && safeCast y z) || safeCast x z)))) = true := by
  decide +kernel


end Hdc.Props.Types
