import Hdc.Lemmas.SmoothIrls
import Hdc.Lemmas.SmoothInv
import Hdc.Props.C02
import Hdc.Py
import Mathlib.Data.Rat.Floor
import Mathlib.Algebra.Order.Floor.Ring
import Mathlib.Algebra.Ring.Int.Parity
import Mathlib.Tactic.NormNum
import Mathlib.Tactic.Positivity
/-
C03  Fixed-λ smoothers return the (rounded) penalised-least-squares / expectile curve.

Formal statements proved in this file (α any linearly ordered field):

  gu_lam_zero / pgu_lam_zero      gu miss y 0 = none,  pgu miss y 0 p = none
  PLS_clean                       PLS with unit weights on valid cells does not see the placeholders
  gu_is_pls_minimiser             4 ≤ |y|, 0 < lam, 2 ≤ countValid → ∃ z, gu miss y lam = some z ∧ |z| = |y| ∧
                                    z minimises PLS(y, w, lam) over all curves ∧ every minimiser equals z on 0..n−1
  roundHalfEvenRat_spec           |round x − x| ≤ 1/2 ∧ (|round x − x| = 1/2 → Even (round x))        (ℚ)
  roundHalfEvenRat_nearest        |round x − x| ≤ |m − x| for every integer m
  roundHalfEvenRat_unique         an integer r with |r − x| ≤ 1/2 and (tie → even) is round x
  roundHalfEvenRat_add_int        Even c ∨ x − ⌊x⌋ ≠ 1/2 → round (x + c) = round x + c
                                  (for ODD c at a tie the equation is FALSE: counterexample below)
  gu_band_spec                    the band (ℚ): every entry within 1/2 of the PLS minimiser, ties to even
  asymW_spec / asymW_length / asymW_entry      entries are w_i·p where y_i > z_i and w_i·(1−p) elsewhere
  asymW_pos_iff / asymW_inContract   0<p<1: same support, weights ≥ 0, InContract is preserved
  irls_weights                    the weights returned after k ≥ 1 passes are asymW p w y (iter j) for the curve
                                  `iter j` the last executed pass started from; + where the loop stops
  irls_reproduces                 ws2d y lam (irls …).2 = (irls …).1   (so `expectile = (irls …).1`)
  expectile_normal_eq             0<p<1, InContract y w lam → NormalEq |y| y (irls …).2 lam (expectile y w lam p)
  expectile_fixed_point           the loop stopped early (some pass j < 10 reproduced its input) →
                                    z* = ws2d y lam (asymW p w y z*) ∧ NormalEq |y| y (asymW p w y z*) lam z*
  iter_line / early_stop_of_line  data on a line: every pass returns the line, the loop stops early (non-vacuity of the above)
  expectile_fixed_point'          the same from `(irls …).2 = asymW p w y (irls …).1`
                                  (NB the formalisation `ws2d y lam r.2 = r.1` of "stopped early" is vacuous: it ALWAYS
                                   holds, see irls_reproduces; "some pass reproduced its input" is the right one)
  pgu_spec                        ties the above to `pgu` (≥ 2 valid, lam > 0, n ≥ 4, 0<p<1)
-/
namespace Hdc.C03
open Hdc Hdc.C01 Hdc.Smooth Hdc.Py

set_option linter.unusedSectionVars false

variable {α : Type} [Field α] [LinearOrder α] [IsStrictOrderedRing α]

/-! ### 1. λ = 0 -/

theorem gu_lam_zero (miss : α → Bool) (y : List α) : gu miss y 0 = none :=
  (C02.gu_passthrough_iff miss y 0).2 (Or.inl rfl)

theorem pgu_lam_zero (miss : α → Bool) (y : List α) (p : α) : pgu miss y 0 p = none :=
  (C02.pgu_passthrough_iff miss y 0 p).2 (Or.inl rfl)

/-! ### 2. the curve of ws2dgu is the penalised least-squares minimiser -/

/-- with unit weights on the valid cells, the functional does not see the placeholders -/
theorem PLS_clean (miss : α → Bool) (y : List α) (lam : α) (z : ℕ → α) :
    PLS y.length (fn y) (fn (weightsOf miss y)) lam z =
      PLS y.length (fn (cleanOf miss y)) (fn (weightsOf miss y)) lam z := by
  unfold PLS
  congr 1
  apply Finset.sum_congr rfl
  intro i hi
  have hi' : i < y.length := Finset.mem_range.1 hi
  by_cases h0 : fn (weightsOf miss y) i = 0
  · rw [h0]; simp
  · rw [cleanOf_masked miss y i h0]

theorem gu_is_pls_minimiser (miss : α → Bool) (y : List α) (lam : α) (hn : 4 ≤ y.length)
    (hlam : 0 < lam) (hv : 2 ≤ countValid miss y) :
    ∃ z, gu miss y lam = some z ∧ z.length = y.length ∧
      (∀ z' : ℕ → α, PLS y.length (fn y) (fn (weightsOf miss y)) lam (fn z)
          ≤ PLS y.length (fn y) (fn (weightsOf miss y)) lam z') ∧
      (∀ z' : ℕ → α, PLS y.length (fn y) (fn (weightsOf miss y)) lam z'
          ≤ PLS y.length (fn y) (fn (weightsOf miss y)) lam (fn z) → ∀ i < y.length, z' i = fn z i) := by
  have hc := inContract_clean miss y lam hn hlam hv
  refine ⟨_, C02.gu_eq_some miss y lam hlam.ne' hv, ?_, ?_, ?_⟩
  · rw [ws2d_length _ _ _ (by simp)]; simp
  · intro z'
    rw [PLS_clean, PLS_clean]
    simpa using ws2d_minimises hc z'
  · intro z' hz' i hi
    rw [PLS_clean, PLS_clean] at hz'
    exact ws2d_minimiser_unique hc z' (by simpa using hz') i (by simpa using hi)

/-! ### 3. half-to-even rounding (ℚ) -/

theorem roundHalfEvenRat_cases (x : ℚ) :
    (x - ⌊x⌋ < 1 / 2 ∧ roundHalfEvenRat x = ⌊x⌋) ∨
    (1 / 2 < x - ⌊x⌋ ∧ roundHalfEvenRat x = ⌊x⌋ + 1) ∨
    (x - ⌊x⌋ = 1 / 2 ∧ Even ⌊x⌋ ∧ roundHalfEvenRat x = ⌊x⌋) ∨
    (x - ⌊x⌋ = 1 / 2 ∧ Odd ⌊x⌋ ∧ roundHalfEvenRat x = ⌊x⌋ + 1) := by
  have hf : x.floor = ⌊x⌋ := rfl
  unfold roundHalfEvenRat
  simp only [hf]
  by_cases h1 : x - (⌊x⌋ : ℚ) < 1 / 2
  · left; exact ⟨h1, by rw [if_pos h1]⟩
  · right
    by_cases h2 : 1 / 2 < x - (⌊x⌋ : ℚ)
    · left; exact ⟨h2, by rw [if_neg h1, if_pos h2]⟩
    · right
      have he : x - (⌊x⌋ : ℚ) = 1 / 2 := le_antisymm (not_lt.1 h2) (not_lt.1 h1)
      by_cases h3 : ⌊x⌋ % 2 = 0
      · left; exact ⟨he, Int.even_iff.2 h3, by rw [if_neg h1, if_neg h2, if_pos h3]⟩
      · right
        refine ⟨he, Int.not_even_iff_odd.1 (fun h => h3 (Int.even_iff.1 h)), ?_⟩
        rw [if_neg h1, if_neg h2, if_neg h3]

theorem roundHalfEvenRat_spec (x : ℚ) :
    |((roundHalfEvenRat x : ℤ) : ℚ) - x| ≤ 1 / 2 ∧
      (|((roundHalfEvenRat x : ℤ) : ℚ) - x| = 1 / 2 → Even (roundHalfEvenRat x)) := by
  have h0 : (⌊x⌋ : ℚ) ≤ x := Int.floor_le x
  have h1 : x < ⌊x⌋ + 1 := Int.lt_floor_add_one x
  rcases roundHalfEvenRat_cases x with ⟨hd, hr⟩ | ⟨hd, hr⟩ | ⟨hd, he, hr⟩ | ⟨hd, ho, hr⟩
  · rw [hr]
    have : |(⌊x⌋ : ℚ) - x| = x - ⌊x⌋ := by rw [abs_sub_comm, abs_of_nonneg (by linarith)]
    rw [this]
    exact ⟨le_of_lt hd, fun h => absurd h (ne_of_lt hd)⟩
  · rw [hr]
    have : |((⌊x⌋ + 1 : ℤ) : ℚ) - x| = ⌊x⌋ + 1 - x := by
      push_cast; rw [abs_of_nonneg (by linarith)]
    rw [this]
    exact ⟨by linarith, fun h => absurd h (by intro h'; linarith)⟩
  · rw [hr]
    exact ⟨by rw [abs_sub_comm, abs_of_nonneg (by linarith)]; linarith, fun _ => he⟩
  · rw [hr]
    refine ⟨?_, fun _ => ho.add_one⟩
    push_cast; rw [abs_of_nonneg (by linarith)]; linarith

/-- the rounded value is a nearest integer -/
theorem roundHalfEvenRat_nearest (x : ℚ) (m : ℤ) :
    |((roundHalfEvenRat x : ℤ) : ℚ) - x| ≤ |(m : ℚ) - x| := by
  have h := (roundHalfEvenRat_spec x).1
  by_cases hm : m = roundHalfEvenRat x
  · rw [hm]
  · have h1 : (1 : ℚ) ≤ |(m : ℚ) - (roundHalfEvenRat x : ℤ)| := by
      have : (1 : ℤ) ≤ |m - roundHalfEvenRat x| := Int.one_le_abs (sub_ne_zero.2 hm)
      have h2 : ((1 : ℤ) : ℚ) ≤ ((|m - roundHalfEvenRat x| : ℤ) : ℚ) := by exact_mod_cast this
      simpa using h2
    have h2 : |(m : ℚ) - (roundHalfEvenRat x : ℤ)| ≤
        |(m : ℚ) - x| + |((roundHalfEvenRat x : ℤ) : ℚ) - x| := by
      have := abs_sub_le (m : ℚ) x ((roundHalfEvenRat x : ℤ) : ℚ)
      rwa [abs_sub_comm x _] at this
    linarith

/-- nearest-with-ties-to-even determines the value -/
theorem roundHalfEvenRat_unique (x : ℚ) (r : ℤ) (h1 : |(r : ℚ) - x| ≤ 1 / 2)
    (h2 : |(r : ℚ) - x| = 1 / 2 → Even r) : r = roundHalfEvenRat x := by
  obtain ⟨s1, s2⟩ := roundHalfEvenRat_spec x
  set q := roundHalfEvenRat x with hq
  by_contra hne
  have hd : (1 : ℚ) ≤ |(r : ℚ) - (q : ℤ)| := by
    have : (1 : ℤ) ≤ |r - q| := Int.one_le_abs (sub_ne_zero.2 hne)
    have h3 : ((1 : ℤ) : ℚ) ≤ ((|r - q| : ℤ) : ℚ) := by exact_mod_cast this
    simpa using h3
  have htri : |(r : ℚ) - (q : ℤ)| ≤ |(r : ℚ) - x| + |((q : ℤ) : ℚ) - x| := by
    have := abs_sub_le (r : ℚ) x ((q : ℤ) : ℚ)
    rwa [abs_sub_comm x _] at this
  have e1 : |(r : ℚ) - x| = 1 / 2 := by linarith
  have e2 : |((q : ℤ) : ℚ) - x| = 1 / 2 := by linarith
  have er := h2 e1
  have eq := s2 e2
  -- two distinct even integers at distance exactly 1: impossible
  have hd1 : |(r : ℚ) - (q : ℤ)| = 1 := by linarith
  have hd1' : |r - q| = 1 := by
    have : ((|r - q| : ℤ) : ℚ) = ((1 : ℤ) : ℚ) := by push_cast; simpa using hd1
    exact_mod_cast this
  have hev : Even (r - q) := er.sub eq
  rcases abs_eq (by norm_num : (0 : ℤ) ≤ 1) |>.1 hd1' with h | h
  · rw [h] at hev; exact absurd hev (by decide)
  · rw [h] at hev; exact absurd hev (by decide)

theorem roundHalfEvenRat_add_int (x : ℚ) (c : ℤ) (h : Even c ∨ x - ⌊x⌋ ≠ 1 / 2) :
    roundHalfEvenRat (x + c) = roundHalfEvenRat x + c := by
  obtain ⟨s1, s2⟩ := roundHalfEvenRat_spec x
  symm
  apply roundHalfEvenRat_unique
  · push_cast
    have : ((roundHalfEvenRat x : ℤ) : ℚ) + c - (x + c) = (roundHalfEvenRat x : ℤ) - x := by ring
    rw [this]; exact s1
  · intro ht
    push_cast at ht
    have e : ((roundHalfEvenRat x : ℤ) : ℚ) + c - (x + c) = (roundHalfEvenRat x : ℤ) - x := by ring
    rw [e] at ht
    rcases h with hc | hx
    · exact (s2 ht).add hc
    · exfalso
      apply hx
      have h0 : (⌊x⌋ : ℚ) ≤ x := Int.floor_le x
      have h1 : x < ⌊x⌋ + 1 := Int.lt_floor_add_one x
      rcases roundHalfEvenRat_cases x with ⟨hd, hr⟩ | ⟨hd, hr⟩ | ⟨hd, _, _⟩ | ⟨hd, _, _⟩
      · rw [hr, abs_sub_comm, abs_of_nonneg (by linarith)] at ht; exact ht
      · rw [hr] at ht; push_cast at ht
        rw [abs_of_nonneg (by linarith)] at ht; linarith
      · exact hd
      · exact hd

/-- at a tie an ODD offset does not commute with rounding: 1/2 ↦ 0 but 3/2 ↦ 2 -/
example : roundHalfEvenRat (1 / 2 + ((1 : ℤ) : ℚ)) ≠ roundHalfEvenRat (1 / 2) + 1 := by
  have h1 : roundHalfEvenRat (1 / 2 + ((1 : ℤ) : ℚ)) = 2 :=
    (roundHalfEvenRat_unique _ 2 (by rw [abs_le]; constructor <;> norm_num) (fun _ => by decide)).symm
  have h2 : roundHalfEvenRat (1 / 2) = 0 :=
    (roundHalfEvenRat_unique _ 0 (by rw [abs_le]; constructor <;> norm_num) (fun _ => by decide)).symm
  rw [h1, h2]; decide

/-- the band of ws2dgu on ℚ: every entry is a nearest integer (ties to even) to the unique
    minimiser of the penalised least-squares functional with unit weights on valid cells -/
theorem gu_band_spec (miss : ℚ → Bool) (y : List ℚ) (lam : ℚ) (hn : 4 ≤ y.length)
    (hlam : 0 < lam) (hv : 2 ≤ countValid miss y) :
    ∃ z, gu miss y lam = some z ∧ z.length = y.length ∧
      (∀ z' : ℕ → ℚ, PLS y.length (fn y) (fn (weightsOf miss y)) lam (fn z)
          ≤ PLS y.length (fn y) (fn (weightsOf miss y)) lam z') ∧
      ∀ i (hi : i < z.length),
        |(((z.map roundHalfEvenRat)[i]'(by simpa using hi) : ℤ) : ℚ) - z[i]| ≤ 1 / 2 ∧
        (|(((z.map roundHalfEvenRat)[i]'(by simpa using hi) : ℤ) : ℚ) - z[i]| = 1 / 2 →
          Even ((z.map roundHalfEvenRat)[i]'(by simpa using hi))) := by
  obtain ⟨z, h1, h2, h3, _⟩ := gu_is_pls_minimiser miss y lam hn hlam hv
  refine ⟨z, h1, h2, h3, ?_⟩
  intro i hi
  simp only [List.getElem_map]
  exact roundHalfEvenRat_spec z[i]

/-! ### 4. asymmetric weights -/

theorem asymW_length (p : α) (w y z : List α) (hw : w.length = y.length) (hz : z.length = y.length) :
    (asymW p w y z).length = y.length := by
  rw [Smooth.asymW_length, hw, hz]; simp

/-- entry `i`: `w_i · p` where the data lies above the curve, `w_i · (1 − p)` elsewhere -/
theorem asymW_entry (p : α) (w y z : List α) (i : ℕ) (h1 : i < w.length) (h2 : i < y.length)
    (h3 : i < z.length) :
    fn (asymW p w y z) i = if fn z i < fn y i then fn w i * p else fn w i * (1 - p) := by
  rw [fn_asymW p w y z i h1 h2 h3, aw]
  split_ifs <;> rfl

theorem aw_pos_iff (p w y z : α) (hp0 : 0 < p) (hp1 : p < 1) : 0 < aw p w y z ↔ 0 < w := by
  unfold aw
  have : 0 < (if z < y then p else 1 - p) := by split_ifs <;> linarith
  exact ⟨fun h => (pos_iff_pos_of_mul_pos h).2 this, fun h => mul_pos h this⟩

theorem aw_nonneg (p w y z : α) (hp0 : 0 < p) (hp1 : p < 1) (hw : 0 ≤ w) : 0 ≤ aw p w y z := by
  unfold aw
  have : 0 ≤ (if z < y then p else 1 - p) := by split_ifs <;> linarith
  exact mul_nonneg hw this

theorem aw_le (p w y z : α) (hp0 : 0 < p) (hp1 : p < 1) (hw : 0 ≤ w) : aw p w y z ≤ w := by
  unfold aw
  have : (if z < y then p else 1 - p) ≤ 1 := by split_ifs <;> linarith
  exact mul_le_of_le_one_right hw this

/-- for `0 < p < 1` the re-weighting keeps the support -/
theorem asymW_pos_iff (p : α) (w y z : List α) (hp0 : 0 < p) (hp1 : p < 1) (i : ℕ)
    (h1 : i < w.length) (h2 : i < y.length) (h3 : i < z.length) :
    0 < fn (asymW p w y z) i ↔ 0 < fn w i := by
  rw [fn_asymW p w y z i h1 h2 h3]; exact aw_pos_iff p _ _ _ hp0 hp1

/-- entries and support of the asymmetric weights, in one statement -/
theorem asymW_spec (p : α) (w y z : List α) (hw : w.length = y.length) (hz : z.length = y.length) :
    (asymW p w y z).length = y.length ∧
    (∀ i < y.length, fn (asymW p w y z) i =
      if fn z i < fn y i then fn w i * p else fn w i * (1 - p)) ∧
    (0 < p → p < 1 → ∀ i < y.length, (0 < fn (asymW p w y z) i ↔ 0 < fn w i) ∧
      (fn (asymW p w y z) i = 0 ↔ fn w i = 0)) := by
  refine ⟨asymW_length p w y z hw hz, ?_, ?_⟩
  · intro i hi
    exact asymW_entry p w y z i (by omega) hi (by omega)
  · intro hp0 hp1 i hi
    refine ⟨asymW_pos_iff p w y z hp0 hp1 i (by omega) hi (by omega), ?_⟩
    rw [fn_asymW p w y z i (by omega) hi (by omega), aw]
    have : (if fn z i < fn y i then p else 1 - p) ≠ 0 := by split_ifs <;> linarith
    constructor
    · intro h; exact (mul_eq_zero.1 h).resolve_right this
    · intro h; rw [h, zero_mul]

variable {y w : List α} {lam : α}

/-- for `0 < p < 1` the re-weighted problem is again inside the contract of C01 -/
theorem asymW_inContract (h : InContract y w lam) (p : α) (hp0 : 0 < p) (hp1 : p < 1) (z : List α)
    (hz : z.length = y.length) : InContract y (asymW p w y z) lam where
  len := h.len
  wlen := asymW_length p w y z h.wlen hz
  lam_pos := h.lam_pos
  w_nonneg := by
    intro x hx
    obtain ⟨i, hi, rfl⟩ := List.getElem_of_mem hx
    have hi' := hi
    rw [asymW_length p w y z h.wlen hz] at hi'
    rw [← fn_of_lt _ i hi, fn_asymW p w y z i (by rw [h.wlen]; exact hi') hi' (by rw [hz]; exact hi')]
    exact aw_nonneg p _ _ _ hp0 hp1 (h.w_nonneg_fn i hi')
  two_pos := by
    obtain ⟨i, j, hij, hj, hi0, hj0⟩ := h.two_pos
    have hj' : j < y.length := by rw [← h.wlen]; exact hj
    refine ⟨i, j, hij, by rw [asymW_length p w y z h.wlen hz]; exact hj', ?_, ?_⟩
    · rw [asymW_pos_iff p w y z hp0 hp1 i (by omega) (by omega) (by omega)]; exact hi0
    · rw [asymW_pos_iff p w y z hp0 hp1 j hj hj' (by omega)]; exact hj0

/-! ### 5. the re-weighting loop and the expectile curve -/

/-- The weight vector returned by the loop after at most `k + 1 ≥ 1` passes from `z0` is
    `asymW p w y (iter j)` for the curve `iter j` the last executed pass `j` started from;
    no earlier pass reproduced its input; and either pass `j` reproduced `iter j` (early
    stop, the loop returns `iter j`) or the fuel ran out (`j = k`, it returns `iter (k+1)`). -/
theorem irls_weights (y w : List α) (lam p : α) (hw : w.length = y.length) (k : ℕ) (z0 ww0 : List α)
    (hz : z0.length = y.length) :
    ∃ j, j < k + 1 ∧ (∀ i < j, iter y w lam p z0 (i + 1) ≠ iter y w lam p z0 i) ∧
      (irls y w lam p (k + 1) z0 ww0).2 = asymW p w y (iter y w lam p z0 j) ∧
      ((iter y w lam p z0 (j + 1) = iter y w lam p z0 j ∧
          (irls y w lam p (k + 1) z0 ww0).1 = iter y w lam p z0 j) ∨
        (j = k ∧ iter y w lam p z0 (j + 1) ≠ iter y w lam p z0 j ∧
          (irls y w lam p (k + 1) z0 ww0).1 = iter y w lam p z0 (k + 1))) :=
  irls_spec y w lam p hw k z0 ww0 hz

/-- the final fit of every asymmetric kernel recomputes the curve the loop ended with -/
theorem irls_reproduces (y w : List α) (lam p : α) (hw : w.length = y.length) (k : ℕ)
    (z0 ww0 : List α) (hz : z0.length = y.length) :
    ws2d y lam (irls y w lam p (k + 1) z0 ww0).2 = (irls y w lam p (k + 1) z0 ww0).1 :=
  Smooth.irls_reproduces y w lam p hw k z0 ww0 hz

theorem expectile_eq_irls_fst (y w : List α) (lam p : α) (hw : w.length = y.length) :
    expectile y w lam p = (irls y w lam p 10 (zerosLike y) (zerosLike y)).1 :=
  Smooth.irls_reproduces y w lam p hw 9 _ _ (by simp)

theorem irls_inContract (h : InContract y w lam) (p : α) (hp0 : 0 < p) (hp1 : p < 1) (k : ℕ)
    (z0 ww0 : List α) (hz : z0.length = y.length) :
    InContract y (irls y w lam p (k + 1) z0 ww0).2 lam := by
  obtain ⟨j, _, _, h2, _⟩ := irls_spec y w lam p h.wlen k z0 ww0 hz
  rw [h2]
  exact asymW_inContract h p hp0 hp1 _ (iter_length y w lam p z0 h.wlen hz j)

theorem expectile_normal_eq (h : InContract y w lam) (p : α) (hp0 : 0 < p) (hp1 : p < 1) :
    NormalEq y.length (fn y) (fn (irls y w lam p 10 (zerosLike y) (zerosLike y)).2) lam
      (fn (expectile y w lam p)) :=
  ws2d_normal_eq (irls_inContract h p hp0 hp1 9 _ _ (by simp))

/-! ### 6. early stop = the expectile (asymmetric least-squares) equations -/

/-- If the loop stopped early — some pass `j < 10` reproduced the curve it started from —
    the returned curve `z*` is a fixed point of "re-weight, re-fit": it satisfies the
    normal equations with the weights computed from itself. -/
theorem expectile_fixed_point (h : InContract y w lam) (p : α) (hp0 : 0 < p) (hp1 : p < 1)
    (hstop : ∃ j < 10, iter y w lam p (zerosLike y) (j + 1) = iter y w lam p (zerosLike y) j) :
    expectile y w lam p = ws2d y lam (asymW p w y (expectile y w lam p)) ∧
    NormalEq y.length (fn y) (fn (asymW p w y (expectile y w lam p))) lam
      (fn (expectile y w lam p)) := by
  have hz : (zerosLike y).length = y.length := by simp
  obtain ⟨j, hj, hne, h2, h3⟩ := irls_spec y w lam p h.wlen 9 (zerosLike y) (zerosLike y) hz
  have key : expectile y w lam p = ws2d y lam (asymW p w y (expectile y w lam p)) := by
    rcases h3 with ⟨a, b⟩ | ⟨a, b, _⟩
    · have e : expectile y w lam p = iter y w lam p (zerosLike y) j := by
        rw [expectile_eq_irls_fst y w lam p h.wlen]; exact b
      rw [e]; exact a.symm
    · exfalso
      obtain ⟨j', hj', hfix⟩ := hstop
      by_cases hlt : j' < j
      · exact hne j' hlt hfix
      · have : j' = j := by omega
        subst this; exact b hfix
  refine ⟨key, ?_⟩
  have hc := asymW_inContract h p hp0 hp1 (expectile y w lam p)
    (by unfold expectile; rw [ws2d_length _ _ _ (irls_snd_length y w lam p h.wlen 9 _ _ hz)])
  have := ws2d_normal_eq hc
  rwa [← key] at this

/-- the same from the self-consistency of the returned pair: the weights the loop returns
    are the weights computed from the curve it returns -/
theorem expectile_fixed_point' (h : InContract y w lam) (p : α) (hp0 : 0 < p) (hp1 : p < 1)
    (hstop : (irls y w lam p 10 (zerosLike y) (zerosLike y)).2 =
      asymW p w y (irls y w lam p 10 (zerosLike y) (zerosLike y)).1) :
    expectile y w lam p = ws2d y lam (asymW p w y (expectile y w lam p)) ∧
    NormalEq y.length (fn y) (fn (asymW p w y (expectile y w lam p))) lam
      (fn (expectile y w lam p)) := by
  have hz : (zerosLike y).length = y.length := by simp
  have key : expectile y w lam p = ws2d y lam (asymW p w y (expectile y w lam p)) := by
    rw [expectile_eq_irls_fst y w lam p h.wlen, ← hstop]
    exact (Smooth.irls_reproduces y w lam p h.wlen 9 _ _ hz).symm
  refine ⟨key, ?_⟩
  have hc := asymW_inContract h p hp0 hp1 (expectile y w lam p)
    (by unfold expectile; rw [ws2d_length _ _ _ (irls_snd_length y w lam p h.wlen 9 _ _ hz)])
  have := ws2d_normal_eq hc
  rwa [← key] at this

/-- data on a straight line (where the weights are non-zero): every pass returns the line, so
    the loop stops at its second pass — the early-stop hypothesis is satisfiable -/
theorem iter_line (h : InContract y w lam) (p : α) (hp0 : 0 < p) (hp1 : p < 1) (a b : α)
    (hy : ∀ i, fn w i ≠ 0 → fn y i = a + b * (i : α)) (z0 : List α) (hz : z0.length = y.length)
    (j : ℕ) : iter y w lam p z0 (j + 1) = lineList a b y.length := by
  show ws2d y lam (asymW p w y (iter y w lam p z0 j)) = _
  apply ws2d_eq_line (asymW_inContract h p hp0 hp1 _ (iter_length y w lam p z0 h.wlen hz j)) a b
  intro i hi
  exact hy i (fn_asymW_ne_zero p w y _ i hi)

theorem early_stop_of_line (h : InContract y w lam) (p : α) (hp0 : 0 < p) (hp1 : p < 1) (a b : α)
    (hy : ∀ i, fn w i ≠ 0 → fn y i = a + b * (i : α)) :
    ∃ j < 10, iter y w lam p (zerosLike y) (j + 1) = iter y w lam p (zerosLike y) j :=
  ⟨1, by omega, by
    rw [iter_line h p hp0 hp1 a b hy _ (by simp) 1, iter_line h p hp0 hp1 a b hy _ (by simp) 0]⟩

/-! ### 7. ws2dpgu -/

/-- ws2dpgu with at least two valid cells, `n ≥ 4`, `λ > 0`, `0 < p < 1`: the returned curve
    solves the normal equations for the cleaned data with weights `ww = asymW p w yc zprev`
    (`w` the validity weights, so `0 ≤ ww ≤ w` and `ww` vanishes exactly on the missing
    cells); it is the unique solution for those weights; and if the loop stopped early it
    solves the expectile equations. -/
theorem pgu_spec (miss : α → Bool) (y : List α) (lam p : α) (hn : 4 ≤ y.length) (hlam : 0 < lam)
    (hv : 2 ≤ countValid miss y) (hp0 : 0 < p) (hp1 : p < 1) :
    ∃ z zprev, pgu miss y lam p = some z ∧ z.length = y.length ∧ zprev.length = y.length ∧
      NormalEq y.length (fn (cleanOf miss y))
        (fn (asymW p (weightsOf miss y) (cleanOf miss y) zprev)) lam (fn z) ∧
      (∀ z' : ℕ → α, NormalEq y.length (fn (cleanOf miss y))
        (fn (asymW p (weightsOf miss y) (cleanOf miss y) zprev)) lam z' →
          ∀ i < y.length, z' i = fn z i) ∧
      (∀ i (hi : i < y.length),
        fn (asymW p (weightsOf miss y) (cleanOf miss y) zprev) i =
          if miss y[i] then 0 else if fn zprev i < y[i] then p else 1 - p) ∧
      ((∃ j < 10, iter (cleanOf miss y) (weightsOf miss y) lam p (zerosLike (cleanOf miss y)) (j + 1)
            = iter (cleanOf miss y) (weightsOf miss y) lam p (zerosLike (cleanOf miss y)) j) →
        z = ws2d (cleanOf miss y) lam (asymW p (weightsOf miss y) (cleanOf miss y) z) ∧
        NormalEq y.length (fn (cleanOf miss y))
          (fn (asymW p (weightsOf miss y) (cleanOf miss y) z)) lam (fn z)) := by
  have hc := inContract_clean miss y lam hn hlam hv
  have hz : (zerosLike (cleanOf miss y)).length = (cleanOf miss y).length := by simp
  obtain ⟨j, _, _, h2, _⟩ := irls_spec (cleanOf miss y) (weightsOf miss y) lam p hc.wlen 9
    (zerosLike (cleanOf miss y)) (zerosLike (cleanOf miss y)) hz
  have hlen := iter_length (cleanOf miss y) (weightsOf miss y) lam p _ hc.wlen hz j
  have hc' := irls_inContract hc p hp0 hp1 9 (zerosLike (cleanOf miss y))
    (zerosLike (cleanOf miss y)) hz
  refine ⟨_, iter (cleanOf miss y) (weightsOf miss y) lam p (zerosLike (cleanOf miss y)) j,
    C02.pgu_eq_some miss y lam p hlam.ne' hv, ?_, by simpa using hlen, ?_, ?_, ?_, ?_⟩
  · unfold expectile
    rw [ws2d_length _ _ _ (irls_snd_length _ _ lam p hc.wlen 9 _ _ hz)]; simp
  · have := expectile_normal_eq hc p hp0 hp1
    rw [h2] at this
    simpa using this
  · intro z' hz' i hi
    have := ws2d_unique hc' z' (by rw [h2]; simpa using hz') i (by simpa using hi)
    rw [this]; rfl
  · intro i hi
    rw [fn_asymW _ _ _ _ i (by simpa using hi) (by simpa using hi) (by rw [hlen]; simpa using hi),
      fn_weightsOf miss y i hi, fn_cleanOf miss y i hi, aw]
    cases hm : miss y[i] <;> simp
  · intro hstop
    have := expectile_fixed_point hc p hp0 hp1 hstop
    simpa using this

/-! ### non-vacuity -/

/-- hypotheses of `gu_is_pls_minimiser` / `pgu_spec` -/
example : 4 ≤ ([1, -3000, 2, 5, 3] : List ℚ).length ∧ (0 : ℚ) < 7 ∧
    2 ≤ countValid (fun x : ℚ => decide (x = -3000)) [1, -3000, 2, 5, 3] ∧
    (0 : ℚ) < 9 / 10 ∧ (9 / 10 : ℚ) < 1 := by
  refine ⟨by decide, by norm_num, ?_, by norm_num, by norm_num⟩
  norm_num [countValid, List.filter]

/-- hypotheses of `asymW_inContract` / `expectile_normal_eq` -/
example : InContract (α := ℚ) [3, 1, 4, 1, 5] [0, 2, 0, 0, 1] 7 where
  len := by decide
  wlen := by decide
  lam_pos := by norm_num
  w_nonneg := by
    intro x hx
    simp only [List.mem_cons, List.not_mem_nil, or_false] at hx
    rcases hx with rfl | rfl | rfl | rfl | rfl <;> norm_num
  two_pos := ⟨1, 4, by decide, by decide, by norm_num [fn], by norm_num [fn]⟩

/-- rounding: ties go to the even neighbour -/
example : roundHalfEvenRat (5 / 2) = 2 ∧ roundHalfEvenRat (7 / 2) = 4 ∧ roundHalfEvenRat (-1 / 2) = 0 := by
  refine ⟨?_, ?_, ?_⟩
  · exact (roundHalfEvenRat_unique _ 2 (by rw [abs_le]; constructor <;> norm_num) (fun _ => by decide)).symm
  · exact (roundHalfEvenRat_unique _ 4 (by rw [abs_le]; constructor <;> norm_num) (fun _ => by decide)).symm
  · exact (roundHalfEvenRat_unique _ 0 (by rw [abs_le]; constructor <;> norm_num) (fun _ => by decide)).symm

end Hdc.C03
