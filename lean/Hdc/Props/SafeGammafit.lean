import Hdc.Gen.SafeGammafit
import Hdc.Gen.NumGammafit
import Hdc.Lemmas.GenNum
import Hdc.Props.SafeBrentq
import Std.Tactic.Do
/-
SafeGammafit  Safety of `hdc/algo/ops/stats.py::gammafit`, proved FROM THE SOURCE: `Hdc.Gen.Safe.gammafit`
(Hdc/Gen/SafeGammafit.lean) is the statement-by-statement translation plus the flag `bad`.  `gammafit` has no subscript
(`for xx in x` iterates inside the array); its scalar divisions are
    `xts / n`, `logs / n`     (`n` a Python int)   -> `decide (n = 0)`       guarded by `if n == 0: return (0, 0)`
    `(…) / (12 * s)`                                -> `eqv (12 * s) 0`       guarded by `if s == 0: return (0, 0)`
    `xtsbar / a`                                    -> `eqv a 0`              guarded by `if a == 0: return (0, 0)`
and it calls `brentq(xa, xb, s)`                    -> `(Safe.brentq …).2`    (`SafeBrentq.safe_brentq_ok`).

  safe_gammafit_fst   (Safe.gammafit F digamma xtol rtol x).1 = Gen.NumKernels.gammafit F digamma xtol rtol x     every carrier
  safe_gammafit_ok    (Safe.gammafit F digamma xtol rtol x).2 = false     for EVERY input array (empty, no positive cell, …), every
                      `F`, `digamma`, tolerances: the three early returns guard exactly the three divisors.  No hypothesis, so
                      there is no input with the flag set (dropping a guard in the source breaks this theorem: see the report).
-/
namespace Hdc.SafeGammafit
open Hdc Hdc.Gen.NumKernels Hdc.GenNum Hdc.SafeL Hdc.SafeSimN Std.Do

set_option mvcgen.warning false
set_option linter.unusedSimpArgs false
set_option linter.unusedTactic false
set_option linter.unreachableTactic false
set_option linter.unusedSectionVars false

/-- (i) the instrumented program is the translated source plus a flag -/
theorem safe_gammafit_fst {α : Type} [Add α] [Sub α] [Mul α] [Div α] [Neg α] [NatCast α] [LT α] [DecidableLT α]
    [IntCast α] (F : GamFns α) (digamma : α → α) (xtol rtol : α) (x : Array α) :
    (Gen.Safe.gammafit F digamma xtol rtol x).1 = Gen.NumKernels.gammafit F digamma xtol rtol x := by
  unfold Gen.Safe.gammafit Gen.NumKernels.gammafit
  simp only [SafeBrentq.safe_brentq_fst]
  safe_sim

variable {α : Type} [Field α] [LinearOrder α] [IsStrictOrderedRing α]

/-- (ii) no division of `gammafit` is a division by zero, for every input -/
theorem safe_gammafit_ok (F : GamFns α) (digamma : α → α) (xtol rtol : α) (x : Array α) :
    (Gen.Safe.gammafit F digamma xtol rtol x).2 = false := by
  generalize hres : Gen.Safe.gammafit F digamma xtol rtol x = res
  apply Id.of_wp_run_eq hres
  mvcgen invariants
  · ⇓⟨xs, s⟩ => ⌜True⌝
  all_goals first
    | trivial
    | (have h12 : (nat 12 : α) ≠ 0 := by simp [nat]
       simp (config := {zetaDelta := true}) only [decide_eq_true_eq, eqv_iff, nat_zero,
         SafeBrentq.safe_brentq_ok, Bool.or_false, Bool.false_or, Bool.or_eq_false_iff,
         decide_eq_false_iff_not, eqv_false_iff, mul_eq_zero, not_or, ne_eq, not_false_eq_true, and_self,
         true_and, and_true] at *
       first | assumption | ((repeat' apply And.intro) <;> assumption))

/-! ### Non-vacuity (ℚ, a toy instance): all four exits -/

/-- a toy instance over ℚ: `log v = v²`, `sqrt = id`, 0.4 = 2/5, 0.9 = 9/10 (`root` is not used by the program) -/
def Gq : GamFns ℚ := ⟨fun v => v * v, fun v => v, fun _ _ _ => 0, fun _ v => v, fun v => v, 2 / 5, 9 / 10⟩

/-- a `digamma` for which `log a − digamma a − s` is `a + 1/8` at the `s = −2/3` of the series below -/
def dgq : ℚ → ℚ := fun a => a * a - (a + 1 / 8) + 2 / 3

example : Gen.Safe.gammafit Gq dgq (1 / 1000) (1 / 1000) #[1, 2, -1, 3] = ((-1 / 8, -16), false) := by
  decide +kernel
example : Gen.Safe.gammafit Gq dgq (1 / 1000) (1 / 1000) #[0, -2, 0] = ((0, 0), false) := by decide +kernel
example : Gen.Safe.gammafit Gq dgq (1 / 1000) (1 / 1000) #[5, -1] = ((0, 0), false) := by decide +kernel
example : Gen.Safe.gammafit Gq (fun _ => 0) (1 / 1000) (1 / 1000) #[1, 2, -1, 3] = ((0, 0), false) := by
  decide +kernel

end Hdc.SafeGammafit
