import Hdc.Gen.NumMkP
import Std.Tactic.Do
/-
GenNumMkP  The GENERATED translation of `ops/stats.py::mk_p_value` (Hdc/Gen/NumMkP.lean, harness/py2lean_stats.py) is the
hand model `Hdc.mkP`.  Externals, the same fields of `F : MKFns α` on both sides: `erf` -> `F.erf`, `sqrt` -> `F.sqrt`,
the literal `0.5` -> `F.half`, and `sc.ndtri(1 - alpha / 2)` with the default `alpha = 0.05`, a compile-time constant of
the source, -> `F.zcrit` (the translator evaluates the argument to 0.975 and looks `ndtri(0.975)` up in the kernel's table
of named constants).  `h = int(<comparison>)` stays a `Bool`.
-/
namespace Hdc.GenNumMk
open Hdc Hdc.Gen.NumKernels Std.Do

set_option mvcgen.warning false
set_option linter.unusedSectionVars false

section
variable {α : Type} [Add α] [Sub α] [Mul α] [Div α] [Neg α] [NatCast α] [LT α] [DecidableLT α]

/-- The translated `mk_p_value` equals the model: every `F`, every `z`; bare operator classes.  No hypothesis. -/
theorem gen_mk_p_value_eq_model (F : MKFns α) (z : α) :
    Gen.NumKernels.mk_p_value F z = Hdc.mkP F z := by
  generalize hres : Gen.NumKernels.mk_p_value F z = res
  apply Id.of_wp_run_eq hres
  mvcgen
  all_goals rfl

end

/-! ### Non-vacuity (Rat, `erf` and `sqrt` replaced by the identity, critical value 2) -/

example : Gen.NumKernels.mk_p_value (⟨id, id, 1 / 2, 2, fun i => (i : Rat)⟩ : MKFns Rat) 3 = (-1 / 2, true) := by
  rw [gen_mk_p_value_eq_model]; decide +kernel
example : Gen.NumKernels.mk_p_value (⟨id, id, 1 / 2, 2, fun i => (i : Rat)⟩ : MKFns Rat) (-1) = (1 / 2, false) := by
  rw [gen_mk_p_value_eq_model]; decide +kernel

end Hdc.GenNumMk
