import Hdc.Gen.SafeWs2d
import Hdc.Lemmas.SafeSimN
import Hdc.Lemmas.SafeWs2d
import Hdc.Props.C01
import Std.Tactic.Do
import Mathlib.Tactic.NormNum
import Mathlib.Tactic.Tauto
/-
SafeWs2d  Safety of `hdc/algo/ops/ws2d.py::ws2d`, proved FROM THE SOURCE: `Hdc.Gen.Safe.ws2d` (Hdc/Gen/SafeWs2d.lean) is the
statement-by-statement translation of the source plus one flag `bad`, or-ed before every statement with
  * `oob a.size i`     for every subscript `a[i]` of the statement (Python raises IndexError / a Numba build without bounds
                       checks reads or corrupts foreign memory) and
  * `eqv e2 (nat 0)`   for every division `e1 / e2` (all 9 divisions of ws2d are scalar: by `d[0]` twice, `d[1]` twice, `d[i]`
                       twice in the forward loop, `d[m-1]`, `d[m]`, `d[m-1]` again and `d[i]` in the back substitution;
                       Numba raises ZeroDivisionError).

  safe_ws2d_fst        (Safe.ws2d y λ w).1 = Gen.Ws2d.ws2d y λ w        every carrier, every input (generic simulation)
  safe_ws2d_flag_iff   n ≥ 3, len w = len y:   flag = true  ↔  some pivot `d_j` (j < n) of the forward sweep is zero
                       (so no subscript ever leaves `[-n, n)`, and the divisions are the only way to fail)
  safe_ws2d_ok         under `Contract` (n ≥ 3, len w = len y, λ > 0, w ≥ 0, two positive weights) the flag is false
  safe_ws2d_ok_c01     the same from `C01.InContract` (n ≥ 4)
  `example`s           for every hypothesis of `Contract` an input over ℚ outside it where the flag is true

Method for the flag: `mvcgen` with the invariants `FwdS` / `BwdS` (Hdc/Lemmas/SafeWs2d.lean): the work arrays hold the rows of
the hand model (as in C01gen) and the flag is set iff a pivot among the finished rows vanishes; positivity of the pivots is
`C01.pivots_pos_fn` (n ≥ 4) resp. a direct computation (n = 3, where the source reads `e[-1]`, `d[-1]`, `z[-1]`: wrapped,
in range).
-/
namespace Hdc.SafeWs2d
open Hdc Hdc.Gen.Ws2d Hdc.Ws2dGen Hdc.Ws2d Hdc.SafeL Hdc.SafeSimN Std.Do

set_option mvcgen.warning false
set_option linter.unusedSimpArgs false
set_option linter.unusedTactic false
set_option linter.unreachableTactic false
set_option linter.unusedSectionVars false

/-- (i) the instrumented program is the translated source plus a flag: its first component is the ordinary translation,
    over the bare operator classes, for all inputs -/
theorem safe_ws2d_fst {α : Type} [Add α] [Sub α] [Mul α] [Div α] [Neg α] [NatCast α] [LT α] [DecidableLT α]
    (y w : Array α) (lam : α) : (Gen.Safe.ws2d y lam w).1 = Gen.Ws2d.ws2d y lam w := by
  unfold Gen.Safe.ws2d Gen.Ws2d.ws2d
  safe_sim

section flag
variable {α : Type} [Field α] [LinearOrder α] [IsStrictOrderedRing α]

/-- for `n ≥ 3` the flag records exactly the vanishing pivots of the forward sweep -/
theorem safe_ws2d_flagIs (y w : List α) (lam : α) (h : w.length = y.length) (hn : 3 ≤ y.length) :
    FlagIs (ZeroPiv y w lam y.length) (Hdc.Gen.Safe.ws2d y.toArray lam w.toArray).2 := by
  generalize hres : Hdc.Gen.Safe.ws2d y.toArray lam w.toArray = res
  apply Id.of_wp_run_eq hres
  mvcgen invariants
  · ⇓⟨xs, s⟩ => ⌜FwdS y w lam (xs.prefix.length + 2) s.1 s.2.2.2.1 s.2.2.2.2.1 s.2.2.2.2.2.1 s.2.2.2.2.2.2⌝
  · ⇓⟨xs, s⟩ => ⌜BwdS y w lam s.1 s.2⌝
  case vc2.pre =>
    have r0 : ∀ a : Array α, rd a 0 = av a 0 := fun a => rd_of_eq a _ _ (by omega)
    have r1 : ∀ a : Array α, rd a 1 = av a 1 := fun a => rd_of_eq a _ _ (by omega)
    py_name bad as b8; py_name bad as b7; py_name bad as b6; py_name bad as b5
    py_name bad as b4; py_name bad as b3; py_name bad as b2; py_name bad as b1
    py_name z as z1; py_name e as e1; py_name c as c1; py_name d as d1
    py_name z as z0; py_name e as e0; py_name c as c0; py_name d as d0
    py_name z as zz
    have F0 : Fwd y w lam 0 zz zz zz zz := Fwd.init y w lam _ (by
      simp (config := {zetaDelta := true}) only [List.size_toArray, Int.toNat_natCast])
    clear_value zz
    -- row 0
    have ud := wr_upd (a := d0) rfl 0 (by omega) (by rw [F0.hd.size]; omega)
    clear_value d0
    have Hd := F0.hd.step ud (by
      rw [Rw_d_zero, diagCoef_first]
      simp only [r0, av_toArray, Nat.cast_one, one_mul]
      row_arith)
    have uc := wr_upd (a := c0) rfl 0 (by omega) (by rw [F0.hc.size]; omega)
    clear_value c0
    have Hc := (F0.hc.cast (k' := 0) (by omega)).step uc (by
      rw [Rw_c_zero, supCoef_first]
      simp (disch := omega) only [r0, Hd.get, nat]
      row_arith)
    have ue := wr_upd (a := e0) rfl 0 (by omega) (by rw [F0.hz.size]; omega)
    clear_value e0
    have He := F0.he.step ue (by
      rw [Rw_e]
      simp (disch := omega) only [r0, Hd.get]
      row_arith)
    have Ze := F0.ze.step ue
    have uz := wr_upd (a := z0) rfl 0 (by omega) (by rw [F0.hz.size]; omega)
    clear_value z0
    -- row 1
    have ud1 := wr_upd (a := d1) rfl 1 (by omega) (by rw [Hd.size]; omega)
    clear_value d1
    have Hd1 := Hd.step ud1 (by
      rw [Rw_d_one, diagCoef_second _ hn]
      simp (disch := omega) only [r0, r1, av_toArray, Hd.get, Hc.get, nat, Nat.cast_ofNat]
      row_arith)
    have uc1 := wr_upd (a := c1) rfl 1 (by omega) (by rw [Hc.size]; omega)
    clear_value c1
    have Hc1 : Holds y.length (fun j => (Rw y w lam j).c) (min 2 (y.length - 2)) c1 := by
      by_cases h4 : 4 ≤ y.length
      · exact (Hc.step uc1 (by
          rw [Rw_c_succ, supCoef_mid _ _ (by omega) (by omega)]
          simp (disch := omega) only [r0, r1, Hd1.get, Hc.get, He.get, nat,
            Nat.cast_ofNat]
          row_arith)).cast (by omega)
      · exact (Hc.keep uc1 (le_refl _)).cast (by omega)
    have ue1 := wr_upd (a := e1) rfl 1 (by omega) (by rw [He.size]; omega)
    clear_value e1
    have He1 := He.step ue1 (by
      rw [Rw_e]
      simp (disch := omega) only [r1, Hd1.get]
      row_arith)
    have Ze1 := Ze.step ue1
    have uz1 := wr_upd (a := z1) rfl 1 (by omega) (by rw [uz.size, F0.hz.size]; omega)
    clear_value z1
    refine ⟨by rw [uz1.size, uz.size, F0.hz.size], Hd1, Hc1, He1, Ze1, ?_⟩
    rw [show (([] : List ℤ).length + 2) = (0 + 1) + 1 by rfl, zeroPiv_succ, zeroPiv_succ, zeroPiv_zero]
    unfold FlagIs
    simp (config := {zetaDelta := true}) (disch := omega) only [Bool.or_eq_true, List.size_toArray, h,
      F0.hz.size, uz.size, Hd.size, Hc.size, He.size, Hd1.size, uc1.size, ue1.size, oob_false, r0, r1, Hd.get, Hd1.get,
      eqv_zero_iff, Bool.false_eq_true, or_false, false_or, or_assoc, or_self]
  case vc1.step =>
    py_name bad as b4; py_name bad as b3; py_name bad as b2; py_name bad as b1
    py_name z as z1; py_name e as e1; py_name c as c1; py_name d as d1
    py_name pref as pref; py_name cur as cur
    have hF := ‹FwdS y w lam _ _ _ _ _ _›
    obtain ⟨hcur, hlt⟩ := pyRange_split _ _ _ _ _ ‹pyRange _ _ = _ ++ _ :: _›
    simp (config := {zetaDelta := true}) only [List.size_toArray] at hlt
    simp only [List.length_append, List.length_singleton]
    generalize pref.length = p at *
    have r0 : ∀ a : Array α, rd a cur = av a (p + 2) := fun a => rd_of_eq a _ _ (by omega)
    have r1 : ∀ a : Array α, rd a (cur - 1) = av a (p + 1) := fun a => rd_of_eq a _ _ (by omega)
    have r2 : ∀ a : Array α, rd a (cur - 2) = av a p := fun a => rd_of_eq a _ _ (by omega)
    have hFc := hF.hc.cast (k' := p + 2) (by omega)
    have ud := wr_upd (a := d1) rfl (p + 2) (by omega) (by rw [hF.hd.size]; omega)
    clear_value d1
    have Hd := hF.hd.step ud (by
      rw [Rw_d_succ2, diagCoef_mid _ _ (by omega) (by omega)]
      simp (config := {zetaDelta := true}) (disch := omega) only [r0, r1, r2, av_toArray,
        hF.hd.get, hFc.get, hF.he.get, nat, Nat.cast_ofNat]
      row_arith)
    have uc := wr_upd (a := c1) rfl (p + 2) (by omega) (by rw [hF.hc.size]; omega)
    clear_value c1
    have Hc := hFc.step uc (by
      rw [Rw_c_succ, supCoef_mid _ _ (by omega) (by omega)]
      simp (config := {zetaDelta := true}) (disch := omega) only [r0, r1, r2, Hd.get, hFc.get,
        hF.he.get, nat, Nat.cast_ofNat]
      row_arith)
    have ue := wr_upd (a := e1) rfl (p + 2) (by omega) (by rw [hF.he.size]; omega)
    clear_value e1
    have He := hF.he.step ue (by
      rw [Rw_e]
      simp (config := {zetaDelta := true}) (disch := omega) only [r0, Hd.get]
      row_arith)
    refine ⟨?_, Hd, Hc.cast (by omega), He, hF.ze.step ue, ?_⟩
    · simp (config := {zetaDelta := true}) only [size_wr]; exact hF.sz
    · have hb : (_ = true ↔ _) := hF.hb
      rw [show p + 1 + 2 = (p + 2) + 1 by omega, zeroPiv_succ]
      unfold FlagIs
      simp (config := {zetaDelta := true}) (disch := omega) only [Bool.or_eq_true, List.size_toArray, h,
        hF.sz, hF.hd.size, hF.hc.size, hF.he.size, Hd.size, Hc.size, He.size, oob_false, r0, Hd.get,
        eqv_zero_iff, hb, Bool.false_eq_true, or_false, false_or, or_assoc, or_self]
  case vc5.post.success.post.success =>
    exact (‹BwdS y w lam _ _›).hb
  case vc4.post.success.pre =>
    obtain ⟨q, hq⟩ : ∃ q, y.length = q + 3 := ⟨y.length - 3, by omega⟩
    py_name bad as b6; py_name bad as b5; py_name bad as b4; py_name bad as b3; py_name bad as b2
    py_name bad as b1
    py_name z as z3; py_name z as z2; py_name d as d2; py_name z as z1; py_name c as c1
    py_name d as d1
    have hF := ‹FwdS y w lam _ _ _ _ _ _›
    have hK : (q + 1 ≤ (pyRange 2 ((y.length : ℤ) - 1 - 1)).length + 2) ∧
        ((pyRange 2 ((y.length : ℤ) - 1 - 1)).length + 2 ≤ q + 2) := by
      simp only [pyRange_length]; omega
    simp (config := {zetaDelta := true}) only [List.size_toArray] at hF
    have HD := hF.hd.mono hK.1
    have HC := hF.hc.mono (k' := q + 1) (by omega)
    have HE := hF.he.mono hK.1
    have rm : ∀ a : Array α, rd a ((y.length : ℤ) - 1) = av a (q + 2) :=
      fun a => rd_of_eq a _ _ (by omega)
    have rm1 : ∀ a : Array α, rd a ((y.length : ℤ) - 1 - 1) = av a (q + 1) :=
      fun a => rd_of_eq a _ _ (by omega)
    have rm2 : ∀ a : Array α, rd a ((y.length : ℤ) - 1 - 2) = av a q :=
      fun a => rd_of_eq a _ _ (by omega)
    -- row m - 1
    have ud := wr_upd (a := d1) rfl (q + 1)
      (by simp (config := {zetaDelta := true}) only [List.size_toArray]; omega)
      (by rw [HD.size]; omega)
    clear_value d1
    have Hd := HD.step ud (by
      rcases q with _ | q
      · have re := rd_wrap_zero hF.he.size hF.ze ((y.length : ℤ) - 1 - 3) 2 (by omega) (by omega)
          hK.2
        rw [Rw_d_one, diagCoef_penult _ _ (by omega) (by omega)]
        simp (config := {zetaDelta := true}) (disch := omega) only [List.size_toArray, rm, rm1, rm2,
          re, av_toArray, HD.get, HC.get, HE.get, nat, Nat.cast_ofNat]
        row_arith
      · have rm3 : ∀ a : Array α, rd a ((y.length : ℤ) - 1 - 3) = av a q :=
          fun a => rd_of_eq a _ _ (by omega)
        rw [Rw_d_succ2, diagCoef_penult _ _ (by omega) (by omega)]
        simp (config := {zetaDelta := true}) (disch := omega) only [List.size_toArray, rm, rm1, rm2,
          rm3, av_toArray, HD.get, HC.get, HE.get, nat, Nat.cast_ofNat]
        row_arith)
    have uc := wr_upd (a := c1) rfl (q + 1)
      (by simp (config := {zetaDelta := true}) only [List.size_toArray]; omega)
      (by rw [HC.size]; omega)
    clear_value c1
    have Hc := HC.step uc (by
      rw [Rw_c_succ, supCoef_penult _ _ (by omega)]
      simp (config := {zetaDelta := true}) (disch := omega) only [List.size_toArray, rm, rm1, rm2,
        Hd.get, HC.get, HE.get, nat, Nat.cast_ofNat]
      row_arith)
    have sz1 : z1.size = y.length := by
      simp (config := {zetaDelta := true}) only [size_wr]; exact hF.sz
    clear_value z1
    -- row m
    have ud2 := wr_upd (a := d2) rfl (q + 2)
      (by simp (config := {zetaDelta := true}) only [List.size_toArray]; omega)
      (by rw [Hd.size]; omega)
    clear_value d2
    have Hd2 := Hd.step ud2 (by
      rw [Rw_d_succ2, diagCoef_last _ _ (by omega)]
      simp (config := {zetaDelta := true}) (disch := omega) only [List.size_toArray, rm, rm1, rm2,
        av_toArray, Hd.get, Hc.get, HE.get, nat, Nat.cast_one, one_mul]
      row_arith)
    have sz2 : z2.size = y.length := by
      simp (config := {zetaDelta := true}) only [size_wr]; exact sz1
    clear_value z2
    have sz3 : z3.size = y.length := by
      simp (config := {zetaDelta := true}) only [size_wr]; exact sz2
    clear_value z3
    refine ⟨sz3, ?_⟩
    have hb : (_ = true ↔ _) := hF.hb
    have hb1 : _ = true → ZeroPiv y w lam (q + 1) ∨ (Rw y w lam (q + 1)).d = 0 := fun hh => by
      have := (hb.1 hh).mono (k' := q + 1 + 1) hK.2
      rwa [zeroPiv_succ] at this
    have hb2 : ZeroPiv y w lam (q + 1) → _ = true := fun hh => hb.2 (hh.mono hK.1)
    rw [hq, zeroPiv_succ, zeroPiv_succ]
    unfold FlagIs
    simp (config := {zetaDelta := true}) (disch := omega) only [Bool.or_eq_true, List.size_toArray, h,
      hF.sz, hF.hd.size, hF.hc.size, hF.he.size, Hd.size, Hc.size, Hd2.size, sz1, sz2, oob_false, rm, rm1,
      Hd.get, Hd2.get, eqv_zero_iff, Bool.false_eq_true, or_false, false_or]
    tauto
  case vc3.step =>
    obtain ⟨q, hq⟩ : ∃ q, y.length = q + 3 := ⟨y.length - 3, by omega⟩
    py_name bad as bb; py_name z as z'; py_name b as b; py_name pref as pref; py_name cur as cur
    py_name d as d2; py_name c as c1; py_name d as d1
    have hF := ‹FwdS y w lam _ _ _ _ _ _›
    have hK : q + 1 ≤ (pyRange 2 ((y.length : ℤ) - 1 - 1)).length + 2 := by
      simp only [pyRange_length]; omega
    simp (config := {zetaDelta := true}) only [List.size_toArray] at hF
    have HD := hF.hd.mono hK
    have HC := hF.hc.mono (k' := q + 1) (by omega)
    have hB := ‹BwdS y w lam _ _›
    obtain ⟨hcur, hlt⟩ := pyRangeDown_split _ _ _ _ _ ‹pyRangeDown _ _ = _ ++ _ :: _›
    simp (config := {zetaDelta := true}) only [List.size_toArray] at hcur hlt
    generalize pref.length = p at *
    obtain ⟨t, ht⟩ : ∃ t : ℕ, cur = (t : ℤ) := ⟨cur.toNat, by omega⟩
    have r0 : ∀ a : Array α, rd a cur = av a t := fun a => rd_of_eq a _ _ (by omega)
    -- the tail rows only touched cells `m - 1` and `m`
    have ud := wr_upd (a := d1) rfl (q + 1)
      (by simp (config := {zetaDelta := true}) only [List.size_toArray]; omega)
      (by rw [HD.size]; omega)
    clear_value d1
    have uc := wr_upd (a := c1) rfl (q + 1)
      (by simp (config := {zetaDelta := true}) only [List.size_toArray]; omega)
      (by rw [HC.size]; omega)
    clear_value c1
    have ud2 := wr_upd (a := d2) rfl (q + 2)
      (by simp (config := {zetaDelta := true}) only [List.size_toArray]; omega)
      (by rw [ud.size, HD.size]; omega)
    clear_value d2
    have Hd := (HD.keep ud (le_refl _)).keep ud2 (by omega)
    have Hc := HC.keep uc (le_refl _)
    refine ⟨by simp (config := {zetaDelta := true}) only [size_wr]; exact hB.sz, ?_⟩
    have hb : (_ = true ↔ _) := hB.hb
    have habs := zeroPiv_absorb y w lam (k := y.length) (j := t) (by omega)
    unfold FlagIs
    simp (config := {zetaDelta := true}) (disch := omega) only [Bool.or_eq_true, List.size_toArray, h,
      hB.sz, hF.he.size, Hd.size, Hc.size, oob_false, r0, Hd.get, eqv_zero_iff, hb, Bool.false_eq_true,
      or_false, false_or, habs]

/-- (ii-a) the exact condition: for `n ≥ 3` and `len w = len y` the flag is set iff a pivot of the forward sweep of the
    model (`Hdc.Ws2d.RS`, the rows `Hdc.ws2dRows`) is zero; in particular no subscript is ever out of range -/
theorem safe_ws2d_flag_iff (y w : List α) (lam : α) (h : w.length = y.length) (hn : 3 ≤ y.length) :
    (Hdc.Gen.Safe.ws2d y.toArray lam w.toArray).2 = true
      ↔ ∃ j < y.length, (RS lam y.length (fnl w) (fnl y) (j + 2)).d = 0 :=
  safe_ws2d_flagIs y w lam h hn

/-- (ii) under the contract the flag is false: no subscript of the source leaves its array and no divisor is zero -/
theorem safe_ws2d_ok (y w : List α) (lam : α) (h : Contract y w lam) :
    (Hdc.Gen.Safe.ws2d y.toArray lam w.toArray).2 = false := by
  refine (safe_ws2d_flagIs y w lam h.wlen h.len).eq_false ?_
  rintro ⟨j, hj, h0⟩
  exact (h.pivots_pos j hj).ne' h0

/-- the same from the hypotheses of C01 (`n ≥ 4`) -/
theorem safe_ws2d_ok_c01 (y w : List α) (lam : α) (h : C01.InContract y w lam) :
    (Hdc.Gen.Safe.ws2d y.toArray lam w.toArray).2 = false :=
  safe_ws2d_ok y w lam (Contract.of_c01 h)

end flag

/-! ### Non-vacuity and sharpness (ℚ) -/

/-- the contract is satisfiable and the flag is false there (`n = 5`, one zero weight) -/
example : (Hdc.Gen.Safe.ws2d ([1, 2, 4, 3, 5] : List ℚ).toArray 10 ([1, 1, 0, 1, 1] : List ℚ).toArray).2 = false :=
  safe_ws2d_ok _ _ _
    ⟨by decide, by decide, by norm_num, by
      intro x hx
      simp only [List.mem_cons, List.not_mem_nil, or_false] at hx
      rcases hx with rfl | rfl | rfl | rfl | rfl <;> norm_num,
     ⟨0, 1, by decide, by decide, by norm_num [C01.fn], by norm_num [C01.fn]⟩⟩

/-- the minimum length `n = 3` (the source reads the wrapped cells `e[-1]`, `d[-1]`, `z[-1]`) -/
example : (Hdc.Gen.Safe.ws2d ([1, 2, 4] : List ℚ).toArray 10 ([1, 1, 0] : List ℚ).toArray).2 = false :=
  safe_ws2d_ok _ _ _
    ⟨by decide, by decide, by norm_num, by
      intro x hx
      simp only [List.mem_cons, List.not_mem_nil, or_false] at hx
      rcases hx with rfl | rfl | rfl <;> norm_num,
     ⟨0, 1, by decide, by decide, by norm_num [C01.fn], by norm_num [C01.fn]⟩⟩

/-- `len`: at `n = 1` the store `d[1]` is out of range (and at `n = 0` already `w[0]`) -/
example : (Hdc.Gen.Safe.ws2d (#[1] : Array ℚ) 10 #[1]).2 = true := by decide +kernel
example : (Hdc.Gen.Safe.ws2d (#[] : Array ℚ) 10 #[]).2 = true := by decide +kernel
/-- at `n = 2` every subscript is in `[-2, 2)` (the rows `m-1`, `m` read `c[-1]`, `d[-1]`, `e[-2]`, `d[-2]`, `e[-1]`:
    wrapped) and this input has no zero divisor, but the result is not the least-squares solution (which is `y`) -/
example : Hdc.Gen.Safe.ws2d (#[1, 2] : Array ℚ) 10 #[1, 1] = (#[161 / 101, 182 / 101], false) := by decide +kernel
/-- `wlen`: a weight vector that is too short -/
example : (Hdc.Gen.Safe.ws2d (#[1, 2, 4, 3] : Array ℚ) 10 #[1, 1, 0]).2 = true := by decide +kernel
/-- `lam_pos`: λ = 0 with a zero weight -/
example : (Hdc.Gen.Safe.ws2d (#[1, 2, 4, 3] : Array ℚ) 0 #[1, 1, 0, 1]).2 = true := by decide +kernel
/-- `w_nonneg`: a negative weight (`w₀ = -λ` makes the first pivot zero) -/
example : (Hdc.Gen.Safe.ws2d (#[1, 2, 4, 3] : Array ℚ) 10 #[-10, 1, 1, 1]).2 = true := by decide +kernel
/-- `two_pos`: a single positive weight (the last pivot is zero), and no positive weight at all -/
example : (Hdc.Gen.Safe.ws2d (#[1, 2, 4, 3] : Array ℚ) 10 #[1, 0, 0, 0]).2 = true := by decide +kernel
example : (Hdc.Gen.Safe.ws2d (#[1, 2, 4, 3] : Array ℚ) 10 #[0, 0, 0, 0]).2 = true := by decide +kernel

end Hdc.SafeWs2d

