import Hdc.Gen.SafeTinterpolate
import Hdc.Gen.NumTinterpolate
import Hdc.Lemmas.SafeTI
import Hdc.Lemmas.SafeSimN
import Hdc.Props.SafeWs2d
import Std.Tactic.Do
/-
SafeTinterpolate  Safety of `hdc/algo/ops/tinterpolate.py::tinterpolate`, proved FROM THE SOURCE: `Hdc.Gen.Safe.tinterpolate`
(Hdc/Gen/SafeTinterpolate.lean) is the statement-by-statement translation plus the flag `bad`, set before a statement by
  * `oob a.size i`        subscripts  `x[jj]`, `temp[ii]`, `x[-1]`, `temp[-1]`, `z[0]`, `labels[ii - 1]`, `z[ii]`, `out[kk]`
  * `badSliceFrom …`      the slice `labels[1:]`  (flagged unless `0 ≤ 1 ≤ len labels`)
  * `decide (jj = 0)`     the two scalar divisions `v / jj` (`jj` is a Python int)
  * `(Safe.ws2d …).2`     the call `ws2d(temp, 0.00001, w)` of the instrumented smoother.
(`for tt in temp` / `for ll in labels[1:]` iterate inside their arrays by construction: no check.)

  safe_tinterpolate_fst   (Safe.tinterpolate …).1 = Gen.NumKernels.tinterpolate …      every carrier, every input
  safe_tinterpolate_ok    under `Contract` the flag is false
  `example`s              for every hypothesis of `Contract` an input over ℚ outside it where the flag is true (for `len`:
                          at 2 days the flag is false on all inputs tried — `ws2d` at n = 2 wraps its indices but no
                          divisor vanished; the theorem about `ws2d` starts at n = 3)
-/
namespace Hdc.SafeTinterpolate
open Hdc Hdc.Gen.NumKernels Hdc.GenNum Hdc.SafeL Hdc.SafeTI Hdc.SafeSimN Std.Do
open Hdc.Ws2dGen (av Holds)
open Hdc.Ws2d (fnl)
open Hdc.GenKernels (gv lv gv_toArray)

set_option mvcgen.warning false
set_option linter.unusedSimpArgs false
set_option linter.unusedTactic false
set_option linter.unreachableTactic false
set_option linter.unusedSectionVars false

/-- (i) the instrumented program is the translated source plus a flag -/
theorem safe_tinterpolate_fst {α : Type} [Add α] [Sub α] [Mul α] [Div α] [Neg α] [NatCast α] [LT α] [DecidableLT α]
    [IntCast α] (rnd : α → α) (lam : α) (x template : Array α) (labels : Array Int) (out : Array α) :
    (Gen.Safe.tinterpolate rnd lam x template labels out).1
      = Gen.NumKernels.tinterpolate rnd lam x template labels out := by
  unfold Gen.Safe.tinterpolate Gen.NumKernels.tinterpolate
  simp only [SafeWs2d.safe_ws2d_fst]
  safe_sim

variable {α : Type} [Field α] [LinearOrder α] [IsStrictOrderedRing α]

/-- the documented contract of `tinterpolate` -/
structure Contract (lam : α) (x template : List α) (labels : List Int) (out0 : Array α) : Prop where
  /-- at least 3 days (what `ws2d` needs) -/
  len : 3 ≤ template.length
  /-- one label per day (the gufunc signature `(m),(m)`); fewer labels than days would also do -/
  llen : labels.length ≤ template.length
  lpos : 1 ≤ labels.length
  /-- the template is non-negative (it is used as the weight vector) with at least two marks … -/
  nonneg : ∀ v ∈ template, 0 ≤ v
  two : 2 ≤ nmarks template
  /-- … and at most `len x` marks -/
  marks : nmarks template ≤ x.length
  lam_pos : 0 < lam
  /-- one output cell per maximal run of equal labels -/
  outlen : (labels.splitBy (· == ·)).length ≤ out0.size

theorem safe_tinterpolate_ok (rnd : α → α) (lam : α) (x template : List α) (labels : List Int)
    (out0 : Array α) (hc : Contract lam x template labels out0) :
    (Gen.Safe.tinterpolate rnd lam x.toArray template.toArray labels.toArray out0).2 = false := by
  have hm := hc.marks
  have h3 := hc.len
  have hll := hc.llen
  have hl1 := hc.lpos
  generalize hres :
    Gen.Safe.tinterpolate rnd lam x.toArray template.toArray labels.toArray out0 = res
  apply Id.of_wp_run_eq hres
  mvcgen invariants
  · ⇓⟨xs, s⟩ => ⌜s.1 = false ∧ Scat template x xs.prefix.length s.2.1 s.2.2.1 s.2.2.2⌝
  · ⇓⟨xs, s⟩ => ⌜s.1 = false ∧ 1 ≤ s.2.2.2.1 ∧ Runs labels (Gen.Ws2d.ws2d (tiTemp x template).toArray lam template.toArray).toList (band rnd) out0
        xs.prefix.length s.2.1 s.2.2.1 s.2.2.2.1 s.2.2.2.2.1 s.2.2.2.2.2⌝
  all_goals
    pyn_ranges
    simp (config := {zetaDelta := true}) only [List.size_toArray, List.length_append,
      List.length_singleton, List.length_nil, pyRange_length, decide_eq_true_eq] at *
  case vc1.step.isTrue =>
    obtain ⟨hb0, hS⟩ := ‹_ ∧ Scat _ _ _ _ _ _›
    have hjj := Scat.mark_bounds hS (by omega) hm ‹(!eqv _ _) = true› (by omega)
    refine ⟨?_, hS.step_mark (by omega) hm ‹(!eqv _ _) = true› (by omega)⟩
    have hii := hS.hii
    simp (disch := omega) only [hb0, hS.size, oob_false, Bool.or_false]
  case vc2.step.isFalse =>
    obtain ⟨hb0, hS⟩ := ‹_ ∧ Scat _ _ _ _ _ _›
    exact ⟨hb0, hS.step_zero (by omega) ‹¬ (!eqv _ _) = true› (by omega)⟩
  case vc3.pre => exact ⟨trivial, Scat.init template x⟩
  case vc4.step.isTrue =>
    py_name pref as pref
    obtain ⟨hb0, hS⟩ := ‹_ ∧ Scat _ _ _ _ _ _›
    obtain ⟨hb1, hj1, hR⟩ := ‹_ ∧ _ ∧ Runs _ _ _ _ _ _ _ _ _ _›
    have hzt := hS.final (by omega) (by omega)
    have hZs : (Gen.Ws2d.ws2d (tiTemp x template).toArray lam template.toArray).size = template.length := by
      rw [C01gen.gen_ws2d_size_array, List.size_toArray, tiTemp_length]
    have hzl : labels.length ≤ (Gen.Ws2d.ws2d (tiTemp x template).toArray lam template.toArray).toList.length := by
      have := (Array.length_toList (xs := Gen.Ws2d.ws2d (tiTemp x template).toArray lam template.toArray)).trans hZs
      omega
    have hii := hR.hii
    have hc' := ‹rdI labels.toArray _ = rdI labels.toArray _›
    rw [rdI_of_eq _ _ (pref.length + 1) (by omega), rdI_of_eq _ _ pref.length (by omega),
      gv_toArray, gv_toArray] at hc'
    change wr _ _ _ = (tiTemp x template).toArray at hzt
    simp only [hzt, SafeWs2d.safe_ws2d_fst]
    refine ⟨?_, by omega, ?_⟩
    · simp (disch := omega) only [hb1, hZs, hii, oob_false, Bool.or_false]
    · rw [rd_of_eq _ _ (pref.length + 1) (by omega), av_eq_fnl_toList]
      exact hR.step_same (by omega) hzl hc'
  case vc5.step.isFalse =>
    py_name pref as pref
    obtain ⟨hb0, hS⟩ := ‹_ ∧ Scat _ _ _ _ _ _›
    obtain ⟨hb1, hj1, hR⟩ := ‹_ ∧ _ ∧ Runs _ _ _ _ _ _ _ _ _ _›
    have hzt := hS.final (by omega) (by omega)
    have hZs : (Gen.Ws2d.ws2d (tiTemp x template).toArray lam template.toArray).size = template.length := by
      rw [C01gen.gen_ws2d_size_array, List.size_toArray, tiTemp_length]
    have hzl : labels.length ≤ (Gen.Ws2d.ws2d (tiTemp x template).toArray lam template.toArray).toList.length := by
      have := (Array.length_toList (xs := Gen.Ws2d.ws2d (tiTemp x template).toArray lam template.toArray)).trans hZs
      omega
    have hii := hR.hii
    have hkk := Runs.kk_bounds hR hzl hc.outlen
    have hc' := ‹¬ rdI labels.toArray _ = rdI labels.toArray _›
    rw [rdI_of_eq _ _ (pref.length + 1) (by omega), rdI_of_eq _ _ pref.length (by omega),
      gv_toArray, gv_toArray] at hc'
    change wr _ _ _ = (tiTemp x template).toArray at hzt
    simp only [hzt, SafeWs2d.safe_ws2d_fst]
    refine ⟨?_, le_refl _, ?_⟩
    · have hj0 := (fun (j : ℤ) (h : 1 ≤ j) => (by omega : ¬ j = 0)) _ hj1
      simp (disch := omega) only [hb1, hZs, hii, hj0, decide_false, oob_false, Bool.or_false]
    · rw [rd_of_eq _ _ (pref.length + 1) (by omega), av_eq_fnl_toList]
      exact hR.step_new (by omega) hzl hc'
  case vc6.post.success.pre =>
    obtain ⟨hb0, hS⟩ := ‹_ ∧ Scat _ _ _ _ _ _›
    have hzt := hS.final (by omega) (by omega)
    have hZs : (Gen.Ws2d.ws2d (tiTemp x template).toArray lam template.toArray).size = template.length := by
      rw [C01gen.gen_ws2d_size_array, List.size_toArray, tiTemp_length]
    have hzl : labels.length ≤ (Gen.Ws2d.ws2d (tiTemp x template).toArray lam template.toArray).toList.length := by
      have := (Array.length_toList (xs := Gen.Ws2d.ws2d (tiTemp x template).toArray lam template.toArray)).trans hZs
      omega
    have hok := SafeWs2d.safe_ws2d_ok (tiTemp x template) template lam
      ⟨by rw [tiTemp_length]; exact h3, (tiTemp_length x template).symm, hc.lam_pos, hc.nonneg,
        two_pos_of_nmarks template hc.nonneg hc.two⟩
    have h2 := hc.two
    change wr _ _ _ = (tiTemp x template).toArray at hzt
    simp only [hzt, SafeWs2d.safe_ws2d_fst]
    refine ⟨?_, le_refl _, ?_⟩
    · simp (disch := omega) only [hb0, hok, hZs, hS.size, oob_false, Bool.or_false,
        badSliceFrom_eq_false_iff.2]
    · rw [rd_of_eq _ 0 0 rfl, av_eq_fnl_toList]
      exact Runs.init labels _ _ out0 (by omega) (by omega)
  case vc7.post.success.post.success =>
    obtain ⟨hb0, hS⟩ := ‹_ ∧ Scat _ _ _ _ _ _›
    obtain ⟨hb1, hj1, hR⟩ := ‹_ ∧ _ ∧ Runs _ _ _ _ _ _ _ _ _ _›
    have hZs : (Gen.Ws2d.ws2d (tiTemp x template).toArray lam template.toArray).size = template.length := by
      rw [C01gen.gen_ws2d_size_array, List.size_toArray, tiTemp_length]
    have hzl : labels.length ≤ (Gen.Ws2d.ws2d (tiTemp x template).toArray lam template.toArray).toList.length := by
      have := (Array.length_toList (xs := Gen.Ws2d.ws2d (tiTemp x template).toArray lam template.toArray)).trans hZs
      omega
    have hkk := Runs.kk_bounds hR hzl hc.outlen
    have hj0 := (fun (j : ℤ) (h : 1 ≤ j) => (by omega : ¬ j = 0)) _ hj1
    simp (disch := omega) only [hb1, hj0, decide_false, oob_false, Bool.or_false]


/-! ### Non-vacuity and sharpness (ℚ; `round` the identity, λ = 1) -/

/-- an instance of the contract: 6 days, marks on days 0, 3, 5, two label runs -/
example : (Gen.Safe.tinterpolate (fun v => v) (1 : ℚ) ([10, 20, 30] : List ℚ).toArray
    ([1, 0, 0, 1, 0, 1] : List ℚ).toArray ([1, 1, 1, 2, 2, 2] : List Int).toArray #[7, 7]).2 = false :=
  safe_tinterpolate_ok _ _ _ _ _ _
    ⟨by decide, by decide, by decide, by
      intro v hv
      simp only [List.mem_cons, List.not_mem_nil, or_false] at hv
      rcases hv with rfl | rfl | rfl | rfl | rfl | rfl <;> norm_num,
     by decide +kernel, by decide +kernel, by norm_num, by decide⟩

private def ti (lam : ℚ) (x t : Array ℚ) (l : Array Int) (o : Array ℚ) : Bool :=
  (Gen.Safe.tinterpolate (fun v => v) lam x t l o).2

/-- `outlen`: a buffer with fewer cells than label runs (`out[kk]` out of range) -/
example : ti 1 #[10, 20, 30] #[1, 0, 0, 1, 0, 1] #[1, 1, 1, 2, 2, 2] #[7] = true := by decide +kernel
/-- `marks`: more marks than observations (`x[jj]` out of range) -/
example : ti 1 #[10, 20] #[1, 0, 0, 1, 0, 1] #[1, 1, 1, 2, 2, 2] #[7, 7] = true := by decide +kernel
/-- `llen`: more labels than days (`z[ii]` out of range) -/
example : ti 1 #[10, 20, 30] #[1, 0, 0, 1, 0, 1] #[1, 1, 1, 2, 2, 2, 2] #[7, 7] = true := by decide +kernel
/-- fewer labels than days are harmless (hence `llen` is an inequality) -/
example : ti 1 #[10, 20, 30] #[1, 0, 0, 1, 0, 1] #[1, 1, 1, 2, 2] #[7, 7] = false := by decide +kernel
/-- `lpos`: no label at all (`labels[1:]` is clamped) -/
example : ti 1 #[10, 20, 30] #[1, 0, 0, 1, 0, 1] #[] #[7, 7] = true := by decide +kernel
/-- `lam_pos`: λ = 0 (a pivot of the smoother vanishes on an unmarked day) -/
example : ti 0 #[10, 20, 30] #[1, 0, 0, 1, 0, 1] #[1, 1, 1, 2, 2, 2] #[7, 7] = true := by decide +kernel
/-- `nonneg`: a negative template entry is a mark with a negative weight -/
example : ti 1 #[10, 20, 30] #[-1, 0, 0, 1, 0, 1] #[1, 1, 1, 2, 2, 2] #[7, 7] = true := by decide +kernel
/-- `two`: a single mark -/
example : ti 1 #[10] #[1, 0, 0, 0, 0, 0] #[1, 1, 1, 2, 2, 2] #[7, 7] = true := by decide +kernel
/-- `len`: a template of one day (the smoother stores `d[1]`); at two days this input is not flagged -/
example : ti 1 #[10] #[1] #[1] #[7, 7] = true := by decide +kernel
example : ti 1 #[10, 20] #[1, 1] #[1, 2] #[7, 7] = false := by decide +kernel

end Hdc.SafeTinterpolate
