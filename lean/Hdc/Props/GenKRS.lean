import Hdc.Lemmas.GenKernelsRS
import Hdc.Gen.KRollingSum
import Std.Tactic.Do
/-
GenKernels  The GENERATED translations of four integer loop kernels (Hdc/Gen/K*.lean, one module per kernel, imperative
`Id.run do` programs over `Array Int` with Python index semantics, regenerated from the Python
sources on every verification run) compute their hand models.

Method (as in C01gen): the verification-condition generator `mvcgen` (Std.Do) is run on the generated
program with one invariant per loop, stated through ℕ-indexed functions of the model
(Hdc/Lemmas/GenKernels*.lean).  The generated expressions are never copied into this file: the position
of every `for … in range(a, b)` is recovered by `py_ranges`, reads `rd a i` are rewritten to ℕ-indexed
reads by `rd_nonneg` (side condition `0 ≤ i` by `omega`), writes `wr a i v` through `wr_upd`.
An invariant of an inner loop that mentions the loop variable of the enclosing loop names it by
`py_name cur as k` inside the invariant.

The verification conditions are not addressed by their generated tags (`vc3.step.isTrue…`, which
change when the branching structure of the source is rearranged) but by what they are: every proof
ends with `all_goals first | ‹step› | ‹entry› | ‹exit›`, each alternative failing quickly on the
conditions of the other kinds (a missing loop variable, an unprovable bound).
-/
namespace Hdc.GenKernels
open Hdc Hdc.Gen.Kernels Std.Do

set_option mvcgen.warning false
set_option linter.unusedSimpArgs false
set_option linter.unusedTactic false
set_option linter.unreachableTactic false

/-! ### rolling_sum -/

/-- The translated `rolling_sum` fills the output buffer with the model's values, for ANY integer
    window size `w` (the model is taken at `w.toNat`: for `w ≤ 0` every window is empty and every cell
    gets nodata, in the source and in the model), any initial content of the buffer of the right size.

    Outer invariant `RsOuter p`: cells `< p` final, cells `≥ p` still zero (the source zero-fills
    `yy` and accumulates in place).  Inner invariant `RsInner k q`: `yy[k]` is the sum and `n_valid`
    the number of the valid cells among the first `q` cells of the window. -/
theorem gen_rolling_sum_eq_model_int (xx : List Int) (w nd : Int) (yy0 : Array Int)
    (h0 : yy0.size = xx.length) :
    (Gen.Kernels.rolling_sum xx.toArray w nd yy0).toList = Hdc.rollingSum xx w.toNat nd := by
  generalize hres : Gen.Kernels.rolling_sum xx.toArray w nd yy0 = res
  apply Id.of_wp_run_eq hres
  mvcgen invariants
  -- state `(yy, n_valid)`
  · ⇓⟨xs, s⟩ => ⌜RsOuter xx w.toNat nd xs.prefix.length s.1⌝
  · ⇓⟨xs, s⟩ => by
      py_name cur as k
      exact ⌜RsInner xx w.toNat nd k.toNat xs.prefix.length s.1 s.2⌝
  all_goals
    py_ranges
    simp (config := {zetaDelta := true}) only [List.size_toArray,
      List.length_append, List.length_singleton, List.length_nil, pyRange_length,
      decide_eq_true_eq, not_lt] at *
  all_goals first
    -- inner loop, nodata cell: `continue`
    | (py_name cur as jj; py_name cur as k
       simp (disch := omega) only [rd_nonneg, gv_toArray] at *
       exact RsInner.skip ‹RsInner _ _ _ _ _ _ _› (j := jj.toNat) (by omega) (by omega) ‹_›)
    -- inner loop, valid cell: `yy[ii] += xx[jj]`, `n_valid += 1`
    | (py_name cur as jj; py_name cur as k
       have hI := ‹RsInner _ _ _ _ _ _ _›
       simp (disch := omega) only [rd_nonneg, gv_toArray] at *
       exact hI.add (j := jj.toNat) (by omega) (by omega) ‹_›
         (wr_upd rfl k.toNat (by omega) (by rw [hI.size]; omega)) rfl)
    -- exit of the inner loop, `n_valid == 0`: nodata
    | (py_name cur as k
       have hI := (‹RsInner _ _ _ _ _ _ _›).cast (q' := w.toNat) rfl (by omega)
       exact (hI.exit_none (by omega) ‹_›
         (wr_upd rfl k.toNat (by omega) (by rw [hI.size]; omega))).cast (by omega))
    -- exit of the inner loop, `n_valid != 0`
    | (have hI := (‹RsInner _ _ _ _ _ _ _›).cast (q' := w.toNat) rfl (by omega)
       exact (hI.exit_some (by omega) ‹_›).cast (by omega))
    -- incomplete window: nodata, `continue`
    | (py_name cur as i; py_name pref as pref
       have hO := ‹RsOuter _ _ _ _ _›
       exact hO.step_short (wr_upd rfl pref.length (by omega) (by rw [hO.size]; omega)) (by omega))
    -- entry of the inner loop (after `n_valid = 0`)
    | exact (‹RsOuter _ _ _ _ _›.enter).cast (by omega) rfl
    -- `yy[:] = 0`
    | exact RsOuter.init xx _ nd yy0 h0
    -- exit of the outer loop
    | exact (‹RsOuter _ _ _ _ _›.cast (by omega)).toList_eq

/-- The contract form: window size a natural number (any, including 0 and `> len(xx)`). -/
theorem gen_rolling_sum_eq_model (xx : List Int) (w : Nat) (nd : Int) (yy0 : Array Int)
    (h0 : yy0.size = xx.length) :
    (Gen.Kernels.rolling_sum xx.toArray (w : Int) nd yy0).toList = Hdc.rollingSum xx w nd := by
  rw [gen_rolling_sum_eq_model_int xx w nd yy0 h0, Int.toNat_natCast]

/-- A negative window size behaves as the window 0: every cell gets nodata. -/
theorem gen_rolling_sum_neg_window (xx : List Int) (w nd : Int) (hw : w ≤ 0) (yy0 : Array Int)
    (h0 : yy0.size = xx.length) :
    (Gen.Kernels.rolling_sum xx.toArray w nd yy0).toList = List.replicate xx.length nd := by
  rw [gen_rolling_sum_eq_model_int xx w nd yy0 h0, show w.toNat = 0 by omega]
  apply List.ext_getElem (by simp [rollingSum])
  intro j h1 h2
  simp [rollingSum]

/-- The result has the length of the input. -/
theorem gen_rolling_sum_size (xx : List Int) (w nd : Int) (yy0 : Array Int)
    (h0 : yy0.size = xx.length) :
    (Gen.Kernels.rolling_sum xx.toArray w nd yy0).size = xx.length := by
  have h := congrArg List.length (gen_rolling_sum_eq_model_int xx w nd yy0 h0)
  simpa [rollingSum] using h

/-! ### Non-vacuity: concrete inputs, evaluated on the model side -/

/-- windows of 3 over a series with two nodata cells (−1); the first two windows are incomplete, the
    window `[-1, -1, …]` never occurs here but `[2, -1, 4]` skips its nodata cell; the buffer starts
    with garbage -/
example : (Gen.Kernels.rolling_sum [1, 2, -1, 4, -1, -1, -1].toArray ((3 : ℕ) : ℤ) (-1)
      #[9, 9, 9, 9, 9, 9, 9]).toList = [-1, -1, 3, 6, 4, 4, -1] := by
  rw [gen_rolling_sum_eq_model _ 3 (-1) _ (by decide)]
  decide

/-- window larger than the series: all nodata -/
example : (Gen.Kernels.rolling_sum [1, 2].toArray ((5 : ℕ) : ℤ) (-1) #[0, 0]).toList
    = [-1, -1] := by
  rw [gen_rolling_sum_eq_model _ 5 (-1) _ (by decide)]
  decide

/-- window 0 and a negative window: all nodata -/
example : (Gen.Kernels.rolling_sum [1, 2].toArray ((0 : ℕ) : ℤ) (-1) #[0, 0]).toList
    = [-1, -1] := by
  rw [gen_rolling_sum_eq_model _ 0 (-1) _ (by decide)]
  decide
example : (Gen.Kernels.rolling_sum [1, 2].toArray (-4) (-1) #[0, 0]).toList = [-1, -1] :=
  gen_rolling_sum_neg_window [1, 2] (-4) (-1) (by omega) _ rfl


end Hdc.GenKernels
