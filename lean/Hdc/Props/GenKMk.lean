import Hdc.Lemmas.GenKernelsMK
import Hdc.Gen.KMkScoreCounts
import Std.Tactic.Do
/-
GenKernels  The GENERATED translations of four integer loop kernels (Hdc/Gen/K*.lean, one module per kernel, imperative
`Id.run do` programs over `Array Int` with Python index semantics, regenerated from the Python
sources on every verification run) compute their hand models.

Method (as in C01gen): the verification-condition generator `mvcgen` (Std.Do) is run on the generated
program with one invariant per loop, stated through ℕ-indexed functions of the model
(Hdc/Lemmas/GenKernels*.lean).  The generated expressions are never copied into this file: the position
of every `for … in range(a, b)` is recovered by `py_ranges`, reads `rd a i` are rewritten to ℕ-indexed
reads by `rd_nonneg` (side condition `0 ≤ i` by `omega`), writes `wr a i v` through `wr_upd`.
An invariant of an inner loop that mentions the loop variable of the enclosing loop names it by
`py_name cur as k` inside the invariant.

The verification conditions are not addressed by their generated tags (`vc3.step.isTrue…`, which
change when the branching structure of the source is rearranged) but by what they are: every proof
ends with `all_goals first | ‹step› | ‹entry› | ‹exit›`, each alternative failing quickly on the
conditions of the other kinds (a missing loop variable, an unprovable bound).
-/
namespace Hdc.GenKernels
open Hdc Hdc.Gen.Kernels Std.Do

set_option mvcgen.warning false
set_option linter.unusedSimpArgs false
set_option linter.unusedTactic false
set_option linter.unreachableTactic false

/-! ### mk_score: the two counters of the Mann-Kendall score -/

/-- The translated `mk_score` loop returns (#concordant, #discordant) of the model (any input,
    including the empty and the one-element series). -/
theorem gen_mk_score_eq_model (x : List Int) :
    Gen.Kernels.mk_score_counts x.toArray
      = (((Hdc.mkCounts x).1 : Int), ((Hdc.mkCounts x).2 : Int)) := by
  generalize hres : Gen.Kernels.mk_score_counts x.toArray = res
  apply Id.of_wp_run_eq hres
  mvcgen invariants
  -- outer loop, after `p` rows: everything the rows `< p` contribute
  · ⇓⟨xs, s⟩ => ⌜s = ((preA x xs.prefix.length : Int), (preB x xs.prefix.length : Int))⌝
  -- inner loop in row `k`, after `q` partners
  · ⇓⟨xs, s⟩ => by
      py_name cur as k
      exact ⌜s = ((preA x k.toNat + above x k.toNat xs.prefix.length : Int),
        (preB x k.toNat + below x k.toNat xs.prefix.length : Int))⌝
  all_goals
    py_ranges
    simp (config := {zetaDelta := true}) only [List.size_toArray, List.length_append,
      List.length_singleton, List.length_nil, pyRange_length, decide_eq_true_eq, gt_iff_lt, not_lt,
      Prod.mk.injEq] at *
  all_goals first
    -- one iteration of the inner loop (one condition per combination of the two `if`s)
    | (py_name cur as kk; py_name cur as k
       simp (disch := omega) only [rd_nonneg, gv_toArray] at *
       subst_vars
       rw [above_step x _ _ kk.toNat (by omega) (by omega),
         below_step x _ _ kk.toNat (by omega) (by omega)]
       constructor <;> split <;> omega)
    -- entry of the inner loop; exit of the inner loop: one more row counted
    | (py_name cur as k; py_name pref as pref
       have hk : k.toNat = pref.length := by omega
       have hq : ((x.length : ℤ) - (k + 1)).toNat = x.length - (pref.length + 1) := by omega
       subst_vars
       simp only [hk, hq, preA, preB, above_zero, below_zero, Nat.cast_zero, add_zero,
         Nat.cast_add, and_self])
    -- exit of the outer loop (it stops one row early: the last row has no partner)
    | (have hq : ((x.length : ℤ) - 1 - 0).toNat = x.length - 1 := by omega
       subst_vars
       rw [mkCounts_eq_pre x, hq]
       exact ⟨rfl, rfl⟩)

/-! ### Non-vacuity: concrete inputs, evaluated on the model side -/

/-- 4 concordant and 1 discordant pair, one tie -/
example : Gen.Kernels.mk_score_counts [1, 3, 2, 3].toArray = (4, 1) := by
  rw [gen_mk_score_eq_model]
  decide

example : Gen.Kernels.mk_score_counts ([] : List Int).toArray = (0, 0) := by
  rw [gen_mk_score_eq_model]
  decide


end Hdc.GenKernels
