import Hdc.Gen.GlueAnomalies
import Mathlib.Algebra.Field.Basic
import Mathlib.Algebra.Order.Field.Rat
import Mathlib.Tactic.NormNum
/-
GenGlueAnomalies  The GENERATED translation of `Anomalies.ratio` / `Anomalies.diff` (Hdc/Gen/GlueAnomalies.lean) over an abstract
carrier: x = the accessed object, r = the reference, o = the offset.

  gen_anomalies_ratio_eq            ratio x r o = (x + o) / (r + o) * 100                       (any carrier with + * / and 100)
  gen_anomalies_diff_eq             diff x r o = (x + o) − (r + o)                              (any carrier with + −)
  gen_anomalies_ratio_default_eq    ratio x r (default offset) = x / r * 100                    (a carrier where a + 0 = a)
  gen_anomalies_diff_default_eq     diff x r (default offset) = x − r
  gen_anomalies_diff_offset_free    diff x r o = x − r                                          (additive commutative group: exact arithmetic;
                                                                                                 false in floating point, see below)
  gen_anomalies_ratio_self          r + o ≠ 0 → ratio r r o = 100                               (field)
  gen_anomalies_ratio_eq_100_iff    r + o ≠ 0 → (ratio x r o = 100 ↔ x = r)                     (field of characteristic 0)
  gen_anomalies_ratio_pointwise     on arrays `ι → K`: (ratio x r o) i = ratio (x i) (r i) (o i)   (and the same for diff)
`r + o ≠ 0` is needed wherever the quotient is given a value: at r + o = 0 NumPy returns inf / nan (and warns), a field's
convention x / 0 = 0 is NOT what is claimed here, hence the hypothesis (counterexample below: ratio 5 (−1) 1 is 0 in ℚ, not 100).
-/
namespace Hdc.GenGlue
open Hdc.Gen.Glue

theorem gen_anomalies_ratio_eq {α : Type} [Add α] [Mul α] [Div α] [OfNat α 100] (x r o : α) :
    anomalies_ratio x r o = (x + o) / (r + o) * 100 := rfl

theorem gen_anomalies_diff_eq {α : Type} [Add α] [Sub α] (x r o : α) :
    anomalies_diff x r o = (x + o) - (r + o) := rfl

/-- the default offset is 0 and then the ratio is x / r * 100 -/
theorem gen_anomalies_ratio_default_eq {α : Type} [DivisionRing α] (x r : α) :
    anomalies_ratio_default x r = x / r * 100 := by
  simp only [anomalies_ratio_default, anomalies_ratio, add_zero]

theorem gen_anomalies_diff_default_eq {α : Type} [AddGroup α] (x r : α) :
    anomalies_diff_default x r = x - r := by
  simp only [anomalies_diff_default, anomalies_diff, add_zero]

/-- in exact arithmetic the difference anomaly does not depend on the offset -/
theorem gen_anomalies_diff_offset_free {α : Type} [AddCommGroup α] (x r o : α) :
    anomalies_diff x r o = x - r := by
  simp only [anomalies_diff, add_sub_add_right_eq_sub]

theorem gen_anomalies_ratio_self {α : Type} [Field α] (r o : α) (h : r + o ≠ 0) :
    anomalies_ratio r r o = 100 := by
  simp only [anomalies_ratio, div_self h, one_mul]

theorem gen_anomalies_ratio_eq_100_iff {α : Type} [Field α] [CharZero α] (x r o : α) (h : r + o ≠ 0) :
    anomalies_ratio x r o = 100 ↔ x = r := by
  have h100 : (100 : α) ≠ 0 := by norm_num
  simp only [anomalies_ratio]
  constructor
  · intro e
    have e1 : (x + o) / (r + o) = 1 := by
      have := mul_right_cancel₀ h100 (e.trans (one_mul (100 : α)).symm)
      exact this
    rw [div_eq_one_iff_eq h] at e1
    exact add_right_cancel e1
  · rintro rfl
    rw [div_self h, one_mul]

/-- element-wise on arrays (functions from an index set into a field) -/
theorem gen_anomalies_ratio_pointwise {ι K : Type} [Field K] (x r o : ι → K) (i : ι) :
    anomalies_ratio x r o i = anomalies_ratio (x i) (r i) (o i) ∧
    anomalies_diff x r o i = anomalies_diff (x i) (r i) (o i) := ⟨rfl, rfl⟩

/-! non-vacuity and necessity -/
example : anomalies_ratio (12 : ℚ) 10 0 = 120 ∧ anomalies_ratio (11 : ℚ) 9 1 = 120 ∧ anomalies_diff (12 : ℚ) 10 7 = 2 := by
  simp only [anomalies_ratio, anomalies_diff]; norm_num
example : anomalies_ratio_default (12 : ℚ) 10 = 120 ∧ anomalies_diff_default (12 : ℚ) 10 = 2 := by
  simp only [anomalies_ratio_default, anomalies_diff_default, anomalies_ratio, anomalies_diff]; norm_num
/- `r + o ≠ 0` is necessary: with r + o = 0 the field's quotient is 0, so `ratio r r o = 100` fails -/
example : anomalies_ratio (-1 : ℚ) (-1) 1 ≠ 100 := by
  simp only [anomalies_ratio]; norm_num
/- the ratio DOES depend on the offset (no offset-free law) -/
example : anomalies_ratio (12 : ℚ) 10 0 ≠ anomalies_ratio (12 : ℚ) 10 10 := by
  simp only [anomalies_ratio]; norm_num
/- commutativity / associativity is necessary for `diff` to be offset-free: saturating natural numbers (`Nat` subtraction) -/
example : anomalies_diff (1 : Nat) 3 0 = 0 ∧ (1 : Int) - 3 ≠ 0 := by decide

end Hdc.GenGlue
