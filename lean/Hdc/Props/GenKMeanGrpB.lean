import Hdc.Lemmas.GenKMeanGrpB
import Hdc.Gen.KMeanGrp
import Std.Tactic.Do
/-
GenKMeanGrpB  `Gen.Kernels.mean_grp` = `Hdc.meanGrp` under a BOUNDED exactness of the floating addition.

Hdc/Props/GenKMeanGrp.lean assumes `hadd : ∀ a b, F.add (F.lit a) (F.lit b) = F.lit (a + b)`: float addition exact on ALL
integers, which no floating type of finite precision satisfies.  Here the hypothesis is what IEEE binary64 provides,

    haddB : ∀ a b, |a| ≤ B → |b| ≤ B → |a + b| ≤ B → F.add (F.lit a) (F.lit b) = F.lit (a + b)        (B = 2^53 for float64)

(operands and exact result within the range in which every integer is representable), and in exchange the data must keep
the accumulator `avg` within that range:

    hB : for every group g in 0 .. num_groups-1 the absolute values of the valid cells of the group sum to at most B
         (`Hdc.grpAbsSum xx groups nodata g ≤ B`, Hdc/Model/RoundAcc.lean).

`|n| ≤ B` is written `n.natAbs ≤ B`.  The proof is the one of GenKMeanGrp.lean with the step `avg += pixv` taken from
Hdc/Lemmas/GenKMeanGrpB.lean (`MgInner.moreB`); the invariants are unchanged.
-/
namespace Hdc.GenKMeanGrp
open Hdc Hdc.Gen.Kernels Hdc.PyNpT Hdc.GenKernels Std.Do

set_option mvcgen.warning false
set_option linter.unusedSimpArgs false
set_option linter.unusedTactic false
set_option linter.unreachableTactic false

variable {β : Type}

/-- The translated `mean_grp` overwrites every cell whose label `k` lies in `0 .. num_groups-1` with the mean of the
    valid cells of its group, given by the model's exact (sum, count) (as `gen_mean_grp_eq_model_int`).

    Hypotheses: `haddB`, additions of integers are exact in the floating type AS LONG AS operands and result stay within
    `B`; `hB`, per group the absolute values of the valid cells sum to at most `B` (so every partial sum does, in any order of
    the cells); `h0`, one buffer cell per label.  Everything else as general as in `gen_mean_grp_eq_model_int`. -/
theorem gen_mean_grp_eq_model_int_B (F : FloatOps β) (B : ℕ)
    (haddB : ∀ a b : Int, a.natAbs ≤ B → b.natAbs ≤ B → (a + b).natAbs ≤ B →
      F.add (F.lit a) (F.lit b) = F.lit (a + b))
    (xx groups : List Int) (numGroups : Int) (nodata : Int) (yy0 : Array β)
    (h0 : yy0.size = groups.length)
    (hB : ∀ g : Int, 0 ≤ g → g < numGroups → grpAbsSum xx groups nodata g ≤ B) :
    (Gen.Kernels.mean_grp F xx.toArray groups.toArray numGroups nodata yy0).toList
      = List.zipWith (fun (o : Option (Int × Nat)) (y : β) =>
          o.elim y fun sc => F.quot (F.lit nodata) sc.1 sc.2)
        (Hdc.meanGrp xx groups numGroups.toNat nodata) yy0.toList := by
  rw [← mgAfter_final]
  simp only [grpAbsSum_eq] at hB
  generalize hres : Gen.Kernels.mean_grp F xx.toArray groups.toArray numGroups nodata yy0 = res
  apply Id.of_wp_run_eq hres
  mvcgen invariants
  -- outer loop, state `(yy, grp_ix, pix, n, avg)`: the groups `< p` are stored
  · ⇓⟨xs, s⟩ => ⌜s.1.toList = mgAfter F xx groups nodata yy0.toList xs.prefix.length⌝
  -- inner loop, state `(n, avg)`: count and sum of the valid cells among the first `q` cells of `xx[groups == grp]`
  · ⇓⟨xs, s⟩ => by
      py_name cur as k
      exact ⌜MgInner F nodata (gsel xx groups k) xs.prefix.length s.1 s.2⌝
  all_goals
    py_ranges
    simp (config := {zetaDelta := true}) only [npCompress_eqMask, List.size_toArray,
      List.length_append, List.length_singleton, List.length_nil, pyRange_length,
      decide_eq_true_eq, not_lt] at *
  all_goals first
    -- inner loop: a nodata cell (`continue`), the first valid cell (`avg = pixv`), a further one (`avg += pixv`)
    | (py_name pref as pref; py_name cur as i; py_name cur as g
       simp (disch := omega) only [rd_nonneg, gv_toArray] at *
       have hi : i.toNat = pref.length := by omega
       simp only [hi] at *
       first
         | exact (‹MgInner _ _ _ _ _ _›).skip (by omega) ‹_›
         | exact (‹MgInner _ _ _ _ _ _›).first (by omega) ‹_› ‹_›
         | exact (‹MgInner _ _ _ _ _ _›).moreB haddB (hB g (by omega) (by omega)) (by omega) ‹_› ‹_›)
    -- entry of the inner loop (`n = 0`)
    | exact MgInner.init F nodata _ _
    -- exit of the inner loop, `avg = nodata` / `avg = avg / n`, and the masked store `yy[grp_ix] = avg`
    | (py_name pref as pref; py_name cur as g
       obtain rfl : g = (pref.length : ℤ) := by omega
       refine mgAfter_step ‹_› (by rw [Array.length_toList (xs := yy0)]; omega)
         (by simpa using ‹MgInner _ _ _ _ _ _›) ?_
       simp only [*, if_true, if_false])
    -- entry and exit of the outer loop
    | exact (mgAfter_zero F xx groups nodata yy0.toList
        (by rw [Array.length_toList (xs := yy0)]; omega)).symm
    | (rename_i h; rw [Int.sub_zero] at h; exact h)

/-- The contract form: `num_groups` a natural number. -/
theorem gen_mean_grp_eq_model_B (F : FloatOps β) (B : ℕ)
    (haddB : ∀ a b : Int, a.natAbs ≤ B → b.natAbs ≤ B → (a + b).natAbs ≤ B →
      F.add (F.lit a) (F.lit b) = F.lit (a + b))
    (xx groups : List Int) (numGroups : Nat) (nodata : Int) (yy0 : Array β)
    (h0 : yy0.size = groups.length)
    (hB : ∀ g : Int, 0 ≤ g → g < (numGroups : Int) → grpAbsSum xx groups nodata g ≤ B) :
    (Gen.Kernels.mean_grp F xx.toArray groups.toArray (numGroups : Int) nodata yy0).toList
      = List.zipWith (fun (o : Option (Int × Nat)) (y : β) =>
          o.elim y fun sc => F.quot (F.lit nodata) sc.1 sc.2)
        (Hdc.meanGrp xx groups numGroups nodata) yy0.toList := by
  rw [gen_mean_grp_eq_model_int_B F B haddB xx groups numGroups nodata yy0 h0 hB, Int.toNat_natCast]

/-- A sufficient condition in the style of C16 `sum_bound`: `n` data cells of absolute value ≤ `M` with `n · M ≤ B`. -/
theorem grpAbsSum_le (xx groups : List Int) (nd g : Int) (M : ℕ)
    (hM : ∀ x ∈ xx, x ≠ nd → x.natAbs ≤ M) : grpAbsSum xx groups nd g ≤ xx.length * M := by
  unfold grpAbsSum
  have key : ∀ l : List (Int × Int), (∀ p ∈ l, p.1.natAbs ≤ M) → (l.map fun p => p.1.natAbs).sum ≤ l.length * M := by
    intro l hl
    induction l with
    | nil => simp
    | cons p ps ih =>
      have := hl p (by simp)
      have := ih (fun q hq => hl q (by simp [hq]))
      simp only [List.map_cons, List.sum_cons, List.length_cons, Nat.add_mul, Nat.one_mul]
      omega
  refine Nat.le_trans (key _ ?_) (Nat.mul_le_mul_right M ?_)
  · intro p hp
    rw [List.mem_filter] at hp
    obtain ⟨v, k⟩ := p
    have hv : v ≠ nd := by have := hp.2; simp at this; exact this.2
    exact hM v (List.of_mem_zip hp.1).1 hv
  · refine Nat.le_trans (List.length_filter_le _ _) ?_
    rw [List.length_zip]; exact Nat.min_le_left _ _

/-- float64 accumulator, `n` cells of absolute value ≤ `M`, `n · M ≤ 2^53` (e.g. every int16 vector of up to 2^38 cells,
    every int32 vector of up to 2^22 cells): the unconditional conclusion. -/
theorem gen_mean_grp_eq_model_f64 (F : FloatOps β)
    (haddB : ∀ a b : Int, a.natAbs ≤ B64 → b.natAbs ≤ B64 → (a + b).natAbs ≤ B64 →
      F.add (F.lit a) (F.lit b) = F.lit (a + b))
    (xx groups : List Int) (numGroups : Nat) (nodata : Int) (yy0 : Array β) (M : ℕ)
    (h0 : yy0.size = groups.length) (hM : ∀ x ∈ xx, x ≠ nodata → x.natAbs ≤ M)
    (hn : xx.length * M ≤ 2 ^ 53) :
    (Gen.Kernels.mean_grp F xx.toArray groups.toArray (numGroups : Int) nodata yy0).toList
      = List.zipWith (fun (o : Option (Int × Nat)) (y : β) =>
          o.elim y fun sc => F.quot (F.lit nodata) sc.1 sc.2)
        (Hdc.meanGrp xx groups numGroups nodata) yy0.toList :=
  gen_mean_grp_eq_model_B F B64 haddB xx groups numGroups nodata yy0 h0
    (fun g _ _ => Nat.le_trans (grpAbsSum_le xx groups nodata g M hM) hn)

/-- **The old theorem is the special case "B = ∞".**  An unconditional `hadd` is a bounded one for EVERY `B`; taking `B` = the
    largest `grpAbsSum` of the input (here simply the sum over all groups' bound `xx.length · max |x|`, any upper bound does)
    discharges `hB`.  So `gen_mean_grp_eq_model` of Hdc/Props/GenKMeanGrp.lean follows from the bounded theorem: -/
theorem gen_mean_grp_eq_model_of_unbounded (F : FloatOps β)
    (hadd : ∀ a b : Int, F.add (F.lit a) (F.lit b) = F.lit (a + b))
    (xx groups : List Int) (numGroups : Nat) (nodata : Int) (yy0 : Array β)
    (h0 : yy0.size = groups.length) :
    (Gen.Kernels.mean_grp F xx.toArray groups.toArray (numGroups : Int) nodata yy0).toList
      = List.zipWith (fun (o : Option (Int × Nat)) (y : β) =>
          o.elim y fun sc => F.quot (F.lit nodata) sc.1 sc.2)
        (Hdc.meanGrp xx groups numGroups nodata) yy0.toList := by
  -- B := n · M with M := the sum of all |x| (an upper bound of each |x|)
  let M : ℕ := (xx.map Int.natAbs).sum
  have key : ∀ l : List Int, ∀ x ∈ l, x.natAbs ≤ (l.map Int.natAbs).sum := by
    intro l
    induction l with
    | nil => simp
    | cons y ys ih =>
      intro x hx
      rcases List.mem_cons.mp hx with rfl | hx
      · simp
      · have := ih x hx; simp only [List.map_cons, List.sum_cons]; omega
  have hM : ∀ x ∈ xx, x ≠ nodata → x.natAbs ≤ M := fun x hx _ => key xx x hx
  exact gen_mean_grp_eq_model_B F (xx.length * M) (fun a b _ _ _ => hadd a b) xx groups numGroups nodata yy0 h0
    (fun g _ _ => grpAbsSum_le xx groups nodata g M hM)

/-! ### Non-vacuity, and the hypotheses are needed -/

/-- a float type that ROUNDS (`FloatOps.pairR toy`: pairs (numerator, denominator), additions exact up to 4, above only even values):
    within the bound (group 0: |1| + |2| = 3 ≤ 4, group 1: |−3| = 3) the exact (sum, count) pairs -/
example : (Gen.Kernels.mean_grp (FloatOps.pairR IntRound.toy) [1, -3, 2, -1].toArray [0, 1, 0, 1].toArray
      ((2 : ℕ) : ℤ) (-1) #[(9, 9), (9, 9), (9, 9), (9, 9)]).toList
    = [(3, 2), (-3, 1), (3, 2), (-3, 1)] := by
  rw [gen_mean_grp_eq_model_B (FloatOps.pairR IntRound.toy) 4 (FloatOps.pairR_hadd IntRound.toy) _ _ 2 (-1) _ (by decide)
    (by intro g h0 h1; obtain rfl | rfl : g = 0 ∨ g = 1 := by omega
        all_goals decide)]
  decide

/-- `hB` is needed: the same float type, a group whose absolute values sum to 5 > 4: the program returns the ROUNDED sum 4,
    the model's exact sum is 5.  (`haddB` holds for `FloatOps.pairR toy` with B = 4 - `FloatOps.pairR_hadd` - so only `hB` fails.) -/
theorem mean_grp_bound_needed :
    (Gen.Kernels.mean_grp (FloatOps.pairR IntRound.toy) #[3, 2] #[0, 0] 1 (-1) #[(9, 9), (9, 9)]).toList
      = [(4, 2), (4, 2)] ∧
    Hdc.meanGrp [3, 2] [0, 0] 1 (-1) = [some (5, 2), some (5, 2)] ∧
    grpAbsSum [3, 2] [0, 0] (-1) 0 = 5 := by
  decide +kernel

/-- `haddB` is needed: with B = 6 the data of `mean_grp_bound_needed` satisfies `hB` (5 ≤ 6), but the float type `pairR toy`
    is exact only up to 4 - `haddB` fails at 3 + 2 - and program and model differ (4 vs 5, see `mean_grp_bound_needed`) -/
theorem mean_grp_haddB_needed :
    (∀ g : Int, 0 ≤ g → g < 1 → grpAbsSum [3, 2] [0, 0] (-1) g ≤ 6) ∧
    ¬ (∀ a b : Int, a.natAbs ≤ 6 → b.natAbs ≤ 6 → (a + b).natAbs ≤ 6 →
      (FloatOps.pairR IntRound.toy).add ((FloatOps.pairR IntRound.toy).lit a) ((FloatOps.pairR IntRound.toy).lit b)
        = (FloatOps.pairR IntRound.toy).lit (a + b)) := by
  refine ⟨fun g h0 h1 => ?_, fun h => absurd (h 3 2 (by decide) (by decide) (by decide)) (by decide)⟩
  obtain rfl : g = 0 := by omega
  decide

/-- the unconditional `hadd` of GenKMeanGrp.lean is FALSE for this float type (and for every type that rounds) -/
theorem unconditional_hadd_fails :
    ¬ ∀ a b : Int, (FloatOps.pairR IntRound.toy).add ((FloatOps.pairR IntRound.toy).lit a) ((FloatOps.pairR IntRound.toy).lit b)
      = (FloatOps.pairR IntRound.toy).lit (a + b) := by
  intro h
  exact absurd (h 3 2) (by decide)

/-- binary64 on the integers (`FloatOps.pairR IntRound.f64`): two valid cells 2^53 and 1 in one group, the `+ 1` is lost -/
theorem mean_grp_f64_witness :
    (Gen.Kernels.mean_grp (FloatOps.pairR IntRound.f64) #[9007199254740992, 1] #[0, 0] 1 (-1) #[(9, 9), (9, 9)]).toList
      = [(9007199254740992, 2), (9007199254740992, 2)] ∧
    Hdc.meanGrp [9007199254740992, 1] [0, 0] 1 (-1)
      = [some (9007199254740993, 2), some (9007199254740993, 2)] := by
  decide +kernel

end Hdc.GenKMeanGrp
