import Hdc.Lemmas.GenNumMkVar
import Hdc.Gen.NumMkVariance
import Std.Tactic.Do
/-
GenNumMkVar  The GENERATED translation of `ops/stats.py::mk_variance_s` (Hdc/Gen/NumMkVariance.lean,
harness/py2lean_stats.py) returns `F.ofInt (mkVar18 x) / 18`, the model's integer `18 · Var(S)` (`Hdc.mkVar18`, via
`Hdc.tieSizes`) converted and divided as `Hdc.mkTrend` does.

EXTERNAL: `np.unique(x)` is mapped to `PyNpT.npUnique` = the model's own `Hdc.Py.unique` (sorted distinct values by insertion):
the refinement is modulo this identification.  The tie counting (two nested loops with `==` on the data) and both
`return`s are translated and proved.  The int -> float conversion of the numerator is `F.ofInt` on both sides.
-/
namespace Hdc.GenNumMk
open Hdc Hdc.Gen.NumKernels Hdc.PyNpT Hdc.GenNum Std.Do
open Hdc.Ws2d (fnl)

set_option mvcgen.warning false
set_option linter.unusedSimpArgs false
set_option linter.unusedTactic false
set_option linter.unreachableTactic false

variable {α : Type} [Field α] [LinearOrder α]

/-- The translated `mk_variance_s` equals the model, for every series (also the empty one) and every `F`.
    No hypothesis.  (`[Field α] [LinearOrder α]` only: the lemmas about the cells read them with default 0.) -/
theorem gen_mk_variance_s_eq_model (F : MKFns α) (x : List α) :
    Gen.NumKernels.mk_variance_s F x.toArray = F.ofInt (Hdc.mkVar18 x) / nat 18 := by
  rw [mkVar18_eq]
  generalize hres : Gen.NumKernels.mk_variance_s F x.toArray = res
  apply Id.of_wp_run_eq hres
  mvcgen invariants
  · ⇓⟨xs, s⟩ => ⌜s.2 = tpSum x xs.prefix.length⌝
  · ⇓⟨xs, s⟩ => by
      py_name cur as i
      exact ⌜s = (cntEq (fnl (Hdc.Py.unique x) i.toNat) (x.take xs.prefix.length) : ℕ)⌝
  all_goals
    pyn_ranges
    simp (config := {zetaDelta := true}) only [npUnique, List.size_toArray, List.length_append,
      List.length_singleton, List.length_nil, pyRange_length, decide_eq_true_eq, Nat.cast_inj,
      Int.sub_zero, Int.zero_add, Int.toNat_natCast, List.take_length] at *
    py_subst_ranges
    try simp only [Int.toNat_natCast] at *
  all_goals first
    -- all values distinct: `return n (n-1) (2n+5) / 18`;  after the loops: `return (… - tp) / 18`
    | (simp only [*, if_true, if_false]; done)
    -- one cell of the inner loop: `if xu[i] == x[ii]: _tp += 1`
    | (simp only [rd_of_eq _ _ _ rfl, av_toArray] at *
       rw [cntEq_take_succ _ x _ (by omega)]
       simp only [*, if_true, if_false, Bool.false_eq_true, add_zero]; done)
    -- exit of the inner loop: `tp += _tp (_tp - 1) (2 _tp + 5)`
    | (rw [tpSum_succ x _ (by omega)]
       simp only [*, tieTerm]; done)

/-! ### Non-vacuity: concrete rational inputs -/

/-- no ties: 4 · 3 · 13 / 18 -/
example : Gen.NumKernels.mk_variance_s (⟨id, id, 1 / 2, 2, fun i => (i : ℚ)⟩ : MKFns ℚ) [4, 1, 3, 2].toArray
    = 26 / 3 := by
  rw [gen_mk_variance_s_eq_model]; decide +kernel

/-- ties of sizes 2 and 3: (5 · 4 · 15 − 2 · 1 · 9 − 3 · 2 · 11) / 18 -/
example : Gen.NumKernels.mk_variance_s (⟨id, id, 1 / 2, 2, fun i => (i : ℚ)⟩ : MKFns ℚ) [2, 1, 2, 1, 2].toArray
    = 12 := by
  rw [gen_mk_variance_s_eq_model]; decide +kernel

end Hdc.GenNumMk
