import Hdc.Gen.SafeMkVariance
import Hdc.Gen.NumMkVariance
import Hdc.Lemmas.SafeMk
import Mathlib.Algebra.Order.Ring.Rat
import Std.Tactic.Do
/-
SafeMkVariance  Safety of `hdc/algo/ops/stats.py::mk_variance_s`, proved FROM THE SOURCE: `Hdc.Gen.Safe.mk_variance_s`
(Hdc/Gen/SafeMkVariance.lean, written by harness/py2lean_stats.py, class `SafeKN`) is the statement-by-statement translation
plus the flag `bad`, set by
    `oob xu.size i`, `oob x.size ii`   the subscripts of `if xu[i] == x[ii]` (`i in range(len(xu))`, `ii in range(n)`, `n = len(x)`)
(no check: both `/ 18` by a literal; `xu = np.unique(x)`: total; the integer arithmetic of the tie terms.)

  safe_mk_variance_s_fst   (Safe.mk_variance_s F x).1 = Gen.NumKernels.mk_variance_s F x      every carrier, every input
  safe_mk_variance_s_ok    the flag is false for EVERY input and every `F`, over the bare operator classes: NO contract
                           (each subscript is the variable of a `range(len ..)` loop over the same array)
  `example`s               concrete rational series (`SafeMk.Fq`: the toy `MKFns ℚ` of Hdc/Props/GenNumMkVar.lean): without ties (early `return`), with ties (both loops), empty
-/
namespace Hdc.SafeMkVariance
open Hdc Hdc.Gen.NumKernels Hdc.GenNum Hdc.SafeL Hdc.SafeSimN Hdc.PyNpT Hdc.SafeMk Std.Do

set_option mvcgen.warning false
set_option linter.unusedSimpArgs false
set_option linter.unusedTactic false
set_option linter.unreachableTactic false
set_option linter.unusedSectionVars false

/-- (i) the instrumented program is the translated source plus a flag -/
theorem safe_mk_variance_s_fst {α : Type} [Add α] [Sub α] [Mul α] [Div α] [Neg α] [NatCast α] [LT α] [DecidableLT α]
    (F : MKFns α) (x : Array α) :
    (Gen.Safe.mk_variance_s F x).1 = Gen.NumKernels.mk_variance_s F x := by
  unfold Gen.Safe.mk_variance_s Gen.NumKernels.mk_variance_s
  safe_sim

/-- (ii) the flag is false: for every series (no hypothesis) no subscript leaves its array -/
theorem safe_mk_variance_s_ok {α : Type} [Add α] [Sub α] [Mul α] [Div α] [Neg α] [NatCast α] [LT α] [DecidableLT α]
    (F : MKFns α) (x : Array α) :
    (Gen.Safe.mk_variance_s F x).2 = false := by
  generalize hres : Gen.Safe.mk_variance_s F x = res
  apply Id.of_wp_run_eq hres
  mvcgen invariants
  · ⇓⟨xs, s⟩ => ⌜s.1 = false⌝
  · ⇓⟨xs, s⟩ => ⌜s.1 = false⌝
  all_goals
    pyn_ranges
    simp (config := {zetaDelta := true}) only [Bool.or_eq_false_iff, oob_eq_false_iff] at *
    refine ⟨⟨by assumption, ?_⟩, ?_⟩ <;> omega

/-! ### Non-vacuity (ℚ).  There is no contract hypothesis, hence no input with the flag set; that the checks are live is
shown by the source mutations of the report (each one makes `safe_mk_variance_s_ok` fail). -/

example : (Gen.Safe.mk_variance_s Fq #[2, 1, 2, 1, 2]).2 = false := safe_mk_variance_s_ok _ _
/-- by evaluation: ties of sizes 2 and 3 (both loops run); no ties (the early `return`); the empty series -/
example : Gen.Safe.mk_variance_s Fq #[2, 1, 2, 1, 2] = (12, false) := by decide +kernel
example : Gen.Safe.mk_variance_s Fq #[4, 1, 3, 2] = (26 / 3, false) := by decide +kernel
example : Gen.Safe.mk_variance_s Fq #[] = (0, false) := by decide +kernel

end Hdc.SafeMkVariance
